import MuscleModel.Engines.Filter
import MuscleModel.Engines.Gateway
import MuscleModel.Engines.Hashtable
import MuscleModel.Engines.Msg
import MuscleModel.Engines.Parse
import MuscleModel.Engines.Pulse
import MuscleModel.Engines.Queue
import MuscleModel.Engines.RWMutex
import MuscleModel.Engines.RefCount
import MuscleModel.Engines.Srv
import MuscleModel.Engines.Str
import MuscleModel.Engines.ThreadPool
import MuscleModel.Engines.ThreadQueue
import MuscleModel.Engines.Tunnel
import MuscleModel.Engines.Wildcard

open Muscle.Eng

partial def loop (h : IO.FS.Stream) (out : IO.FS.Stream) (e : Engine) (s : e.σ) : IO Unit := do
  let line ← h.getLine
  if line.isEmpty then return ()
  let toks := tokens line
  if toks.isEmpty then loop h out e s else
  let (s', o) := e.step s toks
  out.putStrLn o
  loop h out e s'

def engines : List (String × Engine) := [
  ("qf", FilterEngine.engine),
  ("gw", GwEngine.engine),
  ("ht", HtEngine.engine),
  ("msg", MsgEngine.engine),
  ("parse", ParseEngine.engine),
  ("pn", PulseEngine.engine),
  ("q", QueueEngine.engine),
  ("rw", RWEngine.engine),
  ("rc", RCEngine.engine),
  ("srv", SrvEngine.engine),
  ("str", StrEngine.engine),
  ("tp", TPEngine.engine),
  ("thr", ThrEngine.engine),
  ("tun", TunEngine.engine),
  ("wc", WcEngine.engine)
]

def main (args : List String) : IO UInt32 := do
  match args with
  | [name] =>
    match engines.lookup name with
    | some e =>
      let stdin ← IO.getStdin
      let stdout ← IO.getStdout
      loop stdin stdout e e.init
      return 0
    | none => IO.eprintln s!"unknown engine {name}"; return 2
  | _ => IO.eprintln "usage: mdriver <engine> < ops"; return 2
