import MuscleModel.Base.Bytes
import MuscleModel.Generated.Constants
import MuscleModel.Wire.Msg
import MuscleModel.Wire.Decode
import MuscleModel.Wire.Ops
import MuscleModel.Engines.Common
import MuscleModel.Engines.Msg
import MuscleModel.Engines.Srv
