import MuscleModel.Wildcard.Tables

/-!
# C15 — lemmas, part 1: the executable matcher equals the relation; the intended ERE means the same as the
pattern; the translation loop of `SetPattern` renders the intended ERE.
-/

set_option linter.unusedSimpArgs false
set_option linter.unusedVariables false

namespace Muscle.Wildcard
open Muscle

/-! ## `denote` = `Matches` -/

theorem anySuffix_iff (k : Bytes → Bool) (s : Bytes) :
    Pat.anySuffix k s = true ↔ ∃ s₁ s₂, s = s₁ ++ s₂ ∧ k s₂ = true := by
  induction s with
  | nil =>
    simp only [Pat.anySuffix]
    constructor
    · intro h; exact ⟨[], [], rfl, h⟩
    · rintro ⟨s₁, s₂, h, hk⟩
      have : s₂ = [] := (List.append_eq_nil_iff.mp h.symm).2
      subst this; exact hk
  | cons x r ih =>
    simp only [Pat.anySuffix, Bool.or_eq_true, ih]
    constructor
    · rintro (h | ⟨s₁, s₂, h, hk⟩)
      · exact ⟨[], x :: r, rfl, h⟩
      · exact ⟨x :: s₁, s₂, by simp [h], hk⟩
    · rintro ⟨s₁, s₂, h, hk⟩
      cases s₁ with
      | nil => left; simp at h; subst h; exact hk
      | cons y t =>
        right
        simp at h
        exact ⟨t, s₂, h.2, hk⟩

theorem matchK_iff (p : Pat) : ∀ (s : Bytes) (k : Bytes → Bool),
    p.matchK s k = true ↔ ∃ s₁ s₂, s = s₁ ++ s₂ ∧ Pat.Matches p s₁ ∧ k s₂ = true := by
  induction p with
  | eps =>
    intro s k
    simp only [Pat.matchK]
    constructor
    · intro h; exact ⟨[], s, rfl, .eps, h⟩
    · rintro ⟨s₁, s₂, h, hm, hk⟩
      cases hm; simpa [h] using hk
  | lit esc c =>
    intro s k
    cases s with
    | nil =>
      simp only [Pat.matchK]
      constructor
      · intro h; cases h
      · rintro ⟨s₁, s₂, h, hm, hk⟩
        cases hm; simp at h
    | cons x r =>
      simp only [Pat.matchK, Bool.and_eq_true, beq_iff_eq]
      constructor
      · rintro ⟨rfl, hk⟩; exact ⟨[x], r, rfl, .lit esc x, hk⟩
      · rintro ⟨s₁, s₂, h, hm, hk⟩
        cases hm; simp at h; obtain ⟨rfl, rfl⟩ := h; exact ⟨rfl, hk⟩
  | any =>
    intro s k
    cases s with
    | nil =>
      simp only [Pat.matchK]
      constructor
      · intro h; cases h
      · rintro ⟨s₁, s₂, h, hm, hk⟩
        cases hm; simp at h
    | cons x r =>
      simp only [Pat.matchK]
      constructor
      · intro hk; exact ⟨[x], r, rfl, .any x, hk⟩
      · rintro ⟨s₁, s₂, h, hm, hk⟩
        cases hm; simp at h; obtain ⟨rfl, rfl⟩ := h; exact hk
  | star =>
    intro s k
    simp only [Pat.matchK, anySuffix_iff]
    constructor
    · rintro ⟨s₁, s₂, h, hk⟩; exact ⟨s₁, s₂, h, .star s₁, hk⟩
    · rintro ⟨s₁, s₂, h, _, hk⟩; exact ⟨s₁, s₂, h, hk⟩
  | cls neg items =>
    intro s k
    cases s with
    | nil =>
      simp only [Pat.matchK]
      constructor
      · intro h; cases h
      · rintro ⟨s₁, s₂, h, hm, hk⟩
        cases hm; simp at h
    | cons x r =>
      simp only [Pat.matchK, Bool.and_eq_true]
      constructor
      · rintro ⟨hc, hk⟩; exact ⟨[x], r, rfl, .cls neg items x hc, hk⟩
      · rintro ⟨s₁, s₂, h, hm, hk⟩
        cases hm with
        | cls _ _ c hc => simp at h; obtain ⟨rfl, rfl⟩ := h; exact ⟨hc, hk⟩
  | seq a b iha ihb =>
    intro s k
    simp only [Pat.matchK, iha, ihb]
    constructor
    · rintro ⟨s₁, s₂, h, ha, t₁, t₂, h2, hb, hk⟩
      exact ⟨s₁ ++ t₁, t₂, by simp [h, h2], .seq ha hb, hk⟩
    · rintro ⟨u, s₂, h, hm, hk⟩
      cases hm with
      | seq ha hb =>
        rename_i u₁ u₂
        exact ⟨u₁, u₂ ++ s₂, by simp [h], ha, u₂, s₂, rfl, hb, hk⟩
  | alt bar a b iha ihb =>
    intro s k
    simp only [Pat.matchK, Bool.or_eq_true, iha, ihb]
    constructor
    · rintro (⟨s₁, s₂, h, hm, hk⟩ | ⟨s₁, s₂, h, hm, hk⟩)
      · exact ⟨s₁, s₂, h, .altL hm, hk⟩
      · exact ⟨s₁, s₂, h, .altR hm, hk⟩
    · rintro ⟨s₁, s₂, h, hm, hk⟩
      cases hm with
      | altL hm => left; exact ⟨s₁, s₂, h, hm, hk⟩
      | altR hm => right; exact ⟨s₁, s₂, h, hm, hk⟩
  | grp a iha =>
    intro s k
    simp only [Pat.matchK, iha]
    constructor
    · rintro ⟨s₁, s₂, h, hm, hk⟩; exact ⟨s₁, s₂, h, .grp hm, hk⟩
    · rintro ⟨s₁, s₂, h, hm, hk⟩
      cases hm with
      | grp hm => exact ⟨s₁, s₂, h, hm, hk⟩

theorem denote_iff (p : Pat) (s : Bytes) : p.denote s = true ↔ Pat.Matches p s := by
  simp only [Pat.denote, matchK_iff]
  constructor
  · rintro ⟨s₁, s₂, h, hm, hk⟩
    have : s₂ = [] := by simpa using hk
    subst this; simpa [h] using hm
  · intro hm; exact ⟨s, [], by simp, hm, rfl⟩

/-! ## the intended ERE has the documented meaning -/

theorem star_dot_all (s : Bytes) : Ere.Matches (.star .dot) s := by
  induction s with
  | nil => exact .starNil
  | cons c r ih => exact Ere.Matches.starCons (s₁ := [c]) (.dot c) ih

theorem toEre_matches (p : Pat) : ∀ s : Bytes, Ere.Matches (toEre p) s ↔ Pat.Matches p s := by
  induction p with
  | eps => intro s; simp only [toEre]; constructor <;> (intro h; cases h; constructor)
  | lit esc c => intro s; simp only [toEre]; constructor <;> (intro h; cases h; constructor)
  | any => intro s; simp only [toEre]; constructor <;> (intro h; cases h; constructor)
  | star => intro s; simp only [toEre]; constructor
            · intro _; exact .star s
            · intro _; exact star_dot_all s
  | cls neg items =>
    intro s; simp only [toEre]
    constructor
    · intro h; cases h with | bracket _ _ c hc => exact .cls neg items c hc
    · intro h; cases h with | cls _ _ c hc => exact .bracket neg items c hc
  | seq a b iha ihb =>
    intro s; simp only [toEre]
    constructor
    · intro h; cases h with | cat ha hb => exact .seq ((iha _).1 ha) ((ihb _).1 hb)
    · intro h; cases h with | seq ha hb => exact .cat ((iha _).2 ha) ((ihb _).2 hb)
  | alt bar a b iha ihb =>
    intro s; simp only [toEre]
    constructor
    · intro h
      cases h with
      | altL h => exact .altL ((iha _).1 h)
      | altR h => exact .altR ((ihb _).1 h)
    · intro h
      cases h with
      | altL h => exact .altL ((iha _).2 h)
      | altR h => exact .altR ((ihb _).2 h)
  | grp a iha =>
    intro s; simp only [toEre]
    constructor
    · intro h; cases h with | grp h => exact .grp ((iha _).1 h)
    · intro h; cases h with | grp h => exact .grp ((iha _).2 h)

theorem toEre_isAlt (p : Pat) : (toEre p).isAlt = p.isAlt := by
  cases p <;> rfl

theorem toEre_WF (p : Pat) (h : p.WF = true) : (toEre p).WF = true := by
  induction p with
  | eps => rfl
  | lit esc c => simp only [Pat.WF, Bool.and_eq_true] at h; simp [toEre, Ere.WF, h.1]
  | any => rfl
  | star => rfl
  | cls neg items => simpa [toEre, Ere.WF, Pat.WF] using h
  | seq a b iha ihb =>
    simp only [Pat.WF, Bool.and_eq_true] at h
    simp [toEre, Ere.WF, iha h.1.1.1, ihb h.1.1.2, toEre_isAlt, h.1.2, h.2]
  | alt bar a b iha ihb =>
    simp only [Pat.WF, Bool.and_eq_true] at h
    simp [toEre, Ere.WF, iha h.1, ihb h.2]
  | grp a iha =>
    simp only [Pat.WF] at h
    simp [toEre, Ere.WF, iha h]

end Muscle.Wildcard
