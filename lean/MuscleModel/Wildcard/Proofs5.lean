import MuscleModel.Wildcard.Parse
import MuscleModel.Wildcard.Proofs4

/-!
# C15 — lemmas, part 5: the driver's pattern parser is sound — whatever it returns renders back to its input
and is well-formed.  (So the parser is not in the trusted base even without the run-time re-check in `inGrammar`.)
-/

set_option linter.unusedSimpArgs false
set_option linter.unusedVariables false

namespace Muscle.Wildcard
open Muscle

theorem parseItemsF_sound : ∀ (f : Nat) (inp : Bytes) items rest,
    parseItemsF f inp = some (items, rest) →
      inp = renderItems items ++ cRBr :: rest ∧ items.all ClsItem.WF = true := by
  intro f
  induction f with
  | zero => intro inp items rest h; unfold parseItemsF at h; cases h
  | succ f ih =>
    intro inp items rest h
    unfold parseItemsF at h
    split at h
    · cases h
    · rename_i c r
      split at h
      · rename_i hc
        simp only [beq_iff_eq] at hc
        cases h; subst hc
        exact ⟨by simp [renderItems], rfl⟩
      · split at h
        · cases h
        · rename_i hcc
          simp only [Bool.not_eq_true', Bool.not_eq_false] at hcc
          have single : ∀ items rest, (parseItemsF f r).map (fun p => (ClsItem.ch c :: p.1, p.2)) = some (items, rest) →
              c :: r = renderItems items ++ cRBr :: rest ∧ items.all ClsItem.WF = true := by
            intro items rest hs
            cases hp : parseItemsF f r with
            | none => simp [hp] at hs
            | some pr =>
              obtain ⟨its, rst⟩ := pr
              simp only [hp, Option.map_some, Option.some.injEq, Prod.mk.injEq] at hs
              obtain ⟨rfl, rfl⟩ := hs
              obtain ⟨e, w⟩ := ih r its rst hp
              refine ⟨?_, ?_⟩
              · rw [e]; simp [renderItems, ClsItem.render]
              · simp [ClsItem.WF, hcc, w]
          split at h
          · rename_i d hh r2
            split at h
            · rename_i hd
              simp only [beq_iff_eq] at hd
              split at h
              · rename_i hr
                simp only [Bool.and_eq_true, decide_eq_true_eq] at hr
                cases hp : parseItemsF f r2 with
                | none => simp [hp] at h
                | some pr =>
                  obtain ⟨its, rst⟩ := pr
                  simp only [hp, Option.map_some, Option.some.injEq, Prod.mk.injEq] at h
                  obtain ⟨rfl, rfl⟩ := h
                  obtain ⟨e, w⟩ := ih r2 its rst hp
                  refine ⟨?_, ?_⟩
                  · rw [e, hd]; simp [renderItems, ClsItem.render]
                  · simp [ClsItem.WF, hcc, hr.1, hr.2, w]
              · cases h
            · exact single _ _ h
          · exact single _ _ h

theorem parseItems_sound (inp : Bytes) (items : List ClsItem) (rest : Bytes) (h : parseItems inp = some (items, rest)) :
    inp = renderItems items ++ cRBr :: rest ∧ items.all ClsItem.WF = true :=
  parseItemsF_sound _ inp items rest h

theorem finishClass_sound (neg : Bool) (r : Bytes) (p : Pat) (rest : Bytes) (h : finishClass neg r = some (p, rest)) :
    cLBr :: ((if neg then [cCaret] else []) ++ r) = p.render ++ rest ∧ p.WF = true ∧ p.isAlt = false := by
  unfold finishClass at h
  split at h
  · rename_i its rst hp
    split at h
    · cases h
    · rename_i hne
      simp only [Option.some.injEq, Prod.mk.injEq] at h
      obtain ⟨rfl, rfl⟩ := h
      obtain ⟨e, w⟩ := parseItems_sound r its rst hp
      refine ⟨?_, ?_, rfl⟩
      · rw [e]; cases neg <;> simp [Pat.render]
      · simp only [Pat.WF, w, Bool.and_true]; simpa using hne
  · cases h

theorem parseClass_sound (inp : Bytes) (p : Pat) (rest : Bytes) (h : parseClass inp = some (p, rest)) :
    cLBr :: inp = p.render ++ rest ∧ p.WF = true ∧ p.isAlt = false := by
  unfold parseClass at h
  split at h
  · rename_i c r
    split at h
    · rename_i hc
      simp only [beq_iff_eq] at hc
      subst hc
      simpa using finishClass_sound true r p rest h
    · simpa using finishClass_sound false (c :: r) p rest h
  · simpa using finishClass_sound false [] p rest h

theorem parseAtomWith_sound (sub : Bytes → Option (Pat × Bytes))
    (hsub : ∀ inp p rest, sub inp = some (p, rest) → inp = p.render ++ rest ∧ p.WF = true)
    (c : UInt8) (r : Bytes) (a : Pat) (r1 : Bytes) (ha : parseAtomWith sub c r = some (a, r1)) :
    c :: r = a.render ++ r1 ∧ a.WF = true ∧ a.isAlt = false := by
  unfold parseAtomWith at ha
  split at ha
  · rename_i hc; simp only [beq_iff_eq] at hc
    simp only [Option.some.injEq, Prod.mk.injEq] at ha; obtain ⟨rfl, rfl⟩ := ha
    subst hc; exact ⟨rfl, rfl, rfl⟩
  · split at ha
    · rename_i hc; simp only [beq_iff_eq] at hc
      simp only [Option.some.injEq, Prod.mk.injEq] at ha; obtain ⟨rfl, rfl⟩ := ha
      subst hc; exact ⟨rfl, rfl, rfl⟩
    · split at ha
      · rename_i hc; simp only [beq_iff_eq] at hc
        subst hc; exact parseClass_sound r a r1 ha
      · split at ha
        · rename_i hc; simp only [beq_iff_eq] at hc
          split at ha
          · rename_i a' d r' hp
            split at ha
            · rename_i hd; simp only [beq_iff_eq] at hd
              simp only [Option.some.injEq, Prod.mk.injEq] at ha; obtain ⟨rfl, rfl⟩ := ha
              obtain ⟨e, w⟩ := hsub _ _ _ hp
              subst hc; subst hd
              exact ⟨by rw [e]; simp [Pat.render], by simpa [Pat.WF] using w, rfl⟩
            · cases ha
          · cases ha
        · split at ha
          · rename_i hc; simp only [beq_iff_eq] at hc
            split at ha
            · rename_i x r'
              split at ha
              · rename_i hx
                simp only [Option.some.injEq, Prod.mk.injEq] at ha; obtain ⟨rfl, rfl⟩ := ha
                subst hc
                exact ⟨by simp [Pat.render], by simp [Pat.WF, hx], rfl⟩
              · cases ha
            · cases ha
          · split at ha
            · rename_i hp
              simp only [Option.some.injEq, Prod.mk.injEq] at ha; obtain ⟨rfl, rfl⟩ := ha
              have h0 : (c != 0) = true := by
                simp only [plain, Bool.not_eq_true', Bool.or_eq_false_iff, beq_eq_false_iff_ne, ne_eq] at hp
                simpa using hp.1.1.1.1.1.1.1.1.1.1.1.1.1
              exact ⟨by simp [Pat.render], by simp [Pat.WF, hp, h0], rfl⟩
            · cases ha

theorem parse_sound : ∀ f : Nat,
    (∀ inp p rest, parseAlts f inp = some (p, rest) → inp = p.render ++ rest ∧ p.WF = true) ∧
    (∀ inp p rest, parseSeq f inp = some (p, rest) → inp = p.render ++ rest ∧ p.WF = true ∧ p.isAlt = false) := by
  intro f
  induction f with
  | zero =>
    refine ⟨?_, ?_⟩
    · intro inp p rest h; unfold parseAlts at h; cases h
    · intro inp p rest h; unfold parseSeq at h; cases h
  | succ f ih =>
    obtain ⟨ihA, ihS⟩ := ih
    constructor
    · intro inp p rest h
      unfold parseAlts at h
      split at h
      · rename_i a c r hs
        obtain ⟨e, w, _⟩ := ihS _ _ _ hs
        split at h
        · rename_i hc
          split at h
          · rename_i b r' hb
            obtain ⟨e2, w2⟩ := ihA _ _ _ hb
            simp only [Option.some.injEq, Prod.mk.injEq] at h
            obtain ⟨rfl, rfl⟩ := h
            refine ⟨?_, by simp [Pat.WF, w, w2]⟩
            rw [e, e2]
            simp only [Bool.or_eq_true, beq_iff_eq] at hc
            rcases hc with rfl | rfl <;> simp [Pat.render]
          · cases h
        · simp only [Option.some.injEq, Prod.mk.injEq] at h
          obtain ⟨rfl, rfl⟩ := h
          exact ⟨e, w⟩
      · rename_i a hs
        obtain ⟨e, w, _⟩ := ihS _ _ _ hs
        simp only [Option.some.injEq, Prod.mk.injEq] at h
        obtain ⟨rfl, rfl⟩ := h
        exact ⟨e, w⟩
      · cases h
    · intro inp p rest h
      unfold parseSeq at h
      split at h
      · simp only [Option.some.injEq, Prod.mk.injEq] at h
        obtain ⟨rfl, rfl⟩ := h
        exact ⟨rfl, rfl, rfl⟩
      · rename_i c r
        split at h
        · simp only [Option.some.injEq, Prod.mk.injEq] at h
          obtain ⟨rfl, rfl⟩ := h
          exact ⟨rfl, rfl, rfl⟩
        · split at h
          · rename_i a r1 hatom
            obtain ⟨e, w, na⟩ := parseAtomWith_sound _ (fun i p r h => ihA i p r h) c r a r1 hatom
            split at h
            · rename_i b r2 hb
              obtain ⟨e2, w2, nb⟩ := ihS _ _ _ hb
              simp only [Option.some.injEq, Prod.mk.injEq] at h
              obtain ⟨rfl, rfl⟩ := h
              exact ⟨by rw [e, e2]; simp [Pat.render], by simp [Pat.WF, w, w2, na, nb], rfl⟩
            · cases h
          · cases h

theorem parseBody_sound (neg : Bool) (body : Bytes) (t : Top) (h : parseBody neg body = some t) :
    t.render = (if neg then [cTilde] else []) ++ body ∧ ∃ p, t = .pat neg p ∧ p.WF = true := by
  unfold parseBody at h
  split at h
  · rename_i p hp
    obtain ⟨e, w⟩ := (parse_sound _).1 _ _ _ hp
    cases h
    exact ⟨by simp [Top.render, e], p, rfl, w⟩
  · cases h

/-- whatever `parseTop` returns renders back to the text it was given, and its body is well-formed -/
theorem parseTop_sound_aux (pat : Bytes) (t : Top) (h : parseTop pat = some t) :
    t.render = pat ∧ ∃ neg p, t = .pat neg p ∧ p.WF = true := by
  unfold parseTop at h
  split at h
  · rename_i c r
    split at h
    · rename_i hc
      simp only [beq_iff_eq] at hc
      subst hc
      obtain ⟨e, p, ht, w⟩ := parseBody_sound true r t h
      exact ⟨by simpa using e, true, p, ht, w⟩
    · obtain ⟨e, p, ht, w⟩ := parseBody_sound false (c :: r) t h
      exact ⟨by simpa using e, false, p, ht, w⟩
  · obtain ⟨e, p, ht, w⟩ := parseBody_sound false [] t h
    exact ⟨by simpa using e, false, p, ht, w⟩

end Muscle.Wildcard
