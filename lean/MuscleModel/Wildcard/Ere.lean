import MuscleModel.Wildcard.Syntax

/-!
# C15 — the fragment of POSIX extended regular expressions that `SetPattern` can emit

`Ere` is an AST of ERE with its standard (whole-string) matching semantics `Ere.Matches` and its concrete
syntax `Ere.render`.  `toEre` is the *intended* translation of a documented pattern; `translate_render`
(Props/C15) shows that the character loop of `StringMatcher::SetPattern` computes exactly its rendering.

Trusted, not proved (DESIGN.md §6): for `e.WF`, glibc's `regcomp("^(" ++ render e ++ ")$", REG_EXTENDED)`
succeeds and `regexec` answers `Matches e`.  The correspondence run validates this on every generated pattern.
-/

namespace Muscle.Wildcard
open Muscle

/-- the ERE special characters: written `\c` when meant literally (a backslash in front of any *other* character is
    undefined in POSIX and means something else to glibc).  This is part of the specification of ERE syntax, fixed
    here; that `SetPattern` keeps the backslash in front of exactly these is lemma `keepsBackslash_eq`, re-checked
    against the list regenerated from the C++ source. -/
def ereSpecial (c : UInt8) : Bool :=
  c == cDot || c == cLBr || c == cRBr || c == cLPar || c == cRPar || c == cStar || c == cPlus || c == cQm
    || c == cLBrace || c == cRBrace || c == cBar || c == cCaret || c == cDollar || c == cBs

inductive Ere where
  | eps
  | chr (c : UInt8)                          -- an ordinary character, or `\c` for a special one
  | dot                                      -- `.`
  | bracket (neg : Bool) (items : List ClsItem)
  | star (e : Ere)                           -- `e*`
  | cat (a b : Ere)
  | alt (a b : Ere)                          -- `a|b`
  | grp (e : Ere)                            -- `(e)`
deriving DecidableEq, Repr

namespace Ere

def render : Ere → Bytes
  | .eps => []
  | .chr c => if ereSpecial c then [cBs, c] else [c]
  | .dot => [cDot]
  | .bracket neg items => cLBr :: ((if neg then [cCaret] else []) ++ (renderItems items ++ [cRBr]))
  | .star e => e.render ++ [cStar]
  | .cat a b => a.render ++ b.render
  | .alt a b => a.render ++ cBar :: b.render
  | .grp e => cLPar :: (e.render ++ [cRPar])

/-- what `SetPattern` hands to `regcomp` for a simple pattern -/
def anchored (body : Bytes) : Bytes := [cCaret, cLPar] ++ body ++ [cRPar, cDollar]

/-- POSIX matching (which strings the whole expression matches) -/
inductive Matches : Ere → Bytes → Prop where
  | eps : Matches .eps []
  | chr (c : UInt8) : Matches (.chr c) [c]
  | dot (c : UInt8) : Matches .dot [c]
  | bracket (neg : Bool) (items : List ClsItem) (c : UInt8) : clsHas neg items c = true → Matches (.bracket neg items) [c]
  | starNil {e : Ere} : Matches (.star e) []
  | starCons {e : Ere} {s₁ s₂ : Bytes} : Matches e s₁ → Matches (.star e) s₂ → Matches (.star e) (s₁ ++ s₂)
  | cat {a b : Ere} {s₁ s₂ : Bytes} : Matches a s₁ → Matches b s₂ → Matches (.cat a b) (s₁ ++ s₂)
  | altL {a b : Ere} {s : Bytes} : Matches a s → Matches (.alt a b) s
  | altR {a b : Ere} {s : Bytes} : Matches b s → Matches (.alt a b) s
  | grp {e : Ere} {s : Bytes} : Matches e s → Matches (.grp e) s

def isAlt : Ere → Bool
  | .alt _ _ => true
  | _ => false

/-- a one-character expression or a group: what `*` may follow without changing the parse -/
def isAtom : Ere → Bool
  | .chr _ | .dot | .bracket _ _ | .grp _ => true
  | _ => false

/-- the expressions for which the trusted statement about glibc is made: the rendering is unambiguous
    (precedence respected, `*` only after an atom), bracket expressions are non-empty and free of bracket
    syntax, no NUL -/
def WF : Ere → Bool
  | .eps => true
  | .chr c => c != 0
  | .dot => true
  | .bracket _ items => !items.isEmpty && items.all ClsItem.WF
  | .star e => e.WF && e.isAtom
  | .cat a b => a.WF && b.WF && !a.isAlt && !b.isAlt
  | .alt a b => a.WF && b.WF
  | .grp e => e.WF

end Ere

/-- the intended translation of a documented pattern to ERE -/
def toEre : Pat → Ere
  | .eps => .eps
  | .lit _ c => .chr c
  | .any => .dot
  | .star => .star .dot
  | .cls neg items => .bracket neg items
  | .seq a b => .cat (toEre a) (toEre b)
  | .alt _ a b => .alt (toEre a) (toEre b)
  | .grp a => .grp (toEre a)

end Muscle.Wildcard
