import MuscleModel.Wildcard.Code

/-!
# C15 — parser for the documented pattern grammar (used by the model driver)

`parseTop` reads a pattern string into a `Top` when (and only when) it lies inside the documented grammar
that the theorems of Props/C15 speak about; the driver additionally checks `t.WF` and `t.render = input`
(`inGrammar`), so that every prediction it prints is about a tree whose rendering is literally the pattern
given to the real `SetPattern`.  Range patterns `<…>` never go through this parser: the range code is plain
C++ (no libc) and is mirrored completely in `Code.lean`.
-/

namespace Muscle.Wildcard
open Muscle

/-- the items of a class up to and including the closing `]` (fuel: one unit per item) -/
def parseItemsF : Nat → Bytes → Option (List ClsItem × Bytes)
  | 0, _ => none
  | f+1, inp =>
    match inp with
    | [] => none
    | c :: r =>
      if c == cRBr then some ([], r)
      else if !clsChar c then none
      else match r with
        | d :: h :: r2 =>
          if d == cDash then
            if clsChar h && decide (c ≤ h) then (parseItemsF f r2).map (fun p => (ClsItem.rng c h :: p.1, p.2)) else none
          else (parseItemsF f r).map (fun p => (ClsItem.ch c :: p.1, p.2))
        | _ => (parseItemsF f r).map (fun p => (ClsItem.ch c :: p.1, p.2))

def parseItems (inp : Bytes) : Option (List ClsItem × Bytes) := parseItemsF (inp.length + 1) inp

/-- the members of a class (after `[` or `[^`) -/
def finishClass (neg : Bool) (r : Bytes) : Option (Pat × Bytes) :=
  match parseItems r with
  | some (items, rest) => if items.isEmpty then none else some (.cls neg items, rest)
  | none => none

/-- after the opening `[` -/
def parseClass (inp : Bytes) : Option (Pat × Bytes) :=
  match inp with
  | c :: r => if c == cCaret then finishClass true r else finishClass false inp
  | [] => finishClass false inp

/-- one atom starting with character `c` (rest of the input `r`); `sub` parses the inside of a group -/
def parseAtomWith (sub : Bytes → Option (Pat × Bytes)) (c : UInt8) (r : Bytes) : Option (Pat × Bytes) :=
  if c == cStar then some (.star, r)
  else if c == cQm then some (.any, r)
  else if c == cLBr then parseClass r
  else if c == cLPar then
    match sub r with
    | some (a, d :: r') => if d == cRPar then some (.grp a, r') else none
    | _ => none
  else if c == cBs then
    match r with
    | x :: r' => if x != 0 then some (.lit true x, r') else none
    | [] => none
  else if plain c then some (.lit false c, r)
  else none

mutual
/-- `seq (sep seq)*`, stops in front of `)` or at the end -/
def parseAlts : Nat → Bytes → Option (Pat × Bytes)
  | 0, _ => none
  | f+1, inp =>
    match parseSeq f inp with
    | some (a, c :: r) =>
      if c == cBar || c == cComma then
        match parseAlts f r with
        | some (b, r') => some (.alt (c == cBar) a b, r')
        | none => none
      else some (a, c :: r)
    | some (a, []) => some (a, [])
    | none => none

/-- `atom*`, stops in front of a separator, `)` or at the end -/
def parseSeq : Nat → Bytes → Option (Pat × Bytes)
  | 0, _ => none
  | f+1, inp =>
    match inp with
    | [] => some (.eps, [])
    | c :: r =>
      if c == cBar || c == cComma || c == cRPar then some (.eps, inp)
      else
        match parseAtomWith (fun x => parseAlts f x) c r with
        | some (a, r1) =>
          match parseSeq f r1 with
          | some (b, r2) => some (.seq a b, r2)
          | none => none
        | none => none
end

/-- the body of a pattern, all of it -/
def parseBody (neg : Bool) (body : Bytes) : Option Top :=
  match parseAlts (3 * body.length + 4) body with
  | some (p, []) => some (.pat neg p)
  | _ => none

/-- a pattern of the documented grammar (not a range list, not a backtick regex) -/
def parseTop (pat : Bytes) : Option Top :=
  match pat with
  | c :: r => if c == cTilde then parseBody true r else parseBody false pat
  | [] => parseBody false pat

/-- the pattern is inside the grammar the theorems cover, *as witnessed by a tree that renders to it* -/
def inGrammar (pat : Bytes) : Option Top :=
  match parseTop pat with
  | some t => if t.WF && t.render == pat then some t else none
  | none => none

end Muscle.Wildcard
