import MuscleModel.Wildcard.Proofs3

/-!
# C15 — lemmas, part 4: `SetPattern` reads a documented range list `<a-b,c->` as the ranges it denotes
-/

set_option linter.unusedSimpArgs false
set_option linter.unusedVariables false

namespace Muscle.Wildcard
open Muscle

attribute [local simp] cBs cComma cBar cDot cPlus cStar cQm cLBr cRBr cLPar cRPar cCaret cDollar cLBrace cRBrace
  cTilde cTick cLt cGt cDash cEq

/-! ## decimal numbers -/

theorem isDigit_iff (c : UInt8) : isDigit c = true ↔ 48 ≤ c.toNat ∧ c.toNat ≤ 57 := by
  simp only [isDigit, Bool.and_eq_true, decide_eq_true_eq, UInt8.le_iff_toNat_le]
  rfl

theorem digit_toNat (d : Nat) (h : d < 10) : (UInt8.ofNat (48 + d)).toNat = 48 + d := by
  simp only [UInt8.toNat_ofNat']; omega

theorem isDigit_digit (d : Nat) (h : d < 10) : isDigit (UInt8.ofNat (48 + d)) = true := by
  rw [isDigit_iff, digit_toNat d h]; omega

theorem decVal_snoc (a : Bytes) (d : UInt8) : decVal (a ++ [d]) = decVal a * 10 + (d.toNat - 48) := by
  simp [decVal, List.foldl_append]

theorem decimal_spec (n : Nat) :
    decimal n ≠ [] ∧ (decimal n).all isDigit = true ∧ decVal (decimal n) = n := by
  induction n using Nat.strongRecOn with
  | ind n ih =>
    rw [decimal]
    split
    · rename_i h
      refine ⟨by simp, ?_, ?_⟩
      · simp only [List.all_cons, List.all_nil, Bool.and_true]; exact isDigit_digit n h
      · simp only [decVal, List.foldl_cons, List.foldl_nil, digit_toNat n h]; omega
    · rename_i h
      obtain ⟨h1, h2, h3⟩ := ih (n / 10) (by omega)
      have hd : n % 10 < 10 := Nat.mod_lt _ (by omega)
      refine ⟨by simp, ?_, ?_⟩
      · simp only [List.all_append, h2, List.all_cons, List.all_nil, Bool.and_true, Bool.true_and]
        exact isDigit_digit _ hd
      · rw [decVal_snoc, h3, digit_toNat _ hd]; omega

theorem all_digit_mem {x : Bytes} (h : x.all isDigit = true) {c : UInt8} (hc : c ∈ x) : isDigit c = true := by
  simp only [List.all_eq_true] at h; exact h c hc

/-! ## the pieces of the range parser on clean input -/

theorem splitAtFirst_append (c : UInt8) (x y : Bytes) (h : c ∉ x) : splitAtFirst c (x ++ c :: y) = some (x, y) := by
  induction x with
  | nil => simp [splitAtFirst]
  | cons a r ih =>
    simp only [List.mem_cons, not_or] at h
    have ha : (a == c) = false := beq_eq_false_iff_ne.mpr (fun e => h.1 e.symm)
    simp [splitAtFirst, ha, ih h.2]

theorem splitAtFirst_none (c : UInt8) (x : Bytes) (h : c ∉ x) : splitAtFirst c x = none := by
  induction x with
  | nil => rfl
  | cons a r ih =>
    simp only [List.mem_cons, not_or] at h
    have ha : (a == c) = false := beq_eq_false_iff_ne.mpr (fun e => h.1 e.symm)
    simp [splitAtFirst, ha, ih h.2]

theorem splitOnByte_ne_nil (sep : UInt8) (x : Bytes) : splitOnByte sep x ≠ [] := by
  cases x with
  | nil => simp [splitOnByte]
  | cons c r =>
    simp only [splitOnByte]
    split
    · simp
    · split <;> simp

theorem splitOnByte_noSep (sep : UInt8) (x : Bytes) (h : sep ∉ x) : splitOnByte sep x = [x] := by
  induction x with
  | nil => rfl
  | cons a r ih =>
    simp only [List.mem_cons, not_or] at h
    have ha : (a == sep) = false := beq_eq_false_iff_ne.mpr (fun e => h.1 e.symm)
    simp [splitOnByte, ha, ih h.2]

theorem splitOnByte_append (sep : UInt8) (x y : Bytes) (h : sep ∉ x) :
    splitOnByte sep (x ++ sep :: y) = x :: splitOnByte sep y := by
  induction x with
  | nil => simp [splitOnByte]
  | cons a r ih =>
    simp only [List.mem_cons, not_or] at h
    have ha : (a == sep) = false := beq_eq_false_iff_ne.mpr (fun e => h.1 e.symm)
    simp [splitOnByte, ha, ih h.2]

theorem digitsOnly_digits (x : Bytes) (h : x.all isDigit = true) : digitsOnly x = x := by
  simp only [digitsOnly]
  exact List.filter_eq_self.2 (fun c hc => all_digit_mem h hc)

theorem digitsOnly_append_gt (x tail : Bytes) (h : x.all isDigit = true) (ht : tail = [] ∨ tail = [cGt]) :
    digitsOnly (x ++ tail) = x := by
  rcases ht with rfl | rfl
  · simpa using digitsOnly_digits x h
  · simp only [digitsOnly, List.filter_append]
    have : List.filter isDigit [cGt] = [] := by decide
    rw [this, List.append_nil]
    exact List.filter_eq_self.2 (fun c hc => all_digit_mem h hc)

theorem atoull_digits (x tail : Bytes) (h : x.all isDigit = true) (ht : tail = [] ∨ tail = [cGt])
    (hv : decVal x < 4294967296) : u32 (atoull (x ++ tail)) = decVal x := by
  rw [u32_atoull]
  have : (x ++ tail).takeWhile isDigit = x := by
    rcases ht with rfl | rfl
    · simpa using takeWhile_all x h
    · rw [List.takeWhile_append_of_pos (fun c hc => all_digit_mem h hc)]
      have : List.takeWhile isDigit [cGt] = [] := by decide
      rw [this, List.append_nil]
  rw [this, Nat.mod_eq_of_lt hv]

theorem digit_not_space (c : UInt8) (h : isDigit c = true) : isSpace c = false := by
  rw [isDigit_iff] at h
  simp only [isSpace, Bool.or_eq_false_iff, beq_eq_false_iff_ne, ne_eq]
  refine ⟨⟨⟨?_, ?_⟩, ?_⟩, ?_⟩ <;> (intro e; subst e; simp at h)

theorem trimmed_digits (x tail : Bytes) (hne : x ≠ []) (h : x.all isDigit = true) (ht : tail = [] ∨ tail = [cGt]) :
    trimmed (x ++ tail) = x ++ tail := by
  cases x with
  | nil => exact absurd rfl hne
  | cons a r =>
    have ha : isSpace a = false := digit_not_space a (all_digit_mem h (by simp))
    have h1 : ((a :: r) ++ tail).dropWhile isSpace = (a :: r) ++ tail := by
      simp [List.dropWhile, ha]
    -- the last character is a digit or `>`: not a blank either
    have h2 : ∃ z l, ((a :: r) ++ tail).reverse = z :: l ∧ isSpace z = false := by
      rcases ht with rfl | rfl
      · cases hrev : (a :: r).reverse with
        | nil => simp at hrev
        | cons z l =>
          refine ⟨z, l, by simpa using hrev, ?_⟩
          have hz : z ∈ (a :: r) := by
            have : z ∈ (a :: r).reverse := by rw [hrev]; simp
            exact List.mem_reverse.1 this
          exact digit_not_space z (all_digit_mem h hz)
      · exact ⟨cGt, (a :: r).reverse, by simp, by decide⟩
    obtain ⟨z, l, hrev, hz⟩ := h2
    simp only [trimmed, h1, hrev, List.dropWhile, hz]
    rw [← hrev, List.reverse_reverse]

/-! ## one clause -/

theorem dash_not_digit (x : Bytes) (h : x.all isDigit = true) : cDash ∉ x := by
  intro hm
  have := all_digit_mem h hm
  simp [isDigit] at this

theorem comma_not_digit (x : Bytes) (h : x.all isDigit = true) : cComma ∉ x := by
  intro hm
  have := all_digit_mem h hm
  simp [isDigit] at this

theorem gt_not_digit (x : Bytes) (h : x.all isDigit = true) : cGt ∉ x := by
  intro hm
  have := all_digit_mem h hm
  simp [isDigit] at this

theorem isEmpty_false {x : Bytes} (h : x ≠ []) : x.isEmpty = false := by
  cases x with
  | nil => exact absurd rfl h
  | cons _ _ => rfl

theorem parseClause_span (L H tail : Bytes) (hL : L.all isDigit = true) (hH : H.all isDigit = true)
    (ht : tail = [] ∨ tail = [cGt]) :
    parseClause (L ++ cDash :: (H ++ tail)) =
      idRange (if L.isEmpty then 0 else u32 (atoull L)) (if H.isEmpty then noLimit else u32 (atoull H)) := by
  simp only [parseClause, splitAtFirst_append _ _ _ (dash_not_digit _ hL), digitsOnly_digits _ hL,
    digitsOnly_append_gt _ _ hH ht]

theorem parseClause_render (r : RangeSpec) (hwf : r.WF = true) (tail : Bytes) (ht : tail = [] ∨ tail = [cGt]) :
    parseClause (r.render ++ tail) = r.toId := by
  cases r with
  | one n =>
    simp only [RangeSpec.WF, decide_eq_true_eq] at hwf
    obtain ⟨hne, hall, hval⟩ := decimal_spec n
    have hnd : cDash ∉ decimal n ++ tail := by
      rcases ht with rfl | rfl
      · simpa using dash_not_digit _ hall
      · simp only [List.mem_append, not_or]; exact ⟨dash_not_digit _ hall, by decide⟩
    have hhead : (decimal n ++ tail).head? ≠ some cGt := by
      cases hd : decimal n with
      | nil => exact absurd hd hne
      | cons a t =>
        have : isDigit a = true := all_digit_mem hall (by rw [hd]; simp)
        simp only [List.cons_append, List.head?_cons, ne_eq, Option.some.injEq]
        intro e; subst e; simp [isDigit] at this
    simp only [parseClause, RangeSpec.render, splitAtFirst_none _ _ hnd, hhead, bne_iff_ne, ne_eq,
      not_false_eq_true, if_true, trimmed_digits _ _ hne hall ht, atoull_digits _ _ hall ht (by omega), hval,
      RangeSpec.toId]
  | span lo hi =>
    simp only [RangeSpec.WF, Bool.and_eq_true, decide_eq_true_eq] at hwf
    cases lo with
    | none =>
      cases hi with
      | none =>
        have := parseClause_span [] [] tail rfl rfl ht
        simpa [RangeSpec.render, RangeSpec.toId] using this
      | some h =>
        obtain ⟨hne, hall, hval⟩ := decimal_spec h
        have hv : decVal (decimal h) < 4294967296 := by rw [hval]; have := hwf.2; simp at this; omega
        have e1 := atoull_digits _ [] hall (Or.inl rfl) hv
        simp only [List.append_nil] at e1
        have := parseClause_span [] (decimal h) tail rfl hall ht
        simp only [List.nil_append, List.isEmpty_nil, if_true, isEmpty_false hne, Bool.false_eq_true, if_false, e1, hval] at this
        simpa [RangeSpec.render, RangeSpec.toId] using this
    | some l =>
      obtain ⟨hnel, halll, hvall⟩ := decimal_spec l
      cases hi with
      | none =>
        have hvl : decVal (decimal l) < 4294967296 := by rw [hvall]; simp at hwf; omega
        have e2 := atoull_digits _ [] halll (Or.inl rfl) hvl
        simp only [List.append_nil] at e2
        have := parseClause_span (decimal l) [] tail halll rfl ht
        simp only [List.isEmpty_nil, if_true, isEmpty_false hnel, Bool.false_eq_true, if_false, e2, hvall] at this
        simpa [RangeSpec.render, RangeSpec.toId] using this
      | some h =>
        obtain ⟨hne, hall, hval⟩ := decimal_spec h
        have hv : decVal (decimal h) < 4294967296 := by rw [hval]; have := hwf.2; simp at this; omega
        have hvl : decVal (decimal l) < 4294967296 := by rw [hvall]; simp at hwf; omega
        have e1 := atoull_digits _ [] hall (Or.inl rfl) hv
        have e2 := atoull_digits _ [] halll (Or.inl rfl) hvl
        simp only [List.append_nil] at e1 e2
        have := parseClause_span (decimal l) (decimal h) tail halll hall ht
        simp only [isEmpty_false hne, isEmpty_false hnel, Bool.false_eq_true, if_false, e1, e2, hval, hvall] at this
        simpa [RangeSpec.render, RangeSpec.toId] using this

/-! ## the whole list -/

theorem clause_clean (r : RangeSpec) : cComma ∉ r.render ∧ cGt ∉ r.render := by
  cases r with
  | one n =>
    have h := (decimal_spec n).2.1
    exact ⟨comma_not_digit _ h, gt_not_digit _ h⟩
  | span lo hi =>
    have hlo : ∀ o : Option Nat, cComma ∉ (match o with | some l => decimal l | none => ([] : Bytes)) ∧
        cGt ∉ (match o with | some l => decimal l | none => ([] : Bytes)) := by
      intro o
      cases o with
      | none => simp
      | some l =>
        have h := (decimal_spec l).2.1
        exact ⟨comma_not_digit _ h, gt_not_digit _ h⟩
    cases lo <;> cases hi <;> simp [RangeSpec.render] <;>
      (first
        | exact ⟨(hlo (some _)).1, (hlo (some _)).2⟩
        | exact ⟨⟨(hlo (some _)).1, (hlo (some _)).1⟩, (hlo (some _)).2, (hlo (some _)).2⟩
        | skip)

theorem renderRanges_noGt (rs : List RangeSpec) : cGt ∉ renderRanges rs := by
  induction rs with
  | nil => simp [renderRanges]
  | cons r rest ih =>
    cases rest with
    | nil => simpa [renderRanges] using (clause_clean r).2
    | cons r' rest' =>
      simp only [renderRanges, List.mem_append, List.mem_cons, not_or]
      exact ⟨(clause_clean r).2, by decide, ih⟩

theorem split_renderRanges (rs : List RangeSpec) (hne : rs ≠ []) (hwf : rs.all RangeSpec.WF = true) :
    (splitOnByte cComma (renderRanges rs ++ [cGt])).map parseClause = rs.map RangeSpec.toId := by
  induction rs with
  | nil => exact absurd rfl hne
  | cons r rest ih =>
    simp only [List.all_cons, Bool.and_eq_true] at hwf
    cases rest with
    | nil =>
      have hc : cComma ∉ r.render ++ [cGt] := by
        simp only [List.mem_append, not_or]; exact ⟨(clause_clean r).1, by decide⟩
      simp only [renderRanges, splitOnByte_noSep _ _ hc, List.map_cons, List.map_nil,
        parseClause_render r hwf.1 [cGt] (Or.inr rfl)]
    | cons r' rest' =>
      have e : renderRanges (r :: r' :: rest') ++ [cGt] = r.render ++ cComma :: (renderRanges (r' :: rest') ++ [cGt]) := by
        simp [renderRanges]
      have h1 := parseClause_render r hwf.1 [] (Or.inl rfl)
      simp only [List.append_nil] at h1
      rw [e, splitOnByte_append _ _ _ (clause_clean r).1]
      simp only [List.map_cons, h1, ih (by simp) hwf.2]

/-- `SetPattern` on the text of a documented range list -/
theorem setPattern_rangeList (neg : Bool) (rs : List RangeSpec) (hwf : (Top.ranges neg rs).WF = true) :
    (setPattern (Top.ranges neg rs).render).negate = neg ∧
    (setPattern (Top.ranges neg rs).render).ranges = rs.map RangeSpec.toId ∧
    (setPattern (Top.ranges neg rs).render).regex = none := by
  simp only [Top.WF, Bool.and_eq_true, Bool.not_eq_true', List.isEmpty_eq_false_iff] at hwf
  have hpr : parseRanges (cLt :: (renderRanges rs ++ [cGt])) = rs.map RangeSpec.toId := by
    have hs := splitAtFirst_append cGt (renderRanges rs) [] (renderRanges_noGt rs)
    simp only [parseRanges, beq_self_eq_true, if_true, hs, split_renderRanges rs hwf.1 hwf.2]
  have hne : (rs.map RangeSpec.toId).isEmpty = false := by
    cases rs with
    | nil => exact absurd rfl hwf.1
    | cons _ _ => rfl
  cases neg
  · simp [Top.render, setPattern, hpr, hne]
  · simp [Top.render, setPattern, hpr, hne]

end Muscle.Wildcard
