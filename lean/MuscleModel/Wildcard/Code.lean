import MuscleModel.Wildcard.Ere
import MuscleModel.Generated.Constants
import MuscleModel.Generated.WildcardKernels

/-!
# C15 — mirrors of the C++ code in regex/StringMatcher.cpp

Every definition names the C++ function it mirrors.  Strings are NUL-free byte lists (C strings).
`regcomp`/`regexec` are a parameter (`Libc`): the model never looks inside glibc.
-/

namespace Muscle.Wildcard
open Muscle

/-- mirrors `IsRegexToken(char c, bool isFirstCharInString)`: the table is not typed in here, it is regenerated
    on every run by calling the compiled function for all 256 × 2 arguments (tools/extract_consts.cpp, C15 block) -/
def isRegexToken (c : UInt8) (first : Bool) : Bool :=
  (if first then Gen.regexTokensFirst else Gen.regexTokensRest).contains c.toNat

/-- mirrors `strchr(".[]()*+?{}|^$\\", c) != NULL` in the escape-mode branch of `SetPattern`'s loop: the list is
    regenerated on every run from the source text (tools/extract_kernels.py) -/
def keepsBackslash (c : UInt8) : Bool := Gen.setPatternKeepsBackslash.contains c.toNat

/-- mirrors the loop of `EscapeRegexTokens(s, NULL)` (`first` = `isFirst`) -/
def escapeAux : Bool → Bytes → Bytes
  | _, [] => []
  | first, c :: r => (if isRegexToken c first then [cBs, c] else [c]) ++ escapeAux false r

/-- mirrors `EscapeRegexTokens(const String & s, NULL)` -/
def escape (s : Bytes) : Bytes := escapeAux true s

/-- mirrors the loop of `RemoveEscapeChars` (`lastEsc` = `lastWasEscape`) -/
def unescapeAux : Bool → Bytes → Bytes
  | _, [] => []
  | lastEsc, c :: r =>
    (if lastEsc || !(c == cBs) then [c] else []) ++ unescapeAux (c == cBs && !lastEsc) r

/-- mirrors `RemoveEscapeChars(const String & s)` -/
def unescape (s : Bytes) : Bytes := unescapeAux false s

/-- mirrors the loop of `HasRegexTokens(const char *)` -/
def hasRegexTokensAux : Bool → Bytes → Bool
  | _, [] => false
  | first, c :: r => isRegexToken c first || hasRegexTokensAux false r

def hasRegexTokens (s : Bytes) : Bool := hasRegexTokensAux true s

/-- mirrors the `while(*s)` loop of `CanWildcardStringMatchMultipleValues(str, &onlyCommas)` with a non-NULL
    second argument (`first` = `s==str`, `prevEsc` = `prevCharWasEscape`, `saw` = `sawComma`);
    result = (return value, `*optRetOnlySpecialCharIsCommas`).  With a NULL second argument the function
    returns `true` already at the first comma; the return value is the same. -/
def cwsScan : Bool → Bool → Bool → Bytes → Bool × Bool
  | _, _, saw, [] => (saw, saw)
  | first, prevEsc, saw, c :: r =>
    let isEsc := c == cBs && !prevEsc
    if !isEsc && c != cDash && !prevEsc && isRegexToken c first then
      if c == cComma then cwsScan false isEsc true r
      else (true, false)
    else cwsScan false isEsc saw r

/-- mirrors `CanWildcardStringMatchMultipleValues(const char * str, bool * optRetOnlySpecialCharIsCommas)` -/
def canMatchMultipleAux (s : Bytes) : Bool × Bool :=
  match s with
  | c :: _ => if c == cTick then (true, false) else cwsScan true false false s
  | [] => cwsScan true false false s

def canMatchMultiple (s : Bytes) : Bool := (canMatchMultipleAux s).1

/-- `classStart` of `SetPattern`'s loop: `none` = -1 (not inside a character class); `some (n, caret)` = inside one,
    `n` characters have been appended to `regexPattern` after its `[` and `caret` says whether the first of them
    was `^` (`regexPattern[classStart+1] == '^'`) -/
abbrev ClsSt := Option (Nat × Bool)

/-- the state after appending `out` to `regexPattern` -/
def clsEmit (st : ClsSt) (out : Bytes) : ClsSt :=
  match st with
  | none => none
  | some (n, k) => some (n + out.length, k || (n == 0 && out.head? == some cCaret))

/-- mirrors `if ((classStart >= 0)&&(c == ']')) {… if (regexPattern.Length() > firstMemberIdx) classStart = -1;}`:
    a `]` ends the class unless it is its first member (`[]a]`, `[^]a]`) -/
def clsClose (st : ClsSt) (c : UInt8) : ClsSt :=
  match st with
  | none => none
  | some (n, k) => if c == cRBr && decide (n > (if k then 1 else 0)) then none else some (n, k)

/-- mirrors the `for (const char * ptr = str; …)` loop of `StringMatcher::SetPattern` (with the fixes "a backslash in a
    wildcard pattern makes the next character literal" and "the members of a character class are not translated");
    first argument = `escapeMode`, second = `classStart` -/
def translateLoop : Bool → ClsSt → Bytes → Bytes
  | esc, _, [] => if esc then [cBs, cBs] else []
  | true, st, c :: r =>
    let pre : Bytes := if keepsBackslash c then [cBs] else []
    pre ++ c :: translateLoop false (clsEmit (clsClose (clsEmit st pre) c) [c]) r
  | false, some s, c :: r =>
    if c == cBs then translateLoop true (some s) r
    else c :: translateLoop false (clsEmit (clsClose (some s) c) [c]) r
  | false, none, c :: r =>
    if c == cLBr then cLBr :: translateLoop false (some (0, false)) r
    else if c == cComma then cBar :: translateLoop false none r
    else if c == cDot then cBs :: cDot :: translateLoop false none r
    else if c == cPlus then cBs :: cPlus :: translateLoop false none r
    else if c == cStar then cDot :: cStar :: translateLoop false none r
    else if c == cQm then cDot :: translateLoop false none r
    else if c == cBs then translateLoop true none r
    else c :: translateLoop false none r

/-- the translation of a simple pattern body: `"^(" + loop + ")$"` -/
def translate (body : Bytes) : Bytes := Ere.anchored (translateLoop false none body)

/-! ## numeric ranges -/

/-- mirrors `DigitsOnly` -/
def digitsOnly (s : Bytes) : Bytes := s.filter isDigit

/-- mirrors `Atoull`: the value of the leading run of digits (0 if none), in 64-bit arithmetic -/
def atoull (s : Bytes) : Nat := decVal (s.takeWhile isDigit) % 18446744073709551616

/-- the `(uint32)` cast -/
def u32 (n : Nat) : Nat := n % 4294967296

/-- `MUSCLE_NO_LIMIT` = `(uint32)-1` -/
def noLimit : Nat := 4294967295

/-- mirrors `IDRange(min, max)`: stored as (smaller, larger) -/
def idRange (a b : Nat) : Nat × Nat := (min a b, max a b)

def isSpace (c : UInt8) : Bool := c == 32 || c == 9 || c == 13 || c == 10

/-- mirrors `String::Trimmed` -/
def trimmed (s : Bytes) : Bytes := ((s.dropWhile isSpace).reverse.dropWhile isSpace).reverse

/-- the pieces between separators (what `StringTokenizer(str, ",,")` — a *hard* separator — returns for a
    string that does not end in the separator) -/
def splitOnByte (sep : UInt8) : Bytes → List Bytes
  | [] => [[]]
  | c :: r =>
    if c == sep then [] :: splitOnByte sep r
    else match splitOnByte sep r with
      | h :: t => (c :: h) :: t
      | [] => [[c]]

/-- `strchr`: (text before the first `c`, text after it) -/
def splitAtFirst (c : UInt8) : Bytes → Option (Bytes × Bytes)
  | [] => none
  | x :: r => if x == c then some ([], r) else (splitAtFirst c r).map (fun p => (x :: p.1, p.2))

/-- mirrors the body of the `while((clause=clauses()) != NULL)` loop of `SetPattern` -/
def parseClause (clause : Bytes) : Nat × Nat :=
  match splitAtFirst cDash clause with
  | some (before, after) =>
    let b := digitsOnly before
    let a := digitsOnly after
    idRange (if b.isEmpty then 0 else u32 (atoull b)) (if a.isEmpty then noLimit else u32 (atoull a))
  | none =>
    if clause.head? != some cGt then let v := u32 (atoull (trimmed clause)); idRange v v
    else idRange 0 noLimit

/-- mirrors the `if (str[0] == '<')` block of `SetPattern`: the ranges of a string of the form `<…>` whose
    only `>` is its last character; `[]` otherwise -/
def parseRanges (str : Bytes) : List (Nat × Nat) :=
  match str with
  | c :: r =>
    if c == cLt then
      match splitAtFirst cGt r with
      | some (_, []) => (splitOnByte cComma r).map parseClause     -- the tokenizer sees the trailing `>` too
      | _ => []
    else []
  | [] => []

/-! ## SetPattern / Match / ToString -/

/-- the state `SetPattern(s, true)` leaves behind (`_flags`, `_ranges`, and the text given to `regcomp`) -/
structure Compiled where
  pattern : Bytes := []
  negate : Bool := false
  ranges : List (Nat × Nat) := []
  regex : Option Bytes := none        -- `none`: `regcomp` is not called (ranges, or nothing to compile)
  canMulti : Bool := false            -- STRINGMATCHER_FLAG_CANMATCHMULTIPLEVALUES
  uvList : Bool := false              -- STRINGMATCHER_FLAG_UVLIST
deriving Repr

/-- mirrors `if ((str[0] == '\\')&&(str[1] == '<')) str++;  // special case escape of initial < for "\<15-23>"` -/
def skipEscapedLt (str : Bytes) : Bytes :=
  match str with
  | a :: b :: t => if a == cBs && b == cLt then b :: t else str
  | _ => str

/-- mirrors `StringMatcher::SetPattern(s, /*isSimple=*/true)` up to the `regcomp` call -/
def setPattern (pat : Bytes) : Compiled :=
  let cm := canMatchMultipleAux pat
  let (neg, str) := match pat with
    | c :: r => if c == cTilde then (true, r) else (false, pat)
    | [] => (false, pat)
  match str with
  | c :: r =>
    if c == cTick then
      { pattern := pat, negate := neg, ranges := [], regex := if r.isEmpty then none else some r, canMulti := cm.1, uvList := cm.2 && !neg }
    else
      let rs := parseRanges str
      if rs.isEmpty then
        { pattern := pat, negate := neg, ranges := [], regex := some (translate (skipEscapedLt str)), canMulti := cm.1, uvList := cm.2 && !neg }
      else
        { pattern := pat, negate := neg, ranges := rs, regex := none, canMulti := cm.1, uvList := false }
  | [] => { pattern := pat, negate := neg, ranges := [], regex := some (translate []), canMulti := cm.1, uvList := cm.2 && !neg }

/-- mirrors `StringMatcher::IsPatternUnique` -/
def Compiled.isUnique (c : Compiled) : Bool := c.ranges.isEmpty && !c.canMulti && !c.negate

/-- `regcomp(text, REG_EXTENDED)` followed by `regexec`: `none` = compile error -/
abbrev Libc := Bytes → Option (Bytes → Bool)

/-- THE TRUSTED STATEMENT ABOUT GLIBC (DESIGN.md §6; not proved, validated by the correspondence run): for every
    well-formed expression `e` of the fragment, `regcomp("^(" ++ render e ++ ")$", REG_EXTENDED)` succeeds and
    `regexec` answers exactly POSIX matching of `e` against the whole string. -/
def GlibcOK (libc : Libc) : Prop :=
  ∀ e : Ere, e.WF = true → ∃ f, libc (Ere.anchored e.render) = some f ∧ ∀ s, f s = true ↔ Ere.Matches e s

/-- mirrors `while(muscleInRange(*s,'0','9')) {id = muscleMin((id*10)+(*s-'0'), (uint64)MUSCLE_NO_LIMIT); s++;}`:
    the value of a digit string, clamped (not wrapped) to `MUSCLE_NO_LIMIT` -/
def satVal (s : Bytes) : Nat := s.foldl (fun acc c => min (acc * 10 + (c.toNat - 48)) noLimit) 0

/-- mirrors the range branch of `StringMatcher::Match` (before negation): the subject must be a decimal number from
    its first character to its last -/
def matchRange (rs : List (Nat × Nat)) (s : Bytes) : Bool :=
  let digits := s.takeWhile isDigit
  if !digits.isEmpty && (s.dropWhile isDigit).isEmpty then
    let id := satVal digits
    rs.any (fun r => decide (r.1 ≤ id) && decide (id ≤ r.2))
  else false

/-- mirrors `StringMatcher::Match(const char *)` -/
def matchCompiled (libc : Libc) (c : Compiled) (s : Bytes) : Bool :=
  let ret :=
    if c.ranges.isEmpty then
      match c.regex with
      | some t => (match libc t with | some f => f s | none => false)
      | none => false
    else matchRange c.ranges s
  if c.negate then !ret else ret

/-- the `IDRange` the code stores for a documented range clause -/
def RangeSpec.toId : RangeSpec → Nat × Nat
  | .one n => idRange n n
  | .span lo hi => idRange (lo.getD 0) (hi.getD noLimit)

def renderIdRange (r : Nat × Nat) : Bytes :=
  if r.2 > r.1 then (if r.2 == noLimit then decimal r.1 ++ [cDash] else decimal r.1 ++ cDash :: decimal r.2)
  else decimal r.1

def renderIdRanges : List (Nat × Nat) → Bytes
  | [] => []
  | [r] => renderIdRange r
  | r :: rest => renderIdRange r ++ cComma :: renderIdRanges rest

/-- mirrors `StringMatcher::ToString()` -/
def Compiled.toStr (c : Compiled) : Bytes :=
  let s := if c.negate && c.pattern.head? != some cTilde then [cTilde] else []
  if c.ranges.isEmpty then s ++ c.pattern else s ++ cLt :: (renderIdRanges c.ranges ++ [cGt])

end Muscle.Wildcard
