import MuscleModel.Wildcard.Proofs

/-!
# C15 — lemmas, part 2: the character loop of `SetPattern` emits the rendering of the intended ERE
-/

set_option linter.unusedSimpArgs false
set_option linter.unusedVariables false

namespace Muscle.Wildcard
open Muscle

attribute [local simp] cBs cComma cBar cDot cPlus cStar cQm cLBr cRBr cLPar cRPar cCaret cDollar cLBrace cRBrace
  cTilde cTick cLt cGt cDash cEq

/-- characters the loop copies unchanged outside a class (and outside escape mode) -/
def passThru (c : UInt8) : Bool :=
  !(c == cLBr || c == cComma || c == cDot || c == cPlus || c == cStar || c == cQm || c == cBs)

theorem translateLoop_pass (c : UInt8) (r : Bytes) (h : passThru c = true) :
    translateLoop false none (c :: r) = c :: translateLoop false none r := by
  simp only [passThru, Bool.not_eq_true', Bool.or_eq_false_iff, beq_eq_false_iff_ne, ne_eq] at h
  obtain ⟨⟨⟨⟨⟨⟨h0, h1⟩, h2⟩, h3⟩, h4⟩, h5⟩, h6⟩ := h
  simp [translateLoop, h0, h1, h2, h3, h4, h5, h6]

/-! ## inside a class -/

/-- a class member as the loop sees it: neither the closing bracket nor a backslash -/
def inCls (c : UInt8) : Bool := !(c == cRBr || c == cBs)

/-- once the class has a member (`n ≥ 1` characters after the `[`, or `n ≥ 2` when the first is `^`), everything up
    to the next `]` is copied unchanged and that `]` ends the class -/
theorem translateLoop_members (x : Bytes) : ∀ (n : Nat) (k : Bool) (rest : Bytes),
    (n ≥ 2 ∨ (n ≥ 1 ∧ k = false)) → x.all inCls = true →
    translateLoop false (some (n, k)) (x ++ cRBr :: rest) = x ++ cRBr :: translateLoop false none rest := by
  induction x with
  | nil =>
    intro n k rest hn _
    have hclose : decide (n > (if k = true then 1 else 0)) = true := by
      rcases hn with h | ⟨h, rfl⟩
      · cases k <;> simp <;> omega
      · simp; omega
    simp [translateLoop, clsClose, clsEmit, hclose]
  | cons c r ih =>
    intro n k rest hn hall
    simp only [List.all_cons, Bool.and_eq_true] at hall
    have hc := hall.1
    simp only [inCls, Bool.not_eq_true', Bool.or_eq_false_iff, beq_eq_false_iff_ne, ne_eq] at hc
    have hn0 : (n == 0) = false := by
      rcases hn with h | ⟨h, _⟩ <;> (simp; omega)
    have : translateLoop false (some (n, k)) (c :: (r ++ cRBr :: rest))
        = c :: translateLoop false (some (n + 1, k)) (r ++ cRBr :: rest) := by
      simp [translateLoop, clsClose, clsEmit, hc.1, hc.2, hn0]
    simp only [List.cons_append, this]
    have hn' : n + 1 ≥ 2 ∨ (n + 1 ≥ 1 ∧ k = false) := by
      rcases hn with h | ⟨h, hk⟩
      · left; omega
      · left; omega
    rw [ih (n + 1) k rest hn' hall.2]

theorem clsChar_inCls (c : UInt8) (h : clsChar c = true) : inCls c = true ∧ c ≠ cCaret := by
  simp only [clsChar, Bool.not_eq_true', Bool.or_eq_false_iff, beq_eq_false_iff_ne, ne_eq] at h
  refine ⟨by simp [inCls, h], ?_⟩
  simpa using h.1.1.2

theorem renderItems_inCls (items : List ClsItem) (h : items.all ClsItem.WF = true) :
    (renderItems items).all inCls = true := by
  induction items with
  | nil => rfl
  | cons it r ih =>
    simp only [List.all_cons, Bool.and_eq_true] at h
    simp only [renderItems, List.flatMap_cons, List.all_append, Bool.and_eq_true]
    refine ⟨?_, ih h.2⟩
    cases it with
    | ch c => simpa [ClsItem.render] using (clsChar_inCls c (by simpa [ClsItem.WF] using h.1)).1
    | rng lo hi =>
      have h1 := h.1
      simp only [ClsItem.WF, Bool.and_eq_true] at h1
      simp [ClsItem.render, (clsChar_inCls lo h1.1.1).1, (clsChar_inCls hi h1.1.2).1]
      decide

/-- a non-empty list of well-formed items renders to a text that starts with a class character -/
theorem renderItems_head (items : List ClsItem) (hne : items ≠ []) (h : items.all ClsItem.WF = true) :
    ∃ c x, renderItems items = c :: x ∧ clsChar c = true := by
  cases items with
  | nil => exact absurd rfl hne
  | cons it r =>
    simp only [List.all_cons, Bool.and_eq_true] at h
    cases it with
    | ch c => exact ⟨c, renderItems r, by simp [renderItems, ClsItem.render], by simpa [ClsItem.WF] using h.1⟩
    | rng lo hi =>
      have h1 := h.1
      simp only [ClsItem.WF, Bool.and_eq_true] at h1
      exact ⟨lo, cDash :: hi :: renderItems r, by simp [renderItems, ClsItem.render], h1.1.1⟩

/-- the loop copies a whole (well-formed) class unchanged and is outside the class again afterwards -/
theorem translateLoop_class (neg : Bool) (items : List ClsItem) (rest : Bytes)
    (hne : items ≠ []) (hwf : items.all ClsItem.WF = true) :
    translateLoop false none ((Pat.cls neg items).render ++ rest)
      = (Pat.cls neg items).render ++ translateLoop false none rest := by
  obtain ⟨c, x, hx, hc⟩ := renderItems_head items hne hwf
  have hall := renderItems_inCls items hwf
  rw [hx] at hall
  simp only [List.all_cons, Bool.and_eq_true] at hall
  obtain ⟨hin, hcar⟩ := clsChar_inCls c hc
  have hin' := hin
  simp only [inCls, Bool.not_eq_true', Bool.or_eq_false_iff, beq_eq_false_iff_ne, ne_eq] at hin'
  have hcar' : (c == (94 : UInt8)) = false := beq_eq_false_iff_ne.mpr (by simpa using hcar)
  cases neg with
  | false =>
    have h1 := translateLoop_members x 1 false rest (Or.inr ⟨by omega, rfl⟩) hall.2
    simp [Pat.render, hx, translateLoop, clsClose, clsEmit, hin'.1, hin'.2, hcar', h1]
  | true =>
    have h1 := translateLoop_members x 2 true rest (Or.inl (by omega)) hall.2
    simp [Pat.render, hx, translateLoop, clsClose, clsEmit, hin'.1, hin'.2, h1]

/-! ## outside -/

theorem translateLoop_lit_plain (c : UInt8) (rest : Bytes) (h : plain c = true) :
    translateLoop false none (c :: rest) = (if ereSpecial c then [cBs, c] else [c]) ++ translateLoop false none rest := by
  simp only [plain, Bool.not_eq_true', Bool.or_eq_false_iff, beq_eq_false_iff_ne, ne_eq] at h
  by_cases hd : c = cDot
  · subst hd; simp [translateLoop, ereSpecial]
  · by_cases hp : c = cPlus
    · subst hp; simp [translateLoop, ereSpecial]
    · simp [translateLoop, ereSpecial, h, hd, hp]

/-- the loop is a string homomorphism on rendered patterns: at every token boundary it is neither in escape mode
    nor inside a class -/
theorem translateLoop_render (p : Pat) : ∀ (rest : Bytes), p.WF = true →
    translateLoop false none (p.render ++ rest) = (toEre p).render ++ translateLoop false none rest := by
  induction p with
  | eps => intro rest _; rfl
  | lit esc c =>
    intro rest h
    simp only [Pat.WF, Bool.and_eq_true, Bool.or_eq_true] at h
    cases esc with
    | true =>
      by_cases hk : ereSpecial c = true
      · simp [Pat.render, toEre, Ere.render, translateLoop, keepsBackslash_eq, hk, clsEmit, clsClose]
      · simp [Pat.render, toEre, Ere.render, translateLoop, keepsBackslash_eq, hk, clsEmit, clsClose]
    | false =>
      have hp : plain c = true := by simpa using h.2
      simp only [Pat.render, toEre, Ere.render, Bool.false_eq_true, if_false, List.cons_append, List.nil_append]
      exact translateLoop_lit_plain c rest hp
  | any => intro rest _; simp [Pat.render, toEre, Ere.render, translateLoop]
  | star => intro rest _; simp [Pat.render, toEre, Ere.render, translateLoop]
  | cls neg items =>
    intro rest h
    simp only [Pat.WF, Bool.and_eq_true] at h
    have hne : items ≠ [] := by
      intro e; subst e; simp at h
    rw [translateLoop_class neg items rest hne h.2]
    simp [Pat.render, toEre, Ere.render]
  | seq a b iha ihb =>
    intro rest h
    simp only [Pat.WF, Bool.and_eq_true] at h
    simp only [Pat.render, toEre, Ere.render, List.append_assoc]
    rw [iha _ h.1.1.1, ihb _ h.1.1.2]
  | alt bar a b iha ihb =>
    intro rest h
    simp only [Pat.WF, Bool.and_eq_true] at h
    simp only [Pat.render, toEre, Ere.render, List.append_assoc, List.cons_append]
    rw [iha _ h.1]
    cases bar
    · simp [translateLoop, ihb _ h.2]
    · simp [translateLoop, ihb _ h.2]
  | grp a iha =>
    intro rest h
    simp only [Pat.WF] at h
    simp only [Pat.render, toEre, Ere.render, List.append_assoc, List.cons_append]
    rw [translateLoop_pass _ _ (by decide), iha _ h]
    simp [translateLoop]

/-- `if ((str[0] == '\\')&&(str[1] == '<')) str++` changes nothing: the loop drops that backslash anyway -/
theorem translateLoop_skipLt (t : Bytes) :
    translateLoop false none (cLt :: t) = translateLoop false none (cBs :: cLt :: t) := by
  simp [translateLoop, keepsBackslash_eq, ereSpecial, clsEmit, clsClose]

theorem firstOK_cases (body : Bytes) (h : firstOK body = true) :
    body = [] ∨ ∃ c r, body = c :: r ∧ c ≠ cTilde ∧ c ≠ cTick ∧ c ≠ cLt := by
  cases body with
  | nil => left; rfl
  | cons c r =>
    right
    simp only [firstOK, Bool.not_eq_true', Bool.or_eq_false_iff, beq_eq_false_iff_ne, ne_eq] at h
    exact ⟨c, r, rfl, h.1.1, h.1.2, h.2⟩

theorem translate_skipEscapedLt (str : Bytes) : translate (skipEscapedLt str) = translate str := by
  unfold skipEscapedLt
  split
  · rename_i a b t
    split
    · rename_i hb
      simp only [Bool.and_eq_true, beq_iff_eq] at hb
      obtain ⟨rfl, rfl⟩ := hb
      simp only [translate, translateLoop_skipLt]
    · rfl
  · rfl

/-- what `SetPattern` does with a body that does not start with a prefix character -/
theorem setPattern_body (neg : Bool) (body : Bytes) (h : firstOK body = true) :
    let c := setPattern ((if neg then [cTilde] else []) ++ body)
    c.negate = neg ∧ c.ranges = [] ∧ c.regex = some (translate body) := by
  rcases firstOK_cases body h with rfl | ⟨c, r, rfl, h1, h2, h3⟩
  · cases neg <;> simp [setPattern]
  · cases neg
    · simp [setPattern, h1, h2, h3, parseRanges, translate_skipEscapedLt]
    · simp [setPattern, h1, h2, h3, parseRanges, translate_skipEscapedLt]

end Muscle.Wildcard
