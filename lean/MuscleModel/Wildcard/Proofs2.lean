import MuscleModel.Wildcard.Proofs

/-!
# C15 — lemmas, part 2: the character loop of `SetPattern` emits the rendering of the intended ERE
-/

set_option linter.unusedSimpArgs false
set_option linter.unusedVariables false

namespace Muscle.Wildcard
open Muscle

attribute [local simp] cBs cComma cBar cDot cPlus cStar cQm cLBr cRBr cLPar cRPar cCaret cDollar cLBrace cRBrace
  cTilde cTick cLt cGt cDash cEq

/-- characters the loop copies unchanged (outside escape mode) -/
def passThru (c : UInt8) : Bool :=
  !(c == cComma || c == cDot || c == cPlus || c == cStar || c == cQm || c == cBs)

theorem translateLoop_pass (c : UInt8) (r : Bytes) (h : passThru c = true) :
    translateLoop false (c :: r) = c :: translateLoop false r := by
  simp only [passThru, Bool.not_eq_true', Bool.or_eq_false_iff, beq_eq_false_iff_ne, ne_eq] at h
  obtain ⟨⟨⟨⟨⟨h1, h2⟩, h3⟩, h4⟩, h5⟩, h6⟩ := h
  simp [translateLoop, h1, h2, h3, h4, h5, h6]

theorem translateLoop_passList (x rest : Bytes) (h : x.all passThru = true) :
    translateLoop false (x ++ rest) = x ++ translateLoop false rest := by
  induction x with
  | nil => rfl
  | cons c r ih =>
    simp only [List.all_cons, Bool.and_eq_true] at h
    simp only [List.cons_append, translateLoop_pass _ _ h.1, ih h.2]

/-- …and those are the only ones (the backslash aside, which switches to escape mode): every other character is
    replaced by text that starts with a different character -/
theorem translateLoop_mangles (c : UInt8) (r : Bytes) (h : passThru c = false) (hbs : c ≠ cBs) :
    ∃ d t, d ≠ c ∧ translateLoop false (c :: r) = d :: t := by
  simp only [passThru, Bool.not_eq_false', Bool.or_eq_true, beq_iff_eq] at h
  rcases h with ((((h | h) | h) | h) | h) | h
  · subst h; exact ⟨cBar, translateLoop false r, by decide, by simp [translateLoop]⟩
  · subst h; exact ⟨cBs, cDot :: translateLoop false r, by decide, by simp [translateLoop]⟩
  · subst h; exact ⟨cBs, cPlus :: translateLoop false r, by decide, by simp [translateLoop]⟩
  · subst h; exact ⟨cDot, cStar :: translateLoop false r, by decide, by simp [translateLoop]⟩
  · subst h; exact ⟨cDot, translateLoop false r, by decide, by simp [translateLoop]⟩
  · exact absurd h hbs

/-- the loop leaves a backslash-free text unchanged exactly when the text contains none of `, . + * ?` -/
theorem translateLoop_fixes_iff (x rest : Bytes) (hbs : cBs ∉ x) :
    translateLoop false (x ++ rest) = x ++ translateLoop false rest ↔ x.all passThru = true := by
  constructor
  · induction x with
    | nil => intro _; rfl
    | cons c r ih =>
      intro h
      simp only [List.mem_cons, not_or] at hbs
      cases hp : passThru c
      · exfalso
        obtain ⟨d, t, hd, ht⟩ := translateLoop_mangles c (r ++ rest) hp (fun e => hbs.1 e.symm)
        simp only [List.cons_append, ht, List.cons.injEq] at h
        exact hd h.1
      · simp only [List.cons_append, translateLoop_pass _ _ hp, List.cons.injEq, true_and] at h
        simp [hp, ih hbs.2 h]
  · exact translateLoop_passList x rest

theorem cls_render_all_pass (neg : Bool) (items : List ClsItem) :
    (Pat.cls neg items).render.all passThru = (renderItems items).all passThru := by
  cases neg <;> simp [Pat.render, passThru]

theorem clsChar_pass (c : UInt8) (h : clsChar c = true) : passThru c = true := by
  simp only [clsChar, Bool.not_eq_true', Bool.or_eq_false_iff, beq_eq_false_iff_ne, ne_eq] at h
  simp [passThru, h]

theorem renderItems_pass (items : List ClsItem) (h : items.all ClsItem.WF = true) :
    (renderItems items).all passThru = true := by
  induction items with
  | nil => rfl
  | cons it r ih =>
    simp only [List.all_cons, Bool.and_eq_true] at h
    simp only [renderItems, List.flatMap_cons, List.all_append, Bool.and_eq_true]
    refine ⟨?_, ih h.2⟩
    cases it with
    | ch c => simpa [ClsItem.render] using clsChar_pass c (by simpa [ClsItem.WF] using h.1)
    | rng lo hi =>
      have h1 := h.1
      simp only [ClsItem.WF, Bool.and_eq_true] at h1
      simp [ClsItem.render, clsChar_pass lo h1.1.1, clsChar_pass hi h1.1.2]
      decide

theorem translateLoop_lit_plain (c : UInt8) (rest : Bytes) (h : plain c = true) :
    translateLoop false (c :: rest) = (if ereSpecial c then [cBs, c] else [c]) ++ translateLoop false rest := by
  simp only [plain, Bool.not_eq_true', Bool.or_eq_false_iff, beq_eq_false_iff_ne, ne_eq] at h
  by_cases hd : c = cDot
  · subst hd; simp [translateLoop, ereSpecial]
  · by_cases hp : c = cPlus
    · subst hp; simp [translateLoop, ereSpecial]
    · simp [translateLoop, ereSpecial, h, hd, hp]

/-- the loop is a string homomorphism on rendered patterns: it never stops in escape mode inside one -/
theorem translateLoop_render (p : Pat) : ∀ (rest : Bytes), p.WF = true →
    translateLoop false (p.render ++ rest) = (toEre p).render ++ translateLoop false rest := by
  induction p with
  | eps => intro rest _; rfl
  | lit esc c =>
    intro rest h
    simp only [Pat.WF, Bool.and_eq_true, Bool.or_eq_true] at h
    cases esc with
    | true => simp [Pat.render, toEre, Ere.render, translateLoop, keepsBackslash_eq]
    | false =>
      have hp : plain c = true := by simpa using h.2
      simp only [Pat.render, toEre, Ere.render, Bool.false_eq_true, if_false, List.cons_append, List.nil_append]
      exact translateLoop_lit_plain c rest hp
  | any => intro rest _; simp [Pat.render, toEre, Ere.render, translateLoop]
  | star => intro rest _; simp [Pat.render, toEre, Ere.render, translateLoop]
  | cls neg items =>
    intro rest h
    simp only [Pat.WF, Bool.and_eq_true] at h
    have hi := renderItems_pass items h.2
    have hall : (cLBr :: ((if neg then [cCaret] else []) ++ (renderItems items ++ [cRBr]))).all passThru = true := by
      cases neg <;> simp [hi] <;> decide
    simp only [Pat.render, toEre, Ere.render]
    exact translateLoop_passList _ rest hall
  | seq a b iha ihb =>
    intro rest h
    simp only [Pat.WF, Bool.and_eq_true] at h
    simp only [Pat.render, toEre, Ere.render, List.append_assoc]
    rw [iha _ h.1.1.1, ihb _ h.1.1.2]
  | alt bar a b iha ihb =>
    intro rest h
    simp only [Pat.WF, Bool.and_eq_true] at h
    simp only [Pat.render, toEre, Ere.render, List.append_assoc, List.cons_append]
    rw [iha _ h.1]
    cases bar
    · simp [translateLoop, ihb _ h.2]
    · simp [translateLoop, ihb _ h.2]
  | grp a iha =>
    intro rest h
    simp only [Pat.WF] at h
    simp only [Pat.render, toEre, Ere.render, List.append_assoc, List.cons_append]
    rw [translateLoop_pass _ _ (by decide), iha _ h]
    simp [translateLoop]

/-- `if ((str[0] == '\\')&&(str[1] == '<')) str++` changes nothing: the loop drops that backslash anyway -/
theorem translateLoop_skipLt (t : Bytes) :
    translateLoop false (cLt :: t) = translateLoop false (cBs :: cLt :: t) := by
  simp [translateLoop, keepsBackslash_eq, ereSpecial]

theorem firstOK_cases (body : Bytes) (h : firstOK body = true) :
    body = [] ∨ ∃ c r, body = c :: r ∧ c ≠ cTilde ∧ c ≠ cTick ∧ c ≠ cLt := by
  cases body with
  | nil => left; rfl
  | cons c r =>
    right
    simp only [firstOK, Bool.not_eq_true', Bool.or_eq_false_iff, beq_eq_false_iff_ne, ne_eq] at h
    exact ⟨c, r, rfl, h.1.1, h.1.2, h.2⟩

theorem translate_skipEscapedLt (str : Bytes) : translate (skipEscapedLt str) = translate str := by
  unfold skipEscapedLt
  split
  · rename_i a b t
    split
    · rename_i hb
      simp only [Bool.and_eq_true, beq_iff_eq] at hb
      obtain ⟨rfl, rfl⟩ := hb
      simp only [translate, translateLoop_skipLt]
    · rfl
  · rfl

/-- what `SetPattern` does with a body that does not start with a prefix character -/
theorem setPattern_body (neg : Bool) (body : Bytes) (h : firstOK body = true) :
    let c := setPattern ((if neg then [cTilde] else []) ++ body)
    c.negate = neg ∧ c.ranges = [] ∧ c.regex = some (translate body) := by
  rcases firstOK_cases body h with rfl | ⟨c, r, rfl, h1, h2, h3⟩
  · cases neg <;> simp [setPattern]
  · cases neg
    · simp [setPattern, h1, h2, h3, parseRanges, translate_skipEscapedLt]
    · simp [setPattern, h1, h2, h3, parseRanges, translate_skipEscapedLt]

end Muscle.Wildcard
