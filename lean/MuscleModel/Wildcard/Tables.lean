import MuscleModel.Wildcard.Code

/-!
# C15 — facts about the two tables regenerated from the C++ source

Everything the theorems need to know about `IsRegexToken` and about the backslash-keeping list of `SetPattern` is
derived here from the *generated* tables (`Muscle.Gen.regexTokensFirst/Rest`, `Muscle.Gen.setPatternKeepsBackslash`)
by exhaustive evaluation, so a change of either table in /repo re-checks exactly these facts.
-/

set_option maxRecDepth 4096

namespace Muscle.Wildcard
open Muscle

theorem uint8_forall {P : UInt8 → Prop} (h : ∀ n, n < 256 → P (UInt8.ofNat n)) (c : UInt8) : P c := by
  have := h c.toNat c.toNat_lt
  simpa using this

/-- `SetPattern` keeps the backslash in front of exactly the ERE special characters -/
theorem keepsBackslash_eq (c : UInt8) : keepsBackslash c = ereSpecial c :=
  uint8_forall (P := fun c => keepsBackslash c = ereSpecial c) (by decide) c

/-- whatever `IsRegexToken` does not flag (and is not NUL) stands for itself in a pattern -/
theorem not_token_plain (c : UInt8) (f : Bool) (h0 : c ≠ 0) (h : isRegexToken c f = false) : plain c = true :=
  uint8_forall (P := fun c => ∀ f : Bool, c ≠ 0 → isRegexToken c f = false → plain c = true) (by decide) c f h0 h

/-- a first character that `IsRegexToken(c, true)` does not flag is none of the three prefix characters -/
theorem not_token_first (c : UInt8) (h : isRegexToken c true = false) : c ≠ cTilde ∧ c ≠ cTick ∧ c ≠ cLt :=
  uint8_forall (P := fun c => isRegexToken c true = false → c ≠ cTilde ∧ c ≠ cTick ∧ c ≠ cLt) (by decide) c h

@[simp] theorem tok_bs (f : Bool) : isRegexToken 92 f = true := by cases f <;> decide
@[simp] theorem tok_qm (f : Bool) : isRegexToken 63 f = true := by cases f <;> decide
@[simp] theorem tok_star (f : Bool) : isRegexToken 42 f = true := by cases f <;> decide
@[simp] theorem tok_lbr (f : Bool) : isRegexToken 91 f = true := by cases f <;> decide
@[simp] theorem tok_lpar (f : Bool) : isRegexToken 40 f = true := by cases f <;> decide
@[simp] theorem tok_comma (f : Bool) : isRegexToken 44 f = true := by cases f <;> decide
@[simp] theorem tok_bar (f : Bool) : isRegexToken 124 f = true := by cases f <;> decide
@[simp] theorem tok_dash (f : Bool) : isRegexToken 45 f = false := by cases f <;> decide
@[simp] theorem tok_tilde_first : isRegexToken 126 true = true := by decide
@[simp] theorem tok_lt_first : isRegexToken 60 true = true := by decide
@[simp] theorem tok_tick_first : isRegexToken 96 true = true := by decide

end Muscle.Wildcard
