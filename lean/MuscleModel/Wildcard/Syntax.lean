import MuscleModel.Base.Bytes

/-!
# C15 — the documented wildcard ("simple pattern") syntax of `StringMatcher`, as an AST with a meaning

`Pat` is the documented syntax (regex/StringMatcher.h class comment, html/muscle-by-example/docs/stringmatcher.md):
literals, `\c` (next character literal), `?`, `*`, classes `[..]` / `[^..]` with ranges, groups `( .. )`,
alternatives separated by `|` or `,`; `Top` adds the leading `~` (negation) and the numeric range list
`<a-b,c->`.  `Pat.Matches` is the meaning as an inductive relation (the *specification*), `Pat.denote` the
executable matcher the model driver runs (proved equal to the relation in `Proofs.lean`), `Pat.render` the
concrete syntax.  Nothing in this file mirrors C++ code: it is what the code is measured against.
-/

namespace Muscle.Wildcard
open Muscle

/-! ## characters -/
abbrev cBs : UInt8 := 92       -- \
abbrev cComma : UInt8 := 44    -- ,
abbrev cBar : UInt8 := 124     -- |
abbrev cDot : UInt8 := 46      -- .
abbrev cPlus : UInt8 := 43     -- +
abbrev cStar : UInt8 := 42     -- *
abbrev cQm : UInt8 := 63       -- ?
abbrev cLBr : UInt8 := 91      -- [
abbrev cRBr : UInt8 := 93      -- ]
abbrev cLPar : UInt8 := 40     -- (
abbrev cRPar : UInt8 := 41     -- )
abbrev cCaret : UInt8 := 94    -- ^
abbrev cDollar : UInt8 := 36   -- $
abbrev cLBrace : UInt8 := 123  -- {
abbrev cRBrace : UInt8 := 125  -- }
abbrev cTilde : UInt8 := 126   -- ~
abbrev cTick : UInt8 := 96     -- `
abbrev cLt : UInt8 := 60       -- <
abbrev cGt : UInt8 := 62       -- >
abbrev cDash : UInt8 := 45     -- -
abbrev cEq : UInt8 := 61       -- =

/-- a character that stands for itself when written without a backslash (outside a class) -/
def plain (c : UInt8) : Bool :=
  !(c == 0 || c == cStar || c == cQm || c == cLBr || c == cRBr || c == cLPar || c == cRPar || c == cComma
    || c == cBar || c == cBs || c == cCaret || c == cDollar || c == cLBrace || c == cRBrace)

/-- a character that stands for itself inside `[..]`: anything but the class syntax itself (`]`, `[`, `^`, `-`) and
    the backslash.  (`, . + * ?` are ordinary members: `SetPattern` copies the inside of a class untranslated.) -/
def clsChar (c : UInt8) : Bool :=
  !(c == 0 || c == cRBr || c == cLBr || c == cCaret || c == cDash || c == cBs)

/-! ## character classes -/
inductive ClsItem where
  | ch (c : UInt8)
  | rng (lo hi : UInt8)
deriving DecidableEq, Repr

def ClsItem.has : ClsItem → UInt8 → Bool
  | .ch c, x => x == c
  | .rng lo hi, x => decide (lo ≤ x) && decide (x ≤ hi)

def ClsItem.render : ClsItem → Bytes
  | .ch c => [c]
  | .rng lo hi => [lo, cDash, hi]

def ClsItem.WF : ClsItem → Bool
  | .ch c => clsChar c
  | .rng lo hi => clsChar lo && clsChar hi && decide (lo ≤ hi)

/-- `[items]` contains `x`; `[^items]` does not -/
def clsHas (neg : Bool) (items : List ClsItem) (x : UInt8) : Bool := (items.any (·.has x)) != neg

def renderItems (items : List ClsItem) : Bytes := items.flatMap ClsItem.render

/-! ## patterns -/
inductive Pat where
  | eps
  | lit (esc : Bool) (c : UInt8)      -- `c` or `\c`
  | any                               -- `?`
  | star                              -- `*`
  | cls (neg : Bool) (items : List ClsItem)
  | seq (a b : Pat)
  | alt (bar : Bool) (a b : Pat)      -- `a|b` (bar) or `a,b`
  | grp (a : Pat)                     -- `(a)`
deriving DecidableEq, Repr

namespace Pat

/-- concrete syntax -/
def render : Pat → Bytes
  | .eps => []
  | .lit esc c => if esc then [cBs, c] else [c]
  | .any => [cQm]
  | .star => [cStar]
  | .cls neg items => cLBr :: ((if neg then [cCaret] else []) ++ (renderItems items ++ [cRBr]))
  | .seq a b => a.render ++ b.render
  | .alt bar a b => a.render ++ (if bar then cBar else cComma) :: b.render
  | .grp a => cLPar :: (a.render ++ [cRPar])

def isAlt : Pat → Bool
  | .alt _ _ _ => true
  | _ => false

/-- inside the documented grammar: unescaped literals are plain, classes are non-empty and use class-safe
    characters with `lo ≤ hi`, and a sequence never has a bare alternative as a child (precedence: the
    rendering then parses back to the same tree) -/
def WF : Pat → Bool
  | .eps => true
  | .lit esc c => c != 0 && (esc || plain c)
  | .any => true
  | .star => true
  | .cls _ items => !items.isEmpty && items.all ClsItem.WF
  | .seq a b => a.WF && b.WF && !a.isAlt && !b.isAlt
  | .alt _ a b => a.WF && b.WF
  | .grp a => a.WF

/-- the meaning of a pattern: the set of strings it denotes (the specification) -/
inductive Matches : Pat → Bytes → Prop where
  | eps : Matches .eps []
  | lit (esc : Bool) (c : UInt8) : Matches (.lit esc c) [c]
  | any (c : UInt8) : Matches .any [c]
  | star (s : Bytes) : Matches .star s
  | cls (neg : Bool) (items : List ClsItem) (c : UInt8) : clsHas neg items c = true → Matches (.cls neg items) [c]
  | seq {a b : Pat} {s₁ s₂ : Bytes} : Matches a s₁ → Matches b s₂ → Matches (.seq a b) (s₁ ++ s₂)
  | altL {bar : Bool} {a b : Pat} {s : Bytes} : Matches a s → Matches (.alt bar a b) s
  | altR {bar : Bool} {a b : Pat} {s : Bytes} : Matches b s → Matches (.alt bar a b) s
  | grp {a : Pat} {s : Bytes} : Matches a s → Matches (.grp a) s

/-- `k` holds for some suffix of `s` -/
def anySuffix (k : Bytes → Bool) : Bytes → Bool
  | [] => k []
  | x :: r => k (x :: r) || anySuffix k r

/-- backtracking matcher in continuation-passing style: some prefix of `s` is denoted by the pattern and
    the continuation accepts the rest -/
def matchK : Pat → Bytes → (Bytes → Bool) → Bool
  | .eps, s, k => k s
  | .lit _ c, s, k => match s with
    | x :: r => x == c && k r
    | [] => false
  | .any, s, k => match s with
    | _ :: r => k r
    | [] => false
  | .star, s, k => anySuffix k s
  | .cls neg items, s, k => match s with
    | x :: r => clsHas neg items x && k r
    | [] => false
  | .seq a b, s, k => a.matchK s (fun r => b.matchK r k)
  | .alt _ a b, s, k => a.matchK s k || b.matchK s k
  | .grp a, s, k => a.matchK s k

/-- the whole string must match -/
def denote (p : Pat) (s : Bytes) : Bool := p.matchK s List.isEmpty

end Pat

/-! ## numeric range lists `<a-b,c->` (documented meaning) -/
inductive RangeSpec where
  | one (n : Nat)                      -- `25`
  | span (lo hi : Option Nat)          -- `19-21`, `-19`, `21-`, `-`
deriving DecidableEq, Repr

def RangeSpec.has : RangeSpec → Nat → Bool
  | .one n, v => v == n
  | .span lo hi, v => decide (lo.getD 0 ≤ v) && (match hi with | some h => decide (v ≤ h) | none => true)

def isDigit (c : UInt8) : Bool := decide (48 ≤ c) && decide (c ≤ 57)

/-- value of a string of decimal digits -/
def decVal (s : Bytes) : Nat := s.foldl (fun acc c => acc * 10 + (c.toNat - 48)) 0

/-- "an ASCII representation of an integer": a non-empty string of decimal digits (of any length; leading zeros
    are allowed: `007` represents 7) -/
def isDecimal (s : Bytes) : Bool := !s.isEmpty && s.all isDigit

/-- documented meaning of a range list: the string represents an integer lying in one of the ranges -/
def rangeDenote (rs : List RangeSpec) (s : Bytes) : Bool :=
  isDecimal s && rs.any (·.has (decVal s))

/-- decimal representation (`%u`) -/
def decimal (n : Nat) : Bytes :=
  if n < 10 then [UInt8.ofNat (48 + n)] else decimal (n / 10) ++ [UInt8.ofNat (48 + n % 10)]
termination_by n
decreasing_by omega

def RangeSpec.render : RangeSpec → Bytes
  | .one n => decimal n
  | .span lo hi => (match lo with | some l => decimal l | none => []) ++ cDash :: (match hi with | some h => decimal h | none => [])

def renderRanges : List RangeSpec → Bytes
  | [] => []
  | [r] => r.render
  | r :: rest => r.render ++ cComma :: renderRanges rest

/-! ## a complete pattern -/
inductive Top where
  | pat (neg : Bool) (p : Pat)
  | ranges (neg : Bool) (rs : List RangeSpec)
deriving DecidableEq, Repr

def Top.render : Top → Bytes
  | .pat neg p => (if neg then [cTilde] else []) ++ p.render
  | .ranges neg rs => (if neg then [cTilde] else []) ++ cLt :: (renderRanges rs ++ [cGt])

/-- a leading `~` negates -/
def Top.denote : Top → Bytes → Bool
  | .pat neg p, s => p.denote s != neg
  | .ranges neg rs, s => rangeDenote rs s != neg

/-- the first character of the body must not be one of the three prefix characters (`~`, backtick, `<`):
    written unescaped there they are not literals -/
def firstOK (body : Bytes) : Bool :=
  match body with
  | c :: _ => !(c == cTilde || c == cTick || c == cLt)
  | [] => true

/-- bounds are in order and every number written in the pattern is below `MUSCLE_NO_LIMIT` = 2^32-1 (which the
    code uses for "no upper bound") -/
def RangeSpec.WF : RangeSpec → Bool
  | .one n => decide (n < 4294967295)
  | .span lo hi => decide (lo.getD 0 ≤ hi.getD 4294967295) && decide (hi.getD 0 < 4294967295)

def Top.WF : Top → Bool
  | .pat _ p => p.WF && firstOK p.render
  | .ranges _ rs => !rs.isEmpty && rs.all RangeSpec.WF

end Muscle.Wildcard
