import MuscleModel.Wildcard.Proofs2

/-!
# C15 — lemmas, part 3: escape / unescape, the single-valued test, ranges
-/

set_option linter.unusedSimpArgs false
set_option linter.unusedVariables false

namespace Muscle.Wildcard
open Muscle

attribute [local simp] cBs cComma cBar cDot cPlus cStar cQm cLBr cRBr cLPar cRPar cCaret cDollar cLBrace cRBrace
  cTilde cTick cLt cGt cDash cEq

/-! ## escape / unescape -/

theorem isRegexToken_bs (f : Bool) : isRegexToken cBs f = true := tok_bs f

theorem unescapeAux_escapeAux (s : Bytes) : ∀ f : Bool, unescapeAux false (escapeAux f s) = s := by
  induction s with
  | nil => intro f; rfl
  | cons c r ih =>
    intro f
    simp only [escapeAux]
    by_cases ht : isRegexToken c f = true
    · simp [ht, unescapeAux, ih]
    · have hc : c ≠ cBs := by
        intro h; subst h; exact ht (isRegexToken_bs f)
      have hc' : (c == (92 : UInt8)) = false := beq_eq_false_iff_ne.mpr (by simpa using hc)
      simp [ht, unescapeAux, ih, hc']

/-- the pattern tree whose rendering is `escapeAux first s`: a sequence of literals, escaped exactly where
    `IsRegexToken` says so -/
def litsOf : Bool → Bytes → Pat
  | _, [] => .eps
  | first, c :: r => .seq (.lit (isRegexToken c first) c) (litsOf false r)

theorem litsOf_render (s : Bytes) : ∀ f : Bool, (litsOf f s).render = escapeAux f s := by
  induction s with
  | nil => intro f; rfl
  | cons c r ih =>
    intro f
    simp only [litsOf, Pat.render, escapeAux, ih]

theorem litsOf_isAlt (f : Bool) (s : Bytes) : (litsOf f s).isAlt = false := by
  cases s <;> rfl

theorem litsOf_WF (s : Bytes) (h0 : ∀ c ∈ s, c ≠ 0) : ∀ f : Bool, (litsOf f s).WF = true := by
  induction s with
  | nil => intro f; rfl
  | cons c r ih =>
    intro f
    have hc : c ≠ 0 := h0 c (by simp)
    have hr := ih (fun x hx => h0 x (by simp [hx])) false
    have h1 : (Pat.lit (isRegexToken c f) c).isAlt = false := rfl
    simp only [litsOf, Pat.WF, hr, litsOf_isAlt, h1, Bool.and_eq_true, Bool.or_eq_true, bne_iff_ne, ne_eq]
    refine ⟨⟨⟨⟨hc, ?_⟩, trivial⟩, by simp⟩, by simp⟩
    cases ht : isRegexToken c f
    · right; exact not_token_plain c f hc ht
    · left; rfl

theorem litsOf_matches (s : Bytes) : ∀ (f : Bool) (t : Bytes), Pat.Matches (litsOf f s) t ↔ t = s := by
  induction s with
  | nil =>
    intro f t
    simp only [litsOf]
    constructor
    · intro h; cases h; rfl
    · rintro rfl; exact .eps
  | cons c r ih =>
    intro f t
    simp only [litsOf]
    constructor
    · intro h
      cases h with
      | seq ha hb =>
        cases ha
        have := (ih false _).1 hb
        subst this; rfl
    · rintro rfl
      exact Pat.Matches.seq (s₁ := [c]) (.lit _ c) ((ih false r).2 rfl)

theorem escape_firstOK (s : Bytes) : firstOK (escape s) = true := by
  cases s with
  | nil => rfl
  | cons c r =>
    simp only [escape, escapeAux]
    by_cases ht : isRegexToken c true = true
    · simp [ht, firstOK]
    · simp only [Bool.not_eq_true] at ht
      obtain ⟨h1, h2, h3⟩ := not_token_first c ht
      simp only [ht, Bool.false_eq_true, if_false, List.cons_append, List.nil_append, firstOK]
      simp at h1 h2 h3
      simp [h1, h2, h3]

/-! ## the single-valued test -/

/-- no unescaped regex token (what `CanWildcardStringMatchMultipleValues` looks for) -/
def noUnescTok : Bool → Bool → Bytes → Bool
  | _, _, [] => true
  | f, pe, c :: r => ((c == cBs && !pe) || pe || !isRegexToken c f) && noUnescTok false (c == cBs && !pe) r

theorem cwsScan_saw (s : Bytes) : ∀ f pe : Bool, (cwsScan f pe true s).1 = true := by
  induction s with
  | nil => intro f pe; rfl
  | cons c r ih =>
    intro f pe
    simp only [cwsScan]
    split
    · split
      · exact ih _ _
      · rfl
    · exact ih _ _

theorem isRegexToken_dash (f : Bool) : isRegexToken cDash f = false := tok_dash f

theorem cwsScan_false (s : Bytes) : ∀ f pe : Bool, (cwsScan f pe false s).1 = false → noUnescTok f pe s = true := by
  induction s with
  | nil => intro f pe _; rfl
  | cons c r ih =>
    intro f pe h
    simp only [cwsScan] at h
    split at h
    · rename_i hc
      split at h
      · have := cwsScan_saw r false (c == cBs && !pe)
        rw [this] at h; cases h
      · cases h
    · rename_i hc
      have hr := ih _ _ h
      simp only [noUnescTok, hr, Bool.and_true]
      by_cases hd : c = cDash
      · subst hd; simp [isRegexToken_dash]
      · have hd' : (c != cDash) = true := by simpa using hd
        rw [hd'] at hc
        generalize (c == cBs && !pe) = e at hc ⊢
        generalize isRegexToken c f = t at hc ⊢
        cases e <;> cases pe <;> cases t <;> simp_all

/-- patterns made of literals only -/
def Pat.litOnly : Pat → Bool
  | .eps => true
  | .lit _ _ => true
  | .seq a b => a.litOnly && b.litOnly
  | _ => false

/-- the string a literal-only pattern spells -/
def Pat.chars : Pat → Bytes
  | .lit _ c => [c]
  | .seq a b => a.chars ++ b.chars
  | _ => []

theorem plain_not_bs (c : UInt8) (h : plain c = true) : c ≠ 92 := by
  simp only [plain, Bool.not_eq_true', Bool.or_eq_false_iff, beq_eq_false_iff_ne, ne_eq] at h
  simpa using h.1.1.1.1.2

theorem noUnescTok_render (p : Pat) : ∀ (f : Bool) (rest : Bytes), p.WF = true →
    noUnescTok f false (p.render ++ rest) = true → p.litOnly = true ∧ ∃ f', noUnescTok f' false rest = true := by
  induction p with
  | eps => intro f rest _ h; exact ⟨rfl, f, h⟩
  | lit esc c =>
    intro f rest hwf h
    refine ⟨rfl, false, ?_⟩
    cases esc with
    | true => simpa [Pat.render, noUnescTok] using h
    | false =>
      simp only [Pat.WF, Bool.and_eq_true, Bool.or_eq_true] at hwf
      have hp : plain c = true := by simpa using hwf.2
      have hb : (c == (92 : UInt8)) = false := beq_eq_false_iff_ne.mpr (plain_not_bs c hp)
      simp only [Pat.render, Bool.false_eq_true, if_false, List.cons_append, List.nil_append, noUnescTok, Bool.and_eq_true] at h
      simpa [hb] using h.2
  | any => intro f rest _ h; simp [Pat.render, noUnescTok] at h
  | star => intro f rest _ h; simp [Pat.render, noUnescTok] at h
  | cls neg items => intro f rest _ h; simp [Pat.render, noUnescTok] at h
  | seq a b iha ihb =>
    intro f rest hwf h
    simp only [Pat.WF, Bool.and_eq_true] at hwf
    simp only [Pat.render, List.append_assoc] at h
    obtain ⟨ha, f', h'⟩ := iha f _ hwf.1.1.1 h
    obtain ⟨hb, f'', h''⟩ := ihb f' _ hwf.1.1.2 h'
    exact ⟨by simp [Pat.litOnly, ha, hb], f'', h''⟩
  | alt bar a b iha ihb =>
    intro f rest hwf h
    simp only [Pat.WF, Bool.and_eq_true] at hwf
    simp only [Pat.render, List.append_assoc, List.cons_append] at h
    obtain ⟨_, f', h'⟩ := iha f _ hwf.1 h
    cases bar <;> simp [noUnescTok] at h'
  | grp a iha => intro f rest _ h; simp [Pat.render, noUnescTok] at h

theorem litOnly_matches (p : Pat) (h : p.litOnly = true) : ∀ s : Bytes, Pat.Matches p s ↔ s = p.chars := by
  induction p with
  | eps =>
    intro s; simp only [Pat.chars]
    constructor
    · intro hm; cases hm; rfl
    · rintro rfl; exact .eps
  | lit esc c =>
    intro s; simp only [Pat.chars]
    constructor
    · intro hm; cases hm; rfl
    · rintro rfl; exact .lit esc c
  | seq a b iha ihb =>
    intro s
    simp only [Pat.litOnly, Bool.and_eq_true] at h
    simp only [Pat.chars]
    constructor
    · intro hm
      cases hm with
      | seq ha hb => rw [(iha h.1 _).1 ha, (ihb h.2 _).1 hb]
    · rintro rfl
      exact .seq ((iha h.1 _).2 rfl) ((ihb h.2 _).2 rfl)
  | any => cases h
  | star => cases h
  | cls _ _ => cases h
  | alt _ _ _ => cases h
  | grp _ => cases h

theorem unescapeAux_render (p : Pat) (hl : p.litOnly = true) : ∀ (rest : Bytes), p.WF = true →
    unescapeAux false (p.render ++ rest) = p.chars ++ unescapeAux false rest := by
  induction p with
  | eps => intro rest _; rfl
  | lit esc c =>
    intro rest hwf
    cases esc with
    | true => simp [Pat.render, Pat.chars, unescapeAux]
    | false =>
      simp only [Pat.WF, Bool.and_eq_true, Bool.or_eq_true] at hwf
      have hp : plain c = true := by simpa using hwf.2
      have hb : (c == (92 : UInt8)) = false := beq_eq_false_iff_ne.mpr (plain_not_bs c hp)
      simp [Pat.render, Pat.chars, unescapeAux, hb]
  | seq a b iha ihb =>
    intro rest hwf
    simp only [Pat.litOnly, Bool.and_eq_true] at hl
    simp only [Pat.WF, Bool.and_eq_true] at hwf
    simp only [Pat.render, Pat.chars, List.append_assoc]
    rw [iha hl.1 _ hwf.1.1.1, ihb hl.2 _ hwf.1.1.2]
  | any => cases hl
  | star => cases hl
  | cls _ _ => cases hl
  | alt _ _ _ => cases hl
  | grp _ => cases hl

/-- a rendered pattern that the scan of `CanWildcardStringMatchMultipleValues` lets through is a
    literal-only pattern -/
theorem canMatchMultiple_false_litOnly (p : Pat) (hwf : p.WF = true) (h : canMatchMultiple p.render = false) :
    p.litOnly = true := by
  unfold canMatchMultiple canMatchMultipleAux at h
  have hs : (cwsScan true false false p.render).1 = false := by
    split at h
    · split at h
      · cases h
      · exact h
    · rename_i heq; rw [heq]; rfl
  have := cwsScan_false _ _ _ hs
  have := noUnescTok_render p true [] hwf (by simpa using this)
  exact this.1

theorem canMatchMultiple_tilde (r : Bytes) : canMatchMultiple (cTilde :: r) = true := by
  simp [canMatchMultiple, canMatchMultipleAux, cwsScan]

theorem canMatchMultiple_lt (r : Bytes) : canMatchMultiple (cLt :: r) = true := by
  simp [canMatchMultiple, canMatchMultipleAux, cwsScan]

/-! ## ranges -/

theorem u32_atoull (s : Bytes) : u32 (atoull s) = decVal (s.takeWhile isDigit) % 4294967296 := by
  simp only [u32, atoull]
  omega

theorem takeWhile_all (s : Bytes) (h : s.all isDigit = true) : s.takeWhile isDigit = s := by
  induction s with
  | nil => rfl
  | cons c r ih =>
    simp only [List.all_cons, Bool.and_eq_true] at h
    simp [List.takeWhile, h.1, ih h.2]

theorem dropWhile_nil_iff (s : Bytes) : (s.dropWhile isDigit).isEmpty = true ↔ s.all isDigit = true := by
  induction s with
  | nil => simp
  | cons c r ih =>
    by_cases hc : isDigit c = true
    · simp [List.dropWhile, hc, ih]
    · simp [List.dropWhile, hc]

/-- clamping at every step is clamping at the end -/
theorem satVal_fold (s : Bytes) : ∀ a A : Nat, a = min A noLimit →
    s.foldl (fun acc c => min (acc * 10 + (c.toNat - 48)) noLimit) a
      = min (s.foldl (fun acc c => acc * 10 + (c.toNat - 48)) A) noLimit := by
  induction s with
  | nil => intro a A h; simpa using h
  | cons c r ih =>
    intro a A h
    simp only [List.foldl_cons]
    apply ih
    subst h
    simp only [noLimit]
    omega

theorem satVal_eq (s : Bytes) : satVal s = min (decVal s) noLimit := by
  simp only [satVal, decVal]
  exact satVal_fold s 0 0 (by simp [noLimit])

/-- what the range branch of `Match` computes, exactly -/
theorem matchRange_iff (rs : List (Nat × Nat)) (s : Bytes) :
    matchRange rs s = true ↔
      (isDecimal s = true ∧ ∃ r ∈ rs, r.1 ≤ min (decVal s) noLimit ∧ min (decVal s) noLimit ≤ r.2) := by
  by_cases hall : s.all isDigit = true
  · have ht := takeWhile_all s hall
    have hd := (dropWhile_nil_iff s).2 hall
    simp only [matchRange, ht, hd, Bool.and_true, satVal_eq, isDecimal, hall]
    cases hs : s.isEmpty <;> simp
  · have hd : (s.dropWhile isDigit).isEmpty = false := by
      cases h : (s.dropWhile isDigit).isEmpty
      · rfl
      · exact absurd ((dropWhile_nil_iff s).1 h) hall
    simp [matchRange, hd, isDecimal, hall]

theorem setPattern_canMulti (pat : Bytes) : (setPattern pat).canMulti = canMatchMultiple pat := by
  unfold setPattern canMatchMultiple
  repeat' split
  all_goals first | rfl | (simp only []; split <;> rfl)

theorem cwsScan_escapeAux (s : Bytes) : ∀ f : Bool, cwsScan f false false (escapeAux f s) = (false, false) := by
  induction s with
  | nil => intro f; rfl
  | cons c r ih =>
    intro f
    simp only [escapeAux]
    by_cases ht : isRegexToken c f = true
    · simp [ht, cwsScan, ih]
    · have hc : (c == (92 : UInt8)) = false := beq_eq_false_iff_ne.mpr (by
        intro h; subst h; exact ht (isRegexToken_bs f))
      simp [ht, cwsScan, ih, hc]

/-- for a documented range list the stored `IDRange`s, compared against the clamped value, mean what the clauses say
    for integers of any size -/
theorem matchRange_toId (neg : Bool) (rs : List RangeSpec) (hwf : (Top.ranges neg rs).WF = true) (s : Bytes) :
    matchRange (rs.map RangeSpec.toId) s = rangeDenote rs s := by
  simp only [Top.WF, Bool.and_eq_true, List.all_eq_true] at hwf
  rw [Bool.eq_iff_iff, matchRange_iff, rangeDenote, Bool.and_eq_true, List.any_eq_true]
  refine and_congr Iff.rfl ?_
  constructor
  · rintro ⟨r, hr, h1, h2⟩
    obtain ⟨q, hq, rfl⟩ := List.mem_map.1 hr
    refine ⟨q, hq, ?_⟩
    have hq' := hwf.2 q hq
    cases q with
    | one n =>
      simp only [RangeSpec.WF, decide_eq_true_eq] at hq'
      simp only [RangeSpec.toId, idRange, Nat.min_self, Nat.max_self, noLimit] at h1 h2
      simp only [RangeSpec.has, beq_iff_eq]; omega
    | span lo hi =>
      simp only [RangeSpec.WF, Bool.and_eq_true, decide_eq_true_eq] at hq'
      cases hi with
      | none =>
        simp only [RangeSpec.toId, idRange, Option.getD_none, noLimit] at h1 h2 hq' ⊢
        simp only [RangeSpec.has, Bool.and_true, decide_eq_true_eq]; omega
      | some hh =>
        simp only [RangeSpec.toId, idRange, Option.getD_some, noLimit] at h1 h2 hq' ⊢
        simp only [RangeSpec.has, Bool.and_eq_true, decide_eq_true_eq]; omega
  · rintro ⟨q, hq, hh⟩
    refine ⟨q.toId, List.mem_map.2 ⟨q, hq, rfl⟩, ?_⟩
    have hq' := hwf.2 q hq
    cases q with
    | one n =>
      simp only [RangeSpec.WF, decide_eq_true_eq] at hq'
      simp only [RangeSpec.has, beq_iff_eq] at hh
      simp only [RangeSpec.toId, idRange, Nat.min_self, Nat.max_self, noLimit]; omega
    | span lo hi =>
      simp only [RangeSpec.WF, Bool.and_eq_true, decide_eq_true_eq] at hq'
      cases hi with
      | none =>
        simp only [RangeSpec.has, Bool.and_true, decide_eq_true_eq] at hh
        simp only [RangeSpec.toId, idRange, Option.getD_none, noLimit] at hq' ⊢; omega
      | some h' =>
        simp only [RangeSpec.has, Bool.and_eq_true, decide_eq_true_eq] at hh
        simp only [RangeSpec.toId, idRange, Option.getD_some, noLimit] at hq' ⊢; omega

theorem canMatchMultiple_escape (s : Bytes) : canMatchMultiple (escape s) = false := by
  unfold canMatchMultiple canMatchMultipleAux
  cases s with
  | nil => rfl
  | cons c r =>
    have hscan := cwsScan_escapeAux (c :: r) true
    simp only [escape] at hscan ⊢
    split
    · rename_i x y heq
      split
      · rename_i hx
        -- the escaped text never starts with a backtick: a leading backtick is a token and gets its backslash
        exfalso
        simp only [escapeAux] at heq
        by_cases ht : isRegexToken c true = true
        · simp [ht] at heq; simp [← heq.1] at hx
        · simp only [Bool.not_eq_true] at ht
          have h2 := (not_token_first c ht).2.1
          simp [ht] at heq
          have : c = cTick := by simpa [heq.1] using hx
          exact h2 this
      · rw [hscan]
    · rw [hscan]

end Muscle.Wildcard
