/-!
# Bytes, little-endian words, reader combinators

`Bytes := List UInt8`.  Readers are in "value and rest" style:
`rd32 : Bytes → Option (Nat × Bytes)`; every combinator comes with a
round-trip lemma against its writer, stated in simp-normal form.
Core Lean only (no Mathlib) so that the driver links as a `lean_exe`.
-/

namespace Muscle

abbrev Bytes := List UInt8

/-- little-endian encoding of `n` in `k` bytes (value taken modulo `256^k`) -/
def leN : Nat → Nat → Bytes
  | 0, _ => []
  | k+1, n => UInt8.ofNat (n % 256) :: leN k (n / 256)

/-- little-endian value of a byte list -/
def leVal : Bytes → Nat
  | [] => 0
  | b :: r => b.toNat + 256 * leVal r

@[simp] theorem leN_length (k n : Nat) : (leN k n).length = k := by
  induction k generalizing n with
  | zero => rfl
  | succ k ih => simp [leN, ih]

theorem leVal_leN (k n : Nat) (h : n < 256 ^ k) : leVal (leN k n) = n := by
  induction k generalizing n with
  | zero => simp [leN, leVal]; simp at h; omega
  | succ k ih =>
    have h2 : n / 256 < 256 ^ k := by
      rw [Nat.pow_succ] at h
      exact Nat.div_lt_of_lt_mul (by rw [Nat.mul_comm]; exact h)
    simp [leN, leVal, ih _ h2, UInt8.toNat_ofNat']
    omega

theorem leVal_lt (b : Bytes) : leVal b < 256 ^ b.length := by
  induction b with
  | nil => simp [leVal]
  | cons a r ih =>
    have := a.toNat_lt
    simp only [leVal, List.length_cons, Nat.pow_succ]
    omega

theorem leN_leVal (b : Bytes) : leN b.length (leVal b) = b := by
  induction b with
  | nil => rfl
  | cons a r ih =>
    have ha := a.toNat_lt
    simp only [List.length_cons, leN, leVal]
    have h1 : (a.toNat + 256 * leVal r) % 256 = a.toNat := by omega
    have h2 : (a.toNat + 256 * leVal r) / 256 = leVal r := by omega
    rw [h1, h2, ih]
    simp

def le16 (n : Nat) : Bytes := leN 2 n
def le32 (n : Nat) : Bytes := leN 4 n
def le64 (n : Nat) : Bytes := leN 8 n

@[simp] theorem le32_length (n : Nat) : (le32 n).length = 4 := by simp [le32]

/-- split off exactly `n` bytes, or fail -/
def takeN (n : Nat) (b : Bytes) : Option (Bytes × Bytes) :=
  if n ≤ b.length then some (b.take n, b.drop n) else none

@[simp] theorem takeN_append (a r : Bytes) : takeN a.length (a ++ r) = some (a, r) := by
  simp [takeN]

theorem takeN_append' (a r : Bytes) (n : Nat) (h : n = a.length) : takeN n (a ++ r) = some (a, r) := by
  subst h; simp

theorem takeN_some {n : Nat} {b x r : Bytes} (h : takeN n b = some (x, r)) :
    b = x ++ r ∧ x.length = n := by
  unfold takeN at h
  split at h
  · cases h
    constructor
    · simp
    · simp; omega
  · cases h

/-- read a little-endian `k`-byte word -/
def rdN (k : Nat) (b : Bytes) : Option (Nat × Bytes) :=
  match takeN k b with
  | some (x, r) => some (leVal x, r)
  | none => none

def rd32 (b : Bytes) : Option (Nat × Bytes) := rdN 4 b

theorem rdN_leN (k n : Nat) (r : Bytes) (h : n < 256 ^ k) : rdN k (leN k n ++ r) = some (n, r) := by
  have := takeN_append' (leN k n) r k (by simp)
  simp [rdN, this, leVal_leN k n h]

@[simp] theorem rd32_le32 (n : Nat) (r : Bytes) (h : n < 4294967296) : rd32 (le32 n ++ r) = some (n, r) := by
  exact rdN_leN 4 n r (by simpa using h)

theorem rd32_some {b r : Bytes} {n : Nat} (h : rd32 b = some (n, r)) :
    b = le32 n ++ r ∧ n < 4294967296 := by
  unfold rd32 rdN at h
  split at h
  · rename_i x r' ht
    cases h
    obtain ⟨hb, hl⟩ := takeN_some ht
    constructor
    · rw [hb, le32, ← hl, leN_leVal]
    · have := leVal_lt x
      rw [hl] at this
      simpa using this
  · cases h

theorem rd32_length {b r : Bytes} {n : Nat} (h : rd32 b = some (n, r)) : b.length = r.length + 4 := by
  obtain ⟨hb, _⟩ := rd32_some h
  rw [hb]; simp; omega

/-! ## hex -/

def hexDigit (n : Nat) : Char :=
  if n < 10 then Char.ofNat (48 + n) else Char.ofNat (87 + n)

def hexOfBytes (b : Bytes) : String :=
  String.ofList (b.foldr (fun x acc => hexDigit (x.toNat / 16) :: hexDigit (x.toNat % 16) :: acc) [])

def hexVal (c : Char) : Option Nat :=
  if '0' ≤ c ∧ c ≤ '9' then some (c.toNat - 48)
  else if 'a' ≤ c ∧ c ≤ 'f' then some (c.toNat - 87)
  else if 'A' ≤ c ∧ c ≤ 'F' then some (c.toNat - 55)
  else none

def bytesOfHexChars : List Char → Option Bytes
  | [] => some []
  | a :: b :: r => do
      let x ← hexVal a
      let y ← hexVal b
      let t ← bytesOfHexChars r
      pure (UInt8.ofNat (16 * x + y) :: t)
  | [_] => none

/-- op-line token for a byte string: `x` followed by hex digits (so the empty string is `x`) -/
def tokOfBytes (b : Bytes) : String := "x" ++ hexOfBytes b

def bytesOfTok (s : String) : Option Bytes :=
  match s.toList with
  | 'x' :: r => bytesOfHexChars r
  | _ => none

end Muscle
