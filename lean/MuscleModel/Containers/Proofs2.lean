import MuscleModel.Containers.Proofs

/-! Every reordering primitive is a permutation of the entries (so the map content is untouched). -/

set_option linter.unusedSectionVars false
set_option linter.unusedSimpArgs false
set_option linter.unusedVariables false

namespace Muscle.Containers
variable {K V : Type} [DecidableEq K]

theorem toFront_perm {m : OMap K V} (k : K) (hn : (keys m).Nodup) : (toFront m k).Perm m := by
  unfold toFront
  cases hg : get m k with
  | none => exact List.Perm.refl _
  | some v => exact erase_cons_perm hn hg

theorem toBack_perm {m : OMap K V} (k : K) (hn : (keys m).Nodup) : (toBack m k).Perm m := by
  unfold toBack
  cases hg : get m k with
  | none => exact List.Perm.refl _
  | some v =>
    have h1 : (erase m k ++ [(k, v)]).Perm ((k, v) :: erase m k) := by
      have := (List.perm_middle (l₁ := erase m k) (l₂ := []) (a := (k, v)))
      simpa using this
    exact h1.trans (erase_cons_perm hn hg)

theorem toBefore_perm {m : OMap K V} (k f : K) (hn : (keys m).Nodup) : (toBefore m k f).Perm m := by
  unfold toBefore
  cases hg : get m k with
  | none => exact List.Perm.refl _
  | some v => exact (insertAt_perm _ _ _).trans (erase_cons_perm hn hg)

theorem toBehind_perm {m : OMap K V} (k d : K) (hn : (keys m).Nodup) : (toBehind m k d).Perm m := by
  unfold toBehind
  cases hg : get m k with
  | none => exact List.Perm.refl _
  | some v => exact (insertAt_perm _ _ _).trans (erase_cons_perm hn hg)

theorem toPos_perm {m : OMap K V} (k : K) (i : Nat) (hn : (keys m).Nodup) : (toPos m k i).Perm m := by
  unfold toPos
  cases hg : get m k with
  | none => exact List.Perm.refl _
  | some v => exact (insertAt_perm _ _ _).trans (erase_cons_perm hn hg)

theorem sortBy_perm (lt : K × V → K × V → Bool) (m : OMap K V) : (sortBy lt m).Perm m := List.mergeSort_perm _ _

theorem insRev_perm (lt : K × V → K × V → Bool) (e : K × V) (l : List (K × V)) : (insRev lt e l).Perm (e :: l) := by
  induction l with
  | nil => exact List.Perm.refl _
  | cons x r ih =>
    unfold insRev
    by_cases h : lt e x
    · simp only [h, if_true]
      exact (ih.cons x).trans (List.Perm.swap _ _ _)
    · simp only [h]; exact List.Perm.refl _

theorem insertInOrder_perm (lt : K × V → K × V → Bool) (e : K × V) (m : OMap K V) : (insertInOrder lt e m).Perm (e :: m) := by
  unfold insertInOrder
  cases m with
  | nil => exact List.Perm.refl _
  | cons h t =>
    simp only
    by_cases hl : lt e h
    · simp only [hl, if_true]; exact List.Perm.refl _
    · simp only [hl]
      exact (List.reverse_perm _).trans ((insRev_perm lt e _).trans ((List.reverse_perm _).cons e))

theorem splitAtKey_eq {m : OMap K V} {k : K} {pre post : OMap K V} {e : K × V}
    (h : splitAtKey m k = some (pre, e, post)) : m = pre ++ e :: post ∧ e.1 = k := by
  induction m generalizing pre with
  | nil => simp [splitAtKey] at h
  | cons p r ih =>
    unfold splitAtKey at h
    by_cases hp : p.1 = k
    · simp only [hp, if_true, Option.some.injEq, Prod.mk.injEq] at h
      obtain ⟨rfl, rfl, rfl⟩ := h
      exact ⟨rfl, hp⟩
    · simp only [hp] at h
      cases hs : splitAtKey r k with
      | none => simp [hs] at h
      | some t =>
        obtain ⟨a, e', b⟩ := t
        simp only [hs, Option.some.injEq, Prod.mk.injEq] at h
        obtain ⟨rfl, rfl, rfl⟩ := h
        obtain ⟨h1, h2⟩ := ih hs
        exact ⟨by rw [h1]; rfl, h2⟩

theorem splitAtKey_none {m : OMap K V} {k : K} (h : splitAtKey m k = none) : k ∉ keys m := by
  induction m with
  | nil => simp
  | cons p r ih =>
    unfold splitAtKey at h
    by_cases hp : p.1 = k
    · simp [hp] at h
    · simp only [hp] at h
      cases hs : splitAtKey r k with
      | none =>
        simp only [keys_cons, List.mem_cons, not_or]
        exact ⟨fun e => hp e.symm, ih hs⟩
      | some t => obtain ⟨a, e', b⟩ := t; simp [hs] at h

theorem takeWhile_rev_split (p : K × V → Bool) (l : List (K × V)) :
    (l.reverse.dropWhile p).reverse ++ (l.reverse.takeWhile p).reverse = l := by
  have h := List.takeWhile_append_dropWhile (p := p) (l := l.reverse)
  have h2 := congrArg List.reverse h
  rw [List.reverse_append, List.reverse_reverse] at h2
  exact h2

theorem repositionM_perm (lt : K × V → K × V → Bool) (m : OMap K V) (k : K) : (repositionM lt m k).1.Perm m := by
  unfold repositionM
  cases hs : splitAtKey m k with
  | none => exact List.Perm.refl _
  | some t =>
    obtain ⟨pre, e, post⟩ := t
    obtain ⟨hm, _⟩ := splitAtKey_eq hs
    simp only
    by_cases c1 : lastSat (fun b => lt e b) pre = true
    · simp only [c1, if_true]
      by_cases c2 : headSat (fun h => lt e h) pre = true
      · simp only [c2, if_true]; rw [hm]; exact List.perm_middle.symm
      · simp only [c2]
        rw [hm]
        have hsplit := takeWhile_rev_split (fun x => lt e x) pre
        generalize (pre.reverse.dropWhile fun x => lt e x).reverse = keep at hsplit ⊢
        generalize (pre.reverse.takeWhile fun x => lt e x).reverse = run at hsplit ⊢
        subst hsplit
        simp only [List.append_assoc]
        apply List.Perm.append_left
        exact List.perm_middle.symm
    · simp only [c1]
      by_cases c3 : headSat (fun b => lt b e) post = true
      · simp only [c3, if_true]
        by_cases c4 : lastSat (fun t => lt t e) post = true
        · simp only [c4, if_true]
          rw [hm]
          apply List.Perm.append_left
          have := (List.perm_middle (l₁ := post) (l₂ := []) (a := e))
          simpa using this
        · simp only [c4]
          rw [hm]
          apply List.Perm.append_left
          have hsplit := List.takeWhile_append_dropWhile (p := fun x => lt x e) (l := post)
          generalize post.takeWhile (fun x => lt x e) = tw at hsplit ⊢
          generalize post.dropWhile (fun x => lt x e) = dw at hsplit ⊢
          subst hsplit
          exact List.perm_middle
      · simp only [c3]; exact List.Perm.refl _

theorem repositionM_snd_false (lt : K × V → K × V → Bool) (m : OMap K V) (k : K) (h : (repositionM lt m k).2 = false) :
    (repositionM lt m k).1 = m := by
  unfold repositionM at h ⊢
  cases hs : splitAtKey m k with
  | none => rfl
  | some t =>
    obtain ⟨pre, e, post⟩ := t
    simp only [hs] at h ⊢
    by_cases c1 : lastSat (fun b => lt e b) pre = true
    · simp only [c1, if_true] at h
      by_cases c2 : headSat (fun h => lt e h) pre = true
      · simp [c2] at h
      · simp [c2] at h
    · simp only [c1] at h ⊢
      by_cases c3 : headSat (fun b => lt b e) post = true
      · simp only [c3, if_true] at h
        by_cases c4 : lastSat (fun t => lt t e) post = true
        · simp [c4] at h
        · simp [c4] at h
      · simp [c3]

end Muscle.Containers
