import MuscleModel.Containers.HTab

/-!
# A traversal of a plain `Hashtable` by one registered iterator while the table is mutated

Events: `adv` = `iter++`; `put k v` = `Put` (a new key is linked at the tail, an existing one keeps its
place); `remove k` = `Remove` (every other removing call — `RemoveFirst/Last`, `Remove(table)`, `Intersect`,
`MoveToTable` — is a sequence of these).  None of them reorders surviving entries.  The state is the table's
order list and the one iterator; `TSt.step` is `Tab.apply none` on the table whose registry is `[it]`
(`Containers/Proofs7.lean`, `step_toTab`).
-/

namespace Muscle.Containers

inductive Ev (K V : Type) where
  | adv
  | put (k : K) (v : V)
  | remove (k : K)

structure TSt (K V : Type) where
  m : OMap K V
  it : Iter K V

section
variable {K V : Type} [DecidableEq K]

def TSt.toTab (st : TSt K V) : Tab K V := { m := st.m, its := [st.it], autoSort := true }

def Ev.toOp : Ev K V → Op K V
  | .adv => .itNext 0
  | .put k v => .put k v
  | .remove k => .remove k

def TSt.step (st : TSt K V) : Ev K V → TSt K V
  | .adv => { st with it := st.it.next st.m }
  | .put k v => { st with m := (Tab.putAux none st.toTab k v).m }
  | .remove k => if has st.m k then { m := erase st.m k, it := st.it.onRemove st.m k } else st

/-- the key `GetKey()` returns now (`none` = `HasData()` is false) -/
def TSt.shown (st : TSt K V) : Option K := (st.it.peek st.m).map (·.1)

/-- the keys the iterator would still show if nothing else happened -/
def TSt.pending (st : TSt K V) : List K :=
  match st.it.cur with
  | none => []
  | some c =>
    if st.it.scratch.isSome then c :: after (dirKeys st.m st.it.back) c else after (dirKeys st.m st.it.back) c

/-- the keys that come into view by the `adv` events of a run -/
def visitedFrom : TSt K V → List (Ev K V) → List K
  | _, [] => []
  | st, e :: r =>
    match e with
    | .adv => (st.step .adv).shown.toList ++ visitedFrom (st.step .adv) r
    | .put k v => visitedFrom (st.step (.put k v)) r
    | .remove k => visitedFrom (st.step (.remove k)) r

/-- every key the traversal shows: the one in view at the start, then one per successful `adv` -/
def visited (st : TSt K V) (evs : List (Ev K V)) : List K := st.shown.toList ++ visitedFrom st evs

def runFinal (st : TSt K V) (evs : List (Ev K V)) : TSt K V := evs.foldl TSt.step st

/-- no key is put again after a `remove` of it (a re-inserted key is a new entry and may be visited again) -/
def NoReinsert : List K → List (Ev K V) → Prop
  | _, [] => True
  | R, .adv :: r => NoReinsert R r
  | R, .put k _ :: r => k ∉ R ∧ NoReinsert R r
  | R, .remove k :: r => NoReinsert (k :: R) r

end
end Muscle.Containers
