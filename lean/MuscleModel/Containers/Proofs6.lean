import MuscleModel.Containers.Proofs5

/-! Positional puts (plain table), the auto-sort invariant over the order-respecting operations, and what a
registered iterator can show. -/

set_option linter.unusedSectionVars false
set_option linter.unusedSimpArgs false
set_option linter.unusedVariables false

namespace Muscle.Containers
variable {K V : Type} [DecidableEq K]

namespace Tab

theorem mem_keys_putAux_plain (tb : Tab K V) (k : K) (v : V) : k ∈ keys (tb.putAux none k v).m := by
  rw [keys_putAux_plain]; split <;> simp [*]

theorem filter_keys_putAux_plain (tb : Tab K V) (k : K) (v : V) :
    (keys (tb.putAux none k v).m).filter (fun x => x ≠ k) = (keys tb.m).filter (fun x => x ≠ k) := by
  rw [keys_putAux_plain]; split
  · rfl
  · simp [List.filter_append]

theorem length_putAux_plain_pos (tb : Tab K V) (k : K) (v : V) : 0 < (tb.putAux none k v).m.length := by
  have := mem_keys_putAux_plain tb k v
  rw [← length_keys]
  exact List.length_pos_of_mem this

theorem keys_putAtFront_plain {tb : Tab K V} (k : K) (v : V) (h : tb.Inv) :
    keys (tb.putAtFront none k v).m = k :: (keys tb.m).filter (fun x => x ≠ k) := by
  unfold putAtFront
  rw [keys_moveFrontAux (inv_putAux none k v h).1 (mem_keys_putAux_plain tb k v), filter_keys_putAux_plain]

theorem keys_putAtBack_plain {tb : Tab K V} (k : K) (v : V) (h : tb.Inv) :
    keys (tb.putAtBack none k v).m = (keys tb.m).filter (fun x => x ≠ k) ++ [k] := by
  unfold putAtBack
  rw [keys_moveBackAux (inv_putAux none k v h).1 (mem_keys_putAux_plain tb k v), filter_keys_putAux_plain]

/-- `PutAtPosition(k, idx, v)`: `k` ends at position `min idx (n'-1)` where `n'` is the population after the put -/
theorem keys_putAtPosition_plain {tb : Tab K V} (k : K) (idx : Nat) (v : V) (h : tb.Inv) :
    keys (tb.putAtPosition none k idx v).m =
      ((keys tb.m).filter (fun x => x ≠ k)).take (min idx ((tb.putAux none k v).m.length - 1)) ++
        k :: ((keys tb.m).filter (fun x => x ≠ k)).drop (min idx ((tb.putAux none k v).m.length - 1)) := by
  unfold putAtPosition
  rw [keys_movePosAux idx (inv_putAux none k v h).1 (mem_keys_putAux_plain tb k v), filter_keys_putAux_plain]

/-- `PutBefore(k, f, v)` with `f` in the table and `f ≠ k`: `k` sits immediately before `f` -/
theorem keys_putBefore_plain {tb : Tab K V} (k f : K) (v : V) (h : tb.Inv) (hf : f ∈ keys tb.m) (hne : k ≠ f) :
    ∃ a b, (keys tb.m).filter (fun x => x ≠ k) = a ++ f :: b ∧ keys (tb.putBefore none k f v).m = a ++ k :: f :: b := by
  unfold putBefore
  have hf' : f ∈ keys (tb.putAux none k v).m := by
    rw [keys_putAux_plain]; split <;> simp [hf]
  simp only [has_iff.mpr hf', hne, ne_eq, not_false_eq_true, and_self, if_true]
  have := keys_moveBeforeAux (inv_putAux none k v h).1 (mem_keys_putAux_plain tb k v) hf' hne
  rw [filter_keys_putAux_plain] at this
  exact this

/-- `PutBehind(k, d, v)` with `d` in the table and `d ≠ k`: `k` sits immediately behind `d` -/
theorem keys_putBehind_plain {tb : Tab K V} (k d : K) (v : V) (h : tb.Inv) (hd : d ∈ keys tb.m) (hne : k ≠ d) :
    ∃ a b, (keys tb.m).filter (fun x => x ≠ k) = a ++ d :: b ∧ keys (tb.putBehind none k d v).m = a ++ d :: k :: b := by
  unfold putBehind
  have hd' : d ∈ keys (tb.putAux none k v).m := by
    rw [keys_putAux_plain]; split <;> simp [hd]
  simp only [has_iff.mpr hd', hne, ne_eq, not_false_eq_true, and_self, if_true]
  have := keys_moveBehindAux (inv_putAux none k v h).1 (mem_keys_putAux_plain tb k v) hd' hne
  rw [filter_keys_putAux_plain] at this
  exact this

/-- `PutBefore/PutBehind` with the position key missing or equal to the key: a plain `Put` -/
theorem putBefore_eq_put (lt? : Option (K × V → K × V → Bool)) (tb : Tab K V) (k f : K) (v : V)
    (h : f ∉ keys (tb.putAux lt? k v).m ∨ k = f) : tb.putBefore lt? k f v = tb.putAux lt? k v := by
  unfold putBefore
  rcases h with h | h
  · simp [has_false_iff.mpr h]
  · simp [h]

/- ---------- the operations that respect the sort order of an auto-sorting table ---------- -/

/-- operations after which an `OrderedKeysHashtable`/`OrderedValuesHashtable` with auto-sort on is still sorted
    (the positional puts and the `MoveTo…` family are documented as breaking the order; `SortByKey/SortByValue`
    with a foreign comparison and switching auto-sort off are excluded as well) -/
def SortSafe (lt : K × V → K × V → Bool) : Op K V → Prop
  | .put _ _ | .remove _ | .removeAll _ | .intersect _ | .clear | .copyFrom _ _ | .realloc => True
  | .sortBy lt' => lt' = lt
  | .setAutoSort en _ => en = true
  | .itNew _ | .itAt _ _ | .itNext _ | .itPrev _ | .itSetBack _ _ | .itDrop _ | .itCopy _ => True
  | .reposition _ => False   -- restores the order only if at most that one entry is out of place: see `sorted_reposition`
  | _ => False

/-- sorted, auto-sort on -/
def SortedInv (lt : K × V → K × V → Bool) (tb : Tab K V) : Prop := tb.Inv ∧ Sorted lt tb.m ∧ tb.autoSort = true

theorem sortedInv_apply {lt : K × V → K × V → Bool} (sw : StrictWeak lt) {tb : Tab K V} (op : Op K V)
    (hs : SortSafe lt op) (h : SortedInv lt tb) : SortedInv lt (tb.apply (some lt) op) := by
  refine ⟨inv_apply (some lt) op h.1, ?_⟩
  obtain ⟨hi, hsrt, ha⟩ := h
  cases op with
  | put k v =>
    refine ⟨sorted_putAux sw k v hi.1 ha hsrt, ?_⟩
    simp only [apply, putAux, valueChanged, reposition]
    split
    · split
      · exact ha
      · split <;> simp [patch, ha]
    · exact ha
  | remove k =>
    refine ⟨sorted_removeKey k hsrt, ?_⟩
    simp only [apply, removeKey]; split <;> simp [patch, ha]
  | removeAll ks =>
    refine ⟨sorted_foldl_removeKey ks hsrt, ?_⟩
    simp only [apply, removeAll]
    have : ∀ (l : List K) (t : Tab K V), t.autoSort = true → (l.foldl removeKey t).autoSort = true := by
      intro l
      induction l with
      | nil => intro t ht; exact ht
      | cons x r ih =>
        intro t ht
        simp only [List.foldl_cons]
        apply ih
        simp only [removeKey]; split <;> simp [patch, ht]
    exact this ks tb ha
  | intersect o =>
    refine ⟨sorted_foldl_removeKey _ hsrt, ?_⟩
    simp only [apply, intersect]
    have : ∀ (l : List K) (t : Tab K V), t.autoSort = true → (l.foldl removeKey t).autoSort = true := by
      intro l
      induction l with
      | nil => intro t ht; exact ht
      | cons x r ih =>
        intro t ht
        simp only [List.foldl_cons]
        apply ih
        simp only [removeKey]; split <;> simp [patch, ht]
    exact this _ tb ha
  | clear => exact ⟨by simp [apply, clear, Sorted], ha⟩
  | copyFrom src cf =>
    refine ⟨sorted_copyFrom sw tb src cf hsrt, ?_⟩
    simp only [apply, copyFrom]
    cases cf <;> simp only [clear] <;> split <;> simp [ha]
  | realloc => exact ⟨hsrt, ha⟩
  | sortBy lt' =>
    have e : lt' = lt := hs
    subst e
    exact ⟨sorted_sortBy sw _, ha⟩
  | setAutoSort en now =>
    have e : en = true := hs
    subst e
    simp [apply, setAutoSort, ha, hsrt]
  | itNew b => exact ⟨hsrt, ha⟩
  | itAt k b => exact ⟨hsrt, ha⟩
  | itNext i => exact ⟨hsrt, ha⟩
  | itPrev i => exact ⟨hsrt, ha⟩
  | itSetBack i b => exact ⟨hsrt, ha⟩
  | itDrop i => exact ⟨hsrt, ha⟩
  | itCopy i =>
    simp only [apply, itCopy]
    split <;> exact ⟨hsrt, ha⟩
  | reposition k => exact absurd hs (by simp [SortSafe])
  | putAtFront k v => exact absurd hs (by simp [SortSafe])
  | putAtBack k v => exact absurd hs (by simp [SortSafe])
  | putBefore k f v => exact absurd hs (by simp [SortSafe])
  | putBehind k d v => exact absurd hs (by simp [SortSafe])
  | putAtPosition k i v => exact absurd hs (by simp [SortSafe])
  | moveToFront k => exact absurd hs (by simp [SortSafe])
  | moveToBack k => exact absurd hs (by simp [SortSafe])
  | moveToBefore k f => exact absurd hs (by simp [SortSafe])
  | moveToBehind k d => exact absurd hs (by simp [SortSafe])
  | moveToPosition k i => exact absurd hs (by simp [SortSafe])

end Tab

/- ---------- what an iterator shows ---------- -/

namespace Iter

/-- what `GetKey()/GetValue()` return is the scratch copy, or the pair of an entry that is in the table now -/
theorem peek_spec {m : OMap K V} {it : Iter K V} {k : K} {v : V} (h : it.peek m = some (k, v)) :
    it.scratch = some (k, v) ∨ (it.scratch = none ∧ it.cur = some k ∧ get m k = some v) := by
  unfold peek at h
  cases hs : it.scratch with
  | some p => left; simp [hs] at h; rw [h]
  | none =>
    right
    simp only [hs] at h
    cases hc : it.cur with
    | none => simp [hc] at h
    | some c =>
      simp only [hc] at h
      cases hg : get m c with
      | none => simp [hg] at h
      | some w => simp [hg] at h; obtain ⟨rfl, rfl⟩ := h; exact ⟨rfl, rfl, hg⟩

/-- after `++` (or `--`) there is no scratch copy: the iterator shows a live entry or nothing -/
theorem scratch_next (m : OMap K V) (it : Iter K V) : (next m it).scratch = none := by
  unfold next; cases hs : it.scratch <;> simp [hs]

theorem scratch_prev (m : OMap K V) (it : Iter K V) : (prev m it).scratch = none := by
  unfold prev; cases hs : it.scratch <;> simp [hs]

/-- a cookie that is `Ok` always dereferences: `HasData()` is false only at the end -/
theorem peek_isSome_of_cur {m : OMap K V} {it : Iter K V} (ho : it.Ok m) {c : K} (hc : it.cur = some c) : (it.peek m).isSome := by
  unfold peek
  cases hs : it.scratch with
  | some p => rfl
  | none =>
    obtain ⟨v, hv⟩ := get_isSome_of_mem (ho c hc)
    simp [hc, hv]

/-- an iterator with a NULL cookie reports the end after its next step -/
theorem peek_next_of_cur_none (m : OMap K V) {it : Iter K V} (h : it.cur = none) : (it.next m).peek m = none := by
  unfold next
  cases hs : it.scratch with
  | some p => simp [peek, h]
  | none => simp [peek, h, hs]

end Iter
end Muscle.Containers
