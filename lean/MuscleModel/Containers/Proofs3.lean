import MuscleModel.Containers.Proofs2

/-! The table invariant: no duplicate keys, and no registered iterator's cookie refers to a key that is
not in the table.  Preserved by every operation (`Tab.apply`). -/

set_option linter.unusedSectionVars false
set_option linter.unusedSimpArgs false
set_option linter.unusedVariables false

namespace Muscle.Containers
variable {K V : Type} [DecidableEq K]

/-- the iterator's cookie is NULL or points at an entry of the table -/
def Iter.Ok (m : OMap K V) (it : Iter K V) : Prop := ∀ k, it.cur = some k → k ∈ keys m

/-- no duplicate keys; every registered iterator is `Ok` -/
def Tab.Inv (tb : Tab K V) : Prop := (keys tb.m).Nodup ∧ ∀ it ∈ tb.its, it.Ok tb.m

theorem mem_of_mem_after {l : List K} {k x : K} (h : x ∈ after l k) : x ∈ l := by
  induction l with
  | nil => simp [after] at h
  | cons a r ih =>
    unfold after at h
    by_cases ha : a = k
    · simp only [ha, if_true] at h; exact List.mem_cons_of_mem _ h
    · simp only [ha] at h; exact List.mem_cons_of_mem _ (ih h)

theorem not_mem_after_self {l : List K} {k : K} (hn : l.Nodup) : k ∉ after l k := by
  induction l with
  | nil => simp [after]
  | cons a r ih =>
    rw [List.nodup_cons] at hn
    unfold after
    by_cases ha : a = k
    · simp only [ha, if_true]; exact ha ▸ hn.1
    · simp only [ha]; exact ih hn.2

theorem succIn_mem_after {l : List K} {k x : K} (h : succIn l k = some x) : x ∈ after l k := by
  unfold succIn at h
  cases ha : after l k with
  | nil => simp [ha] at h
  | cons y t => simp [ha] at h; simp [h]

theorem succIn_mem {l : List K} {k x : K} (h : succIn l k = some x) : x ∈ l := mem_of_mem_after (succIn_mem_after h)

theorem succIn_ne {l : List K} {k x : K} (hn : l.Nodup) (h : succIn l k = some x) : x ≠ k :=
  fun e => not_mem_after_self hn (e ▸ succIn_mem_after h)

theorem mem_dirKeys {m : OMap K V} {b : Bool} {x : K} : x ∈ dirKeys m b ↔ x ∈ keys m := by
  unfold dirKeys; cases b <;> simp

theorem nodup_dirKeys {m : OMap K V} (b : Bool) (hn : (keys m).Nodup) : (dirKeys m b).Nodup := by
  unfold dirKeys; cases b
  · simpa using hn
  · simpa using (List.Perm.nodup_iff (List.reverse_perm (keys m))).mpr hn

theorem nbr_mem {m : OMap K V} {b : Bool} {k x : K} (h : nbr m b k = some x) : x ∈ keys m :=
  mem_dirKeys.mp (succIn_mem h)

theorem nbr_ne {m : OMap K V} {b : Bool} {k x : K} (hn : (keys m).Nodup) (h : nbr m b k = some x) : x ≠ k :=
  succIn_ne (nodup_dirKeys b hn) h

namespace Iter

theorem Ok.mono {m m' : OMap K V} {it : Iter K V} (hs : ∀ x, x ∈ keys m → x ∈ keys m') (h : it.Ok m) : it.Ok m' :=
  fun k hk => hs k (h k hk)

theorem ok_of_cur_none {m : OMap K V} {it : Iter K V} (h : it.cur = none) : it.Ok m := by
  intro k hk; rw [h] at hk; cases hk

theorem ok_onRemove {m : OMap K V} (k : K) {it : Iter K V} (h : it.Ok m) : (onRemove m k it).Ok m := by
  unfold onRemove
  by_cases hc : it.cur = some k
  · simp only [hc, if_true]
    intro x hx
    exact nbr_mem hx
  · simp only [hc]; exact h

theorem ok_onRemove_erase {m : OMap K V} (k : K) {it : Iter K V} (hn : (keys m).Nodup) (h : it.Ok m) :
    (onRemove m k it).Ok (erase m k) := by
  unfold onRemove
  by_cases hc : it.cur = some k
  · simp only [hc, if_true]
    intro x hx
    exact mem_keys_erase.mpr ⟨nbr_mem hx, nbr_ne hn hx⟩
  · simp only [hc]
    intro x hx
    exact mem_keys_erase.mpr ⟨h x hx, fun e => hc (e ▸ hx)⟩

theorem ok_onClear (m m' : OMap K V) (it : Iter K V) : (onClear m it).Ok m' := ok_of_cur_none rfl

theorem ok_next {m : OMap K V} {it : Iter K V} (h : it.Ok m) : (next m it).Ok m := by
  unfold next
  cases hs : it.scratch with
  | some p => exact h
  | none =>
    intro x hx
    simp only at hx
    cases hc : it.cur with
    | none => simp [hc] at hx
    | some c => simp [hc] at hx; exact nbr_mem hx

theorem ok_prev {m : OMap K V} {it : Iter K V} (h : it.Ok m) : (prev m it).Ok m := by
  unfold prev
  cases hs : it.scratch with
  | some p => exact h
  | none =>
    intro x hx
    simp only at hx
    cases hc : it.cur with
    | none => simp [hc] at hx
    | some c => simp [hc] at hx; exact nbr_mem hx

theorem ok_start (m : OMap K V) (b : Bool) : (start m b).Ok m := by
  intro x hx
  simp only [start] at hx
  exact mem_dirKeys.mp (List.mem_of_mem_head? hx)

theorem ok_startAt (m : OMap K V) (k : K) (b : Bool) : (startAt m k b).Ok m := by
  intro x hx
  simp only [startAt] at hx
  by_cases hh : has m k = true
  · simp [hh] at hx; subst hx; exact has_iff.mp hh
  · simp [hh] at hx

end Iter

namespace Tab
variable (lt? : Option (K × V → K × V → Bool))

theorem inv_empty : (empty : Tab K V).Inv := ⟨List.nodup_nil, by intro it h; cases h⟩

/-- same iterators, a table that kept all its keys -/
theorem inv_of_superset {tb : Tab K V} {m' : OMap K V} (h : tb.Inv) (hn : (keys m').Nodup)
    (hs : ∀ x, x ∈ keys tb.m → x ∈ keys m') : ({ tb with m := m' } : Tab K V).Inv :=
  ⟨hn, fun it hi => (h.2 it hi).mono hs⟩

theorem inv_of_perm {tb : Tab K V} {m' : OMap K V} (h : tb.Inv) (hp : m'.Perm tb.m) : ({ tb with m := m' } : Tab K V).Inv :=
  inv_of_superset h (nodup_perm hp.symm h.1) (fun x hx => (keys_perm hp).mem_iff.mpr hx)

/-- unlink-and-relink of `k`: iterators patched against the old order, entries permuted -/
theorem inv_patch_perm {tb : Tab K V} {m' : OMap K V} (k : K) (h : tb.Inv) (hp : m'.Perm tb.m) :
    ({ (tb.patch k) with m := m' } : Tab K V).Inv := by
  refine ⟨nodup_perm hp.symm h.1, ?_⟩
  intro it hi
  simp only [patch, List.mem_map] at hi
  obtain ⟨it0, h0, rfl⟩ := hi
  exact (Iter.ok_onRemove k (h.2 it0 h0)).mono (fun x hx => (keys_perm hp).mem_iff.mpr hx)

theorem inv_removeKey {tb : Tab K V} (k : K) (h : tb.Inv) : (tb.removeKey k).Inv := by
  unfold removeKey
  by_cases hh : has tb.m k = true
  · simp only [hh, if_true]
    refine ⟨nodup_erase k h.1, ?_⟩
    intro it hi
    simp only [patch, List.mem_map] at hi
    obtain ⟨it0, h0, rfl⟩ := hi
    exact Iter.ok_onRemove_erase k h.1 (h.2 it0 h0)
  · simp only [hh]; exact h

theorem inv_moveFrontAux {tb : Tab K V} (k : K) (h : tb.Inv) : (tb.moveFrontAux k).Inv := by
  unfold moveFrontAux
  split
  · exact h
  · exact inv_patch_perm k h (toFront_perm k h.1)

theorem inv_moveBackAux {tb : Tab K V} (k : K) (h : tb.Inv) : (tb.moveBackAux k).Inv := by
  unfold moveBackAux
  split
  · exact h
  · exact inv_patch_perm k h (toBack_perm k h.1)

theorem inv_moveBeforeAux {tb : Tab K V} (k f : K) (h : tb.Inv) : (tb.moveBeforeAux k f).Inv := by
  unfold moveBeforeAux
  split
  · exact h
  · exact inv_patch_perm k h (toBefore_perm k f h.1)

theorem inv_moveBehindAux {tb : Tab K V} (k d : K) (h : tb.Inv) : (tb.moveBehindAux k d).Inv := by
  unfold moveBehindAux
  split
  · exact h
  · exact inv_patch_perm k h (toBehind_perm k d h.1)

theorem inv_movePosAux {tb : Tab K V} (k : K) (i : Nat) (h : tb.Inv) : (tb.movePosAux k i).Inv := by
  unfold movePosAux
  split
  · exact inv_moveFrontAux k h
  · split
    · exact inv_moveBackAux k h
    · exact inv_patch_perm k h (toPos_perm k i h.1)

theorem inv_reposition {tb : Tab K V} (k : K) (h : tb.Inv) : (tb.reposition lt? k).Inv := by
  unfold reposition
  cases lt? with
  | none => exact h
  | some lt =>
    simp only
    split
    · exact inv_patch_perm k h (repositionM_perm lt tb.m k)
    · exact h

theorem inv_valueChanged {tb : Tab K V} (k : K) (h : tb.Inv) : (tb.valueChanged lt? k).Inv := by
  unfold valueChanged
  split
  · exact h
  · exact inv_reposition lt? k h

theorem linkNew_perm (tb : Tab K V) (k : K) (v : V) : (tb.linkNew lt? k v).Perm ((k, v) :: tb.m) := by
  have happ : (tb.m ++ [(k, v)]).Perm ((k, v) :: tb.m) := by
    have := (List.perm_middle (l₁ := tb.m) (l₂ := []) (a := (k, v)))
    simpa using this
  unfold linkNew
  cases lt? with
  | none => exact happ
  | some lt =>
    simp only
    split
    · exact insertInOrder_perm lt _ _
    · exact happ

theorem inv_putAux {tb : Tab K V} (k : K) (v : V) (h : tb.Inv) : (tb.putAux lt? k v).Inv := by
  unfold putAux
  by_cases hh : has tb.m k = true
  · simp only [hh, if_true]
    apply inv_valueChanged
    exact inv_of_superset h (by simpa using h.1) (by simp)
  · simp only [hh]
    have hp := linkNew_perm lt? tb k v
    have hk : k ∉ keys tb.m := fun hm => hh (has_iff.mpr hm)
    refine inv_of_superset h ?_ ?_
    · refine (List.Perm.nodup_iff (keys_perm hp)).mpr ?_
      simp only [keys_cons, List.nodup_cons]; exact ⟨hk, h.1⟩
    · intro x hx
      exact (keys_perm hp).mem_iff.mpr (List.mem_cons_of_mem _ hx)

theorem inv_clear {tb : Tab K V} (h : tb.Inv) : tb.clear.Inv := by
  refine ⟨List.nodup_nil, ?_⟩
  intro it hi
  simp only [clear, List.mem_map] at hi
  obtain ⟨it0, _, rfl⟩ := hi
  exact Iter.ok_onClear _ _ _

theorem inv_sort {tb : Tab K V} (lt : K × V → K × V → Bool) (h : tb.Inv) : (tb.sort lt).Inv :=
  inv_of_perm h (sortBy_perm lt tb.m)

theorem copyOne_spec (m : OMap K V) (p : K × V) (hn : (keys m).Nodup) :
    (keys (copyOne m p)).Nodup ∧ ∀ x, x ∈ keys m → x ∈ keys (copyOne m p) := by
  unfold copyOne
  by_cases hh : has m p.1 = true
  · simp only [hh, if_true, keys_setVal]; exact ⟨hn, fun _ hx => hx⟩
  · simp only [hh]
    have hk : p.1 ∉ keys m := fun hm => hh (has_iff.mpr hm)
    exact ⟨nodup_append_new p.2 hn hk, fun x hx => by simp [hx]⟩

theorem foldl_copyOne_spec (src m : OMap K V) (hn : (keys m).Nodup) :
    (keys (src.foldl copyOne m)).Nodup ∧ ∀ x, x ∈ keys m → x ∈ keys (src.foldl copyOne m) := by
  induction src generalizing m with
  | nil => exact ⟨hn, fun _ hx => hx⟩
  | cons p r ih =>
    simp only [List.foldl_cons]
    obtain ⟨h1, h2⟩ := copyOne_spec m p hn
    obtain ⟨h3, h4⟩ := ih (copyOne m p) h1
    exact ⟨h3, fun x hx => h4 x (h2 x hx)⟩

theorem inv_copyFrom {tb : Tab K V} (src : OMap K V) (cf : Bool) (h : tb.Inv) : (tb.copyFrom lt? src cf).Inv := by
  unfold copyFrom
  have h1 : (if cf then tb.clear else tb).Inv := by cases cf <;> simp [inv_clear h, h]
  generalize (if cf then tb.clear else tb) = t1 at h1
  simp only
  split
  · exact h1
  · obtain ⟨h3, h4⟩ := foldl_copyOne_spec src t1.m h1.1
    cases lt? with
    | none => exact inv_of_superset h1 h3 h4
    | some lt =>
      simp only
      have hp := sortBy_perm lt (src.foldl copyOne t1.m)
      exact inv_of_superset h1 (nodup_perm hp.symm h3) (fun x hx => (keys_perm hp).mem_iff.mpr (h4 x hx))

theorem inv_foldl_removeKey (ks : List K) {tb : Tab K V} (h : tb.Inv) : (ks.foldl removeKey tb).Inv := by
  induction ks generalizing tb with
  | nil => exact h
  | cons k r ih => simp only [List.foldl_cons]; exact ih (inv_removeKey k h)

theorem inv_setAutoSort {tb : Tab K V} (en now : Bool) (h : tb.Inv) : (tb.setAutoSort lt? en now).Inv := by
  unfold setAutoSort
  split
  · exact h
  · have h1 : ({ tb with autoSort := en } : Tab K V).Inv := h
    cases lt? with
    | none => exact h1
    | some lt =>
      simp only
      split
      · exact inv_sort lt h1
      · exact h1

theorem inv_its_append {tb : Tab K V} (it : Iter K V) (h : tb.Inv) (ho : it.Ok tb.m) :
    ({ tb with its := tb.its ++ [it] } : Tab K V).Inv := by
  refine ⟨h.1, ?_⟩
  intro x hx
  simp only [List.mem_append, List.mem_singleton] at hx
  rcases hx with hx | rfl
  · exact h.2 x hx
  · exact ho

theorem inv_itModify {tb : Tab K V} (i : Nat) (f : Iter K V → Iter K V) (h : tb.Inv)
    (hf : ∀ it, it.Ok tb.m → (f it).Ok tb.m) : (tb.itModify i f).Inv := by
  refine ⟨h.1, ?_⟩
  intro x hx
  simp only [itModify] at hx
  rw [List.mem_iff_getElem] at hx
  obtain ⟨j, hj, rfl⟩ := hx
  rw [List.getElem_modify]
  have hj' : j < tb.its.length := by simpa using hj
  split
  · exact hf _ (h.2 _ (List.getElem_mem hj'))
  · exact h.2 _ (List.getElem_mem hj')

/-- the invariant is preserved by every operation -/
theorem inv_apply {tb : Tab K V} (op : Op K V) (h : tb.Inv) : (tb.apply lt? op).Inv := by
  cases op with
  | put k v => exact inv_putAux lt? k v h
  | putAtFront k v => exact inv_moveFrontAux k (inv_putAux lt? k v h)
  | putAtBack k v => exact inv_moveBackAux k (inv_putAux lt? k v h)
  | putBefore k f v =>
    simp only [apply, putBefore]
    split
    · exact inv_moveBeforeAux k f (inv_putAux lt? k v h)
    · exact inv_putAux lt? k v h
  | putBehind k d v =>
    simp only [apply, putBehind]
    split
    · exact inv_moveBehindAux k d (inv_putAux lt? k v h)
    · exact inv_putAux lt? k v h
  | putAtPosition k i v => exact inv_movePosAux k i (inv_putAux lt? k v h)
  | remove k => exact inv_removeKey k h
  | removeAll ks => exact inv_foldl_removeKey ks h
  | intersect o => exact inv_foldl_removeKey _ h
  | clear => exact inv_clear h
  | moveToFront k => exact inv_moveFrontAux k h
  | moveToBack k => exact inv_moveBackAux k h
  | moveToBefore k f =>
    simp only [apply]
    split
    · exact inv_moveBeforeAux k f h
    · exact h
  | moveToBehind k d =>
    simp only [apply]
    split
    · exact inv_moveBehindAux k d h
    · exact h
  | moveToPosition k i =>
    simp only [apply]
    split
    · exact inv_movePosAux k i h
    · exact h
  | reposition k => exact inv_reposition lt? k h
  | sortBy lt => exact inv_sort lt h
  | setAutoSort en now => exact inv_setAutoSort lt? en now h
  | copyFrom src cf => exact inv_copyFrom lt? src cf h
  | realloc => exact h
  | itNew b => exact inv_its_append _ h (Iter.ok_start _ _)
  | itAt k b => exact inv_its_append _ h (Iter.ok_startAt _ _ _)
  | itNext i => exact inv_itModify i _ h (fun _ ho => Iter.ok_next ho)
  | itPrev i => exact inv_itModify i _ h (fun _ ho => Iter.ok_prev ho)
  | itSetBack i b => exact inv_itModify i _ h (fun _ ho => ho)
  | itDrop i =>
    refine ⟨h.1, ?_⟩
    intro x hx
    exact h.2 x (List.mem_of_mem_eraseIdx hx)
  | itCopy i =>
    simp only [apply, itCopy]
    cases hg : tb.its[i]? with
    | none => exact h
    | some it =>
      simp only
      exact inv_its_append it h (h.2 it (List.mem_of_getElem? hg))

/-- reachable states: from the empty table by any finite sequence of operations -/
inductive Reach : Tab K V → Prop where
  | init : Reach empty
  | step {tb : Tab K V} (op : Op K V) : Reach tb → Reach (tb.apply lt? op)

theorem inv_of_reach {tb : Tab K V} (h : Reach lt? tb) : tb.Inv := by
  induction h with
  | init => exact inv_empty
  | step op _ ih => exact inv_apply lt? op ih

end Tab
end Muscle.Containers
