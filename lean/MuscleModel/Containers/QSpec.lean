/-!
# The ideal double-ended sequence (`List α`) with the operations of `muscle::Queue` and their
failure conditions.  This file is the specification the ring layer (`QRing.lean`) is proved to refine.
-/

namespace Muscle.Containers.Spec
variable {α : Type}

/-- `AddTail(item)` -/
def addTail (l : List α) (v : α) : List α := l ++ [v]
/-- `AddHead(item)` -/
def addHead (l : List α) (v : α) : List α := v :: l
/-- `RemoveHead()`: undefined on the empty sequence -/
def removeHead (l : List α) : List α × Bool := if l.length = 0 then (l, false) else (l.drop 1, true)
/-- `RemoveTail()`: undefined on the empty sequence -/
def removeTail (l : List α) : List α × Bool := if l.length = 0 then (l, false) else (l.take (l.length - 1), true)
/-- `RemoveHeadMulti(n)` -/
def removeHeadMulti (l : List α) (n : Nat) : List α × Nat := (l.drop n, min n l.length)
/-- `RemoveTailMulti(n)` -/
def removeTailMulti (l : List α) (n : Nat) : List α × Nat := (l.take (l.length - n), min n l.length)
/-- `GetItemAt(i, ret)`: undefined for a bad index -/
def getItemAt (l : List α) (i : Nat) : Option α := l[i]?
/-- `ReplaceItemAt(i, v)`: undefined for a bad index -/
def replaceItemAt (l : List α) (i : Nat) (v : α) : List α × Bool := if i ≥ l.length then (l, false) else (l.set i v, true)
/-- `RemoveItemAt(i)`: undefined for a bad index -/
def removeItemAt (l : List α) (i : Nat) : List α × Bool := if i ≥ l.length then (l, false) else (l.eraseIdx i, true)
/-- `InsertItemAt(i, v)`: an index past the end appends -/
def insertItemAt (l : List α) (i : Nat) (v : α) : List α := if i ≥ l.length then l ++ [v] else l.take i ++ v :: l.drop i
/-- `InsertItemsAt(i, items)` -/
def insertItemsAt (l : List α) (i : Nat) (xs : List α) : List α := l.take (min i l.length) ++ xs ++ l.drop (min i l.length)
/-- `AddTailMulti(items)` -/
def addTailMulti (l xs : List α) : List α := l ++ xs
/-- `AddHeadMulti(items)` -/
def addHeadMulti (l xs : List α) : List α := xs ++ l
/-- `Clear()` -/
def clear (_ : List α) : List α := []
/-- `EnsureSize(n, setNumItems)`: capacity is not part of the ideal sequence; with `setNumItems` default items
    are added to, or items removed from, the tail until the length is `n` -/
def ensureSize (dflt : α) (l : List α) (n : Nat) (setNum : Bool) : List α :=
  if setNum then (if n > l.length then l ++ List.replicate (n - l.length) dflt else l.take n) else l
/-- `operator=` / `CopyFrom` -/
def assign (_ xs : List α) : List α := xs
/-- `Swap(i, j)` for valid indices -/
def swap (d : α) (l : List α) (i j : Nat) : List α := (l.set i (l.getD j d)).set j (l.getD i d)

/-- `Sort(from, to)`: the sub-range `[from, min to length)` is replaced by its stable sort -/
def sort (ssort : List α → List α) (l : List α) (from_ to : Nat) : List α :=
  if min to l.length > from_ then l.take from_ ++ ssort ((l.drop from_).take (min to l.length - from_)) ++ l.drop (min to l.length) else l
/-- the clipping of `(startIndex, numItems)` against the source length, as all multi-item calls do it -/
def clip (l : List α) (start num : Nat) : List α := (l.drop start).take (min num (if start < l.length then l.length - start else 0))
/-- `operator==` -/
def equals [DecidableEq α] (l xs : List α) : Bool := l.length = xs.length && l == xs
/-- `StartsWith(queue)` -/
def startsWith [DecidableEq α] (l xs : List α) : Bool := if xs.length > l.length then false else l.take xs.length == xs
/-- `EndsWith(queue)` -/
def endsWith [DecidableEq α] (l xs : List α) : Bool := if xs.length > l.length then false else l.drop (l.length - xs.length) == xs

/-- `IndexOf(item, startAt, endAtPlusOne)`: the first index in `[startAt, min endAtPlusOne length)` holding `item` -/
def indexOf [DecidableEq α] (l : List α) (v : α) (startAt endAt1 : Nat) : Option Nat :=
  if startAt ≥ l.length then none
  else (((l.drop startAt).take (min endAt1 l.length - startAt)).findIdx? (fun x => decide (x = v))).map (· + startAt)
/-- `LastIndexOf(item, startAt, endAt)`: the last index in `[endAt, min startAt (length-1)]` holding `item` -/
def lastIndexOf [DecidableEq α] (l : List α) (v : α) (startAt endAt : Nat) : Option Nat :=
  if endAt ≥ l.length then none
  else (((l.drop endAt).take (min startAt (l.length - 1) + 1 - endAt)).reverse.findIdx? (fun x => decide (x = v))).map
         (fun k => endAt + (min startAt (l.length - 1) + 1 - endAt - 1 - k))
/-- `RemoveFirstInstanceOf(val)`: erase at the first occurrence; undefined when there is none -/
def removeFirst [DecidableEq α] (l : List α) (v : α) : List α × Bool :=
  match l.findIdx? (fun x => decide (x = v)) with
  | some i => removeItemAt l i
  | none => (l, false)
/-- `RemoveLastInstanceOf(val)`: erase at the last occurrence; undefined when there is none -/
def removeLast [DecidableEq α] (l : List α) (v : α) : List α × Bool :=
  match l.reverse.findIdx? (fun x => decide (x = v)) with
  | some k => removeItemAt l (l.length - 1 - k)
  | none => (l, false)
/-- `InsertItemAtSortedPosition(item)`: behind the last item that is not greater than `item` (`¬ item < l[k]`), at the
    front when `item` is smaller than the first item or the sequence is empty; returns the position -/
def insertSortedPos (lt : α → α → Bool) (d : α) (l : List α) (v : α) : List α × Nat :=
  if l.length > 0 ∧ ¬ lt v (l.getD 0 d) = true then
    match (List.range l.length).reverse.find? (fun k => ! lt v (l.getD k d)) with
    | some k => (insertItemAt l (k + 1) v, k + 1)
    | none => (v :: l, 0)
  else (v :: l, 0)
/-- `ReverseItemOrdering(from, to)`: the sub-range `[from, min (to-1) (length-1)]` is reversed -/
def reverse (l : List α) (from_ to : Nat) : List α :=
  if from_ < to ∧ 0 < l.length ∧ from_ < min (to - 1) (l.length - 1) then
    l.take from_ ++ ((l.drop from_).take (min (to - 1) (l.length - 1) + 1 - from_)).reverse ++ l.drop (min (to - 1) (l.length - 1) + 1)
  else l
/-- `RemoveAllInstancesOf(val)`: the other items in their order; returns how many were removed -/
def removeAll [DecidableEq α] (l : List α) (v : α) : List α × Nat :=
  (l.filter (fun x => decide (x ≠ v)), l.length - (l.filter (fun x => decide (x ≠ v))).length)
/-- every item equal to the last kept one is dropped -/
def dedupFrom [DecidableEq α] (last : α) : List α → List α
  | [] => []
  | x :: t => if x = last then dedupFrom last t else x :: dedupFrom x t
/-- `RemoveSortedDuplicateItems()`: runs of equal adjacent items collapse to their first item; returns how many were removed -/
def dedupAdj [DecidableEq α] : List α → List α
  | [] => []
  | x :: t => x :: dedupFrom x t
def removeSortedDups [DecidableEq α] (l : List α) : List α × Nat := (dedupAdj l, l.length - (dedupAdj l).length)

end Muscle.Containers.Spec
