import MuscleModel.Containers.QRing
import MuscleModel.Containers.QSpec

/-! Lemmas for C16: the ring layer refines the ideal sequence. -/

set_option linter.unusedSimpArgs false
set_option linter.unusedVariables false
set_option linter.unusedSectionVars false

namespace Muscle.Containers
variable {α : Type} [DecidableEq α] (c : ItemCfg α)

macro "triv" : tactic => `(tactic| first | rfl | trivial)

/-! ## arithmetic characterisation of the index kernels (for `omega`) -/

theorem intern_spec (head size idx : Nat) :
    (head + idx < size → internalizeIndex head size idx = head + idx) ∧
    (size ≤ head + idx → internalizeIndex head size idx = head + idx - size) := by
  unfold internalizeIndex; constructor <;> intro h
  · simp [h]
  · have : ¬ (head + idx < size) := by omega
    simp [this]

theorem next_spec (size idx : Nat) :
    (idx + 1 ≥ size → 0 < size → nextIndex size idx = 0) ∧ (idx + 1 < size → nextIndex size idx = idx + 1) := by
  unfold nextIndex; constructor <;> intro h
  · intro h2; have : idx ≥ size - 1 := by omega
    simp [this]
  · have : ¬ (idx ≥ size - 1) := by omega
    simp [this]

theorem prev_spec (size idx : Nat) :
    (idx = 0 → prevIndex size idx = size - 1) ∧ (0 < idx → prevIndex size idx = idx - 1) := by
  unfold prevIndex; constructor <;> intro h
  · simp [h]
  · have : ¬ (idx = 0) := by omega
    simp [this]

theorem getD_set' (l : List α) (j k : Nat) (v d : α) :
    (l.set j v).getD k d = if j = k ∧ k < l.length then v else l.getD k d := by
  simp only [List.getD_eq_getElem?_getD, List.getElem?_set]
  by_cases h : j = k
  · subst h
    by_cases h2 : j < l.length
    · simp [h2]
    · simp [h2]
  · simp [h]

theorem getD_set_ne (l : List α) (j k : Nat) (v d : α) (h : j ≠ k) : (l.set j v).getD k d = l.getD k d := by
  rw [getD_set']; simp [h]

theorem getD_set_eq (l : List α) (j : Nat) (v d : α) (h : j < l.length) : (l.set j v).getD j d = v := by
  rw [getD_set']; simp [h]

/-! ## invariant -/

/-- slot `j` holds a visible item -/
def inWin (q : Ring α) (j : Nat) : Prop :=
  (q.head ≤ j ∧ j < q.head + q.count) ∨ j + q.size < q.head + q.count

/-- the representation invariant of a `Queue` between two public calls -/
structure Inv (q : Ring α) : Prop where
  cnt : q.count ≤ q.size
  hd : 0 < q.size → q.head < q.size
  tl : 0 < q.count → q.tail = internalizeIndex q.head q.size (q.count - 1)
  sb : q.kind ≠ .small → q.sbuf.length = c.sq
  sm : q.kind = .small → q.size = c.sq
  nl : q.kind = .null → q.size = 0

/-- owning item types: every slot outside the window, and the unused inline buffer, hold the default item -/
structure Clean (q : Ring α) : Prop where
  slots : ∀ j, j < q.size → ¬ inWin q j → q.slots.getD j c.junk = c.dflt
  sbuf : q.kind ≠ .small → ∀ j, j < c.sq → q.sbuf.getD j c.junk = c.dflt

/-! ## abstraction -/

@[simp] theorem abs_length (q : Ring α) : (q.abs c).length = q.count := by simp [Ring.abs]

theorem abs_getElem (q : Ring α) (i : Nat) (h : i < (q.abs c).length) : (q.abs c)[i] = q.get c i := by
  simp [Ring.abs]

theorem abs_getD (q : Ring α) (i : Nat) (h : i < q.count) (d : α) : (q.abs c).getD i d = q.get c i := by
  have h' : i < (q.abs c).length := by simpa using h
  rw [List.getD_eq_getElem?_getD, List.getElem?_eq_getElem h', Option.getD_some, abs_getElem]

/-- two views agree as soon as they agree item by item -/
theorem abs_eq (q : Ring α) (l : List α) (hl : q.count = l.length)
    (h : ∀ i (hi : i < l.length), q.get c i = l[i]) : q.abs c = l := by
  apply List.ext_getElem
  · simp [hl]
  · intro i h1 h2
    rw [abs_getElem]; exact h i h2

theorem abs_congr (q q' : Ring α) (hc : q'.count = q.count) (h : ∀ i, i < q.count → q'.get c i = q.get c i) :
    q'.abs c = q.abs c := by
  apply abs_eq
  · simp [hc]
  · intro i hi
    rw [abs_getElem]; exact h i (by simpa using hi)

theorem get_def (q : Ring α) (i : Nat) : q.get c i = q.slots.getD (internalizeIndex q.head q.slots.length i) c.junk := rfl

/-! ## single-item operations -/

theorem getItemAt_refines (q : Ring α) (i : Nat) : q.getItemAt c i = Spec.getItemAt (q.abs c) i := by
  unfold Ring.getItemAt Spec.getItemAt
  by_cases h : i < q.count
  · have h' : i < (q.abs c).length := by simpa using h
    simp [h, List.getElem?_eq_getElem h', abs_getElem]
  · have h' : (q.abs c).length ≤ i := by simp; omega
    simp [h, List.getElem?_eq_none h']

theorem get_put (q : Ring α) (hI : Inv c q) (i k : Nat) (v : α) (hi : i < q.size) (hk : k < q.size) :
    (q.put i v).get c k = if i = k then v else q.get c k := by
  have a := intern_spec q.head q.size i
  have b := intern_spec q.head q.size k
  have hh := hI.hd (by omega)
  simp only [Ring.put, Ring.get, Ring.phys, Ring.size, List.length_set] at *
  rw [getD_set']
  by_cases e : i = k
  · subst e
    have : internalizeIndex q.head q.slots.length i < q.slots.length := by omega
    simp [this]
  · have : internalizeIndex q.head q.slots.length i ≠ internalizeIndex q.head q.slots.length k := by omega
    simp [this, e]

theorem replaceItemAt_refines (q : Ring α) (hI : Inv c q) (i : Nat) (v : α) :
    ((q.replaceItemAt i v).1.abs c, (q.replaceItemAt i v).2) = Spec.replaceItemAt (q.abs c) i v := by
  unfold Ring.replaceItemAt Spec.replaceItemAt
  by_cases h : i ≥ q.count
  · simp [h]
  · have hc := hI.cnt
    simp only [h, abs_length, if_false, Prod.mk.injEq, and_true]
    apply abs_eq
    · simp [Ring.put]
    · intro k hk
      simp only [List.length_set, abs_length] at hk
      rw [get_put c q hI i k v (by omega) (by omega), List.getElem_set]
      by_cases e : i = k
      · simp [e]
      · simp [e, abs_getElem]

theorem inv_put (q : Ring α) (hI : Inv c q) (i : Nat) (v : α) : Inv c (q.put i v) := by
  constructor
  · simpa [Ring.put, Ring.size] using hI.cnt
  · simpa [Ring.put, Ring.size] using hI.hd
  · simpa [Ring.put, Ring.size] using hI.tl
  · simpa [Ring.put, Ring.size] using hI.sb
  · simpa [Ring.put, Ring.size] using hI.sm
  · simpa [Ring.put, Ring.size] using hI.nl

theorem removeHead_refines (q : Ring α) (hI : Inv c q) :
    ((q.removeHead c).1.abs c, (q.removeHead c).2) = Spec.removeHead (q.abs c) := by
  unfold Ring.removeHead Spec.removeHead
  by_cases h : q.count = 0
  · simp [h]
  · have hc := hI.cnt
    have hh := hI.hd (by omega)
    simp only [h, abs_length, if_false, Prod.mk.injEq, and_true]
    apply abs_eq
    · cases c.clear <;> simp
    · intro k hk
      simp only [List.length_drop, abs_length] at hk
      rw [List.getElem_drop, abs_getElem]
      have a := intern_spec (nextIndex q.size q.head) q.size k
      have b := intern_spec q.head q.size (1 + k)
      have n := next_spec q.size q.head
      simp only [Ring.size] at *
      cases hcl : c.clear
      · simp only [get_def, Bool.false_eq_true, if_false]
        congr 1; omega
      · simp only [get_def, if_true, List.length_set]
        rw [getD_set_ne]
        · congr 1; omega
        · omega

theorem inv_removeHead (q : Ring α) (hI : Inv c q) : Inv c (q.removeHead c).1 := by
  unfold Ring.removeHead
  by_cases h : q.count = 0
  · simp [h]; exact hI
  · have hc := hI.cnt
    have hh := hI.hd (by omega)
    have ht := hI.tl (by omega)
    have n := next_spec q.size q.head
    have a := intern_spec q.head q.size (q.count - 1)
    have b := intern_spec (nextIndex q.size q.head) q.size (q.count - 1 - 1)
    simp only [h, if_false]
    cases hcl : c.clear <;> simp only [Bool.false_eq_true, if_false, if_true] <;>
    · constructor
      · simp [Ring.size] at *; omega
      · intro _; simp [Ring.size] at *; omega
      · intro h0; simp [Ring.size] at *; omega
      · simpa using hI.sb
      · simpa [Ring.size] using hI.sm
      · simpa [Ring.size] using hI.nl

theorem removeTail_refines (q : Ring α) (hI : Inv c q) :
    ((q.removeTail c).1.abs c, (q.removeTail c).2) = Spec.removeTail (q.abs c) := by
  unfold Ring.removeTail Spec.removeTail
  by_cases h : q.count = 0
  · simp [h]
  · have hc := hI.cnt
    have hh := hI.hd (by omega)
    have ht := hI.tl (by omega)
    simp only [h, abs_length, if_false, Prod.mk.injEq, and_true]
    apply abs_eq
    · cases c.clear <;> simp <;> omega
    · intro k hk
      simp only [List.length_take, abs_length] at hk
      rw [List.getElem_take, abs_getElem]
      have a := intern_spec q.head q.size k
      have b := intern_spec q.head q.size (q.count - 1)
      simp only [Ring.size] at *
      cases hcl : c.clear
      · simp only [get_def, Bool.false_eq_true, if_false]
      · simp only [get_def, if_true, List.length_set]
        rw [getD_set_ne]
        omega

theorem inv_removeTail (q : Ring α) (hI : Inv c q) : Inv c (q.removeTail c).1 := by
  unfold Ring.removeTail
  by_cases h : q.count = 0
  · simp [h]; exact hI
  · have hc := hI.cnt
    have hh := hI.hd (by omega)
    have ht := hI.tl (by omega)
    have p := prev_spec q.size q.tail
    have a := intern_spec q.head q.size (q.count - 1)
    have b := intern_spec q.head q.size (q.count - 1 - 1)
    simp only [h, if_false]
    cases hcl : c.clear <;> simp only [Bool.false_eq_true, if_false, if_true] <;>
    · constructor
      · simp [Ring.size] at *; omega
      · intro _; simp [Ring.size] at *; omega
      · intro h0; simp [Ring.size] at *; omega
      · simpa using hI.sb
      · simpa [Ring.size] using hI.sm
      · simpa [Ring.size] using hI.nl


/-! ## Clear -/

theorem fillRange_length (l : List α) (s n : Nat) (v : α) : (fillRange l s n v).length = l.length := by
  induction n generalizing l s with
  | zero => simp [fillRange]
  | succ k ih => simp [fillRange, ih]

theorem abs_of_count_zero (q : Ring α) (h : q.count = 0) : q.abs c = [] := by
  apply List.eq_nil_of_length_eq_zero; simp [h]

/-- `Clear(release)` empties the queue -/
theorem clear_refines (q : Ring α) (hI : Inv c q) (rel : Bool) :
    Inv c (q.clear c rel) ∧ (q.clear c rel).abs c = Spec.clear (q.abs c) := by
  refine ⟨?_, ?_⟩
  · unfold Ring.clear Ring.fastClear
    by_cases h1 : rel = true ∧ q.kind ≠ .small
    · simp only [h1, and_self, if_true, ne_eq, not_false_eq_true]
      constructor
      · simp [Ring.size]
      · simp [Ring.size]
      · simp
      · intro _; exact hI.sb h1.2
      · simp
      · simp [Ring.size]
    · rw [if_neg h1]
      by_cases h2 : q.count > 0 ∧ c.clear = true
      · rw [if_pos h2]
        constructor
        · simp
        · intro h; exact h
        · simp
        · simpa using hI.sb
        · intro hk
          have := hI.sm hk
          simp only [Ring.size] at *
          cases q.run 0 <;> cases q.run 1 <;> simp [fillRange_length, this]
        · intro hk
          have := hI.nl hk
          simp only [Ring.size] at *
          cases q.run 0 <;> cases q.run 1 <;> simp [fillRange_length, this]
      · rw [if_neg h2]
        constructor
        · simp
        · intro h; exact h
        · simp
        · simpa using hI.sb
        · simpa [Ring.size] using hI.sm
        · simpa [Ring.size] using hI.nl
  · apply abs_of_count_zero
    unfold Ring.clear Ring.fastClear
    simp

/-! ## Normalize (rotation branch and the trivial case) -/

theorem getD_rot (l : List α) (h i : Nat) (d : α) (hh : h < l.length) (hi : i < l.length) :
    (l.drop h ++ l.take h).getD i d = l.getD (internalizeIndex h l.length i) d := by
  have a := intern_spec h l.length i
  simp only [List.getD_eq_getElem?_getD]
  by_cases hlt : i < l.length - h
  · rw [List.getElem?_append_left (by simpa using hlt), List.getElem?_drop]
    congr 2; omega
  · rw [List.getElem?_append_right (by simp; omega), List.getElem?_take]
    simp only [List.length_drop]
    have : i - (l.length - h) < h := by omega
    simp only [this, if_true]
    congr 2; omega


/-- `Normalize()` when the queue is contiguous already, or too full for the copy branch (rotation of the array) -/
theorem normalize_rot (q : Ring α) (hI : Inv c q) (h : q.isNormalized = true ∨ ¬ (q.count * 2 ≤ q.size)) :
    Inv c (q.normalize c) ∧ (q.normalize c).abs c = q.abs c ∧ (q.normalize c).isNormalized = true := by
  unfold Ring.normalize
  by_cases hn : q.isNormalized = true
  · rw [if_pos hn]; exact ⟨hI, rfl, hn⟩
  · have h2 : ¬ (q.count * 2 ≤ q.size) := by
      rcases h with h | h
      · exact absurd h hn
      · exact h
    simp only [hn, Bool.false_eq_true, if_false, h2]
    have hc := hI.cnt
    have hcp : 0 < q.count := by
      cases hq : q.count with
      | zero => simp [Ring.isNormalized, hq] at hn
      | succ k => omega
    have hh := hI.hd (by omega)
    have hlen : (q.slots.drop q.head ++ q.slots.take q.head).length = q.slots.length := by
      simp only [Ring.size] at hh
      simp only [List.length_append, List.length_drop, List.length_take]; omega
    refine ⟨?_, ?_, ?_⟩
    · constructor
      · simp only [Ring.size, hlen]; exact hc
      · intro _; simp only [Ring.size, hlen] at *; omega
      · intro _
        have a := intern_spec 0 q.size (q.count - 1)
        simp only [Ring.size, hlen] at *; omega
      · simpa using hI.sb
      · simpa only [Ring.size, hlen] using hI.sm
      · simpa only [Ring.size, hlen] using hI.nl
    · apply abs_congr
      · rfl
      · intro i hi
        simp only [get_def, hlen]
        have a := intern_spec 0 q.slots.length i
        simp only [Ring.size] at *
        have : internalizeIndex 0 q.slots.length i = i := by omega
        rw [this, getD_rot _ _ _ _ hh (by omega)]
    · simp [Ring.isNormalized]

/-! ## no stale items (owning item types) -/

theorem clean_empty (hcl : c.clear = true) : Clean c (Ring.empty c) := by
  constructor
  · intro j hj; simp [Ring.empty, Ring.size] at hj
  · intro _ j hj
    simp [Ring.empty, fresh, hcl, List.getD_eq_getElem?_getD, hj]

/-- `RemoveHead()` resets the slot it vacates -/
theorem clean_removeHead (hcl : c.clear = true) (q : Ring α) (hI : Inv c q) (hC : Clean c q) : Clean c (q.removeHead c).1 := by
  unfold Ring.removeHead
  by_cases h : q.count = 0
  · simp [h]; exact hC
  · have hc := hI.cnt
    have hh := hI.hd (by omega)
    have n := next_spec q.size q.head
    simp only [h, if_false, hcl, if_true]
    constructor
    · intro j hj hw
      simp only [Ring.size, List.length_set, inWin] at *
      rw [getD_set']
      by_cases e : q.head = j
      · simp [e, hj]
      · simp only [e, false_and, if_false]
        apply hC.slots j hj
        simp only [inWin, Ring.size]
        omega
    · exact hC.sbuf

/-- `RemoveTail()` resets the slot it vacates -/
theorem clean_removeTail (hcl : c.clear = true) (q : Ring α) (hI : Inv c q) (hC : Clean c q) : Clean c (q.removeTail c).1 := by
  unfold Ring.removeTail
  by_cases h : q.count = 0
  · simp [h]; exact hC
  · have hc := hI.cnt
    have hh := hI.hd (by omega)
    have ht := hI.tl (by omega)
    have a := intern_spec q.head q.size (q.count - 1)
    simp only [h, if_false, hcl, if_true]
    constructor
    · intro j hj hw
      simp only [Ring.size, List.length_set, inWin] at *
      rw [getD_set']
      by_cases e : q.tail = j
      · simp [e, hj]
      · simp only [e, false_and, if_false]
        apply hC.slots j hj
        simp only [inWin, Ring.size]
        omega
    · exact hC.sbuf

/-- a write to a visible item keeps the hidden slots as they are -/
theorem clean_put (q : Ring α) (hI : Inv c q) (hC : Clean c q) (i : Nat) (hi : i < q.count) (v : α) : Clean c (q.put i v) := by
  have hc := hI.cnt
  have hh := hI.hd (by omega)
  have a := intern_spec q.head q.size i
  constructor
  · intro j hj hw
    simp only [Ring.put, Ring.size, Ring.phys, List.length_set, inWin] at *
    rw [getD_set_ne]
    · exact hC.slots j hj (by simpa only [inWin, Ring.size] using hw)
    · omega
  · exact hC.sbuf


/-! ## more helpers -/

theorem get_put' (q : Ring α) (hh : q.head < q.size) (i k : Nat) (v : α) (hi : i < q.size) (hk : k < q.size) :
    (q.put i v).get c k = if i = k then v else q.get c k := by
  have a := intern_spec q.head q.size i
  have b := intern_spec q.head q.size k
  simp only [Ring.put, Ring.get, Ring.phys, Ring.size, List.length_set] at *
  rw [getD_set']
  by_cases e : i = k
  · subst e
    have : internalizeIndex q.head q.slots.length i < q.slots.length := by omega
    simp [this]
  · have : internalizeIndex q.head q.slots.length i ≠ internalizeIndex q.head q.slots.length k := by omega
    simp [this, e]

/-- everything but the slot contents -/
def SameShape (q' q : Ring α) : Prop :=
  q'.head = q.head ∧ q'.tail = q.tail ∧ q'.count = q.count ∧ q'.kind = q.kind ∧ q'.sbuf = q.sbuf ∧ q'.size = q.size

theorem SameShape.inv {q' q : Ring α} (h : SameShape q' q) (hI : Inv c q) : Inv c q' := by
  obtain ⟨h1, h2, h3, h4, h5, h6⟩ := h
  constructor
  · rw [h3, h6]; exact hI.cnt
  · rw [h1, h6]; exact hI.hd
  · rw [h1, h2, h3, h6]; exact hI.tl
  · rw [h4, h5]; exact hI.sb
  · rw [h4, h6]; exact hI.sm
  · rw [h4, h6]; exact hI.nl

theorem sameShape_put (q : Ring α) (i : Nat) (v : α) : SameShape (q.put i v) q := by
  simp [SameShape, Ring.put, Ring.size]

theorem SameShape.trans {a b d : Ring α} (h1 : SameShape a b) (h2 : SameShape b d) : SameShape a d := by
  obtain ⟨a1, a2, a3, a4, a5, a6⟩ := h1
  obtain ⟨b1, b2, b3, b4, b5, b6⟩ := h2
  exact ⟨a1.trans b1, a2.trans b2, a3.trans b3, a4.trans b4, a5.trans b5, a6.trans b6⟩

/-- `(*this)[s+k] = xs[k]`: exactly the positions `[s, s+len)` change -/
theorem putList_spec (xs : List α) (q : Ring α) (hh : q.head < q.size) (s : Nat) (h : s + xs.length ≤ q.size) :
    SameShape (q.putList s xs) q ∧
    ∀ k, k < q.size → (q.putList s xs).get c k = if s ≤ k ∧ k < s + xs.length then xs.getD (k - s) c.junk else q.get c k := by
  induction xs generalizing q s with
  | nil =>
    refine ⟨by simp [Ring.putList, SameShape], ?_⟩
    intro k hk
    have : ¬ (s ≤ k ∧ k < s + ([] : List α).length) := by simp
    simp only [Ring.putList, this, if_false]
  | cons x xs ih =>
    simp only [Ring.putList, List.length_cons] at h ⊢
    have sp := sameShape_put q s x
    have hh1 : (q.put s x).head < (q.put s x).size := by rw [sp.1, sp.2.2.2.2.2]; exact hh
    have := ih (q.put s x) hh1 (s + 1) (by rw [sp.2.2.2.2.2]; omega)
    refine ⟨this.1.trans sp, ?_⟩
    intro k hk
    rw [this.2 k (by rw [sp.2.2.2.2.2]; exact hk), get_put' c q hh s k x (by omega) hk]
    by_cases e : s = k
    · subst e
      have : ¬ (s + 1 ≤ s ∧ s < s + 1 + xs.length) := by omega
      simp [this]
    · by_cases r : s + 1 ≤ k ∧ k < s + 1 + xs.length
      · have r2 : s ≤ k ∧ k < s + (xs.length + 1) := by omega
        have : k - s = (k - (s + 1)) + 1 := by omega
        simp only [r, r2, and_self, if_true, e, if_false]
        rw [this, List.getD_cons_succ]
      · have r2 : ¬ (s ≤ k ∧ k < s + (xs.length + 1)) := by omega
        simp [r, r2, e]

theorem fillRange_getD (l : List α) (s n : Nat) (v d : α) (j : Nat) :
    (fillRange l s n v).getD j d = if s ≤ j ∧ j < s + n ∧ j < l.length then v else l.getD j d := by
  induction n generalizing l s with
  | zero =>
    have : ¬ (s ≤ j ∧ j < s + 0 ∧ j < l.length) := by omega
    simp only [fillRange, this, if_false]
  | succ k ih =>
    simp only [fillRange]
    rw [ih, getD_set', List.length_set]
    by_cases e : s = j
    · subst e
      by_cases hl : s < l.length
      · have : ¬ (s + 1 ≤ s ∧ s < s + 1 + k ∧ s < l.length) := by omega
        have t : s ≤ s ∧ s < s + (k + 1) ∧ s < l.length := by omega
        simp [this, t, hl]
      · have : ¬ (s + 1 ≤ s ∧ s < s + 1 + k ∧ s < l.length) := by omega
        have t : ¬ (s ≤ s ∧ s < s + (k + 1) ∧ s < l.length) := by omega
        simp [this, t, hl]
    · by_cases r : s + 1 ≤ j ∧ j < s + 1 + k ∧ j < l.length
      · have t : s ≤ j ∧ j < s + (k + 1) ∧ j < l.length := by omega
        simp [r, t]
      · have t : ¬ (s ≤ j ∧ j < s + (k + 1) ∧ j < l.length) := by omega
        simp [r, t, e]

theorem overwritePrefix_getD_ge (buf xs : List α) (i : Nat) (d : α) (h : xs.length ≤ i) :
    (overwritePrefix buf xs).getD i d = buf.getD i d := by
  simp only [overwritePrefix, List.getD_eq_getElem?_getD]
  rw [List.getElem?_append_right h, List.getElem?_drop]
  congr 2; omega

theorem fresh_getD (hcl : c.clear = true) (n j : Nat) (h : j < n) : (fresh c n).getD j c.junk = c.dflt := by
  simp [fresh, hcl, List.getD_eq_getElem?_getD, h]

/-- a write to a visible item, list version -/
theorem clean_putList (xs : List α) (q : Ring α) (hI : Inv c q) (hC : Clean c q) (s : Nat) (h : s + xs.length ≤ q.count) :
    Clean c (q.putList s xs) := by
  induction xs generalizing q s with
  | nil => exact hC
  | cons x xs ih =>
    simp only [Ring.putList, List.length_cons] at h ⊢
    apply ih (q.put s x) (inv_put c q hI s x) (clean_put c q hI hC s (by omega) x) (s + 1)
    simp only [Ring.put]; omega


/-! ## multi-item removal -/

theorem removeTail_shape (q : Ring α) :
    (q.removeTail c).1.head = q.head ∧ (q.removeTail c).1.size = q.size ∧ (q.removeTail c).1.kind = q.kind ∧
    (q.removeTail c).1.sbuf = q.sbuf ∧ (q.removeTail c).1.count = q.count - 1 := by
  unfold Ring.removeTail
  by_cases h : q.count = 0
  · simp [h]
  · cases c.clear <;> simp [h, Ring.size]

theorem removeHead_shape (q : Ring α) :
    (q.removeHead c).1.tail = q.tail ∧ (q.removeHead c).1.size = q.size ∧ (q.removeHead c).1.kind = q.kind ∧
    (q.removeHead c).1.sbuf = q.sbuf ∧ (q.removeHead c).1.count = q.count - 1 := by
  unfold Ring.removeHead
  by_cases h : q.count = 0
  · simp [h]
  · cases c.clear <;> simp [h, Ring.size]

theorem removeTail_abs (q : Ring α) (hI : Inv c q) : (q.removeTail c).1.abs c = (q.abs c).take (q.count - 1) := by
  have h := removeTail_refines c q hI
  simp only [Prod.ext_iff] at h
  rw [h.1]
  unfold Spec.removeTail
  by_cases h0 : q.count = 0
  · simp [h0, abs_of_count_zero c q h0]
  · simp [h0]

theorem removeHead_abs (q : Ring α) (hI : Inv c q) : (q.removeHead c).1.abs c = (q.abs c).drop 1 := by
  have h := removeHead_refines c q hI
  simp only [Prod.ext_iff] at h
  rw [h.1]
  unfold Spec.removeHead
  by_cases h0 : q.count = 0
  · simp [h0, abs_of_count_zero c q h0]
  · simp [h0]

theorem iter_removeTail (k : Nat) (q : Ring α) (hI : Inv c q) (hk : k ≤ q.count) :
    Inv c (Ring.iter (fun r => (r.removeTail c).1) k q) ∧
    (Ring.iter (fun r => (r.removeTail c).1) k q).abs c = (q.abs c).take (q.count - k) ∧
    (Ring.iter (fun r => (r.removeTail c).1) k q).count = q.count - k ∧
    (Ring.iter (fun r => (r.removeTail c).1) k q).size = q.size ∧
    (Ring.iter (fun r => (r.removeTail c).1) k q).kind = q.kind ∧
    (Ring.iter (fun r => (r.removeTail c).1) k q).sbuf = q.sbuf ∧
    (Ring.iter (fun r => (r.removeTail c).1) k q).head = q.head ∧
    (c.clear = true → Clean c q → Clean c (Ring.iter (fun r => (r.removeTail c).1) k q)) := by
  induction k generalizing q with
  | zero =>
    have e : Ring.iter (fun r => (r.removeTail c).1) 0 q = q := rfl
    rw [e]
    refine ⟨hI, ?_, rfl, rfl, rfl, rfl, rfl, fun _ h => h⟩
    rw [List.take_of_length_le (by simp)]
  | succ k ih =>
    have e : Ring.iter (fun r => (r.removeTail c).1) (k + 1) q = Ring.iter (fun r => (r.removeTail c).1) k (q.removeTail c).1 := rfl
    rw [e]
    obtain ⟨s1, s2, s3, s4, s5⟩ := removeTail_shape c q
    have := ih (q.removeTail c).1 (inv_removeTail c q hI) (by rw [s5]; omega)
    obtain ⟨a1, a2, a3, a4, a5, a6, a7, a8⟩ := this
    refine ⟨a1, ?_, by rw [a3, s5]; omega, by rw [a4, s2], by rw [a5, s3], by rw [a6, s4], by rw [a7, s1], ?_⟩
    · rw [a2, removeTail_abs c q hI, s5, List.take_take]
      congr 1; omega
    · intro hcl hC
      exact a8 hcl (clean_removeTail c hcl q hI hC)

theorem iter_removeHead (k : Nat) (q : Ring α) (hI : Inv c q) (hk : k ≤ q.count) :
    Inv c (Ring.iter (fun r => (r.removeHead c).1) k q) ∧
    (Ring.iter (fun r => (r.removeHead c).1) k q).abs c = (q.abs c).drop k ∧
    (Ring.iter (fun r => (r.removeHead c).1) k q).count = q.count - k ∧
    (c.clear = true → Clean c q → Clean c (Ring.iter (fun r => (r.removeHead c).1) k q)) := by
  induction k generalizing q with
  | zero =>
    have e : Ring.iter (fun r => (r.removeHead c).1) 0 q = q := rfl
    rw [e]
    exact ⟨hI, rfl, rfl, fun _ h => h⟩
  | succ k ih =>
    have e : Ring.iter (fun r => (r.removeHead c).1) (k + 1) q = Ring.iter (fun r => (r.removeHead c).1) k (q.removeHead c).1 := rfl
    rw [e]
    obtain ⟨s1, s2, s3, s4, s5⟩ := removeHead_shape c q
    have := ih (q.removeHead c).1 (inv_removeHead c q hI) (by rw [s5]; omega)
    obtain ⟨a1, a2, a3, a8⟩ := this
    refine ⟨a1, ?_, by rw [a3, s5]; omega, ?_⟩
    · rw [a2, removeHead_abs c q hI, List.drop_drop]; congr 1; omega
    · intro hcl hC
      exact a8 hcl (clean_removeHead c hcl q hI hC)

/-- `Clear()` leaves every slot (and the idle inline buffer) in the default state -/
theorem clean_clear (hcl : c.clear = true) (q : Ring α) (hI : Inv c q) (hC : Clean c q) (rel : Bool) :
    Clean c (q.clear c rel) := by
  have hc := hI.cnt
  unfold Ring.clear Ring.fastClear
  by_cases h1 : rel = true ∧ q.kind ≠ .small
  · rw [if_pos h1]
    constructor
    · intro j hj; simp [Ring.size] at hj
    · intro _; exact hC.sbuf h1.2
  · rw [if_neg h1]
    by_cases h2 : q.count > 0 ∧ c.clear = true
    · rw [if_pos h2]
      have hp : q.count ≠ 0 := by omega
      have hh := hI.hd (by omega)
      have ht := hI.tl h2.1
      have a := intern_spec q.head q.size (q.count - 1)
      simp only [Ring.run, hp, if_false]
      by_cases hw : q.head > q.tail
      · have hle : ¬ (q.head ≤ q.tail) := by omega
        simp only [hw, hle, if_true, if_false]
        constructor
        · intro j hj _
          simp only [Ring.size, fillRange_length] at *
          rw [fillRange_getD, fillRange_getD, fillRange_length]
          by_cases r1 : 0 ≤ j ∧ j < 0 + (q.tail + 1) ∧ j < q.slots.length
          · rw [if_pos r1]
          · by_cases r0 : q.head ≤ j ∧ j < q.head + (q.slots.length - q.head) ∧ j < q.slots.length
            · rw [if_neg r1, if_pos r0]
            · rw [if_neg r1, if_neg r0]
              apply hC.slots j hj
              simp only [inWin, Ring.size]; omega
        · exact hC.sbuf
      · have hle : q.head ≤ q.tail := by omega
        simp only [hw, hle, if_true, if_false]
        constructor
        · intro j hj _
          simp only [Ring.size, fillRange_length] at *
          rw [fillRange_getD]
          by_cases r0 : q.head ≤ j ∧ j < q.head + (q.tail - q.head + 1) ∧ j < q.slots.length
          · rw [if_pos r0]
          · rw [if_neg r0]
            apply hC.slots j hj
            simp only [inWin, Ring.size]; omega
        · exact hC.sbuf
    · rw [if_neg h2]
      have h0 : q.count = 0 := by
        by_cases hz : q.count = 0
        · exact hz
        · exact absurd ⟨by omega, hcl⟩ h2
      constructor
      · intro j hj _
        have hh := hI.hd (by simp only [Ring.size] at *; omega)
        apply hC.slots j hj
        simp only [inWin, Ring.size] at *; omega
      · exact hC.sbuf

theorem clear_shape (q : Ring α) : (q.clear c false).kind = q.kind ∧ (q.clear c false).sbuf = q.sbuf ∧
    (q.clear c false).size = q.size ∧ (q.clear c false).count = 0 ∧ (q.clear c false).head = 0 := by
  unfold Ring.clear Ring.fastClear
  simp only [Bool.false_eq_true, false_and, if_false]
  by_cases h2 : q.count > 0 ∧ c.clear = true
  · rw [if_pos h2]
    refine ⟨(by triv), (by triv), ?_, (by triv), (by triv)⟩
    simp only [Ring.size]
    cases q.run 0 <;> cases q.run 1 <;> simp [fillRange_length]
  · rw [if_neg h2]; exact ⟨(by triv), (by triv), (by triv), (by triv), (by triv)⟩

/-- `RemoveTailMulti(n)` -/
theorem removeTailMulti_spec (q : Ring α) (hI : Inv c q) (n : Nat) :
    Inv c (q.removeTailMulti c n).1 ∧ (q.removeTailMulti c n).1.abs c = (q.abs c).take (q.count - n) ∧
    (q.removeTailMulti c n).2 = min n q.count ∧ (q.removeTailMulti c n).1.count = q.count - n ∧
    (q.removeTailMulti c n).1.size = q.size ∧ (q.removeTailMulti c n).1.kind = q.kind ∧
    (q.removeTailMulti c n).1.sbuf = q.sbuf ∧
    (c.clear = true → Clean c q → Clean c (q.removeTailMulti c n).1) := by
  have hc := hI.cnt
  unfold Ring.removeTailMulti
  by_cases h0 : min n q.count = 0
  · simp only [h0, if_true]
    have : q.count - n = q.count := by omega
    refine ⟨hI, ?_, (by triv), by omega, (by triv), (by triv), (by triv), fun _ h => h⟩
    rw [this, List.take_of_length_le (by simp)]
  · simp only [h0, if_false]
    by_cases h1 : min n q.count = q.count
    · simp only [h1, if_true]
      obtain ⟨k1, k2, k3, k4, k5⟩ := clear_shape c q
      have hz : q.count - n = 0 := by omega
      refine ⟨(clear_refines c q hI false).1, ?_, (by triv), by rw [k4]; omega, k3, k1, k2, fun hcl hC => clean_clear c hcl q hI hC false⟩
      rw [(clear_refines c q hI false).2, hz]; simp [Spec.clear]
    · simp only [h1, if_false]
      cases hcl : c.clear
      · simp only [Bool.false_eq_true, if_false]
        have hp : 0 < q.count := by omega
        have hh := hI.hd (by omega)
        have ht := hI.tl hp
        have a := intern_spec q.head q.size (q.count - 1)
        have b := intern_spec q.head q.size (q.count - min n q.count - 1)
        have hm : min n q.count = n := by omega
        refine ⟨?_, ?_, (by triv), (by first | omega | (simp; omega)), (by triv), (by triv), (by triv), (by intro h; first | exact h.elim | simp at h)⟩
        · constructor
          · simp [Ring.size] at *; omega
          · intro _; simpa [Ring.size] using hh
          · intro _
            simp only [Ring.size] at *
            by_cases t : q.tail < min n q.count
            · simp only [t, if_true]; omega
            · simp only [t, if_false]; omega
          · simpa using hI.sb
          · simpa [Ring.size] using hI.sm
          · simpa [Ring.size] using hI.nl
        · apply abs_eq
          · simp; omega
          · intro i hi
            rw [List.getElem_take, abs_getElem]; rfl
      · simp only [if_true]
        obtain ⟨a1, a2, a3, a4, a5, a6, a7, a8⟩ := iter_removeTail c (min n q.count) q hI (by omega)
        refine ⟨a1, ?_, (by triv), by rw [a3]; omega, a4, a5, a6, fun _ hC => a8 hcl hC⟩
        rw [a2]; congr 1; omega

/-- `RemoveHeadMulti(n)` -/
theorem removeHeadMulti_spec (q : Ring α) (hI : Inv c q) (n : Nat) :
    Inv c (q.removeHeadMulti c n).1 ∧ (q.removeHeadMulti c n).1.abs c = (q.abs c).drop n ∧
    (q.removeHeadMulti c n).2 = min n q.count ∧
    (c.clear = true → Clean c q → Clean c (q.removeHeadMulti c n).1) := by
  have hc := hI.cnt
  unfold Ring.removeHeadMulti
  by_cases h0 : min n q.count = 0
  · simp only [h0, if_true]
    refine ⟨hI, ?_, (by triv), fun _ h => h⟩
    by_cases hn : n = 0
    · simp [hn]
    · have : q.count = 0 := by omega
      rw [abs_of_count_zero c q this]; simp
  · simp only [h0, if_false]
    by_cases h1 : min n q.count = q.count
    · simp only [h1, if_true]
      refine ⟨(clear_refines c q hI false).1, ?_, (by triv), fun hcl hC => clean_clear c hcl q hI hC false⟩
      rw [(clear_refines c q hI false).2, List.drop_of_length_le (by simp; omega)]; simp [Spec.clear]
    · simp only [h1, if_false]
      have hm : min n q.count = n := by omega
      cases hcl : c.clear
      · simp only [Bool.false_eq_true, if_false]
        have hp : 0 < q.count := by omega
        have hh := hI.hd (by omega)
        have ht := hI.tl hp
        have hmod : (q.head + min n q.count) % q.size = internalizeIndex q.head q.size n := by
          have a := intern_spec q.head q.size n
          rw [hm]
          by_cases hl : q.head + n < q.size
          · rw [Nat.mod_eq_of_lt hl]; omega
          · rw [Nat.mod_eq_sub_mod (by omega), Nat.mod_eq_of_lt (by omega)]; omega
        rw [hmod]
        have a := intern_spec q.head q.size n
        have b := intern_spec q.head q.size (q.count - 1)
        have d := intern_spec (internalizeIndex q.head q.size n) q.size (q.count - min n q.count - 1)
        refine ⟨?_, ?_, (by triv), (by intro h; first | exact h.elim | simp at h)⟩
        · constructor
          · simp [Ring.size] at *; omega
          · intro _; simp [Ring.size] at *; omega
          · intro _; simp only [Ring.size] at *; omega
          · simpa using hI.sb
          · simpa [Ring.size] using hI.sm
          · simpa [Ring.size] using hI.nl
        · apply abs_eq
          · simp; omega
          · intro i hi
            simp only [List.length_drop, abs_length] at hi
            rw [List.getElem_drop, abs_getElem]
            have e := intern_spec (internalizeIndex q.head q.size n) q.size i
            have f := intern_spec q.head q.size (n + i)
            simp only [get_def, Ring.size] at *
            congr 1; omega
      · simp only [if_true]
        obtain ⟨a1, a2, a3, a8⟩ := iter_removeHead c (min n q.count) q hI (by omega)
        refine ⟨a1, ?_, (by triv), fun _ hC => a8 hcl hC⟩
        rw [a2, hm]

/-! ## growth -/

theorem overwritePrefix_length (buf xs : List α) : (overwritePrefix buf xs).length = xs.length + (buf.length - xs.length) := by
  simp [overwritePrefix]

theorem overwritePrefix_getD (buf xs : List α) (i : Nat) (d : α) (h : i < xs.length) :
    (overwritePrefix buf xs).getD i d = xs.getD i d := by
  simp only [overwritePrefix, List.getD_eq_getElem?_getD]
  rw [List.getElem?_append_left h]

theorem fresh_length (n : Nat) : (fresh c n).length = n := by simp [fresh]

/-- the reallocation block with the new buffer, its kind and the new idle inline buffer made explicit -/
def reallocTo (q : Ring α) (n : Nat) (sn : Bool) (nb0 : List α) (k' : Kind) (sb' : List α) : Ring α :=
  let nb1 := overwritePrefix nb0 (q.abs c)
  let nb2 := if sn = true ∧ n > q.count ∧ c.clear = false then fillRange nb1 q.count (n - q.count) c.dflt else nb1
  let cnt := if sn = true then n else q.count
  { slots := nb2, head := 0, tail := cnt - 1, count := cnt, kind := k', sbuf := sb' }

theorem reallocTo_slots (q : Ring α) (n : Nat) (sn : Bool) (nb0 : List α) (k' : Kind) (sb' : List α)
    (hcn : q.count ≤ n) (hL : n ≤ nb0.length) :
    (reallocTo c q n sn nb0 k' sb').slots.length = nb0.length ∧
    ∀ j, j < nb0.length → (reallocTo c q n sn nb0 k' sb').slots.getD j c.junk =
      if j < q.count then q.get c j else if (sn = true ∧ c.clear = false ∧ j < n) then c.dflt else nb0.getD j c.junk := by
  have hlen1 : (overwritePrefix nb0 (q.abs c)).length = nb0.length := by
    rw [overwritePrefix_length]; simp only [abs_length]; omega
  refine ⟨?_, ?_⟩
  · unfold reallocTo; simp only
    split <;> simp [fillRange_length, hlen1]
  · intro j hj
    unfold reallocTo; simp only
    by_cases hf : sn = true ∧ n > q.count ∧ c.clear = false
    · rw [if_pos hf, fillRange_getD, hlen1]
      by_cases h1 : j < q.count
      · have t : ¬ (q.count ≤ j ∧ j < q.count + (n - q.count) ∧ j < nb0.length) := by omega
        rw [if_neg t, if_pos h1, overwritePrefix_getD _ _ _ _ (by simpa using h1), abs_getD c q j h1]
      · rw [if_neg h1]
        by_cases h2 : j < n
        · have t : q.count ≤ j ∧ j < q.count + (n - q.count) ∧ j < nb0.length := by omega
          rw [if_pos t, if_pos ⟨hf.1, hf.2.2, h2⟩]
        · have t : ¬ (q.count ≤ j ∧ j < q.count + (n - q.count) ∧ j < nb0.length) := by omega
          have t2 : ¬ (sn = true ∧ c.clear = false ∧ j < n) := by intro h; exact h2 h.2.2
          rw [if_neg t, if_neg t2, overwritePrefix_getD_ge _ _ _ _ (by simp; omega)]
    · rw [if_neg hf]
      by_cases h1 : j < q.count
      · rw [if_pos h1, overwritePrefix_getD _ _ _ _ (by simpa using h1), abs_getD c q j h1]
      · have t2 : ¬ (sn = true ∧ c.clear = false ∧ j < n) := by
          intro h; exact hf ⟨h.1, by omega, h.2.1⟩
        rw [if_neg h1, if_neg t2, overwritePrefix_getD_ge _ _ _ _ (by simp; omega)]

/-- the new queue after a reallocation, for a given new count `cnt` (`n` with set-size, the old count otherwise) -/
theorem realloc_core (r q : Ring α) (n cnt : Nat) (nb0 : List α) (xs : List α) (sn : Bool)
    (hcn : q.count ≤ n) (hL : n ≤ nb0.length)
    (hlen : r.slots.length = nb0.length) (hhead : r.head = 0) (hcount : r.count = cnt) (htail : r.tail = cnt - 1)
    (hc1 : cnt ≤ n) (hc2 : q.count ≤ cnt) (hxl : xs.length = cnt)
    (hx : ∀ i (hi : i < xs.length), xs[i] = if i < q.count then q.get c i else c.dflt)
    (hsn : cnt > q.count → sn = true)
    (hget : ∀ j, j < nb0.length → r.slots.getD j c.junk =
      if j < q.count then q.get c j else if (sn = true ∧ c.clear = false ∧ j < n) then c.dflt else nb0.getD j c.junk)
    (hd : c.clear = true → ∀ j, j < nb0.length → nb0.getD j c.junk = c.dflt)
    (hk1 : r.kind ≠ .small → r.sbuf.length = c.sq) (hk2 : r.kind = .small → nb0.length = c.sq) (hk3 : r.kind ≠ .null)
    (hsb : c.clear = true → r.kind ≠ .small → ∀ j, j < c.sq → r.sbuf.getD j c.junk = c.dflt) :
    Inv c r ∧ r.abs c = xs ∧ (c.clear = true → Clean c r) := by
  refine ⟨?_, ?_, ?_⟩
  · constructor
    · rw [Ring.size, hlen, hcount]; omega
    · intro h; rw [hhead]; exact h
    · intro h0
      have a := intern_spec 0 nb0.length (cnt - 1)
      rw [htail, hhead, Ring.size, hlen, hcount]; omega
    · exact hk1
    · rw [Ring.size, hlen]; exact hk2
    · intro h; exact absurd h hk3
  · apply abs_eq
    · rw [hcount, hxl]
    · intro i hi
      have a := intern_spec 0 nb0.length i
      have e : internalizeIndex 0 nb0.length i = i := by omega
      rw [get_def, hhead, hlen, e, hget i (by omega), hx i hi]
      by_cases h1 : i < q.count
      · rw [if_pos h1, if_pos h1]
      · rw [if_neg h1, if_neg h1]
        have hs := hsn (by omega)
        cases hcl : c.clear
        · have t : sn = true ∧ false = false ∧ i < n := ⟨hs, rfl, by omega⟩
          rw [if_pos t]
        · have t : ¬ (sn = true ∧ true = false ∧ i < n) := by intro h; cases h.2.1
          rw [if_neg t]
          exact hd hcl i (by omega)
  · intro hcl
    constructor
    · intro j hj hw
      rw [Ring.size, hlen] at hj
      simp only [inWin, hhead, Ring.size, hlen, hcount] at hw
      rw [hget j hj]
      have h1 : ¬ j < q.count := by omega
      have t2 : ¬ (sn = true ∧ c.clear = false ∧ j < n) := by intro h; rw [hcl] at h; cases h.2.1
      rw [if_neg h1, if_neg t2]
      exact hd hcl j hj
    · exact hsb hcl

theorem realloc_aux (q : Ring α) (n : Nat) (sn : Bool) (nb0 : List α) (k' : Kind) (sb' : List α)
    (hcn : q.count ≤ n) (hL : n ≤ nb0.length)
    (hd : c.clear = true → ∀ j, j < nb0.length → nb0.getD j c.junk = c.dflt)
    (hk1 : k' ≠ .small → sb'.length = c.sq) (hk2 : k' = .small → nb0.length = c.sq) (hk3 : k' ≠ .null)
    (hsb : c.clear = true → k' ≠ .small → ∀ j, j < c.sq → sb'.getD j c.junk = c.dflt) :
    Inv c (reallocTo c q n sn nb0 k' sb') ∧
    (reallocTo c q n sn nb0 k' sb').abs c = (if sn = true then q.abs c ++ List.replicate (n - q.count) c.dflt else q.abs c) ∧
    (c.clear = true → Clean c (reallocTo c q n sn nb0 k' sb')) ∧
    (reallocTo c q n sn nb0 k' sb').slots.length = nb0.length := by
  obtain ⟨hlen, hget⟩ := reallocTo_slots c q n sn nb0 k' sb' hcn hL
  cases sn
  · have := realloc_core c (reallocTo c q n false nb0 k' sb') q n q.count nb0 (q.abs c) false hcn hL hlen rfl rfl rfl
      hcn (Nat.le_refl _) (by simp) (by intro i hi; rw [abs_getElem]; simp at hi; simp [hi]) (by omega) hget hd hk1 hk2 hk3 hsb
    simp only [Bool.false_eq_true, if_false]
    exact ⟨this.1, this.2.1, this.2.2, hlen⟩
  · have := realloc_core c (reallocTo c q n true nb0 k' sb') q n n nb0 (q.abs c ++ List.replicate (n - q.count) c.dflt) true hcn hL hlen rfl rfl rfl
      (Nat.le_refl _) hcn (by simp; omega)
      (by
        intro i hi
        by_cases h1 : i < q.count
        · rw [List.getElem_append_left (by simpa using h1), abs_getElem, if_pos h1]
        · rw [List.getElem_append_right (by simp; omega), if_neg h1]; simp)
      (fun _ => rfl) hget hd hk1 hk2 hk3 hsb
    simp only [if_true]
    exact ⟨this.1, this.2.1, this.2.2, hlen⟩

theorem realloc_eq (q : Ring α) (n : Nat) (sn : Bool) (extra : Nat) :
    q.realloc c n sn extra = reallocTo c q n sn
      (if (!(decide (q.kind = .small) || decide (max c.sq (n + extra) > c.sq))) = true then q.sbuf else fresh c (max c.sq (n + extra)))
      (if (!(decide (q.kind = .small) || decide (max c.sq (n + extra) > c.sq))) = true then .small else .heap)
      (if q.kind = .small then (if c.clear then List.replicate c.sq c.dflt else q.slots) else q.sbuf) := rfl

/-- the reallocation block of `EnsureSizeAux` -/
theorem realloc_spec (q : Ring α) (hI : Inv c q) (hC : c.clear = true → Clean c q) (n : Nat) (sn : Bool) (extra : Nat)
    (hcn : q.count ≤ n) :
    Inv c (q.realloc c n sn extra) ∧
    (q.realloc c n sn extra).abs c = (if sn = true then q.abs c ++ List.replicate (n - q.count) c.dflt else q.abs c) ∧
    (c.clear = true → Clean c (q.realloc c n sn extra)) ∧ n ≤ (q.realloc c n sn extra).size := by
  rw [realloc_eq]
  have hsbc : c.clear = true → q.kind ≠ .small → ∀ j, j < c.sq → q.sbuf.getD j c.junk = c.dflt :=
    fun hcl hk => (hC hcl).sbuf hk
  have hsb' : (if q.kind = .small then (if c.clear then List.replicate c.sq c.dflt else q.slots) else q.sbuf).length = c.sq := by
    by_cases hs : q.kind = .small
    · simp only [hs, if_true]
      cases c.clear
      · simpa [Ring.size] using hI.sm hs
      · simp
    · simp only [hs, if_false]; exact hI.sb hs
  have hsbd : c.clear = true → ∀ j, j < c.sq →
      (if q.kind = .small then (if c.clear then List.replicate c.sq c.dflt else q.slots) else q.sbuf).getD j c.junk = c.dflt := by
    intro hcl j hj
    by_cases hs : q.kind = .small
    · simp [hs, hcl, List.getD_eq_getElem?_getD, hj]
    · simp only [hs, if_false]; exact hsbc hcl hs j hj
  by_cases hs : q.kind = .small
  · have e : (!(decide (q.kind = .small) || decide (max c.sq (n + extra) > c.sq))) = false := by simp [hs]
    simp only [e, Bool.false_eq_true, if_false]
    have := realloc_aux c q n sn (fresh c (max c.sq (n + extra))) .heap _ hcn (by rw [fresh_length]; omega)
      (fun hcl j hj => fresh_getD c hcl _ j (by simpa [fresh_length] using hj))
      (fun _ => hsb') (by intro h; cases h) (by intro h; cases h) (fun hcl _ => hsbd hcl)
    refine ⟨this.1, this.2.1, this.2.2.1, ?_⟩
    rw [Ring.size, this.2.2.2, fresh_length]; omega
  · by_cases hg : max c.sq (n + extra) > c.sq
    · have e : (!(decide (q.kind = .small) || decide (max c.sq (n + extra) > c.sq))) = false := by simp [hg]
      simp only [e, Bool.false_eq_true, if_false]
      have := realloc_aux c q n sn (fresh c (max c.sq (n + extra))) .heap _ hcn (by rw [fresh_length]; omega)
        (fun hcl j hj => fresh_getD c hcl _ j (by simpa [fresh_length] using hj))
        (fun _ => hsb') (by intro h; cases h) (by intro h; cases h) (fun hcl _ => hsbd hcl)
      refine ⟨this.1, this.2.1, this.2.2.1, ?_⟩
      rw [Ring.size, this.2.2.2, fresh_length]; omega
    · have e : (!(decide (q.kind = .small) || decide (max c.sq (n + extra) > c.sq))) = true := by simp [hs, hg]
      simp only [e, if_true]
      simp only [hs, if_false]
      have hl := hI.sb hs
      have := realloc_aux c q n sn q.sbuf .small q.sbuf hcn (by omega)
        (fun hcl j hj => hsbc hcl hs j (by omega)) (fun h => (h rfl).elim) (fun _ => hl) (by intro h; cases h)
        (fun _ h => (h rfl).elim)
      refine ⟨this.1, this.2.1, this.2.2.1, ?_⟩
      rw [Ring.size, this.2.2.2]; omega

/-- `EnsureSize(n, true)` growing in place: default items become visible (written for trivial item types, already there
    for owning ones) -/
theorem grow_inplace (q : Ring α) (hI : Inv c q) (hC : c.clear = true → Clean c q) (n : Nat) (hn : n ≤ q.size) (hg : q.count < n) :
    Inv c ({ (if c.clear = true then q else q.putList q.count (List.replicate (n - q.count) c.dflt)) with
              tail := prevIndex (if c.clear = true then q else q.putList q.count (List.replicate (n - q.count) c.dflt)).size
                        ((if c.clear = true then q else q.putList q.count (List.replicate (n - q.count) c.dflt)).phys n),
              count := n } : Ring α) ∧
    ({ (if c.clear = true then q else q.putList q.count (List.replicate (n - q.count) c.dflt)) with
              tail := prevIndex (if c.clear = true then q else q.putList q.count (List.replicate (n - q.count) c.dflt)).size
                        ((if c.clear = true then q else q.putList q.count (List.replicate (n - q.count) c.dflt)).phys n),
              count := n } : Ring α).abs c = q.abs c ++ List.replicate (n - q.count) c.dflt ∧
    (c.clear = true → Clean c ({ (if c.clear = true then q else q.putList q.count (List.replicate (n - q.count) c.dflt)) with
              tail := prevIndex (if c.clear = true then q else q.putList q.count (List.replicate (n - q.count) c.dflt)).size
                        ((if c.clear = true then q else q.putList q.count (List.replicate (n - q.count) c.dflt)).phys n),
              count := n } : Ring α)) ∧
    ({ (if c.clear = true then q else q.putList q.count (List.replicate (n - q.count) c.dflt)) with
              tail := prevIndex (if c.clear = true then q else q.putList q.count (List.replicate (n - q.count) c.dflt)).size
                        ((if c.clear = true then q else q.putList q.count (List.replicate (n - q.count) c.dflt)).phys n),
              count := n } : Ring α).size = q.size := by
  have hc := hI.cnt
  have hh := hI.hd (by omega)
  have a := intern_spec q.head q.size n
  have b := intern_spec q.head q.size (n - 1)
  have p := prev_spec q.size (internalizeIndex q.head q.size n)
  cases hcl : c.clear
  · simp only [Bool.false_eq_true, if_false]
    obtain ⟨sh, hgp⟩ := putList_spec c (List.replicate (n - q.count) c.dflt) q hh q.count (by simp; omega)
    generalize q.putList q.count (List.replicate (n - q.count) c.dflt) = q2 at *
    obtain ⟨s1, s2, s3, s4, s5, s6⟩ := sh
    refine ⟨?_, ?_, (by intro h; cases h), s6⟩
    · constructor
      · simp only [Ring.size] at *; omega
      · intro _; simp only [Ring.size] at *; omega
      · intro _; simp only [Ring.phys, Ring.size] at *; rw [s1, s6]; omega
      · simp only; rw [s4, s5]; exact hI.sb
      · simp only [Ring.size] at *; rw [s4, s6]; exact hI.sm
      · simp only [Ring.size] at *; rw [s4, s6]; exact hI.nl
    · apply abs_eq
      · simp; omega
      · intro i hi
        simp only [List.length_append, abs_length, List.length_replicate] at hi
        have e : ({ q2 with tail := prevIndex q2.size (q2.phys n), count := n } : Ring α).get c i = q2.get c i := rfl
        rw [e, hgp i (by omega)]
        by_cases h1 : i < q.count
        · have t : ¬ (q.count ≤ i ∧ i < q.count + (List.replicate (n - q.count) c.dflt).length) := by omega
          rw [if_neg t, List.getElem_append_left (by simpa using h1), abs_getElem]
        · have t : q.count ≤ i ∧ i < q.count + (List.replicate (n - q.count) c.dflt).length := by simp; omega
          rw [if_pos t, List.getElem_append_right (by simp; omega)]
          have hlt : i - q.count < n - q.count := by omega
          simp [List.getD_eq_getElem?_getD, List.getElem?_replicate, hlt]
  · simp only [if_true]
    have hCl := hC hcl
    refine ⟨?_, ?_, ?_, rfl⟩
    · constructor
      · simp only [Ring.size] at *; omega
      · intro _; exact hh
      · intro _; simp only [Ring.phys, Ring.size] at *; omega
      · exact hI.sb
      · exact hI.sm
      · exact hI.nl
    · apply abs_eq
      · simp; omega
      · intro i hi
        simp only [List.length_append, abs_length, List.length_replicate] at hi
        have a2 := intern_spec q.head q.size i
        by_cases h1 : i < q.count
        · rw [List.getElem_append_left (by simpa using h1), abs_getElem]; rfl
        · rw [List.getElem_append_right (by simp; omega)]
          simp only [List.getElem_replicate, get_def]
          apply hCl.slots
          · simp only [Ring.size] at *; omega
          · simp only [inWin, Ring.size] at *; omega
    · intro _
      constructor
      · intro j hj hw
        apply hCl.slots j hj
        simp only [inWin, Ring.size] at *; omega
      · exact hCl.sbuf

theorem removeTailMulti_zero (q : Ring α) : (q.removeTailMulti c 0).1 = q := by
  simp [Ring.removeTailMulti]

/-- `EnsureSizeAux` after the shrink guard -/
theorem ensureCore_spec (q : Ring α) (hI : Inv c q) (hC : c.clear = true → Clean c q) (n : Nat) (sn : Bool) (extra : Nat)
    (shrink : Bool) (hp : shrink = true → q.count ≤ n) :
    Inv c (q.ensureCore c n sn extra shrink) ∧
    (q.ensureCore c n sn extra shrink).abs c = Spec.ensureSize c.dflt (q.abs c) n sn ∧
    (c.clear = true → Clean c (q.ensureCore c n sn extra shrink)) ∧
    (shrink = false → n ≤ (q.ensureCore c n sn extra shrink).size) := by
  have hc := hI.cnt
  unfold Ring.ensureCore Spec.ensureSize
  by_cases hcond : q.kind = .null ∨ (if shrink = true then q.size ≠ n + extra else q.size < n)
  · rw [if_pos hcond]
    have hcn : q.count ≤ n := by
      cases shrink
      · simp only [Bool.false_eq_true, if_false] at hcond
        rcases hcond with h | h
        · have := hI.nl h; omega
        · omega
      · exact hp rfl
    obtain ⟨r1, r2, r3, r4⟩ := realloc_spec c q hI hC n sn extra hcn
    have hcount : (q.realloc c n sn extra).count = ((q.realloc c n sn extra).abs c).length := by simp
    generalize q.realloc c n sn extra = r at *
    cases sn
    · simp only [Bool.false_eq_true, if_false] at r2 ⊢
      exact ⟨r1, r2, r3, fun _ => r4⟩
    · simp only [if_true] at r2 ⊢
      have hrc : r.count = n := by rw [hcount, r2]; simp; omega
      have hng : ¬ (n > r.count) := by omega
      simp only [hrc, gt_iff_lt, Nat.lt_irrefl, if_false, Nat.sub_self, removeTailMulti_zero, abs_length]
      refine ⟨r1, ?_, r3, fun _ => r4⟩
      rw [r2]
      by_cases hg : n > q.count
      · simp [hg]
      · have : n = q.count := by omega
        subst this
        simp
        rw [List.take_of_length_le (by simp)]
  · rw [if_neg hcond]
    have hk : q.kind ≠ .null := fun h => hcond (Or.inl h)
    have hsz : n ≤ q.size := by
      cases shrink
      · simp only [Bool.false_eq_true, if_false] at hcond
        have : ¬ q.size < n := fun h => hcond (Or.inr h)
        omega
      · simp only [if_true] at hcond
        have : ¬ q.size ≠ n + extra := fun h => hcond (Or.inr h)
        omega
    cases sn
    · simp only [Bool.false_eq_true, if_false]
      exact ⟨hI, (by triv), hC, fun _ => hsz⟩
    · simp only [if_true, abs_length]
      by_cases hg : n > q.count
      · simp only [hg, if_true]
        obtain ⟨g1, g2, g3, g4⟩ := grow_inplace c q hI hC n hsz hg
        exact ⟨g1, g2, g3, fun _ => by rw [g4]; exact hsz⟩
      · simp only [hg, if_false]
        obtain ⟨m1, m2, m3, m4, m5, m6, m7, m8⟩ := removeTailMulti_spec c q hI (q.count - n)
        refine ⟨m1, ?_, fun hcl => m8 hcl (hC hcl), fun _ => by rw [m5]; exact hsz⟩
        rw [m2]; congr 1; omega

/-- `EnsureSize(n, setNumItems, extra, allowShrink)` (code as of commit 97f299d) -/
theorem ensure_spec (q : Ring α) (hI : Inv c q) (hC : c.clear = true → Clean c q) (n : Nat) (sn : Bool) (extra : Nat) (shrink : Bool) :
    Inv c (q.ensureSizeAux c n sn extra shrink) ∧
    (q.ensureSizeAux c n sn extra shrink).abs c = Spec.ensureSize c.dflt (q.abs c) n sn ∧
    (c.clear = true → Clean c (q.ensureSizeAux c n sn extra shrink)) ∧
    (shrink = false → n ≤ (q.ensureSizeAux c n sn extra shrink).size) := by
  unfold Ring.ensureSizeAux
  by_cases h : shrink = true ∧ n < q.count
  · rw [if_pos h]
    have hsf : ¬ shrink = false := by rw [h.1]; simp
    cases sn
    · simp only [Bool.false_eq_true, if_false]
      obtain ⟨e1, e2, e3, e4⟩ := ensureCore_spec c q hI hC q.count false extra shrink (fun _ => Nat.le_refl _)
      refine ⟨e1, ?_, e3, fun hs => absurd hs hsf⟩
      rw [e2]; simp [Spec.ensureSize]
    · simp only [if_true]
      obtain ⟨m1, m2, m3, m4, m5, m6, m7, m8⟩ := removeTailMulti_spec c q hI (q.count - n)
      obtain ⟨e1, e2, e3, e4⟩ := ensureCore_spec c (q.removeTailMulti c (q.count - n)).1 m1 (fun hcl => m8 hcl (hC hcl)) n true extra shrink
        (fun _ => by rw [m4]; omega)
      refine ⟨e1, ?_, e3, fun hs => absurd hs hsf⟩
      rw [e2, m2]
      have hlen : ((q.abs c).take (q.count - (q.count - n))).length = n := by simp; omega
      have hng : ¬ (n > q.count) := by omega
      simp only [Spec.ensureSize, if_true, hlen, Nat.lt_irrefl, gt_iff_lt, if_false, abs_length, hng]
      rw [List.take_take]; congr 1; omega
  · rw [if_neg h]
    apply ensureCore_spec c q hI hC n sn extra shrink
    intro hs; simp only [hs, true_and] at h; omega

theorem ensure_nosn (q : Ring α) (hI : Inv c q) (hC : c.clear = true → Clean c q) (n extra : Nat) (shrink : Bool) :
    Inv c (q.ensureSizeAux c n false extra shrink) ∧ (q.ensureSizeAux c n false extra shrink).abs c = q.abs c ∧
    (q.ensureSizeAux c n false extra shrink).count = q.count ∧ (shrink = false → n ≤ (q.ensureSizeAux c n false extra shrink).size) ∧
    (c.clear = true → Clean c (q.ensureSizeAux c n false extra shrink)) := by
  obtain ⟨e1, e2, e3, e4⟩ := ensure_spec c q hI hC n false extra shrink
  have e2' : (q.ensureSizeAux c n false extra shrink).abs c = q.abs c := by rw [e2]; simp [Spec.ensureSize]
  refine ⟨e1, e2', ?_, e4, e3⟩
  have := congrArg List.length e2'
  simpa using this

/-- the part of `AddTailAndGet` after `EnsureSizeAux`, on a queue with a free slot -/
theorem pushTail (q1 : Ring α) (hI : Inv c q1) (hfree : q1.count < q1.size) (v : α) :
    let q2 : Ring α := if q1.count = 0 then { q1 with head := 0, tail := 0 } else { q1 with tail := nextIndex q1.size q1.tail }
    let q3 : Ring α := { q2 with count := q2.count + 1 }
    let q4 : Ring α := { q3 with slots := q3.slots.set q3.tail v }
    Inv c q4 ∧ q4.abs c = q1.abs c ++ [v] := by
  intro q2 q3 q4
  have hc := hI.cnt
  by_cases h0 : q1.count = 0
  · have e2 : q2 = { q1 with head := 0, tail := 0 } := by simp [q2, h0]
    have e4 : q4 = { q1 with head := 0, tail := 0, count := 1, slots := q1.slots.set 0 v } := by
      simp [q4, q3, e2, h0]
    rw [e4]
    have a := intern_spec 0 q1.size 0
    refine ⟨?_, ?_⟩
    · constructor
      · simp [Ring.size] at *; omega
      · intro _; simp [Ring.size] at *; omega
      · intro _; simp [Ring.size] at *; omega
      · simpa using hI.sb
      · simpa [Ring.size] using hI.sm
      · simpa [Ring.size] using hI.nl
    · apply abs_eq
      · simp [h0]
      · intro i hi
        have hl : (q1.abs c) = [] := by apply List.eq_nil_of_length_eq_zero; simp [h0]
        simp only [hl, List.nil_append, List.length_singleton] at hi ⊢
        have : i = 0 := by omega
        subst this
        simp only [get_def, List.length_set, List.getElem_singleton]
        simp only [Ring.size] at a hfree
        rw [a.1 (by omega)]
        exact getD_set_eq _ _ _ _ (by omega)
  · have hh := hI.hd (by omega)
    have ht := hI.tl (by omega)
    have e4 : q4 = { q1 with tail := nextIndex q1.size q1.tail, count := q1.count + 1,
                             slots := q1.slots.set (nextIndex q1.size q1.tail) v } := by
      simp [q4, q3, q2, h0]
    rw [e4]
    have a := intern_spec q1.head q1.size (q1.count - 1)
    have b := intern_spec q1.head q1.size q1.count
    have n := next_spec q1.size q1.tail
    have hnt : nextIndex q1.size q1.tail = internalizeIndex q1.head q1.size q1.count := by omega
    refine ⟨?_, ?_⟩
    · constructor
      · simp [Ring.size] at *; omega
      · intro _; simp [Ring.size] at *; omega
      · intro _; simp [Ring.size] at *; omega
      · simpa using hI.sb
      · simpa [Ring.size] using hI.sm
      · simpa [Ring.size] using hI.nl
    · apply abs_eq
      · simp
      · intro i hi
        simp only [List.length_append, abs_length, List.length_singleton] at hi
        have d := intern_spec q1.head q1.size i
        simp only [get_def, List.length_set]
        simp only [Ring.size] at *
        rw [hnt]
        by_cases hi2 : i < q1.count
        · rw [List.getElem_append_left (by simpa using hi2), abs_getElem, get_def, getD_set_ne]
          omega
        · have : i = q1.count := by omega
          subst this
          rw [List.getElem_append_right (by simp)]
          simp only [abs_length, Nat.sub_self, List.getElem_singleton]
          exact getD_set_eq _ _ _ _ (by omega)

theorem pushTail_clean (hcl : c.clear = true) (q1 : Ring α) (hI : Inv c q1) (hC : Clean c q1) (hfree : q1.count < q1.size) (v : α) :
    let q2 : Ring α := if q1.count = 0 then { q1 with head := 0, tail := 0 } else { q1 with tail := nextIndex q1.size q1.tail }
    let q3 : Ring α := { q2 with count := q2.count + 1 }
    let q4 : Ring α := { q3 with slots := q3.slots.set q3.tail v }
    Clean c q4 := by
  intro q2 q3 q4
  have hc := hI.cnt
  have hh := hI.hd (by omega)
  by_cases h0 : q1.count = 0
  · have e4 : q4 = { q1 with head := 0, tail := 0, count := 1, slots := q1.slots.set 0 v } := by
      simp [q4, q3, q2, h0]
    rw [e4]
    constructor
    · intro j hj hw
      simp only [inWin, Ring.size, List.length_set] at *
      rw [getD_set_ne _ _ _ _ _ (by omega)]
      apply hC.slots j hj
      simp only [inWin, Ring.size]; omega
    · exact hC.sbuf
  · have ht := hI.tl (by omega)
    have e4 : q4 = { q1 with tail := nextIndex q1.size q1.tail, count := q1.count + 1,
                             slots := q1.slots.set (nextIndex q1.size q1.tail) v } := by
      simp [q4, q3, q2, h0]
    rw [e4]
    have a := intern_spec q1.head q1.size (q1.count - 1)
    have b := intern_spec q1.head q1.size q1.count
    have n := next_spec q1.size q1.tail
    constructor
    · intro j hj hw
      simp only [inWin, Ring.size, List.length_set] at *
      rw [getD_set_ne _ _ _ _ _ (by omega)]
      apply hC.slots j hj
      simp only [inWin, Ring.size]; omega
    · exact hC.sbuf

/-- `AddTail(item)` appends -/
theorem addTail_refines (q : Ring α) (hI : Inv c q) (hC : c.clear = true → Clean c q) (v : α) :
    Inv c (q.addTail c v) ∧ (q.addTail c v).abs c = Spec.addTail (q.abs c) v ∧ (c.clear = true → Clean c (q.addTail c v)) := by
  obtain ⟨hI1, habs, hcnt, hsz, hC1⟩ := ensure_nosn c q hI hC (q.count + 1) (q.count + 1) false
  have hfree : (q.ensureSizeAux c (q.count + 1) false (q.count + 1) false).count < (q.ensureSizeAux c (q.count + 1) false (q.count + 1) false).size := by
    have := hsz rfl; omega
  have := pushTail c _ hI1 hfree v
  simp only [habs] at this
  exact ⟨this.1, this.2, fun hcl => pushTail_clean c hcl _ hI1 (hC1 hcl) hfree v⟩

/-- the part of `AddHeadAndGet` after `EnsureSizeAux`, on a queue with a free slot -/
theorem pushHead (q1 : Ring α) (hI : Inv c q1) (hfree : q1.count < q1.size) (v : α) :
    let q2 : Ring α := if q1.count = 0 then { q1 with head := 0, tail := 0 } else { q1 with head := prevIndex q1.size q1.head }
    let q3 : Ring α := { q2 with count := q2.count + 1 }
    let q4 : Ring α := { q3 with slots := q3.slots.set q3.head v }
    Inv c q4 ∧ q4.abs c = v :: q1.abs c := by
  intro q2 q3 q4
  have hc := hI.cnt
  by_cases h0 : q1.count = 0
  · have e4 : q4 = { q1 with head := 0, tail := 0, count := 1, slots := q1.slots.set 0 v } := by
      simp [q4, q3, q2, h0]
    rw [e4]
    have a := intern_spec 0 q1.size 0
    refine ⟨?_, ?_⟩
    · constructor
      · simp [Ring.size] at *; omega
      · intro _; simp [Ring.size] at *; omega
      · intro _; simp [Ring.size] at *; omega
      · simpa using hI.sb
      · simpa [Ring.size] using hI.sm
      · simpa [Ring.size] using hI.nl
    · apply abs_eq
      · simp [h0]
      · intro i hi
        have hl : (q1.abs c) = [] := by apply List.eq_nil_of_length_eq_zero; simp [h0]
        simp only [hl, List.length_singleton] at hi ⊢
        have : i = 0 := by omega
        subst this
        simp only [get_def, List.length_set, List.getElem_singleton]
        simp only [Ring.size] at a hfree
        rw [a.1 (by omega)]
        exact getD_set_eq _ _ _ _ (by omega)
  · have hh := hI.hd (by omega)
    have ht := hI.tl (by omega)
    have e4 : q4 = { q1 with head := prevIndex q1.size q1.head, count := q1.count + 1,
                             slots := q1.slots.set (prevIndex q1.size q1.head) v } := by
      simp [q4, q3, q2, h0]
    rw [e4]
    have a := intern_spec q1.head q1.size (q1.count - 1)
    have b := intern_spec (prevIndex q1.size q1.head) q1.size q1.count
    have p := prev_spec q1.size q1.head
    refine ⟨?_, ?_⟩
    · constructor
      · simp [Ring.size] at *; omega
      · intro _; simp [Ring.size] at *; omega
      · intro _; simp [Ring.size] at *; omega
      · simpa using hI.sb
      · simpa [Ring.size] using hI.sm
      · simpa [Ring.size] using hI.nl
    · apply abs_eq
      · simp
      · intro i hi
        simp only [List.length_cons, abs_length] at hi
        have d := intern_spec (prevIndex q1.size q1.head) q1.size i
        simp only [get_def, List.length_set]
        simp only [Ring.size] at *
        cases i with
        | zero =>
          simp only [List.getElem_cons_zero]
          have : internalizeIndex (prevIndex q1.slots.length q1.head) q1.slots.length 0 = prevIndex q1.slots.length q1.head := by omega
          rw [this]
          exact getD_set_eq _ _ _ _ (by omega)
        | succ k =>
          have e := intern_spec q1.head q1.slots.length k
          simp only [List.getElem_cons_succ]
          rw [abs_getElem, get_def, getD_set_ne]
          · congr 1; omega
          · omega

theorem pushHead_clean (hcl : c.clear = true) (q1 : Ring α) (hI : Inv c q1) (hC : Clean c q1) (hfree : q1.count < q1.size) (v : α) :
    let q2 : Ring α := if q1.count = 0 then { q1 with head := 0, tail := 0 } else { q1 with head := prevIndex q1.size q1.head }
    let q3 : Ring α := { q2 with count := q2.count + 1 }
    let q4 : Ring α := { q3 with slots := q3.slots.set q3.head v }
    Clean c q4 := by
  intro q2 q3 q4
  have hc := hI.cnt
  have hh := hI.hd (by omega)
  by_cases h0 : q1.count = 0
  · have e4 : q4 = { q1 with head := 0, tail := 0, count := 1, slots := q1.slots.set 0 v } := by
      simp [q4, q3, q2, h0]
    rw [e4]
    constructor
    · intro j hj hw
      simp only [inWin, Ring.size, List.length_set] at *
      rw [getD_set_ne _ _ _ _ _ (by omega)]
      apply hC.slots j hj
      simp only [inWin, Ring.size]; omega
    · exact hC.sbuf
  · have e4 : q4 = { q1 with head := prevIndex q1.size q1.head, count := q1.count + 1,
                             slots := q1.slots.set (prevIndex q1.size q1.head) v } := by
      simp [q4, q3, q2, h0]
    rw [e4]
    have p := prev_spec q1.size q1.head
    constructor
    · intro j hj hw
      simp only [inWin, Ring.size, List.length_set] at *
      rw [getD_set_ne _ _ _ _ _ (by omega)]
      apply hC.slots j hj
      simp only [inWin, Ring.size]; omega
    · exact hC.sbuf

/-- `AddHead(item)` prepends -/
theorem addHead_refines (q : Ring α) (hI : Inv c q) (hC : c.clear = true → Clean c q) (v : α) :
    Inv c (q.addHead c v) ∧ (q.addHead c v).abs c = Spec.addHead (q.abs c) v ∧ (c.clear = true → Clean c (q.addHead c v)) := by
  obtain ⟨hI1, habs, hcnt, hsz, hC1⟩ := ensure_nosn c q hI hC (q.count + 1) (q.count + 1) false
  have hfree : (q.ensureSizeAux c (q.count + 1) false (q.count + 1) false).count < (q.ensureSizeAux c (q.count + 1) false (q.count + 1) false).size := by
    have := hsz rfl; omega
  have := pushHead c _ hI1 hfree v
  simp only [habs] at this
  exact ⟨this.1, this.2, fun hcl => pushHead_clean c hcl _ hI1 (hC1 hcl) hfree v⟩



/-! ## operations built from `EnsureSize` and `operator[]` -/

/-- the representation invariant plus, for owning item types, "no stale item anywhere" -/
def Good (q : Ring α) : Prop := Inv c q ∧ (c.clear = true → Clean c q)

/-- overwriting visible items `[s, s+len)` -/
theorem putList_abs (xs : List α) (q : Ring α) (hG : Good c q) (s : Nat) (h : s + xs.length ≤ q.count) :
    Good c (q.putList s xs) ∧
    (q.putList s xs).abs c = (q.abs c).take s ++ xs ++ (q.abs c).drop (s + xs.length) := by
  obtain ⟨hI, hC⟩ := hG
  have hc := hI.cnt
  by_cases hx : xs.length = 0
  · have : xs = [] := List.eq_nil_of_length_eq_zero hx
    subst this
    refine ⟨⟨hI, hC⟩, ?_⟩
    simp [Ring.putList]
  · have hh := hI.hd (by omega)
    obtain ⟨sh, hg⟩ := putList_spec c xs q hh s (by omega)
    refine ⟨⟨sh.inv c hI, fun hcl => clean_putList c xs q hI (hC hcl) s h⟩, ?_⟩
    apply abs_eq
    · rw [sh.2.2.1]; simp; omega
    · intro i hi
      simp only [List.length_append, List.length_take, List.length_drop, abs_length] at hi
      rw [hg i (by omega)]
      by_cases h1 : i < s
      · have t : ¬ (s ≤ i ∧ i < s + xs.length) := by omega
        rw [if_neg t, List.getElem_append_left (by simp; omega), List.getElem_append_left (by simp; omega),
          List.getElem_take, abs_getElem]
      · by_cases h2 : i < s + xs.length
        · have t : s ≤ i ∧ i < s + xs.length := by omega
          rw [if_pos t, List.getElem_append_left (by simp; omega), List.getElem_append_right (by simp; omega)]
          simp only [List.length_take, abs_length]
          have e : min s q.count = s := by omega
          simp only [e]
          rw [List.getD_eq_getElem?_getD, List.getElem?_eq_getElem (by omega), Option.getD_some]
        · have t : ¬ (s ≤ i ∧ i < s + xs.length) := by omega
          rw [if_neg t, List.getElem_append_right (by simp; omega), List.getElem_drop, abs_getElem]
          congr 1
          simp only [List.length_append, List.length_take, abs_length]; omega

/-- `AddTailMulti(items)` (array, or another queue after clipping) -/
theorem addTailMulti_refines (q : Ring α) (hG : Good c q) (xs : List α) :
    Good c (q.addTailMulti c xs) ∧ (q.addTailMulti c xs).abs c = Spec.addTailMulti (q.abs c) xs := by
  obtain ⟨hI, hC⟩ := hG
  unfold Ring.addTailMulti Spec.addTailMulti
  obtain ⟨e1, e2, e3, e4⟩ := ensure_spec c q hI hC (q.count + xs.length) true 0 false
  have hlen := congrArg List.length e2
  have e2' : (q.ensureSizeAux c (q.count + xs.length) true 0 false).abs c = q.abs c ++ List.replicate xs.length c.dflt := by
    rw [e2]; unfold Spec.ensureSize
    by_cases hx : xs.length = 0
    · simp [hx]; rw [List.take_of_length_le (by simp)]
    · have h1 : q.count + xs.length > (q.abs c).length := by rw [abs_length]; omega
      rw [if_pos rfl, if_pos h1, abs_length, Nat.add_sub_cancel_left]
  have hcnt : (q.ensureSizeAux c (q.count + xs.length) true 0 false).count = q.count + xs.length := by
    have := congrArg List.length e2'
    simpa using this
  obtain ⟨g, a⟩ := putList_abs c xs _ ⟨e1, e3⟩ q.count (by omega)
  refine ⟨g, ?_⟩
  rw [a, e2']
  have l1 : (q.abs c).length = q.count := by simp
  rw [List.take_left' l1, List.drop_of_length_le (by simp)]
  simp

/-- `operator=` / `CopyFrom` from another queue -/
theorem copyFrom_refines (q : Ring α) (hG : Good c q) (xs : List α) :
    Good c (q.copyFrom c xs) ∧ (q.copyFrom c xs).abs c = Spec.assign (q.abs c) xs := by
  obtain ⟨hI, hC⟩ := hG
  unfold Ring.copyFrom Spec.assign
  obtain ⟨e1, e2, e3, e4⟩ := ensure_spec c q hI hC xs.length true 0 false
  have hcnt : (q.ensureSizeAux c xs.length true 0 false).count = xs.length := by
    have := congrArg List.length e2
    simp only [abs_length] at this
    rw [this]; unfold Spec.ensureSize
    by_cases hg : xs.length > (q.abs c).length
    · simp only [hg, if_true]; simp at hg ⊢; omega
    · simp only [hg, if_false]; simp at hg ⊢; omega
  obtain ⟨g, a⟩ := putList_abs c xs _ ⟨e1, e3⟩ 0 (by omega)
  refine ⟨g, ?_⟩
  rw [a, List.drop_of_length_le (by simp; omega)]
  simp

theorem assign_refines (q : Ring α) (hG : Good c q) (xs : List α) :
    Good c (q.assign c xs) ∧ (q.assign c xs).abs c = Spec.assign (q.abs c) xs := by
  unfold Ring.assign
  by_cases hx : xs.length = 0
  · have : xs = [] := List.eq_nil_of_length_eq_zero hx
    subst this
    simp only [List.length_nil, if_true]
    obtain ⟨c1, c2⟩ := clear_refines c q hG.1 true
    exact ⟨⟨c1, fun hcl => clean_clear c hcl q hG.1 (hG.2 hcl) true⟩, by rw [c2]; rfl⟩
  · rw [if_neg hx]
    exact copyFrom_refines c q hG xs

/-- `Swap(i, j)` for valid indices -/
theorem swap_refines (q : Ring α) (hG : Good c q) (i j : Nat) (hi : i < q.count) (hj : j < q.count) :
    Good c (q.swap c i j) ∧ (q.swap c i j).abs c = Spec.swap c.junk (q.abs c) i j := by
  obtain ⟨hI, hC⟩ := hG
  have hc := hI.cnt
  have hh := hI.hd (by omega)
  unfold Ring.swap Spec.swap
  rw [abs_getD c q j hj, abs_getD c q i hi]
  have hI1 := inv_put c q hI i (q.get c j)
  have sp := sameShape_put q i (q.get c j)
  refine ⟨⟨inv_put c _ hI1 j _, fun hcl => clean_put c _ hI1 (clean_put c q hI (hC hcl) i hi _) j (by rw [sp.2.2.1]; exact hj) _⟩, ?_⟩
  apply abs_eq
  · simp [Ring.put]
  · intro k hk
    simp only [List.length_set, abs_length] at hk
    have hh1 : (q.put i (q.get c j)).head < (q.put i (q.get c j)).size := by rw [sp.1, sp.2.2.2.2.2]; exact hh
    rw [get_put' c _ hh1 j k _ (by rw [sp.2.2.2.2.2]; omega) (by rw [sp.2.2.2.2.2]; omega),
      get_put' c q hh i k _ (by omega) (by omega), List.getElem_set, List.getElem_set]
    by_cases e1 : j = k
    · simp [e1]
    · by_cases e2 : i = k
      · simp [e1, e2]
      · simp [e1, e2, abs_getElem]

theorem addHeadLoop_const (xs : List α) (k : Nat) (q : Ring α) (hG : Good c q) (hk : k ≤ xs.length) :
    Good c (Ring.addHeadLoop c q (fun i _ => xs.getD i c.junk) 0 k) ∧
    (Ring.addHeadLoop c q (fun i _ => xs.getD i c.junk) 0 k).abs c = xs.take k ++ q.abs c := by
  induction k generalizing q with
  | zero => exact ⟨hG, by simp [Ring.addHeadLoop]⟩
  | succ k ih =>
    have e : Ring.addHeadLoop c q (fun i _ => xs.getD i c.junk) 0 (k + 1) =
        Ring.addHeadLoop c (q.addHead c (xs.getD (0 + k) c.junk)) (fun i _ => xs.getD i c.junk) 0 k := rfl
    rw [e]
    obtain ⟨a1, a2, a3⟩ := addHead_refines c q hG.1 hG.2 (xs.getD (0 + k) c.junk)
    obtain ⟨b1, b2⟩ := ih (q.addHead c (xs.getD (0 + k) c.junk)) ⟨a1, a3⟩ (by omega)
    refine ⟨b1, ?_⟩
    rw [b2, a2, Spec.addHead, Nat.zero_add, List.getD_eq_getElem?_getD, List.getElem?_eq_getElem (by omega), Option.getD_some]
    rw [List.take_succ_eq_append_getElem (by omega : k < xs.length), List.append_assoc]; rfl

/-- `AddHeadMulti(items)` (array, or another queue after clipping) -/
theorem addHeadMulti_refines (q : Ring α) (hG : Good c q) (xs : List α) :
    Good c (q.addHeadMulti c xs) ∧ (q.addHeadMulti c xs).abs c = Spec.addHeadMulti (q.abs c) xs := by
  unfold Ring.addHeadMulti Spec.addHeadMulti
  obtain ⟨e1, e2, e3, e4, e5⟩ := ensure_nosn c q hG.1 hG.2 (q.count + xs.length) 0 false
  obtain ⟨b1, b2⟩ := addHeadLoop_const c xs xs.length _ ⟨e1, e5⟩ (Nat.le_refl _)
  refine ⟨b1, ?_⟩
  rw [b2, e2, List.take_of_length_le (Nat.le_refl _)]


/-! ## the two shifting loops of `RemoveItemAt` -/

theorem shiftFromHead_spec (i : Nat) (q : Ring α) (hh : q.head < q.size) (hi : i < q.size) (fuel : Nat) (hf : i ≤ fuel) :
    SameShape (Ring.shiftFromHead c q fuel (q.phys i)) q ∧
    ∀ k, k < q.size → (Ring.shiftFromHead c q fuel (q.phys i)).get c k = if 1 ≤ k ∧ k ≤ i then q.get c (k - 1) else q.get c k := by
  induction i generalizing q fuel with
  | zero =>
    have a := intern_spec q.head q.size 0
    have e : q.phys 0 = q.head := by simp only [Ring.phys]; omega
    rw [e]
    have : Ring.shiftFromHead c q fuel q.head = q := by
      cases fuel <;> simp [Ring.shiftFromHead]
    rw [this]
    refine ⟨⟨rfl, rfl, rfl, rfl, rfl, rfl⟩, ?_⟩
    intro k hk
    have t : ¬ (1 ≤ k ∧ k ≤ 0) := by omega
    rw [if_neg t]
  | succ i ih =>
    obtain ⟨f, rfl⟩ : ∃ f, fuel = f + 1 := ⟨fuel - 1, by omega⟩
    have a := intern_spec q.head q.size (i + 1)
    have b := intern_spec q.head q.size i
    have p := prev_spec q.size (q.phys (i + 1))
    have hne : q.phys (i + 1) ≠ q.head := by simp only [Ring.phys]; omega
    have hp : prevIndex q.size (q.phys (i + 1)) = q.phys i := by simp only [Ring.phys] at *; omega
    have e : Ring.shiftFromHead c q (f + 1) (q.phys (i + 1)) =
        Ring.shiftFromHead c (q.put (i + 1) (q.get c i)) f ((q.put (i + 1) (q.get c i)).phys i) := by
      simp only [Ring.shiftFromHead, hne, if_false, hp]
      have hph : (q.put (i + 1) (q.get c i)).phys i = q.phys i := by simp [Ring.phys, Ring.put, Ring.size]
      rw [hph]; rfl
    rw [e]
    have sp := sameShape_put q (i + 1) (q.get c i)
    have hh1 : (q.put (i + 1) (q.get c i)).head < (q.put (i + 1) (q.get c i)).size := by rw [sp.1, sp.2.2.2.2.2]; exact hh
    obtain ⟨s1, g1⟩ := ih (q.put (i + 1) (q.get c i)) hh1 (by rw [sp.2.2.2.2.2]; omega) f (by omega)
    refine ⟨s1.trans sp, ?_⟩
    intro k hk
    rw [g1 k (by rw [sp.2.2.2.2.2]; exact hk)]
    by_cases h1 : 1 ≤ k ∧ k ≤ i
    · have h2 : 1 ≤ k ∧ k ≤ i + 1 := by omega
      rw [if_pos h1, if_pos h2, get_put' c q hh (i + 1) (k - 1) _ hi (by omega)]
      have : ¬ (i + 1 = k - 1) := by omega
      rw [if_neg this]
    · rw [if_neg h1, get_put' c q hh (i + 1) k _ hi hk]
      by_cases h3 : i + 1 = k
      · have h2 : 1 ≤ k ∧ k ≤ i + 1 := by omega
        rw [if_pos h3, if_pos h2]; congr 1; omega
      · have h2 : ¬ (1 ≤ k ∧ k ≤ i + 1) := by omega
        rw [if_neg h3, if_neg h2]

theorem shiftFromTail_spec (d : Nat) (q : Ring α) (hh : q.head < q.size) (t : Nat) (ht : t < q.size) (htl : q.tail = q.phys t)
    (i : Nat) (hi : i + d = t) (fuel : Nat) (hf : d ≤ fuel) :
    SameShape (Ring.shiftFromTail c q fuel (q.phys i)) q ∧
    ∀ k, k < q.size → (Ring.shiftFromTail c q fuel (q.phys i)).get c k = if i ≤ k ∧ k < t then q.get c (k + 1) else q.get c k := by
  induction d generalizing q fuel i with
  | zero =>
    have e : q.phys i = q.tail := by rw [htl]; congr 1
    rw [e]
    have : Ring.shiftFromTail c q fuel q.tail = q := by
      cases fuel <;> simp [Ring.shiftFromTail]
    rw [this]
    refine ⟨⟨rfl, rfl, rfl, rfl, rfl, rfl⟩, ?_⟩
    intro k hk
    have t' : ¬ (i ≤ k ∧ k < t) := by omega
    rw [if_neg t']
  | succ d ih =>
    obtain ⟨f, rfl⟩ : ∃ f, fuel = f + 1 := ⟨fuel - 1, by omega⟩
    have a := intern_spec q.head q.size (i + 1)
    have b := intern_spec q.head q.size i
    have b2 := intern_spec q.head q.size t
    have n := next_spec q.size (q.phys i)
    have hne : q.phys i ≠ q.tail := by rw [htl]; simp only [Ring.phys]; omega
    have hn : nextIndex q.size (q.phys i) = q.phys (i + 1) := by simp only [Ring.phys] at *; omega
    have e : Ring.shiftFromTail c q (f + 1) (q.phys i) =
        Ring.shiftFromTail c (q.put i (q.get c (i + 1))) f ((q.put i (q.get c (i + 1))).phys (i + 1)) := by
      simp only [Ring.shiftFromTail, hne, if_false, hn]
      have hph : (q.put i (q.get c (i + 1))).phys (i + 1) = q.phys (i + 1) := by simp [Ring.phys, Ring.put, Ring.size]
      rw [hph]; rfl
    rw [e]
    have sp := sameShape_put q i (q.get c (i + 1))
    have hh1 : (q.put i (q.get c (i + 1))).head < (q.put i (q.get c (i + 1))).size := by rw [sp.1, sp.2.2.2.2.2]; exact hh
    have htl1 : (q.put i (q.get c (i + 1))).tail = (q.put i (q.get c (i + 1))).phys t := by
      rw [sp.2.1, htl]; simp [Ring.phys, Ring.put, Ring.size]
    obtain ⟨s1, g1⟩ := ih (q.put i (q.get c (i + 1))) hh1 (by rw [sp.2.2.2.2.2]; exact ht) htl1 (i + 1) (by omega) f (by omega)
    refine ⟨s1.trans sp, ?_⟩
    intro k hk
    rw [g1 k (by rw [sp.2.2.2.2.2]; exact hk)]
    by_cases h1 : i + 1 ≤ k ∧ k < t
    · have h2 : i ≤ k ∧ k < t := by omega
      rw [if_pos h1, if_pos h2, get_put' c q hh i (k + 1) _ (by omega) (by omega)]
      have : ¬ (i = k + 1) := by omega
      rw [if_neg this]
    · rw [if_neg h1, get_put' c q hh i k _ (by omega) hk]
      by_cases h3 : i = k
      · have h2 : i ≤ k ∧ k < t := by omega
        rw [if_pos h3, if_pos h2, h3]
      · have h2 : ¬ (i ≤ k ∧ k < t) := by omega
        rw [if_neg h3, if_neg h2]



end Muscle.Containers
