import MuscleModel.Containers.QRing
import MuscleModel.Containers.QSpec

/-! Lemmas for C16: the ring layer refines the ideal sequence. -/

set_option linter.unusedSimpArgs false
set_option linter.unusedVariables false
set_option linter.unusedSectionVars false

namespace Muscle.Containers
variable {α : Type} [DecidableEq α] (c : ItemCfg α)

/-! ## arithmetic characterisation of the index kernels (for `omega`) -/

theorem intern_spec (head size idx : Nat) :
    (head + idx < size → internalizeIndex head size idx = head + idx) ∧
    (size ≤ head + idx → internalizeIndex head size idx = head + idx - size) := by
  unfold internalizeIndex; constructor <;> intro h
  · simp [h]
  · have : ¬ (head + idx < size) := by omega
    simp [this]

theorem next_spec (size idx : Nat) :
    (idx + 1 ≥ size → 0 < size → nextIndex size idx = 0) ∧ (idx + 1 < size → nextIndex size idx = idx + 1) := by
  unfold nextIndex; constructor <;> intro h
  · intro h2; have : idx ≥ size - 1 := by omega
    simp [this]
  · have : ¬ (idx ≥ size - 1) := by omega
    simp [this]

theorem prev_spec (size idx : Nat) :
    (idx = 0 → prevIndex size idx = size - 1) ∧ (0 < idx → prevIndex size idx = idx - 1) := by
  unfold prevIndex; constructor <;> intro h
  · simp [h]
  · have : ¬ (idx = 0) := by omega
    simp [this]

theorem getD_set' (l : List α) (j k : Nat) (v d : α) :
    (l.set j v).getD k d = if j = k ∧ k < l.length then v else l.getD k d := by
  simp only [List.getD_eq_getElem?_getD, List.getElem?_set]
  by_cases h : j = k
  · subst h
    by_cases h2 : j < l.length
    · simp [h2]
    · simp [h2]
  · simp [h]

theorem getD_set_ne (l : List α) (j k : Nat) (v d : α) (h : j ≠ k) : (l.set j v).getD k d = l.getD k d := by
  rw [getD_set']; simp [h]

theorem getD_set_eq (l : List α) (j : Nat) (v d : α) (h : j < l.length) : (l.set j v).getD j d = v := by
  rw [getD_set']; simp [h]

/-! ## invariant -/

/-- slot `j` holds a visible item -/
def inWin (q : Ring α) (j : Nat) : Prop :=
  (q.head ≤ j ∧ j < q.head + q.count) ∨ j + q.size < q.head + q.count

/-- the representation invariant of a `Queue` between two public calls -/
structure Inv (q : Ring α) : Prop where
  cnt : q.count ≤ q.size
  hd : 0 < q.size → q.head < q.size
  tl : 0 < q.count → q.tail = internalizeIndex q.head q.size (q.count - 1)
  sb : q.kind ≠ .small → q.sbuf.length = c.sq
  sm : q.kind = .small → q.size = c.sq
  nl : q.kind = .null → q.size = 0

/-- owning item types: every slot outside the window, and the unused inline buffer, hold the default item -/
structure Clean (q : Ring α) : Prop where
  slots : ∀ j, j < q.size → ¬ inWin q j → q.slots.getD j c.junk = c.dflt
  sbuf : q.kind ≠ .small → ∀ j, j < c.sq → q.sbuf.getD j c.junk = c.dflt

/-! ## abstraction -/

@[simp] theorem abs_length (q : Ring α) : (q.abs c).length = q.count := by simp [Ring.abs]

theorem abs_getElem (q : Ring α) (i : Nat) (h : i < (q.abs c).length) : (q.abs c)[i] = q.get c i := by
  simp [Ring.abs]

theorem abs_getD (q : Ring α) (i : Nat) (h : i < q.count) (d : α) : (q.abs c).getD i d = q.get c i := by
  have h' : i < (q.abs c).length := by simpa using h
  rw [List.getD_eq_getElem?_getD, List.getElem?_eq_getElem h', Option.getD_some, abs_getElem]

/-- two views agree as soon as they agree item by item -/
theorem abs_eq (q : Ring α) (l : List α) (hl : q.count = l.length)
    (h : ∀ i (hi : i < l.length), q.get c i = l[i]) : q.abs c = l := by
  apply List.ext_getElem
  · simp [hl]
  · intro i h1 h2
    rw [abs_getElem]; exact h i h2

theorem abs_congr (q q' : Ring α) (hc : q'.count = q.count) (h : ∀ i, i < q.count → q'.get c i = q.get c i) :
    q'.abs c = q.abs c := by
  apply abs_eq
  · simp [hc]
  · intro i hi
    rw [abs_getElem]; exact h i (by simpa using hi)

theorem get_def (q : Ring α) (i : Nat) : q.get c i = q.slots.getD (internalizeIndex q.head q.slots.length i) c.junk := rfl

/-! ## single-item operations -/

theorem getItemAt_refines (q : Ring α) (i : Nat) : q.getItemAt c i = Spec.getItemAt (q.abs c) i := by
  unfold Ring.getItemAt Spec.getItemAt
  by_cases h : i < q.count
  · have h' : i < (q.abs c).length := by simpa using h
    simp [h, List.getElem?_eq_getElem h', abs_getElem]
  · have h' : (q.abs c).length ≤ i := by simp; omega
    simp [h, List.getElem?_eq_none h']

theorem get_put (q : Ring α) (hI : Inv c q) (i k : Nat) (v : α) (hi : i < q.size) (hk : k < q.size) :
    (q.put i v).get c k = if i = k then v else q.get c k := by
  have a := intern_spec q.head q.size i
  have b := intern_spec q.head q.size k
  have hh := hI.hd (by omega)
  simp only [Ring.put, Ring.get, Ring.phys, Ring.size, List.length_set] at *
  rw [getD_set']
  by_cases e : i = k
  · subst e
    have : internalizeIndex q.head q.slots.length i < q.slots.length := by omega
    simp [this]
  · have : internalizeIndex q.head q.slots.length i ≠ internalizeIndex q.head q.slots.length k := by omega
    simp [this, e]

theorem replaceItemAt_refines (q : Ring α) (hI : Inv c q) (i : Nat) (v : α) :
    ((q.replaceItemAt i v).1.abs c, (q.replaceItemAt i v).2) = Spec.replaceItemAt (q.abs c) i v := by
  unfold Ring.replaceItemAt Spec.replaceItemAt
  by_cases h : i ≥ q.count
  · simp [h]
  · have hc := hI.cnt
    simp only [h, abs_length, if_false, Prod.mk.injEq, and_true]
    apply abs_eq
    · simp [Ring.put]
    · intro k hk
      simp only [List.length_set, abs_length] at hk
      rw [get_put c q hI i k v (by omega) (by omega), List.getElem_set]
      by_cases e : i = k
      · simp [e]
      · simp [e, abs_getElem]

theorem inv_put (q : Ring α) (hI : Inv c q) (i : Nat) (v : α) : Inv c (q.put i v) := by
  constructor
  · simpa [Ring.put, Ring.size] using hI.cnt
  · simpa [Ring.put, Ring.size] using hI.hd
  · simpa [Ring.put, Ring.size] using hI.tl
  · simpa [Ring.put, Ring.size] using hI.sb
  · simpa [Ring.put, Ring.size] using hI.sm
  · simpa [Ring.put, Ring.size] using hI.nl

theorem removeHead_refines (q : Ring α) (hI : Inv c q) :
    ((q.removeHead c).1.abs c, (q.removeHead c).2) = Spec.removeHead (q.abs c) := by
  unfold Ring.removeHead Spec.removeHead
  by_cases h : q.count = 0
  · simp [h]
  · have hc := hI.cnt
    have hh := hI.hd (by omega)
    simp only [h, abs_length, if_false, Prod.mk.injEq, and_true]
    apply abs_eq
    · cases c.clear <;> simp
    · intro k hk
      simp only [List.length_drop, abs_length] at hk
      rw [List.getElem_drop, abs_getElem]
      have a := intern_spec (nextIndex q.size q.head) q.size k
      have b := intern_spec q.head q.size (1 + k)
      have n := next_spec q.size q.head
      simp only [Ring.size] at *
      cases hcl : c.clear
      · simp only [get_def, Bool.false_eq_true, if_false]
        congr 1; omega
      · simp only [get_def, if_true, List.length_set]
        rw [getD_set_ne]
        · congr 1; omega
        · omega

theorem inv_removeHead (q : Ring α) (hI : Inv c q) : Inv c (q.removeHead c).1 := by
  unfold Ring.removeHead
  by_cases h : q.count = 0
  · simp [h]; exact hI
  · have hc := hI.cnt
    have hh := hI.hd (by omega)
    have ht := hI.tl (by omega)
    have n := next_spec q.size q.head
    have a := intern_spec q.head q.size (q.count - 1)
    have b := intern_spec (nextIndex q.size q.head) q.size (q.count - 1 - 1)
    simp only [h, if_false]
    cases hcl : c.clear <;> simp only [Bool.false_eq_true, if_false, if_true] <;>
    · constructor
      · simp [Ring.size] at *; omega
      · intro _; simp [Ring.size] at *; omega
      · intro h0; simp [Ring.size] at *; omega
      · simpa using hI.sb
      · simpa [Ring.size] using hI.sm
      · simpa [Ring.size] using hI.nl

theorem removeTail_refines (q : Ring α) (hI : Inv c q) :
    ((q.removeTail c).1.abs c, (q.removeTail c).2) = Spec.removeTail (q.abs c) := by
  unfold Ring.removeTail Spec.removeTail
  by_cases h : q.count = 0
  · simp [h]
  · have hc := hI.cnt
    have hh := hI.hd (by omega)
    have ht := hI.tl (by omega)
    simp only [h, abs_length, if_false, Prod.mk.injEq, and_true]
    apply abs_eq
    · cases c.clear <;> simp <;> omega
    · intro k hk
      simp only [List.length_take, abs_length] at hk
      rw [List.getElem_take, abs_getElem]
      have a := intern_spec q.head q.size k
      have b := intern_spec q.head q.size (q.count - 1)
      simp only [Ring.size] at *
      cases hcl : c.clear
      · simp only [get_def, Bool.false_eq_true, if_false]
      · simp only [get_def, if_true, List.length_set]
        rw [getD_set_ne]
        omega

theorem inv_removeTail (q : Ring α) (hI : Inv c q) : Inv c (q.removeTail c).1 := by
  unfold Ring.removeTail
  by_cases h : q.count = 0
  · simp [h]; exact hI
  · have hc := hI.cnt
    have hh := hI.hd (by omega)
    have ht := hI.tl (by omega)
    have p := prev_spec q.size q.tail
    have a := intern_spec q.head q.size (q.count - 1)
    have b := intern_spec q.head q.size (q.count - 1 - 1)
    simp only [h, if_false]
    cases hcl : c.clear <;> simp only [Bool.false_eq_true, if_false, if_true] <;>
    · constructor
      · simp [Ring.size] at *; omega
      · intro _; simp [Ring.size] at *; omega
      · intro h0; simp [Ring.size] at *; omega
      · simpa using hI.sb
      · simpa [Ring.size] using hI.sm
      · simpa [Ring.size] using hI.nl


/-! ## growth -/

theorem overwritePrefix_length (buf xs : List α) : (overwritePrefix buf xs).length = xs.length + (buf.length - xs.length) := by
  simp [overwritePrefix]

theorem overwritePrefix_getD (buf xs : List α) (i : Nat) (d : α) (h : i < xs.length) :
    (overwritePrefix buf xs).getD i d = xs.getD i d := by
  simp only [overwritePrefix, List.getD_eq_getElem?_getD]
  rw [List.getElem?_append_left h]

theorem fresh_length (n : Nat) : (fresh c n).length = n := by simp [fresh]

/-- `EnsureSize(n, false, extra, allowShrink)`: only the capacity changes -/
theorem ensure_nosn (q : Ring α) (hI : Inv c q) (n extra : Nat) (shrink : Bool) (hp : shrink = true → q.count ≤ n) :
    Inv c (q.ensureSizeAux c n false extra shrink) ∧ (q.ensureSizeAux c n false extra shrink).abs c = q.abs c ∧
    (q.ensureSizeAux c n false extra shrink).count = q.count ∧ (shrink = false → n ≤ (q.ensureSizeAux c n false extra shrink).size) := by
  unfold Ring.ensureSizeAux
  simp only [Bool.false_eq_true, false_and, if_false]
  have hc := hI.cnt
  by_cases hcond : q.kind = .null ∨ (if shrink = true then q.size ≠ n + extra else q.size < n)
  · rw [if_pos hcond]
    -- the new array
    have hcnt : q.count ≤ n ∨ q.kind = .null ∨ (shrink = false ∧ q.size < n) := by
      cases shrink
      · simp only [Bool.false_eq_true, if_false] at hcond
        rcases hcond with h | h
        · exact Or.inr (Or.inl h)
        · exact Or.inr (Or.inr ⟨rfl, h⟩)
      · left; exact hp rfl
    have hcn : q.count ≤ n := by
      rcases hcnt with h | h | h
      · exact h
      · have := hI.nl h; omega
      · omega
    refine ⟨?_, ?_, rfl, ?_⟩
    · constructor
      · simp only [Ring.size, overwritePrefix_length, abs_length]; omega
      · intro _; simp only [Ring.size, overwritePrefix_length, abs_length] at *; omega
      · intro h0
        have a := intern_spec 0 (overwritePrefix (if (!(decide (q.kind = Kind.small) || decide (max c.sq (n + extra) > c.sq))) = true then q.sbuf else fresh c (max c.sq (n + extra))) (q.abs c)).length (q.count - 1)
        simp only [Ring.size, overwritePrefix_length, abs_length] at *
        omega
      · intro hk
        by_cases hs : q.kind = .small
        · simp only [hs, if_true]
          cases c.clear
          · simpa [Ring.size] using hI.sm hs
          · simp
        · simp only [hs, if_false]; exact hI.sb hs
      · intro hk
        by_cases hs : q.kind = .small
        · simp [hs] at hk
        · by_cases hg : max c.sq (n + extra) > c.sq
          · simp [hs, hg] at hk
          · have hsb := hI.sb hs
            simp only [hs, hg, decide_false, Bool.or_self, Bool.not_false, if_true, Ring.size, overwritePrefix_length, abs_length, hsb]
            have : n + extra ≤ c.sq := by omega
            omega
      · intro hk
        by_cases hs : q.kind = .small
        · simp [hs] at hk
        · by_cases hg : max c.sq (n + extra) > c.sq
          · simp [hs, hg] at hk
          · simp [hs, hg] at hk
    · apply abs_congr
      · rfl
      · intro i hi
        simp only [get_def, overwritePrefix_length, abs_length]
        have a := intern_spec 0 (q.count + ((if (!(decide (q.kind = Kind.small) || decide (max c.sq (n + extra) > c.sq))) = true then q.sbuf else fresh c (max c.sq (n + extra))).length - q.count)) i
        have b : internalizeIndex 0 (q.count + ((if (!(decide (q.kind = Kind.small) || decide (max c.sq (n + extra) > c.sq))) = true then q.sbuf else fresh c (max c.sq (n + extra))).length - q.count)) i = i := by omega
        rw [b, overwritePrefix_getD _ _ _ _ (by simpa using hi), abs_getD c q i hi, get_def]
    · intro hs
      by_cases hk : q.kind = .small
      · simp only [hk, Ring.size, overwritePrefix_length, abs_length, decide_true, Bool.true_or, Bool.not_true, Bool.false_eq_true, if_false, fresh_length]
        omega
      · by_cases hg : max c.sq (n + extra) > c.sq
        · simp only [hk, hg, Ring.size, overwritePrefix_length, abs_length, decide_true, decide_false, Bool.or_true, Bool.not_true, Bool.false_eq_true, if_false, fresh_length]
          omega
        · have hsb := hI.sb hk
          simp only [hk, hg, decide_false, Bool.or_self, Bool.not_false, if_true, Ring.size, overwritePrefix_length, abs_length, hsb]
          omega
  · rw [if_neg hcond]
    refine ⟨hI, rfl, rfl, ?_⟩
    intro hs
    subst hs
    simp at hcond
    omega


/-- the part of `AddTailAndGet` after `EnsureSizeAux`, on a queue with a free slot -/
theorem pushTail (q1 : Ring α) (hI : Inv c q1) (hfree : q1.count < q1.size) (v : α) :
    let q2 : Ring α := if q1.count = 0 then { q1 with head := 0, tail := 0 } else { q1 with tail := nextIndex q1.size q1.tail }
    let q3 : Ring α := { q2 with count := q2.count + 1 }
    let q4 : Ring α := { q3 with slots := q3.slots.set q3.tail v }
    Inv c q4 ∧ q4.abs c = q1.abs c ++ [v] := by
  intro q2 q3 q4
  have hc := hI.cnt
  by_cases h0 : q1.count = 0
  · have e2 : q2 = { q1 with head := 0, tail := 0 } := by simp [q2, h0]
    have e4 : q4 = { q1 with head := 0, tail := 0, count := 1, slots := q1.slots.set 0 v } := by
      simp [q4, q3, e2, h0]
    rw [e4]
    have a := intern_spec 0 q1.size 0
    refine ⟨?_, ?_⟩
    · constructor
      · simp [Ring.size] at *; omega
      · intro _; simp [Ring.size] at *; omega
      · intro _; simp [Ring.size] at *; omega
      · simpa using hI.sb
      · simpa [Ring.size] using hI.sm
      · simpa [Ring.size] using hI.nl
    · apply abs_eq
      · simp [h0]
      · intro i hi
        have hl : (q1.abs c) = [] := by apply List.eq_nil_of_length_eq_zero; simp [h0]
        simp only [hl, List.nil_append, List.length_singleton] at hi ⊢
        have : i = 0 := by omega
        subst this
        simp only [get_def, List.length_set, List.getElem_singleton]
        simp only [Ring.size] at a hfree
        rw [a.1 (by omega)]
        exact getD_set_eq _ _ _ _ (by omega)
  · have hh := hI.hd (by omega)
    have ht := hI.tl (by omega)
    have e4 : q4 = { q1 with tail := nextIndex q1.size q1.tail, count := q1.count + 1,
                             slots := q1.slots.set (nextIndex q1.size q1.tail) v } := by
      simp [q4, q3, q2, h0]
    rw [e4]
    have a := intern_spec q1.head q1.size (q1.count - 1)
    have b := intern_spec q1.head q1.size q1.count
    have n := next_spec q1.size q1.tail
    have hnt : nextIndex q1.size q1.tail = internalizeIndex q1.head q1.size q1.count := by omega
    refine ⟨?_, ?_⟩
    · constructor
      · simp [Ring.size] at *; omega
      · intro _; simp [Ring.size] at *; omega
      · intro _; simp [Ring.size] at *; omega
      · simpa using hI.sb
      · simpa [Ring.size] using hI.sm
      · simpa [Ring.size] using hI.nl
    · apply abs_eq
      · simp
      · intro i hi
        simp only [List.length_append, abs_length, List.length_singleton] at hi
        have d := intern_spec q1.head q1.size i
        simp only [get_def, List.length_set]
        simp only [Ring.size] at *
        rw [hnt]
        by_cases hi2 : i < q1.count
        · rw [List.getElem_append_left (by simpa using hi2), abs_getElem, get_def, getD_set_ne]
          omega
        · have : i = q1.count := by omega
          subst this
          rw [List.getElem_append_right (by simp)]
          simp only [abs_length, Nat.sub_self, List.getElem_singleton]
          exact getD_set_eq _ _ _ _ (by omega)

/-- `AddTail(item)` appends -/
theorem addTail_refines (q : Ring α) (hI : Inv c q) (v : α) :
    Inv c (q.addTail c v) ∧ (q.addTail c v).abs c = Spec.addTail (q.abs c) v := by
  obtain ⟨hI1, habs, hcnt, hsz⟩ := ensure_nosn c q hI (q.count + 1) (q.count + 1) false (by simp)
  have := pushTail c _ hI1 (by have := hsz rfl; omega) v
  simp only [habs] at this
  exact this

/-- the part of `AddHeadAndGet` after `EnsureSizeAux`, on a queue with a free slot -/
theorem pushHead (q1 : Ring α) (hI : Inv c q1) (hfree : q1.count < q1.size) (v : α) :
    let q2 : Ring α := if q1.count = 0 then { q1 with head := 0, tail := 0 } else { q1 with head := prevIndex q1.size q1.head }
    let q3 : Ring α := { q2 with count := q2.count + 1 }
    let q4 : Ring α := { q3 with slots := q3.slots.set q3.head v }
    Inv c q4 ∧ q4.abs c = v :: q1.abs c := by
  intro q2 q3 q4
  have hc := hI.cnt
  by_cases h0 : q1.count = 0
  · have e4 : q4 = { q1 with head := 0, tail := 0, count := 1, slots := q1.slots.set 0 v } := by
      simp [q4, q3, q2, h0]
    rw [e4]
    have a := intern_spec 0 q1.size 0
    refine ⟨?_, ?_⟩
    · constructor
      · simp [Ring.size] at *; omega
      · intro _; simp [Ring.size] at *; omega
      · intro _; simp [Ring.size] at *; omega
      · simpa using hI.sb
      · simpa [Ring.size] using hI.sm
      · simpa [Ring.size] using hI.nl
    · apply abs_eq
      · simp [h0]
      · intro i hi
        have hl : (q1.abs c) = [] := by apply List.eq_nil_of_length_eq_zero; simp [h0]
        simp only [hl, List.length_singleton] at hi ⊢
        have : i = 0 := by omega
        subst this
        simp only [get_def, List.length_set, List.getElem_singleton]
        simp only [Ring.size] at a hfree
        rw [a.1 (by omega)]
        exact getD_set_eq _ _ _ _ (by omega)
  · have hh := hI.hd (by omega)
    have ht := hI.tl (by omega)
    have e4 : q4 = { q1 with head := prevIndex q1.size q1.head, count := q1.count + 1,
                             slots := q1.slots.set (prevIndex q1.size q1.head) v } := by
      simp [q4, q3, q2, h0]
    rw [e4]
    have a := intern_spec q1.head q1.size (q1.count - 1)
    have b := intern_spec (prevIndex q1.size q1.head) q1.size q1.count
    have p := prev_spec q1.size q1.head
    refine ⟨?_, ?_⟩
    · constructor
      · simp [Ring.size] at *; omega
      · intro _; simp [Ring.size] at *; omega
      · intro _; simp [Ring.size] at *; omega
      · simpa using hI.sb
      · simpa [Ring.size] using hI.sm
      · simpa [Ring.size] using hI.nl
    · apply abs_eq
      · simp
      · intro i hi
        simp only [List.length_cons, abs_length] at hi
        have d := intern_spec (prevIndex q1.size q1.head) q1.size i
        simp only [get_def, List.length_set]
        simp only [Ring.size] at *
        cases i with
        | zero =>
          simp only [List.getElem_cons_zero]
          have : internalizeIndex (prevIndex q1.slots.length q1.head) q1.slots.length 0 = prevIndex q1.slots.length q1.head := by omega
          rw [this]
          exact getD_set_eq _ _ _ _ (by omega)
        | succ k =>
          have e := intern_spec q1.head q1.slots.length k
          simp only [List.getElem_cons_succ]
          rw [abs_getElem, get_def, getD_set_ne]
          · congr 1; omega
          · omega

/-- `AddHead(item)` prepends -/
theorem addHead_refines (q : Ring α) (hI : Inv c q) (v : α) :
    Inv c (q.addHead c v) ∧ (q.addHead c v).abs c = Spec.addHead (q.abs c) v := by
  obtain ⟨hI1, habs, hcnt, hsz⟩ := ensure_nosn c q hI (q.count + 1) (q.count + 1) false (by simp)
  have := pushHead c _ hI1 (by have := hsz rfl; omega) v
  simp only [habs] at this
  exact this


/-! ## Clear -/

theorem fillRange_length (l : List α) (s n : Nat) (v : α) : (fillRange l s n v).length = l.length := by
  induction n generalizing l s with
  | zero => simp [fillRange]
  | succ k ih => simp [fillRange, ih]

theorem abs_of_count_zero (q : Ring α) (h : q.count = 0) : q.abs c = [] := by
  apply List.eq_nil_of_length_eq_zero; simp [h]

/-- `Clear(release)` empties the queue -/
theorem clear_refines (q : Ring α) (hI : Inv c q) (rel : Bool) :
    Inv c (q.clear c rel) ∧ (q.clear c rel).abs c = Spec.clear (q.abs c) := by
  refine ⟨?_, ?_⟩
  · unfold Ring.clear Ring.fastClear
    by_cases h1 : rel = true ∧ q.kind ≠ .small
    · simp only [h1, and_self, if_true, ne_eq, not_false_eq_true]
      constructor
      · simp [Ring.size]
      · simp [Ring.size]
      · simp
      · intro _; exact hI.sb h1.2
      · simp
      · simp [Ring.size]
    · rw [if_neg h1]
      by_cases h2 : q.count > 0 ∧ c.clear = true
      · rw [if_pos h2]
        constructor
        · simp
        · intro h; exact h
        · simp
        · simpa using hI.sb
        · intro hk
          have := hI.sm hk
          simp only [Ring.size] at *
          cases q.run 0 <;> cases q.run 1 <;> simp [fillRange_length, this]
        · intro hk
          have := hI.nl hk
          simp only [Ring.size] at *
          cases q.run 0 <;> cases q.run 1 <;> simp [fillRange_length, this]
      · rw [if_neg h2]
        constructor
        · simp
        · intro h; exact h
        · simp
        · simpa using hI.sb
        · simpa [Ring.size] using hI.sm
        · simpa [Ring.size] using hI.nl
  · apply abs_of_count_zero
    unfold Ring.clear Ring.fastClear
    simp

/-! ## Normalize (rotation branch and the trivial case) -/

theorem getD_rot (l : List α) (h i : Nat) (d : α) (hh : h < l.length) (hi : i < l.length) :
    (l.drop h ++ l.take h).getD i d = l.getD (internalizeIndex h l.length i) d := by
  have a := intern_spec h l.length i
  simp only [List.getD_eq_getElem?_getD]
  by_cases hlt : i < l.length - h
  · rw [List.getElem?_append_left (by simpa using hlt), List.getElem?_drop]
    congr 2; omega
  · rw [List.getElem?_append_right (by simp; omega), List.getElem?_take]
    simp only [List.length_drop]
    have : i - (l.length - h) < h := by omega
    simp only [this, if_true]
    congr 2; omega


/-- `Normalize()` when the queue is contiguous already, or too full for the copy branch (rotation of the array) -/
theorem normalize_rot (q : Ring α) (hI : Inv c q) (h : q.isNormalized = true ∨ ¬ (q.count * 2 ≤ q.size)) :
    Inv c (q.normalize c) ∧ (q.normalize c).abs c = q.abs c ∧ (q.normalize c).isNormalized = true := by
  unfold Ring.normalize
  by_cases hn : q.isNormalized = true
  · rw [if_pos hn]; exact ⟨hI, rfl, hn⟩
  · have h2 : ¬ (q.count * 2 ≤ q.size) := by
      rcases h with h | h
      · exact absurd h hn
      · exact h
    simp only [hn, Bool.false_eq_true, if_false, h2]
    have hc := hI.cnt
    have hcp : 0 < q.count := by
      cases hq : q.count with
      | zero => simp [Ring.isNormalized, hq] at hn
      | succ k => omega
    have hh := hI.hd (by omega)
    have hlen : (q.slots.drop q.head ++ q.slots.take q.head).length = q.slots.length := by
      simp only [Ring.size] at hh
      simp only [List.length_append, List.length_drop, List.length_take]; omega
    refine ⟨?_, ?_, ?_⟩
    · constructor
      · simp only [Ring.size, hlen]; exact hc
      · intro _; simp only [Ring.size, hlen] at *; omega
      · intro _
        have a := intern_spec 0 q.size (q.count - 1)
        simp only [Ring.size, hlen] at *; omega
      · simpa using hI.sb
      · simpa only [Ring.size, hlen] using hI.sm
      · simpa only [Ring.size, hlen] using hI.nl
    · apply abs_congr
      · rfl
      · intro i hi
        simp only [get_def, hlen]
        have a := intern_spec 0 q.slots.length i
        simp only [Ring.size] at *
        have : internalizeIndex 0 q.slots.length i = i := by omega
        rw [this, getD_rot _ _ _ _ hh (by omega)]
    · simp [Ring.isNormalized]

/-! ## the operations proved so far, as one step function -/

inductive Op (α : Type) where
  | addTail (v : α) | addHead (v : α) | removeHead | removeTail
  | getItemAt (i : Nat) | replaceItemAt (i : Nat) (v : α)
  | clear (release : Bool) | reserve (n extra : Nat)

inductive Res (α : Type) where
  | ok | err | item (v : α)
  deriving DecidableEq

/-- the real code, one public call -/
def Ring.step (q : Ring α) : Op α → Ring α × Res α
  | .addTail v => (q.addTail c v, .ok)
  | .addHead v => (q.addHead c v, .ok)
  | .removeHead => let r := q.removeHead c; (r.1, if r.2 then .ok else .err)
  | .removeTail => let r := q.removeTail c; (r.1, if r.2 then .ok else .err)
  | .getItemAt i => (q, match q.getItemAt c i with | some v => .item v | none => .err)
  | .replaceItemAt i v => let r := q.replaceItemAt i v; (r.1, if r.2 then .ok else .err)
  | .clear rel => (q.clear c rel, .ok)
  | .reserve n extra => (q.ensureSizeAux c n false extra false, .ok)

namespace Spec
/-- the ideal sequence, one operation -/
def step (l : List α) : Op α → List α × Res α
  | .addTail v => (addTail l v, .ok)
  | .addHead v => (addHead l v, .ok)
  | .removeHead => let r := removeHead l; (r.1, if r.2 then .ok else .err)
  | .removeTail => let r := removeTail l; (r.1, if r.2 then .ok else .err)
  | .getItemAt i => (l, match getItemAt l i with | some v => .item v | none => .err)
  | .replaceItemAt i v => let r := replaceItemAt l i v; (r.1, if r.2 then .ok else .err)
  | .clear _ => (clear l, .ok)
  | .reserve _ _ => (l, .ok)

/-- the ideal operation is undefined: empty sequence, bad index -/
def undefined (l : List α) : Op α → Prop
  | .removeHead => l.length = 0
  | .removeTail => l.length = 0
  | .getItemAt i => l.length ≤ i
  | .replaceItemAt i _ => l.length ≤ i
  | _ => False
end Spec

theorem inv_replaceItemAt (q : Ring α) (hI : Inv c q) (i : Nat) (v : α) : Inv c (q.replaceItemAt i v).1 := by
  unfold Ring.replaceItemAt
  by_cases h : i ≥ q.count
  · simp [h]; exact hI
  · simp [h]; exact inv_put c q hI _ _

theorem step_refines (q : Ring α) (hI : Inv c q) (op : Op α) :
    Inv c (q.step c op).1 ∧ (q.step c op).1.abs c = (Spec.step (q.abs c) op).1 ∧ (q.step c op).2 = (Spec.step (q.abs c) op).2 := by
  cases op with
  | addTail v => exact ⟨(addTail_refines c q hI v).1, (addTail_refines c q hI v).2, rfl⟩
  | addHead v => exact ⟨(addHead_refines c q hI v).1, (addHead_refines c q hI v).2, rfl⟩
  | removeHead =>
    have h := removeHead_refines c q hI
    simp only [Prod.ext_iff] at h
    refine ⟨inv_removeHead c q hI, h.1, ?_⟩
    simp only [Ring.step, Spec.step, h.2]
  | removeTail =>
    have h := removeTail_refines c q hI
    simp only [Prod.ext_iff] at h
    refine ⟨inv_removeTail c q hI, h.1, ?_⟩
    simp only [Ring.step, Spec.step, h.2]
  | getItemAt i =>
    refine ⟨hI, rfl, ?_⟩
    simp only [Ring.step, Spec.step, getItemAt_refines]
  | replaceItemAt i v =>
    have h := replaceItemAt_refines c q hI i v
    simp only [Prod.ext_iff] at h
    refine ⟨inv_replaceItemAt c q hI i v, h.1, ?_⟩
    simp only [Ring.step, Spec.step, h.2]
  | clear rel => exact ⟨(clear_refines c q hI rel).1, (clear_refines c q hI rel).2, rfl⟩
  | reserve n extra =>
    obtain ⟨h1, h2, _, _⟩ := ensure_nosn c q hI n extra false (by simp)
    exact ⟨h1, h2, rfl⟩

theorem step_failure (q : Ring α) (op : Op α) :
    ((q.step c op).2 = .err ↔ Spec.undefined (q.abs c) op) ∧ ((q.step c op).2 = .err → (q.step c op).1 = q) := by
  cases op with
  | addTail v => simp [Ring.step, Spec.undefined]
  | addHead v => simp [Ring.step, Spec.undefined]
  | removeHead =>
    simp only [Ring.step, Spec.undefined, Ring.removeHead, abs_length]
    by_cases h : q.count = 0 <;> simp [h]
  | removeTail =>
    simp only [Ring.step, Spec.undefined, Ring.removeTail, abs_length]
    by_cases h : q.count = 0 <;> simp [h]
  | getItemAt i =>
    simp only [Ring.step, Spec.undefined, Ring.getItemAt, abs_length]
    by_cases h : i < q.count
    · simp [h]
    · simp [h]; all_goals omega
  | replaceItemAt i v =>
    simp only [Ring.step, Spec.undefined, Ring.replaceItemAt, abs_length]
    by_cases h : i ≥ q.count
    · simp [h]; all_goals omega
    · simp [h]; all_goals omega
  | clear rel => simp [Ring.step, Spec.undefined]
  | reserve n extra => simp [Ring.step, Spec.undefined]

theorem inv_empty : Inv c (Ring.empty c) := by
  constructor <;> simp [Ring.empty, Ring.size, fresh]

/-- a whole history on the real code / on the ideal sequence: final state and the list of results -/
def Ring.exec (q : Ring α) : List (Op α) → Ring α × List (Res α)
  | [] => (q, [])
  | op :: ops => let r := q.step c op; let rest := Ring.exec r.1 ops; (rest.1, r.2 :: rest.2)

def Spec.exec (l : List α) : List (Op α) → List α × List (Res α)
  | [] => (l, [])
  | op :: ops => let r := Spec.step l op; let rest := Spec.exec r.1 ops; (rest.1, r.2 :: rest.2)

theorem exec_refines (q : Ring α) (hI : Inv c q) (ops : List (Op α)) :
    Inv c (q.exec c ops).1 ∧ (q.exec c ops).1.abs c = (Spec.exec (q.abs c) ops).1 ∧ (q.exec c ops).2 = (Spec.exec (q.abs c) ops).2 := by
  induction ops generalizing q with
  | nil => exact ⟨hI, rfl, rfl⟩
  | cons op ops ih =>
    obtain ⟨h1, h2, h3⟩ := step_refines c q hI op
    obtain ⟨i1, i2, i3⟩ := ih _ h1
    simp only [Ring.exec, Spec.exec]
    rw [← h2, ← h3]
    exact ⟨i1, i2, by rw [i3]⟩


/-! ## no stale items (owning item types) -/

theorem clean_empty (hcl : c.clear = true) : Clean c (Ring.empty c) := by
  constructor
  · intro j hj; simp [Ring.empty, Ring.size] at hj
  · intro _ j hj
    simp [Ring.empty, fresh, hcl, List.getD_eq_getElem?_getD, hj]

/-- `RemoveHead()` resets the slot it vacates -/
theorem clean_removeHead (hcl : c.clear = true) (q : Ring α) (hI : Inv c q) (hC : Clean c q) : Clean c (q.removeHead c).1 := by
  unfold Ring.removeHead
  by_cases h : q.count = 0
  · simp [h]; exact hC
  · have hc := hI.cnt
    have hh := hI.hd (by omega)
    have n := next_spec q.size q.head
    simp only [h, if_false, hcl, if_true]
    constructor
    · intro j hj hw
      simp only [Ring.size, List.length_set, inWin] at *
      rw [getD_set']
      by_cases e : q.head = j
      · simp [e, hj]
      · simp only [e, false_and, if_false]
        apply hC.slots j hj
        simp only [inWin, Ring.size]
        omega
    · exact hC.sbuf

/-- `RemoveTail()` resets the slot it vacates -/
theorem clean_removeTail (hcl : c.clear = true) (q : Ring α) (hI : Inv c q) (hC : Clean c q) : Clean c (q.removeTail c).1 := by
  unfold Ring.removeTail
  by_cases h : q.count = 0
  · simp [h]; exact hC
  · have hc := hI.cnt
    have hh := hI.hd (by omega)
    have ht := hI.tl (by omega)
    have a := intern_spec q.head q.size (q.count - 1)
    simp only [h, if_false, hcl, if_true]
    constructor
    · intro j hj hw
      simp only [Ring.size, List.length_set, inWin] at *
      rw [getD_set']
      by_cases e : q.tail = j
      · simp [e, hj]
      · simp only [e, false_and, if_false]
        apply hC.slots j hj
        simp only [inWin, Ring.size]
        omega
    · exact hC.sbuf

/-- a write to a visible item keeps the hidden slots as they are -/
theorem clean_put (q : Ring α) (hI : Inv c q) (hC : Clean c q) (i : Nat) (hi : i < q.count) (v : α) : Clean c (q.put i v) := by
  have hc := hI.cnt
  have hh := hI.hd (by omega)
  have a := intern_spec q.head q.size i
  constructor
  · intro j hj hw
    simp only [Ring.put, Ring.size, Ring.phys, List.length_set, inWin] at *
    rw [getD_set_ne]
    · exact hC.slots j hj (by simpa only [inWin, Ring.size] using hw)
    · omega
  · exact hC.sbuf


/-- `EnsureSize(n, true)` growing in place (no reallocation) on an owning item type: the items that become
    visible are default items — no stale item can re-appear -/
theorem ensure_grow_inplace_clean (hcl : c.clear = true) (q : Ring α) (hI : Inv c q) (hC : Clean c q) (n : Nat)
    (hk : q.kind ≠ .null) (hn : n ≤ q.size) (hg : q.count < n) :
    (q.ensureSizeAux c n true 0 false).abs c = Spec.ensureSize c.dflt (q.abs c) n true := by
  have hc := hI.cnt
  have hh := hI.hd (by omega)
  have hcond : ¬ (q.kind = .null ∨ (if false = true then q.size ≠ n + 0 else q.size < n)) := by
    simp only [Bool.false_eq_true, if_false]; intro h; rcases h with h | h
    · exact hk h
    · omega
  unfold Ring.ensureSizeAux Spec.ensureSize
  rw [if_neg hcond]
  simp only [if_true, hcl, abs_length, hg, gt_iff_lt]
  apply abs_eq
  · simp; omega
  · intro i hi
    simp only [List.length_append, abs_length, List.length_replicate] at hi
    have a := intern_spec q.head q.size i
    by_cases h1 : i < q.count
    · rw [List.getElem_append_left (by simpa using h1), abs_getElem]; rfl
    · rw [List.getElem_append_right (by simp; omega)]
      simp only [List.getElem_replicate, get_def]
      apply hC.slots
      · simp only [Ring.size] at *; omega
      · simp only [inWin, Ring.size] at *; omega

end Muscle.Containers
