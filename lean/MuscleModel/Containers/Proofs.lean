import MuscleModel.Containers.HTab

/-! Lemmas about the association-list layer (`OMap`): lookup, erase, setVal, insertAt, permutations. -/

set_option linter.unusedSectionVars false
set_option linter.unusedSimpArgs false
set_option linter.unusedVariables false

namespace Muscle.Containers
variable {K V : Type} [DecidableEq K]

@[simp] theorem keys_nil : keys ([] : OMap K V) = [] := rfl
@[simp] theorem keys_cons (p : K × V) (m : OMap K V) : keys (p :: m) = p.1 :: keys m := rfl
@[simp] theorem keys_append (a b : OMap K V) : keys (a ++ b) = keys a ++ keys b := by simp [keys]
@[simp] theorem length_keys (m : OMap K V) : (keys m).length = m.length := by simp [keys]

theorem get_cons_eq {a k : K} (b : V) (r : OMap K V) (h : a = k) : get ((a, b) :: r) k = some b := by simp [get, h]
theorem get_cons_ne {a k : K} (b : V) (r : OMap K V) (h : a ≠ k) : get ((a, b) :: r) k = get r k := by simp [get, h]
theorem erase_cons_eq {p : K × V} {k : K} (r : OMap K V) (h : p.1 = k) : erase (p :: r) k = erase r k := by
  simp [erase, List.filter_cons, h]
theorem erase_cons_ne {p : K × V} {k : K} (r : OMap K V) (h : p.1 ≠ k) : erase (p :: r) k = p :: erase r k := by
  simp [erase, List.filter_cons, h]
theorem setVal_cons_eq {p : K × V} {k : K} (v : V) (r : OMap K V) (h : p.1 = k) : setVal (p :: r) k v = (k, v) :: setVal r k v := by
  simp [setVal, h]
theorem setVal_cons_ne {p : K × V} {k : K} (v : V) (r : OMap K V) (h : p.1 ≠ k) : setVal (p :: r) k v = p :: setVal r k v := by
  simp [setVal, h]

theorem get_eq_none_iff {m : OMap K V} {k : K} : get m k = none ↔ k ∉ keys m := by
  induction m with
  | nil => simp [get]
  | cons p r ih =>
    obtain ⟨a, b⟩ := p
    by_cases h : a = k
    · simp [get, h]
    · rw [get_cons_ne _ _ h, ih]; simp only [keys_cons, List.mem_cons, not_or]; exact ⟨fun hh => ⟨fun e => h e.symm, hh⟩, fun hh => hh.2⟩

theorem has_iff {m : OMap K V} {k : K} : has m k = true ↔ k ∈ keys m := by
  unfold has
  cases hg : get m k with
  | none => simp [get_eq_none_iff.mp hg]
  | some v =>
    simp
    apply Classical.byContradiction
    intro hn
    rw [get_eq_none_iff.mpr hn] at hg
    cases hg

theorem has_false_iff {m : OMap K V} {k : K} : has m k = false ↔ k ∉ keys m := by
  rw [← has_iff]; cases has m k <;> simp

theorem get_isSome_of_mem {m : OMap K V} {k : K} (h : k ∈ keys m) : ∃ v, get m k = some v := by
  cases hg : get m k with
  | none => exact absurd h (get_eq_none_iff.mp hg)
  | some v => exact ⟨v, rfl⟩

theorem mem_of_get {m : OMap K V} {k : K} {v : V} (h : get m k = some v) : (k, v) ∈ m := by
  induction m with
  | nil => simp [get] at h
  | cons p r ih =>
    obtain ⟨a, b⟩ := p
    by_cases hk : a = k
    · simp [get, hk] at h; simp [hk, h]
    · simp [get, hk] at h; exact List.mem_cons_of_mem _ (ih h)

theorem get_of_mem {m : OMap K V} {k : K} {v : V} (hn : (keys m).Nodup) (h : (k, v) ∈ m) : get m k = some v := by
  induction m with
  | nil => cases h
  | cons p r ih =>
    obtain ⟨a, b⟩ := p
    simp only [keys_cons, List.nodup_cons] at hn
    rcases List.mem_cons.mp h with h | h
    · cases h; simp [get]
    · have hk : k ∈ keys r := List.mem_map.mpr ⟨(k, v), h, rfl⟩
      have : a ≠ k := fun e => hn.1 (e ▸ hk)
      simp [get, this, ih hn.2 h]

theorem mem_iff_get {m : OMap K V} {k : K} {v : V} (hn : (keys m).Nodup) : (k, v) ∈ m ↔ get m k = some v :=
  ⟨get_of_mem hn, mem_of_get⟩

/-- lookup only depends on the set of pairs -/
theorem get_perm {m m' : OMap K V} (hp : m.Perm m') (hn : (keys m).Nodup) (k : K) : get m' k = get m k := by
  have hn' : (keys m').Nodup := (List.Perm.nodup_iff (hp.map (fun p : K × V => p.1))).mp hn
  apply Option.ext
  intro v
  rw [← mem_iff_get hn, ← mem_iff_get hn']
  exact hp.symm.mem_iff

theorem keys_perm {m m' : OMap K V} (hp : m.Perm m') : (keys m).Perm (keys m') := hp.map _

theorem nodup_perm {m m' : OMap K V} (hp : m.Perm m') (hn : (keys m).Nodup) : (keys m').Nodup :=
  (keys_perm hp).nodup_iff.mp hn

/- erase -/
theorem keys_erase (m : OMap K V) (k : K) : keys (erase m k) = (keys m).filter (fun x => x ≠ k) := by
  induction m with
  | nil => rfl
  | cons p r ih =>
    by_cases h : p.1 = k
    · simp [erase, List.filter_cons, h] at ih ⊢; exact ih
    · simp [erase, List.filter_cons, h] at ih ⊢; exact ih

theorem nodup_erase {m : OMap K V} (k : K) (hn : (keys m).Nodup) : (keys (erase m k)).Nodup := by
  rw [keys_erase]; exact hn.filter _

theorem not_mem_keys_erase (m : OMap K V) (k : K) : k ∉ keys (erase m k) := by
  rw [keys_erase]; simp

theorem mem_keys_erase {m : OMap K V} {k x : K} : x ∈ keys (erase m k) ↔ x ∈ keys m ∧ x ≠ k := by
  rw [keys_erase]; simp

theorem get_erase_same (m : OMap K V) (k : K) : get (erase m k) k = none :=
  get_eq_none_iff.mpr (not_mem_keys_erase m k)

theorem get_erase_other (m : OMap K V) {k k' : K} (h : k' ≠ k) : get (erase m k) k' = get m k' := by
  induction m with
  | nil => rfl
  | cons p r ih =>
    obtain ⟨a, b⟩ := p
    by_cases ha : a = k
    · have : a ≠ k' := fun e => h (e ▸ ha ▸ rfl)
      rw [erase_cons_eq r (show ((a, b) : K × V).1 = k from ha), get_cons_ne _ _ this, ih]
    · rw [erase_cons_ne r (show ((a, b) : K × V).1 ≠ k from ha)]
      by_cases hk : a = k'
      · rw [get_cons_eq _ _ hk, get_cons_eq _ _ hk]
      · rw [get_cons_ne _ _ hk, get_cons_ne _ _ hk, ih]

theorem erase_of_not_mem {m : OMap K V} {k : K} (h : k ∉ keys m) : erase m k = m := by
  unfold erase
  apply List.filter_eq_self.mpr
  intro p hp
  simp
  intro e
  exact h (List.mem_map.mpr ⟨p, hp, e⟩)

theorem length_erase {m : OMap K V} {k : K} (hn : (keys m).Nodup) (h : k ∈ keys m) : (erase m k).length + 1 = m.length := by
  induction m with
  | nil => cases h
  | cons p r ih =>
    simp only [keys_cons, List.nodup_cons] at hn
    by_cases hp : p.1 = k
    · have : k ∉ keys r := hp ▸ hn.1
      have e : erase (p :: r) k = erase r k := by simp [erase, List.filter_cons, hp]
      rw [e, erase_of_not_mem this]; rfl
    · have hk : k ∈ keys r := by
        rcases List.mem_cons.mp h with h | h
        · exact absurd h.symm hp
        · exact h
      have e : erase (p :: r) k = p :: erase r k := by simp [erase, List.filter_cons, hp]
      rw [e]; simp [ih hn.2 hk]

/- setVal -/
@[simp] theorem keys_setVal (m : OMap K V) (k : K) (v : V) : keys (setVal m k v) = keys m := by
  induction m with
  | nil => rfl
  | cons p r ih =>
    by_cases h : p.1 = k
    · simp [setVal, h] at ih ⊢; exact ih
    · simp [setVal, h] at ih ⊢; exact ih

@[simp] theorem length_setVal (m : OMap K V) (k : K) (v : V) : (setVal m k v).length = m.length := by simp [setVal]

theorem get_setVal_same {m : OMap K V} {k : K} (v : V) (h : k ∈ keys m) : get (setVal m k v) k = some v := by
  induction m with
  | nil => cases h
  | cons p r ih =>
    by_cases ha : p.1 = k
    · rw [setVal_cons_eq v r ha, get_cons_eq _ _ rfl]
    · have hk : k ∈ keys r := by
        rcases List.mem_cons.mp h with h | h
        · exact absurd h.symm ha
        · exact h
      obtain ⟨a, b⟩ := p
      rw [setVal_cons_ne v r ha, get_cons_ne _ _ ha, ih hk]

theorem get_setVal_other (m : OMap K V) {k k' : K} (v : V) (h : k' ≠ k) : get (setVal m k v) k' = get m k' := by
  induction m with
  | nil => rfl
  | cons p r ih =>
    obtain ⟨a, b⟩ := p
    by_cases ha : a = k
    · have : a ≠ k' := fun e => h (e ▸ ha ▸ rfl)
      rw [setVal_cons_eq v r (show ((a, b) : K × V).1 = k from ha), get_cons_ne _ _ (ha ▸ this), get_cons_ne _ _ this, ih]
    · rw [setVal_cons_ne v r (show ((a, b) : K × V).1 ≠ k from ha)]
      by_cases hk : a = k'
      · rw [get_cons_eq _ _ hk, get_cons_eq _ _ hk]
      · rw [get_cons_ne _ _ hk, get_cons_ne _ _ hk, ih]

/- append of a new key -/
theorem get_append_new_same {m : OMap K V} {k : K} (v : V) (h : k ∉ keys m) : get (m ++ [(k, v)]) k = some v := by
  induction m with
  | nil => simp [get]
  | cons p r ih =>
    obtain ⟨a, b⟩ := p
    simp only [keys_cons, List.mem_cons, not_or] at h
    have : a ≠ k := fun e => h.1 e.symm
    simp [get, this]; exact ih h.2

theorem get_append_other (m : OMap K V) {k k' : K} (v : V) (h : k' ≠ k) : get (m ++ [(k, v)]) k' = get m k' := by
  induction m with
  | nil => simp [get]; exact fun e => absurd e.symm h
  | cons p r ih =>
    obtain ⟨a, b⟩ := p
    by_cases hk : a = k'
    · simp [get, hk]
    · simp [get, hk]; exact ih

theorem nodup_append_new {m : OMap K V} {k : K} (v : V) (hn : (keys m).Nodup) (h : k ∉ keys m) :
    (keys (m ++ [(k, v)])).Nodup := by
  simp only [keys_append, keys_cons, keys_nil]
  apply List.nodup_append.mpr
  refine ⟨hn, by simp, ?_⟩
  intro a ha b hb
  simp at hb
  subst hb
  exact fun e => h (e ▸ ha)

/- insertAt -/
theorem keys_insertAt (m : OMap K V) (i : Nat) (p : K × V) :
    keys (insertAt m i p) = (keys m).take i ++ p.1 :: (keys m).drop i := by
  simp [insertAt, keys, List.map_take, List.map_drop]

theorem insertAt_perm (m : OMap K V) (i : Nat) (p : K × V) : (insertAt m i p).Perm (p :: m) := by
  unfold insertAt
  have h : (m.take i ++ p :: m.drop i).Perm (p :: (m.take i ++ m.drop i)) := List.perm_middle
  rwa [List.take_append_drop] at h

@[simp] theorem length_insertAt (m : OMap K V) (i : Nat) (p : K × V) : (insertAt m i p).length = m.length + 1 :=
  (insertAt_perm m i p).length_eq

/-- pulling an entry out and putting it back anywhere is a permutation -/
theorem erase_cons_perm {m : OMap K V} {k : K} {v : V} (hn : (keys m).Nodup) (h : get m k = some v) :
    ((k, v) :: erase m k).Perm m := by
  induction m with
  | nil => simp [get] at h
  | cons p r ih =>
    obtain ⟨a, b⟩ := p
    simp only [keys_cons, List.nodup_cons] at hn
    by_cases ha : a = k
    · subst ha
      simp [get] at h; subst h
      have : erase ((a, b) :: r) a = r := by
        have e : erase ((a, b) :: r) a = erase r a := by simp [erase, List.filter_cons]
        rw [e, erase_of_not_mem hn.1]
      rw [this]
    · simp [get, ha] at h
      have e : erase ((a, b) :: r) k = (a, b) :: erase r k := by simp [erase, List.filter_cons, ha]
      rw [e]
      exact (List.Perm.swap _ _ _).trans ((ih hn.2 h).cons _)

end Muscle.Containers
