import MuscleModel.Base.Bytes

/-!
# The ideal byte string (specification level of C17)

A `muscle::String` value is a NUL-free `Bytes`.  Every public operation of `util/String.{h,cpp}` that the
engine `str` drives is written here as a total list function; the doc comment names the C++ function
it mirrors.  Nothing in this file knows about buffers, capacities or the inline/heap distinction:
that is `Containers/StrBuf.lean`, and `Containers/ProofsStr.lean` shows that the buffer layer refines
this file.

C library functions are mirrored for the "C" locale (`tolower`/`toupper`/`isdigit`/`isspace` act on ASCII
only); `char` is signed (x86-64), which matters only in `natCmp`.
-/

namespace Muscle.Containers.StrSpec
open Muscle

/-- `MUSCLE_NO_LIMIT` -/
def noLimit : Nat := 4294967295

def nulFree (s : Bytes) : Prop := ∀ x ∈ s, x ≠ 0

def nulFreeB (s : Bytes) : Bool := s.all (· != 0)

/-- the bytes a `const char *` sees: up to the first NUL -/
def cstr (m : Bytes) : Bytes := m.takeWhile (· != 0)

def rep : Nat → Bytes → Bytes
  | 0, _ => []
  | n+1, t => t ++ rep n t

/-! ## character classes (C locale) -/

def isDigit (b : UInt8) : Bool := 48 ≤ b && b ≤ 57
def isUpper (b : UInt8) : Bool := 65 ≤ b && b ≤ 90
def isLower (b : UInt8) : Bool := 97 ≤ b && b ≤ 122
/-- `isspace` -/
def isSpaceC (b : UInt8) : Bool := b == 32 || (9 ≤ b && b ≤ 13)
/-- `String::IsSpaceChar` -/
def isSpaceChar (b : UInt8) : Bool := b == 32 || b == 9 || b == 13 || b == 10
/-- `muscleToLower` -/
def lowerB (b : UInt8) : UInt8 := if isUpper b then b + 32 else b
/-- `muscleToUpper` -/
def upperB (b : UInt8) : UInt8 := if isLower b then b - 32 else b
/-- value of a byte as a (signed) `char` -/
def sc (b : UInt8) : Int := if b < 128 then (b.toNat : Int) else (b.toNat : Int) - 256

/-! ## construction, assignment, concatenation -/

/-- `String::SetCstr(str, maxLen)`; `p` is the C string `str` points to -/
def setCstr (p : Bytes) (maxLen : Nat) : Bytes := p.take maxLen

/-- `String::SetFromString(s, first, afterLast)` = `String(s, first, afterLast)` = `s.Substring(first, afterLast)` -/
def substring (s : Bytes) (first afterLast : Nat) : Bytes :=
  let e := min afterLast s.length
  if first < e then (s.drop first).take (e - first) else []

/-- insertion of `t` at `min idx len` (`String::InsertCharsAux` with `insertCount = 1`) -/
def insertAt (s : Bytes) (idx : Nat) (t : Bytes) : Bytes :=
  let i := min idx s.length
  s.take i ++ (t ++ s.drop i)

/-- `String::InsertChars(idx, str, maxCharsToInsert)` (`PrependChars` = idx 0, `AppendChars` = idx `noLimit`),
    also `WithInsert/WithAppend/WithPrepend` for string arguments -/
def insertChars (s : Bytes) (idx : Nat) (p : Bytes) (maxChars : Nat) : Bytes := insertAt s idx (p.take maxChars)

/-- `String::WithInsertAux(idx, c, count)` -/
def insertChar (s : Bytes) (idx : Nat) (c : UInt8) (count : Nat) : Bytes := insertAt s idx (List.replicate count c)

/-- `String::TruncateChars` -/
def truncateChars (s : Bytes) (n : Nat) : Bytes := s.take (s.length - min s.length n)
/-- `String::TruncateToLength` -/
def truncateTo (s : Bytes) (n : Nat) : Bytes := s.take (min s.length n)

/-- `String::PaddedBy(minLength, padOnRight, padChar)` -/
def paddedBy (s : Bytes) (minLen : Nat) (right : Bool) (c : UInt8) : Bytes :=
  if s.length < minLen then
    (if right then insertChar s noLimit c (minLen - s.length) else insertChar s 0 c (minLen - s.length))
  else s

/-! ## searching -/

def optIdx : Option Nat → Int
  | some i => i
  | none => -1

/-- `strstr(hay, t)`: offset (counted from `i`) of the first position where `t` is a prefix -/
def findFrom (t : Bytes) : Bytes → Nat → Option Nat
  | [], i => if t.isEmpty then some i else none
  | c :: r, i => if t.isPrefixOf (c :: r) then some i else findFrom t r (i+1)

/-- `String::IndexOf(const String &/const char *, fromIndex)` -/
def indexOf (s t : Bytes) (fromIdx : Nat) : Int :=
  if fromIdx < s.length then optIdx (findFrom t (s.drop fromIdx) fromIdx) else -1

/-- `String::IndexOf(char, fromIndex)` (for `ch ≠ 0`) -/
def indexOfChar (s : Bytes) (ch : UInt8) (fromIdx : Nat) : Int := indexOf s [ch] fromIdx

/-- the loop `for (i = from; i >= 0; i--) if (strncmp(Cstr()+i, t, tLen) == 0) return i` -/
def downSearch (s t : Bytes) : Nat → Int
  | 0 => if t.isPrefixOf s then 0 else -1
  | i+1 => if t.isPrefixOf (s.drop (i+1)) then ((i+1 : Nat) : Int) else downSearch s t i

/-- `String::LastIndexOf(str, fromIndex)`: note that the code searches DOWNWARDS from `fromIndex` -/
def lastIndexOfFrom (s t : Bytes) (fromIdx : Nat) : Int :=
  if t.isEmpty then (s.length : Int) - 1
  else if s.length ≤ fromIdx then -1
  else downSearch s t fromIdx

/-- `String::LastIndexOf(str)` -/
def lastIndexOf (s t : Bytes) : Int :=
  if t.length ≤ s.length then lastIndexOfFrom s t (s.length - t.length) else -1

/-- last index `≥ lo` (as integers) holding a byte satisfying `p`; `lo` may be negative -/
def lastWhere (p : UInt8 → Bool) (s : Bytes) (lo : Int) : Int :=
  let rec go : Bytes → Nat → Int → Int
    | [], _, acc => acc
    | c :: r, i, acc => go r (i+1) (if p c && lo ≤ (i : Int) then (i : Int) else acc)
  go s 0 (-1)

/-- `String::LastIndexOf(char, fromIndex)` -/
def lastIndexOfChar (s : Bytes) (ch : UInt8) (fromIdx : Nat) : Int :=
  if fromIdx < s.length then lastWhere (· == ch) s fromIdx else -1

def isPrefixCI (t s : Bytes) : Bool := (t.map lowerB).isPrefixOf (s.map lowerB)

/-- forward half of `StrcasestrEx` -/
def findFromCI (t : Bytes) : Bytes → Nat → Option Nat
  | [], _ => none
  | c :: r, i => if isPrefixCI t (c :: r) then some i else findFromCI t r (i+1)

/-- `String::IndexOfIgnoreCase(const String &, f)` (`StrcasestrEx` forwards: no match for an empty needle) -/
def indexOfCI (s t : Bytes) (f : Nat) : Int :=
  if f < s.length ∧ ¬ t.isEmpty then optIdx (findFromCI t (s.drop f) f) else -1

/-- backward half of `StrcasestrEx`: last position `≥ f` -/
def lastFromCI (t : Bytes) : Bytes → Nat → Option Nat
  | [], _ => none
  | c :: r, i =>
    match lastFromCI t r (i+1) with
    | some j => some j
    | none => if isPrefixCI t (c :: r) then some i else none

/-- `String::LastIndexOfIgnoreCase(const String &, f)` -/
def lastIndexOfCI (s t : Bytes) (f : Nat) : Int :=
  if f < s.length ∧ ¬ t.isEmpty then optIdx (lastFromCI t (s.drop f) f) else -1

/-- `String::IndexOfIgnoreCase(char, f)` -/
def indexOfCharCI (s : Bytes) (ch : UInt8) (f : Nat) : Int := indexOfCI s [ch] f

/-- `String::LastIndexOfIgnoreCase(char, f)`: for a non-letter it is `LastIndexOf(ch, f)`; for a letter
    `-1` when `f ≥ Length()`, else the downward loop over `[f, Length())` -/
def lastIndexOfCharCI (s : Bytes) (ch : UInt8) (f : Nat) : Int :=
  if lowerB ch == upperB ch then lastIndexOfChar s ch f
  else if s.length ≤ f then -1
  else lastWhere (fun b => lowerB b == lowerB ch) s f

/-- `StrStartsWith` -/
def startsWith (s t : Bytes) : Bool := t.isPrefixOf s
/-- `StrEndsWith` -/
def endsWith (s t : Bytes) : Bool := t.isSuffixOf s
def startsWithCI (s t : Bytes) : Bool := isPrefixCI t s
def endsWithCI (s t : Bytes) : Bool := (t.map lowerB).isSuffixOf (s.map lowerB)
/-- `String::StartsWith(char)` (`*Cstr() == c`, for `c ≠ 0`) -/
def startsWithChar (s : Bytes) (c : UInt8) : Bool := s.head? == some c
/-- `String::EndsWith(char)` -/
def endsWithChar (s : Bytes) (c : UInt8) : Bool := s.getLast? == some c

/-- `String::GetNumInstancesOf(const String &, fromIndex)`: non-overlapping, left to right -/
def countAux (t : Bytes) : Nat → Bytes → Nat
  | 0, _ => 0
  | _, [] => 0
  | f+1, c :: r => if t.isPrefixOf (c :: r) then 1 + countAux t f ((c :: r).drop t.length) else countAux t f r

def countInstances (s t : Bytes) (fromIdx : Nat) : Nat :=
  if t.isEmpty then 0 else countAux t (s.length + 1) (s.drop fromIdx)

/-- `String::GetNumInstancesOf(char, fromIndex)` -/
def countChar (s : Bytes) (c : UInt8) (fromIdx : Nat) : Nat := ((s.drop fromIdx).filter (· == c)).length

/-! ## comparison -/

/-- sign of `strcmp` (bytes compared as `unsigned char`) -/
def cmpBytes : Bytes → Bytes → Int
  | [], [] => 0
  | [], _ :: _ => -1
  | _ :: _, [] => 1
  | a :: r, b :: q => if a < b then -1 else if b < a then 1 else cmpBytes r q

/-- sign of `strcasecmp` -/
def cmpCI (s t : Bytes) : Int := cmpBytes (s.map lowerB) (t.map lowerB)

/-- `nat_compare_right` -/
def natRight : Bytes → Bytes → Int → Int
  | [], b, bias => if isDigit (b.headD 0) then -1 else bias
  | ca :: a, b, bias =>
    let cb := b.headD 0
    if !isDigit ca && !isDigit cb then bias
    else if !isDigit ca then -1
    else if !isDigit cb then 1
    else natRight a b.tail (if bias != 0 then bias else if ca < cb then -1 else if cb < ca then 1 else 0)

/-- `nat_compare_left` -/
def natLeft : Bytes → Bytes → Int
  | [], b => if isDigit (b.headD 0) then -1 else 0
  | ca :: a, b =>
    let cb := b.headD 0
    if !isDigit ca && !isDigit cb then 0
    else if !isDigit ca then -1
    else if !isDigit cb then 1
    else if ca < cb then -1
    else if cb < ca then 1
    else natLeft a b.tail

/-- the loop of `strnatcmp0` on the remaining parts `ra`, `rb` of `a`, `b` -/
def natLoop (fold : Bool) (a b : Bytes) : Nat → Bytes → Bytes → Int
  | 0, _, _ => 0
  | f+1, ra, rb =>
    let ra := ra.dropWhile isSpaceC
    let rb := rb.dropWhile isSpaceC
    let ca := ra.headD 0
    let cb := rb.headD 0
    let r := if isDigit ca && isDigit cb then (if ca == 48 || cb == 48 then natLeft ra rb else natRight ra rb 0) else 0
    if r != 0 then r
    else if ca == 0 && cb == 0 then cmpBytes a b
    else
      let ca := if fold then upperB ca else ca
      let cb := if fold then upperB cb else cb
      if sc ca < sc cb then -1
      else if sc cb < sc ca then 1
      else natLoop fold a b f ra.tail rb.tail

/-- sign of `NumericAwareStrcmp` / `NumericAwareStrcasecmp` (`strnatcmp0`) -/
def natCmp (fold : Bool) (a b : Bytes) : Int := natLoop fold a b (a.length + b.length + 2) a b

/-! ## substrings, case, trimming -/

/-- `String::Substring(const String & marker)`: the part after the last `marker` (note: for an empty marker
    `LastIndexOf` answers `Length()-1`, so the result is the last character) -/
def substringAfterLast (s m : Bytes) : Bytes :=
  let i := lastIndexOf s m
  if 0 ≤ i then substring s (i.toNat + m.length) noLimit else s

/-- `String::Substring(beginIndex, marker)`: `(uint32) IndexOf(...)` turns "not found" into `noLimit` -/
def substringUntil (s : Bytes) (b : Nat) (m : Bytes) : Bytes :=
  let i := indexOf s m b
  substring s b (if 0 ≤ i then i.toNat else noLimit)

def toLower (s : Bytes) : Bytes := s.map lowerB
def toUpper (s : Bytes) : Bytes := s.map upperB

def isAlnumAscii (b : UInt8) : Bool := isLower b || isUpper b || isDigit b

/-- `String::ToMixedCase` -/
def toMixedAux : Bool → Bytes → Bytes
  | _, [] => []
  | prev, c :: r => (if prev then lowerB c else upperB c) :: toMixedAux (isAlnumAscii c) r
def toMixed (s : Bytes) : Bytes := toMixedAux false s

/-- `String::Trimmed` -/
def trimmed (s : Bytes) : Bytes := (((s.dropWhile isSpaceChar).reverse).dropWhile isSpaceChar).reverse

/-- `String::Reverse` -/
def reverse (s : Bytes) : Bytes := s.reverse

/-! ## words, indentation, escaping, prefixes and suffixes -/

/-- `String::WithInsertedWordAux(insertAtIdx, str, numChars, sep)` with `numChars = strlen(str)`
    (`WithInsertedWord`, `WithAppendedWord` = idx `noLimit`, `WithPrependedWord` = idx 0) -/
def withInsertedWord (s : Bytes) (idx : Nat) (str sep : Bytes) : Bytes :=
  if str.isEmpty then s
  else if sep.isEmpty then insertAt s idx str
  else if s.length ≤ idx then
    (if s.isEmpty || endsWith s sep || startsWith str sep then s else s ++ sep) ++ str
  else if idx = 0 then
    str ++ (if s.isEmpty || startsWith s sep || endsWith str sep then s else sep ++ s)
  else
    let afterStr := s.drop idx
    let ret := s.take idx
    let ret := if !ret.isEmpty && !endsWith ret sep && !startsWith str sep then ret ++ sep else ret
    let ret := ret ++ str
    let ret := if !afterStr.isEmpty && !endsWith ret sep && !startsWith afterStr sep then ret ++ sep else ret
    ret ++ afterStr

/-- the character loop of `String::IndentedBy` -/
def indentAux (pad : Bytes) : Bool → Bytes → Bytes
  | _, [] => []
  | seen, c :: r =>
    if c == 10 || c == 13 then c :: indentAux pad false r
    else if !seen then pad ++ (c :: indentAux pad true r)
    else c :: indentAux pad true r

/-- `String::IndentedBy(numIndentChars, indentChar)` (for `indentChar ≠ 0`) -/
def indentedBy (s : Bytes) (n : Nat) (c : UInt8) : Bytes :=
  if n = 0 then s
  else
    let pad := List.replicate n c
    (if s.head? == some 10 || s.head? == some 13 then pad else []) ++ indentAux pad false s

/-- the character loop of `String::WithCharsEscaped`: `prevEsc` = prevCharWasEscape, `prev` = actualPrevChar -/
def escapeAux (set : Bytes) (esc : UInt8) : Bool → UInt8 → Bytes → Bytes
  | _, _, [] => []
  | prevEsc, prev, cur :: r =>
    let next := r.headD 0
    let ins := !prevEsc && (set.contains cur || (cur == esc && next != 0 && next != esc && !set.contains next))
    let rest := cur :: escapeAux set esc (cur == esc && prev != esc) cur r
    if ins then esc :: rest else rest

/-- `String::WithCharsEscaped(charsToEscape, escapeChar)` (for `escapeChar ≠ 0`) -/
def withCharsEscaped (s set : Bytes) (esc : UInt8) : Bytes :=
  if !(s.any (fun c => set.contains c)) && !(s.contains esc) then s else escapeAux set esc false 0 s

/-- `String::WithSuffix(const String &)` -/
def withSuffix (s t : Bytes) : Bytes := if endsWith s t then s else s ++ t
/-- `String::WithPrefix(const String &)` -/
def withPrefix (s t : Bytes) : Bytes := if startsWith s t then s else t ++ s
/-- `String::WithSuffix(char)` -/
def withSuffixChar (s : Bytes) (c : UInt8) : Bytes := if endsWithChar s c then s else s ++ [c]
/-- `String::WithPrefix(char)` -/
def withPrefixChar (s : Bytes) (c : UInt8) : Bytes := if startsWithChar s c then s else c :: s

/-- the loop `while((maxToRemove > 0)&&(ret.EndsWith(str))) {ret.TruncateChars(str.Length()); --maxToRemove;}` -/
def stripSuffixAux (ci : Bool) (t : Bytes) : Nat → Bytes → Nat → Bytes
  | 0, s, _ => s
  | f+1, s, mx =>
    if mx ≠ 0 ∧ (if ci then endsWithCI s t else endsWith s t) then stripSuffixAux ci t f (s.take (s.length - t.length)) (mx - 1)
    else s

/-- `String::WithoutSuffix(const String &, maxToRemove)` / `WithoutSuffixIgnoreCase` -/
def withoutSuffix (ci : Bool) (s t : Bytes) (mx : Nat) : Bytes :=
  if t.isEmpty then s else stripSuffixAux ci t (s.length + 1) s mx

def stripPrefixAux (ci : Bool) (t : Bytes) : Nat → Bytes → Nat → Bytes
  | 0, s, _ => s
  | f+1, s, mx =>
    if mx ≠ 0 ∧ (if ci then startsWithCI s t else startsWith s t) then stripPrefixAux ci t f (s.drop t.length) (mx - 1)
    else s

/-- `String::WithoutPrefix(const String &, maxToRemove)` / `WithoutPrefixIgnoreCase` -/
def withoutPrefix (ci : Bool) (s t : Bytes) (mx : Nat) : Bytes :=
  if t.isEmpty then s else stripPrefixAux ci t (s.length + 1) s mx

def sameChar (ci : Bool) (a b : UInt8) : Bool := if ci then lowerB a == lowerB b else a == b

/-- number of leading bytes equal to `c`, at most `mx` -/
def leadCount (ci : Bool) (c : UInt8) : Bytes → Nat → Nat
  | [], _ => 0
  | x :: r, mx => if mx ≠ 0 ∧ sameChar ci x c then 1 + leadCount ci c r (mx - 1) else 0

/-- `String::WithoutPrefix(char, maxToRemove)` / `WithoutPrefixIgnoreCase(char, …)` -/
def withoutPrefixChar (ci : Bool) (s : Bytes) (c : UInt8) (mx : Nat) : Bytes := s.drop (leadCount ci c s mx)

/-- `String::WithoutSuffix(char, maxToRemove)` / `WithoutSuffixIgnoreCase(char, …)` -/
def withoutSuffixChar (ci : Bool) (s : Bytes) (c : UInt8) (mx : Nat) : Bytes :=
  s.take (s.length - leadCount ci c s.reverse mx)

/-! ## simultaneous replacement (`Replace(const Hashtable<String,String> &, max)`) -/

/-- `Hashtable::Put`: a new key goes to the end, an existing key keeps its place -/
def tablePut (t : List (Bytes × Bytes)) (k v : Bytes) : List (Bytes × Bytes) :=
  if t.any (fun e => e.1 == k) then t.map (fun e => if e.1 == k then (k, v) else e) else t ++ [(k, v)]

/-- one step of the per-key matcher of `String::ReplaceAux`: `st` = how many bytes of `key` are matched.
    `if (*states[j] != c) states[j] = start; if ((*states[j] == c)&&(*(++states[j]) == 0)) match` —
    on a mismatch the matcher falls back to the start of the key and looks at `c` once more (it is not a
    full string search: `aab` is not found in `aaab`).  Result: new state, and whether the key just ended. -/
def matchStep (key : Bytes) (st : Nat) (c : UInt8) : Nat × Bool :=
  let st1 := if key.getD st 0 != c then 0 else st
  if key.getD st1 0 == c then (st1 + 1, st1 + 1 == key.length) else (st1, false)

/-- all (offset, pair index) matches, in the order the code records them -/
def tableScan (keys : List Bytes) : List Nat → Nat → Bytes → List (Nat × Nat)
  | _, _, [] => []
  | sts, i, c :: r =>
    let stepped := (keys.zip sts).map (fun ks => matchStep ks.1 ks.2 c)
    let hits := ((keys.zip stepped).zipIdx).filterMap (fun e => if e.1.2.2 then some (1 + i - e.1.1.length, e.2) else none)
    hits ++ tableScan keys (stepped.map (·.1)) (i+1) r

/-- `sourceOffsetToPairIndex.Get(i)`: the lowest pair index recorded for offset `i` -/
def pairAt (hits : List (Nat × Nat)) (i : Nat) : Option Nat :=
  (hits.filter (fun h => h.1 == i)).foldl (fun acc h => match acc with | none => some h.2 | some j => some (min j h.2)) none

/-- the assembling loop of `ReplaceAux` -/
def tableBuild (keys vals : List Bytes) (hits : List (Nat × Nat)) : Nat → Nat → Bytes → Nat → Bytes × Nat
  | 0, _, s, _ => (s, 0)
  | _, _, [], _ => ([], 0)
  | f+1, i, c :: r, mx =>
    match (if mx ≠ 0 then pairAt hits i else none) with
    | some j =>
      let klen := (keys.getD j []).length
      let (o, n) := tableBuild keys vals hits f (i + klen) ((c :: r).drop klen) (if mx = noLimit then mx else mx - 1)
      (vals.getD j [] ++ o, n + 1)
    | none => let (o, n) := tableBuild keys vals hits f (i + 1) r mx; (c :: o, n)

/-- `String::Replace(const Hashtable<String,String> & beforeToAfter, maxReplaceCount)`: new value, return value -/
def replaceTable (s : Bytes) (table : List (Bytes × Bytes)) (mx : Nat) : Bytes × Nat :=
  if mx = 0 || table.isEmpty || s.isEmpty then (s, 0)
  else
    let pairs := table.filter (fun e => !e.1.isEmpty)
    let keys := pairs.map (·.1)
    let vals := pairs.map (·.2)
    let hits := tableScan keys (keys.map (fun _ => 0)) 0 s
    if hits.isEmpty then (s, 0)
    else
      let (o, n) := tableBuild keys vals hits (s.length + 1) 0 s mx
      if n = 0 then (s, 0) else (o, n)

/-! ## Levenshtein distance -/

def min3 (a b c : Nat) : Nat := min a (min b c)

/-- one row of `GetLevenshteinDistanceAux`: `cols` are `columns[1..]` of the previous row, `left` the new
    `columns[y-1]`, `diag` the old `columns[y-1]` -/
def levRow (lc : UInt8) : Bytes → List Nat → Nat → Nat → List Nat
  | sc :: sr, col :: cr, left, diag =>
    let v := min3 (col + 1) (left + 1) (diag + (if sc == lc then 0 else 1))
    v :: levRow lc sr cr v col
  | _, _, _, _ => []

/-- the row loop with its early exit `if (columns[shortStringLen] >= maxResult) break` -/
def levLoop (short : Bytes) (mx : Nat) : Bytes → Nat → List Nat → Nat
  | [], x, cols => cols.getLastD x
  | lc :: lr, x, cols =>
    let cols' := levRow lc short cols (x + 1) x
    let last := cols'.getLastD (x + 1)
    if mx ≤ last then last else levLoop short mx lr (x + 1) cols'

/-- `String::GetDistanceTo(other, maxResult)`: the shorter string indexes the columns -/
def distanceTo (a b : Bytes) (mx : Nat) : Nat :=
  let (short, long) := if b.length < a.length then (b, a) else (a, b)
  min (levLoop short mx long 0 ((List.range short.length).map (· + 1))) mx

/-! ## removal (`operator-=`) -/

/-- `operator-=(char)` -/
def removeLastChar (s : Bytes) (c : UInt8) : Bytes :=
  let i := lastIndexOfChar s c 0
  if 0 ≤ i then s.take i.toNat ++ s.drop (i.toNat + 1) else s

/-- `operator-=(const String &)` / `operator-=(const char *)` -/
def removeLast (s t : Bytes) : Bytes :=
  if t.isEmpty then s
  else
    let i := lastIndexOf s t
    if 0 ≤ i then s.take i.toNat ++ s.drop (i.toNat + t.length) else s

/-! ## replacement -/

/-- the loop of `String::Replace(char, char, max, from)` on the part after `from` -/
def replaceCharAux (f r : UInt8) : Bytes → Nat → Bytes × Nat
  | [], _ => ([], 0)
  | c :: q, mx =>
    if mx = 0 then (c :: q, 0)
    else if c == f then let (o, n) := replaceCharAux f r q (mx - 1); (r :: o, n + 1)
    else let (o, n) := replaceCharAux f r q mx; (c :: o, n)

/-- `String::Replace(char, char, maxReplaceCount, fromIndex)`: new value and return value -/
def replaceChar (s : Bytes) (f r : UInt8) (mx fromIdx : Nat) : Bytes × Nat :=
  if f != r && fromIdx < s.length then
    let (o, n) := replaceCharAux f r (s.drop fromIdx) mx
    (s.take fromIdx ++ o, n)
  else (s, 0)

/-- the scan of `String::Replace(const String &, const String &, …)`: left to right, non-overlapping -/
def replAux (rm wm : Bytes) : Nat → Bytes → Nat → Bytes × Nat
  | 0, s, _ => (s, 0)
  | _, [], _ => ([], 0)
  | f+1, c :: q, mx =>
    if mx ≠ 0 ∧ rm.isPrefixOf (c :: q) then
      let (o, n) := replAux rm wm f ((c :: q).drop rm.length) (mx - 1); (wm ++ o, n + 1)
    else let (o, n) := replAux rm wm f q mx; (c :: o, n)

/-- the same scan the way the C++ loop runs it: `strstr` from the read position, copy the gap up to the hit,
    emit `withMe`, continue behind the hit (`ProofsStr.replAux_eq_scanStrstr` shows it equals `replAux`) -/
def scanStrstr (rm wm : Bytes) : Nat → Bytes → Nat → Bytes × Nat
  | 0, q, _ => (q, 0)
  | f+1, q, mx =>
    if mx = 0 then (q, 0)
    else
      match findFrom rm q 0 with
      | none => (q, 0)
      | some k =>
        let (o, n) := scanStrstr rm wm f (q.drop (k + rm.length)) (mx - 1)
        (q.take k ++ (wm ++ o), n + 1)

/-- `String::Replace(replaceMe, withMe, maxReplaceCount, fromIndex)`: new value and return value -/
def replaceStr (s rm wm : Bytes) (mx fromIdx : Nat) : Bytes × Nat :=
  if mx = 0 then (s, 0)
  else if s.length ≤ fromIdx then (s, 0)
  else if rm.isEmpty then (s, 0)
  else if rm == wm then (s, min mx (countInstances s rm fromIdx))
  else
    let (o, n) := replAux rm wm (s.length + 1) (s.drop fromIdx) mx
    (s.take fromIdx ++ o, n)

/-! ## numbers -/

/-- decimal value of a digit string -/
def decVal (d : Bytes) : Nat := d.foldl (fun acc b => acc * 10 + (b.toNat - 48)) 0

/-- `Atoull` : value of the leading digits modulo 2^64 -/
def atoull (s : Bytes) : Nat := decVal (s.takeWhile isDigit) % 18446744073709551616

def digitSuffix (s : Bytes) : Bytes := (s.reverse.takeWhile isDigit).reverse

/-- `String::ParseNumericSuffix(defaultValue)` -/
def parseNumericSuffix (s : Bytes) (dflt : Nat) : Nat :=
  let d := digitSuffix s
  if d.isEmpty then dflt else atoull d % 4294967296

/-- `String::WithoutNumericSuffix(&v)`: the String without its digit suffix, and `v` -/
def withoutNumericSuffix (s : Bytes) : Bytes × Nat :=
  let d := digitSuffix s
  (s.take (s.length - d.length), atoull d % 4294967296)

/-- `String::StartsWithNumber(allowNegativeValues)` -/
def startsWithNumber (s : Bytes) (allowNeg : Bool) : Bool :=
  isDigit (s.headD 0) || (allowNeg && s.headD 0 == 45 && isDigit (s.getD 1 0))

def bytesOfString (s : String) : Bytes := s.toUTF8.toList

/-- text of `printf("%i")`/`"%u"`/`"%lld"`/`"%llu"` for an integer -/
def decimal (v : Int) : Bytes := bytesOfString (toString v)

/-- `(int32)` of a 64-bit unsigned value -/
def toInt32 (v : Nat) : Int :=
  let w := v % 4294967296
  if w < 2147483648 then (w : Int) else (w : Int) - 4294967296

/-- the token scan of `String::ArgAux`: lowest `%N` (or a negative number if there is none) -/
def scanArgs : Nat → Bytes → Int → Int
  | 0, _, lo => lo
  | _, [], lo => lo
  | f+1, c :: r, lo =>
    if c == 37 then
      if isDigit (r.headD 0) then
        let v := toInt32 (atoull r)
        scanArgs f (r.dropWhile isDigit) (if lo < 0 then v else min v lo)
      else scanArgs f r lo
    else scanArgs f r lo

/-- `String::ArgAux(buf)` = `Arg(const String &)`, `Arg(const char *)` -/
def argStr (s buf : Bytes) : Bytes :=
  let lo := scanArgs (s.length + 1) s (-1)
  if 0 ≤ lo then (replaceStr s (37 :: decimal lo) buf noLimit 0).1 else s

/-- `String::Arg(int)` etc. with the default format -/
def argInt (s : Bytes) (v : Int) : Bytes := argStr s (decimal v)

/-! ## flattening -/

/-- `String::Flatten`: the bytes and one NUL; `FlattenedSize() = Length()+1` -/
def flatten (s : Bytes) : Bytes := s ++ [0]

/-- `DataUnflattener::ReadCString` on a bounded view: the C string and the rest of the view, or `none`
    (a NULL return with `B_BAD_DATA`/`B_DATA_NOT_FOUND` flagged on the unflattener) when no NUL is in sight -/
def readCString (v : Bytes) : Option (Bytes × Bytes) :=
  if v.contains 0 then some (v.takeWhile (· != 0), (v.dropWhile (· != 0)).drop 1) else none

/-- `String::Unflatten(DataUnflattener &)`: `s = unflat.ReadCString(); MRETURN_ON_ERROR(unflat.GetStatus());
    return SetCstr(s)` on a fresh unflattener over the view `v`: the new value and the unread rest of the
    view, or `none` (an error status, the String is left alone) when the view holds no NUL — in
    particular when it is empty. -/
def unflatten (v : Bytes) : Option (Bytes × Bytes) :=
  match readCString v with
  | some (s, r) => some (s, r)
  | none => none

end Muscle.Containers.StrSpec
