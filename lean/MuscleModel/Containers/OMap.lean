/-!
# Spec layer of `muscle::Hashtable` (util/Hashtable.h): an ordered map as an association list

`OMap K V := List (K × V)` without duplicate keys, in iteration order (`_iterHeadIdx … _iterTailIdx`).
The bucket chains / `mapTo` indirection are abstracted to "find by key" (`get`); capacities, slot
indices and index widths do not exist at this level (see `Containers/HTWidth.lean` for the index-width
kernel).  Every definition names the C++ function whose observable effect it mirrors.
-/

namespace Muscle.Containers

abbrev OMap (K V : Type) := List (K × V)

section
variable {K V : Type} [DecidableEq K]

/-- iteration order of the keys -/
def keys (m : OMap K V) : List K := m.map (·.1)

/-- `HashtableBase::GetEntry` + `_value`: find by key -/
def get : OMap K V → K → Option V
  | [], _ => none
  | (a, b) :: r, k => if a = k then some b else get r k

/-- `ContainsKey` -/
def has (m : OMap K V) (k : K) : Bool := (get m k).isSome

/-- unlink the entry with key `k` (`RemoveIterationEntry` on the list itself) -/
def erase (m : OMap K V) (k : K) : OMap K V := m.filter (fun p => p.1 ≠ k)

/-- `e->_value = value` for the entry with key `k` -/
def setVal (m : OMap K V) (k : K) (v : V) : OMap K V := m.map (fun p => if p.1 = k then (p.1, v) else p)

/-- `InsertIterationEntry(e, optBehindThis)` expressed by position: `e` becomes the `i`-th entry -/
def insertAt (m : OMap K V) (i : Nat) (p : K × V) : OMap K V := m.take i ++ p :: m.drop i

/-- position of key `k` in the iteration order (`IndexOfKey`); `length` when absent -/
def indexOf : OMap K V → K → Nat
  | [], _ => 0
  | (a, _) :: r, k => if a = k then 0 else indexOf r k + 1

/-- the keys strictly after the first occurrence of `k` -/
def after : List K → K → List K
  | [], _ => []
  | a :: r, k => if a = k then r else after r k

/-- `GetEntryIterNextChecked` by key: the key following `k` in `l` -/
def succIn (l : List K) (k : K) : Option K := (after l k).head?

/-- keys in the direction of travel of an iterator (`HTIT_FLAG_BACKWARDS`) -/
def dirKeys (m : OMap K V) (back : Bool) : List K := if back then (keys m).reverse else keys m

/-- `GetSubsequentEntry(entry, flags)` by key -/
def nbr (m : OMap K V) (back : Bool) (k : K) : Option K := succIn (dirKeys m back) k

/-- `MoveToFrontAux` on the list -/
def toFront (m : OMap K V) (k : K) : OMap K V :=
  match get m k with
  | some v => (k, v) :: erase m k
  | none => m

/-- `MoveToBackAux` on the list -/
def toBack (m : OMap K V) (k : K) : OMap K V :=
  match get m k with
  | some v => erase m k ++ [(k, v)]
  | none => m

/-- `MoveToBeforeAux(e, f)` on the list: unlink `k`, relink just before `f` -/
def toBefore (m : OMap K V) (k f : K) : OMap K V :=
  match get m k with
  | some v => let m' := erase m k; insertAt m' (indexOf m' f) (k, v)
  | none => m

/-- `MoveToBehindAux(e, d)` on the list: unlink `k`, relink just behind `d` -/
def toBehind (m : OMap K V) (k d : K) : OMap K V :=
  match get m k with
  | some v => let m' := erase m k; insertAt m' (indexOf m' d + 1) (k, v)
  | none => m

/-- the general branch of `MoveToPositionAux` (0 < idx < numItems): unlink, walk `idx-1` links from the
    head (or `numItems-idx-1` links from the tail), relink behind that entry: `k` ends at position `idx` -/
def toPos (m : OMap K V) (k : K) (idx : Nat) : OMap K V :=
  match get m k with
  | some v => insertAt (erase m k) idx (k, v)
  | none => m

/-- `SortByEntry`: Simon Tatham's list merge sort taking the left element on `Compare <= 0`, i.e. a
    stable sort; modelled by core's stable `List.mergeSort` with `le a b := ¬ lt b a`. -/
def sortBy (lt : K × V → K × V → Bool) (m : OMap K V) : OMap K V := m.mergeSort (fun a b => !lt b a)

/-- the tail scan of `InsertIterationEntryInOrder` on the reversed list: skip entries `x` with
    `Compare(e, x) < 0`, link `e` behind the first one that is not greater -/
def insRev (lt : K × V → K × V → Bool) (e : K × V) : List (K × V) → List (K × V)
  | [] => [e]
  | x :: r => if lt e x then x :: insRev lt e r else e :: x :: r

/-- `InsertIterationEntryInOrder` with auto-sort enabled -/
def insertInOrder (lt : K × V → K × V → Bool) (e : K × V) (m : OMap K V) : OMap K V :=
  match m with
  | [] => [e]
  | h :: _ => if lt e h then e :: m else (insRev lt e m.reverse).reverse

/-- split at key `k`: entries before, the entry, entries after -/
def splitAtKey : OMap K V → K → Option (OMap K V × (K × V) × OMap K V)
  | [], _ => none
  | p :: r, k =>
    if p.1 = k then some ([], p, r)
    else match splitAtKey r k with
      | some (a, e, b) => some (p :: a, e, b)
      | none => none

/-- does the first / last entry of `l` satisfy `p` (false for the empty list) -/
def headSat (p : K × V → Bool) (l : List (K × V)) : Bool := match l.head? with | some b => p b | none => false
def lastSat (p : K × V → Bool) (l : List (K × V)) : Bool := match l.getLast? with | some b => p b | none => false

/-- `MoveIterationEntryToCorrectPosition`: returns the new order and whether the entry was unlinked
    (`MoveToFrontAux`/`MoveToBeforeAux`/`MoveToBackAux`/`MoveToBehindAux` all unlink here) -/
def repositionM (lt : K × V → K × V → Bool) (m : OMap K V) (k : K) : OMap K V × Bool :=
  match splitAtKey m k with
  | none => (m, false)
  | some (pre, e, post) =>
    if lastSat (fun b => lt e b) pre then                      -- Compare(e, prev) < 0
      if headSat (fun h => lt e h) pre then (e :: (pre ++ post), true)      -- Compare(e, head) < 0: MoveToFrontAux
      else
        -- walk back over the entries greater than e, MoveToBeforeAux(e, first of that run)
        ((pre.reverse.dropWhile (fun x => lt e x)).reverse ++ e :: ((pre.reverse.takeWhile (fun x => lt e x)).reverse ++ post), true)
    else if headSat (fun b => lt b e) post then                -- Compare(e, next) > 0
      if lastSat (fun t => lt t e) post then (pre ++ (post ++ [e]), true)   -- Compare(e, tail) > 0: MoveToBackAux
      else (pre ++ (post.takeWhile (fun x => lt x e) ++ e :: post.dropWhile (fun x => lt x e)), true)
    else (m, false)

/-- `IsEqualTo(rhs, considerOrdering)` -/
def isEqualTo [DecidableEq V] (a b : OMap K V) (ordered : Bool) : Bool :=
  if a.length ≠ b.length then false
  else if ordered then decide (a = b)
  else a.all (fun p => get b p.1 = some p.2)

end
end Muscle.Containers
