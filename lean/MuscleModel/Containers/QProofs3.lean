import MuscleModel.Containers.QProofs2

/-! Lemmas for C16, part 3: the operations that search or reorder by item value. -/

set_option linter.unusedSimpArgs false
set_option linter.unusedVariables false
set_option linter.unusedSectionVars false

namespace Muscle.Containers
variable {α : Type} [DecidableEq α] (c : ItemCfg α)

/-! ## IndexOf / LastIndexOf / RemoveFirstInstanceOf / RemoveLastInstanceOf -/

theorem findUp_spec (n : Nat) (q : Ring α) (v : α) (i : Nat) (h : i + n ≤ q.count) :
    Ring.findUp c q v i n = ((((q.abs c).drop i).take n).findIdx? (fun x => decide (x = v))).map (· + i) := by
  induction n generalizing i with
  | zero => simp [Ring.findUp]
  | succ n ih =>
    have hi : i < (q.abs c).length := by simp; omega
    rw [List.drop_eq_getElem_cons hi, List.take_succ_cons, List.findIdx?_cons, abs_getElem]
    simp only [Ring.findUp]
    by_cases e : q.get c i = v
    · simp [e]
    · simp only [e, if_false, decide_false, Bool.false_eq_true]
      rw [ih (i + 1) (by omega), Option.map_map]
      congr 1; funext k; simp; omega

theorem findDown_spec (n : Nat) (q : Ring α) (v : α) (lo : Nat) (h : lo + n ≤ q.count) :
    Ring.findDown c q v lo n =
      ((((q.abs c).drop lo).take n).reverse.findIdx? (fun x => decide (x = v))).map (fun k => lo + (n - 1 - k)) := by
  induction n with
  | zero => simp [Ring.findDown]
  | succ n ih =>
    have hl : n < ((q.abs c).drop lo).length := by simp; omega
    rw [List.take_succ_eq_append_getElem hl, List.reverse_append, List.reverse_singleton, List.singleton_append,
      List.findIdx?_cons, List.getElem_drop, abs_getElem]
    simp only [Ring.findDown]
    by_cases e : q.get c (lo + n) = v
    · simp [e]
    · simp only [e, if_false, decide_false, Bool.false_eq_true]
      rw [ih (by omega), Option.map_map]
      congr 1; funext k; simp; omega

theorem indexOf_refines (q : Ring α) (v : α) (s e : Nat) : q.indexOf c v s e = Spec.indexOf (q.abs c) v s e := by
  unfold Ring.indexOf Spec.indexOf
  simp only [abs_length]
  by_cases h : s ≥ q.count
  · simp [h]
  · simp only [h, if_false]
    exact findUp_spec c _ q v s (by omega)

theorem lastIndexOf_refines (q : Ring α) (v : α) (s e : Nat) : q.lastIndexOf c v s e = Spec.lastIndexOf (q.abs c) v s e := by
  unfold Ring.lastIndexOf Spec.lastIndexOf
  simp only [abs_length]
  by_cases h : e ≥ q.count
  · simp [h]
  · simp only [h, if_false]
    exact findDown_spec c _ q v e (by omega)

theorem removeFirst_refines (q : Ring α) (hG : Good c q) (v : α) :
    Good c (q.removeFirst c v).1 ∧ ((q.removeFirst c v).1.abs c, (q.removeFirst c v).2) = Spec.removeFirst (q.abs c) v := by
  unfold Ring.removeFirst Spec.removeFirst
  rw [findUp_spec c q.count q v 0 (by omega)]
  have e : ((q.abs c).drop 0).take q.count = q.abs c := by simp [List.take_of_length_le]
  rw [e]
  have m : ∀ o : Option Nat, o.map (· + 0) = o := by intro o; cases o <;> simp
  rw [m]
  cases (q.abs c).findIdx? (fun x => decide (x = v)) with
  | none => exact ⟨hG, rfl⟩
  | some i => exact removeItemAt_refines c q hG i

theorem removeLast_refines (q : Ring α) (hG : Good c q) (v : α) :
    Good c (q.removeLast c v).1 ∧ ((q.removeLast c v).1.abs c, (q.removeLast c v).2) = Spec.removeLast (q.abs c) v := by
  unfold Ring.removeLast Spec.removeLast
  rw [findDown_spec c q.count q v 0 (by omega)]
  have e : ((q.abs c).drop 0).take q.count = q.abs c := by simp [List.take_of_length_le]
  rw [e]
  cases (q.abs c).reverse.findIdx? (fun x => decide (x = v)) with
  | none => exact ⟨hG, rfl⟩
  | some k =>
    simp only [Option.map_some, abs_length, Nat.zero_add]
    exact removeItemAt_refines c q hG _

/-! ## InsertItemAtSortedPosition -/

theorem find?_congr' {β : Type} (L : List β) (p p' : β → Bool) (h : ∀ k, k ∈ L → p k = p' k) : L.find? p = L.find? p' := by
  induction L with
  | nil => rfl
  | cons a t ih =>
    simp only [List.find?_cons]
    rw [h a (by simp), ih (fun k hk => h k (by simp [hk]))]

theorem insertSortedPos_refines (q : Ring α) (hG : Good c q) (lt : α → α → Bool) (v : α) :
    Good c (q.insertSortedPos c lt v).1 ∧
    ((q.insertSortedPos c lt v).1.abs c, (q.insertSortedPos c lt v).2) = Spec.insertSortedPos lt c.junk (q.abs c) v := by
  unfold Ring.insertSortedPos Spec.insertSortedPos
  simp only [abs_length]
  have hf : (List.range q.count).reverse.find? (fun k => ! lt v (q.get c k)) =
      (List.range q.count).reverse.find? (fun k => ! lt v ((q.abs c).getD k c.junk)) := by
    apply find?_congr'
    intro k hk
    have : k < q.count := by simpa using hk
    rw [abs_getD c q k this]
  obtain ⟨h1, h2, h3⟩ := addHead_refines c q hG.1 hG.2 v
  by_cases h : q.count > 0 ∧ ¬ lt v (q.get c 0) = true
  · have h' : q.count > 0 ∧ ¬ lt v ((q.abs c).getD 0 c.junk) = true := by rw [abs_getD c q 0 h.1]; exact h
    rw [if_pos h, if_pos h', hf]
    cases (List.range q.count).reverse.find? (fun k => ! lt v ((q.abs c).getD k c.junk)) with
    | none => exact ⟨⟨h1, h3⟩, by rw [h2]; rfl⟩
    | some k =>
      obtain ⟨g, a⟩ := insertItemAt_refines c q hG (k + 1) v
      exact ⟨g, by rw [a]⟩
  · have h' : ¬ (q.count > 0 ∧ ¬ lt v ((q.abs c).getD 0 c.junk) = true) := by
      intro x; apply h; refine ⟨x.1, ?_⟩; rw [← abs_getD c q 0 x.1 c.junk]; exact x.2
    rw [if_neg h, if_neg h']
    exact ⟨⟨h1, h3⟩, by rw [h2]; rfl⟩


/-! ## RemoveAllInstancesOf -/

theorem getElem?_some_eq {l : List α} {k : Nat} {x : α} (h : l[k]? = some x) : ∃ hk : k < l.length, l[k] = x := by
  have hk : k < l.length := by
    by_cases hk : k < l.length
    · exact hk
    · rw [List.getElem?_eq_none (by omega)] at h; cases h
  refine ⟨hk, ?_⟩
  rw [List.getElem?_eq_getElem hk] at h
  exact Option.some.inj h

theorem collapse_spec (n : Nat) (A : List α) (v : α) (q : Ring α) (hG : Good c q) (r w : Nat)
    (hcnt : q.count = A.length) (hrn : r + n = A.length) (hwr : w ≤ r)
    (hw : w = ((A.take r).filter (fun x => decide (x ≠ v))).length)
    (hlow : ∀ k, k < w → ((A.take r).filter (fun x => decide (x ≠ v)))[k]? = some (q.get c k))
    (hhigh : ∀ k, r ≤ k → k < A.length → A[k]? = some (q.get c k)) :
    Good c (Ring.collapse c q v r w n).1 ∧ (Ring.collapse c q v r w n).1.count = A.length ∧
    (Ring.collapse c q v r w n).2 = (A.filter (fun x => decide (x ≠ v))).length ∧
    ∀ k, k < (Ring.collapse c q v r w n).2 →
      (A.filter (fun x => decide (x ≠ v)))[k]? = some ((Ring.collapse c q v r w n).1.get c k) := by
  induction n generalizing q r w with
  | zero =>
    have hr : r = A.length := by omega
    have ht : A.take r = A := by rw [hr]; simp
    simp only [Ring.collapse]
    rw [ht] at hw hlow
    exact ⟨hG, hcnt, hw, fun k hk => hlow k hk⟩
  | succ n ih =>
    have hrl : r < A.length := by omega
    obtain ⟨_, hx⟩ := getElem?_some_eq (hhigh r (Nat.le_refl _) hrl)
    have htk : A.take (r + 1) = A.take r ++ [q.get c r] := by
      rw [List.take_succ_eq_append_getElem hrl, hx]
    have hc := hG.1.cnt
    have hh := hG.1.hd (by omega)
    simp only [Ring.collapse]
    by_cases e : q.get c r = v
    · simp only [e, if_true]
      have hf : (A.take (r + 1)).filter (fun x => decide (x ≠ v)) = (A.take r).filter (fun x => decide (x ≠ v)) := by
        rw [htk, List.filter_append, e]; simp
      exact ih q hG (r + 1) w hcnt (by omega) (by omega) (by rw [hf]; exact hw) (by rw [hf]; exact hlow)
        (fun k hk1 hk2 => hhigh k (by omega) hk2)
    · simp only [e, if_false]
      have hf : (A.take (r + 1)).filter (fun x => decide (x ≠ v)) = (A.take r).filter (fun x => decide (x ≠ v)) ++ [q.get c r] := by
        rw [htk, List.filter_append]; simp [e]
      by_cases hgt : r > w
      · simp only [hgt, if_true]
        have sp := sameShape_put q w (q.get c r)
        apply ih (q.put w (q.get c r)) (good_put c q hG w (by omega) _) (r + 1) (w + 1) (by rw [sp.2.2.1]; exact hcnt) (by omega) (by omega)
        · rw [hf, List.length_append, List.length_singleton, ← hw]
        · intro k hk
          rw [hf, get_put' c q hh w k _ (by omega) (by omega)]
          by_cases hkw : k < w
          · have : ¬ w = k := by omega
            rw [if_neg this, List.getElem?_append_left (by omega), hlow k hkw]
          · have : w = k := by omega
            rw [if_pos this, List.getElem?_append_right (by omega)]
            have : k - ((A.take r).filter (fun x => decide (x ≠ v))).length = 0 := by omega
            rw [this]; simp
        · intro k hk1 hk2
          rw [get_put' c q hh w k _ (by omega) (by omega)]
          have : ¬ w = k := by omega
          rw [if_neg this]; exact hhigh k (by omega) hk2
      · simp only [hgt, if_false]
        have hrw : r = w := by omega
        apply ih q hG (r + 1) (w + 1) hcnt (by omega) (by omega)
        · rw [hf, List.length_append, List.length_singleton, ← hw]
        · intro k hk
          rw [hf]
          by_cases hkw : k < w
          · rw [List.getElem?_append_left (by omega), hlow k hkw]
          · have hk' : k = w := by omega
            rw [List.getElem?_append_right (by omega)]
            have : k - ((A.take r).filter (fun x => decide (x ≠ v))).length = 0 := by omega
            rw [this, hk', ← hrw]; simp
        · intro k hk1 hk2
          exact hhigh k (by omega) hk2

/-- `RemoveAllInstancesOf(val)` -/
theorem removeAll_refines (q : Ring α) (hG : Good c q) (v : α) :
    Good c (q.removeAll c v).1 ∧ ((q.removeAll c v).1.abs c, (q.removeAll c v).2) = Spec.removeAll (q.abs c) v := by
  unfold Ring.removeAll Spec.removeAll
  dsimp only
  obtain ⟨g, hc1, hw, hk⟩ := collapse_spec c q.count (q.abs c) v q hG 0 0 (by simp) (by simp) (Nat.le_refl _) (by simp)
    (fun k hk => by omega) (fun k _ hk2 => abs_getElem? c q k (by simpa using hk2))
  generalize Ring.collapse c q v 0 0 q.count = res at *
  obtain ⟨q1, w⟩ := res
  simp only at g hc1 hw hk ⊢
  simp only [abs_length] at hc1
  have hle : w ≤ q.count := by
    rw [hw]; have := List.length_filter_le (fun x => decide (x ≠ v)) (q.abs c); simpa using this
  obtain ⟨a1, a2, a3, a4, a5, a6, a7, a8⟩ := iter_removeTail c (q.count - w) q1 g.1 (by omega)
  refine ⟨⟨a1, fun hcl => a8 hcl (g.2 hcl)⟩, ?_⟩
  simp only [abs_length, Prod.mk.injEq]
  refine ⟨?_, by rw [hw]⟩
  rw [a2]
  apply List.ext_getElem?
  intro k
  have e : q1.count - (q.count - w) = w := by omega
  rw [e, List.getElem?_take]
  by_cases hkw : k < w
  · rw [if_pos hkw, abs_getElem? c q1 k (by omega), hk k hkw]
  · rw [if_neg hkw, List.getElem?_eq_none (by omega)]


/-! ## RemoveSortedDuplicateItems / RemoveDuplicateItems -/

theorem dedupLoop_spec (n : Nat) (A : List α) (q : Ring α) (hG : Good c q) (i written : Nat) (W : List α) (L : α)
    (hcnt : q.count = A.length) (hin : i + n = A.length) (hw1 : 1 ≤ written) (hwi : written ≤ i)
    (hW : W.length = written) (hlast : W[written - 1]? = some L)
    (hlow : ∀ k, k < written → W[k]? = some (q.get c k))
    (hhigh : ∀ k, i ≤ k → k < A.length → A[k]? = some (q.get c k)) :
    Good c (Ring.dedupLoop c q i written n).1 ∧ (Ring.dedupLoop c q i written n).1.count = A.length ∧
    (Ring.dedupLoop c q i written n).2 = (W ++ Spec.dedupFrom L (A.drop i)).length ∧
    ∀ k, k < (Ring.dedupLoop c q i written n).2 →
      (W ++ Spec.dedupFrom L (A.drop i))[k]? = some ((Ring.dedupLoop c q i written n).1.get c k) := by
  induction n generalizing q i written W L with
  | zero =>
    have hi : i = A.length := by omega
    have hd : A.drop i = [] := by rw [hi]; simp
    simp only [Ring.dedupLoop, hd, Spec.dedupFrom, List.append_nil]
    exact ⟨hG, hcnt, hW.symm, fun k hk => hlow k hk⟩
  | succ n ih =>
    have hil : i < A.length := by omega
    obtain ⟨_, hx⟩ := getElem?_some_eq (hhigh i (Nat.le_refl _) hil)
    have hdr : A.drop i = q.get c i :: A.drop (i + 1) := by rw [List.drop_eq_getElem_cons hil, hx]
    have hprev : q.get c (written - 1) = L := by
      have := hlow (written - 1) (by omega)
      rw [hlast] at this
      exact (Option.some.inj this).symm
    have hc := hG.1.cnt
    have hh := hG.1.hd (by omega)
    simp only [Ring.dedupLoop, hprev]
    by_cases e : q.get c i = L
    · simp only [e, if_true]
      have hd : Spec.dedupFrom L (A.drop i) = Spec.dedupFrom L (A.drop (i + 1)) := by
        rw [hdr, Spec.dedupFrom, if_pos e]
      rw [hd]
      exact ih q hG (i + 1) written W L hcnt (by omega) hw1 (by omega) hW hlast hlow (fun k hk1 hk2 => hhigh k (by omega) hk2)
    · simp only [e, if_false]
      have hd : W ++ Spec.dedupFrom L (A.drop i) = (W ++ [q.get c i]) ++ Spec.dedupFrom (q.get c i) (A.drop (i + 1)) := by
        rw [hdr, Spec.dedupFrom, if_neg e]; simp
      rw [hd]
      have hW' : (W ++ [q.get c i]).length = written + 1 := by simp [hW]
      have hlast' : (W ++ [q.get c i])[written + 1 - 1]? = some (q.get c i) := by
        rw [List.getElem?_append_right (by omega)]
        have : written + 1 - 1 - W.length = 0 := by omega
        rw [this]; simp
      by_cases hne : written ≠ i
      · rw [if_pos hne]
        have sp := sameShape_put q written (q.get c i)
        apply ih (q.put written (q.get c i)) (good_put c q hG written (by omega) _) (i + 1) (written + 1) _ _
          (by rw [sp.2.2.1]; exact hcnt) (by omega) (by omega) (by omega) hW' hlast'
        · intro k hk
          rw [get_put' c q hh written k _ (by omega) (by omega)]
          by_cases hkw : k < written
          · have : ¬ written = k := by omega
            rw [if_neg this, List.getElem?_append_left (by omega), hlow k hkw]
          · have hk' : written = k := by omega
            rw [if_pos hk', List.getElem?_append_right (by omega)]
            have : k - W.length = 0 := by omega
            rw [this]; simp
        · intro k hk1 hk2
          rw [get_put' c q hh written k _ (by omega) (by omega)]
          have : ¬ written = k := by omega
          rw [if_neg this]; exact hhigh k (by omega) hk2
      · rw [if_neg hne]
        have hwi' : written = i := by omega
        apply ih q hG (i + 1) (written + 1) _ _ hcnt (by omega) (by omega) (by omega) hW' hlast'
        · intro k hk
          by_cases hkw : k < written
          · rw [List.getElem?_append_left (by omega), hlow k hkw]
          · have hk' : k = written := by omega
            rw [List.getElem?_append_right (by omega)]
            have : k - W.length = 0 := by omega
            rw [this, hk', hwi']; simp
        · intro k hk1 hk2
          exact hhigh k (by omega) hk2

theorem dedupFrom_length_le (L : α) (l : List α) : (Spec.dedupFrom L l).length ≤ l.length := by
  induction l generalizing L with
  | nil => simp [Spec.dedupFrom]
  | cons x t ih =>
    simp only [Spec.dedupFrom]
    split
    · have := ih L; simp; omega
    · have := ih x; simp; omega

/-- `RemoveSortedDuplicateItems()` -/
theorem removeSortedDups_refines (q : Ring α) (hG : Good c q) :
    Good c (q.removeSortedDups c).1 ∧
    ((q.removeSortedDups c).1.abs c, (q.removeSortedDups c).2) = Spec.removeSortedDups (q.abs c) := by
  unfold Ring.removeSortedDups Spec.removeSortedDups
  by_cases h0 : q.count = 0
  · simp only [h0, if_true]
    rw [abs_of_count_zero c q h0]
    exact ⟨hG, by simp [Spec.dedupAdj]⟩
  · simp only [h0, if_false]
    have hA : q.abs c = q.get c 0 :: (q.abs c).drop 1 := by
      have h1 : 0 < (q.abs c).length := by simp; omega
      have := List.drop_eq_getElem_cons h1
      simp only [List.drop_zero, Nat.zero_add] at this
      rw [abs_getElem] at this
      exact this
    have hspec : Spec.dedupAdj (q.abs c) = [q.get c 0] ++ Spec.dedupFrom (q.get c 0) ((q.abs c).drop 1) := by
      rw [hA]; simp [Spec.dedupAdj]
    obtain ⟨g, hc1, hw, hk⟩ := dedupLoop_spec c (q.count - 1) (q.abs c) q hG 1 1 [q.get c 0] (q.get c 0) (by simp) (by simp; omega)
      (Nat.le_refl _) (Nat.le_refl _) rfl (by simp)
      (fun k hk => by have : k = 0 := by omega
                      subst this; simp)
      (fun k _ hk2 => abs_getElem? c q k (by simpa using hk2))
    rw [← hspec] at hw hk
    generalize Ring.dedupLoop c q 1 1 (q.count - 1) = res at *
    obtain ⟨q1, w⟩ := res
    simp only at g hc1 hw hk ⊢
    simp only [abs_length] at hc1
    have hle : w ≤ q.count := by
      rw [hw, hspec]
      have := dedupFrom_length_le (q.get c 0) ((q.abs c).drop 1)
      simp at this ⊢; omega
    obtain ⟨e1, e2, e3, _⟩ := ensure_spec c q1 g.1 g.2 w true 0 false
    refine ⟨⟨e1, e3⟩, ?_⟩
    simp only [abs_length, Prod.mk.injEq]
    refine ⟨?_, by rw [hw]⟩
    rw [e2]
    unfold Spec.ensureSize
    have hng : ¬ (w > (q1.abs c).length) := by simp; omega
    simp only [if_true, hng, if_false]
    apply List.ext_getElem?
    intro k
    rw [List.getElem?_take]
    by_cases hkw : k < w
    · rw [if_pos hkw, abs_getElem? c q1 k (by omega), hk k hkw]
    · rw [if_neg hkw, List.getElem?_eq_none (by omega)]

/-- `RemoveDuplicateItems()` = `Sort()` then `RemoveSortedDuplicateItems()` -/
theorem removeDups_refines (q : Ring α) (hG : Good c q) (lt : α → α → Bool) :
    Good c (q.removeDups c lt).1 ∧
    ((q.removeDups c lt).1.abs c, (q.removeDups c lt).2) =
      Spec.removeSortedDups (Spec.sort (stableSort lt) (q.abs c) 0 (q.abs c).length) := by
  unfold Ring.removeDups
  obtain ⟨g, a⟩ := sort_refines c q hG lt 0 q.count
  have := removeSortedDups_refines c (q.sort c lt 0 q.count) g
  rw [a] at this
  simpa using this


/-! ## ReverseItemOrdering -/

theorem swap_get (q : Ring α) (hG : Good c q) (a b k : Nat) (ha : a < q.count) (hb : b < q.count) (hk : k < q.count) :
    (q.swap c a b).get c k = if b = k then q.get c a else if a = k then q.get c b else q.get c k := by
  have hc := hG.1.cnt
  have hh := hG.1.hd (by omega)
  unfold Ring.swap
  have sp := sameShape_put q a (q.get c b)
  have hh1 : (q.put a (q.get c b)).head < (q.put a (q.get c b)).size := by rw [sp.1, sp.2.2.2.2.2]; exact hh
  rw [get_put' c _ hh1 b k _ (by rw [sp.2.2.2.2.2]; omega) (by rw [sp.2.2.2.2.2]; omega),
    get_put' c q hh a k _ (by omega) (by omega)]

theorem revLoop_spec (fuel : Nat) (q : Ring α) (hG : Good c q) (a b : Nat) (hb : b < q.count) (hf : b ≤ a + fuel) :
    Good c (Ring.revLoop c q fuel a b) ∧ (Ring.revLoop c q fuel a b).count = q.count ∧
    ∀ k, k < q.count → (Ring.revLoop c q fuel a b).get c k = if a ≤ k ∧ k ≤ b then q.get c (a + b - k) else q.get c k := by
  induction fuel generalizing q a b with
  | zero =>
    refine ⟨hG, rfl, ?_⟩
    intro k hk
    simp only [Ring.revLoop]
    by_cases h : a ≤ k ∧ k ≤ b
    · rw [if_pos h]; congr 1; omega
    · rw [if_neg h]
  | succ f ih =>
    simp only [Ring.revLoop]
    by_cases hab : a < b
    · rw [if_pos hab]
      obtain ⟨g1, _⟩ := swap_refines c q hG a b (by omega) hb
      have hcs : (q.swap c a b).count = q.count := by simp [Ring.swap, Ring.put]
      obtain ⟨g2, c2, l2⟩ := ih (q.swap c a b) g1 (a + 1) (b - 1) (by rw [hcs]; omega) (by omega)
      refine ⟨g2, by rw [c2, hcs], ?_⟩
      intro k hk
      rw [l2 k (by rw [hcs]; exact hk)]
      by_cases h1 : a + 1 ≤ k ∧ k ≤ b - 1
      · have h2 : a ≤ k ∧ k ≤ b := by omega
        have e : a + 1 + (b - 1) - k = a + b - k := by omega
        rw [if_pos h1, if_pos h2, e, swap_get c q hG a b (a + b - k) (by omega) hb (by omega)]
        have n1 : ¬ b = a + b - k := by omega
        have n2 : ¬ a = a + b - k := by omega
        rw [if_neg n1, if_neg n2]
      · rw [if_neg h1, swap_get c q hG a b k (by omega) hb hk]
        by_cases e1 : b = k
        · have h2 : a ≤ k ∧ k ≤ b := by omega
          rw [if_pos e1, if_pos h2]; congr 1; omega
        · rw [if_neg e1]
          by_cases e2 : a = k
          · have h2 : a ≤ k ∧ k ≤ b := by omega
            rw [if_pos e2, if_pos h2]; congr 1; omega
          · have h2 : ¬ (a ≤ k ∧ k ≤ b) := by omega
            rw [if_neg e2, if_neg h2]
    · rw [if_neg hab]
      refine ⟨hG, rfl, ?_⟩
      intro k hk
      by_cases h : a ≤ k ∧ k ≤ b
      · rw [if_pos h]; congr 1; omega
      · rw [if_neg h]

/-- `ReverseItemOrdering(from, to)` -/
theorem reverse_refines (q : Ring α) (hG : Good c q) (from_ to : Nat) :
    Good c (q.reverse c from_ to) ∧ (q.reverse c from_ to).abs c = Spec.reverse (q.abs c) from_ to := by
  unfold Ring.reverse Spec.reverse
  simp only [abs_length]
  by_cases h1 : from_ < to ∧ 0 < q.count
  · have hs : (if from_ < to then q.count else 0) = q.count := by simp [h1.1]
    simp only [hs, h1.2, if_true]
    have hto : (if to - 1 ≥ q.count then q.count - 1 else to - 1) = min (to - 1) (q.count - 1) := by
      split <;> omega
    rw [hto]
    obtain ⟨g, cnt, l⟩ := revLoop_spec c q.count q hG from_ (min (to - 1) (q.count - 1)) (by omega) (by omega)
    refine ⟨g, ?_⟩
    by_cases h2 : from_ < min (to - 1) (q.count - 1)
    · rw [if_pos ⟨h1.1, trivial, h2⟩]
      apply abs_eq_opt
      · rw [cnt]; simp; omega
      · intro k hk
        have hk' : k < q.count := by simp at hk; omega
        rw [l k hk']
        have hsub : (((q.abs c).drop from_).take (min (to - 1) (q.count - 1) + 1 - from_)).length = min (to - 1) (q.count - 1) + 1 - from_ := by
          simp; omega
        by_cases c1 : k < from_
        · have n : ¬ (from_ ≤ k ∧ k ≤ min (to - 1) (q.count - 1)) := by omega
          rw [if_neg n, List.append_assoc, List.getElem?_append_left (by simp; omega), List.getElem?_take, if_pos c1,
            abs_getElem? c q k hk']
        · by_cases c2 : k ≤ min (to - 1) (q.count - 1)
          · have y : from_ ≤ k ∧ k ≤ min (to - 1) (q.count - 1) := by omega
            rw [if_pos y, List.getElem?_append_left (by simp; omega), List.getElem?_append_right (by simp; omega)]
            have hl : ((q.abs c).take from_).length = from_ := by simp; omega
            rw [hl, List.getElem?_reverse (by rw [hsub]; omega), hsub, List.getElem?_take]
            have : min (to - 1) (q.count - 1) + 1 - from_ - 1 - (k - from_) < min (to - 1) (q.count - 1) + 1 - from_ := by omega
            rw [if_pos this, List.getElem?_drop, ← abs_getElem? c q _ (by omega)]
            congr 1; omega
          · have n : ¬ (from_ ≤ k ∧ k ≤ min (to - 1) (q.count - 1)) := by omega
            rw [if_neg n, List.getElem?_append_right (by simp; omega)]
            simp only [List.length_append, List.length_take, List.length_reverse, List.length_drop, abs_length]
            rw [List.getElem?_drop, ← abs_getElem? c q k hk']
            congr 1; omega
    · have n : ¬ (from_ < to ∧ True ∧ from_ < min (to - 1) (q.count - 1)) := fun x => h2 x.2.2
      rw [if_neg n]
      apply abs_congr c q _ cnt
      intro k hk
      rw [l k hk]
      by_cases y : from_ ≤ k ∧ k ≤ min (to - 1) (q.count - 1)
      · rw [if_pos y]; congr 1; omega
      · rw [if_neg y]
  · have n : ¬ (from_ < to ∧ 0 < q.count ∧ from_ < min (to - 1) (q.count - 1)) := fun x => h1 ⟨x.1, x.2.1⟩
    rw [if_neg n]
    have hs : ¬ ((if from_ < to then q.count else 0) > 0) := by
      split <;> omega
    rw [if_neg hs]
    exact ⟨hG, rfl⟩

end Muscle.Containers
