import MuscleModel.Containers.Proofs6
import MuscleModel.Containers.Traversal

/-! Traversal under mutation: completeness and absence of duplicates. -/

set_option linter.unusedSectionVars false
set_option linter.unusedSimpArgs false
set_option linter.unusedVariables false

namespace Muscle.Containers
variable {K V : Type} [DecidableEq K]

/- ---------- `after` ---------- -/

theorem after_append_of_not_mem {x : List K} {c : K} (r : List K) (h : c ∉ x) : after (x ++ c :: r) c = r := by
  induction x with
  | nil => simp [after]
  | cons a t ih =>
    simp only [List.mem_cons, not_or] at h
    have : a ≠ c := fun e => h.1 e.symm
    simp only [List.cons_append, after, this, if_false]
    exact ih h.2

theorem after_of_not_mem {l : List K} {c : K} (h : c ∉ l) : after l c = [] := by
  induction l with
  | nil => rfl
  | cons a t ih =>
    simp only [List.mem_cons, not_or] at h
    have : a ≠ c := fun e => h.1 e.symm
    simp only [after, this, if_false]
    exact ih h.2

theorem after_succ {l : List K} {c c' : K} (hn : l.Nodup) (h : succIn l c = some c') : after l c = c' :: after l c' := by
  obtain ⟨x, y, hxy, hcx⟩ := succIn_split h
  subst hxy
  rw [after_append_of_not_mem _ hcx]
  have h2 : x ++ c :: c' :: y = (x ++ [c]) ++ c' :: y := by simp
  have hn2 : ((x ++ [c]) ++ c' :: y).Nodup := by rw [← h2]; exact hn
  rw [h2, after_append_of_not_mem _ (nodup_middle_not_mem hn2).1]

theorem after_of_succ_none {l : List K} {c : K} (h : succIn l c = none) : after l c = [] := by
  unfold succIn at h
  cases ha : after l c with
  | nil => rfl
  | cons a t => simp [ha] at h

theorem after_filter {l : List K} {c k : K} (h : c ≠ k) :
    after (l.filter (fun x => x ≠ k)) c = (after l c).filter (fun x => x ≠ k) := by
  induction l with
  | nil => rfl
  | cons a t ih =>
    by_cases ha : a = k
    · have hac : a ≠ c := fun e => h (e ▸ ha)
      simp only [List.filter_cons, ha, ne_eq, not_true_eq_false, decide_false, Bool.false_eq_true, if_false]
      rw [← ha] at ih ⊢
      simp only [after, hac, if_false]
      rw [ha] at ih ⊢
      exact ih
    · by_cases hc : a = c
      · subst hc
        simp [List.filter_cons, ha, after]
      · simp only [List.filter_cons, ha, ne_eq, not_false_eq_true, decide_true, if_true, after, hc, if_false]
        exact ih

theorem after_sublist (l : List K) (c : K) : (after l c).Sublist l := by
  induction l with
  | nil => exact List.Sublist.refl _
  | cons a t ih =>
    unfold after
    by_cases ha : a = c
    · simp only [ha, if_true]; exact List.sublist_cons_self _ _
    · simp only [ha]; exact List.Sublist.cons _ ih

theorem after_append_single {l : List K} {c k : K} (h : c ∈ l) : after (l ++ [k]) c = after l c ++ [k] := by
  induction l with
  | nil => cases h
  | cons a t ih =>
    by_cases ha : a = c
    · simp [after, ha]
    · have : c ∈ t := by
        rcases List.mem_cons.mp h with h | h
        · exact absurd h.symm ha
        · exact h
      simp only [List.cons_append, after, ha, if_false]
      exact ih this

/- ---------- direction lists ---------- -/

theorem dirKeys_erase (m : OMap K V) (k : K) (b : Bool) : dirKeys (erase m k) b = (dirKeys m b).filter (fun x => x ≠ k) := by
  unfold dirKeys
  cases b
  · simp [keys_erase]
  · simp [keys_erase, List.filter_reverse]

theorem dirKeys_setVal (m : OMap K V) (k : K) (v : V) (b : Bool) : dirKeys (setVal m k v) b = dirKeys m b := by
  unfold dirKeys; simp

/- ---------- states ---------- -/

/-- the table invariant for the one-iterator state -/
def TSt.WF (st : TSt K V) : Prop := st.toTab.Inv

theorem TSt.wf_iff (st : TSt K V) : st.WF ↔ (keys st.m).Nodup ∧ st.it.Ok st.m := by
  unfold TSt.WF Tab.Inv TSt.toTab
  simp

theorem step_toTab (st : TSt K V) (ev : Ev K V) : (st.step ev).toTab = Tab.apply none st.toTab ev.toOp := by
  cases ev with
  | adv => simp [TSt.step, TSt.toTab, Ev.toOp, Tab.apply, Tab.itNext, Tab.itModify]
  | put k v =>
    simp only [TSt.step, TSt.toTab, Ev.toOp, Tab.apply, Tab.putAux, Tab.valueChanged, Tab.reposition, Tab.linkNew]
    by_cases hh : has st.m k = true <;> simp [hh]
  | remove k =>
    simp only [TSt.step, Ev.toOp, Tab.apply, Tab.removeKey]
    by_cases hh : has st.m k = true
    · simp [hh, TSt.toTab, Tab.patch]
    · simp [hh, TSt.toTab]

theorem wf_step {st : TSt K V} (ev : Ev K V) (h : st.WF) : (st.step ev).WF := by
  unfold TSt.WF
  rw [step_toTab]
  exact Tab.inv_apply none _ h

theorem shown_eq {st : TSt K V} (h : st.WF) :
    st.shown = match st.it.scratch with | some p => some p.1 | none => st.it.cur := by
  obtain ⟨_, ho⟩ := (TSt.wf_iff st).mp h
  unfold TSt.shown Iter.peek
  cases hs : st.it.scratch with
  | some p => simp
  | none =>
    cases hc : st.it.cur with
    | none => simp
    | some c =>
      obtain ⟨v, hv⟩ := get_isSome_of_mem (ho c hc)
      simp [hv]

theorem pending_subset {st : TSt K V} (h : st.WF) : ∀ x ∈ st.pending, x ∈ keys st.m := by
  obtain ⟨_, ho⟩ := (TSt.wf_iff st).mp h
  intro x hx
  unfold TSt.pending at hx
  cases hc : st.it.cur with
  | none => simp [hc] at hx
  | some c =>
    simp only [hc] at hx
    split at hx
    · rcases List.mem_cons.mp hx with rfl | hx
      · exact ho _ hc
      · exact mem_dirKeys.mp (mem_of_mem_after hx)
    · exact mem_dirKeys.mp (mem_of_mem_after hx)

theorem pending_nodup {st : TSt K V} (h : st.WF) : st.pending.Nodup := by
  obtain ⟨hn, _⟩ := (TSt.wf_iff st).mp h
  have hd := nodup_dirKeys st.it.back hn
  unfold TSt.pending
  cases hc : st.it.cur with
  | none => simp
  | some c =>
    simp only
    have hs : (after (dirKeys st.m st.it.back) c).Nodup := List.Nodup.sublist (after_sublist _ _) hd
    split
    · rw [List.nodup_cons]; exact ⟨not_mem_after_self hd, hs⟩
    · exact hs

theorem pending_nil_of_shown_none {st : TSt K V} (h : st.WF) (hs : st.shown = none) : st.pending = [] := by
  rw [shown_eq h] at hs
  unfold TSt.pending
  cases hsc : st.it.scratch with
  | some p => simp [hsc] at hs
  | none => simp only [hsc] at hs; simp [hs]

/-- `iter++`: the head of the pending keys comes into view -/
theorem adv_spec {st : TSt K V} (h : st.WF) :
    st.pending = match (st.step .adv).shown with | none => [] | some s => s :: (st.step .adv).pending := by
  obtain ⟨hn, ho⟩ := (TSt.wf_iff st).mp h
  have hd := nodup_dirKeys st.it.back hn
  rw [shown_eq (wf_step .adv h)]
  obtain ⟨m, ⟨cur, scratch, back⟩⟩ := st
  simp only at hn ho hd
  cases scratch with
  | some p =>
    cases cur with
    | none => simp [TSt.pending, TSt.step, Iter.next]
    | some c => simp [TSt.pending, TSt.step, Iter.next]
  | none =>
    cases cur with
    | none => simp [TSt.pending, TSt.step, Iter.next]
    | some c =>
      cases hsu : nbr m back c with
      | none =>
        simp [TSt.pending, TSt.step, Iter.next, hsu]
        exact after_of_succ_none hsu
      | some c' =>
        simp [TSt.pending, TSt.step, Iter.next, hsu]
        exact after_succ hd hsu

/-- `Remove(k)`: what is in view stays in view; `k` leaves the pending keys, nothing else does -/
theorem remove_spec {st : TSt K V} (k : K) (h : st.WF) :
    (st.step (.remove k)).shown = st.shown ∧
    ∀ x, x ∈ (st.step (.remove k)).pending ↔ (x ∈ st.pending ∧ x ≠ k) := by
  obtain ⟨hn, ho⟩ := (TSt.wf_iff st).mp h
  have hd := nodup_dirKeys st.it.back hn
  have hw' := wf_step (.remove k) h
  rw [shown_eq hw', shown_eq h]
  by_cases hh : has st.m k = true
  · have hk : k ∈ keys st.m := has_iff.mp hh
    obtain ⟨v, hv⟩ := get_isSome_of_mem hk
    simp only [TSt.step, hh, if_true]
    unfold TSt.pending
    simp only [Iter.onRemove]
    by_cases hc : st.it.cur = some k
    · simp only [hc, if_true, hv, Option.map_some]
      have hnk : k ∉ after (dirKeys st.m st.it.back) k := not_mem_after_self hd
      cases hs : st.it.scratch with
      | some p =>
        simp only [Option.isSome_some, if_true, true_and]
        cases hsu : nbr st.m st.it.back k with
        | none =>
          have := after_of_succ_none hsu
          simp [this]
        | some c' =>
          simp only
          have hne : c' ≠ k := nbr_ne hn hsu
          have e1 := after_succ hd hsu
          have e2 : after (dirKeys (erase st.m k) st.it.back) c' = after (dirKeys st.m st.it.back) c' := by
            rw [dirKeys_erase, after_filter hne]
            apply filter_ne_of_not_mem
            intro hm
            exact hnk (by rw [e1]; exact List.mem_cons_of_mem _ hm)
          intro x
          rw [e2, ← e1]
          constructor
          · intro hx; exact ⟨List.mem_cons_of_mem _ hx, fun e => hnk (e ▸ hx)⟩
          · intro ⟨hx, hxk⟩
            rcases List.mem_cons.mp hx with rfl | hx
            · exact absurd rfl hxk
            · exact hx
      | none =>
        simp only [Option.isSome_some, Option.isSome_none, if_true, Bool.false_eq_true, if_false, true_and]
        cases hsu : nbr st.m st.it.back k with
        | none =>
          have := after_of_succ_none hsu
          simp [this]
        | some c' =>
          simp only
          have hne : c' ≠ k := nbr_ne hn hsu
          have e1 := after_succ hd hsu
          have e2 : after (dirKeys (erase st.m k) st.it.back) c' = after (dirKeys st.m st.it.back) c' := by
            rw [dirKeys_erase, after_filter hne]
            apply filter_ne_of_not_mem
            intro hm
            exact hnk (by rw [e1]; exact List.mem_cons_of_mem _ hm)
          intro x
          rw [e2, ← e1]
          exact ⟨fun hx => ⟨hx, fun e => hnk (e ▸ hx)⟩, fun hx => hx.1⟩
    · simp only [hc, if_false, true_and]
      cases hcc : st.it.cur with
      | none => simp
      | some c =>
        have hck : c ≠ k := fun e => hc (by rw [hcc, e])
        simp only
        rw [dirKeys_erase, after_filter hck]
        intro x
        split
        · simp only [List.mem_cons, List.mem_filter, ne_eq, decide_eq_true_eq, decide_not, Bool.not_eq_eq_eq_not,
            Bool.not_true, decide_eq_false_iff_not]
          constructor
          · rintro (rfl | ⟨hx, hxk⟩)
            · exact ⟨Or.inl rfl, hck⟩
            · exact ⟨Or.inr hx, hxk⟩
          · rintro ⟨rfl | hx, hxk⟩
            · exact Or.inl rfl
            · exact Or.inr ⟨hx, hxk⟩
        · simp
  · have hk : k ∉ keys st.m := fun hm => hh (has_iff.mpr hm)
    simp only [TSt.step, hh]
    refine ⟨by simp, ?_⟩
    intro x
    simp only [Bool.false_eq_true, if_false]
    exact ⟨fun hx => ⟨hx, fun e => hk (e ▸ pending_subset h x hx)⟩, fun hx => hx.1⟩

/-- `Put(k, v)`: what is in view stays in view; no pending key is lost; only a new key `k` may join them -/
theorem put_spec {st : TSt K V} (k : K) (v : V) (h : st.WF) :
    (st.step (.put k v)).shown = st.shown ∧
    (∀ x ∈ st.pending, x ∈ (st.step (.put k v)).pending) ∧
    (∀ x ∈ (st.step (.put k v)).pending, x ∈ st.pending ∨ (x = k ∧ k ∉ keys st.m)) := by
  obtain ⟨hn, ho⟩ := (TSt.wf_iff st).mp h
  have hw' := wf_step (.put k v) h
  rw [shown_eq hw', shown_eq h]
  by_cases hh : has st.m k = true
  · have e : (st.step (.put k v)) = { st with m := setVal st.m k v } := by
      simp [TSt.step, Tab.putAux, hh, Tab.valueChanged, Tab.reposition, TSt.toTab]
    rw [e]
    unfold TSt.pending
    simp only [dirKeys_setVal]
    exact ⟨trivial, fun x hx => hx, fun x hx => Or.inl hx⟩
  · have hk : k ∉ keys st.m := fun hm => hh (has_iff.mpr hm)
    have e : (st.step (.put k v)) = { st with m := st.m ++ [(k, v)] } := by
      simp [TSt.step, Tab.putAux, hh, Tab.linkNew, TSt.toTab]
    rw [e]
    refine ⟨by first | rfl | trivial, ?_, ?_⟩
    · intro x hx
      unfold TSt.pending at hx ⊢
      cases hc : st.it.cur with
      | none => simp [hc] at hx
      | some c =>
        have hcm : c ∈ keys st.m := ho c hc
        have hck : c ≠ k := fun e => hk (e ▸ hcm)
        simp only [hc] at hx ⊢
        have key : ∀ y, y ∈ after (dirKeys st.m st.it.back) c → y ∈ after (dirKeys (st.m ++ [(k, v)]) st.it.back) c := by
          intro y hy
          unfold dirKeys at hy ⊢
          cases hb : st.it.back with
          | false =>
            simp only [hb, Bool.false_eq_true, if_false, keys_append, keys_cons, keys_nil] at hy ⊢
            rw [after_append_single hcm]; simp [hy]
          | true =>
            simp only [hb, if_true, keys_append, keys_cons, keys_nil, List.reverse_append, List.reverse_cons,
              List.reverse_nil, List.nil_append, List.singleton_append] at hy ⊢
            have hkc : k ≠ c := fun e => hck e.symm
            simp only [after, hkc, if_false]; exact hy
        split at hx
        · rename_i hsc
          simp only [hsc, if_true]
          rcases List.mem_cons.mp hx with rfl | hx
          · simp
          · exact List.mem_cons_of_mem _ (key x hx)
        · rename_i hsc
          simp only [hsc]
          exact key x hx
    · intro x hx
      unfold TSt.pending at hx ⊢
      cases hc : st.it.cur with
      | none => simp [hc] at hx
      | some c =>
        have hcm : c ∈ keys st.m := ho c hc
        have hck : c ≠ k := fun e => hk (e ▸ hcm)
        simp only [hc] at hx ⊢
        have key : ∀ y, y ∈ after (dirKeys (st.m ++ [(k, v)]) st.it.back) c → y ∈ after (dirKeys st.m st.it.back) c ∨ y = k := by
          intro y hy
          unfold dirKeys at hy ⊢
          cases hb : st.it.back with
          | false =>
            simp only [hb, Bool.false_eq_true, if_false, keys_append, keys_cons, keys_nil] at hy ⊢
            rw [after_append_single hcm] at hy
            simpa using hy
          | true =>
            simp only [hb, if_true, keys_append, keys_cons, keys_nil, List.reverse_append, List.reverse_cons,
              List.reverse_nil, List.nil_append, List.singleton_append] at hy ⊢
            have hkc : k ≠ c := fun e => hck e.symm
            simp only [after, hkc, if_false] at hy; exact Or.inl hy
        split at hx
        · rename_i hsc
          simp only [hsc, if_true]
          rcases List.mem_cons.mp hx with rfl | hx
          · left; simp
          · rcases key x hx with h1 | h1
            · left; exact List.mem_cons_of_mem _ h1
            · right; exact ⟨h1, hk⟩
        · rename_i hsc
          simp only [hsc]
          rcases key x hx with h1 | h1
          · left; exact h1
          · right; exact ⟨h1, hk⟩

theorem keys_step_put_superset (st : TSt K V) (k : K) (v : V) : ∀ x, x ∈ keys st.m → x ∈ keys (st.step (.put k v)).m := by
  intro x hx
  simp only [TSt.step]
  rw [Tab.keys_putAux_plain]
  simp only [TSt.toTab]
  by_cases hk : k ∈ keys st.m <;> simp [hk, hx]

/-- completeness, generalised over the state and the keys seen so far -/
theorem complete_aux (evs : List (Ev K V)) : ∀ (st : TSt K V) (Vs : List K) (x : K), st.WF →
    (x ∈ Vs ∨ x ∈ st.pending) → (∀ e ∈ evs, ∀ k, e = Ev.remove k → k ≠ x) →
    (runFinal st evs).shown = none → x ∈ Vs ++ visitedFrom st evs := by
  induction evs with
  | nil =>
    intro st Vs x h hx _ hend
    simp only [runFinal, List.foldl_nil] at hend
    rw [pending_nil_of_shown_none h hend] at hx
    simp only [visitedFrom, List.append_nil]
    rcases hx with hx | hx
    · exact hx
    · cases hx
  | cons e r ih =>
    intro st Vs x h hx hnr hend
    have hnr' : ∀ e' ∈ r, ∀ k, e' = Ev.remove k → k ≠ x := fun e' he' => hnr e' (List.mem_cons_of_mem _ he')
    simp only [runFinal, List.foldl_cons] at hend
    cases e with
    | adv =>
      simp only [visitedFrom]
      rw [← List.append_assoc]
      apply ih (st.step .adv) _ x (wf_step .adv h) _ hnr' hend
      rcases hx with hx | hx
      · left; simp [hx]
      · have hs := adv_spec h
        cases hsh : (st.step .adv).shown with
        | none => rw [hsh] at hs; rw [hs] at hx; cases hx
        | some s =>
          rw [hsh] at hs; rw [hs] at hx
          rcases List.mem_cons.mp hx with rfl | hx
          · left; simp
          · right; exact hx
    | put k v =>
      simp only [visitedFrom]
      apply ih (st.step (.put k v)) Vs x (wf_step _ h) _ hnr' hend
      rcases hx with hx | hx
      · exact Or.inl hx
      · exact Or.inr ((put_spec k v h).2.1 x hx)
    | remove k =>
      simp only [visitedFrom]
      apply ih (st.step (.remove k)) Vs x (wf_step _ h) _ hnr' hend
      rcases hx with hx | hx
      · exact Or.inl hx
      · have hkx : k ≠ x := hnr (Ev.remove k) (by simp) k rfl
        exact Or.inr (((remove_spec k h).2 x).mpr ⟨hx, fun e => hkx e.symm⟩)

/-- no duplicates, generalised over the state, the keys seen so far and the keys removed so far -/
theorem nodup_aux (evs : List (Ev K V)) : ∀ (st : TSt K V) (Vs R : List K), st.WF → Vs.Nodup →
    (∀ x ∈ Vs, x ∉ st.pending) → (∀ x ∈ Vs, x ∈ keys st.m ∨ x ∈ R) → NoReinsert R evs →
    (Vs ++ visitedFrom st evs).Nodup := by
  induction evs with
  | nil => intro st Vs R _ hv _ _ _; simpa [visitedFrom] using hv
  | cons e r ih =>
    intro st Vs R h hv hp hk hnr
    cases e with
    | adv =>
      simp only [visitedFrom]
      rw [← List.append_assoc]
      have hs := adv_spec h
      have hw' := wf_step .adv h
      have hm : (st.step .adv).m = st.m := rfl
      cases hsh : (st.step .adv).shown with
      | none =>
        rw [hsh] at hs
        simp only [Option.toList_none, List.append_nil]
        apply ih (st.step .adv) Vs R hw' hv _ (by rw [hm]; exact hk) hnr
        intro x hx
        rw [pending_nil_of_shown_none hw' hsh]; simp
      | some s =>
        rw [hsh] at hs
        have hpn := pending_nodup h
        rw [hs, List.nodup_cons] at hpn
        have hsp : s ∈ st.pending := by rw [hs]; simp
        simp only [Option.toList_some]
        apply ih (st.step .adv) (Vs ++ [s]) R hw' _ _ _ hnr
        · rw [List.nodup_append]
          refine ⟨hv, by simp, ?_⟩
          intro a ha b hb
          simp at hb; subst hb
          exact fun e => hp a ha (e ▸ hsp)
        · intro x hx
          rcases List.mem_append.mp hx with hx | hx
          · intro hx'; exact hp x hx (by rw [hs]; exact List.mem_cons_of_mem _ hx')
          · simp at hx; subst hx; exact hpn.1
        · intro x hx
          rw [hm]
          rcases List.mem_append.mp hx with hx | hx
          · exact hk x hx
          · simp at hx; subst hx; exact Or.inl (pending_subset h x hsp)
    | put k v =>
      simp only [visitedFrom]
      obtain ⟨hkR, hnr'⟩ := hnr
      obtain ⟨_, _, hps⟩ := put_spec k v h
      apply ih (st.step (.put k v)) Vs R (wf_step _ h) hv _ _ hnr'
      · intro x hx hx'
        rcases hps x hx' with h1 | ⟨rfl, hkm⟩
        · exact hp x hx h1
        · rcases hk x hx with h2 | h2
          · exact hkm h2
          · exact hkR h2
      · intro x hx
        rcases hk x hx with h2 | h2
        · exact Or.inl (keys_step_put_superset st k v x h2)
        · exact Or.inr h2
    | remove k =>
      simp only [visitedFrom]
      have hnr' : NoReinsert (k :: R) r := hnr
      obtain ⟨_, hps⟩ := remove_spec k h
      apply ih (st.step (.remove k)) Vs (k :: R) (wf_step _ h) hv _ _ hnr'
      · intro x hx hx'
        exact hp x hx ((hps x).mp hx').1
      · intro x hx
        by_cases hxk : x = k
        · right; simp [hxk]
        · rcases hk x hx with h2 | h2
          · left
            simp only [TSt.step]
            split
            · exact mem_keys_erase.mpr ⟨h2, hxk⟩
            · exact h2
          · right; exact List.mem_cons_of_mem _ h2

/-- the state right after `GetIterator(flags)` -/
def TSt.start (m : OMap K V) (back : Bool) : TSt K V := { m := m, it := Iter.start m back }

theorem wf_start {m : OMap K V} (back : Bool) (hn : (keys m).Nodup) : (TSt.start m back).WF :=
  (TSt.wf_iff _).mpr ⟨hn, Iter.ok_start m back⟩

theorem start_covers {m : OMap K V} (back : Bool) (hn : (keys m).Nodup) :
    (∀ x ∈ keys m, x ∈ (TSt.start m back).shown.toList ∨ x ∈ (TSt.start m back).pending) ∧
    (∀ x ∈ (TSt.start m back).shown.toList, x ∉ (TSt.start m back).pending) ∧
    (∀ x ∈ (TSt.start m back).shown.toList, x ∈ keys m) := by
  have hw := wf_start back hn
  have hd := nodup_dirKeys back hn
  rw [shown_eq hw]
  unfold TSt.pending
  simp only [TSt.start, Iter.start]
  cases hdk : dirKeys m back with
  | nil =>
    simp only [List.head?_nil, Option.toList_none]
    refine ⟨?_, by simp, by simp⟩
    intro x hx
    have : x ∈ dirKeys m back := mem_dirKeys.mpr hx
    rw [hdk] at this; cases this
  | cons c t =>
    rw [hdk] at hd
    simp only [List.head?_cons, Option.toList_some, Option.isSome_none, Bool.false_eq_true, if_false, after, if_true]
    refine ⟨?_, ?_, ?_⟩
    · intro x hx
      have : x ∈ dirKeys m back := mem_dirKeys.mpr hx
      rw [hdk] at this
      simpa using this
    · intro x hx
      simp at hx; subst hx
      exact (List.nodup_cons.mp hd).1
    · intro x hx
      simp at hx; subst hx
      exact mem_dirKeys.mp (by rw [hdk]; simp)

end Muscle.Containers
