/-!
# Ring layer of `muscle::Queue<ItemType>` (`util/Queue.h`)

A `Ring` is the private state of the C++ class: the slot array `_queue` (`slots`), `_headIndex`,
`_tailIndex`, `_itemCount`, which buffer `_queue` points to (`kind`: `NULL`, the inline
`_smallQueue`, a heap array) and the content of the inline buffer while it is not in use (`sbuf`).
`_queueSize` is `slots.length`.  Every definition names the C++ method it mirrors.

Item types enter through `ItemCfg`:
* `dflt`  — `GetDefaultItem()`;
* `junk`  — what an uninitialised slot of a trivial item type holds (`new int[n]`, `_smallQueue` of a
            fresh object); nothing in the model ever tests for it;
* `clear` — `IsPerItemClearNecessary()` (`!std::is_trivial<ItemType>`): vacated slots are reset to `dflt`;
* `moves` — `std::move` leaves the source equal to `dflt`.  No longer consulted: since the repair of finding
            C16-D3 no operation leaves a moved-from slot behind when it returns (kept so that item
            configurations stay comparable with earlier evidence);
* `sq`    — `ARRAYITEMS(_smallQueue)` (a tunable: every theorem holds for all values).

Not modelled: allocation failure (`B_OUT_OF_MEMORY`), 32-bit overflow of sizes
(`B_RESOURCE_LIMIT`, `WillUnsignedAddOverflow`), `AdoptRawDataArray/ReleaseRawDataArray`.
`Sort`'s in-place merge and the cycle-leader rotation of `Normalize` are abstracted to their
functional result (a stable sort / a rotation of the slot array).
-/

namespace Muscle.Containers

structure ItemCfg (α : Type) where
  dflt : α
  junk : α
  clear : Bool
  moves : Bool
  sq : Nat

inductive Kind where
  | null | small | heap
  deriving DecidableEq, Repr

/-- `Queue::NextIndex` (`(idx >= _queueSize-1) ? 0 : idx+1`; only called with `_queueSize > 0`) -/
def nextIndex (size idx : Nat) : Nat := if idx ≥ size - 1 then 0 else idx + 1

/-- `Queue::PrevIndex` (`(idx == 0) ? _queueSize-1 : idx-1`) -/
def prevIndex (size idx : Nat) : Nat := if idx = 0 then size - 1 else idx - 1

/-- `Queue::InternalizeIndex` (`o = _headIndex+idx; (o < _queueSize) ? o : o-_queueSize`) -/
def internalizeIndex (head size idx : Nat) : Nat :=
  if head + idx < size then head + idx else head + idx - size

structure Ring (α : Type) where
  slots : List α
  head : Nat
  tail : Nat
  count : Nat
  kind : Kind
  sbuf : List α

/-- `p[j] = v` for `j` in `[start, start+n)` on a raw array -/
def fillRange {α : Type} (l : List α) (start : Nat) : Nat → α → List α
  | 0, _ => l
  | n + 1, v => fillRange (l.set start v) (start + 1) n v

/-- `newQueue[i] = old[i]` for `i < old.length` (`EnsureSizeAux` guarantees `xs.length ≤ buf.length`
    since commit 97f299d; proved as part of `ensureCore_*`) -/
def overwritePrefix {α : Type} (buf xs : List α) : List α := xs ++ buf.drop xs.length

/-- insertion into a sorted list after every element that is not greater (stable) -/
def insertSorted {α : Type} (lt : α → α → Bool) (x : α) : List α → List α
  | [] => [x]
  | y :: ys => if lt y x then y :: insertSorted lt x ys else x :: y :: ys

/-- the functional result of `Queue::Sort` (documented as a stable sort) -/
def stableSort {α : Type} (lt : α → α → Bool) (l : List α) : List α := l.foldr (insertSorted lt) []

/-- `arr[start+k] = xs[k]` on a raw array -/
def overwriteAt {α : Type} (l : List α) (start : Nat) : List α → List α
  | [] => l
  | x :: xs => overwriteAt (l.set start x) (start + 1) xs

section
variable {α : Type} [DecidableEq α] (c : ItemCfg α)

/-- content of a freshly allocated array (`newnothrow_array`): value-initialised only for non-trivial types -/
def fresh (n : Nat) : List α := List.replicate n (if c.clear then c.dflt else c.junk)

/-- a default-constructed `Queue` -/
def Ring.empty : Ring α := ⟨[], 0, 0, 0, .null, fresh c c.sq⟩

namespace Ring

/-- `_queueSize` -/
def size (q : Ring α) : Nat := q.slots.length

/-- `InternalizeIndex(i)` on this object -/
def phys (q : Ring α) (i : Nat) : Nat := internalizeIndex q.head q.size i

/-- `GetItemAtUnchecked(i)` / `operator[]` (read) -/
def get (q : Ring α) (i : Nat) : α := q.slots.getD (q.phys i) c.junk

/-- `(*this)[i] = v` -/
def put (q : Ring α) (i : Nat) (v : α) : Ring α := { q with slots := q.slots.set (q.phys i) v }

/-- abstraction: the items an observer sees, `[(*this)[0], …, (*this)[GetNumItems()-1]]` -/
def abs (q : Ring α) : List α := (List.range q.count).map (q.get c)

/-- `(*this)[start+k] = xs[k]` for ascending `k` -/
def putList (q : Ring α) (start : Nat) : List α → Ring α
  | [] => q
  | x :: xs => (q.put start x).putList (start + 1) xs

/-- `FastClear` -/
def fastClear (q : Ring α) : Ring α := { q with count := 0, head := 0, tail := 0 }

/-- `GetArrayPointerAux(which, len)`: start slot and length of the contiguous run, `none` = `NULL` -/
def run (q : Ring α) (which : Nat) : Option (Nat × Nat) :=
  if q.count = 0 then none else
  match which with
  | 0 => some (q.head, if q.head ≤ q.tail then q.tail - q.head + 1 else q.size - q.head)
  | 1 => if q.head > q.tail then some (0, q.tail + 1) else none
  | _ => none

/-- `IsNormalized` -/
def isNormalized (q : Ring α) : Bool := q.count = 0 || q.head ≤ q.tail

/-- `Clear(releaseCachedBuffers)` -/
def clear (q : Ring α) (release : Bool) : Ring α :=
  let q1 : Ring α :=
    if release ∧ q.kind ≠ .small then { q with slots := [], kind := .null }
    else if q.count > 0 ∧ c.clear then
      let s1 := match q.run 0 with
        | some (st, len) => fillRange q.slots st len c.dflt
        | none => q.slots
      let s2 := match q.run 1 with
        | some (st, len) => fillRange s1 st len c.dflt
        | none => s1
      { q with slots := s2 }
    else q
  q1.fastClear

/-- `RemoveHead()` -/
def removeHead (q : Ring α) : Ring α × Bool :=
  if q.count = 0 then (q, false) else
  let q1 : Ring α := { q with head := nextIndex q.size q.head, count := q.count - 1 }
  (if c.clear then { q1 with slots := q1.slots.set q.head c.dflt } else q1, true)

/-- `RemoveTail()` -/
def removeTail (q : Ring α) : Ring α × Bool :=
  if q.count = 0 then (q, false) else
  let q1 : Ring α := { q with tail := prevIndex q.size q.tail, count := q.count - 1 }
  (if c.clear then { q1 with slots := q1.slots.set q.tail c.dflt } else q1, true)

def iter (f : Ring α → Ring α) : Nat → Ring α → Ring α
  | 0, q => q
  | n + 1, q => iter f n (f q)

/-- `RemoveHeadMulti(n)` -/
def removeHeadMulti (q : Ring α) (n : Nat) : Ring α × Nat :=
  let n := min n q.count
  if n = 0 then (q, 0)
  else if n = q.count then (q.clear c false, n)
  else if c.clear then (iter (fun r => (r.removeHead c).1) n q, n)
  else ({ q with head := (q.head + n) % q.size, count := q.count - n }, n)

/-- `RemoveTailMulti(n)` -/
def removeTailMulti (q : Ring α) (n : Nat) : Ring α × Nat :=
  let n := min n q.count
  if n = 0 then (q, 0)
  else if n = q.count then (q.clear c false, n)
  else if c.clear then (iter (fun r => (r.removeTail c).1) n q, n)
  else ({ q with tail := (if q.tail < n then q.tail + q.size else q.tail) - n, count := q.count - n }, n)

/-- the reallocation block of `EnsureSizeAux`: new array (heap, or the inline buffer when the old one is a heap array
    and `sqLen` slots suffice), items moved to its start, `setNumItems` applied, old inline buffer reset -/
def realloc (q : Ring α) (size : Nat) (setNum : Bool) (extra : Nat) : Ring α :=
  let newQLen := max c.sq (size + extra)
  let toSmall : Bool := !(decide (q.kind = .small) || decide (newQLen > c.sq))
  let nb0 := if toSmall then q.sbuf else fresh c newQLen
  let nb1 := overwritePrefix nb0 (q.abs c)
  let nb2 := if setNum = true ∧ size > q.count ∧ c.clear = false then fillRange nb1 q.count (size - q.count) c.dflt else nb1
  let cnt := if setNum = true then size else q.count
  { slots := nb2, head := 0, tail := cnt - 1, count := cnt,
    kind := if toSmall then .small else .heap,
    sbuf := if q.kind = .small then (if c.clear then List.replicate c.sq c.dflt else q.slots) else q.sbuf }

/-- `EnsureSizeAux` after its first statement (the guard for `allowShrink` with fewer slots than items):
    reallocation if needed, then the item count is forced to `size` when `setNumItems` -/
def ensureCore (q : Ring α) (size : Nat) (setNum : Bool) (extra : Nat) (shrink : Bool) : Ring α :=
  let q1 : Ring α :=
    if q.kind = .null ∨ (if shrink then q.size ≠ size + extra else q.size < size) then q.realloc c size setNum extra
    else q
  if setNum then
    if size > q1.count then
      let q2 := if c.clear then q1 else q1.putList q1.count (List.replicate (size - q1.count) c.dflt)
      { q2 with tail := prevIndex q2.size (q2.phys size), count := size }
    else (q1.removeTailMulti c (q1.count - size)).1
  else q1

/-- `EnsureSizeAux(size, setNumItems, extraPreallocs, retOldArray, allowShrink)`; always `B_NO_ERROR`
    in the modelled range.  First statement (commit 97f299d):
    `if (allowShrink && size < _itemCount) {if (setNumItems) RemoveTailMulti(_itemCount-size); else size = _itemCount;}` -/
def ensureSizeAux (q : Ring α) (size : Nat) (setNum : Bool) (extra : Nat) (shrink : Bool) : Ring α :=
  if shrink = true ∧ size < q.count then
    if setNum then ensureCore c (q.removeTailMulti c (q.count - size)).1 size setNum extra shrink
    else ensureCore c q q.count setNum extra shrink
  else ensureCore c q size setNum extra shrink

/-- the common part of `AddTailAndGet(item)` / `AddTailAndGet()`: make room, advance `_tailIndex`,
    count the new item; its slot is `tail` -/
def addTailSlot (q : Ring α) : Ring α :=
  let q1 := q.ensureSizeAux c (q.count + 1) false (q.count + 1) false
  let q2 : Ring α := if q1.count = 0 then { q1 with head := 0, tail := 0 } else { q1 with tail := nextIndex q1.size q1.tail }
  { q2 with count := q2.count + 1 }

/-- `AddTail(item)` / `AddTailAndGet(item)` -/
def addTail (q : Ring α) (v : α) : Ring α :=
  let q3 := q.addTailSlot c
  { q3 with slots := q3.slots.set q3.tail v }

/-- `AddTailAndGet()` (no argument): the slot is handed out as it is -/
def addTailRaw (q : Ring α) : Ring α := q.addTailSlot c

def addHeadSlot (q : Ring α) : Ring α :=
  let q1 := q.ensureSizeAux c (q.count + 1) false (q.count + 1) false
  let q2 : Ring α := if q1.count = 0 then { q1 with head := 0, tail := 0 } else { q1 with head := prevIndex q1.size q1.head }
  { q2 with count := q2.count + 1 }

/-- `AddHead(item)` / `AddHeadAndGet(item)` -/
def addHead (q : Ring α) (v : α) : Ring α :=
  let q3 := q.addHeadSlot c
  { q3 with slots := q3.slots.set q3.head v }

/-- `AddHeadAndGet()` (no argument) -/
def addHeadRaw (q : Ring α) : Ring α := q.addHeadSlot c

/-- `GetItemAt(index, ret)` -/
def getItemAt (q : Ring α) (i : Nat) : Option α := if i < q.count then some (q.get c i) else none

/-- `ReplaceItemAt(index, item)` -/
def replaceItemAt (q : Ring α) (i : Nat) (v : α) : Ring α × Bool :=
  if i ≥ q.count then (q, false) else (q.put i v, true)

/-- first loop of `RemoveItemAt`: `while (cur != _headIndex) {_queue[cur] = _queue[Prev(cur)]; cur = Prev(cur);}` -/
def shiftFromHead (q : Ring α) : Nat → Nat → Ring α
  | 0, _ => q
  | f + 1, cur =>
    if cur = q.head then q else
    let p := prevIndex q.size cur
    shiftFromHead { q with slots := q.slots.set cur (q.slots.getD p c.junk) } f p

/-- second loop of `RemoveItemAt`: `while (cur != _tailIndex) {_queue[cur] = _queue[Next(cur)]; cur = Next(cur);}` -/
def shiftFromTail (q : Ring α) : Nat → Nat → Ring α
  | 0, _ => q
  | f + 1, cur =>
    if cur = q.tail then q else
    let n := nextIndex q.size cur
    shiftFromTail { q with slots := q.slots.set cur (q.slots.getD n c.junk) } f n

/-- `RemoveItemAt(index)` -/
def removeItemAt (q : Ring α) (index : Nat) : Ring α × Bool :=
  if index ≥ q.count then (q, false) else
  let ii := q.phys index
  let q2 : Ring α :=
    if index < q.count / 2 then
      let q1 := shiftFromHead c q q.size ii
      { q1 with head := nextIndex q.size q.head, count := q.count - 1 }
    else
      let q1 := shiftFromTail c q q.size ii
      { q1 with tail := prevIndex q.size q.tail, count := q.count - 1 }
  let toClear := if index < q.count / 2 then q.head else q.tail
  (if c.clear then { q2 with slots := q2.slots.set toClear c.dflt } else q2, true)

/-- `for (i=0; i<index; i++) ReplaceItemAt(i, GetItemAtUnchecked(i+1))` -/
def shiftLeftLoop (q : Ring α) (i : Nat) : Nat → Ring α
  | 0 => q
  | n + 1 => shiftLeftLoop (q.put i (q.get c (i + 1))) (i + 1) n

/-- `for (i=hi; i>index; i--) ReplaceItemAt(i, GetItemAtUnchecked(i-1))`, `n = hi-index` iterations -/
def shiftRightLoop (q : Ring α) (index : Nat) : Nat → Ring α
  | 0 => q
  | n + 1 => shiftRightLoop (q.put (index + n + 1) (q.get c (index + n))) index n

/-- `InsertItemAt(index, item)` -/
def insertItemAt (q : Ring α) (index : Nat) (v : α) : Ring α :=
  if index ≥ q.count then q.addTail c v
  else if index = 0 then q.addHead c v
  else if index < q.count / 2 then
    let q1 := q.addHead c c.dflt
    (shiftLeftLoop c q1 0 index).put index v
  else
    let q1 := q.addTail c c.dflt
    (shiftRightLoop c q1 index (q1.count - 1 - index)).put index v

/-- `for (i=oldSize-1; i>=index; i--) (*this)[i+n] = (*this)[i]`, `k` = items still to move -/
def shiftUp (q : Ring α) (index n : Nat) : Nat → Ring α
  | 0 => q
  | k + 1 => shiftUp (q.put (index + k + n) (q.get c (index + k))) index n k

/-- `for (i=hi; i>=lo; i--) AddHead(src[i])`; `src` is read before each `AddHead` (the argument
    is a reference to a slot that `AddHead` does not move) -/
def addHeadLoop (q : Ring α) (src : Nat → Ring α → α) (lo : Nat) : Nat → Ring α
  | 0 => q
  | k + 1 => addHeadLoop (q.addHead c (src (lo + k) q)) src lo k

/-- `AddTailMulti(const ItemType * items, n)` and `AddTailMulti(queue, start, n)` with another queue
    (`xs` = the items selected after the clipping of `start`/`n`) -/
def addTailMulti (q : Ring α) (xs : List α) : Ring α :=
  let my := q.count
  (q.ensureSizeAux c (my + xs.length) true 0 false).putList my xs

/-- `AddHeadMulti(items, n)` / `AddHeadMulti(queue, start, n)` with another queue -/
def addHeadMulti (q : Ring α) (xs : List α) : Ring α :=
  let q1 := q.ensureSizeAux c (q.count + xs.length) false 0 false
  addHeadLoop c q1 (fun i _ => xs.getD i c.junk) 0 xs.length

/-- the clipping `numNewItems = muscleMin(numNewItems, (startIndex < hisSize) ? (hisSize-startIndex) : 0)` -/
def clipNum (hisSize start num : Nat) : Nat := min num (if start < hisSize then hisSize - start else 0)

/-- `AddTailMulti(*this, start, num)` -/
def addTailSelf (q : Ring α) (start num : Nat) : Ring α :=
  let n := clipNum q.count start num
  -- both branches (temporary copy when a reallocation is due, in-place otherwise) read the old items
  q.addTailMulti c (((q.abs c).drop start).take n)

/-- `AddHeadMulti(*this, start, num)`: always through a temporary copy of the selected items when there is
    something to add (repair of finding C16-D4; before it the copy was only taken when a reallocation was due and
    the in-place loop read already shifted items) -/
def addHeadSelf (q : Ring α) (start num : Nat) : Ring α :=
  let n := clipNum q.count start num
  if n > 0 then q.addHeadMulti c (((q.abs c).drop start).take n)
  else q.ensureSizeAux c (n + q.count) false 0 false

/-- `InsertItemsAt(index, items, n)` / `InsertItemsAt(index, queue, start, n)` with another queue -/
def insertItemsAt (q : Ring α) (index : Nat) (xs : List α) (fromQueue : Bool) : Ring α :=
  let index := min index q.count
  if xs.length = 0 then q
  else if fromQueue ∧ index = 0 then q.addHeadMulti c xs
  else if fromQueue ∧ index = q.count then q.addTailMulti c xs
  else if ¬ fromQueue ∧ xs.length = 1 ∧ index = 0 then q.addHead c (xs.getD 0 c.junk)
  else if ¬ fromQueue ∧ xs.length = 1 ∧ index = q.count then q.addTail c (xs.getD 0 c.junk)
  else
    let old := q.count
    let q1 := q.ensureSizeAux c (old + xs.length) true 0 false
    (shiftUp c q1 index xs.length (old - index)).putList index xs

/-- `GetArrayPointer`-style clipping used by the engine for "pointer into the queue's own array" arguments:
    the number of items that are physically contiguous starting at user index `j` -/
def contigFrom (q : Ring α) (j : Nat) : Nat :=
  match q.run 0 with
  | some (_, len0) => if j < len0 then len0 - j else q.count - j
  | none => 0

/-- `InsertItemsAt(index, items, n)` with `items` pointing at `(*this)[j]` (`n` contiguous items): through a
    temporary Queue (repair of finding C16-D5) -/
def insertItemsOwn (q : Ring α) (index j n : Nat) : Ring α :=
  let xs := ((q.abs c).drop j).take n
  if xs.length = 0 then q else q.insertItemsAt c index xs true

/-- `InsertItemsAt(index, *this, start, num)` -/
def insertItemsSelf (q : Ring α) (index start num : Nat) : Ring α :=
  let index := min index q.count
  let n := clipNum q.count start num
  if n = 0 then q
  else if index = 0 then q.addHeadSelf c start n
  else if index = q.count then q.addTailSelf c start n
  else q.insertItemsAt c index (((q.abs c).drop start).take n) true   -- through `tempQ`

/-- `operator=(rhs)` with another queue -/
def assign (q : Ring α) (xs : List α) : Ring α :=
  if xs.length = 0 then q.clear c true
  else (q.ensureSizeAux c xs.length true 0 false).putList 0 xs

/-- `CopyFrom(rhs)` with another queue -/
def copyFrom (q : Ring α) (xs : List α) : Ring α :=
  (q.ensureSizeAux c xs.length true 0 false).putList 0 xs

/-- `Swap(i, j)` (`muscleSwap((*this)[i], (*this)[j])`) -/
def swap (q : Ring α) (i j : Nat) : Ring α :=
  let a := q.get c i
  (q.put i (q.get c j)).put j a

/-- `while (from < to) Swap(from++, to--)` -/
def revLoop (q : Ring α) : Nat → Nat → Nat → Ring α
  | 0, _, _ => q
  | f + 1, a, b => if a < b then revLoop (q.swap c a b) f (a + 1) (b - 1) else q

/-- `ReverseItemOrdering(from, to)` -/
def reverse (q : Ring α) (from_ to : Nat) : Ring α :=
  let size := if from_ < to then q.count else 0
  if size > 0 then
    let to1 := to - 1
    let to2 := if to1 ≥ size then size - 1 else to1
    revLoop c q q.count from_ to2
  else q

/-- `Sort(functor, from, to)`: abstracted to "the sub-range is replaced by its stable sort" -/
def sort (q : Ring α) (lt : α → α → Bool) (from_ to : Nat) : Ring α :=
  let to1 := min to q.count
  if to1 > from_ then q.putList from_ (stableSort lt (((q.abs c).drop from_).take (to1 - from_)))
  else q

/-- `for (i=from; i<to; i++) if ((*this)[i] == item) return i` -/
def findUp (q : Ring α) (v : α) (i : Nat) : Nat → Option Nat
  | 0 => none
  | n + 1 => if q.get c i = v then some i else findUp q v (i + 1) n

/-- `for (i=hi; i>=lo; i--) if ((*this)[i] == item) return i`, `n = hi+1-lo` iterations ending at `lo` -/
def findDown (q : Ring α) (v : α) (lo : Nat) : Nat → Option Nat
  | 0 => none
  | n + 1 => if q.get c (lo + n) = v then some (lo + n) else findDown q v lo n

/-- `IndexOf(item, startAt, endAtPlusOne)` -/
def indexOf (q : Ring α) (v : α) (startAt endAt1 : Nat) : Option Nat :=
  if startAt ≥ q.count then none
  else findUp c q v startAt (min endAt1 q.count - startAt)

/-- `LastIndexOf(item, startAt, endAt)` -/
def lastIndexOf (q : Ring α) (v : α) (startAt endAt : Nat) : Option Nat :=
  if endAt ≥ q.count then none
  else findDown c q v endAt (min startAt (q.count - 1) + 1 - endAt)

/-- `RemoveFirstInstanceOf(val)` -/
def removeFirst (q : Ring α) (v : α) : Ring α × Bool :=
  match findUp c q v 0 q.count with
  | some i => q.removeItemAt c i
  | none => (q, false)

/-- `RemoveLastInstanceOf(val)` -/
def removeLast (q : Ring α) (v : α) : Ring α × Bool :=
  match findDown c q v 0 q.count with
  | some i => q.removeItemAt c i
  | none => (q, false)

/-- the collapse loop of `RemoveAllInstancesOf`: returns (queue, writeTo) -/
def collapse (q : Ring α) (v : α) (readFrom writeTo : Nat) : Nat → Ring α × Nat
  | 0 => (q, writeTo)
  | n + 1 =>
    if q.get c readFrom = v then collapse q v (readFrom + 1) writeTo n
    else collapse (if readFrom > writeTo then q.put writeTo (q.get c readFrom) else q) v (readFrom + 1) (writeTo + 1) n

/-- `RemoveAllInstancesOf(val)` -/
def removeAll (q : Ring α) (v : α) : Ring α × Nat :=
  let orig := q.count
  let (q1, w) := collapse c q v 0 0 orig
  (iter (fun r => (r.removeTail c).1) (orig - w) q1, orig - w)

/-- the loop of `RemoveSortedDuplicateItems`: returns (queue, numWrittenItems) -/
def dedupLoop (q : Ring α) (i written : Nat) : Nat → Ring α × Nat
  | 0 => (q, written)
  | n + 1 =>
    if q.get c i = q.get c (written - 1) then dedupLoop q (i + 1) written n
    else dedupLoop (if written ≠ i then q.put written (q.get c i) else q) (i + 1) (written + 1) n

/-- `RemoveSortedDuplicateItems()` -/
def removeSortedDups (q : Ring α) : Ring α × Nat :=
  if q.count = 0 then (q, 0) else
  let (q1, w) := dedupLoop c q 1 1 (q.count - 1)
  (q1.ensureSizeAux c w true 0 false, q.count - w)

/-- `RemoveDuplicateItems()` = `Sort()` + `RemoveSortedDuplicateItems()` -/
def removeDups (q : Ring α) (lt : α → α → Bool) : Ring α × Nat :=
  (q.sort c lt 0 q.count).removeSortedDups c

/-- `InsertItemAtSortedPosition(item)` with `Compare(a,b) >= 0 ⇔ ¬ (a < b)`; returns the index -/
def insertSortedPos (q : Ring α) (lt : α → α → Bool) (v : α) : Ring α × Nat :=
  if q.count > 0 ∧ ¬ lt v (q.get c 0) then
    match (List.range q.count).reverse.find? (fun k => ! lt v (q.get c k)) with
    | some k => (q.insertItemAt c (k + 1) v, k + 1)
    | none => (q.addHead c v, 0)
  else (q.addHead c v, 0)

/-- `Normalize()` -/
def normalize (q : Ring α) : Ring α :=
  if q.isNormalized then q
  else if q.count * 2 ≤ q.size then
    let startAt := q.tail + 1
    let items := q.abs c
    -- `_queue[startAt+i] = (*this)[i]; if (clear) (*this)[i] = default`
    let s1 := overwriteAt q.slots startAt items
    let q1 : Ring α := { q with slots := s1 }
    let q2 := if c.clear then q1.putList 0 (List.replicate q.count c.dflt) else q1
    { q2 with head := startAt, tail := startAt + q.count - 1 }
  else
    -- rotation of the whole array to the left by `_headIndex` (cycle-leader algorithm, abstracted)
    { q with slots := q.slots.drop q.head ++ q.slots.take q.head, head := 0, tail := q.count - 1 }

/-- `operator==(rhs)` with another queue -/
def equals (q : Ring α) (xs : List α) : Bool := q.count = xs.length && q.abs c == xs

/-- `StartsWith(queue)` -/
def startsWith (q : Ring α) (xs : List α) : Bool :=
  if xs.length > q.count then false else (q.abs c).take xs.length == xs

/-- `EndsWith(queue)` -/
def endsWith (q : Ring α) (xs : List α) : Bool :=
  if xs.length > q.count then false else (q.abs c).drop (q.count - xs.length) == xs

end Ring

/-- `lexicographicalCompare`: -1, 0, +1 as 0, 1, 2 -/
def lexCompare (lt : α → α → Bool) : List α → List α → Nat
  | [], [] => 1
  | [], _ :: _ => 0
  | _ :: _, [] => 2
  | a :: as, b :: bs => if lt a b then 0 else if lt b a then 2 else lexCompare lt as bs

/-- `SwapContentsAux(largeThat)`: `this` uses its inline buffer, `that` a heap array (or `NULL`) -/
def swapContentsAux (this that : Ring α) : Ring α × Ring α :=
  let ni := this.count
  let items := this.abs c
  let thatSmall := overwritePrefix that.sbuf items
  -- `if (IsPerItemClearNecessary()) from = GetDefaultItem()` after each hand-over (repair of finding C16-D3;
  -- before it the inline slots kept whatever `std::move` left behind, i.e. the items themselves for a copy-only type)
  let thisSmall := if c.clear then (this.putList 0 (List.replicate ni c.dflt)).slots else this.slots
  let this' : Ring α :=
    { slots := that.slots, head := if that.size > 0 then that.head else 0, tail := if that.size > 0 then that.tail else 0,
      count := that.count, kind := that.kind, sbuf := thisSmall }
  let that' : Ring α :=
    if ni > 0 then { slots := thatSmall, head := 0, tail := ni - 1, count := ni, kind := .small, sbuf := [] }
    else { slots := [], head := that.head, tail := that.tail, count := ni, kind := .null, sbuf := thatSmall }
  (this', that')

/-- `SwapContents(that)` for two distinct objects -/
def swapContents (a b : Ring α) : Ring α × Ring α :=
  let aSmall := a.kind = .small
  let bSmall := b.kind = .small
  if aSmall ∧ bSmall then
    let common := min a.count b.count
    if a.count > b.count then
      -- copyTo = that, copyFrom = this
      let b1 := b.addTailMulti c ((a.abs c).drop common)
      let a1 := a.ensureSizeAux c common true 0 false
      let xs := a1.abs c; let ys := (b1.abs c).take common
      (a1.putList 0 ys, b1.putList 0 xs)
    else
      let a1 := a.addTailMulti c ((b.abs c).drop common)
      let b1 := b.ensureSizeAux c common true 0 false
      let xs := (a1.abs c).take common; let ys := b1.abs c
      (a1.putList 0 ys, b1.putList 0 xs)
  else if aSmall then swapContentsAux c a b
  else if bSmall then let (b', a') := swapContentsAux c b a; (a', b')
  else ({ b with sbuf := a.sbuf }, { a with sbuf := b.sbuf })   -- pointers and indices are swapped, the inline buffers stay

/-- `Plunder(rhs)` (move constructor / move assignment): returns (this, rhs) -/
def plunder (this rhs : Ring α) : Ring α × Ring α :=
  let (t, r) :=
    if rhs.kind = .small then
      let n := rhs.count
      let t1 := this.ensureSizeAux c n true 0 false
      let xs := t1.abs c; let ys := rhs.abs c
      (t1.putList 0 ys, rhs.putList 0 xs)
    else swapContents c this rhs
  (t, r.clear c false)

end
end Muscle.Containers
