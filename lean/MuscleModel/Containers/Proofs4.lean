import MuscleModel.Containers.Proofs3

/-! Map laws (all table kinds) and order laws (what each operation does to the iteration order). -/

set_option linter.unusedSectionVars false
set_option linter.unusedSimpArgs false
set_option linter.unusedVariables false

namespace Muscle.Containers
variable {K V : Type} [DecidableEq K]

namespace Tab
variable (lt? : Option (K × V → K × V → Bool))

/- ---------- content (as a set of pairs) of each primitive ---------- -/

theorem reposition_perm {tb : Tab K V} (k : K) : (tb.reposition lt? k).m.Perm tb.m := by
  unfold reposition
  cases lt? with
  | none => exact List.Perm.refl _
  | some lt =>
    simp only
    split
    · exact repositionM_perm lt tb.m k
    · exact List.Perm.refl _

theorem valueChanged_perm {tb : Tab K V} (k : K) : (tb.valueChanged lt? k).m.Perm tb.m := by
  unfold valueChanged
  split
  · exact List.Perm.refl _
  · exact reposition_perm lt? k

theorem moveFrontAux_perm {tb : Tab K V} (k : K) (hn : (keys tb.m).Nodup) : (tb.moveFrontAux k).m.Perm tb.m := by
  unfold moveFrontAux; split
  · exact List.Perm.refl _
  · exact toFront_perm k hn

theorem moveBackAux_perm {tb : Tab K V} (k : K) (hn : (keys tb.m).Nodup) : (tb.moveBackAux k).m.Perm tb.m := by
  unfold moveBackAux; split
  · exact List.Perm.refl _
  · exact toBack_perm k hn

theorem moveBeforeAux_perm {tb : Tab K V} (k f : K) (hn : (keys tb.m).Nodup) : (tb.moveBeforeAux k f).m.Perm tb.m := by
  unfold moveBeforeAux; split
  · exact List.Perm.refl _
  · exact toBefore_perm k f hn

theorem moveBehindAux_perm {tb : Tab K V} (k d : K) (hn : (keys tb.m).Nodup) : (tb.moveBehindAux k d).m.Perm tb.m := by
  unfold moveBehindAux; split
  · exact List.Perm.refl _
  · exact toBehind_perm k d hn

theorem movePosAux_perm {tb : Tab K V} (k : K) (i : Nat) (hn : (keys tb.m).Nodup) : (tb.movePosAux k i).m.Perm tb.m := by
  unfold movePosAux; split
  · exact moveFrontAux_perm k hn
  · split
    · exact moveBackAux_perm k hn
    · exact toPos_perm k i hn

/-- `Put` as a set of pairs: the old pairs with `k`'s pair replaced / added -/
theorem putAux_perm {tb : Tab K V} (k : K) (v : V) :
    (tb.putAux lt? k v).m.Perm (if has tb.m k then setVal tb.m k v else (k, v) :: tb.m) := by
  unfold putAux
  by_cases hh : has tb.m k = true
  · simp only [hh, if_true]; exact valueChanged_perm lt? k
  · simp only [hh]; exact linkNew_perm lt? tb k v

/- ---------- map laws ---------- -/

theorem get_putAux_same {tb : Tab K V} (k : K) (v : V) (hn : (keys tb.m).Nodup) : get (tb.putAux lt? k v).m k = some v := by
  have hp := putAux_perm lt? (tb := tb) k v
  by_cases hh : has tb.m k = true
  · rw [if_pos hh] at hp
    rw [get_perm hp.symm (by simpa using hn) k]
    exact get_setVal_same v (has_iff.mp hh)
  · rw [if_neg hh] at hp
    have hk : k ∉ keys tb.m := fun hm => hh (has_iff.mpr hm)
    have hn2 : (keys ((k, v) :: tb.m)).Nodup := by simp only [keys_cons, List.nodup_cons]; exact ⟨hk, hn⟩
    rw [get_perm hp.symm hn2 k]
    exact get_cons_eq _ _ rfl

theorem get_putAux_other {tb : Tab K V} (k : K) (v : V) {k' : K} (hne : k' ≠ k) (hn : (keys tb.m).Nodup) :
    get (tb.putAux lt? k v).m k' = get tb.m k' := by
  have hp := putAux_perm lt? (tb := tb) k v
  by_cases hh : has tb.m k = true
  · rw [if_pos hh] at hp
    rw [get_perm hp.symm (by simpa using hn) k']
    exact get_setVal_other _ v hne
  · rw [if_neg hh] at hp
    have hk : k ∉ keys tb.m := fun hm => hh (has_iff.mpr hm)
    have hn2 : (keys ((k, v) :: tb.m)).Nodup := by simp only [keys_cons, List.nodup_cons]; exact ⟨hk, hn⟩
    rw [get_perm hp.symm hn2 k']
    exact get_cons_ne _ _ (fun e => hne e.symm)

theorem get_removeKey_same (tb : Tab K V) (k : K) : get (tb.removeKey k).m k = none := by
  unfold removeKey
  by_cases hh : has tb.m k = true
  · simp only [hh, if_true]; exact get_erase_same _ _
  · simp only [hh]; exact get_eq_none_iff.mpr (fun hm => hh (has_iff.mpr hm))

theorem get_removeKey_other (tb : Tab K V) {k k' : K} (hne : k' ≠ k) : get (tb.removeKey k).m k' = get tb.m k' := by
  unfold removeKey
  by_cases hh : has tb.m k = true
  · simp only [hh, if_true]; exact get_erase_other _ hne
  · rw [if_neg hh]

theorem length_putAux {tb : Tab K V} (k : K) (v : V) :
    (tb.putAux lt? k v).m.length = if has tb.m k then tb.m.length else tb.m.length + 1 := by
  have hp := (putAux_perm lt? (tb := tb) k v).length_eq
  by_cases hh : has tb.m k = true
  · rw [if_pos hh] at hp ⊢; simpa using hp
  · rw [if_neg hh] at hp ⊢; simpa using hp

theorem length_removeKey {tb : Tab K V} (k : K) (hn : (keys tb.m).Nodup) :
    (tb.removeKey k).m.length = if has tb.m k then tb.m.length - 1 else tb.m.length := by
  unfold removeKey
  by_cases hh : has tb.m k = true
  · simp only [hh, if_true]
    have := length_erase hn (has_iff.mp hh)
    omega
  · rw [if_neg hh, if_neg hh]

/- ---------- order laws, plain `Hashtable` (`lt? = none`) ---------- -/

theorem keys_putAux_plain (tb : Tab K V) (k : K) (v : V) :
    keys (tb.putAux none k v).m = if k ∈ keys tb.m then keys tb.m else keys tb.m ++ [k] := by
  unfold putAux valueChanged reposition linkNew
  by_cases hh : has tb.m k = true
  · simp [hh, has_iff.mp hh]
  · have hk : k ∉ keys tb.m := fun hm => hh (has_iff.mpr hm)
    simp [hh, hk]

theorem keys_removeKey (tb : Tab K V) (k : K) : keys (tb.removeKey k).m = (keys tb.m).filter (fun x => x ≠ k) := by
  unfold removeKey
  by_cases hh : has tb.m k = true
  · simp only [hh, if_true]; exact keys_erase _ _
  · simp only [hh]
    have hk : k ∉ keys tb.m := fun hm => hh (has_iff.mpr hm)
    symm
    apply List.filter_eq_self.mpr
    intro x hx
    simp
    exact fun e => hk (e ▸ hx)

end Tab

theorem filter_ne_of_not_mem {l : List K} {k : K} (h : k ∉ l) : l.filter (fun x => x ≠ k) = l := by
  apply List.filter_eq_self.mpr
  intro x hx
  simp
  exact fun e => h (e ▸ hx)

theorem filter_ne_of_not_mem' {l : List K} {k : K} (h : k ∉ l) : l.filter (fun x => !decide (x = k)) = l := by
  have := filter_ne_of_not_mem h
  simpa using this

theorem keys_toFront {m : OMap K V} {k : K} (h : k ∈ keys m) : keys (toFront m k) = k :: (keys m).filter (fun x => x ≠ k) := by
  obtain ⟨v, hv⟩ := get_isSome_of_mem h
  simp [toFront, hv, keys_erase]

theorem keys_toBack {m : OMap K V} {k : K} (h : k ∈ keys m) : keys (toBack m k) = (keys m).filter (fun x => x ≠ k) ++ [k] := by
  obtain ⟨v, hv⟩ := get_isSome_of_mem h
  simp [toBack, hv, keys_erase]

theorem head_cons_of_head? {l : List K} {k : K} (h : l.head? = some k) : ∃ t, l = k :: t := by
  cases l with
  | nil => simp at h
  | cons a t => simp at h; exact ⟨t, by rw [h]⟩

theorem getLast_append_of_getLast? {l : List K} {k : K} (h : l.getLast? = some k) : ∃ t, l = t ++ [k] := by
  rcases List.eq_nil_or_concat l with rfl | ⟨t, a, rfl⟩
  · simp at h
  · simp at h; exact ⟨t, by rw [h, List.concat_eq_append]⟩

namespace Tab

theorem keys_moveFrontAux {tb : Tab K V} {k : K} (hn : (keys tb.m).Nodup) (h : k ∈ keys tb.m) :
    keys (tb.moveFrontAux k).m = k :: (keys tb.m).filter (fun x => x ≠ k) := by
  unfold moveFrontAux
  have hh : has tb.m k = true := has_iff.mpr h
  by_cases hc : (keys tb.m).head? = some k
  · simp only [hc, hh, true_or, if_true]
    obtain ⟨t, ht⟩ := head_cons_of_head? hc
    rw [ht] at hn ⊢
    rw [List.nodup_cons] at hn
    simp [List.filter_cons, filter_ne_of_not_mem' hn.1]
  · simp only [hc, hh, Bool.not_true, Bool.false_eq_true, or_self, if_false]
    exact keys_toFront h

theorem keys_moveBackAux {tb : Tab K V} {k : K} (hn : (keys tb.m).Nodup) (h : k ∈ keys tb.m) :
    keys (tb.moveBackAux k).m = (keys tb.m).filter (fun x => x ≠ k) ++ [k] := by
  unfold moveBackAux
  have hh : has tb.m k = true := has_iff.mpr h
  by_cases hc : (keys tb.m).getLast? = some k
  · simp only [hc, hh, true_or, if_true]
    obtain ⟨t, ht⟩ := getLast_append_of_getLast? hc
    rw [ht] at hn ⊢
    have hk : k ∉ t := by
      have := (List.nodup_append.mp hn).2.2
      intro hm
      exact this k hm k (by simp) rfl
    simp [List.filter_append, filter_ne_of_not_mem' hk]
  · simp only [hc, hh, Bool.not_true, Bool.false_eq_true, or_self, if_false]
    exact keys_toBack h

theorem keys_movePosAux {tb : Tab K V} {k : K} (idx : Nat) (hn : (keys tb.m).Nodup) (h : k ∈ keys tb.m) :
    keys (tb.movePosAux k idx).m =
      ((keys tb.m).filter (fun x => x ≠ k)).take (min idx (tb.m.length - 1)) ++
        k :: ((keys tb.m).filter (fun x => x ≠ k)).drop (min idx (tb.m.length - 1)) := by
  have hlen : ((keys tb.m).filter (fun x => x ≠ k)).length = tb.m.length - 1 := by
    rw [← keys_erase, length_keys]
    have := length_erase hn h
    omega
  unfold movePosAux
  by_cases h0 : idx = 0
  · subst h0
    simp only [if_true, Nat.zero_min, List.take_zero, List.drop_zero, List.nil_append]
    exact keys_moveFrontAux hn h
  · simp only [h0, if_false]
    by_cases h1 : idx ≥ tb.m.length
    · simp only [h1, if_true]
      have hmin : min idx (tb.m.length - 1) = tb.m.length - 1 := by omega
      rw [hmin, ← hlen, List.take_length, List.drop_length]
      exact keys_moveBackAux hn h
    · simp only [h1, if_false]
      have hmin : min idx (tb.m.length - 1) = idx := by omega
      rw [hmin]
      obtain ⟨v, hv⟩ := get_isSome_of_mem h
      simp only [toPos, hv, keys_insertAt, keys_erase]

end Tab

/- ---------- MoveToBefore / MoveToBehind ---------- -/

theorem indexOf_eq {m : OMap K V} {a b : List K} {f : K} (h : keys m = a ++ f :: b) (hf : f ∉ a) : indexOf m f = a.length := by
  induction m generalizing a with
  | nil => simp at h
  | cons p r ih =>
    obtain ⟨x, y⟩ := p
    cases a with
    | nil =>
      simp only [keys_cons, List.nil_append, List.cons.injEq] at h
      simp [indexOf, h.1]
    | cons a0 a' =>
      simp only [keys_cons, List.cons_append, List.cons.injEq] at h
      simp only [List.mem_cons, not_or] at hf
      have : x ≠ f := fun e => hf.1 (by rw [← e, h.1])
      simp only [indexOf, this, if_false, List.length_cons]
      rw [ih h.2 hf.2]

theorem succIn_split {l : List K} {k f : K} (h : succIn l k = some f) : ∃ x y, l = x ++ k :: f :: y ∧ k ∉ x := by
  induction l with
  | nil => simp [succIn, after] at h
  | cons a r ih =>
    unfold succIn after at h
    by_cases ha : a = k
    · simp only [ha, if_true] at h
      cases r with
      | nil => simp at h
      | cons b t =>
        simp at h
        exact ⟨[], t, by simp [ha, h], by simp⟩
    · simp only [ha] at h
      obtain ⟨x, y, hxy, hk⟩ := ih h
      refine ⟨a :: x, y, by simp [hxy], ?_⟩
      simp only [List.mem_cons, not_or]
      exact ⟨fun e => ha e.symm, hk⟩

theorem nodup_middle_not_mem {x y : List K} {k : K} (hn : (x ++ k :: y).Nodup) : k ∉ x ∧ k ∉ y := by
  have h := List.nodup_append.mp hn
  refine ⟨fun hm => h.2.2 k hm k (by simp) rfl, ?_⟩
  have := h.2.1
  rw [List.nodup_cons] at this
  exact this.1

/-- `MoveToBefore(k, f)` (both present, `k ≠ f`): everything else keeps its relative order and `k` sits
    immediately before `f` -/
theorem Tab.keys_moveBeforeAux {tb : Tab K V} {k f : K} (hn : (keys tb.m).Nodup) (hk : k ∈ keys tb.m) (hf : f ∈ keys tb.m)
    (hne : k ≠ f) :
    ∃ a b, (keys tb.m).filter (fun x => x ≠ k) = a ++ f :: b ∧ keys (tb.moveBeforeAux k f).m = a ++ k :: f :: b := by
  unfold Tab.moveBeforeAux
  by_cases hc : nbr tb.m false k = some f
  · simp only [hc, if_true]
    obtain ⟨x, y, hxy, hkx⟩ := succIn_split (show succIn (keys tb.m) k = some f from hc)
    refine ⟨x, y, ?_, hxy⟩
    rw [hxy] at hn ⊢
    have hky := (nodup_middle_not_mem hn).2
    simp only [List.mem_cons, not_or] at hky
    simp [List.filter_append, List.filter_cons, filter_ne_of_not_mem' hkx, filter_ne_of_not_mem' hky.2, Ne.symm hne]
  · simp only [hc, if_false]
    obtain ⟨v, hv⟩ := get_isSome_of_mem hk
    have hf' : f ∈ keys (erase tb.m k) := mem_keys_erase.mpr ⟨hf, Ne.symm hne⟩
    obtain ⟨a, b, hab⟩ := List.append_of_mem hf'
    have hn' : (keys (erase tb.m k)).Nodup := nodup_erase k hn
    have hfa : f ∉ a := by rw [hab] at hn'; exact (nodup_middle_not_mem hn').1
    refine ⟨a, b, by rw [← keys_erase]; exact hab, ?_⟩
    simp only [toBefore, hv, keys_insertAt, indexOf_eq hab hfa, hab]
    simp

/-- `MoveToBehind(k, d)` (both present, `k ≠ d`): `k` sits immediately behind `d` -/
theorem Tab.keys_moveBehindAux {tb : Tab K V} {k d : K} (hn : (keys tb.m).Nodup) (hk : k ∈ keys tb.m) (hd : d ∈ keys tb.m)
    (hne : k ≠ d) :
    ∃ a b, (keys tb.m).filter (fun x => x ≠ k) = a ++ d :: b ∧ keys (tb.moveBehindAux k d).m = a ++ d :: k :: b := by
  unfold Tab.moveBehindAux
  by_cases hc : nbr tb.m true k = some d
  · simp only [hc, if_true]
    obtain ⟨x, y, hxy, hkx⟩ := succIn_split (show succIn (keys tb.m).reverse k = some d from hc)
    have hl : keys tb.m = y.reverse ++ d :: k :: x.reverse := by
      have := congrArg List.reverse hxy
      simpa using this
    refine ⟨y.reverse, x.reverse, ?_, hl⟩
    rw [hl] at hn ⊢
    have hn2 : (y.reverse ++ [d] ++ k :: x.reverse).Nodup := by simpa using hn
    have hmid := nodup_middle_not_mem hn2
    have hky : k ∉ y := fun hm => hmid.1 (by simp [hm])
    have hkx' : k ∉ x := hkx
    simp [List.filter_append, List.filter_cons, filter_ne_of_not_mem' hky, filter_ne_of_not_mem' hkx', Ne.symm hne]
  · simp only [hc, if_false]
    obtain ⟨v, hv⟩ := get_isSome_of_mem hk
    have hd' : d ∈ keys (erase tb.m k) := mem_keys_erase.mpr ⟨hd, Ne.symm hne⟩
    obtain ⟨a, b, hab⟩ := List.append_of_mem hd'
    have hn' : (keys (erase tb.m k)).Nodup := nodup_erase k hn
    have hda : d ∉ a := by rw [hab] at hn'; exact (nodup_middle_not_mem hn').1
    refine ⟨a, b, by rw [← keys_erase]; exact hab, ?_⟩
    simp only [toBehind, hv, keys_insertAt, indexOf_eq hab hda, hab]
    have e1 : (a ++ d :: b).take (a.length + 1) = a ++ [d] := by
      rw [show a ++ d :: b = (a ++ [d]) ++ b by simp]
      rw [List.take_left' (by simp)]
    have e2 : (a ++ d :: b).drop (a.length + 1) = b := by
      rw [show a ++ d :: b = (a ++ [d]) ++ b by simp]
      rw [List.drop_left' (by simp)]
    rw [e1, e2]; simp

end Muscle.Containers
