import MuscleModel.Containers.QProofs3

/-! C16: the operations of one Queue as a step function, the refinement theorem over all of them, histories. -/

set_option linter.unusedSimpArgs false
set_option linter.unusedVariables false
set_option linter.unusedSectionVars false

namespace Muscle.Containers
variable {α : Type} [DecidableEq α] (c : ItemCfg α)

/-- one public call on a Queue.  Arguments that are another Queue enter as that Queue's visible content
    (`xs`); `…Self`/`…Own` take the Queue itself, resp. a pointer into its own array, as the argument. -/
inductive Op (α : Type) where
  | addTail (v : α) | addHead (v : α) | removeHead | removeTail
  | getItemAt (i : Nat) | replaceItemAt (i : Nat) (v : α)
  | clear (release : Bool)
  | ensureSize (n : Nat) (setNum : Bool) (extra : Nat) (shrink : Bool)
  | removeHeadMulti (n : Nat) | removeTailMulti (n : Nat)
  | addTailMulti (xs : List α) | addHeadMulti (xs : List α)
  | assign (xs : List α) | copyFrom (xs : List α)
  | swap (i j : Nat)
  | removeItemAt (i : Nat) | insertItemAt (i : Nat) (v : α)
  | insertItemsAt (i : Nat) (xs : List α) (fromQueue : Bool)
  | addTailSelf (start num : Nat) | addHeadSelf (start num : Nat)
  | insertItemsSelf (i start num : Nat) | insertItemsOwn (i j n : Nat)
  | sort (lt : α → α → Bool) (from_ to : Nat)
  | normalize
  | equals (xs : List α) | startsWith (xs : List α) | endsWith (xs : List α)
  | compare (lt : α → α → Bool) (xs : List α)
  | indexOf (v : α) (startAt endAt1 : Nat) | lastIndexOf (v : α) (startAt endAt : Nat)
  | removeFirst (v : α) | removeLast (v : α) | removeAll (v : α)
  | insertSortedPos (lt : α → α → Bool) (v : α)
  | removeSortedDups | removeDups (lt : α → α → Bool)
  | reverse (from_ to : Nat)
  /-- no-argument `AddTailAndGet()` / `AddHeadAndGet()` without a following write -/
  | addTailRaw | addHeadRaw

/-- the API specifies the result of the call: everything except the no-argument `AddTailAndGet()`/`AddHeadAndGet()`
    of a TRIVIAL item type, whose new item is documented as uninitialised -/
def Op.specified (c : ItemCfg α) : Op α → Prop
  | .addTailRaw => c.clear = true
  | .addHeadRaw => c.clear = true
  | _ => True

inductive Res (α : Type) where
  | ok | err | item (v : α) | num (n : Nat) | bool (b : Bool) | idx (o : Option Nat)
  deriving DecidableEq

/-- the real code, one public call.  (`swap` with a bad index is an assertion failure in C++; here the call is refused.) -/
def Ring.step (q : Ring α) : Op α → Ring α × Res α
  | .addTail v => (q.addTail c v, .ok)
  | .addHead v => (q.addHead c v, .ok)
  | .removeHead => let r := q.removeHead c; (r.1, if r.2 then .ok else .err)
  | .removeTail => let r := q.removeTail c; (r.1, if r.2 then .ok else .err)
  | .getItemAt i => (q, match q.getItemAt c i with | some v => .item v | none => .err)
  | .replaceItemAt i v => let r := q.replaceItemAt i v; (r.1, if r.2 then .ok else .err)
  | .clear rel => (q.clear c rel, .ok)
  | .ensureSize n sn extra shrink => (q.ensureSizeAux c n sn extra shrink, .ok)
  | .removeHeadMulti n => let r := q.removeHeadMulti c n; (r.1, .num r.2)
  | .removeTailMulti n => let r := q.removeTailMulti c n; (r.1, .num r.2)
  | .addTailMulti xs => (q.addTailMulti c xs, .ok)
  | .addHeadMulti xs => (q.addHeadMulti c xs, .ok)
  | .assign xs => (q.assign c xs, .ok)
  | .copyFrom xs => (q.copyFrom c xs, .ok)
  | .swap i j => if i < q.count ∧ j < q.count then (q.swap c i j, .ok) else (q, .err)
  | .removeItemAt i => let r := q.removeItemAt c i; (r.1, if r.2 then .ok else .err)
  | .insertItemAt i v => (q.insertItemAt c i v, .ok)
  | .insertItemsAt i xs fq => (q.insertItemsAt c i xs fq, .ok)
  | .addTailSelf s n => (q.addTailSelf c s n, .ok)
  | .addHeadSelf s n => (q.addHeadSelf c s n, .ok)
  | .insertItemsSelf i s n => (q.insertItemsSelf c i s n, .ok)
  | .insertItemsOwn i j n => (q.insertItemsOwn c i j n, .ok)
  | .sort lt a b => (q.sort c lt a b, .ok)
  | .normalize => (q.normalize c, if (q.normalize c).isNormalized then .ok else .err)
  | .equals xs => (q, .bool (q.equals c xs))
  | .startsWith xs => (q, .bool (q.startsWith c xs))
  | .endsWith xs => (q, .bool (q.endsWith c xs))
  | .compare lt xs => (q, .num (lexCompare lt (q.abs c) xs))
  | .indexOf v a b => (q, .idx (q.indexOf c v a b))
  | .lastIndexOf v a b => (q, .idx (q.lastIndexOf c v a b))
  | .removeFirst v => let r := q.removeFirst c v; (r.1, if r.2 then .ok else .err)
  | .removeLast v => let r := q.removeLast c v; (r.1, if r.2 then .ok else .err)
  | .removeAll v => let r := q.removeAll c v; (r.1, .num r.2)
  | .insertSortedPos lt v => let r := q.insertSortedPos c lt v; (r.1, .num r.2)
  | .removeSortedDups => let r := q.removeSortedDups c; (r.1, .num r.2)
  | .removeDups lt => let r := q.removeDups c lt; (r.1, .num r.2)
  | .reverse a b => (q.reverse c a b, .ok)
  | .addTailRaw => (q.addTailRaw c, .ok)
  | .addHeadRaw => (q.addHeadRaw c, .ok)

namespace Spec
/-- the ideal sequence, one operation -/
def step (dflt junk : α) (l : List α) : Op α → List α × Res α
  | .addTail v => (addTail l v, .ok)
  | .addHead v => (addHead l v, .ok)
  | .removeHead => let r := removeHead l; (r.1, if r.2 then .ok else .err)
  | .removeTail => let r := removeTail l; (r.1, if r.2 then .ok else .err)
  | .getItemAt i => (l, match getItemAt l i with | some v => .item v | none => .err)
  | .replaceItemAt i v => let r := replaceItemAt l i v; (r.1, if r.2 then .ok else .err)
  | .clear _ => (clear l, .ok)
  | .ensureSize n sn _ _ => (ensureSize dflt l n sn, .ok)
  | .removeHeadMulti n => let r := removeHeadMulti l n; (r.1, .num r.2)
  | .removeTailMulti n => let r := removeTailMulti l n; (r.1, .num r.2)
  | .addTailMulti xs => (addTailMulti l xs, .ok)
  | .addHeadMulti xs => (addHeadMulti l xs, .ok)
  | .assign xs => (assign l xs, .ok)
  | .copyFrom xs => (assign l xs, .ok)
  | .swap i j => if i < l.length ∧ j < l.length then (swap junk l i j, .ok) else (l, .err)
  | .removeItemAt i => let r := removeItemAt l i; (r.1, if r.2 then .ok else .err)
  | .insertItemAt i v => (insertItemAt l i v, .ok)
  | .insertItemsAt i xs _ => (insertItemsAt l i xs, .ok)
  | .addTailSelf s n => (addTailMulti l (clip l s n), .ok)
  | .addHeadSelf s n => (addHeadMulti l (clip l s n), .ok)
  | .insertItemsSelf i s n => (insertItemsAt l i (clip l s n), .ok)
  | .insertItemsOwn i j n => (insertItemsAt l i ((l.drop j).take n), .ok)
  | .sort lt a b => (sort (stableSort lt) l a b, .ok)
  | .normalize => (l, .ok)
  | .equals xs => (l, .bool (equals l xs))
  | .startsWith xs => (l, .bool (startsWith l xs))
  | .endsWith xs => (l, .bool (endsWith l xs))
  | .compare lt xs => (l, .num (lexCompare lt l xs))
  | .indexOf v a b => (l, .idx (indexOf l v a b))
  | .lastIndexOf v a b => (l, .idx (lastIndexOf l v a b))
  | .removeFirst v => let r := removeFirst l v; (r.1, if r.2 then .ok else .err)
  | .removeLast v => let r := removeLast l v; (r.1, if r.2 then .ok else .err)
  | .removeAll v => let r := removeAll l v; (r.1, .num r.2)
  | .insertSortedPos lt v => let r := insertSortedPos lt junk l v; (r.1, .num r.2)
  | .removeSortedDups => let r := removeSortedDups l; (r.1, .num r.2)
  | .removeDups lt => let r := removeSortedDups (sort (stableSort lt) l 0 l.length); (r.1, .num r.2)
  | .reverse a b => (reverse l a b, .ok)
  | .addTailRaw => (addTail l dflt, .ok)
  | .addHeadRaw => (addHead l dflt, .ok)

/-- the ideal operation is undefined: empty sequence, bad index -/
def undefined (l : List α) : Op α → Prop
  | .removeHead => l.length = 0
  | .removeTail => l.length = 0
  | .getItemAt i => l.length ≤ i
  | .replaceItemAt i _ => l.length ≤ i
  | .removeItemAt i => l.length ≤ i
  | .swap i j => ¬ (i < l.length ∧ j < l.length)
  | .removeFirst v => (removeFirst l v).2 = false
  | .removeLast v => (removeLast l v).2 = false
  | _ => False
end Spec

theorem inv_replaceItemAt (q : Ring α) (hI : Inv c q) (i : Nat) (v : α) : Inv c (q.replaceItemAt i v).1 := by
  unfold Ring.replaceItemAt
  by_cases h : i ≥ q.count
  · simp [h]; exact hI
  · simp [h]; exact inv_put c q hI _ _

theorem clean_replaceItemAt (q : Ring α) (hI : Inv c q) (hC : Clean c q) (i : Nat) (v : α) : Clean c (q.replaceItemAt i v).1 := by
  unfold Ring.replaceItemAt
  by_cases h : i ≥ q.count
  · simp [h]; exact hC
  · simp [h]; exact clean_put c q hI hC i (by omega) v

theorem step_refines (q : Ring α) (hG : Good c q) (op : Op α) (hs : op.specified c) :
    Good c (q.step c op).1 ∧ (q.step c op).1.abs c = (Spec.step c.dflt c.junk (q.abs c) op).1 ∧
    (q.step c op).2 = (Spec.step c.dflt c.junk (q.abs c) op).2 := by
  obtain ⟨hI, hC⟩ := hG
  cases op with
  | addTail v =>
    obtain ⟨a1, a2, a3⟩ := addTail_refines c q hI hC v
    exact ⟨⟨a1, a3⟩, a2, rfl⟩
  | addHead v =>
    obtain ⟨a1, a2, a3⟩ := addHead_refines c q hI hC v
    exact ⟨⟨a1, a3⟩, a2, rfl⟩
  | removeHead =>
    have h := removeHead_refines c q hI
    simp only [Prod.ext_iff] at h
    refine ⟨⟨inv_removeHead c q hI, fun hcl => clean_removeHead c hcl q hI (hC hcl)⟩, h.1, ?_⟩
    simp only [Ring.step, Spec.step, h.2]
  | removeTail =>
    have h := removeTail_refines c q hI
    simp only [Prod.ext_iff] at h
    refine ⟨⟨inv_removeTail c q hI, fun hcl => clean_removeTail c hcl q hI (hC hcl)⟩, h.1, ?_⟩
    simp only [Ring.step, Spec.step, h.2]
  | getItemAt i =>
    refine ⟨⟨hI, hC⟩, rfl, ?_⟩
    simp only [Ring.step, Spec.step, getItemAt_refines]
  | replaceItemAt i v =>
    have h := replaceItemAt_refines c q hI i v
    simp only [Prod.ext_iff] at h
    refine ⟨⟨inv_replaceItemAt c q hI i v, fun hcl => clean_replaceItemAt c q hI (hC hcl) i v⟩, h.1, ?_⟩
    simp only [Ring.step, Spec.step, h.2]
  | clear rel =>
    exact ⟨⟨(clear_refines c q hI rel).1, fun hcl => clean_clear c hcl q hI (hC hcl) rel⟩, (clear_refines c q hI rel).2, rfl⟩
  | ensureSize n sn extra shrink =>
    obtain ⟨e1, e2, e3, _⟩ := ensure_spec c q hI hC n sn extra shrink
    exact ⟨⟨e1, e3⟩, e2, rfl⟩
  | removeHeadMulti n =>
    obtain ⟨m1, m2, m3, m4⟩ := removeHeadMulti_spec c q hI n
    refine ⟨⟨m1, fun hcl => m4 hcl (hC hcl)⟩, m2, ?_⟩
    simp only [Ring.step, Spec.step, Spec.removeHeadMulti, m3, abs_length]
  | removeTailMulti n =>
    obtain ⟨m1, m2, m3, _, _, _, _, m8⟩ := removeTailMulti_spec c q hI n
    refine ⟨⟨m1, fun hcl => m8 hcl (hC hcl)⟩, ?_, ?_⟩
    · simp only [Ring.step, Spec.step, Spec.removeTailMulti, m2, abs_length]
    · simp only [Ring.step, Spec.step, Spec.removeTailMulti, m3, abs_length]
  | addTailMulti xs => exact ⟨(addTailMulti_refines c q ⟨hI, hC⟩ xs).1, (addTailMulti_refines c q ⟨hI, hC⟩ xs).2, rfl⟩
  | addHeadMulti xs => exact ⟨(addHeadMulti_refines c q ⟨hI, hC⟩ xs).1, (addHeadMulti_refines c q ⟨hI, hC⟩ xs).2, rfl⟩
  | assign xs => exact ⟨(assign_refines c q ⟨hI, hC⟩ xs).1, (assign_refines c q ⟨hI, hC⟩ xs).2, rfl⟩
  | copyFrom xs => exact ⟨(copyFrom_refines c q ⟨hI, hC⟩ xs).1, (copyFrom_refines c q ⟨hI, hC⟩ xs).2, rfl⟩
  | swap i j =>
    simp only [Ring.step, Spec.step, abs_length]
    by_cases h : i < q.count ∧ j < q.count
    · simp only [h, and_self, if_true]
      obtain ⟨s1, s2⟩ := swap_refines c q ⟨hI, hC⟩ i j h.1 h.2
      exact ⟨s1, s2, (by triv)⟩
    · simp only [h, if_false]
      exact ⟨⟨hI, hC⟩, (by triv), (by triv)⟩
  | removeItemAt i =>
    obtain ⟨g, h⟩ := removeItemAt_refines c q ⟨hI, hC⟩ i
    simp only [Prod.ext_iff] at h
    refine ⟨g, h.1, ?_⟩
    simp only [Ring.step, Spec.step, h.2]
  | insertItemAt i v => exact ⟨(insertItemAt_refines c q ⟨hI, hC⟩ i v).1, (insertItemAt_refines c q ⟨hI, hC⟩ i v).2, rfl⟩
  | insertItemsAt i xs fq => exact ⟨(insertItemsAt_refines c q ⟨hI, hC⟩ i xs fq).1, (insertItemsAt_refines c q ⟨hI, hC⟩ i xs fq).2, rfl⟩
  | addTailSelf s n => exact ⟨(addTailSelf_refines c q ⟨hI, hC⟩ s n).1, (addTailSelf_refines c q ⟨hI, hC⟩ s n).2, rfl⟩
  | addHeadSelf s n => exact ⟨(addHeadSelf_refines c q ⟨hI, hC⟩ s n).1, (addHeadSelf_refines c q ⟨hI, hC⟩ s n).2, rfl⟩
  | insertItemsSelf i s n => exact ⟨(insertItemsSelf_refines c q ⟨hI, hC⟩ i s n).1, (insertItemsSelf_refines c q ⟨hI, hC⟩ i s n).2, rfl⟩
  | insertItemsOwn i j n => exact ⟨(insertItemsOwn_refines c q ⟨hI, hC⟩ i j n).1, (insertItemsOwn_refines c q ⟨hI, hC⟩ i j n).2, rfl⟩
  | sort lt a b => exact ⟨(sort_refines c q ⟨hI, hC⟩ lt a b).1, (sort_refines c q ⟨hI, hC⟩ lt a b).2, rfl⟩
  | normalize =>
    obtain ⟨g, a, n⟩ := normalize_refines c q ⟨hI, hC⟩
    refine ⟨g, a, ?_⟩
    simp only [Ring.step, Spec.step, n, if_true]
  | equals xs => exact ⟨⟨hI, hC⟩, rfl, by simp only [Ring.step, Spec.step, equals_refines]⟩
  | startsWith xs => exact ⟨⟨hI, hC⟩, rfl, by simp only [Ring.step, Spec.step, startsWith_refines]⟩
  | endsWith xs => exact ⟨⟨hI, hC⟩, rfl, by simp only [Ring.step, Spec.step, endsWith_refines]⟩
  | compare lt xs => exact ⟨⟨hI, hC⟩, rfl, rfl⟩
  | indexOf v a b => exact ⟨⟨hI, hC⟩, rfl, by simp only [Ring.step, Spec.step, indexOf_refines]⟩
  | lastIndexOf v a b => exact ⟨⟨hI, hC⟩, rfl, by simp only [Ring.step, Spec.step, lastIndexOf_refines]⟩
  | removeFirst v =>
    obtain ⟨g, h⟩ := removeFirst_refines c q ⟨hI, hC⟩ v
    simp only [Prod.ext_iff] at h
    exact ⟨g, h.1, by simp only [Ring.step, Spec.step, h.2]⟩
  | removeLast v =>
    obtain ⟨g, h⟩ := removeLast_refines c q ⟨hI, hC⟩ v
    simp only [Prod.ext_iff] at h
    exact ⟨g, h.1, by simp only [Ring.step, Spec.step, h.2]⟩
  | removeAll v =>
    obtain ⟨g, h⟩ := removeAll_refines c q ⟨hI, hC⟩ v
    simp only [Prod.ext_iff] at h
    exact ⟨g, h.1, by simp only [Ring.step, Spec.step, h.2]⟩
  | insertSortedPos lt v =>
    obtain ⟨g, h⟩ := insertSortedPos_refines c q ⟨hI, hC⟩ lt v
    simp only [Prod.ext_iff] at h
    exact ⟨g, h.1, by simp only [Ring.step, Spec.step, h.2]⟩
  | removeSortedDups =>
    obtain ⟨g, h⟩ := removeSortedDups_refines c q ⟨hI, hC⟩
    simp only [Prod.ext_iff] at h
    exact ⟨g, h.1, by simp only [Ring.step, Spec.step, h.2]⟩
  | removeDups lt =>
    obtain ⟨g, h⟩ := removeDups_refines c q ⟨hI, hC⟩ lt
    simp only [Prod.ext_iff] at h
    exact ⟨g, h.1, by simp only [Ring.step, Spec.step, h.2]⟩
  | reverse a b => exact ⟨(reverse_refines c q ⟨hI, hC⟩ a b).1, (reverse_refines c q ⟨hI, hC⟩ a b).2, rfl⟩
  | addTailRaw =>
    have hcl : c.clear = true := hs
    have e : q.addTailRaw c = q.addTail c c.dflt := by
      have := addTailRaw_eq c q; rw [addTailRaw_default c hcl q ⟨hI, hC⟩] at this; exact this
    obtain ⟨a1, a2, a3⟩ := addTail_refines c q hI hC c.dflt
    simp only [Ring.step, Spec.step, e]
    exact ⟨⟨a1, a3⟩, a2, trivial⟩
  | addHeadRaw =>
    have hcl : c.clear = true := hs
    have e : q.addHeadRaw c = q.addHead c c.dflt := by
      have := addHeadRaw_eq c q; rw [addHeadRaw_default c hcl q ⟨hI, hC⟩] at this; exact this
    obtain ⟨a1, a2, a3⟩ := addHead_refines c q hI hC c.dflt
    simp only [Ring.step, Spec.step, e]
    exact ⟨⟨a1, a3⟩, a2, trivial⟩

theorem step_failure (q : Ring α) (hG : Good c q) (op : Op α) (hs : op.specified c) :
    ((q.step c op).2 = .err ↔ Spec.undefined (q.abs c) op) ∧ ((q.step c op).2 = .err → (q.step c op).1 = q) := by
  cases op with
  | removeHead =>
    simp only [Ring.step, Spec.undefined, Ring.removeHead, abs_length]
    by_cases h : q.count = 0 <;> simp [h]
  | removeTail =>
    simp only [Ring.step, Spec.undefined, Ring.removeTail, abs_length]
    by_cases h : q.count = 0 <;> simp [h]
  | getItemAt i =>
    simp only [Ring.step, Spec.undefined, Ring.getItemAt, abs_length]
    by_cases h : i < q.count
    · simp [h]
    · simp [h]; all_goals omega
  | replaceItemAt i v =>
    simp only [Ring.step, Spec.undefined, Ring.replaceItemAt, abs_length]
    by_cases h : i ≥ q.count
    · simp [h]; all_goals omega
    · simp [h]; all_goals omega
  | removeItemAt i =>
    simp only [Ring.step, Spec.undefined, Ring.removeItemAt, abs_length]
    by_cases h : i ≥ q.count
    · simp [h]; all_goals omega
    · simp [h]; all_goals omega
  | swap i j =>
    simp only [Ring.step, Spec.undefined, abs_length]
    by_cases h : i < q.count ∧ j < q.count
    · simp [h]
    · simp only [h, if_false, not_false_eq_true, true_and, implies_true, and_self]
  | normalize =>
    have := (normalize_refines c q hG).2.2
    simp [Ring.step, Spec.undefined, this]
  | removeFirst v =>
    obtain ⟨_, h⟩ := removeFirst_refines c q hG v
    simp only [Prod.ext_iff] at h
    simp only [Ring.step, Spec.undefined, ← h.2]
    constructor
    · cases hr : (q.removeFirst c v).2 <;> simp
    · intro he
      have hf : (q.removeFirst c v).2 = false := by cases hr : (q.removeFirst c v).2 <;> simp [hr] at he ⊢
      unfold Ring.removeFirst at hf ⊢
      cases hfu : Ring.findUp c q v 0 q.count with
      | none => rfl
      | some i =>
        rw [hfu] at hf; simp only at hf ⊢
        unfold Ring.removeItemAt at hf ⊢
        by_cases hi : i ≥ q.count
        · simp [hi]
        · simp [hi] at hf
  | removeLast v =>
    obtain ⟨_, h⟩ := removeLast_refines c q hG v
    simp only [Prod.ext_iff] at h
    simp only [Ring.step, Spec.undefined, ← h.2]
    constructor
    · cases hr : (q.removeLast c v).2 <;> simp
    · intro he
      have hf : (q.removeLast c v).2 = false := by cases hr : (q.removeLast c v).2 <;> simp [hr] at he ⊢
      unfold Ring.removeLast at hf ⊢
      cases hfu : Ring.findDown c q v 0 q.count with
      | none => rfl
      | some i =>
        rw [hfu] at hf; simp only at hf ⊢
        unfold Ring.removeItemAt at hf ⊢
        by_cases hi : i ≥ q.count
        · simp [hi]
        · simp [hi] at hf
  | _ => simp [Ring.step, Spec.undefined]

theorem inv_empty : Inv c (Ring.empty c) := by
  constructor <;> simp [Ring.empty, Ring.size, fresh]

theorem good_empty : Good c (Ring.empty c) := ⟨inv_empty c, fun hcl => clean_empty c hcl⟩

/-- a whole history on the real code / on the ideal sequence: final state and the list of results -/
def Ring.exec (q : Ring α) : List (Op α) → Ring α × List (Res α)
  | [] => (q, [])
  | op :: ops => let r := q.step c op; let rest := Ring.exec r.1 ops; (rest.1, r.2 :: rest.2)

def Spec.exec (dflt junk : α) (l : List α) : List (Op α) → List α × List (Res α)
  | [] => (l, [])
  | op :: ops => let r := Spec.step dflt junk l op; let rest := Spec.exec dflt junk r.1 ops; (rest.1, r.2 :: rest.2)

theorem exec_refines (q : Ring α) (hG : Good c q) (ops : List (Op α)) (hs : ∀ op, op ∈ ops → op.specified c) :
    Good c (q.exec c ops).1 ∧ (q.exec c ops).1.abs c = (Spec.exec c.dflt c.junk (q.abs c) ops).1 ∧
    (q.exec c ops).2 = (Spec.exec c.dflt c.junk (q.abs c) ops).2 := by
  induction ops generalizing q with
  | nil => exact ⟨hG, rfl, rfl⟩
  | cons op ops ih =>
    obtain ⟨h1, h2, h3⟩ := step_refines c q hG op (hs op (by simp))
    obtain ⟨i1, i2, i3⟩ := ih _ h1 (fun o ho => hs o (by simp [ho]))
    simp only [Ring.exec, Spec.exec]
    rw [← h2, ← h3]
    exact ⟨i1, i2, by rw [i3]⟩


/-! ## several Queues: calls that take another Queue as their argument, SwapContents, move and copy construction -/

/-- a call on a bank of Queue registers -/
inductive BOp (α : Type) where
  /-- a call on register `r` whose arguments are values -/
  | on (r : Nat) (op : Op α)
  /-- a call on register `r` whose Queue argument is register `s ≠ r` (`f` builds the call from the argument's content) -/
  | fromQ (r s : Nat) (f : List α → Op α)
  | swapContents (r s : Nat)
  /-- `regs[r] = std::move(regs[s])` -/
  | move (r s : Nat)
  /-- `regs[r]` is replaced by `Queue(std::move(regs[s]))` -/
  | moveCtor (r s : Nat)
  /-- `regs[r]` is replaced by `Queue(regs[s])` -/
  | copyCtor (r s : Nat)

/-- every single-Queue call inside is specified by the API (see `Op.specified`) -/
def BOp.specified (c : ItemCfg α) : BOp α → Prop
  | .on _ op => op.specified c
  | .fromQ _ _ f => ∀ xs, (f xs).specified c
  | _ => True

def upd {β : Type} (b : Nat → β) (r : Nat) (x : β) : Nat → β := fun i => if i = r then x else b i

/-- the real code on a bank of Queues -/
def bankStep (b : Nat → Ring α) : BOp α → (Nat → Ring α) × Res α
  | .on r op => let x := (b r).step c op; (upd b r x.1, x.2)
  | .fromQ r s f => if r = s then (b, .err) else let x := (b r).step c (f ((b s).abs c)); (upd b r x.1, x.2)
  | .swapContents r s => if r = s then (b, .ok) else let x := swapContents c (b r) (b s); (upd (upd b r x.1) s x.2, .ok)
  | .move r s => if r = s then (b, .ok) else let x := plunder c (b r) (b s); (upd (upd b r x.1) s x.2, .ok)
  | .moveCtor r s => if r = s then (b, .err) else let x := plunder c (Ring.empty c) (b s); (upd (upd b r x.1) s x.2, .ok)
  | .copyCtor r s => if r = s then (b, .err) else (upd b r ((Ring.empty c).assign c ((b s).abs c)), .ok)

/-- the ideal sequences -/
def Spec.bankStep (dflt junk : α) (a : Nat → List α) : BOp α → (Nat → List α) × Res α
  | .on r op => let x := Spec.step dflt junk (a r) op; (upd a r x.1, x.2)
  | .fromQ r s f => if r = s then (a, .err) else let x := Spec.step dflt junk (a r) (f (a s)); (upd a r x.1, x.2)
  | .swapContents r s => if r = s then (a, .ok) else (upd (upd a r (a s)) s (a r), .ok)
  | .move r s => if r = s then (a, .ok) else (upd (upd a r (a s)) s [], .ok)
  | .moveCtor r s => if r = s then (a, .err) else (upd (upd a r (a s)) s [], .ok)
  | .copyCtor r s => if r = s then (a, .err) else (upd a r (a s), .ok)

theorem bankStep_refines (b : Nat → Ring α) (hG : ∀ i, Good c (b i)) (op : BOp α) (hs : op.specified c) :
    (∀ i, Good c ((bankStep c b op).1 i)) ∧
    (fun i => ((bankStep c b op).1 i).abs c) = (Spec.bankStep c.dflt c.junk (fun i => (b i).abs c) op).1 ∧
    (bankStep c b op).2 = (Spec.bankStep c.dflt c.junk (fun i => (b i).abs c) op).2 := by
  cases op with
  | on r op =>
    obtain ⟨g, a, e⟩ := step_refines c (b r) (hG r) op hs
    refine ⟨?_, ?_, e⟩
    · intro i; simp only [bankStep, upd]; by_cases h : i = r
      · simp only [h, if_true]; exact g
      · simp only [h, if_false]; exact hG i
    · funext i; simp only [bankStep, Spec.bankStep, upd]; by_cases h : i = r
      · simp only [h, if_true]; exact a
      · simp only [h, if_false]
  | fromQ r s f =>
    simp only [bankStep, Spec.bankStep]
    by_cases hrs : r = s
    · simp only [hrs, if_true]; exact ⟨hG, (by triv), (by triv)⟩
    · simp only [hrs, if_false]
      obtain ⟨g, a, e⟩ := step_refines c (b r) (hG r) (f ((b s).abs c)) (hs _)
      refine ⟨?_, ?_, e⟩
      · intro i; simp only [upd]; by_cases h : i = r
        · simp only [h, if_true]; exact g
        · simp only [h, if_false]; exact hG i
      · funext i; simp only [upd]; by_cases h : i = r
        · simp only [h, if_true]; exact a
        · simp only [h, if_false]
  | swapContents r s =>
    simp only [bankStep, Spec.bankStep]
    by_cases hrs : r = s
    · simp only [hrs, if_true]; exact ⟨hG, (by triv), (by triv)⟩
    · simp only [hrs, if_false]
      obtain ⟨g1, g2, a1, a2⟩ := swapContents_refines c (b r) (b s) (hG r) (hG s)
      refine ⟨?_, ?_, (by triv)⟩
      · intro i; simp only [upd]; by_cases h2 : i = s
        · simp only [h2, if_true]; exact g2
        · simp only [h2, if_false]; by_cases h1 : i = r
          · simp only [h1, if_true]; exact g1
          · simp only [h1, if_false]; exact hG i
      · funext i; simp only [upd]; by_cases h2 : i = s
        · simp only [h2, if_true]; exact a2
        · simp only [h2, if_false]; by_cases h1 : i = r
          · simp only [h1, if_true]; exact a1
          · simp only [h1, if_false]
  | move r s =>
    simp only [bankStep, Spec.bankStep]
    by_cases hrs : r = s
    · simp only [hrs, if_true]; exact ⟨hG, (by triv), (by triv)⟩
    · simp only [hrs, if_false]
      obtain ⟨g1, g2, a1, a2⟩ := plunder_refines c (b r) (b s) (hG r) (hG s)
      refine ⟨?_, ?_, (by triv)⟩
      · intro i; simp only [upd]; by_cases h2 : i = s
        · simp only [h2, if_true]; exact g2
        · simp only [h2, if_false]; by_cases h1 : i = r
          · simp only [h1, if_true]; exact g1
          · simp only [h1, if_false]; exact hG i
      · funext i; simp only [upd]; by_cases h2 : i = s
        · simp only [h2, if_true]; exact a2
        · simp only [h2, if_false]; by_cases h1 : i = r
          · simp only [h1, if_true]; exact a1
          · simp only [h1, if_false]
  | moveCtor r s =>
    simp only [bankStep, Spec.bankStep]
    by_cases hrs : r = s
    · simp only [hrs, if_true]; exact ⟨hG, (by triv), (by triv)⟩
    · simp only [hrs, if_false]
      obtain ⟨g1, g2, a1, a2⟩ := plunder_refines c (Ring.empty c) (b s) (good_empty c) (hG s)
      refine ⟨?_, ?_, (by triv)⟩
      · intro i; simp only [upd]; by_cases h2 : i = s
        · simp only [h2, if_true]; exact g2
        · simp only [h2, if_false]; by_cases h1 : i = r
          · simp only [h1, if_true]; exact g1
          · simp only [h1, if_false]; exact hG i
      · funext i; simp only [upd]; by_cases h2 : i = s
        · simp only [h2, if_true]; exact a2
        · simp only [h2, if_false]; by_cases h1 : i = r
          · simp only [h1, if_true]; exact a1
          · simp only [h1, if_false]
  | copyCtor r s =>
    simp only [bankStep, Spec.bankStep]
    by_cases hrs : r = s
    · simp only [hrs, if_true]; exact ⟨hG, (by triv), (by triv)⟩
    · simp only [hrs, if_false]
      obtain ⟨g, a⟩ := assign_refines c (Ring.empty c) (good_empty c) ((b s).abs c)
      refine ⟨?_, ?_, (by triv)⟩
      · intro i; simp only [upd]; by_cases h : i = r
        · simp only [h, if_true]; exact g
        · simp only [h, if_false]; exact hG i
      · funext i; simp only [upd]; by_cases h : i = r
        · simp only [h, if_true]; rw [a]; rfl
        · simp only [h, if_false]

/-- histories on a bank of Queues -/
def bankExec (b : Nat → Ring α) : List (BOp α) → (Nat → Ring α) × List (Res α)
  | [] => (b, [])
  | op :: ops => let r := bankStep c b op; let rest := bankExec r.1 ops; (rest.1, r.2 :: rest.2)

def Spec.bankExec (dflt junk : α) (a : Nat → List α) : List (BOp α) → (Nat → List α) × List (Res α)
  | [] => (a, [])
  | op :: ops => let r := Spec.bankStep dflt junk a op; let rest := Spec.bankExec dflt junk r.1 ops; (rest.1, r.2 :: rest.2)

theorem bankExec_refines (b : Nat → Ring α) (hG : ∀ i, Good c (b i)) (ops : List (BOp α))
    (hs : ∀ op, op ∈ ops → op.specified c) :
    (∀ i, Good c ((bankExec c b ops).1 i)) ∧
    (fun i => ((bankExec c b ops).1 i).abs c) = (Spec.bankExec c.dflt c.junk (fun i => (b i).abs c) ops).1 ∧
    (bankExec c b ops).2 = (Spec.bankExec c.dflt c.junk (fun i => (b i).abs c) ops).2 := by
  induction ops generalizing b with
  | nil => exact ⟨hG, rfl, rfl⟩
  | cons op ops ih =>
    obtain ⟨h1, h2, h3⟩ := bankStep_refines c b hG op (hs op (by simp))
    obtain ⟨i1, i2, i3⟩ := ih _ h1 (fun o ho => hs o (by simp [ho]))
    simp only [bankExec, Spec.bankExec]
    rw [← h2, ← h3]
    exact ⟨i1, i2, by rw [i3]⟩

end Muscle.Containers
