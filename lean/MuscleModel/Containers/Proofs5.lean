import MuscleModel.Containers.Proofs4

/-! Auto-sorting tables: the iteration order stays sorted. -/

set_option linter.unusedSectionVars false
set_option linter.unusedSimpArgs false
set_option linter.unusedVariables false

namespace Muscle.Containers
variable {K V : Type} [DecidableEq K]

/-- what the comparison functor of an ordered table must satisfy (`Compare(a,b) < 0` as `lt a b`) -/
structure StrictWeak {α : Type} (lt : α → α → Bool) : Prop where
  asymm : ∀ a b, lt a b = true → lt b a = false
  negTrans : ∀ a b c, lt a c = true → lt a b = true ∨ lt b c = true

/-- no entry is greater than a later one -/
def Sorted {α : Type} (lt : α → α → Bool) (l : List α) : Prop := l.Pairwise (fun a b => lt b a = false)

section
variable {α : Type} {lt : α → α → Bool}

theorem StrictWeak.false_of (sw : StrictWeak lt) {a b c : α} (h1 : lt a b = false) (h2 : lt b c = false) : lt a c = false := by
  cases h : lt a c with
  | false => rfl
  | true =>
    rcases sw.negTrans a b c h with h' | h'
    · rw [h1] at h'; cases h'
    · rw [h2] at h'; cases h'

theorem sorted_mergeSort (sw : StrictWeak lt) (l : List α) : Sorted lt (l.mergeSort (fun a b => !lt b a)) := by
  have := List.pairwise_mergeSort (le := fun a b => !lt b a)
    (by
      intro a b c h1 h2
      simp only [Bool.not_eq_true'] at h1 h2 ⊢
      exact sw.false_of h2 h1)
    (by
      intro a b
      cases h : lt a b with
      | false => simp
      | true => simp [sw.asymm a b h])
    l
  exact this.imp (by intro a b h; simpa using h)

theorem sorted_assemble {A B : List α} {e : α} (hs : Sorted lt (A ++ B)) (ha : ∀ a ∈ A, lt e a = false) (hb : ∀ b ∈ B, lt b e = false) :
    Sorted lt (A ++ e :: B) := by
  unfold Sorted at hs ⊢
  rw [List.pairwise_append] at hs ⊢
  refine ⟨hs.1, ?_, ?_⟩
  · rw [List.pairwise_cons]; exact ⟨hb, hs.2.1⟩
  · intro a haA b hbB
    rcases List.mem_cons.mp hbB with rfl | hbB
    · exact ha a haA
    · exact hs.2.2 a haA b hbB

theorem mem_takeWhile_imp {p : α → Bool} {l : List α} {x : α} (h : x ∈ l.takeWhile p) : p x = true := by
  have := List.all_takeWhile (p := p) (l := l)
  rw [List.all_eq_true] at this
  exact this x h

end

section
variable {lt : K × V → K × V → Bool}
theorem le_of_last (sw : StrictWeak lt) {l : List (K × V)} {e : K × V} (hl : lastSat (fun b => lt e b) l = false) (hs : Sorted lt l) :
    ∀ a ∈ l, lt e a = false := by
  rcases List.eq_nil_or_concat l with rfl | ⟨t, z, rfl⟩
  · intro a ha; cases ha
  · rw [List.concat_eq_append] at hl hs ⊢
    simp only [lastSat, List.getLast?_append, List.getLast?_singleton, Option.some_or] at hl
    intro a ha
    rcases List.mem_append.mp ha with ha | ha
    · have hz : lt z a = false := (List.pairwise_append.mp hs).2.2 a ha z (by simp)
      exact sw.false_of hl hz
    · simp at ha; subst ha; exact hl

theorem ge_of_head (sw : StrictWeak lt) {l : List (K × V)} {e : K × V} (hl : headSat (fun b => lt b e) l = false) (hs : Sorted lt l) :
    ∀ b ∈ l, lt b e = false := by
  cases l with
  | nil => intro b hb; cases hb
  | cons z t =>
    simp only [headSat, List.head?_cons] at hl
    intro b hb
    rcases List.mem_cons.mp hb with rfl | hb
    · exact hl
    · have hz : lt b z = false := (List.pairwise_cons.mp hs).1 b hb
      exact sw.false_of hz hl

theorem headSat_dropWhile (p : K × V → Bool) (l : List (K × V)) : headSat p (l.dropWhile p) = false := by
  induction l with
  | nil => rfl
  | cons a r ih =>
    rw [List.dropWhile_cons]
    by_cases h : p a = true
    · simp only [h, if_true]; exact ih
    · simp only [h]; simp [headSat, h]

theorem lastSat_reverse (p : K × V → Bool) (l : List (K × V)) : lastSat p l.reverse = headSat p l := by
  simp [lastSat, headSat, List.getLast?_reverse]

end


variable {lt : K × V → K × V → Bool}

theorem sorted_sortBy (sw : StrictWeak lt) (m : OMap K V) : Sorted lt (sortBy lt m) := sorted_mergeSort sw m

theorem sorted_erase {m : OMap K V} (k : K) (h : Sorted lt m) : Sorted lt (erase m k) := List.Pairwise.filter _ h

theorem sorted_insRev (sw : StrictWeak lt) (e : K × V) {r : List (K × V)} (h : r.Pairwise (fun a b => lt a b = false)) :
    (insRev lt e r).Pairwise (fun a b => lt a b = false) := by
  induction r with
  | nil => simp [insRev]
  | cons x t ih =>
    rw [List.pairwise_cons] at h
    unfold insRev
    by_cases hx : lt e x = true
    · simp only [hx, if_true]
      rw [List.pairwise_cons]
      refine ⟨?_, ih h.2⟩
      intro y hy
      rcases List.mem_cons.mp ((insRev_perm lt e t).mem_iff.mp hy) with rfl | hy
      · exact sw.asymm _ _ hx
      · exact h.1 y hy
    · rw [if_neg hx]
      have hx' : lt e x = false := by simpa using hx
      rw [List.pairwise_cons]
      refine ⟨?_, List.pairwise_cons.mpr h⟩
      intro y hy
      rcases List.mem_cons.mp hy with rfl | hy
      · exact hx'
      · exact sw.false_of hx' (h.1 y hy)

theorem sorted_insertInOrder (sw : StrictWeak lt) (e : K × V) {m : OMap K V} (h : Sorted lt m) : Sorted lt (insertInOrder lt e m) := by
  unfold insertInOrder
  cases m with
  | nil => simp [Sorted]
  | cons hd t =>
    simp only
    by_cases hl : lt e hd = true
    · simp only [hl, if_true]
      have := sorted_assemble (A := []) (B := hd :: t) (e := e) (by simpa using h) (by intro a ha; cases ha)
        (ge_of_head sw (by simp [headSat, sw.asymm _ _ hl]) h)
      simpa using this
    · rw [if_neg hl]
      unfold Sorted
      rw [List.pairwise_reverse]
      apply sorted_insRev sw
      have : (hd :: t).reverse.Pairwise (fun a b => lt a b = false) := by
        rw [List.pairwise_reverse]; exact h
      exact this

theorem splitAtKey_erase {m : OMap K V} {k : K} {pre post : OMap K V} {e : K × V} (hn : (keys m).Nodup)
    (h : splitAtKey m k = some (pre, e, post)) : erase m k = pre ++ post := by
  obtain ⟨hm, he⟩ := splitAtKey_eq h
  subst hm
  have hnn : (keys pre ++ e.1 :: keys post).Nodup := by simpa using hn
  obtain ⟨h1, h2⟩ := nodup_middle_not_mem hnn
  rw [he] at h1 h2
  have e1 : erase (pre ++ e :: post) k = erase pre k ++ erase (e :: post) k := by simp [erase]
  rw [e1, erase_cons_eq post he, erase_of_not_mem h1, erase_of_not_mem h2]

/-- `MoveIterationEntryToCorrectPosition` puts the one entry that may be out of place where it belongs -/
theorem sorted_repositionM (sw : StrictWeak lt) {m : OMap K V} (k : K) (hn : (keys m).Nodup) (h : Sorted lt (erase m k)) :
    Sorted lt (repositionM lt m k).1 := by
  unfold repositionM
  cases hs : splitAtKey m k with
  | none => simp only; rw [← erase_of_not_mem (splitAtKey_none hs)]; exact h
  | some t =>
    obtain ⟨pre, e, post⟩ := t
    rw [splitAtKey_erase hn hs] at h
    obtain ⟨hm, _⟩ := splitAtKey_eq hs
    simp only
    have hpre : Sorted lt pre := (List.pairwise_append.mp h).1
    have hpost : Sorted lt post := (List.pairwise_append.mp h).2.1
    have hcross := (List.pairwise_append.mp h).2.2
    by_cases c1 : lastSat (fun b => lt e b) pre = true
    · simp only [c1, if_true]
      by_cases c2 : headSat (fun h => lt e h) pre = true
      · simp only [c2, if_true]
        have hb : ∀ b ∈ pre ++ post, lt b e = false := by
          apply ge_of_head sw _ h
          cases pre with
          | nil => simp [headSat] at c2
          | cons z t =>
            simp only [headSat, List.head?_cons] at c2
            simp [headSat, sw.asymm _ _ c2]
        have := sorted_assemble (A := []) (e := e) (by simpa using h) (by intro a ha; cases ha) hb
        simpa using this
      · simp only [c2]
        have hsplit := takeWhile_rev_split (fun x => lt e x) pre
        have hrun : ∀ b ∈ (pre.reverse.takeWhile (fun x => lt e x)).reverse, lt e b = true := by
          intro b hb
          rw [List.mem_reverse] at hb
          exact (mem_takeWhile_imp hb)
        have hkeep : lastSat (fun x => lt e x) (pre.reverse.dropWhile (fun x => lt e x)).reverse = false := by
          rw [lastSat_reverse]; exact headSat_dropWhile _ _
        -- the last entry of `pre` belongs to the run
        have hz : ∃ z, z ∈ (pre.reverse.takeWhile (fun x => lt e x)).reverse ∧ z ∈ pre := by
          rcases List.eq_nil_or_concat pre with rfl | ⟨t, z, rfl⟩
          · simp [lastSat] at c1
          · rw [List.concat_eq_append] at c1 ⊢
            simp only [lastSat, List.getLast?_append, List.getLast?_singleton, Option.some_or] at c1
            refine ⟨z, ?_, by simp⟩
            simp [List.takeWhile_cons, c1]
        generalize (pre.reverse.dropWhile fun x => lt e x).reverse = keep at hsplit hkeep ⊢
        generalize (pre.reverse.takeWhile fun x => lt e x).reverse = run at hsplit hrun hz ⊢
        subst hsplit
        have h' : Sorted lt (keep ++ (run ++ post)) := by simpa using h
        apply sorted_assemble h'
        · exact le_of_last sw hkeep (List.pairwise_append.mp h').1
        · intro b hb
          rcases List.mem_append.mp hb with hb | hb
          · exact sw.asymm _ _ (hrun b hb)
          · obtain ⟨z, hz1, hz2⟩ := hz
            have hbz : lt b z = false := hcross z hz2 b hb
            exact sw.false_of hbz (sw.asymm _ _ (hrun z hz1))
    · simp only [c1]
      have c1' : lastSat (fun b => lt e b) pre = false := by simpa using c1
      by_cases c3 : headSat (fun b => lt b e) post = true
      · simp only [c3, if_true]
        by_cases c4 : lastSat (fun t => lt t e) post = true
        · simp only [c4, if_true]
          have ha : ∀ a ∈ pre ++ post, lt e a = false := by
            apply le_of_last sw _ h
            rcases List.eq_nil_or_concat post with rfl | ⟨t, z, rfl⟩
            · simp [lastSat] at c4
            · rw [List.concat_eq_append] at c4 ⊢
              simp only [lastSat, List.getLast?_append, List.getLast?_singleton, Option.some_or] at c4
              simp [lastSat, List.getLast?_append, sw.asymm _ _ c4]
          have := sorted_assemble (B := []) (e := e) (by simpa using h) ha (by intro b hb; cases hb)
          simpa using this
        · simp only [c4]
          have hsplit := List.takeWhile_append_dropWhile (p := fun x => lt x e) (l := post)
          have htw : ∀ b ∈ post.takeWhile (fun x => lt x e), lt b e = true := fun b hb => mem_takeWhile_imp (p := fun x => lt x e) hb
          have hdw : headSat (fun x => lt x e) (post.dropWhile (fun x => lt x e)) = false := headSat_dropWhile _ _
          have hz : ∃ z, z ∈ post.takeWhile (fun x => lt x e) := by
            cases post with
            | nil => simp [headSat] at c3
            | cons z t =>
              simp only [headSat, List.head?_cons] at c3
              exact ⟨z, by simp [List.takeWhile_cons, c3]⟩
          generalize post.takeWhile (fun x => lt x e) = tw at hsplit htw hz ⊢
          generalize post.dropWhile (fun x => lt x e) = dw at hsplit hdw ⊢
          subst hsplit
          have h' : Sorted lt ((pre ++ tw) ++ dw) := by simpa using h
          have := sorted_assemble (e := e) h' ?_ ?_
          · simpa using this
          · intro a ha
            rcases List.mem_append.mp ha with ha | ha
            · obtain ⟨z, hz⟩ := hz
              have hza : lt z a = false := hcross a ha z (by simp [hz])
              exact sw.false_of (sw.asymm _ _ (htw z hz)) hza
            · exact sw.asymm _ _ (htw a ha)
          · exact ge_of_head sw hdw (List.pairwise_append.mp h').2.1
      · simp only [c3]
        have c3' : headSat (fun b => lt b e) post = false := by simpa using c3
        rw [hm]
        exact sorted_assemble h (le_of_last sw c1' hpre) (ge_of_head sw c3' hpost)

theorem erase_setVal (m : OMap K V) (k : K) (v : V) : erase (setVal m k v) k = erase m k := by
  induction m with
  | nil => rfl
  | cons p r ih =>
    by_cases hp : p.1 = k
    · rw [setVal_cons_eq v r hp, erase_cons_eq _ rfl, erase_cons_eq r hp, ih]
    · rw [setVal_cons_ne v r hp, erase_cons_ne _ hp, erase_cons_ne r hp, ih]

namespace Tab

/-- `Put` on an auto-sorting table keeps it sorted -/
theorem sorted_putAux (sw : StrictWeak lt) {tb : Tab K V} (k : K) (v : V) (hn : (keys tb.m).Nodup) (ha : tb.autoSort = true)
    (h : Sorted lt tb.m) : Sorted lt (tb.putAux (some lt) k v).m := by
  unfold putAux
  by_cases hh : has tb.m k = true
  · simp only [hh, if_true, valueChanged, ha, Bool.not_true, Bool.and_false, Bool.false_eq_true, if_false, reposition]
    have hs := sorted_repositionM sw (m := setVal tb.m k v) k (by simpa using hn) (by rw [erase_setVal]; exact sorted_erase k h)
    split
    · exact hs
    · rename_i hf
      have := repositionM_snd_false lt (setVal tb.m k v) k (by simpa using hf)
      rw [this] at hs; exact hs
  · simp only [hh, linkNew, ha, if_true]
    exact sorted_insertInOrder sw _ h

theorem sorted_reposition (sw : StrictWeak lt) {tb : Tab K V} (k : K) (hn : (keys tb.m).Nodup)
    (h : Sorted lt (erase tb.m k)) : Sorted lt (tb.reposition (some lt) k).m := by
  simp only [reposition]
  have hs := sorted_repositionM sw (m := tb.m) k hn h
  split
  · exact hs
  · rename_i hf
    have := repositionM_snd_false lt tb.m k (by simpa using hf)
    rw [this] at hs; exact hs

theorem sorted_removeKey {tb : Tab K V} (k : K) (h : Sorted lt tb.m) : Sorted lt (tb.removeKey k).m := by
  unfold removeKey
  split
  · exact sorted_erase k h
  · exact h

theorem sorted_foldl_removeKey (ks : List K) {tb : Tab K V} (h : Sorted lt tb.m) : Sorted lt (ks.foldl removeKey tb).m := by
  induction ks generalizing tb with
  | nil => exact h
  | cons k r ih => simp only [List.foldl_cons]; exact ih (sorted_removeKey k h)

theorem sorted_copyFrom (sw : StrictWeak lt) (tb : Tab K V) (src : OMap K V) (cf : Bool) (h : Sorted lt tb.m) :
    Sorted lt (tb.copyFrom (some lt) src cf).m := by
  unfold copyFrom
  have h1 : Sorted lt (if cf then tb.clear else tb).m := by
    cases cf
    · simpa using h
    · simp [clear, Sorted]
  generalize (if cf then tb.clear else tb) = t1 at h1
  simp only
  split
  · exact h1
  · exact sorted_sortBy sw _

end Tab
end Muscle.Containers
