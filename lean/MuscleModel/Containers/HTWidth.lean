import MuscleModel.Generated.Constants

/-!
# Index-width kernel of `muscle::Hashtable`

A table with `tableSize` slots stores its links (`_indices[]`) as 8-, 16- or 32-bit slot indices chosen by
`HashtableBase::ComputeTableIndexTypeForTableSize(tableSize)`; the all-ones value of the chosen type is the
"no slot" sentinel (`(IndexType)-1`, mapped to `MUSCLE_HASHTABLE_INVALID_SLOT_INDEX` by `GetEntryIndexValue`).
`Gen.htIndexType` / `Gen.htIndexBytes` are regenerated from the compiled headers on every run
(tools/extract_consts.cpp measures `GetTotalDataSize()` per capacity).
-/

namespace Muscle.Containers
open Muscle.Gen

/-- number of values of the index type `ty` -/
def indexRange (ty : Nat) : Nat := 2 ^ (8 * htIndexBytes ty)

/-- `(IndexType)-1` -/
def indexSentinel (ty : Nat) : Nat := indexRange ty - 1

/-- every slot index of a table with `n` slots is representable in the index type chosen for `n` and differs
    from that type's sentinel (`n < 2^32`: `_tableSize` is a `uint32`, and `EnsureSize` refuses `MUSCLE_NO_LIMIT`) -/
theorem width_safe_aux (n i : Nat) (hn : n < 2 ^ 32) (hi : i < n) :
    i < indexRange (htIndexType n) ∧ i ≠ indexSentinel (htIndexType n) := by
  unfold indexSentinel indexRange htIndexType htIndexBytes
  -- split on the regenerated thresholds themselves, so that a harmless retuning does not break the proof
  by_cases h1 : n ≥ htIndexThreshold16 <;> by_cases h2 : n ≥ htIndexThreshold32 <;>
    simp only [h1, h2, if_true, if_false] <;>
    simp only [htIndexThreshold16, htIndexThreshold32, htIndexBytes0, htIndexBytes1, htIndexBytes2] at h1 h2 ⊢ <;>
    simp <;> omega

end Muscle.Containers
