import MuscleModel.Containers.OMap

/-!
# A Hashtable with its registry of live iterators (util/Hashtable.h, util/HashtableIterator.h)

`Iter` is the observable state of a `HashtableIteratorImp`: `cur` = key of the entry `_iterCookie`
points at (`none` = NULL cookie), `scratch` = `_scratchKeyAndValue` when constructed, `back` =
`HTIT_FLAG_BACKWARDS`.  `Tab` = iteration list + the iterators registered in `_iterList` + the
`_autoSortEnabled` flag.  `lt?` is the entry comparison of the table kind: `none` for `Hashtable`,
`some (Compare(e1,e2) < 0)` for `OrderedKeysHashtable` / `OrderedValuesHashtable`.

Reallocation (`EnsureSize`, growth inside `PutAux`) re-points every registered iterator at the clone
of its entry and keeps the order, so it is the identity at this level.  An iterator whose table was
cleared/destroyed (`_owner = NULL`) and an unregistered one (`HTIT_FLAG_NOREGISTER` set because the
start cookie was NULL) both behave as `cur = none` for ever; they are represented that way.
-/

namespace Muscle.Containers

structure Iter (K V : Type) where
  cur : Option K
  scratch : Option (K × V)
  back : Bool
deriving Repr

structure Tab (K V : Type) where
  m : OMap K V
  its : List (Iter K V)
  autoSort : Bool
  /-- code-version switch (finding R3): `false` = `OrderedHashtable::MoveIterationEntryToCorrectPositionAux` ignores
      `_autoSortEnabled` (util/Hashtable.h as of this writing: `Put` on an existing key re-positions the entry even
      when auto-sort is off); `true` = it returns immediately when auto-sort is off (proposed repair).  The
      correspondence harness probes the real code and passes the answer on the `init` line. -/
  respectFlag : Bool := false

section
variable {K V : Type} [DecidableEq K]

namespace Iter

/-- `HasData()/GetKey()/GetValue()` via `UpdateKeyAndValuePointers`: the scratch pair if constructed,
    else the entry under the cookie -/
def peek (m : OMap K V) (it : Iter K V) : Option (K × V) :=
  match it.scratch with
  | some p => some p
  | none => match it.cur with
    | some k => (get m k).map (fun v => (k, v))
    | none => none

/-- what `RemoveIterationEntry(e)` does to one registered iterator (`e` has key `k` in `m`) -/
def onRemove (m : OMap K V) (k : K) (it : Iter K V) : Iter K V :=
  if it.cur = some k then
    { cur := nbr m it.back k
      scratch := match it.scratch with
        | some p => some p
        | none => (get m k).map (fun v => (k, v))
      back := it.back }
  else it

/-- what `Clear()` (also `~HashtableBase`) does to one registered iterator: `SetScratchValues` from the
    cookie (overwriting an existing scratch pair), `_owner = _iterCookie = NULL` -/
def onClear (m : OMap K V) (it : Iter K V) : Iter K V :=
  { cur := none
    scratch := match it.cur with
      | some k => (match get m k with | some v => some (k, v) | none => it.scratch)
      | none => it.scratch
    back := it.back }

/-- `operator++(int)`: drop the scratch pair if there is one, else follow the link in the iterator's direction -/
def next (m : OMap K V) (it : Iter K V) : Iter K V :=
  match it.scratch with
  | some _ => { it with scratch := none }
  | none => { it with cur := it.cur.bind (nbr m it.back) }

/-- `operator--(int)`: `SetBackwards(!b); (*this)++; SetBackwards(b)` -/
def prev (m : OMap K V) (it : Iter K V) : Iter K V :=
  match it.scratch with
  | some _ => { it with scratch := none }
  | none => { it with cur := it.cur.bind (nbr m (!it.back)) }

/-- `HashtableIteratorImp(table, flags)` via `InitializeIterator` -/
def start (m : OMap K V) (back : Bool) : Iter K V :=
  { cur := (dirKeys m back).head?, scratch := none, back := back }

/-- `HashtableIteratorImp(table, startAt, flags)` via `InitializeIteratorAt` -/
def startAt (m : OMap K V) (k : K) (back : Bool) : Iter K V :=
  { cur := if has m k then some k else none, scratch := none, back := back }

end Iter

namespace Tab
variable (lt? : Option (K × V → K × V → Bool))

def empty : Tab K V := { m := [], its := [], autoSort := true }

/-- `RemoveIterationEntry(e)`'s loop over `_iterList` -/
def patch (tb : Tab K V) (k : K) : Tab K V := { tb with its := tb.its.map (Iter.onRemove tb.m k) }

/-- `RemoveEntry` -/
def removeKey (tb : Tab K V) (k : K) : Tab K V :=
  if has tb.m k then { (tb.patch k) with m := erase tb.m k } else tb

/-- `MoveToFrontAux` (no-op when already first) -/
def moveFrontAux (tb : Tab K V) (k : K) : Tab K V :=
  if (keys tb.m).head? = some k ∨ !has tb.m k then tb else { (tb.patch k) with m := toFront tb.m k }

/-- `MoveToBackAux` (no-op when already last) -/
def moveBackAux (tb : Tab K V) (k : K) : Tab K V :=
  if (keys tb.m).getLast? = some k ∨ !has tb.m k then tb else { (tb.patch k) with m := toBack tb.m k }

/-- `MoveToBeforeAux(e, f)` (no-op when `e` is already just before `f`) -/
def moveBeforeAux (tb : Tab K V) (k f : K) : Tab K V :=
  if nbr tb.m false k = some f then tb else { (tb.patch k) with m := toBefore tb.m k f }

/-- `MoveToBehindAux(e, d)` (no-op when `e` is already just behind `d`) -/
def moveBehindAux (tb : Tab K V) (k d : K) : Tab K V :=
  if nbr tb.m true k = some d then tb else { (tb.patch k) with m := toBehind tb.m k d }

/-- `MoveToPositionAux` -/
def movePosAux (tb : Tab K V) (k : K) (idx : Nat) : Tab K V :=
  if idx = 0 then tb.moveFrontAux k
  else if idx ≥ tb.m.length then tb.moveBackAux k
  else { (tb.patch k) with m := toPos tb.m k idx }

/-- `OrderedHashtable::MoveIterationEntryToCorrectPositionAux` (empty for `Hashtable`) -/
def reposition (tb : Tab K V) (k : K) : Tab K V :=
  match lt? with
  | none => tb
  | some lt =>
    let r := repositionM lt tb.m k
    if r.2 then { (tb.patch k) with m := r.1 } else tb

/-- the CRTP hook `MoveIterationEntryToCorrectPositionAux(e)` as `PutAux` (and a repaired `SwapWithTable`) call it
    after giving the existing entry `k` a new value -/
def valueChanged (tb : Tab K V) (k : K) : Tab K V :=
  if tb.respectFlag && !tb.autoSort then tb else tb.reposition lt? k

/-- `InsertIterationEntryAux` of the table kind -/
def linkNew (tb : Tab K V) (k : K) (v : V) : OMap K V :=
  match lt? with
  | none => tb.m ++ [(k, v)]
  | some lt => if tb.autoSort then insertInOrder lt (k, v) tb.m else tb.m ++ [(k, v)]

/-- `HashtableMid::PutAux` (growth is invisible here) -/
def putAux (tb : Tab K V) (k : K) (v : V) : Tab K V :=
  if has tb.m k then valueChanged lt? { tb with m := setVal tb.m k v } k
  else { tb with m := linkNew lt? tb k v }

def putAtFront (tb : Tab K V) (k : K) (v : V) : Tab K V := (putAux lt? tb k v).moveFrontAux k
def putAtBack (tb : Tab K V) (k : K) (v : V) : Tab K V := (putAux lt? tb k v).moveBackAux k

/-- `PutBefore(key, placeBeforeMe, v)` -/
def putBefore (tb : Tab K V) (k f : K) (v : V) : Tab K V :=
  let t1 := putAux lt? tb k v
  if has t1.m f ∧ k ≠ f then t1.moveBeforeAux k f else t1

/-- `PutBehind(key, placeBehindMe, v)` -/
def putBehind (tb : Tab K V) (k d : K) (v : V) : Tab K V :=
  let t1 := putAux lt? tb k v
  if has t1.m d ∧ k ≠ d then t1.moveBehindAux k d else t1

def putAtPosition (tb : Tab K V) (k : K) (idx : Nat) (v : V) : Tab K V := (putAux lt? tb k v).movePosAux k idx

/-- `Clear()` / destructor: every registered iterator is detached -/
def clear (tb : Tab K V) : Tab K V := { tb with m := [], its := tb.its.map (Iter.onClear tb.m) }

/-- `SortByKey/SortByValue/Sort`: links are rewritten in place, iterators are not touched -/
def sort (tb : Tab K V) (lt : K × V → K × V → Bool) : Tab K V := { tb with m := sortBy lt tb.m }

/-- one step of `CopyFromAux`: existing key ⇒ overwrite the value in place, else link at the tail -/
def copyOne (m : OMap K V) (p : K × V) : OMap K V := if has m p.1 then setVal m p.1 p.2 else m ++ [p]

/-- `HashtableMid::CopyFrom(rhs, clearFirst)` for `rhs ≠ *this` (`SortAux` at the end for ordered kinds).
    (`CopyFromAux` skips the lookup when the table was empty; `rhs` has no duplicate keys, so that is
    the same function.) -/
def copyFrom (tb : Tab K V) (src : OMap K V) (clearFirst : Bool) : Tab K V :=
  let t1 := if clearFirst then tb.clear else tb
  if src.isEmpty then t1
  else
    let m2 := src.foldl copyOne t1.m
    { t1 with m := match lt? with | some lt => sortBy lt m2 | none => m2 }

/-- `Remove(const HashtableBase & pairs)` for `pairs ≠ *this` -/
def removeAll (tb : Tab K V) (ks : List K) : Tab K V := ks.foldl removeKey tb

/-- `Intersect(pairs)`: walk our own list, remove what `pairs` lacks -/
def intersect (tb : Tab K V) (other : OMap K V) : Tab K V :=
  ((keys tb.m).filter (fun k => !has other k)).foldl removeKey tb

/-- `OrderedHashtable::SetAutoSortEnabled(enabled, sortNow)` -/
def setAutoSort (tb : Tab K V) (en sortNow : Bool) : Tab K V :=
  if en = tb.autoSort then tb
  else
    let t1 := { tb with autoSort := en }
    match lt? with
    | some lt => if sortNow && en then t1.sort lt else t1
    | none => t1

/- iterator life cycle -/
def itNew (tb : Tab K V) (back : Bool) : Tab K V := { tb with its := tb.its ++ [Iter.start tb.m back] }
def itAt (tb : Tab K V) (k : K) (back : Bool) : Tab K V := { tb with its := tb.its ++ [Iter.startAt tb.m k back] }
def itModify (tb : Tab K V) (i : Nat) (f : Iter K V → Iter K V) : Tab K V := { tb with its := tb.its.modify i f }
def itNext (tb : Tab K V) (i : Nat) : Tab K V := tb.itModify i (Iter.next tb.m)
def itPrev (tb : Tab K V) (i : Nat) : Tab K V := tb.itModify i (Iter.prev tb.m)
def itSetBack (tb : Tab K V) (i : Nat) (b : Bool) : Tab K V := tb.itModify i (fun it => { it with back := b })
def itDrop (tb : Tab K V) (i : Nat) : Tab K V := { tb with its := tb.its.eraseIdx i }
def itCopy (tb : Tab K V) (i : Nat) : Tab K V :=
  match tb.its[i]? with
  | some it => { tb with its := tb.its ++ [it] }
  | none => tb

end Tab

/-- every state-changing operation of one table (parameters already resolved to values) -/
inductive Op (K V : Type) where
  | put (k : K) (v : V)
  | putAtFront (k : K) (v : V)
  | putAtBack (k : K) (v : V)
  | putBefore (k f : K) (v : V)
  | putBehind (k d : K) (v : V)
  | putAtPosition (k : K) (idx : Nat) (v : V)
  | remove (k : K)
  | removeAll (ks : List K)
  | intersect (other : OMap K V)
  | clear
  | moveToFront (k : K)
  | moveToBack (k : K)
  | moveToBefore (k f : K)
  | moveToBehind (k d : K)
  | moveToPosition (k : K) (idx : Nat)
  | reposition (k : K)
  | sortBy (lt : K × V → K × V → Bool)
  | setAutoSort (en sortNow : Bool)
  | copyFrom (src : OMap K V) (clearFirst : Bool)
  | realloc                       -- EnsureSize / ShrinkToFit / EnsureCanPut / growth
  | itNew (back : Bool)
  | itAt (k : K) (back : Bool)
  | itNext (i : Nat)
  | itPrev (i : Nat)
  | itSetBack (i : Nat) (b : Bool)
  | itDrop (i : Nat)
  | itCopy (i : Nat)

/-- the public mutators (`MoveToFront` … return an error and change nothing when a key is missing) -/
def Tab.apply (lt? : Option (K × V → K × V → Bool)) (tb : Tab K V) : Op K V → Tab K V
  | .put k v => tb.putAux lt? k v
  | .putAtFront k v => tb.putAtFront lt? k v
  | .putAtBack k v => tb.putAtBack lt? k v
  | .putBefore k f v => tb.putBefore lt? k f v
  | .putBehind k d v => tb.putBehind lt? k d v
  | .putAtPosition k i v => tb.putAtPosition lt? k i v
  | .remove k => tb.removeKey k
  | .removeAll ks => tb.removeAll ks
  | .intersect o => tb.intersect o
  | .clear => tb.clear
  | .moveToFront k => tb.moveFrontAux k
  | .moveToBack k => tb.moveBackAux k
  | .moveToBefore k f => if has tb.m k ∧ has tb.m f ∧ k ≠ f then tb.moveBeforeAux k f else tb
  | .moveToBehind k d => if has tb.m k ∧ has tb.m d ∧ k ≠ d then tb.moveBehindAux k d else tb
  | .moveToPosition k i => if has tb.m k then tb.movePosAux k i else tb
  | .reposition k => tb.reposition lt? k
  | .sortBy lt => tb.sort lt
  | .setAutoSort en now => tb.setAutoSort lt? en now
  | .copyFrom src cf => tb.copyFrom lt? src cf
  | .realloc => tb
  | .itNew b => tb.itNew b
  | .itAt k b => tb.itAt k b
  | .itNext i => tb.itNext i
  | .itPrev i => tb.itPrev i
  | .itSetBack i b => tb.itSetBack i b
  | .itDrop i => tb.itDrop i
  | .itCopy i => tb.itCopy i

end
end Muscle.Containers
