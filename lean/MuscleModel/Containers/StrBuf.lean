import MuscleModel.Containers.StrSpec

/-!
# The buffer layer of `muscle::String` (C17)

`Buf` is the representation: storage mode (`inl` = the in-object small buffer is in use,
`IsArrayDynamicallyAllocated() = !inl`), the cached length and the bytes of the buffer
(`cap = bytes.length = GetNumAllocatedBytes()`).  `small = String::GetMaxShortStringLength()` is a
parameter (regenerated as `Muscle.Gen.strSmallLen`); the inline buffer has `small+1` bytes (the last
one is `_ssoFreeBytesLeft`, which doubles as the NUL of a full small string — that aliasing of the
length byte is not modelled: `len` is a separate field in both modes).

Every function mirrors the named C++ function statement by statement: `memmove`/`memcpy` are
"read the source bytes, then `writeAt`"; a source operand is either separate memory (`ext`) or a pointer
into / a reference to the String itself (`own off` / `self`), and is read from the buffer *as it is at
that point of the C++ code* (so a reallocation that loses the old contents would be visible).
Freshly allocated and vacated bytes are `junk`; no result may depend on them (that is the refinement
theorem).  Not modelled: allocation failure and the `B_RESOURCE_LIMIT` checks (lengths ≥ 2^31 − 2).
-/

namespace Muscle.Containers.StrBuf
open Muscle Muscle.Containers

structure Buf where
  inl : Bool
  len : Nat
  bytes : Bytes
deriving Repr, BEq

/-- `GetNumAllocatedBytes()` -/
def Buf.cap (b : Buf) : Nat := b.bytes.length

/-- the value: `Cstr()[0 .. Length())` -/
def abs (b : Buf) : Bytes := b.bytes.take b.len

def junkByte : UInt8 := 0xAA
def junk (n : Nat) : Bytes := List.replicate n junkByte

/-- store `data` at offset `pos` (a `memcpy`/`memmove` destination, or a single byte store) -/
def writeAt (m : Bytes) (pos : Nat) (data : Bytes) : Bytes :=
  m.take pos ++ (data ++ m.drop (pos + data.length))

/-- `const String &` operand: a separate String, or `*this` -/
inductive Arg
  | ext (d : Bytes)
  | self
deriving Repr

/-- `const char *` operand: a separate NUL-terminated array holding `d`, or `Cstr()+off` -/
inductive Ptr
  | ext (d : Bytes)
  | own (off : Nat)
deriving Repr

/-- value of a `const String &` operand -/
def Arg.val (s : Bytes) : Arg → Bytes
  | .ext d => d
  | .self => s

/-- C string seen through a `const char *` operand when the String's value is `s` -/
def Ptr.val (s : Bytes) : Ptr → Bytes
  | .ext d => StrSpec.cstr d
  | .own off => s.drop off

/-- `other.Length()` of a `const String &` operand -/
def Arg.len (b : Buf) : Arg → Nat
  | .ext d => d.length
  | .self => b.len

/-- `n` bytes read at `other()+first`, with the buffer as it is now -/
def Arg.read (b : Buf) (first n : Nat) : Arg → Bytes
  | .ext d => (d.drop first).take n
  | .self => (b.bytes.drop first).take n

/-- the `n+1` bytes at `other()` (value and terminator), with the buffer as it is now -/
def Arg.readZ (b : Buf) (n : Nat) : Arg → Bytes
  | .ext d => d ++ [0]
  | .self => b.bytes.take (n + 1)

/-- the memory a pointer operand points to, as it is now -/
def memAt (b : Buf) : Ptr → Bytes
  | .ext d => d ++ [0]
  | .own off => b.bytes.drop off

/-- `IsCharInLocalArray(p)` (decided by provenance instead of by address comparison) -/
def isLocal : Ptr → Bool
  | .ext _ => false
  | .own _ => true

/-- a default-constructed String (`ClearShortStringBuffer`) -/
def empty (small : Nat) : Buf := { inl := true, len := 0, bytes := writeAt (junk (small+1)) 0 [0] }

/-- `String::ClearAndFlush` -/
def clearAndFlush (small : Nat) (_b : Buf) : Buf := empty small

/-- `String::Clear` -/
def clear (b : Buf) : Buf := { b with len := 0, bytes := writeAt b.bytes 0 [0] }

/-- smallest power of two `≥ n`, by doubling (`NextPowerOfTwo`, for `1 ≤ n ≤ 2^31`) -/
def nextPow2Aux : Nat → Nat → Nat → Nat
  | 0, p, _ => p
  | f+1, p, n => if n ≤ p then p else nextPow2Aux f (2*p) n
def nextPow2 (n : Nat) : Nat := nextPow2Aux n 1 n

/-- `String::GetNextBufferSize` -/
def nextBufferSize (small bufLen : Nat) : Nat :=
  if bufLen < 32 then bufLen + small
  else
    let geomLen := nextPow2 ((bufLen - 1) * 2)
    if geomLen < 4096 - 12 then geomLen
    else ((bufLen + 12) / 4096 + 1) * 4096 - 12

/-- `String::EnsureBufferSize(requestedBufLen, retainValue, allowShrink)` -/
def ensureBufferSize (small : Nat) (b : Buf) (req : Nat) (retain allowShrink : Bool) : Buf :=
  let bufferLen := b.cap
  if (if allowShrink then req == bufferLen else decide (req ≤ bufferLen)) then b
  else
    let wasDyn := !b.inl
    let newBufLen :=
      if allowShrink || decide (req ≤ small + 1) || (b.len == 0 && !wasDyn) then req else nextBufferSize small req
    if newBufLen == 0 then clearAndFlush small b
    else
      let oldStrlen := b.len
      let goSmall := allowShrink && decide (newBufLen ≤ small + 1)
      let newMax := newBufLen - 1
      -- `newBuf[muscleMin(Length(), newMaxLength)] = '\0'; SetBuffer(newBuf, newBufLen, oldStrlen)`
      let finish (nb : Bytes) : Buf := { inl := false, len := oldStrlen, bytes := writeAt nb (min oldStrlen newMax) [0] }
      if retain then
        if wasDyn then
          if goSmall then
            -- `_shortStringData.SetBuffer(bigBuffer, oldStrlen)`: memcpy + terminator (for `oldStrlen = small` the
            -- terminator is the length byte `_ssoFreeBytesLeft`, set to 0 by `SetLength`); the heap buffer is freed
            { inl := true, len := oldStrlen,
              bytes := writeAt (writeAt (junk (small+1)) 0 (b.bytes.take oldStrlen)) oldStrlen [0] }
          else
            -- `muscleRealloc`: the first min(old, new) bytes survive
            finish (b.bytes.take newBufLen ++ junk (newBufLen - b.cap))
        else
          if goSmall then
            -- `_shortStringData.Truncate(newMaxLength)`
            { b with bytes := writeAt b.bytes newMax [0], len := min newMax oldStrlen }
          else
            -- `muscleAlloc` + `memcpy(newBuf, GetBuffer(), muscleMin(oldStrlen+1, newBufLen))`
            finish (writeAt (junk newBufLen) 0 (b.bytes.take (min (oldStrlen+1) newBufLen)))
      else
        if goSmall then clearAndFlush small b
        else
          -- `muscleAlloc`; `newBuf[0] = '\0'`; the old heap buffer (if any) is freed
          finish (writeAt (junk newBufLen) 0 [0])

/-- `String::Prealloc(numChars)` -/
def prealloc (small : Nat) (b : Buf) (n : Nat) : Buf := ensureBufferSize small b (n+1) true false

/-- `String::ShrinkToFit(numExtraBytes)` -/
def shrinkToFit (small : Nat) (b : Buf) (extra : Nat) : Buf := ensureBufferSize small b (b.len + 1 + extra) true true

/-- `String::TruncateChars` -/
def truncateChars (b : Buf) (n : Nat) : Buf :=
  let l := b.len - min b.len n
  { b with len := l, bytes := writeAt b.bytes l [0] }

/-- `String::TruncateToLength` -/
def truncateTo (b : Buf) (n : Nat) : Buf :=
  let l := min b.len n
  { b with len := l, bytes := writeAt b.bytes l [0] }

/-- `String::SetCstr(str, maxLen)` -/
def setCstr (small : Nat) (b : Buf) (p : Ptr) (maxLen : Nat) : Buf :=
  -- `while((sLen<maxLen)&&(str[sLen] != '\0')) sLen++; maxLen = muscleMin(maxLen, sLen)`
  let sLen := ((StrSpec.cstr (memAt b p)).take maxLen).length
  if 0 < sLen then
    -- `if (str[maxLen-1] != '\0') maxLen++`: always taken, the counted bytes are not NUL
    let b1 := ensureBufferSize small b (sLen + 1) false false
    -- `memmove(b, str, maxLen-1)`: the source is read after `EnsureBufferSize`
    let data := (memAt b1 p).take sLen
    { b1 with bytes := writeAt (writeAt b1.bytes 0 data) sLen [0], len := sLen }
  else clear b

/-- `String::SetFromString(s, firstChar, afterLastChar)` (also `operator=(const String &)`) -/
def setFromString (small : Nat) (b : Buf) (a : Arg) (first afterLast : Nat) : Buf :=
  let srcLen := a.len b
  let e := min afterLast srcLen
  let n := if first < e then e - first else 0
  if 0 < n then
    let b1 := ensureBufferSize small b (n + 1) false false
    -- `memmove(b, s()+firstChar, len)`: `s()` is evaluated after `EnsureBufferSize`
    let data := a.read b1 first n
    { b1 with bytes := writeAt (writeAt b1.bytes 0 data) n [0], len := n }
  else clearAndFlush small b

/-- `String(const char *, maxLen)` -/
def ofCstr (small : Nat) (d : Bytes) (maxLen : Nat) : Buf := setCstr small (empty small) (.ext d) maxLen

/-- `String(const String &)` -/
def ofBytes (small : Nat) (d : Bytes) : Buf := setFromString small (empty small) (.ext d) 0 StrSpec.noLimit

/-- `String::operator+=(const String &)` -/
def appendStr (small : Nat) (b : Buf) (a : Arg) : Buf :=
  let otherLen := a.len b
  if 0 < otherLen then
    let b1 := ensureBufferSize small b (b.len + otherLen + 1) true false
    let len := b1.len
    -- `memmove(GetBuffer()+len, other(), otherLen+1)`: `other()` is evaluated after `EnsureBufferSize`
    let data := a.readZ b1 otherLen
    { b1 with bytes := writeAt b1.bytes len data, len := len + otherLen }
  else b

/-- `String::operator+=(const char *)` -/
def appendCstr (small : Nat) (b : Buf) (p : Ptr) : Buf :=
  let other := StrSpec.cstr (memAt b p)
  let otherLen := other.length
  if 0 < otherLen then
    -- `if (IsCharInLocalArray(other)) return operator+=(String(other,otherLen))`
    if isLocal p then appendStr small b (.ext (abs (ofCstr small other otherLen)))
    else
      let b1 := ensureBufferSize small b (b.len + otherLen + 1) true false
      { b1 with bytes := writeAt b1.bytes b1.len (other ++ [0]), len := b1.len + otherLen }
  else b

/-- `String::operator+=(char)` -/
def appendChar (small : Nat) (b : Buf) (c : UInt8) : Buf :=
  let length := b.len
  let b1 := ensureBufferSize small b (length + 2) true false
  { b1 with bytes := writeAt (writeAt b1.bytes length [c]) (length + 1) [0], len := length + 1 }

/-- body of `String::InsertCharsAux` after the self-entanglement test, `str` in separate memory -/
def insertCore (small : Nat) (b : Buf) (idx : Nat) (str : Bytes) (num count : Nat) : Buf :=
  let total := num * count
  if total = 0 then b
  else
    let oldLen := b.len
    let newLen := oldLen + total
    let b1 := ensureBufferSize small b (newLen + 1) true false    -- `Prealloc(newLen)`
    let idx := min idx oldLen
    -- `memmove(b+insertAtIdx+total, b+insertAtIdx, oldLen-insertAtIdx)`
    let m1 := writeAt b1.bytes (idx + total) ((b1.bytes.drop idx).take (oldLen - idx))
    -- `insertCount` × `memcpy(c, str, numCharsToInsert)`
    let m2 := writeAt m1 idx (StrSpec.rep count (str.take num))
    { b1 with bytes := writeAt m2 newLen [0], len := newLen }

/-- `String::InsertCharsAux(insertAtIdx, str, numCharsToInsert, insertCount)` (callers guarantee
    `numCharsToInsert ≤ strlen(str)`) -/
def insertCharsAux (small : Nat) (b : Buf) (idx : Nat) (p : Ptr) (num count : Nat) : Buf :=
  let str := StrSpec.cstr (memAt b p)
  if str.isEmpty || num == 0 then b
  else if isLocal p then
    -- `const String tempStr(str, numCharsToInsert); return InsertCharsAux(idx, tempStr(), min(tempStr.Length(), num), count)`
    let tmp := abs (ofCstr small str num)
    if tmp.isEmpty then b else insertCore small b idx tmp (min tmp.length num) count
  else insertCore small b idx str num count

/-- `String::InsertChars(insertAtIdx, str, maxCharsToInsert)` -/
def insertChars (small : Nat) (b : Buf) (idx : Nat) (p : Ptr) (maxChars : Nat) : Buf :=
  let str := StrSpec.cstr (memAt b p)
  if str.isEmpty || maxChars == 0 then b
  else insertCharsAux small b idx p (min str.length maxChars) 1

/-- `ret.InsertCharsAux(idx, &c, 1, count)` as used by `WithInsertAux` (`c ≠ 0`) -/
def insertChar (small : Nat) (b : Buf) (idx : Nat) (c : UInt8) (count : Nat) : Buf :=
  insertCore small b idx [c] 1 count

/-- `String::operator-=(char)` -/
def removeLastChar (b : Buf) (c : UInt8) : Buf :=
  let i := StrSpec.lastIndexOfChar (abs b) c 0
  if 0 ≤ i then
    let idx := i.toNat
    -- `memmove(b+idx, b+idx+1, len-idx)` (moves the terminator too)
    { b with bytes := writeAt b.bytes idx ((b.bytes.drop (idx + 1)).take (b.len - idx)), len := b.len - 1 }
  else b

/-- the common tail of `operator-=(const String &)` and `operator-=(const char *)` -/
def removeAt (b : Buf) (other : Bytes) : Buf :=
  let i := StrSpec.lastIndexOf (abs b) other
  if 0 ≤ i then
    let idx := i.toNat
    let newEnd := idx + other.length
    -- `memmove(b+idx, b+newEndIdx, 1+len-newEndIdx)`
    { b with bytes := writeAt b.bytes idx ((b.bytes.drop newEnd).take (1 + b.len - newEnd)), len := b.len - other.length }
  else b

/-- `String::operator-=(const String &)` -/
def removeLastStr (b : Buf) (a : Arg) : Buf :=
  match a with
  | .self => clear b                                   -- `if (*this == other) Clear()`
  | .ext d => if abs b == d then clear b else if d.isEmpty then b else removeAt b d

/-- `String::operator-=(const char *)` -/
def removeLastCstr (b : Buf) (p : Ptr) : Buf :=
  let other := StrSpec.cstr (memAt b p)
  if other.isEmpty then b else removeAt b other

/-- `String::Reverse` -/
def reverse (b : Buf) : Buf := { b with bytes := writeAt b.bytes 0 (abs b).reverse }

/-- `for (i<Length()) b[i] = f(b[i])` over the whole value, as in `ToLowerCase`/`ToUpperCase`/`ToMixedCase`
    (which run it on a copy `String ret(*this)`); `data` is the rewritten value -/
def overwrite (b : Buf) (data : Bytes) : Buf := { b with bytes := writeAt b.bytes 0 data }

/-- `s[index] = c` through the non-const `operator[]` (`VerifyIndex`: `index < Length()`) -/
def setChar (b : Buf) (i : Nat) (c : UInt8) : Buf := { b with bytes := writeAt b.bytes i [c] }

/-- `String::Unflatten(DataUnflattener &)` on a fresh unflattener over the view `v`: status 0 = `B_NO_ERROR` -/
def unflatten (small : Nat) (b : Buf) (v : Bytes) : Buf × Int :=
  match StrSpec.readCString v with
  | some (s, _) => (setCstr small b (.ext s) StrSpec.noLimit, 0)
  | none => (b, -1)

/-- `String::Replace(char, char, maxReplaceCount, fromIndex)` -/
def replaceChar (b : Buf) (f r : UInt8) (mx fromIdx : Nat) : Buf × Nat :=
  if f != r && fromIdx < b.len then
    -- `char * c = GetBuffer()+fromIndex; while((*c)&&(maxReplaceCount > 0)) …`
    let seg := StrSpec.cstr (b.bytes.drop fromIdx)
    let (o, n) := StrSpec.replaceCharAux f r seg mx
    ({ b with bytes := writeAt b.bytes fromIdx o }, n)
  else (b, 0)

/-- how `String::Replace(const String &, …)` stores the scanned result `out` (`n` replacements made):
    nothing is touched when `n = 0`; a growing replacement fills a preallocated temporary and swaps
    (`temp.Prealloc(Length()+(perInstanceDelta*numInstances))`, …, `SwapContents(temp)`); otherwise the
    scan has written in place -/
def replaceStore (small : Nat) (b : Buf) (rmLen wmLen : Nat) (out : Bytes) (n : Nat) : Buf × Int :=
  if n = 0 then (b, 0)
  else if rmLen < wmLen then
    let temp := prealloc small (empty small) (b.len + (wmLen - rmLen) * n)
    ({ temp with bytes := writeAt temp.bytes 0 (out ++ [0]), len := out.length }, (n : Int))
  else
    ({ b with bytes := writeAt b.bytes 0 (out ++ [0]), len := out.length }, (n : Int))

/-- `String::Replace(const String & replaceMe, const String & withMe, maxReplaceCount, fromIndex)`.
    The early exits, the two self-entanglement branches and the choice between the in-place scan and the
    copy-and-`SwapContents` path are mirrored; the scan itself (read pointer / write pointer over the
    buffer) is taken from `StrSpec.replAux` and stored in one `writeAt`. -/
def replaceStr (small : Nat) (b : Buf) (a1 a2 : Arg) (mx fromIdx : Nat) : Buf × Int :=
  let rm := a1.val (abs b)
  let wm := a2.val (abs b)
  if mx = 0 then (b, 0)
  else if b.len ≤ fromIdx then (b, 0)
  else if rm.isEmpty then (b, 0)
  else if rm == wm then (b, ((min mx (StrSpec.countInstances (abs b) rm fromIdx) : Nat) : Int))
  else
    match a1 with
    | .self =>
      -- `if (&replaceMe == this) return (fromIndex==0)?(SetFromString(withMe).IsOK()?1:-1):0`
      if fromIdx = 0 then (setFromString small b a2 0 StrSpec.noLimit, 1) else (b, 0)
    | .ext _ =>
      -- `if (&withMe == this) return Replace(replaceMe, String(withMe), …)`: from here on `wm` is a copy
      let r := StrSpec.replAux rm wm ((abs b).length + 1) ((abs b).drop fromIdx) mx
      replaceStore small b rm.length wm.length ((abs b).take fromIdx ++ r.1) r.2

/-! ## the in-place operations as one step function -/

inductive Op
  | clear | flush | shrink (extra : Nat) | prealloc (n : Nat) | truncChars (n : Nat) | truncTo (n : Nat)
  | setCstr (p : Ptr) (maxLen : Nat) | setFrom (a : Arg) (first afterLast : Nat)
  | appendStr (a : Arg) | appendCstr (p : Ptr) | appendChar (c : UInt8)
  | insertChars (idx : Nat) (p : Ptr) (maxChars : Nat) | insertChar (idx : Nat) (c : UInt8) (count : Nat)
  | removeLastChar (c : UInt8) | removeLastStr (a : Arg) | removeLastCstr (p : Ptr)
  | replaceChar (f r : UInt8) (mx fromIdx : Nat) | replaceStr (a1 a2 : Arg) (mx fromIdx : Nat)
  | reverse
  | toLower | toUpper | toMixed | unflatten (v : Bytes) | setChar (i : Nat) (c : UInt8)
deriving Repr

/-- one in-place operation on the representation: new representation and the call's return value -/
def step (small : Nat) (b : Buf) : Op → Buf × Int
  | .clear => (clear b, 0)
  | .flush => (clearAndFlush small b, 0)
  | .shrink e => (shrinkToFit small b e, 0)
  | .prealloc n => (prealloc small b n, 0)
  | .truncChars n => (truncateChars b n, 0)
  | .truncTo n => (truncateTo b n, 0)
  | .setCstr p m => (setCstr small b p m, 0)
  | .setFrom a f e => (setFromString small b a f e, 0)
  | .appendStr a => (appendStr small b a, 0)
  | .appendCstr p => (appendCstr small b p, 0)
  | .appendChar c => (appendChar small b c, 0)
  | .insertChars i p m => (insertChars small b i p m, 0)
  | .insertChar i c n => (insertChar small b i c n, 0)
  | .removeLastChar c => (removeLastChar b c, 0)
  | .removeLastStr a => (removeLastStr b a, 0)
  | .removeLastCstr p => (removeLastCstr b p, 0)
  | .replaceChar f r m i => let (b', n) := replaceChar b f r m i; (b', (n : Int))
  | .replaceStr a1 a2 m i => replaceStr small b a1 a2 m i
  | .reverse => (reverse b, 0)
  | .toLower => (overwrite b (StrSpec.toLower (abs b)), 0)
  | .toUpper => (overwrite b (StrSpec.toUpper (abs b)), 0)
  | .toMixed => (overwrite b (StrSpec.toMixed (abs b)), 0)
  | .unflatten v => unflatten small b v
  | .setChar i c => (setChar b i c, 0)

/-- the same operation on the ideal byte string; alias operands are plain values (a separate copy) -/
def specStep (s : Bytes) : Op → Bytes × Int
  | .clear => ([], 0)
  | .flush => ([], 0)
  | .shrink _ => (s, 0)
  | .prealloc _ => (s, 0)
  | .truncChars n => (StrSpec.truncateChars s n, 0)
  | .truncTo n => (StrSpec.truncateTo s n, 0)
  | .setCstr p m => (StrSpec.setCstr (p.val s) m, 0)
  | .setFrom a f e => (StrSpec.substring (a.val s) f e, 0)
  | .appendStr a => (s ++ a.val s, 0)
  | .appendCstr p => (s ++ p.val s, 0)
  | .appendChar c => (s ++ [c], 0)
  | .insertChars i p m => (StrSpec.insertChars s i (p.val s) m, 0)
  | .insertChar i c n => (StrSpec.insertChar s i c n, 0)
  | .removeLastChar c => (StrSpec.removeLastChar s c, 0)
  | .removeLastStr a => (if s == a.val s then [] else StrSpec.removeLast s (a.val s), 0)
  | .removeLastCstr p => (StrSpec.removeLast s (p.val s), 0)
  | .replaceChar f r m i => let (o, n) := StrSpec.replaceChar s f r m i; (o, (n : Int))
  | .replaceStr a1 a2 m i => let (o, n) := StrSpec.replaceStr s (a1.val s) (a2.val s) m i; (o, (n : Int))
  | .reverse => (s.reverse, 0)
  | .toLower => (StrSpec.toLower s, 0)
  | .toUpper => (StrSpec.toUpper s, 0)
  | .toMixed => (StrSpec.toMixed s, 0)
  | .unflatten v =>
    match StrSpec.readCString v with
    | some (t, _) => (StrSpec.setCstr (StrSpec.cstr t) StrSpec.noLimit, 0)
    | none => (s, -1)
  | .setChar i c => (s.take i ++ c :: s.drop (i + 1), 0)

/-- the operation with every alias operand replaced by a separate copy of what it denotes -/
def Op.dealias (s : Bytes) : Op → Op
  | .setCstr p m => .setCstr (.ext (p.val s)) m
  | .setFrom a f e => .setFrom (.ext (a.val s)) f e
  | .appendStr a => .appendStr (.ext (a.val s))
  | .appendCstr p => .appendCstr (.ext (p.val s))
  | .insertChars i p m => .insertChars i (.ext (p.val s)) m
  | .removeLastStr a => .removeLastStr (.ext (a.val s))
  | .removeLastCstr p => .removeLastCstr (.ext (p.val s))
  | .replaceStr a1 a2 m i => .replaceStr (.ext (a1.val s)) (.ext (a2.val s)) m i
  | op => op

/-- run a sequence of in-place operations; the observable trace is the list of (value, return value) -/
def run (small : Nat) : Buf → List Op → Buf × List (Bytes × Int)
  | b, [] => (b, [])
  | b, op :: r =>
    let (b', v) := step small b op
    let (b'', t) := run small b' r
    (b'', (abs b', v) :: t)

def specRun : Bytes → List Op → Bytes × List (Bytes × Int)
  | s, [] => (s, [])
  | s, op :: r =>
    let (s', v) := specStep s op
    let (s'', t) := specRun s' r
    (s'', (s', v) :: t)

end Muscle.Containers.StrBuf
