import MuscleModel.Containers.StrBuf

/-!
# Lemmas for C17: the buffer layer refines the ideal byte string

The invariant `Inv small b` says: the cached length is inside the buffer, the byte at `len` is NUL, no
byte before it is NUL, and the storage mode is decided by the capacity.  Equivalently (`Inv.split`,
`of_split`) the buffer is `value ++ 0 :: rest` for some irrelevant `rest`; every operation is shown to map
such a buffer to `value' ++ 0 :: rest'` with `value'` the result of the list function of `StrSpec`.
-/

set_option linter.unusedSimpArgs false
set_option linter.unusedVariables false

namespace Muscle.Containers.StrBuf
open Muscle Muscle.Containers

/-! ## `writeAt` -/

theorem writeAt_length (m : Bytes) (pos : Nat) (d : Bytes) (h : pos + d.length ≤ m.length) :
    (writeAt m pos d).length = m.length := by
  simp [writeAt]; omega

theorem writeAt_nul (m : Bytes) (pos : Nat) : writeAt m pos [0] = m.take pos ++ 0 :: m.drop (pos + 1) := by
  simp [writeAt]

theorem writeAt_data_nul (m : Bytes) (pos : Nat) (d : Bytes) :
    writeAt m pos (d ++ [0]) = (m.take pos ++ d) ++ 0 :: m.drop (pos + d.length + 1) := by
  simp [writeAt, Nat.add_assoc]

theorem take_writeAt_of_le (m : Bytes) (pos n : Nat) (d : Bytes) (h : n ≤ pos) (hp : pos ≤ m.length) :
    (writeAt m pos d).take n = m.take n := by
  simp only [writeAt]
  rw [List.take_append_of_le_length (by simp; omega)]
  simp [List.take_take]; omega

theorem take_writeAt_end (m : Bytes) (pos : Nat) (d : Bytes) (hp : pos ≤ m.length) :
    (writeAt m pos d).take (pos + d.length) = m.take pos ++ d := by
  simp only [writeAt, ← List.append_assoc]
  rw [List.take_left']
  simp; omega

/-- `memmove(b, data, n); b[n] = 0` -/
theorem set_split (B data : Bytes) (n : Nat) (hn : data.length = n) (hB : n < B.length) :
    writeAt (writeAt B 0 data) n [0] = data ++ 0 :: B.drop (n + 1) := by
  subst hn
  have h1 : writeAt B 0 data = data ++ B.drop data.length := by simp [writeAt]
  rw [h1, writeAt_nul, List.take_left' rfl, List.drop_append, List.drop_drop]
  have e1 : List.drop (data.length + 1) data = [] := List.drop_of_length_le (by omega)
  have e2 : data.length + (data.length + 1 - data.length) = data.length + 1 := by omega
  rw [e1, e2]; rfl

/-! ## the invariant -/

structure Inv (small : Nat) (b : Buf) : Prop where
  lt : b.len < b.cap
  term : b.bytes[b.len]? = some 0
  nf : StrSpec.nulFree (abs b)
  modeInl : b.inl = true → b.cap = small + 1
  modeHeap : b.inl = false → small + 1 < b.cap

theorem Inv.split {small : Nat} {b : Buf} (h : Inv small b) :
    b.bytes = abs b ++ 0 :: b.bytes.drop (b.len + 1) := by
  have h1 := h.lt
  have h2 := h.term
  simp only [Buf.cap] at h1
  have : b.bytes.drop b.len = 0 :: b.bytes.drop (b.len + 1) := by
    rw [List.drop_eq_getElem_cons h1]
    rw [List.getElem?_eq_getElem h1] at h2
    simp at h2
    simp [h2]
  rw [abs, ← this, List.take_append_drop]

theorem abs_length {small : Nat} {b : Buf} (h : Inv small b) : (abs b).length = b.len := by
  have := h.lt; simp only [Buf.cap] at this
  simp [abs]; omega

/-- a buffer of the form `s ++ 0 :: rest` with `len = |s|` satisfies the invariant and denotes `s` -/
theorem of_split {small : Nat} {b : Buf} {s rest : Bytes} (hb : b.bytes = s ++ 0 :: rest) (hl : b.len = s.length)
    (nf : StrSpec.nulFree s) (m1 : b.inl = true → b.bytes.length = small + 1)
    (m2 : b.inl = false → small + 1 < b.bytes.length) : Inv small b ∧ abs b = s := by
  have ha : abs b = s := by simp [abs, hb, hl]
  refine ⟨⟨?_, ?_, ?_, m1, m2⟩, ha⟩
  · simp [Buf.cap, hb, hl]
  · simp [hb, hl]
  · rw [ha]; exact nf

theorem nulFree_take {s : Bytes} (h : StrSpec.nulFree s) (n : Nat) : StrSpec.nulFree (s.take n) :=
  fun x hx => h x (List.mem_of_mem_take hx)
theorem nulFree_drop {s : Bytes} (h : StrSpec.nulFree s) (n : Nat) : StrSpec.nulFree (s.drop n) :=
  fun x hx => h x (List.mem_of_mem_drop hx)
theorem nulFree_append {s t : Bytes} (h1 : StrSpec.nulFree s) (h2 : StrSpec.nulFree t) : StrSpec.nulFree (s ++ t) := by
  intro x hx; rcases List.mem_append.mp hx with h | h
  · exact h1 x h
  · exact h2 x h
theorem nulFree_nil : StrSpec.nulFree [] := fun _ h => by cases h

/-- a C string read: the bytes of a NUL-free `s` followed by a NUL -/
theorem cstr_split (s rest : Bytes) (h : StrSpec.nulFree s) : StrSpec.cstr (s ++ 0 :: rest) = s := by
  unfold StrSpec.cstr
  rw [List.takeWhile_append_of_pos (by intro a ha; simpa using h a ha)]
  simp

theorem cstr_nulFree (m : Bytes) : StrSpec.nulFree (StrSpec.cstr m) := by
  unfold StrSpec.cstr
  induction m with
  | nil => intro x hx; cases hx
  | cons a r ih =>
    intro x hx
    rw [List.takeWhile_cons] at hx
    split at hx
    · rename_i ha
      rcases List.mem_cons.mp hx with h | h
      · subst h; simpa using ha
      · exact ih x h
    · cases hx

theorem cstr_of_nulFree (s : Bytes) (h : StrSpec.nulFree s) : StrSpec.cstr s = s := by
  unfold StrSpec.cstr
  have := List.takeWhile_append_of_pos (p := fun x : UInt8 => x != 0) (l₁ := s) (l₂ := []) (by intro a ha; simpa using h a ha)
  simpa using this

/-! ## `EnsureBufferSize` -/

theorem le_nextPow2Aux (f p n : Nat) (h : n ≤ p * 2 ^ f) : n ≤ nextPow2Aux f p n := by
  induction f generalizing p with
  | zero => simpa [nextPow2Aux] using h
  | succ f ih =>
    unfold nextPow2Aux
    split
    · assumption
    · apply ih
      have e : p * 2 ^ (f + 1) = 2 * p * 2 ^ f := by rw [Nat.pow_succ]; ac_rfl
      omega

theorem le_nextPow2 (n : Nat) : n ≤ nextPow2 n := by
  apply le_nextPow2Aux
  have := @Nat.lt_two_pow_self n
  omega

theorem le_nextBufferSize (small n : Nat) : n ≤ nextBufferSize small n := by
  unfold nextBufferSize
  split
  · omega
  · have := le_nextPow2 ((n - 1) * 2)
    simp only []
    split <;> omega

theorem empty_inv (small : Nat) : Inv small (empty small) ∧ abs (empty small) = [] := by
  apply of_split (rest := (junk (small+1)).drop 1)
  · simp [empty, writeAt_nul]
  · simp [empty]
  · exact nulFree_nil
  · intro _; simp [empty, writeAt, junk]
  · intro h; simp [empty] at h

theorem cap_ge {small : Nat} {b : Buf} (h : Inv small b) : small + 1 ≤ b.cap := by
  cases hb : b.inl
  · have := h.modeHeap hb; omega
  · have := h.modeInl hb; omega

/-- a heap buffer whose first `|s|` bytes are `s`, after the terminator store -/
theorem heap_result (small : Nat) (s nb : Bytes) (nf : StrSpec.nulFree s) (htake : nb.take s.length = s)
    (hlen : s.length < nb.length) (hcap : small + 1 < nb.length) :
    Inv small { inl := false, len := s.length, bytes := writeAt nb s.length [0] } ∧
    abs { inl := false, len := s.length, bytes := writeAt nb s.length [0] } = s := by
  apply of_split (rest := nb.drop (s.length + 1))
  · simp only [writeAt_nul, htake]
  · rfl
  · exact nf
  · intro h; cases h
  · intro _; rw [writeAt_length _ _ _ (by simp; omega)]; exact hcap

theorem ensure_retain {small : Nat} {b : Buf} (h : Inv small b) (req : Nat) :
    Inv small (ensureBufferSize small b req true false) ∧ abs (ensureBufferSize small b req true false) = abs b ∧
    (ensureBufferSize small b req true false).len = b.len ∧ req ≤ (ensureBufferSize small b req true false).cap := by
  have hc := cap_ge h
  have hl := h.lt
  have hal := abs_length h
  have hsp := h.split
  generalize hb' : ensureBufferSize small b req true false = b'
  by_cases hreq : req ≤ b.cap
  · simp [ensureBufferSize, hreq] at hb'; subst hb'; exact ⟨h, rfl, rfl, hreq⟩
  · have h1 : ¬ req ≤ small + 1 := by omega
    simp only [ensureBufferSize, hreq, h1, Bool.false_eq_true, if_false, decide_false, Bool.false_or, Bool.or_false, Bool.false_and, if_true] at hb'
    generalize hN : (if (b.len == 0 && !!b.inl) = true then req else nextBufferSize small req) = N at hb'
    have hNge : req ≤ N := by
      rw [← hN]; split
      · omega
      · exact le_nextBufferSize small req
    have e1 : (N == 0) = false := by simp; omega
    have e2 : min b.len (N - 1) = b.len := by omega
    have e3 : min (b.len + 1) N = b.len + 1 := by omega
    simp only [Buf.cap] at hl hreq hc
    rw [e1, e2, e3] at hb'
    simp only [Bool.false_eq_true, if_false] at hb'
    cases hinl : b.inl
    · -- heap: realloc
      simp only [hinl, Bool.not_false, if_true] at hb'
      have := heap_result small (abs b) (List.take N b.bytes ++ junk (N - b.cap)) h.nf
        (by rw [hal, List.take_append_of_le_length (by simp; omega), List.take_take]
            simp [abs]; omega)
        (by simp [Buf.cap, junk]; omega) (by simp [Buf.cap, junk]; omega)
      rw [hal] at this
      subst hb'
      refine ⟨this.1, this.2, rfl, ?_⟩
      simp only [Buf.cap]
      rw [writeAt_length _ _ _ (by simp [Buf.cap, junk]; omega)]
      simp [Buf.cap, junk]; omega
    · -- inline: alloc + memcpy
      simp only [hinl, Bool.not_true, Bool.false_eq_true, if_false] at hb'
      have htk : List.take (b.len + 1) b.bytes = abs b ++ [0] := by
        rw [List.take_add_one, h.term]; rfl
      have := heap_result small (abs b) (writeAt (junk N) 0 (List.take (b.len + 1) b.bytes)) h.nf
        (by rw [htk, writeAt_data_nul]; simp [hal])
        (by rw [writeAt_length _ _ _ (by simp [junk]; omega)]; simp [junk]; omega)
        (by rw [writeAt_length _ _ _ (by simp [junk]; omega)]; simp [junk]; omega)
      rw [hal] at this
      subst hb'
      refine ⟨this.1, this.2, rfl, ?_⟩
      simp only [Buf.cap]
      rw [writeAt_length _ _ _ (by rw [writeAt_length _ _ _ (by simp [junk]; omega)]; simp [junk]; omega)]
      rw [writeAt_length _ _ _ (by simp [junk]; omega)]
      simp [junk]; omega

theorem Inv.take_succ {small : Nat} {b : Buf} (h : Inv small b) : List.take (b.len + 1) b.bytes = abs b ++ [0] := by
  rw [List.take_add_one, h.term]; rfl

/-- mode is decided by capacity -/
def Shape (small : Nat) (b : Buf) : Prop := (b.inl = true → b.cap = small + 1) ∧ (b.inl = false → small + 1 < b.cap)

theorem Inv.shape {small : Nat} {b : Buf} (h : Inv small b) : Shape small b := ⟨h.modeInl, h.modeHeap⟩

/-- `memmove(b, data, n); b[n] = 0; SetLength(n)` on a buffer with room for it -/
theorem assign_result {small : Nat} (b1 : Buf) (data : Bytes) (hs : Shape small b1) (hcap : data.length + 1 ≤ b1.cap)
    (nf : StrSpec.nulFree data) :
    Inv small { b1 with bytes := writeAt (writeAt b1.bytes 0 data) data.length [0], len := data.length } ∧
    abs { b1 with bytes := writeAt (writeAt b1.bytes 0 data) data.length [0], len := data.length } = data := by
  simp only [Buf.cap] at hcap
  have e := set_split b1.bytes data data.length rfl (by omega)
  have hlen : (writeAt (writeAt b1.bytes 0 data) data.length [0]).length = b1.bytes.length := by
    rw [e]; simp; omega
  apply of_split (rest := b1.bytes.drop (data.length + 1))
  · exact e
  · rfl
  · exact nf
  · intro hi; simp only [hlen]; exact hs.1 hi
  · intro hi; simp only [hlen]; exact hs.2 hi

theorem ensure_noretain {small : Nat} {b : Buf} (h : Inv small b) (req : Nat) :
    Shape small (ensureBufferSize small b req false false) ∧ req ≤ (ensureBufferSize small b req false false).cap ∧
    (req ≤ b.cap → ensureBufferSize small b req false false = b) := by
  have hc := cap_ge h
  have hl := h.lt
  generalize hb' : ensureBufferSize small b req false false = b'
  by_cases hreq : req ≤ b.cap
  · simp [ensureBufferSize, hreq] at hb'; subst hb'; exact ⟨h.shape, hreq, fun _ => rfl⟩
  · have h1 : ¬ req ≤ small + 1 := by omega
    simp only [ensureBufferSize, hreq, h1, Bool.false_eq_true, if_false, decide_false, Bool.false_or, Bool.or_false, Bool.false_and, if_true] at hb'
    generalize hN : (if (b.len == 0 && !!b.inl) = true then req else nextBufferSize small req) = N at hb'
    have hNge : req ≤ N := by
      rw [← hN]; split
      · omega
      · exact le_nextBufferSize small req
    have e1 : (N == 0) = false := by simp; omega
    simp only [Buf.cap] at hl hreq hc
    rw [e1] at hb'
    simp only [Bool.false_eq_true, if_false] at hb'
    subst hb'
    have hlen : (writeAt (writeAt (junk N) 0 [0]) (min b.len (N - 1)) [0]).length = N := by
      rw [writeAt_length _ _ _ (by rw [writeAt_length _ _ _ (by simp [junk]; omega)]; simp [junk]; omega)]
      rw [writeAt_length _ _ _ (by simp [junk]; omega)]
      simp [junk]
    refine ⟨⟨?_, ?_⟩, ?_, ?_⟩
    · intro hi; cases hi
    · intro _; simp only [Buf.cap, hlen]; omega
    · simp only [Buf.cap, hlen]; exact hNge
    · intro hx; exact absurd hx hreq

theorem clear_ok {small : Nat} {b : Buf} (h : Inv small b) : Inv small (clear b) ∧ abs (clear b) = [] := by
  have hl := h.lt; simp only [Buf.cap] at hl
  apply of_split (rest := b.bytes.drop 1)
  · simp [clear, writeAt_nul]
  · rfl
  · exact nulFree_nil
  · intro hi; simp only [clear]; rw [writeAt_length _ _ _ (by simp; omega)]; exact h.modeInl hi
  · intro hi; simp only [clear]; rw [writeAt_length _ _ _ (by simp; omega)]; exact h.modeHeap hi

/-- `SetLength(l); WriteNULTerminatorByte()` for `l ≤ len` -/
theorem truncate_result {small : Nat} {b : Buf} (h : Inv small b) (l : Nat) (hl' : l ≤ b.len) :
    Inv small { b with len := l, bytes := writeAt b.bytes l [0] } ∧
    abs { b with len := l, bytes := writeAt b.bytes l [0] } = (abs b).take l := by
  have hl := h.lt; simp only [Buf.cap] at hl
  have hlen : (writeAt b.bytes l [0]).length = b.bytes.length := writeAt_length _ _ _ (by simp; omega)
  apply of_split (rest := b.bytes.drop (l + 1))
  · simp only [writeAt_nul, abs, List.take_take]
    rw [Nat.min_eq_left hl']
  · simp [abs]; omega
  · exact nulFree_take h.nf l
  · intro hi; simp only [hlen]; exact h.modeInl hi
  · intro hi; simp only [hlen]; exact h.modeHeap hi

theorem decomp (l : Bytes) (n : Nat) (h : l[n]? = some 0) : l = l.take n ++ 0 :: l.drop (n + 1) := by
  have hn : n < l.length := by
    rcases Nat.lt_or_ge n l.length with h' | h'
    · exact h'
    · rw [List.getElem?_eq_none h'] at h; cases h
  have : l.drop n = 0 :: l.drop (n + 1) := by
    rw [List.drop_eq_getElem_cons hn]
    rw [List.getElem?_eq_getElem hn] at h
    simp at h
    simp [h]
  rw [← this, List.take_append_drop]

/-- a NUL stored at or beyond the terminator changes nothing -/
theorem write_nul_beyond {small : Nat} {b : Buf} (h : Inv small b) (K : Nat) (h1 : b.len ≤ K) (h2 : K < b.cap) :
    Inv small { b with bytes := writeAt b.bytes K [0] } ∧ abs { b with bytes := writeAt b.bytes K [0] } = abs b := by
  simp only [Buf.cap] at h2
  have hlen : (writeAt b.bytes K [0]).length = b.bytes.length := writeAt_length _ _ _ (by simp; omega)
  rcases Nat.eq_or_lt_of_le h1 with he | hlt
  · subst he
    have := truncate_result h b.len (Nat.le_refl _)
    have e : List.take b.len (abs b) = abs b := by simp [abs, List.take_take]
    rw [e] at this
    exact this
  · have hd := decomp (b.bytes.take K) b.len (by rw [List.getElem?_take_of_lt hlt]; exact h.term)
    have e : List.take b.len (List.take K b.bytes) = abs b := by
      rw [List.take_take, Nat.min_eq_left h1]; rfl
    rw [e] at hd
    apply of_split (rest := List.drop (b.len + 1) (List.take K b.bytes) ++ 0 :: b.bytes.drop (K + 1))
    · simp only [writeAt_nul]
      conv => lhs; rw [hd]
      simp
    · exact (abs_length h).symm
    · exact h.nf
    · intro hi; simp only [hlen]; exact h.modeInl hi
    · intro hi; simp only [hlen]; exact h.modeHeap hi

theorem ensure_shrink {small : Nat} {b : Buf} (h : Inv small b) (extra : Nat) :
    Inv small (shrinkToFit small b extra) ∧ abs (shrinkToFit small b extra) = abs b := by
  have hc := cap_ge h
  have hl := h.lt
  have hal := abs_length h
  unfold shrinkToFit
  generalize hreq : b.len + 1 + extra = req
  generalize hb' : ensureBufferSize small b req true true = b'
  by_cases heq : req = b.cap
  · simp [ensureBufferSize, heq] at hb'; subst hb'; exact ⟨h, rfl⟩
  · have e0 : (req == b.cap) = false := by simp [heq]
    have e1 : (req == 0) = false := by simp; omega
    simp only [ensureBufferSize, e0, e1, Bool.false_eq_true, if_false, Bool.true_or, Bool.true_and, if_true] at hb'
    simp only [Buf.cap] at hl hc heq
    have e2 : min b.len (req - 1) = b.len := by omega
    have e3 : min (b.len + 1) req = b.len + 1 := by omega
    have e4 : min (req - 1) b.len = b.len := by omega
    rw [e2, e3, e4] at hb'
    cases hinl : b.inl
    · simp only [hinl, Bool.not_false, if_true] at hb'
      by_cases hsm : req ≤ small + 1
      · -- heap → inline: `_shortStringData.SetBuffer`
        simp only [hsm, decide_true, if_true] at hb'
        subst hb'
        have e := set_split (junk (small+1)) (List.take b.len b.bytes) b.len (by simp; omega) (by simp [junk]; omega)
        apply of_split (rest := (junk (small+1)).drop (b.len + 1))
        · exact e
        · exact hal.symm
        · exact h.nf
        · intro _; simp only []; rw [e]; simp [junk]; omega
        · intro hi; cases hi
      · -- heap → heap: realloc to the exact size
        simp only [hsm, decide_false, Bool.false_eq_true, if_false] at hb'
        have := heap_result small (abs b) (List.take req b.bytes ++ junk (req - b.cap)) h.nf
          (by rw [hal, List.take_append_of_le_length (by simp; omega), List.take_take]
              simp [abs]; omega)
          (by simp [Buf.cap, junk]; omega) (by simp [Buf.cap, junk]; omega)
        rw [hal] at this
        subst hb'
        exact this
    · simp only [hinl, Bool.not_true, Bool.false_eq_true, if_false] at hb'
      have hcap := h.modeInl hinl
      simp only [Buf.cap] at hcap
      by_cases hsm : req ≤ small + 1
      · -- inline → inline: `_shortStringData.Truncate`
        simp only [hsm, decide_true, if_true] at hb'
        subst hb'
        have := write_nul_beyond h (req - 1) (by omega) (by simp only [Buf.cap]; omega)
        rw [hinl] at this
        exact this
      · simp only [hsm, decide_false, Bool.false_eq_true, if_false] at hb'
        have := heap_result small (abs b) (writeAt (junk req) 0 (List.take (b.len + 1) b.bytes)) h.nf
          (by rw [h.take_succ, writeAt_data_nul]; simp [hal])
          (by rw [writeAt_length _ _ _ (by simp [junk]; omega)]; simp [junk]; omega)
          (by rw [writeAt_length _ _ _ (by simp [junk]; omega)]; simp [junk]; omega)
        rw [hal] at this
        subst hb'
        exact this


/-! ## operands -/

def Ptr.WF (b : Buf) : Ptr → Prop
  | .ext _ => True
  | .own off => off ≤ b.len

def Arg.WF : Arg → Prop
  | .ext d => StrSpec.nulFree d
  | .self => True

theorem cstr_append_nul (d : Bytes) : StrSpec.cstr (d ++ [0]) = StrSpec.cstr d := by
  unfold StrSpec.cstr
  induction d with
  | nil => simp
  | cons a r ih => simp only [List.cons_append, List.takeWhile_cons]; split <;> simp [ih]

theorem take_cstr (m : Bytes) (k : Nat) (h : k ≤ (StrSpec.cstr m).length) : m.take k = (StrSpec.cstr m).take k := by
  have e : m = StrSpec.cstr m ++ m.dropWhile (· != 0) := by
    unfold StrSpec.cstr; exact List.takeWhile_append_dropWhile.symm
  conv => lhs; rw [e]
  exact List.take_append_of_le_length h

theorem drop_split {small : Nat} {b : Buf} (h : Inv small b) (off : Nat) (ho : off ≤ b.len) :
    b.bytes.drop off = (abs b).drop off ++ 0 :: b.bytes.drop (b.len + 1) := by
  conv => lhs; rw [h.split]
  rw [List.drop_append_of_le_length (by rw [abs_length h]; exact ho)]

theorem cstr_memAt {small : Nat} {b : Buf} (h : Inv small b) (p : Ptr) (hp : p.WF b) :
    StrSpec.cstr (memAt b p) = p.val (abs b) := by
  cases p with
  | ext d => simp [memAt, Ptr.val, cstr_append_nul]
  | own off =>
    simp only [memAt, Ptr.val]
    rw [drop_split h off hp, cstr_split _ _ (nulFree_drop h.nf off)]

theorem ptr_val_nulFree {small : Nat} {b : Buf} (h : Inv small b) (p : Ptr) : StrSpec.nulFree (p.val (abs b)) := by
  cases p with
  | ext d => exact cstr_nulFree d
  | own off => exact nulFree_drop h.nf off

theorem arg_val_nulFree {small : Nat} {b : Buf} (h : Inv small b) (a : Arg) (ha : a.WF) : StrSpec.nulFree (a.val (abs b)) := by
  cases a with
  | ext d => exact ha
  | self => exact h.nf

theorem take_take_length (c : Bytes) (m : Nat) : c.take (c.take m).length = c.take m := by
  simp [List.length_take]

/-! ## `SetCstr`, `SetFromString` -/

theorem setCstr_ok {small : Nat} {b : Buf} (h : Inv small b) (p : Ptr) (hp : p.WF b) (maxLen : Nat) :
    Inv small (setCstr small b p maxLen) ∧ abs (setCstr small b p maxLen) = StrSpec.setCstr (p.val (abs b)) maxLen := by
  have hc := cstr_memAt h p hp
  unfold setCstr StrSpec.setCstr
  simp only [hc]
  generalize hv : p.val (abs b) = v at *
  have hvn : StrSpec.nulFree v := by rw [← hv]; exact ptr_val_nulFree h p
  by_cases hpos : 0 < (v.take maxLen).length
  · simp only [hpos, if_true]
    obtain ⟨hs, hcap, hsame⟩ := ensure_noretain h ((v.take maxLen).length + 1)
    generalize hb1 : ensureBufferSize small b ((v.take maxLen).length + 1) false false = b1 at *
    -- the source as it is after `EnsureBufferSize`
    have hmem : (memAt b1 p).take (v.take maxLen).length = v.take maxLen := by
      have hm : memAt b1 p = memAt b p := by
        cases p with
        | ext d => rfl
        | own off =>
          have : (v.take maxLen).length + 1 ≤ b.cap := by
            have hl := h.lt
            have : v.length ≤ b.len := by rw [← hv]; simp [Ptr.val, abs_length h]
            have : (v.take maxLen).length ≤ v.length := by simp [List.length_take]; omega
            omega
          rw [hsame this]
      rw [hm, take_cstr _ _ (by rw [hc]; simp [List.length_take]; omega), hc, take_take_length]
    rw [hmem]
    exact assign_result b1 (v.take maxLen) hs hcap (nulFree_take hvn maxLen)
  · simp only [hpos, if_false]
    have : v.take maxLen = [] := by
      cases hx : v.take maxLen with
      | nil => rfl
      | cons a r => rw [hx] at hpos; simp at hpos
    rw [this]
    exact clear_ok h

theorem arg_len {small : Nat} {b : Buf} (h : Inv small b) (a : Arg) : a.len b = (a.val (abs b)).length := by
  cases a <;> simp [Arg.len, Arg.val, abs_length h]

theorem setFrom_ok {small : Nat} {b : Buf} (h : Inv small b) (a : Arg) (ha : a.WF) (first afterLast : Nat) :
    Inv small (setFromString small b a first afterLast) ∧
    abs (setFromString small b a first afterLast) = StrSpec.substring (a.val (abs b)) first afterLast := by
  have hal := abs_length h
  have hvn := arg_val_nulFree h a ha
  unfold setFromString StrSpec.substring
  simp only [arg_len h a]
  by_cases hfe : first < min afterLast (a.val (abs b)).length
  · simp only [hfe, if_true]
    have hn : 0 < min afterLast (a.val (abs b)).length - first := by omega
    simp only [hn, if_true]
    generalize hnn : min afterLast (a.val (abs b)).length - first = n at *
    obtain ⟨hs, hcap, hsame⟩ := ensure_noretain h (n + 1)
    generalize hb1 : ensureBufferSize small b (n + 1) false false = b1 at *
    have hdl : (((a.val (abs b)).drop first).take n).length = n := by simp [List.length_take]; omega
    have hdata : a.read b1 first n = ((a.val (abs b)).drop first).take n := by
      cases a with
      | ext d => rfl
      | self =>
        simp only [Arg.val, Arg.read] at *
        have : n + 1 ≤ b.cap := by have := h.lt; omega
        rw [hsame this, drop_split h first (by omega), List.take_append_of_le_length (by simp; omega)]
    rw [hdata]
    have := assign_result b1 (((a.val (abs b)).drop first).take n) hs (by rw [hdl]; exact hcap) (nulFree_take (nulFree_drop hvn first) n)
    rw [hdl] at this
    exact this
  · simp only [hfe, if_false]
    have hn : ¬ 0 < (0 : Nat) := by omega
    simp only [hn, if_false, clearAndFlush]
    exact empty_inv small


theorem drop_add_append (x y : Bytes) (k : Nat) : (x ++ y).drop (x.length + k) = y.drop k := by
  rw [List.drop_append, List.drop_of_length_le (by omega)]
  have : x.length + k - x.length = k := by omega
  rw [this]; rfl

/-- two adjacent stores, lower one first -/
theorem writeAt_two (m : Bytes) (p : Nat) (d e : Bytes) (h : p + d.length ≤ m.length) :
    writeAt (writeAt m p d) (p + d.length) e = writeAt m p (d ++ e) := by
  have h1 := take_writeAt_end m p d (by omega)
  have hx : writeAt m p d = (m.take p ++ d) ++ m.drop (p + d.length) := by simp [writeAt]
  have hl : (m.take p ++ d).length = p + d.length := by simp; omega
  rw [show writeAt (writeAt m p d) (p + d.length) e = (writeAt m p d).take (p + d.length) ++ (e ++ (writeAt m p d).drop (p + d.length + e.length)) from rfl]
  rw [h1, hx]
  have : p + d.length + e.length = (m.take p ++ d).length + e.length := by omega
  rw [this, drop_add_append, List.drop_drop]
  simp [writeAt, Nat.add_assoc]

/-- two adjacent stores, upper one first (the `memmove` of the tail, then the `memcpy` of the inserted bytes) -/
theorem writeAt_before (m : Bytes) (p : Nat) (d e : Bytes) (h : p + d.length + e.length ≤ m.length) :
    writeAt (writeAt m (p + d.length) e) p d = writeAt m p (d ++ e) := by
  have h1 := take_writeAt_of_le m (p + d.length) p e (by omega) (by omega)
  have hx : writeAt m (p + d.length) e = (m.take (p + d.length) ++ e) ++ m.drop (p + d.length + e.length) := by simp [writeAt]
  have hl : (m.take (p + d.length) ++ e).length = p + d.length + e.length := by simp; omega
  rw [show writeAt (writeAt m (p + d.length) e) p d = (writeAt m (p + d.length) e).take p ++ (d ++ (writeAt m (p + d.length) e).drop (p + d.length)) from rfl]
  rw [h1]
  rw [show writeAt m p (d ++ e) = m.take p ++ ((d ++ e) ++ m.drop (p + (d ++ e).length)) from rfl]
  congr 1
  simp only [List.append_assoc]
  congr 1
  rw [hx]
  rw [List.drop_append_of_le_length (by omega)]
  rw [List.drop_append_of_le_length (by simp; omega)]
  have : List.drop (p + d.length) (List.take (p + d.length) m) = [] := by
    apply List.drop_of_length_le; simp; omega
  rw [this]
  simp [Nat.add_assoc]

/-- `memmove(buf+pos, data++NUL)` with `pos ≤ len`: the value becomes `take pos ++ data` -/
theorem write_tail {small : Nat} {b1 : Buf} (h1 : Inv small b1) (pos : Nat) (hpos : pos ≤ b1.len) (data : Bytes)
    (nf : StrSpec.nulFree data) (hcap : pos + data.length + 1 ≤ b1.cap) :
    Inv small { b1 with bytes := writeAt b1.bytes pos (data ++ [0]), len := pos + data.length } ∧
    abs { b1 with bytes := writeAt b1.bytes pos (data ++ [0]), len := pos + data.length } = (abs b1).take pos ++ data := by
  simp only [Buf.cap] at hcap
  have hlen : (writeAt b1.bytes pos (data ++ [0])).length = b1.bytes.length := writeAt_length _ _ _ (by simp; omega)
  have htk : b1.bytes.take pos = (abs b1).take pos := by simp [abs, List.take_take]; omega
  apply of_split (rest := b1.bytes.drop (pos + data.length + 1))
  · rw [writeAt_data_nul, htk]
  · simp [abs, List.length_take]; omega
  · exact nulFree_append (nulFree_take h1.nf pos) nf
  · intro hi; simp only [hlen]; exact h1.modeInl hi
  · intro hi; simp only [hlen]; exact h1.modeHeap hi

theorem take_abs_len {small : Nat} {b : Buf} (h : Inv small b) : (abs b).take b.len = abs b := by
  simp [abs, List.take_take]

theorem appendStr_ok {small : Nat} {b : Buf} (h : Inv small b) (a : Arg) (ha : a.WF) :
    Inv small (appendStr small b a) ∧ abs (appendStr small b a) = abs b ++ a.val (abs b) := by
  have hvn := arg_val_nulFree h a ha
  unfold appendStr
  simp only [arg_len h a]
  by_cases hpos : 0 < (a.val (abs b)).length
  · simp only [hpos, if_true]
    obtain ⟨hi1, habs, hlen, hcap⟩ := ensure_retain h (b.len + (a.val (abs b)).length + 1)
    generalize hb1 : ensureBufferSize small b (b.len + (a.val (abs b)).length + 1) true false = b1 at *
    have hdata : a.readZ b1 (a.val (abs b)).length = a.val (abs b) ++ [0] := by
      cases a with
      | ext d => rfl
      | self =>
        simp only [Arg.val, Arg.readZ] at *
        rw [abs_length h, ← hlen, hi1.take_succ, habs]
    rw [hdata]
    have := write_tail hi1 b1.len (Nat.le_refl _) (a.val (abs b)) hvn (by omega)
    rw [take_abs_len hi1, habs] at this
    exact this
  · simp only [hpos, if_false]
    have : a.val (abs b) = [] := by
      cases hx : a.val (abs b) with
      | nil => rfl
      | cons x r => rw [hx] at hpos; simp at hpos
    rw [this]; simp; exact h

theorem ofCstr_ok (small : Nat) (d : Bytes) (m : Nat) :
    Inv small (ofCstr small d m) ∧ abs (ofCstr small d m) = (StrSpec.cstr d).take m := by
  have := setCstr_ok (empty_inv small).1 (.ext d) trivial m
  simpa [ofCstr, StrSpec.setCstr, Ptr.val] using this

theorem appendCstr_ok {small : Nat} {b : Buf} (h : Inv small b) (p : Ptr) (hp : p.WF b) :
    Inv small (appendCstr small b p) ∧ abs (appendCstr small b p) = abs b ++ p.val (abs b) := by
  have hc := cstr_memAt h p hp
  have hvn := ptr_val_nulFree h p
  unfold appendCstr
  simp only [hc]
  by_cases hpos : 0 < (p.val (abs b)).length
  · simp only [hpos, if_true]
    cases hloc : isLocal p
    · simp only [Bool.false_eq_true, if_false]
      obtain ⟨hi1, habs, hlen, hcap⟩ := ensure_retain h (b.len + (p.val (abs b)).length + 1)
      generalize hb1 : ensureBufferSize small b (b.len + (p.val (abs b)).length + 1) true false = b1 at *
      have := write_tail hi1 b1.len (Nat.le_refl _) (p.val (abs b)) hvn (by omega)
      rw [take_abs_len hi1, habs] at this
      exact this
    · simp only [if_true]
      have ht := (ofCstr_ok small (p.val (abs b)) (p.val (abs b)).length).2
      rw [cstr_of_nulFree _ hvn, List.take_of_length_le (Nat.le_refl _)] at ht
      rw [ht]
      exact appendStr_ok h (.ext (p.val (abs b))) hvn
  · simp only [hpos, if_false]
    have : p.val (abs b) = [] := by
      cases hx : p.val (abs b) with
      | nil => rfl
      | cons x r => rw [hx] at hpos; simp at hpos
    rw [this]; simp; exact h

theorem appendChar_ok {small : Nat} {b : Buf} (h : Inv small b) (c : UInt8) (hc : c ≠ 0) :
    Inv small (appendChar small b c) ∧ abs (appendChar small b c) = abs b ++ [c] := by
  simp only [appendChar]
  obtain ⟨hi1, habs, hlen, hcap⟩ := ensure_retain h (b.len + 2)
  generalize hb1 : ensureBufferSize small b (b.len + 2) true false = b1 at *
  simp only [Buf.cap] at hcap
  have e := writeAt_two b1.bytes b.len [c] [0] (by simp; omega)
  simp only [List.length_cons, List.length_nil, Nat.zero_add] at e
  rw [e]
  have := write_tail hi1 b1.len (Nat.le_refl _) [c] (by intro x hx; simp at hx; subst hx; exact hc) (by simp [Buf.cap]; omega)
  rw [take_abs_len hi1, habs, hlen] at this
  exact this


/-! ## insertion -/

theorem rep_length (n : Nat) (t : Bytes) : (StrSpec.rep n t).length = n * t.length := by
  induction n with
  | zero => simp [StrSpec.rep]
  | succ n ih => simp [StrSpec.rep, ih, Nat.succ_mul]; omega

theorem rep_nulFree (n : Nat) (t : Bytes) (h : StrSpec.nulFree t) : StrSpec.nulFree (StrSpec.rep n t) := by
  induction n with
  | zero => exact nulFree_nil
  | succ n ih => exact nulFree_append h ih

theorem rep_one (t : Bytes) : StrSpec.rep 1 t = t := by simp [StrSpec.rep]

theorem rep_singleton (n : Nat) (c : UInt8) : StrSpec.rep n [c] = List.replicate n c := by
  induction n with
  | zero => rfl
  | succ n ih => simp [StrSpec.rep, ih, List.replicate_succ]

/-- the tail of the value, read from the buffer -/
theorem read_tail {small : Nat} {b : Buf} (h : Inv small b) (i : Nat) (hi : i ≤ b.len) :
    (b.bytes.drop i).take (b.len - i) = (abs b).drop i := by
  rw [drop_split h i hi, List.take_left']
  simp [abs_length h]

/-- the tail of the value and its terminator, read from the buffer -/
theorem read_tail_nul {small : Nat} {b : Buf} (h : Inv small b) (i : Nat) (hi : i ≤ b.len) :
    (b.bytes.drop i).take (1 + b.len - i) = (abs b).drop i ++ [0] := by
  rw [drop_split h i hi]
  have : 1 + b.len - i = ((abs b).drop i).length + 1 := by simp [abs_length h]; omega
  rw [this, List.take_append]
  simp
  apply List.take_of_length_le; simp

theorem insertCore_ok {small : Nat} {b : Buf} (h : Inv small b) (idx : Nat) (str : Bytes) (num count : Nat)
    (nf : StrSpec.nulFree (str.take num)) (hnum : (str.take num).length = num) :
    Inv small (insertCore small b idx str num count) ∧
    abs (insertCore small b idx str num count) = StrSpec.insertAt (abs b) idx (StrSpec.rep count (str.take num)) := by
  have hal := abs_length h
  simp only [insertCore]
  by_cases ht : num * count = 0
  · simp only [ht, if_true]
    refine ⟨h, ?_⟩
    have : StrSpec.rep count (str.take num) = [] := by
      have hl := rep_length count (str.take num)
      rw [hnum, Nat.mul_comm, ht] at hl
      exact List.eq_nil_of_length_eq_zero hl
    rw [this]; simp [StrSpec.insertAt]
  · simp only [ht, if_false]
    obtain ⟨hi1, habs, hlen, hcap⟩ := ensure_retain h (b.len + num * count + 1)
    generalize hb1 : ensureBufferSize small b (b.len + num * count + 1) true false = b1 at *
    generalize hins : StrSpec.rep count (str.take num) = ins at *
    have hil : ins.length = num * count := by rw [← hins, rep_length, hnum, Nat.mul_comm]
    have hinf : StrSpec.nulFree ins := by rw [← hins]; exact rep_nulFree _ _ nf
    generalize hi : min idx b.len = i at *
    have hile : i ≤ b.len := by omega
    have htail : (b1.bytes.drop i).take (b.len - i) = (abs b).drop i := by
      rw [← hlen, read_tail hi1 i (by omega), habs]
    rw [htail]
    simp only [Buf.cap] at hcap
    have htl : ((abs b).drop i).length = b.len - i := by simp [hal]
    have e1 : writeAt (writeAt b1.bytes (i + num * count) ((abs b).drop i)) i ins = writeAt b1.bytes i (ins ++ (abs b).drop i) := by
      rw [← hil]; exact writeAt_before _ _ _ _ (by rw [htl, hil]; omega)
    have e2 : writeAt (writeAt b1.bytes i (ins ++ (abs b).drop i)) (b.len + num * count) [0] = writeAt b1.bytes i ((ins ++ (abs b).drop i) ++ [0]) := by
      have : b.len + num * count = i + (ins ++ (abs b).drop i).length := by simp [hil, htl]; omega
      rw [this]; exact writeAt_two _ _ _ _ (by simp [hil, htl]; omega)
    rw [e1, e2]
    have := write_tail hi1 i (by omega) (ins ++ (abs b).drop i) (nulFree_append hinf (nulFree_drop h.nf i))
      (by simp [Buf.cap, hil, htl]; omega)
    have e3 : i + (ins ++ (abs b).drop i).length = b.len + num * count := by simp [hil, htl]; omega
    rw [e3, habs] at this
    simp only [StrSpec.insertAt, hal, hi]
    simpa using this

theorem insertChar_ok {small : Nat} {b : Buf} (h : Inv small b) (idx : Nat) (c : UInt8) (hc : c ≠ 0) (count : Nat) :
    Inv small (insertChar small b idx c count) ∧ abs (insertChar small b idx c count) = StrSpec.insertChar (abs b) idx c count := by
  have := insertCore_ok h idx [c] 1 count (by intro x hx; simp at hx; subst hx; exact hc) (by simp)
  simpa [insertChar, StrSpec.insertChar, rep_singleton] using this

theorem take_length_of_le (l : Bytes) (n : Nat) (h : n ≤ l.length) : (l.take n).length = n := by
  simp [List.length_take]; omega

theorem insertCharsAux_ok {small : Nat} {b : Buf} (h : Inv small b) (idx : Nat) (p : Ptr) (hp : p.WF b) (num : Nat)
    (hnum : num ≤ (p.val (abs b)).length) :
    Inv small (insertCharsAux small b idx p num 1) ∧
    abs (insertCharsAux small b idx p num 1) = StrSpec.insertAt (abs b) idx ((p.val (abs b)).take num) := by
  have hc := cstr_memAt h p hp
  have hvn := ptr_val_nulFree h p
  simp only [insertCharsAux, hc]
  generalize hv : p.val (abs b) = v at *
  by_cases h0 : (v.isEmpty || num == 0) = true
  · simp only [h0, if_true]
    refine ⟨h, ?_⟩
    have : v.take num = [] := by
      simp at h0
      rcases h0 with h0 | h0
      · simp [h0]
      · simp [h0]
    simp [this, StrSpec.insertAt]
  · simp only [h0, if_false]
    have hcore := insertCore_ok h idx v num 1 (nulFree_take hvn num) (take_length_of_le v num hnum)
    rw [rep_one] at hcore
    cases hloc : isLocal p
    · simp only [Bool.false_eq_true, if_false]; exact hcore
    · simp only [if_true]
      have ht := (ofCstr_ok small v num).2
      rw [cstr_of_nulFree _ hvn] at ht
      rw [ht]
      have hne : (v.take num).isEmpty = false := by
        simp at h0
        cases hx : v.take num with
        | nil =>
          have := take_length_of_le v num hnum
          rw [hx] at this; simp at this; omega
        | cons a r => rfl
      simp only [hne, Bool.false_eq_true, if_false]
      have hm : min (v.take num).length num = num := by rw [take_length_of_le v num hnum]; omega
      rw [hm]
      have hcore2 := insertCore_ok h idx (v.take num) num 1 (by rw [List.take_take]; simp; exact nulFree_take hvn num)
        (by rw [List.take_take]; simp; omega)
      rw [rep_one, List.take_take] at hcore2
      simpa using hcore2

theorem insertChars_ok {small : Nat} {b : Buf} (h : Inv small b) (idx : Nat) (p : Ptr) (hp : p.WF b) (maxChars : Nat) :
    Inv small (insertChars small b idx p maxChars) ∧
    abs (insertChars small b idx p maxChars) = StrSpec.insertChars (abs b) idx (p.val (abs b)) maxChars := by
  have hc := cstr_memAt h p hp
  simp only [insertChars, hc, StrSpec.insertChars]
  by_cases h0 : ((p.val (abs b)).isEmpty || maxChars == 0) = true
  · simp only [h0, if_true]
    refine ⟨h, ?_⟩
    have : (p.val (abs b)).take maxChars = [] := by
      simp at h0
      rcases h0 with h0 | h0
      · simp [h0]
      · simp [h0]
    simp [this, StrSpec.insertAt]
  · simp only [h0, if_false]
    have := insertCharsAux_ok h idx p hp (min (p.val (abs b)).length maxChars) (by omega)
    have e : (p.val (abs b)).take (min (p.val (abs b)).length maxChars) = (p.val (abs b)).take maxChars := by
      rcases Nat.le_total (p.val (abs b)).length maxChars with hle | hle
      · rw [Nat.min_eq_left hle, List.take_of_length_le (Nat.le_refl _), List.take_of_length_le hle]
      · rw [Nat.min_eq_right hle]
    rw [e] at this
    exact this


/-! ## removal, reversal, character replacement -/

theorem lastWhere_go_lt (p : UInt8 → Bool) (lo : Int) (r : Bytes) (i : Nat) (acc : Int)
    (h : acc < ((i + r.length : Nat) : Int)) : StrSpec.lastWhere.go p lo r i acc < ((i + r.length : Nat) : Int) := by
  induction r generalizing i acc with
  | nil => simpa [StrSpec.lastWhere.go] using h
  | cons c q ih =>
    simp only [StrSpec.lastWhere.go]
    have : i + (c :: q).length = (i + 1) + q.length := by simp; omega
    rw [this]
    apply ih
    split <;> omega

theorem lastWhere_lt (p : UInt8 → Bool) (s : Bytes) (lo : Int) : StrSpec.lastWhere p s lo < (s.length : Int) := by
  have := lastWhere_go_lt p lo s 0 (-1) (by omega)
  simpa [StrSpec.lastWhere] using this

theorem lastIndexOfChar_lt (s : Bytes) (c : UInt8) (f : Nat) : StrSpec.lastIndexOfChar s c f < (s.length : Int) := by
  unfold StrSpec.lastIndexOfChar
  split
  · exact lastWhere_lt _ _ _
  · omega

theorem downSearch_le (s t : Bytes) (n : Nat) : StrSpec.downSearch s t n ≤ (n : Int) := by
  induction n with
  | zero => simp only [StrSpec.downSearch]; split <;> omega
  | succ n ih => simp only [StrSpec.downSearch]; split <;> omega

theorem lastIndexOf_bound (s t : Bytes) (ht : t.isEmpty = false) :
    0 ≤ StrSpec.lastIndexOf s t → StrSpec.lastIndexOf s t + (t.length : Int) ≤ (s.length : Int) := by
  unfold StrSpec.lastIndexOf StrSpec.lastIndexOfFrom
  simp only [ht, Bool.false_eq_true, if_false]
  split
  · split
    · omega
    · have := downSearch_le s t (s.length - t.length); omega
  · omega

/-- `memmove(b+idx, b+from, 1+len-from); SetLength(len-(from-idx))`: cut `[idx, from)` out of the value -/
theorem cut_result {small : Nat} {b : Buf} (h : Inv small b) (idx from' : Nat) (h1 : idx ≤ from') (h2 : from' ≤ b.len) (newLen : Nat)
    (hn : newLen = b.len - (from' - idx)) :
    Inv small { b with bytes := writeAt b.bytes idx ((b.bytes.drop from').take (1 + b.len - from')), len := newLen } ∧
    abs { b with bytes := writeAt b.bytes idx ((b.bytes.drop from').take (1 + b.len - from')), len := newLen } =
      (abs b).take idx ++ (abs b).drop from' := by
  rw [read_tail_nul h from' h2]
  have hal := abs_length h
  have hl := h.lt
  have := write_tail h idx (by omega) ((abs b).drop from') (nulFree_drop h.nf from') (by simp [hal]; omega)
  have e : idx + ((abs b).drop from').length = newLen := by simp [hal]; omega
  rw [e] at this
  exact this

theorem removeLastChar_ok {small : Nat} {b : Buf} (h : Inv small b) (c : UInt8) :
    Inv small (removeLastChar b c) ∧ abs (removeLastChar b c) = StrSpec.removeLastChar (abs b) c := by
  have hal := abs_length h
  simp only [removeLastChar, StrSpec.removeLastChar]
  have hlt := lastIndexOfChar_lt (abs b) c 0
  generalize StrSpec.lastIndexOfChar (abs b) c 0 = i at *
  by_cases hi : 0 ≤ i
  · simp only [hi, if_true]
    have hidx : i.toNat < b.len := by omega
    have := cut_result h i.toNat (i.toNat + 1) (by omega) (by omega) (b.len - 1) (by omega)
    have e : b.len - i.toNat = 1 + b.len - (i.toNat + 1) := by omega
    rw [e]
    exact this
  · simp only [hi, if_false]; first | exact ⟨h, rfl⟩ | exact ⟨h, trivial⟩

theorem removeAt_ok {small : Nat} {b : Buf} (h : Inv small b) (t : Bytes) (ht : t.isEmpty = false) :
    Inv small (removeAt b t) ∧ abs (removeAt b t) = StrSpec.removeLast (abs b) t := by
  have hal := abs_length h
  simp only [removeAt, StrSpec.removeLast, ht, Bool.false_eq_true, if_false]
  have hb := lastIndexOf_bound (abs b) t ht
  generalize StrSpec.lastIndexOf (abs b) t = i at *
  by_cases hi : 0 ≤ i
  · simp only [hi, if_true]
    have hb' := hb hi
    exact cut_result h i.toNat (i.toNat + t.length) (by omega) (by omega) (b.len - t.length) (by omega)
  · simp only [hi, if_false]; first | exact ⟨h, rfl⟩ | exact ⟨h, trivial⟩

theorem removeLastStr_ok {small : Nat} {b : Buf} (h : Inv small b) (a : Arg) :
    Inv small (removeLastStr b a) ∧
    abs (removeLastStr b a) = (if abs b == a.val (abs b) then [] else StrSpec.removeLast (abs b) (a.val (abs b))) := by
  cases a with
  | self => simp only [removeLastStr, Arg.val, beq_self_eq_true, if_true]; exact clear_ok h
  | ext d =>
    simp only [removeLastStr, Arg.val]
    by_cases he : (abs b == d) = true
    · simp only [he, if_true]; exact clear_ok h
    · simp only [he, if_false]
      by_cases hd : d.isEmpty = true
      · simp only [hd, if_true, StrSpec.removeLast]; first | exact ⟨h, rfl⟩ | exact ⟨h, trivial⟩
      · simp only [hd, if_false]
        exact removeAt_ok h d (by simpa using hd)

theorem removeLastCstr_ok {small : Nat} {b : Buf} (h : Inv small b) (p : Ptr) (hp : p.WF b) :
    Inv small (removeLastCstr b p) ∧ abs (removeLastCstr b p) = StrSpec.removeLast (abs b) (p.val (abs b)) := by
  simp only [removeLastCstr, cstr_memAt h p hp]
  by_cases hd : (p.val (abs b)).isEmpty = true
  · simp only [hd, if_true, StrSpec.removeLast]; first | exact ⟨h, rfl⟩ | exact ⟨h, trivial⟩
  · simp only [hd, if_false]
    exact removeAt_ok h _ (by simpa using hd)

theorem nulFree_reverse {s : Bytes} (h : StrSpec.nulFree s) : StrSpec.nulFree s.reverse :=
  fun x hx => h x (List.mem_reverse.mp hx)

theorem reverse_ok {small : Nat} {b : Buf} (h : Inv small b) :
    Inv small (reverse b) ∧ abs (reverse b) = (abs b).reverse := by
  have hal := abs_length h
  have hl := h.lt; simp only [Buf.cap] at hl
  have e : writeAt b.bytes 0 (abs b).reverse = (abs b).reverse ++ 0 :: b.bytes.drop (b.len + 1) := by
    have := drop_split h b.len (Nat.le_refl _)
    have e0 : (abs b).drop b.len = [] := List.drop_of_length_le (by omega)
    rw [e0] at this
    simp [writeAt, hal, this]
  apply of_split (rest := b.bytes.drop (b.len + 1))
  · exact e
  · simp [reverse, hal]
  · exact nulFree_reverse h.nf
  · intro hi; simp only [reverse, e]; simp [hal]; have := h.modeInl hi; simp only [Buf.cap] at this; omega
  · intro hi; simp only [reverse, e]; simp [hal]; have := h.modeHeap hi; simp only [Buf.cap] at this; omega

/-- rewriting the `len` value bytes in place with `len` other non-NUL bytes -/
theorem overwrite_ok {small : Nat} {b : Buf} (h : Inv small b) (data : Bytes) (hd : data.length = b.len) (nf : StrSpec.nulFree data) :
    Inv small (overwrite b data) ∧ abs (overwrite b data) = data := by
  have hal := abs_length h
  have hl := h.lt; simp only [Buf.cap] at hl
  have e : writeAt b.bytes 0 data = data ++ 0 :: b.bytes.drop (b.len + 1) := by
    have := drop_split h b.len (Nat.le_refl _)
    have e0 : (abs b).drop b.len = [] := List.drop_of_length_le (by omega)
    rw [e0] at this
    simp [writeAt, hd, this]
  apply of_split (rest := b.bytes.drop (b.len + 1))
  · exact e
  · simp [overwrite, hd]
  · exact nf
  · intro hi; simp only [overwrite, e]; simp [hd]; have := h.modeInl hi; simp only [Buf.cap] at this; omega
  · intro hi; simp only [overwrite, e]; simp [hd]; have := h.modeHeap hi; simp only [Buf.cap] at this; omega

theorem setChar_ok {small : Nat} {b : Buf} (h : Inv small b) (i : Nat) (hi : i < b.len) (c : UInt8) (hc : c ≠ 0) :
    Inv small (setChar b i c) ∧ abs (setChar b i c) = (abs b).take i ++ c :: (abs b).drop (i + 1) := by
  have hal := abs_length h
  have hl := h.lt; simp only [Buf.cap] at hl
  have hlen : (writeAt b.bytes i [c]).length = b.bytes.length := writeAt_length _ _ _ (by simp; omega)
  have e : writeAt b.bytes i [c] = ((abs b).take i ++ c :: (abs b).drop (i + 1)) ++ 0 :: b.bytes.drop (b.len + 1) := by
    have htk : b.bytes.take i = (abs b).take i := by simp [abs, List.take_take]; omega
    simp only [writeAt, List.length_cons, List.length_nil, Nat.zero_add, htk]
    rw [drop_split h (i + 1) (by omega)]
    simp
  apply of_split (rest := b.bytes.drop (b.len + 1))
  · exact e
  · simp [setChar, hal]; omega
  · exact nulFree_append (nulFree_take h.nf i) (by
      intro x hx; simp only [List.mem_cons] at hx
      rcases hx with hx | hx
      · subst hx; exact hc
      · exact nulFree_drop h.nf (i + 1) x hx)
  · intro hi'; simp only [setChar, hlen]; exact h.modeInl hi'
  · intro hi'; simp only [setChar, hlen]; exact h.modeHeap hi'

theorem lowerB_ne_zero (x : UInt8) (h : x ≠ 0) : StrSpec.lowerB x ≠ 0 := by
  unfold StrSpec.lowerB StrSpec.isUpper
  split
  · rename_i hu
    simp only [Bool.and_eq_true, decide_eq_true_eq] at hu
    have h1 := UInt8.le_iff_toNat_le.mp hu.1
    have h2 := UInt8.le_iff_toNat_le.mp hu.2
    intro h0
    have := congrArg UInt8.toNat h0
    simp [UInt8.toNat_add] at this h1 h2
    omega
  · exact h

theorem upperB_ne_zero (x : UInt8) (h : x ≠ 0) : StrSpec.upperB x ≠ 0 := by
  unfold StrSpec.upperB StrSpec.isLower
  split
  · rename_i hu
    simp only [Bool.and_eq_true, decide_eq_true_eq] at hu
    have h1 := UInt8.le_iff_toNat_le.mp hu.1
    have h2 := UInt8.le_iff_toNat_le.mp hu.2
    intro h0
    simp at h1 h2
    have h32 : (32 : UInt8) ≤ x := UInt8.le_iff_toNat_le.mpr (by simp; omega)
    have := congrArg UInt8.toNat h0
    rw [UInt8.toNat_sub_of_le _ _ h32] at this
    simp at this
    omega
  · exact h

theorem nulFree_map (f : UInt8 → UInt8) (hf : ∀ x, x ≠ 0 → f x ≠ 0) {s : Bytes} (h : StrSpec.nulFree s) : StrSpec.nulFree (s.map f) := by
  intro x hx
  obtain ⟨y, hy, rfl⟩ := List.mem_map.mp hx
  exact hf y (h y hy)

theorem toMixedAux_ok (s : Bytes) (h : StrSpec.nulFree s) (prev : Bool) :
    (StrSpec.toMixedAux prev s).length = s.length ∧ StrSpec.nulFree (StrSpec.toMixedAux prev s) := by
  induction s generalizing prev with
  | nil => exact ⟨rfl, nulFree_nil⟩
  | cons c r ih =>
    have hr : StrSpec.nulFree r := fun x hx => h x (List.mem_cons_of_mem _ hx)
    have hc : c ≠ 0 := h c List.mem_cons_self
    obtain ⟨i1, i2⟩ := ih hr (StrSpec.isAlnumAscii c)
    refine ⟨by simp [StrSpec.toMixedAux, i1], ?_⟩
    intro x hx
    simp only [StrSpec.toMixedAux, List.mem_cons] at hx
    rcases hx with hx | hx
    · subst hx; split
      · exact lowerB_ne_zero c hc
      · exact upperB_ne_zero c hc
    · exact i2 x hx

theorem replaceCharAux_length (f r : UInt8) (q : Bytes) (mx : Nat) : (StrSpec.replaceCharAux f r q mx).1.length = q.length := by
  induction q generalizing mx with
  | nil => simp [StrSpec.replaceCharAux]
  | cons c q ih =>
    simp only [StrSpec.replaceCharAux]
    split
    · rfl
    · split
      · simp [ih]
      · simp [ih]

theorem replaceCharAux_nulFree (f r : UInt8) (hr : r ≠ 0) (q : Bytes) (hq : StrSpec.nulFree q) (mx : Nat) :
    StrSpec.nulFree (StrSpec.replaceCharAux f r q mx).1 := by
  induction q generalizing mx with
  | nil => simp [StrSpec.replaceCharAux]; exact nulFree_nil
  | cons c q ih =>
    have hq' : StrSpec.nulFree q := fun x hx => hq x (List.mem_cons_of_mem _ hx)
    have hc : c ≠ 0 := hq c (List.mem_cons_self)
    simp only [StrSpec.replaceCharAux]
    split
    · exact hq
    · split
      · intro x hx; simp at hx; rcases hx with hx | hx
        · subst hx; exact hr
        · exact ih hq' _ x hx
      · intro x hx; simp at hx; rcases hx with hx | hx
        · subst hx; exact hc
        · exact ih hq' _ x hx

theorem replaceChar_ok {small : Nat} {b : Buf} (h : Inv small b) (f r : UInt8) (hr : r ≠ 0) (mx fromIdx : Nat) :
    Inv small (replaceChar b f r mx fromIdx).1 ∧ abs (replaceChar b f r mx fromIdx).1 = (StrSpec.replaceChar (abs b) f r mx fromIdx).1 ∧
    (replaceChar b f r mx fromIdx).2 = (StrSpec.replaceChar (abs b) f r mx fromIdx).2 := by
  have hal := abs_length h
  have hl := h.lt; simp only [Buf.cap] at hl
  simp only [replaceChar, StrSpec.replaceChar, hal]
  by_cases hc : (f != r && decide (fromIdx < b.len)) = true
  · simp only [hc, if_true]
    have hfl : fromIdx < b.len := by simp at hc; exact hc.2
    have hseg : StrSpec.cstr (b.bytes.drop fromIdx) = (abs b).drop fromIdx := by
      rw [drop_split h fromIdx (by omega), cstr_split _ _ (nulFree_drop h.nf fromIdx)]
    rw [hseg]
    have hol := replaceCharAux_length f r ((abs b).drop fromIdx) mx
    have hon := replaceCharAux_nulFree f r hr ((abs b).drop fromIdx) (nulFree_drop h.nf fromIdx) mx
    generalize StrSpec.replaceCharAux f r ((abs b).drop fromIdx) mx = res at *
    obtain ⟨o, n⟩ := res
    simp only at hol hon ⊢
    have hol' : o.length = b.len - fromIdx := by rw [hol]; simp [hal]
    have e : writeAt b.bytes fromIdx o = ((abs b).take fromIdx ++ o) ++ 0 :: b.bytes.drop (b.len + 1) := by
      have hd := drop_split h b.len (Nat.le_refl _)
      have e0 : (abs b).drop b.len = [] := List.drop_of_length_le (by omega)
      rw [e0] at hd
      have : fromIdx + o.length = b.len := by omega
      simp only [writeAt, this, hd]
      simp [abs, List.take_take]
      omega
    have key : Inv small { b with bytes := writeAt b.bytes fromIdx o } ∧ abs { b with bytes := writeAt b.bytes fromIdx o } = (abs b).take fromIdx ++ o := by
      apply of_split (rest := b.bytes.drop (b.len + 1))
      · exact e
      · simp [hol', hal]; omega
      · exact nulFree_append (nulFree_take h.nf _) hon
      · intro hi; simp only [e]; simp [hol', hal]; have := h.modeInl hi; simp only [Buf.cap] at this; omega
      · intro hi; simp only [e]; simp [hol', hal]; have := h.modeHeap hi; simp only [Buf.cap] at this; omega
    first | exact ⟨key.1, key.2, rfl⟩ | exact ⟨key.1, key.2, trivial⟩
  · simp only [hc, if_false]; first | exact ⟨h, rfl, rfl⟩ | exact ⟨h, trivial, trivial⟩


/-! ## string replacement -/

theorem isPrefixOf_length_le {t s : Bytes} (h : t.isPrefixOf s = true) : t.length ≤ s.length :=
  (List.isPrefixOf_iff_prefix.mp h).length_le

theorem replAux_length (rm wm : Bytes) (f : Nat) (q : Bytes) (mx : Nat) :
    (StrSpec.replAux rm wm f q mx).1.length + (StrSpec.replAux rm wm f q mx).2 * rm.length =
      q.length + (StrSpec.replAux rm wm f q mx).2 * wm.length := by
  induction f generalizing q mx with
  | zero => simp [StrSpec.replAux]
  | succ f ih =>
    cases q with
    | nil => simp [StrSpec.replAux]
    | cons c q =>
      simp only [StrSpec.replAux]
      split
      · rename_i hm
        have hle := isPrefixOf_length_le hm.2
        have := ih ((c :: q).drop rm.length) (mx - 1)
        generalize StrSpec.replAux rm wm f ((c :: q).drop rm.length) (mx - 1) = res at *
        obtain ⟨o, n⟩ := res
        simp only [List.length_append, List.length_drop] at this ⊢
        rw [Nat.add_mul, Nat.add_mul]
        omega
      · have := ih q mx
        generalize StrSpec.replAux rm wm f q mx = res at *
        obtain ⟨o, n⟩ := res
        simp only [List.length_cons] at this ⊢
        omega

theorem replAux_nulFree (rm wm : Bytes) (hw : StrSpec.nulFree wm) (f : Nat) (q : Bytes) (hq : StrSpec.nulFree q) (mx : Nat) :
    StrSpec.nulFree (StrSpec.replAux rm wm f q mx).1 := by
  induction f generalizing q mx with
  | zero => simpa [StrSpec.replAux] using hq
  | succ f ih =>
    cases q with
    | nil => simp [StrSpec.replAux]; exact nulFree_nil
    | cons c q =>
      simp only [StrSpec.replAux]
      split
      · have := ih ((c :: q).drop rm.length) (nulFree_drop hq _) (mx - 1)
        generalize StrSpec.replAux rm wm f ((c :: q).drop rm.length) (mx - 1) = res at *
        obtain ⟨o, n⟩ := res
        exact nulFree_append hw this
      · have hq' : StrSpec.nulFree q := fun x hx => hq x (List.mem_cons_of_mem _ hx)
        have := ih q hq' mx
        generalize StrSpec.replAux rm wm f q mx = res at *
        obtain ⟨o, n⟩ := res
        intro x hx; simp at hx; rcases hx with hx | hx
        · subst hx; exact hq _ List.mem_cons_self
        · exact this x hx

theorem replAux_zero (rm wm : Bytes) (f : Nat) (q : Bytes) (mx : Nat) :
    (StrSpec.replAux rm wm f q mx).2 = 0 → (StrSpec.replAux rm wm f q mx).1 = q := by
  induction f generalizing q mx with
  | zero => simp [StrSpec.replAux]
  | succ f ih =>
    cases q with
    | nil => simp [StrSpec.replAux]
    | cons c q =>
      simp only [StrSpec.replAux]
      split
      · generalize StrSpec.replAux rm wm f ((c :: q).drop rm.length) (mx - 1) = res
        obtain ⟨o, n⟩ := res
        intro h; simp at h
      · have := ih q mx
        generalize StrSpec.replAux rm wm f q mx = res at *
        obtain ⟨o, n⟩ := res
        intro h; simp at h this ⊢; exact this h

theorem replAux_nomatch (rm wm : Bytes) (f : Nat) (q : Bytes) (mx : Nat) (h : q.length < rm.length) :
    StrSpec.replAux rm wm f q mx = (q, 0) := by
  induction f generalizing q mx with
  | zero => simp [StrSpec.replAux]
  | succ f ih =>
    cases q with
    | nil => simp [StrSpec.replAux]
    | cons c q =>
      simp only [StrSpec.replAux]
      split
      · rename_i hm
        have := isPrefixOf_length_le hm.2
        omega
      · rw [ih q mx (by simp at h; omega)]

theorem substring_all (w : Bytes) (hw : w.length ≤ StrSpec.noLimit) : StrSpec.substring w 0 StrSpec.noLimit = w := by
  unfold StrSpec.substring
  simp only [Nat.min_eq_right hw]
  split
  · simp
  · rename_i h0
    have : w.length = 0 := by omega
    exact (List.eq_nil_of_length_eq_zero this).symm

theorem replaceStore_ok {small : Nat} {b : Buf} (h : Inv small b) (rmLen wmLen : Nat) (out : Bytes) (n : Nat)
    (hnf : StrSpec.nulFree out) (hlen : out.length + n * rmLen = b.len + n * wmLen) :
    Inv small (replaceStore small b rmLen wmLen out n).1 ∧
    abs (replaceStore small b rmLen wmLen out n).1 = (if n = 0 then abs b else out) ∧
    (replaceStore small b rmLen wmLen out n).2 = (n : Int) := by
  simp only [replaceStore]
  by_cases c6 : n = 0
  · subst c6; simp only [if_true]; exact ⟨h, trivial, rfl⟩
  simp only [c6, if_false]
  by_cases c7 : rmLen < wmLen
  · simp only [c7, if_true]
    -- copy-and-swap: the temporary is empty and big enough
    have ht := ensure_retain (empty_inv small).1 (b.len + (wmLen - rmLen) * n + 1)
    simp only [prealloc]
    generalize ensureBufferSize small (empty small) (b.len + (wmLen - rmLen) * n + 1) true false = temp at *
    obtain ⟨hti, _, htl, htc⟩ := ht
    have hmul : (wmLen - rmLen) * n + n * rmLen = n * wmLen := by
      rw [Nat.mul_comm _ n, ← Nat.mul_add]; congr 1; omega
    have := write_tail hti 0 (Nat.zero_le _) out hnf (by omega)
    simp only [List.take_zero, List.nil_append, Nat.zero_add] at this
    exact ⟨this.1, this.2, trivial⟩
  · simp only [c7, if_false]
    have hmul : n * wmLen ≤ n * rmLen := Nat.mul_le_mul_left _ (by omega)
    have hl := h.lt
    have := write_tail h 0 (Nat.zero_le _) out hnf (by omega)
    simp only [List.take_zero, List.nil_append, Nat.zero_add] at this
    exact ⟨this.1, this.2, trivial⟩

local macro "fin3 " h:term : tactic =>
  `(tactic| (refine ⟨$h, ?_, ?_⟩ <;> first | rfl | trivial | simp))

theorem replaceStr_ok {small : Nat} {b : Buf} (h : Inv small b) (a1 a2 : Arg) (h1 : a1.WF) (h2 : a2.WF)
    (hw : (a2.val (abs b)).length ≤ StrSpec.noLimit) (mx fromIdx : Nat) :
    Inv small (replaceStr small b a1 a2 mx fromIdx).1 ∧
    abs (replaceStr small b a1 a2 mx fromIdx).1 = (StrSpec.replaceStr (abs b) (a1.val (abs b)) (a2.val (abs b)) mx fromIdx).1 ∧
    (replaceStr small b a1 a2 mx fromIdx).2 = (((StrSpec.replaceStr (abs b) (a1.val (abs b)) (a2.val (abs b)) mx fromIdx).2 : Nat) : Int) := by
  have hal := abs_length h
  have hwn := arg_val_nulFree h a2 h2
  have hs := setFrom_ok h a2 h2 0 StrSpec.noLimit
  rw [substring_all _ hw] at hs
  simp only [replaceStr, StrSpec.replaceStr, hal]
  generalize a2.val (abs b) = wm at *
  by_cases c1 : mx = 0
  · simp only [c1, if_true]; fin3 h
  simp only [c1, if_false]
  by_cases c2 : b.len ≤ fromIdx
  · simp only [c2, if_true]; fin3 h
  simp only [c2, if_false]
  cases c3 : (a1.val (abs b)).isEmpty
  case true => simp only [if_true]; fin3 h
  simp only [Bool.false_eq_true, if_false]
  cases c4 : (a1.val (abs b) == wm)
  case true => simp only [if_true]; fin3 h
  simp only [Bool.false_eq_true, if_false]
  cases a1 with
  | self =>
    simp only [Arg.val] at *
    by_cases c5 : fromIdx = 0
    · subst c5
      simp only [if_true]
      -- the scan finds the whole value at offset 0 and nothing after it
      have hne : abs b ≠ [] := by intro he; simp [he] at c3
      obtain ⟨c, q, hcq⟩ := List.exists_cons_of_ne_nil hne
      have hscan : StrSpec.replAux (abs b) wm (b.len + 1) (List.drop 0 (abs b)) mx = (wm, 1) := by
        simp only [List.drop_zero]
        generalize abs b = s at *
        subst hcq
        simp only [StrSpec.replAux]
        rw [if_pos ⟨c1, by simp⟩]
        simp only [List.drop_length]
        cases hb : b.len <;> simp [StrSpec.replAux]
      rw [hscan]
      simp only [List.take_zero, List.nil_append]
      refine ⟨hs.1, hs.2, ?_⟩
      first | rfl | trivial | simp
    · simp only [c5, if_false]
      have hscan := replAux_nomatch (abs b) wm (b.len + 1) (List.drop fromIdx (abs b)) mx (by simp [hal]; omega)
      rw [hscan]
      simp only [List.take_append_drop]
      fin3 h
  | ext rm =>
    simp only [Arg.val] at *
    have hlen := replAux_length rm wm (b.len + 1) (List.drop fromIdx (abs b)) mx
    have hnf := replAux_nulFree rm wm hwn (b.len + 1) (List.drop fromIdx (abs b)) (nulFree_drop h.nf _) mx
    have hz := replAux_zero rm wm (b.len + 1) (List.drop fromIdx (abs b)) mx
    have hout_len : (List.take fromIdx (abs b) ++ (StrSpec.replAux rm wm (b.len + 1) (List.drop fromIdx (abs b)) mx).1).length
        + (StrSpec.replAux rm wm (b.len + 1) (List.drop fromIdx (abs b)) mx).2 * rm.length
        = b.len + (StrSpec.replAux rm wm (b.len + 1) (List.drop fromIdx (abs b)) mx).2 * wm.length := by
      simp only [List.length_append, List.length_take, List.length_drop, hal] at hlen ⊢
      omega
    have := replaceStore_ok h rm.length wm.length _ _ (nulFree_append (nulFree_take h.nf fromIdx) hnf) hout_len
    refine ⟨this.1, ?_, this.2.2⟩
    rw [this.2.1]
    split
    · rename_i hn0
      rw [hz hn0, List.take_append_drop]
    · rfl


/-! ## all in-place operations at once -/

/-- side conditions of an operation on a String whose value is `s`: characters are not NUL, separate
    String operands are NUL-free, pointers into the String stay inside `[Cstr(), Cstr()+Length()]`,
    lengths fit `uint32` -/
def Op.WF (s : Bytes) : Op → Prop
  | .setCstr p _ => p.WF ⟨true, s.length, []⟩
  | .setFrom a _ _ => a.WF
  | .appendStr a => a.WF
  | .appendCstr p => p.WF ⟨true, s.length, []⟩
  | .appendChar c => c ≠ 0
  | .insertChars _ p _ => p.WF ⟨true, s.length, []⟩
  | .insertChar _ c _ => c ≠ 0
  | .removeLastCstr p => p.WF ⟨true, s.length, []⟩
  | .replaceChar _ r _ _ => r ≠ 0
  | .replaceStr a1 a2 _ _ => a1.WF ∧ a2.WF ∧ (a2.val s).length ≤ StrSpec.noLimit
  | .setChar i c => i < s.length ∧ c ≠ 0
  | _ => True

theorem ptr_wf {small : Nat} {b : Buf} (h : Inv small b) (p : Ptr) (hp : p.WF ⟨true, (abs b).length, []⟩) : p.WF b := by
  cases p with
  | ext d => trivial
  | own off => simp only [Ptr.WF] at hp ⊢; rw [abs_length h] at hp; exact hp

theorem step_ok {small : Nat} {b : Buf} (h : Inv small b) (op : Op) (hw : op.WF (abs b)) :
    Inv small (step small b op).1 ∧ abs (step small b op).1 = (specStep (abs b) op).1 ∧
    (step small b op).2 = (specStep (abs b) op).2 := by
  have hal := abs_length h
  cases op with
  | clear => have := clear_ok h; exact ⟨this.1, this.2, rfl⟩
  | flush => have := empty_inv small; exact ⟨this.1, this.2, rfl⟩
  | shrink e => have := ensure_shrink h e; exact ⟨this.1, this.2, rfl⟩
  | prealloc n => have := ensure_retain h (n + 1); exact ⟨this.1, this.2.1, rfl⟩
  | truncChars n =>
    have := truncate_result h (b.len - min b.len n) (by omega)
    refine ⟨this.1, ?_, rfl⟩
    simp only [step, specStep, truncateChars, StrSpec.truncateChars, hal]; exact this.2
  | truncTo n =>
    have := truncate_result h (min b.len n) (by omega)
    refine ⟨this.1, ?_, rfl⟩
    simp only [step, specStep, truncateTo, StrSpec.truncateTo, hal]; exact this.2
  | setCstr p m => have := setCstr_ok h p (ptr_wf h p hw) m; exact ⟨this.1, this.2, rfl⟩
  | setFrom a f e => have := setFrom_ok h a hw f e; exact ⟨this.1, this.2, rfl⟩
  | appendStr a => have := appendStr_ok h a hw; exact ⟨this.1, this.2, rfl⟩
  | appendCstr p => have := appendCstr_ok h p (ptr_wf h p hw); exact ⟨this.1, this.2, rfl⟩
  | appendChar c => have := appendChar_ok h c hw; exact ⟨this.1, this.2, rfl⟩
  | insertChars i p m => have := insertChars_ok h i p (ptr_wf h p hw) m; exact ⟨this.1, this.2, rfl⟩
  | insertChar i c n => have := insertChar_ok h i c hw n; exact ⟨this.1, this.2, rfl⟩
  | removeLastChar c => have := removeLastChar_ok h c; exact ⟨this.1, this.2, rfl⟩
  | removeLastStr a => have := removeLastStr_ok h a; exact ⟨this.1, this.2, rfl⟩
  | removeLastCstr p => have := removeLastCstr_ok h p (ptr_wf h p hw); exact ⟨this.1, this.2, rfl⟩
  | replaceChar f r m i =>
    have := replaceChar_ok h f r hw m i
    simp only [step, specStep]
    exact ⟨this.1, this.2.1, by rw [this.2.2]⟩
  | replaceStr a1 a2 m i =>
    have := replaceStr_ok h a1 a2 hw.1 hw.2.1 hw.2.2 m i
    simp only [step, specStep]
    exact ⟨this.1, this.2.1, this.2.2⟩
  | reverse => have := reverse_ok h; exact ⟨this.1, this.2, rfl⟩
  | toLower =>
    have := overwrite_ok h (StrSpec.toLower (abs b)) (by simp [StrSpec.toLower, hal]) (nulFree_map _ lowerB_ne_zero h.nf)
    exact ⟨this.1, this.2, rfl⟩
  | toUpper =>
    have := overwrite_ok h (StrSpec.toUpper (abs b)) (by simp [StrSpec.toUpper, hal]) (nulFree_map _ upperB_ne_zero h.nf)
    exact ⟨this.1, this.2, rfl⟩
  | toMixed =>
    have hm := toMixedAux_ok (abs b) h.nf false
    have := overwrite_ok h (StrSpec.toMixed (abs b)) (by rw [StrSpec.toMixed, hm.1, hal]) hm.2
    exact ⟨this.1, this.2, rfl⟩
  | setChar i c =>
    have := setChar_ok h i (by rw [← hal]; exact hw.1) c hw.2
    exact ⟨this.1, this.2, rfl⟩
  | unflatten v =>
    simp only [step, specStep, unflatten]
    cases hr : StrSpec.readCString v with
    | none => exact ⟨h, rfl, rfl⟩
    | some sr =>
      obtain ⟨t, r⟩ := sr
      have := setCstr_ok h (.ext t) trivial StrSpec.noLimit
      exact ⟨this.1, this.2, rfl⟩

/-- `dealias` does not change what the operation means on the ideal string -/
theorem specStep_dealias (s : Bytes) (hs : StrSpec.nulFree s) (op : Op) : specStep s (op.dealias s) = specStep s op := by
  have hp : ∀ p : Ptr, (Ptr.ext (p.val s)).val s = p.val s := by
    intro p
    cases p with
    | ext d => simp only [Ptr.val]; exact cstr_of_nulFree _ (cstr_nulFree d)
    | own off => simp only [Ptr.val]; exact cstr_of_nulFree _ (nulFree_drop hs off)
  cases op <;> (try simp only [Op.dealias, specStep, Arg.val, hp]) <;> try rfl

theorem wf_dealias (s : Bytes) (hs : StrSpec.nulFree s) (op : Op) (hw : op.WF s) : (op.dealias s).WF s := by
  have ha : ∀ a : Arg, a.WF → (Arg.ext (a.val s)).WF := by
    intro a h
    cases a with
    | ext d => exact h
    | self => exact hs
  cases op <;> simp only [Op.dealias, Op.WF, Ptr.WF, Arg.val] at * <;> try trivial
  all_goals first | exact ha _ hw | exact ⟨ha _ hw.1, ha _ hw.2.1, hw.2.2⟩ | skip

/-- side conditions along a run, each checked against the value the String has at that point -/
def RunWF : Bytes → List Op → Prop
  | _, [] => True
  | s, op :: r => op.WF s ∧ RunWF (specStep s op).1 r

theorem run_ok {small : Nat} (ops : List Op) : ∀ {b : Buf}, Inv small b → RunWF (abs b) ops →
    Inv small (run small b ops).1 ∧ abs (run small b ops).1 = (specRun (abs b) ops).1 ∧
    (run small b ops).2 = (specRun (abs b) ops).2 := by
  induction ops with
  | nil => intro b h _; exact ⟨h, rfl, rfl⟩
  | cons op r ih =>
    intro b h hw
    obtain ⟨h1, h2, h3⟩ := step_ok h op hw.1
    have hw2 := hw.2
    rw [← h2] at hw2
    obtain ⟨i1, i2, i3⟩ := ih h1 hw2
    simp only [run, specRun]
    refine ⟨i1, ?_, ?_⟩
    · rw [i2, h2]
    · rw [i3, h2, h3]


/-! ## the byte-wise scan `replAux` is the `strstr` loop of the C++ code -/

theorem findFrom_shift (rm q : Bytes) (i : Nat) : StrSpec.findFrom rm q (i + 1) = (StrSpec.findFrom rm q i).map (· + 1) := by
  induction q generalizing i with
  | nil => simp only [StrSpec.findFrom]; split <;> rfl
  | cons c r ih =>
    simp only [StrSpec.findFrom]
    split
    · rfl
    · exact ih (i + 1)

theorem replAux_mx0 (rm wm : Bytes) (f : Nat) (q : Bytes) : StrSpec.replAux rm wm f q 0 = (q, 0) := by
  induction f generalizing q with
  | zero => simp [StrSpec.replAux]
  | succ f ih =>
    cases q with
    | nil => simp [StrSpec.replAux]
    | cons c r => simp [StrSpec.replAux, ih]

theorem replAux_eq_scanStrstr (rm wm : Bytes) (hrm : rm ≠ []) (F : Nat) :
    ∀ (q : Bytes) (mx F' : Nat), q.length ≤ F → q.length ≤ F' → 1 ≤ F' →
      StrSpec.replAux rm wm F q mx = StrSpec.scanStrstr rm wm F' q mx := by
  induction F with
  | zero =>
    intro q mx F' h1 h2 h3
    have : q = [] := List.eq_nil_of_length_eq_zero (by omega)
    subst this
    obtain ⟨f', rfl⟩ : ∃ f', F' = f' + 1 := ⟨F' - 1, by omega⟩
    have hne : rm.isEmpty = false := by cases rm <;> simp_all
    simp [StrSpec.replAux, StrSpec.scanStrstr, StrSpec.findFrom, hne]
  | succ f ih =>
    intro q mx F' h1 h2 h3
    obtain ⟨f', rfl⟩ : ∃ f', F' = f' + 1 := ⟨F' - 1, by omega⟩
    have hne : rm.isEmpty = false := by cases rm <;> simp_all
    cases q with
    | nil => simp [StrSpec.replAux, StrSpec.scanStrstr, StrSpec.findFrom, hne]
    | cons c r =>
      simp only [List.length_cons] at h1 h2
      by_cases hmx : mx = 0
      · subst hmx; rw [replAux_mx0]; simp [StrSpec.scanStrstr]
      · simp only [StrSpec.replAux, StrSpec.scanStrstr, hmx, if_false]
        by_cases hp : rm.isPrefixOf (c :: r) = true
        · have hle := isPrefixOf_length_le hp
          have hrl : 0 < rm.length := by cases rm <;> simp_all
          simp only [hp, ne_eq, not_false_eq_true, and_self, if_true, StrSpec.findFrom, Nat.zero_add, List.take_zero, List.nil_append]
          by_cases hf' : 1 ≤ f'
          · rw [ih ((c :: r).drop rm.length) (mx - 1) f' (by simp; omega) (by simp; omega) hf']
            simp [hmx]
          · -- the rest is empty
            have hf0 : f' = 0 := by omega
            have hr : r = [] := List.eq_nil_of_length_eq_zero (by omega)
            subst hf0; subst hr
            have hd : List.drop rm.length [c] = [] := List.drop_of_length_le (by simp; omega)
            rw [hd]
            cases f <;> simp [StrSpec.replAux, StrSpec.scanStrstr, hmx]
        · have hp' : ¬ (mx ≠ 0 ∧ rm.isPrefixOf (c :: r) = true) := fun h => hp h.2
          simp only [hp', if_false, StrSpec.findFrom, hp, Bool.false_eq_true]
          have hsh := findFrom_shift rm r 0
          simp only [Nat.zero_add] at hsh
          rw [hsh]
          have hih := ih r mx (f' + 1) (by omega) (by omega) (by omega)
          rw [hih]
          simp only [StrSpec.scanStrstr, hmx, if_false]
          cases hfr : StrSpec.findFrom rm r 0 with
          | none => simp
          | some k =>
            simp only [Option.map_some]
            have e : (c :: r).drop (k + 1 + rm.length) = r.drop (k + rm.length) := by
              have : k + 1 + rm.length = (k + rm.length) + 1 := by omega
              rw [this, List.drop_succ_cons]
            rw [e]
            simp


/-! ## the side conditions are decidable (used by the non-vacuity examples) -/

instance (s : Bytes) : Decidable (StrSpec.nulFree s) := inferInstanceAs (Decidable (∀ x ∈ s, x ≠ 0))

instance : (a : Arg) → Decidable a.WF
  | .ext d => inferInstanceAs (Decidable (StrSpec.nulFree d))
  | .self => isTrue trivial

instance (b : Buf) : (p : Ptr) → Decidable (p.WF b)
  | .ext _ => isTrue trivial
  | .own off => inferInstanceAs (Decidable (off ≤ b.len))

instance (s : Bytes) : (op : Op) → Decidable (op.WF s)
  | .clear => isTrue trivial
  | .flush => isTrue trivial
  | .shrink _ => isTrue trivial
  | .prealloc _ => isTrue trivial
  | .truncChars _ => isTrue trivial
  | .truncTo _ => isTrue trivial
  | .setCstr p _ => inferInstanceAs (Decidable (p.WF ⟨true, s.length, []⟩))
  | .setFrom a _ _ => inferInstanceAs (Decidable a.WF)
  | .appendStr a => inferInstanceAs (Decidable a.WF)
  | .appendCstr p => inferInstanceAs (Decidable (p.WF ⟨true, s.length, []⟩))
  | .appendChar c => inferInstanceAs (Decidable (c ≠ 0))
  | .insertChars _ p _ => inferInstanceAs (Decidable (p.WF ⟨true, s.length, []⟩))
  | .insertChar _ c _ => inferInstanceAs (Decidable (c ≠ 0))
  | .removeLastChar _ => isTrue trivial
  | .removeLastStr _ => isTrue trivial
  | .removeLastCstr p => inferInstanceAs (Decidable (p.WF ⟨true, s.length, []⟩))
  | .replaceChar _ r _ _ => inferInstanceAs (Decidable (r ≠ 0))
  | .replaceStr a1 a2 _ _ => inferInstanceAs (Decidable (a1.WF ∧ a2.WF ∧ (a2.val s).length ≤ StrSpec.noLimit))
  | .reverse => isTrue trivial
  | .toLower => isTrue trivial
  | .toUpper => isTrue trivial
  | .toMixed => isTrue trivial
  | .unflatten _ => isTrue trivial
  | .setChar i c => inferInstanceAs (Decidable (i < s.length ∧ c ≠ 0))

/-! ## flattening -/

theorem readCString_flat (s r : Bytes) (hs : StrSpec.nulFree s) : StrSpec.readCString (s ++ 0 :: r) = some (s, r) := by
  unfold StrSpec.readCString
  have hc : (s ++ 0 :: r).contains 0 = true := by simp
  have h1 : (s ++ 0 :: r).takeWhile (· != 0) = s := cstr_split s r hs
  have h2 : (s ++ 0 :: r).dropWhile (· != 0) = 0 :: r := by
    have := List.takeWhile_append_dropWhile (p := fun x : UInt8 => x != 0) (l := s ++ 0 :: r)
    rw [h1] at this
    exact List.append_cancel_left this
  simp only [hc, if_true, h1, h2, List.drop_one, List.tail_cons]

theorem readCString_none (v : Bytes) (h : ∀ x ∈ v, x ≠ 0) : StrSpec.readCString v = none := by
  unfold StrSpec.readCString
  have : v.contains 0 = false := by
    cases hc : v.contains 0
    · rfl
    · have := List.contains_iff_mem.mp hc
      exact absurd rfl (h 0 this)
  simp only [this]; rfl

end Muscle.Containers.StrBuf
