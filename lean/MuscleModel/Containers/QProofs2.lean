import MuscleModel.Containers.QProofs

/-! Lemmas for C16, part 2: the remaining operation families. -/

set_option linter.unusedSimpArgs false
set_option linter.unusedVariables false
set_option linter.unusedSectionVars false

namespace Muscle.Containers
variable {α : Type} [DecidableEq α] (c : ItemCfg α)

/-! ## Sort (abstracted to a stable sort of the sub-range) -/

theorem insertSorted_length (lt : α → α → Bool) (x : α) (l : List α) : (insertSorted lt x l).length = l.length + 1 := by
  induction l with
  | nil => simp [insertSorted]
  | cons y ys ih =>
    simp only [insertSorted]
    split <;> simp [ih]

theorem stableSort_length (lt : α → α → Bool) (l : List α) : (stableSort lt l).length = l.length := by
  induction l with
  | nil => simp [stableSort]
  | cons y ys ih =>
    simp only [stableSort, List.foldr_cons] at ih ⊢
    rw [insertSorted_length, ih]; simp

theorem sort_refines (q : Ring α) (hG : Good c q) (lt : α → α → Bool) (from_ to : Nat) :
    Good c (q.sort c lt from_ to) ∧ (q.sort c lt from_ to).abs c = Spec.sort (stableSort lt) (q.abs c) from_ to := by
  unfold Ring.sort Spec.sort
  simp only [abs_length]
  by_cases h : min to q.count > from_
  · rw [if_pos h, if_pos h]
    have hl : (stableSort lt (((q.abs c).drop from_).take (min to q.count - from_))).length = min to q.count - from_ := by
      rw [stableSort_length]; simp; omega
    obtain ⟨g, a⟩ := putList_abs c _ q hG from_ (by rw [hl]; omega)
    refine ⟨g, ?_⟩
    rw [a, hl]
    congr 2; omega
  · rw [if_neg h, if_neg h]; exact ⟨hG, rfl⟩

/-! ## the Queue itself as the source of a multi-item add -/

theorem clipNum_eq (n start num : Nat) : Ring.clipNum n start num = min num (if start < n then n - start else 0) := rfl

theorem addTailSelf_refines (q : Ring α) (hG : Good c q) (start num : Nat) :
    Good c (q.addTailSelf c start num) ∧ (q.addTailSelf c start num).abs c = Spec.addTailMulti (q.abs c) (Spec.clip (q.abs c) start num) := by
  unfold Ring.addTailSelf Spec.clip
  simp only [abs_length, clipNum_eq]
  exact addTailMulti_refines c q hG _

theorem addHeadSelf_refines (q : Ring α) (hG : Good c q) (start num : Nat) :
    Good c (q.addHeadSelf c start num) ∧ (q.addHeadSelf c start num).abs c = Spec.addHeadMulti (q.abs c) (Spec.clip (q.abs c) start num) := by
  unfold Ring.addHeadSelf Spec.clip
  simp only [abs_length, clipNum_eq]
  by_cases h : min num (if start < q.count then q.count - start else 0) > 0
  · simp only [h, if_true]; exact addHeadMulti_refines c q hG _
  · simp only [h, if_false]
    have h0 : min num (if start < q.count then q.count - start else 0) = 0 := by omega
    obtain ⟨e1, e2, e3, e4, e5⟩ := ensure_nosn c q hG.1 hG.2 (min num (if start < q.count then q.count - start else 0) + q.count) 0 false
    refine ⟨⟨e1, e5⟩, ?_⟩
    rw [e2, h0]; simp [Spec.addHeadMulti]

/-! ## no-argument `AddTailAndGet()` / `AddHeadAndGet()` -/

theorem set_getD_self (l : List α) (i : Nat) (d : α) : l.set i (l.getD i d) = l := by
  apply List.ext_getElem?
  intro k
  rw [List.getElem?_set]
  by_cases h : i = k
  · subst h
    by_cases h2 : i < l.length
    · simp [h2, List.getD_eq_getElem?_getD, List.getElem?_eq_getElem h2]
    · simp [h2]
  · simp [h]

/-- writing through the returned pointer is `AddTail(item)` -/
theorem addTailRaw_write (q : Ring α) (v : α) :
    ({ (q.addTailRaw c) with slots := (q.addTailRaw c).slots.set (q.addTailRaw c).tail v } : Ring α) = q.addTail c v := rfl

theorem addHeadRaw_write (q : Ring α) (v : α) :
    ({ (q.addHeadRaw c) with slots := (q.addHeadRaw c).slots.set (q.addHeadRaw c).head v } : Ring α) = q.addHead c v := rfl

/-- the slot handed out by `AddTailAndGet()` holds SOME value; the Queue is otherwise as after `AddTail(thatValue)` -/
theorem addTailRaw_eq (q : Ring α) :
    q.addTailRaw c = q.addTail c ((q.addTailRaw c).slots.getD (q.addTailRaw c).tail c.junk) := by
  rw [← addTailRaw_write, set_getD_self]

theorem addHeadRaw_eq (q : Ring α) :
    q.addHeadRaw c = q.addHead c ((q.addHeadRaw c).slots.getD (q.addHeadRaw c).head c.junk) := by
  rw [← addHeadRaw_write, set_getD_self]

/-- for owning item types that value is the default item -/
theorem addTailRaw_default (hcl : c.clear = true) (q : Ring α) (hG : Good c q) :
    (q.addTailRaw c).slots.getD (q.addTailRaw c).tail c.junk = c.dflt := by
  obtain ⟨hI1, habs, hcnt, hsz, hC1⟩ := ensure_nosn c q hG.1 hG.2 (q.count + 1) (q.count + 1) false
  have hfree : (q.ensureSizeAux c (q.count + 1) false (q.count + 1) false).count < (q.ensureSizeAux c (q.count + 1) false (q.count + 1) false).size := by
    have := hsz rfl; omega
  unfold Ring.addTailRaw Ring.addTailSlot
  generalize q.ensureSizeAux c (q.count + 1) false (q.count + 1) false = q1 at *
  have hC := hC1 hcl
  have hc := hI1.cnt
  have hh := hI1.hd (by omega)
  by_cases h0 : q1.count = 0
  · simp only [h0, if_true]
    apply hC.slots 0 (by omega)
    simp only [inWin]; omega
  · simp only [h0, if_false]
    have ht := hI1.tl (by omega)
    have a := intern_spec q1.head q1.size (q1.count - 1)
    have n := next_spec q1.size q1.tail
    apply hC.slots
    · omega
    · simp only [inWin]; omega

theorem addHeadRaw_default (hcl : c.clear = true) (q : Ring α) (hG : Good c q) :
    (q.addHeadRaw c).slots.getD (q.addHeadRaw c).head c.junk = c.dflt := by
  obtain ⟨hI1, habs, hcnt, hsz, hC1⟩ := ensure_nosn c q hG.1 hG.2 (q.count + 1) (q.count + 1) false
  have hfree : (q.ensureSizeAux c (q.count + 1) false (q.count + 1) false).count < (q.ensureSizeAux c (q.count + 1) false (q.count + 1) false).size := by
    have := hsz rfl; omega
  unfold Ring.addHeadRaw Ring.addHeadSlot
  generalize q.ensureSizeAux c (q.count + 1) false (q.count + 1) false = q1 at *
  have hC := hC1 hcl
  have hc := hI1.cnt
  have hh := hI1.hd (by omega)
  by_cases h0 : q1.count = 0
  · simp only [h0, if_true]
    apply hC.slots 0 (by omega)
    simp only [inWin]; omega
  · simp only [h0, if_false]
    have p := prev_spec q1.size q1.head
    apply hC.slots
    · omega
    · simp only [inWin]; omega

/-! ## read-only queries against another Queue -/

theorem equals_refines (q : Ring α) (xs : List α) : q.equals c xs = Spec.equals (q.abs c) xs := by
  simp [Ring.equals, Spec.equals]

theorem startsWith_refines (q : Ring α) (xs : List α) : q.startsWith c xs = Spec.startsWith (q.abs c) xs := by
  simp [Ring.startsWith, Spec.startsWith]

theorem endsWith_refines (q : Ring α) (xs : List α) : q.endsWith c xs = Spec.endsWith (q.abs c) xs := by
  simp [Ring.endsWith, Spec.endsWith]


/-! ## RemoveItemAt -/

theorem abs_getElem? (q : Ring α) (k : Nat) (h : k < q.count) : (q.abs c)[k]? = some (q.get c k) := by
  have h' : k < (q.abs c).length := by simpa using h
  rw [List.getElem?_eq_getElem h', abs_getElem]

theorem abs_eq_opt (q : Ring α) (l : List α) (hl : q.count = l.length)
    (h : ∀ i, i < l.length → l[i]? = some (q.get c i)) : q.abs c = l := by
  apply abs_eq c q l hl
  intro i hi
  have := h i hi
  rw [List.getElem?_eq_getElem hi] at this
  exact (Option.some.inj this).symm

/-- every physical slot is the image of a user index; a slot outside the window has an index beyond the count -/
theorem phys_surj (q : Ring α) (hh : q.head < q.size) (hc : q.count ≤ q.size) (j : Nat) (hj : j < q.size) :
    ∃ k, k < q.size ∧ internalizeIndex q.head q.size k = j ∧ (¬ inWin q j → q.count ≤ k) := by
  by_cases h : q.head ≤ j
  · have a := intern_spec q.head q.size (j - q.head)
    refine ⟨j - q.head, by omega, by omega, ?_⟩
    intro hw; simp only [inWin] at hw; omega
  · have a := intern_spec q.head q.size (j + q.size - q.head)
    refine ⟨j + q.size - q.head, by omega, by omega, ?_⟩
    intro hw; simp only [inWin] at hw; omega

theorem removeAt_head_core (q q1 : Ring α) (hG : Good c q) (index : Nat) (hidx : index < q.count)
    (sh : SameShape q1 q)
    (g : ∀ k, k < q.size → q1.get c k = if 1 ≤ k ∧ k ≤ index then q.get c (k - 1) else q.get c k)
    (sl : List α) (hl : sl.length = q.size) (hsl : ∀ j, j ≠ q.head → sl.getD j c.junk = q1.slots.getD j c.junk)
    (hcl : c.clear = true → sl.getD q.head c.junk = c.dflt) :
    Good c ({ q1 with head := nextIndex q.size q.head, count := q.count - 1, slots := sl } : Ring α) ∧
    ({ q1 with head := nextIndex q.size q.head, count := q.count - 1, slots := sl } : Ring α).abs c = (q.abs c).eraseIdx index := by
  obtain ⟨hI, hC⟩ := hG
  obtain ⟨s1, s2, s3, s4, s5, s6⟩ := sh
  have hc := hI.cnt
  have hh := hI.hd (by omega)
  have ht := hI.tl (by omega)
  have n := next_spec q.size q.head
  have a := intern_spec q.head q.size (q.count - 1)
  have hs6 : q1.slots.length = q.size := s6
  simp only [Ring.size] at *
  -- what a slot of the new window holds
  have key : ∀ k, k + 1 < q.count → sl.getD (internalizeIndex (nextIndex q.slots.length q.head) q.slots.length k) c.junk =
      if k < index then q.get c k else q.get c (k + 1) := by
    intro k hk
    have b := intern_spec (nextIndex q.slots.length q.head) q.slots.length k
    have d := intern_spec q.head q.slots.length (k + 1)
    have e : internalizeIndex (nextIndex q.slots.length q.head) q.slots.length k = internalizeIndex q.head q.slots.length (k + 1) := by omega
    rw [e, hsl _ (by omega)]
    have : q1.slots.getD (internalizeIndex q.head q.slots.length (k + 1)) c.junk = q1.get c (k + 1) := by
      rw [get_def, s1, hs6]
    rw [this, g (k + 1) (by omega)]
    by_cases h1 : k < index
    · have t : 1 ≤ k + 1 ∧ k + 1 ≤ index := by omega
      rw [if_pos t, if_pos h1]; rfl
    · have t : ¬ (1 ≤ k + 1 ∧ k + 1 ≤ index) := by omega
      rw [if_neg t, if_neg h1]
  refine ⟨⟨?_, ?_⟩, ?_⟩
  · constructor
    · simp only [Ring.size, hl] at *; omega
    · intro _; simp only [Ring.size, hl] at *; omega
    · intro _
      have b := intern_spec (nextIndex q.slots.length q.head) q.slots.length (q.count - 1 - 1)
      simp only [Ring.size, hl] at *; rw [s2]; omega
    · simp only; rw [s4, s5]; exact hI.sb
    · simp only [Ring.size, hl]; rw [s4]; exact hI.sm
    · simp only [Ring.size, hl]; rw [s4]; exact hI.nl
  · intro hcl'
    have hCl := hC hcl'
    constructor
    · intro j hj hw
      simp only [Ring.size, hl, inWin] at hj hw ⊢
      by_cases e : j = q.head
      · rw [e]; exact hcl hcl'
      · rw [hsl j e]
        obtain ⟨k, k1, k2, k3⟩ := phys_surj q hh hc j hj
        simp only [Ring.size] at k1 k2 k3
        have hkc : q.count ≤ k := k3 (by simp only [inWin, Ring.size]; omega)
        have : q1.slots.getD j c.junk = q1.get c k := by rw [get_def, s1, hs6, k2]
        rw [this, g k k1]
        have t2 : ¬ (1 ≤ k ∧ k ≤ index) := by omega
        rw [if_neg t2, get_def, k2]
        exact hCl.slots j hj (by simp only [inWin, Ring.size]; omega)
    · simp only; rw [s4, s5]; exact hCl.sbuf
  · apply abs_eq_opt
    · simp [List.length_eraseIdx]; omega
    · intro k hk
      simp only [List.length_eraseIdx, abs_length] at hk
      have hk' : k + 1 < q.count := by split at hk <;> omega
      rw [List.getElem?_eraseIdx]
      have e : ({ q1 with head := nextIndex q.slots.length q.head, count := q.count - 1, slots := sl } : Ring α).get c k =
          sl.getD (internalizeIndex (nextIndex q.slots.length q.head) q.slots.length k) c.junk := by
        simp only [get_def, hl]
      rw [e, key k hk']
      by_cases h1 : k < index
      · rw [if_pos h1, if_pos h1, abs_getElem? c q k (by omega)]
      · rw [if_neg h1, if_neg h1, abs_getElem? c q (k + 1) (by omega)]

theorem removeAt_tail_core (q q1 : Ring α) (hG : Good c q) (index : Nat) (hidx : index < q.count)
    (sh : SameShape q1 q)
    (g : ∀ k, k < q.size → q1.get c k = if index ≤ k ∧ k < q.count - 1 then q.get c (k + 1) else q.get c k)
    (sl : List α) (hl : sl.length = q.size) (hsl : ∀ j, j ≠ q.tail → sl.getD j c.junk = q1.slots.getD j c.junk)
    (hcl : c.clear = true → sl.getD q.tail c.junk = c.dflt) :
    Good c ({ q1 with tail := prevIndex q.size q.tail, count := q.count - 1, slots := sl } : Ring α) ∧
    ({ q1 with tail := prevIndex q.size q.tail, count := q.count - 1, slots := sl } : Ring α).abs c = (q.abs c).eraseIdx index := by
  obtain ⟨hI, hC⟩ := hG
  obtain ⟨s1, s2, s3, s4, s5, s6⟩ := sh
  have hc := hI.cnt
  have hh := hI.hd (by omega)
  have ht := hI.tl (by omega)
  have p := prev_spec q.size q.tail
  have a := intern_spec q.head q.size (q.count - 1)
  have hs6 : q1.slots.length = q.size := s6
  simp only [Ring.size] at *
  have key : ∀ k, k + 1 < q.count → sl.getD (internalizeIndex q.head q.slots.length k) c.junk =
      if k < index then q.get c k else q.get c (k + 1) := by
    intro k hk
    have b := intern_spec q.head q.slots.length k
    rw [hsl _ (by omega)]
    have : q1.slots.getD (internalizeIndex q.head q.slots.length k) c.junk = q1.get c k := by
      rw [get_def, s1, hs6]
    rw [this, g k (by omega)]
    by_cases h1 : k < index
    · have t : ¬ (index ≤ k ∧ k < q.count - 1) := by omega
      rw [if_neg t, if_pos h1]
    · have t : index ≤ k ∧ k < q.count - 1 := by omega
      rw [if_pos t, if_neg h1]
  refine ⟨⟨?_, ?_⟩, ?_⟩
  · constructor
    · simp only [Ring.size, hl] at *; omega
    · intro _; simp only [Ring.size, hl] at *; rw [s1]; omega
    · intro _
      have b := intern_spec q.head q.slots.length (q.count - 1 - 1)
      simp only [Ring.size, hl] at *; rw [s1]; omega
    · simp only; rw [s4, s5]; exact hI.sb
    · simp only [Ring.size, hl]; rw [s4]; exact hI.sm
    · simp only [Ring.size, hl]; rw [s4]; exact hI.nl
  · intro hcl'
    have hCl := hC hcl'
    constructor
    · intro j hj hw
      simp only [Ring.size, hl, inWin, s1] at hj hw ⊢
      by_cases e : j = q.tail
      · rw [e]; exact hcl hcl'
      · rw [hsl j e]
        obtain ⟨k, k1, k2, k3⟩ := phys_surj q hh hc j hj
        simp only [Ring.size] at k1 k2 k3
        have hkc : q.count ≤ k := k3 (by simp only [inWin, Ring.size]; omega)
        have : q1.slots.getD j c.junk = q1.get c k := by rw [get_def, s1, hs6, k2]
        rw [this, g k k1]
        have t2 : ¬ (index ≤ k ∧ k < q.count - 1) := by omega
        rw [if_neg t2, get_def, k2]
        exact hCl.slots j hj (by simp only [inWin, Ring.size]; omega)
    · simp only; rw [s4, s5]; exact hCl.sbuf
  · apply abs_eq_opt
    · simp [List.length_eraseIdx]; omega
    · intro k hk
      simp only [List.length_eraseIdx, abs_length] at hk
      have hk' : k + 1 < q.count := by split at hk <;> omega
      rw [List.getElem?_eraseIdx]
      have e : ({ q1 with tail := prevIndex q.slots.length q.tail, count := q.count - 1, slots := sl } : Ring α).get c k =
          sl.getD (internalizeIndex q.head q.slots.length k) c.junk := by
        simp only [get_def, hl, s1]
      rw [e, key k hk']
      by_cases h1 : k < index
      · rw [if_pos h1, if_pos h1, abs_getElem? c q k (by omega)]
      · rw [if_neg h1, if_neg h1, abs_getElem? c q (k + 1) (by omega)]


/-- `RemoveItemAt(index)` -/
theorem removeItemAt_refines (q : Ring α) (hG : Good c q) (index : Nat) :
    Good c (q.removeItemAt c index).1 ∧
    ((q.removeItemAt c index).1.abs c, (q.removeItemAt c index).2) = Spec.removeItemAt (q.abs c) index := by
  have hI := hG.1
  have hc := hI.cnt
  unfold Ring.removeItemAt Spec.removeItemAt
  by_cases h : index ≥ q.count
  · simp only [h, abs_length, if_true]; exact ⟨hG, (by triv)⟩
  · have hh := hI.hd (by omega)
    have ht := hI.tl (by omega)
    simp only [h, abs_length, if_false]
    by_cases hb : index < q.count / 2
    · simp only [hb, if_true]
      obtain ⟨sh, g⟩ := shiftFromHead_spec c index q hh (by omega) q.size (by omega)
      have hs6 : (Ring.shiftFromHead c q q.size (q.phys index)).slots.length = q.size := sh.2.2.2.2.2
      cases hcl : c.clear
      · simp only [Bool.false_eq_true, if_false]
        have := removeAt_head_core c q _ hG index (by omega) sh g (Ring.shiftFromHead c q q.size (q.phys index)).slots hs6
          (fun _ _ => rfl) (by intro h; rw [hcl] at h; cases h)
        exact ⟨this.1, by rw [this.2]⟩
      · simp only [if_true]
        have := removeAt_head_core c q _ hG index (by omega) sh g ((Ring.shiftFromHead c q q.size (q.phys index)).slots.set q.head c.dflt)
          (by simp [hs6]) (fun j hj => getD_set_ne _ _ _ _ _ (fun e => hj e.symm))
          (fun _ => getD_set_eq _ _ _ _ (by rw [hs6]; exact hh))
        exact ⟨this.1, by rw [this.2]⟩
    · simp only [hb, if_false]
      have htl : q.tail = q.phys (q.count - 1) := ht
      obtain ⟨sh, g⟩ := shiftFromTail_spec c (q.count - 1 - index) q hh (q.count - 1) (by omega) htl index (by omega) q.size (by omega)
      have hs6 : (Ring.shiftFromTail c q q.size (q.phys index)).slots.length = q.size := sh.2.2.2.2.2
      have a := intern_spec q.head q.size (q.count - 1)
      cases hcl : c.clear
      · simp only [Bool.false_eq_true, if_false]
        have := removeAt_tail_core c q _ hG index (by omega) sh g (Ring.shiftFromTail c q q.size (q.phys index)).slots hs6
          (fun _ _ => rfl) (by intro h; rw [hcl] at h; cases h)
        exact ⟨this.1, by rw [this.2]⟩
      · simp only [if_true]
        have := removeAt_tail_core c q _ hG index (by omega) sh g ((Ring.shiftFromTail c q q.size (q.phys index)).slots.set q.tail c.dflt)
          (by simp [hs6]) (fun j hj => getD_set_ne _ _ _ _ _ (fun e => hj e.symm))
          (fun _ => getD_set_eq _ _ _ _ (by rw [hs6, ht]; omega))
        exact ⟨this.1, by rw [this.2]⟩


/-! ## InsertItemAt -/

theorem good_put (q : Ring α) (hG : Good c q) (i : Nat) (hi : i < q.count) (v : α) : Good c (q.put i v) :=
  ⟨inv_put c q hG.1 i v, fun hcl => clean_put c q hG.1 (hG.2 hcl) i hi v⟩

theorem shiftLeftLoop_spec (n : Nat) (q : Ring α) (hG : Good c q) (i : Nat) (h : i + n < q.count) :
    Good c (Ring.shiftLeftLoop c q i n) ∧ SameShape (Ring.shiftLeftLoop c q i n) q ∧
    ∀ k, k < q.count → (Ring.shiftLeftLoop c q i n).get c k = if i ≤ k ∧ k < i + n then q.get c (k + 1) else q.get c k := by
  induction n generalizing q i with
  | zero =>
    refine ⟨hG, ⟨rfl, rfl, rfl, rfl, rfl, rfl⟩, ?_⟩
    intro k hk
    have t : ¬ (i ≤ k ∧ k < i + 0) := by omega
    rw [if_neg t]; rfl
  | succ n ih =>
    have hc := hG.1.cnt
    have hh := hG.1.hd (by omega)
    have e : Ring.shiftLeftLoop c q i (n + 1) = Ring.shiftLeftLoop c (q.put i (q.get c (i + 1))) (i + 1) n := rfl
    rw [e]
    have sp := sameShape_put q i (q.get c (i + 1))
    obtain ⟨g1, s1, a1⟩ := ih (q.put i (q.get c (i + 1))) (good_put c q hG i (by omega) _) (i + 1) (by rw [sp.2.2.1]; omega)
    refine ⟨g1, s1.trans sp, ?_⟩
    intro k hk
    rw [a1 k (by rw [sp.2.2.1]; exact hk)]
    by_cases h1 : i + 1 ≤ k ∧ k < i + 1 + n
    · have h2 : i ≤ k ∧ k < i + (n + 1) := by omega
      rw [if_pos h1, if_pos h2, get_put' c q hh i (k + 1) _ (by omega) (by omega)]
      have : ¬ (i = k + 1) := by omega
      rw [if_neg this]
    · rw [if_neg h1, get_put' c q hh i k _ (by omega) (by omega)]
      by_cases h3 : i = k
      · have h2 : i ≤ k ∧ k < i + (n + 1) := by omega
        rw [if_pos h3, if_pos h2, h3]
      · have h2 : ¬ (i ≤ k ∧ k < i + (n + 1)) := by omega
        rw [if_neg h3, if_neg h2]

theorem shiftRightLoop_spec (n : Nat) (q : Ring α) (hG : Good c q) (index : Nat) (h : index + n < q.count) :
    Good c (Ring.shiftRightLoop c q index n) ∧ SameShape (Ring.shiftRightLoop c q index n) q ∧
    ∀ k, k < q.count → (Ring.shiftRightLoop c q index n).get c k = if index < k ∧ k ≤ index + n then q.get c (k - 1) else q.get c k := by
  induction n generalizing q with
  | zero =>
    refine ⟨hG, ⟨rfl, rfl, rfl, rfl, rfl, rfl⟩, ?_⟩
    intro k hk
    have t : ¬ (index < k ∧ k ≤ index + 0) := by omega
    rw [if_neg t]; rfl
  | succ n ih =>
    have hc := hG.1.cnt
    have hh := hG.1.hd (by omega)
    have e : Ring.shiftRightLoop c q index (n + 1) = Ring.shiftRightLoop c (q.put (index + n + 1) (q.get c (index + n))) index n := rfl
    rw [e]
    have sp := sameShape_put q (index + n + 1) (q.get c (index + n))
    obtain ⟨g1, s1, a1⟩ := ih (q.put (index + n + 1) (q.get c (index + n))) (good_put c q hG _ (by omega) _) (by rw [sp.2.2.1]; omega)
    refine ⟨g1, s1.trans sp, ?_⟩
    intro k hk
    rw [a1 k (by rw [sp.2.2.1]; exact hk)]
    by_cases h1 : index < k ∧ k ≤ index + n
    · have h2 : index < k ∧ k ≤ index + (n + 1) := by omega
      rw [if_pos h1, if_pos h2, get_put' c q hh (index + n + 1) (k - 1) _ (by omega) (by omega)]
      have : ¬ (index + n + 1 = k - 1) := by omega
      rw [if_neg this]
    · rw [if_neg h1, get_put' c q hh (index + n + 1) k _ (by omega) (by omega)]
      by_cases h3 : index + n + 1 = k
      · have h2 : index < k ∧ k ≤ index + (n + 1) := by omega
        rw [if_pos h3, if_pos h2]; congr 1; omega
      · have h2 : ¬ (index < k ∧ k ≤ index + (n + 1)) := by omega
        rw [if_neg h3, if_neg h2]

theorem insert_getElem? (l : List α) (i : Nat) (v : α) (hi : i ≤ l.length) (k : Nat) :
    (l.take i ++ v :: l.drop i)[k]? = if k < i then l[k]? else if k = i then some v else l[k - 1]? := by
  have hl : (l.take i).length = i := by simp; omega
  by_cases h1 : k < i
  · rw [if_pos h1, List.getElem?_append_left (by omega), List.getElem?_take]; simp [h1]
  · rw [if_neg h1, List.getElem?_append_right (by omega), hl]
    by_cases h2 : k = i
    · subst h2; simp
    · rw [if_neg h2]
      have : k - i = (k - i - 1) + 1 := by omega
      rw [this, List.getElem?_cons_succ, List.getElem?_drop]
      congr 1; omega

/-- `InsertItemAt(index, item)` -/
theorem insertItemAt_refines (q : Ring α) (hG : Good c q) (index : Nat) (v : α) :
    Good c (q.insertItemAt c index v) ∧ (q.insertItemAt c index v).abs c = Spec.insertItemAt (q.abs c) index v := by
  unfold Ring.insertItemAt Spec.insertItemAt
  simp only [abs_length]
  by_cases h1 : index ≥ q.count
  · rw [if_pos h1, if_pos h1]
    obtain ⟨a1, a2, a3⟩ := addTail_refines c q hG.1 hG.2 v
    exact ⟨⟨a1, a3⟩, a2⟩
  · rw [if_neg h1, if_neg h1]
    by_cases h2 : index = 0
    · rw [if_pos h2]
      obtain ⟨a1, a2, a3⟩ := addHead_refines c q hG.1 hG.2 v
      refine ⟨⟨a1, a3⟩, ?_⟩
      rw [a2, h2]; simp [Spec.addHead]
    · rw [if_neg h2]
      by_cases h3 : index < q.count / 2
      · rw [if_pos h3]
        obtain ⟨a1, a2, a3⟩ := addHead_refines c q hG.1 hG.2 c.dflt
        have hcnt : (q.addHead c c.dflt).count = q.count + 1 := by
          have := congrArg List.length a2; simpa [Spec.addHead] using this
        obtain ⟨g1, s1, l1⟩ := shiftLeftLoop_spec c index (q.addHead c c.dflt) ⟨a1, a3⟩ 0 (by omega)
        have hcl : (Ring.shiftLeftLoop c (q.addHead c c.dflt) 0 index).count = q.count + 1 := by rw [s1.2.2.1, hcnt]
        refine ⟨good_put c _ g1 index (by omega) v, ?_⟩
        have hh1 := g1.1.hd (by have := g1.1.cnt; omega)
        have hc1 := g1.1.cnt
        apply abs_eq_opt
        · simp [Ring.put, hcl]; omega
        · intro k hk
          have hk' : k < q.count + 1 := by simp at hk; omega
          rw [insert_getElem? _ _ _ (by simp; omega), get_put' c _ hh1 index k v (by omega) (by omega)]
          have hq1 : ∀ m, m < q.count + 1 → (q.addHead c c.dflt).get c m = if m = 0 then c.dflt else q.get c (m - 1) := by
            intro m hm
            have := abs_getElem? c (q.addHead c c.dflt) m (by omega)
            rw [a2, Spec.addHead] at this
            cases m with
            | zero =>
              simp only [List.getElem?_cons_zero] at this
              have e := Option.some.inj this
              rw [← e]; simp
            | succ m' =>
              simp only [List.getElem?_cons_succ] at this
              rw [abs_getElem? c q m' (by omega)] at this
              have e := Option.some.inj this
              rw [← e]; simp
          by_cases e1 : k < index
          · have e2 : ¬ index = k := by omega
            rw [if_pos e1, if_neg e2, l1 k (by omega)]
            have t : 0 ≤ k ∧ k < 0 + index := by omega
            rw [if_pos t, hq1 (k + 1) (by omega), abs_getElem? c q k (by omega)]
            simp
          · rw [if_neg e1]
            by_cases e2 : k = index
            · rw [if_pos e2, if_pos e2.symm]
            · have e3 : ¬ index = k := fun x => e2 x.symm
              rw [if_neg e2, if_neg e3, l1 k (by omega)]
              have t : ¬ (0 ≤ k ∧ k < 0 + index) := by omega
              rw [if_neg t, hq1 k (by omega), abs_getElem? c q (k - 1) (by omega)]
              have : ¬ k = 0 := by omega
              simp [this]
      · rw [if_neg h3]
        obtain ⟨a1, a2, a3⟩ := addTail_refines c q hG.1 hG.2 c.dflt
        have hcnt : (q.addTail c c.dflt).count = q.count + 1 := by
          have := congrArg List.length a2; simpa [Spec.addTail] using this
        rw [hcnt]
        obtain ⟨g1, s1, l1⟩ := shiftRightLoop_spec c (q.count + 1 - 1 - index) (q.addTail c c.dflt) ⟨a1, a3⟩ index (by omega)
        have hcl : (Ring.shiftRightLoop c (q.addTail c c.dflt) index (q.count + 1 - 1 - index)).count = q.count + 1 := by rw [s1.2.2.1, hcnt]
        generalize Ring.shiftRightLoop c (q.addTail c c.dflt) index (q.count + 1 - 1 - index) = r at *
        refine ⟨good_put c _ g1 index (by omega) v, ?_⟩
        have hh1 := g1.1.hd (by have := g1.1.cnt; omega)
        have hc1 := g1.1.cnt
        apply abs_eq_opt
        · simp [Ring.put, hcl]; omega
        · intro k hk
          have hk' : k < q.count + 1 := by simp at hk; omega
          rw [insert_getElem? _ _ _ (by simp; omega), get_put' c _ hh1 index k v (by omega) (by omega)]
          have hq1 : ∀ m, m < q.count + 1 → (q.addTail c c.dflt).get c m = if m < q.count then q.get c m else c.dflt := by
            intro m hm
            have := abs_getElem? c (q.addTail c c.dflt) m (by omega)
            rw [a2, Spec.addTail] at this
            by_cases hm2 : m < q.count
            · rw [List.getElem?_append_left (by simpa using hm2), abs_getElem? c q m hm2] at this
              rw [if_pos hm2]; exact (Option.some.inj this).symm
            · rw [List.getElem?_append_right (by simp; omega)] at this
              have hz : m - (q.abs c).length = 0 := by simp; omega
              rw [hz] at this
              simp at this
              rw [if_neg hm2]; exact this.symm
          by_cases e1 : k < index
          · have e2 : ¬ index = k := by omega
            rw [if_pos e1, if_neg e2, l1 k (by omega)]
            have t : ¬ (index < k ∧ k ≤ index + (q.count + 1 - 1 - index)) := by omega
            rw [if_neg t, hq1 k (by omega), abs_getElem? c q k (by omega)]
            have : k < q.count := by omega
            simp [this]
          · rw [if_neg e1]
            by_cases e2 : k = index
            · rw [if_pos e2, if_pos e2.symm]
            · have e3 : ¬ index = k := fun x => e2 x.symm
              rw [if_neg e2, if_neg e3, l1 k (by omega)]
              have t : index < k ∧ k ≤ index + (q.count + 1 - 1 - index) := by omega
              rw [if_pos t, hq1 (k - 1) (by omega), abs_getElem? c q (k - 1) (by omega)]
              have : k - 1 < q.count := by omega
              simp [this]


/-! ## InsertItemsAt -/

theorem shiftUp_spec (k : Nat) (q : Ring α) (hG : Good c q) (index n : Nat) (h : index + n + k ≤ q.count) :
    Good c (Ring.shiftUp c q index n k) ∧ SameShape (Ring.shiftUp c q index n k) q ∧
    ∀ m, m < q.count → (Ring.shiftUp c q index n k).get c m =
      if index + n ≤ m ∧ m < index + n + k then q.get c (m - n) else q.get c m := by
  induction k generalizing q with
  | zero =>
    refine ⟨hG, ⟨rfl, rfl, rfl, rfl, rfl, rfl⟩, ?_⟩
    intro m hm
    have t : ¬ (index + n ≤ m ∧ m < index + n + 0) := by omega
    rw [if_neg t]; rfl
  | succ k ih =>
    have hc := hG.1.cnt
    have hh := hG.1.hd (by omega)
    have e : Ring.shiftUp c q index n (k + 1) = Ring.shiftUp c (q.put (index + k + n) (q.get c (index + k))) index n k := rfl
    rw [e]
    have sp := sameShape_put q (index + k + n) (q.get c (index + k))
    obtain ⟨g1, s1, a1⟩ := ih (q.put (index + k + n) (q.get c (index + k))) (good_put c q hG _ (by omega) _) (by rw [sp.2.2.1]; omega)
    refine ⟨g1, s1.trans sp, ?_⟩
    intro m hm
    rw [a1 m (by rw [sp.2.2.1]; exact hm)]
    by_cases h1 : index + n ≤ m ∧ m < index + n + k
    · have h2 : index + n ≤ m ∧ m < index + n + (k + 1) := by omega
      rw [if_pos h1, if_pos h2, get_put' c q hh (index + k + n) (m - n) _ (by omega) (by omega)]
      have : ¬ (index + k + n = m - n) := by omega
      rw [if_neg this]
    · rw [if_neg h1, get_put' c q hh (index + k + n) m _ (by omega) (by omega)]
      by_cases h3 : index + k + n = m
      · have h2 : index + n ≤ m ∧ m < index + n + (k + 1) := by omega
        rw [if_pos h3, if_pos h2]; congr 1; omega
      · have h2 : ¬ (index + n ≤ m ∧ m < index + n + (k + 1)) := by omega
        rw [if_neg h3, if_neg h2]

/-- the general path of `InsertItemsAt`: grow by `len` default items, shift the tail up, write the new items -/
theorem insertItems_general (q : Ring α) (hG : Good c q) (index : Nat) (xs : List α) (hi : index ≤ q.count) :
    Good c ((Ring.shiftUp c (q.ensureSizeAux c (q.count + xs.length) true 0 false) index xs.length (q.count - index)).putList index xs) ∧
    ((Ring.shiftUp c (q.ensureSizeAux c (q.count + xs.length) true 0 false) index xs.length (q.count - index)).putList index xs).abs c =
      (q.abs c).take index ++ xs ++ (q.abs c).drop index := by
  obtain ⟨e1, e2, e3, e4⟩ := ensure_spec c q hG.1 hG.2 (q.count + xs.length) true 0 false
  have e2' : (q.ensureSizeAux c (q.count + xs.length) true 0 false).abs c = q.abs c ++ List.replicate xs.length c.dflt := by
    rw [e2]; unfold Spec.ensureSize
    by_cases hx : xs.length = 0
    · simp [hx]; rw [List.take_of_length_le (by simp)]
    · have h1 : q.count + xs.length > (q.abs c).length := by rw [abs_length]; omega
      rw [if_pos rfl, if_pos h1, abs_length, Nat.add_sub_cancel_left]
  have hcnt : (q.ensureSizeAux c (q.count + xs.length) true 0 false).count = q.count + xs.length := by
    have := congrArg List.length e2'
    simpa using this
  generalize q.ensureSizeAux c (q.count + xs.length) true 0 false = q1 at *
  obtain ⟨g2, s2, l2⟩ := shiftUp_spec c (q.count - index) q1 ⟨e1, e3⟩ index xs.length (by omega)
  have hc2 : (Ring.shiftUp c q1 index xs.length (q.count - index)).count = q.count + xs.length := by rw [s2.2.2.1, hcnt]
  generalize Ring.shiftUp c q1 index xs.length (q.count - index) = r2 at *
  obtain ⟨g3, a3⟩ := putList_abs c xs r2 g2 index (by omega)
  refine ⟨g3, ?_⟩
  rw [a3]
  -- an item of q1 in terms of q
  have hq1 : ∀ m, m < q.count → (q1.abs c)[m]? = (q.abs c)[m]? := by
    intro m hm
    rw [e2', List.getElem?_append_left (by simpa using hm)]
  have h_take : (r2.abs c).take index = (q.abs c).take index := by
    apply List.ext_getElem?
    intro m
    simp only [List.getElem?_take]
    by_cases hm : m < index
    · simp only [hm, if_true]
      rw [abs_getElem? c r2 m (by omega), l2 m (by omega)]
      have t : ¬ (index + xs.length ≤ m ∧ m < index + xs.length + (q.count - index)) := by omega
      rw [if_neg t, ← abs_getElem? c q1 m (by omega), hq1 m (by omega)]
    · simp [hm]
  have h_drop : (r2.abs c).drop (index + xs.length) = (q.abs c).drop index := by
    apply List.ext_getElem?
    intro m
    simp only [List.getElem?_drop]
    by_cases hm : index + m < q.count
    · rw [abs_getElem? c r2 (index + xs.length + m) (by omega), l2 _ (by omega)]
      have t : index + xs.length ≤ index + xs.length + m ∧ index + xs.length + m < index + xs.length + (q.count - index) := by omega
      have e : index + xs.length + m - xs.length = index + m := by omega
      rw [if_pos t, e, ← abs_getElem? c q1 (index + m) (by omega), hq1 _ hm]
    · rw [List.getElem?_eq_none (by simp; omega), List.getElem?_eq_none (by simp; omega)]
  rw [h_take, h_drop]

/-- `InsertItemsAt(index, items, n)` / `InsertItemsAt(index, queue, start, n)` with another queue -/
theorem insertItemsAt_refines (q : Ring α) (hG : Good c q) (index : Nat) (xs : List α) (fromQueue : Bool) :
    Good c (q.insertItemsAt c index xs fromQueue) ∧
    (q.insertItemsAt c index xs fromQueue).abs c = Spec.insertItemsAt (q.abs c) index xs := by
  unfold Ring.insertItemsAt Spec.insertItemsAt
  simp only [abs_length]
  have hA : (q.abs c).length = q.count := by simp
  by_cases h0 : xs.length = 0
  · rw [if_pos h0]
    have : xs = [] := List.eq_nil_of_length_eq_zero h0
    subst this
    exact ⟨hG, by simp⟩
  · rw [if_neg h0]
    by_cases h1 : fromQueue = true ∧ min index q.count = 0
    · rw [if_pos h1]
      obtain ⟨g, a⟩ := addHeadMulti_refines c q hG xs
      exact ⟨g, by rw [a, h1.2]; simp [Spec.addHeadMulti]⟩
    · rw [if_neg h1]
      by_cases h2 : fromQueue = true ∧ min index q.count = q.count
      · rw [if_pos h2]
        obtain ⟨g, a⟩ := addTailMulti_refines c q hG xs
        refine ⟨g, ?_⟩
        rw [a, h2.2, List.take_of_length_le (by simp), List.drop_of_length_le (by simp)]; simp [Spec.addTailMulti]
      · rw [if_neg h2]
        by_cases h3 : ¬ fromQueue = true ∧ xs.length = 1 ∧ min index q.count = 0
        · rw [if_pos h3]
          obtain ⟨a1, a2, a3⟩ := addHead_refines c q hG.1 hG.2 (xs.getD 0 c.junk)
          refine ⟨⟨a1, a3⟩, ?_⟩
          rw [a2, h3.2.2]
          match xs, h3.2.1 with
          | [x], _ => simp [Spec.addHead]
        · rw [if_neg h3]
          by_cases h4 : ¬ fromQueue = true ∧ xs.length = 1 ∧ min index q.count = q.count
          · rw [if_pos h4]
            obtain ⟨a1, a2, a3⟩ := addTail_refines c q hG.1 hG.2 (xs.getD 0 c.junk)
            refine ⟨⟨a1, a3⟩, ?_⟩
            rw [a2, h4.2.2, List.take_of_length_le (by simp), List.drop_of_length_le (by simp)]
            match xs, h4.2.1 with
            | [x], _ => simp [Spec.addTail]
          · rw [if_neg h4]
            exact insertItems_general c q hG (min index q.count) xs (by omega)

theorem clipNum_idem (n start num : Nat) : Ring.clipNum n start (Ring.clipNum n start num) = Ring.clipNum n start num := by
  simp only [clipNum_eq]; omega

/-- `InsertItemsAt(index, *this, start, num)` -/
theorem insertItemsSelf_refines (q : Ring α) (hG : Good c q) (index start num : Nat) :
    Good c (q.insertItemsSelf c index start num) ∧
    (q.insertItemsSelf c index start num).abs c = Spec.insertItemsAt (q.abs c) index (Spec.clip (q.abs c) start num) := by
  have hclip : Spec.clip (q.abs c) start num = ((q.abs c).drop start).take (Ring.clipNum q.count start num) := by
    simp [Spec.clip, clipNum_eq]
  have hlen : (Spec.clip (q.abs c) start num).length = Ring.clipNum q.count start num := by
    rw [hclip]; simp only [List.length_take, List.length_drop, abs_length, clipNum_eq]; split <;> omega
  unfold Ring.insertItemsSelf
  by_cases h0 : Ring.clipNum q.count start num = 0
  · simp only [h0, if_true]
    have : Spec.clip (q.abs c) start num = [] := List.eq_nil_of_length_eq_zero (by rw [hlen, h0])
    rw [this]; exact ⟨hG, by simp [Spec.insertItemsAt]⟩
  · simp only [h0, if_false]
    by_cases h1 : min index q.count = 0
    · simp only [h1, if_true]
      obtain ⟨g, a⟩ := addHeadSelf_refines c q hG start (Ring.clipNum q.count start num)
      refine ⟨g, ?_⟩
      rw [a]
      have : Spec.clip (q.abs c) start (Ring.clipNum q.count start num) = Spec.clip (q.abs c) start num := by
        simp only [Spec.clip, abs_length, ← clipNum_eq, clipNum_idem]
      rw [this]; simp [Spec.addHeadMulti, Spec.insertItemsAt, h1]
    · simp only [h1, if_false]
      by_cases h2 : min index q.count = q.count
      · simp only [h2, if_true]
        obtain ⟨g, a⟩ := addTailSelf_refines c q hG start (Ring.clipNum q.count start num)
        refine ⟨g, ?_⟩
        rw [a]
        have : Spec.clip (q.abs c) start (Ring.clipNum q.count start num) = Spec.clip (q.abs c) start num := by
          simp only [Spec.clip, abs_length, ← clipNum_eq, clipNum_idem]
        rw [this]
        simp only [Spec.addTailMulti, Spec.insertItemsAt, abs_length, h2]
        rw [List.take_of_length_le (by simp), List.drop_of_length_le (by simp)]; simp
      · simp only [h2, if_false]
        obtain ⟨g, a⟩ := insertItemsAt_refines c q hG (min index q.count) (((q.abs c).drop start).take (Ring.clipNum q.count start num)) true
        refine ⟨g, ?_⟩
        rw [a, hclip]
        simp only [Spec.insertItemsAt, abs_length]
        have : min (min index q.count) q.count = min index q.count := by omega
        rw [this]

/-- `InsertItemsAt(index, &(*this)[j], n)`: the array argument points into the Queue itself -/
theorem insertItemsOwn_refines (q : Ring α) (hG : Good c q) (index j n : Nat) :
    Good c (q.insertItemsOwn c index j n) ∧
    (q.insertItemsOwn c index j n).abs c = Spec.insertItemsAt (q.abs c) index (((q.abs c).drop j).take n) := by
  unfold Ring.insertItemsOwn
  by_cases h0 : (((q.abs c).drop j).take n).length = 0
  · simp only [h0, if_true]
    have : ((q.abs c).drop j).take n = [] := List.eq_nil_of_length_eq_zero h0
    rw [this]; exact ⟨hG, by simp [Spec.insertItemsAt]⟩
  · simp only [h0, if_false]
    exact insertItemsAt_refines c q hG index _ true


/-! ## Normalize, all branches -/

instance (q : Ring α) (j : Nat) : Decidable (inWin q j) := by unfold inWin; infer_instance

theorem overwriteAt_length (xs : List α) (l : List α) (s : Nat) : (overwriteAt l s xs).length = l.length := by
  induction xs generalizing l s with
  | nil => rfl
  | cons x xs ih => simp [overwriteAt, ih]

theorem overwriteAt_getD (xs : List α) (l : List α) (s j : Nat) (d : α) :
    (overwriteAt l s xs).getD j d = if s ≤ j ∧ j < s + xs.length ∧ j < l.length then xs.getD (j - s) d else l.getD j d := by
  induction xs generalizing l s with
  | nil =>
    have t : ¬ (s ≤ j ∧ j < s + ([] : List α).length ∧ j < l.length) := by
      intro h; have := h.2.1; simp at this; omega
    simp only [overwriteAt, t, if_false]
  | cons x xs ih =>
    simp only [overwriteAt, List.length_cons]
    rw [ih, getD_set', List.length_set]
    by_cases e : s = j
    · subst e
      by_cases hl : s < l.length
      · have t1 : ¬ (s + 1 ≤ s ∧ s < s + 1 + xs.length ∧ s < l.length) := by omega
        have t2 : s ≤ s ∧ s < s + (xs.length + 1) ∧ s < l.length := by omega
        rw [if_neg t1, if_pos t2]; simp [hl]
      · have t1 : ¬ (s + 1 ≤ s ∧ s < s + 1 + xs.length ∧ s < l.length) := by omega
        have t2 : ¬ (s ≤ s ∧ s < s + (xs.length + 1) ∧ s < l.length) := by omega
        rw [if_neg t1, if_neg t2]; simp [hl]
    · by_cases r : s + 1 ≤ j ∧ j < s + 1 + xs.length ∧ j < l.length
      · have t2 : s ≤ j ∧ j < s + (xs.length + 1) ∧ j < l.length := by omega
        have : j - s = (j - (s + 1)) + 1 := by omega
        rw [if_pos r, if_pos t2, this, List.getD_cons_succ]
      · have t2 : ¬ (s ≤ j ∧ j < s + (xs.length + 1) ∧ j < l.length) := by omega
        have t3 : ¬ (s = j ∧ j < l.length) := fun x => e x.1
        rw [if_neg r, if_neg t2, if_neg t3]

/-- every physical slot is the image of exactly one user index, inside the window iff below the count -/
theorem phys_surj' (q : Ring α) (hh : q.head < q.size) (hc : q.count ≤ q.size) (j : Nat) (hj : j < q.size) :
    ∃ k, k < q.size ∧ internalizeIndex q.head q.size k = j ∧ (inWin q j ↔ k < q.count) := by
  by_cases h : q.head ≤ j
  · have a := intern_spec q.head q.size (j - q.head)
    refine ⟨j - q.head, by omega, by omega, ?_⟩
    simp only [inWin]; omega
  · have a := intern_spec q.head q.size (j + q.size - q.head)
    refine ⟨j + q.size - q.head, by omega, by omega, ?_⟩
    simp only [inWin]; omega

/-- the rotation branch keeps owning item types clean -/
theorem clean_normalize_rot (hcl : c.clear = true) (q : Ring α) (hI : Inv c q) (hC : Clean c q)
    (hn : q.isNormalized = false) (h2 : ¬ (q.count * 2 ≤ q.size)) : Clean c (q.normalize c) := by
  unfold Ring.normalize
  simp only [hn, Bool.false_eq_true, if_false, h2]
  have hc := hI.cnt
  have hh := hI.hd (by omega)
  have hlen : (q.slots.drop q.head ++ q.slots.take q.head).length = q.slots.length := by
    simp only [Ring.size] at hh
    simp only [List.length_append, List.length_drop, List.length_take]; omega
  constructor
  · intro j hj hw
    simp only [Ring.size, hlen, inWin] at hj hw
    simp only [Ring.size] at hh hc
    rw [getD_rot _ _ _ _ hh hj]
    have a := intern_spec q.head q.slots.length j
    apply hC.slots
    · simp only [Ring.size]; omega
    · simp only [inWin, Ring.size]; omega
  · exact hC.sbuf

/-- the copy branch of `Normalize()` (`2*count ≤ size`) -/
theorem normalize_copy (q : Ring α) (hG : Good c q) (hn : q.isNormalized = false) (h2 : q.count * 2 ≤ q.size) :
    Good c (q.normalize c) ∧ (q.normalize c).abs c = q.abs c ∧ (q.normalize c).isNormalized = true := by
  obtain ⟨hI, hC⟩ := hG
  have hc := hI.cnt
  have hcp : 0 < q.count ∧ q.head > q.tail := by
    cases hq : q.count with
    | zero => simp [Ring.isNormalized, hq] at hn
    | succ k =>
      simp only [Ring.isNormalized, hq] at hn
      simp at hn; omega
  have hh := hI.hd (by omega)
  have ht := hI.tl hcp.1
  have a := intern_spec q.head q.size (q.count - 1)
  unfold Ring.normalize
  simp only [hn, Bool.false_eq_true, if_false, h2, if_true]
  -- the slot array after the copy loop, and after the optional reset of the old slots
  have hs1 : (overwriteAt q.slots (q.tail + 1) (q.abs c)).length = q.size := overwriteAt_length _ _ _
  have hg1 : ∀ j, j < q.size → (overwriteAt q.slots (q.tail + 1) (q.abs c)).getD j c.junk =
      if q.tail + 1 ≤ j ∧ j < q.tail + 1 + q.count then q.get c (j - (q.tail + 1)) else q.slots.getD j c.junk := by
    intro j hj
    rw [overwriteAt_getD, abs_length]
    by_cases r : q.tail + 1 ≤ j ∧ j < q.tail + 1 + q.count
    · have r2 : q.tail + 1 ≤ j ∧ j < q.tail + 1 + q.count ∧ j < q.slots.length := ⟨r.1, r.2, hj⟩
      rw [if_pos r, if_pos r2, abs_getD c q _ (by omega)]
    · have r2 : ¬ (q.tail + 1 ≤ j ∧ j < q.tail + 1 + q.count ∧ j < q.slots.length) := fun x => r ⟨x.1, x.2.1⟩
      rw [if_neg r, if_neg r2]
  -- slots of the final ring, for both item kinds
  have fin : ∃ sl : List α, (if c.clear = true then ({ q with slots := overwriteAt q.slots (q.tail + 1) (q.abs c) } : Ring α).putList 0 (List.replicate q.count c.dflt)
        else ({ q with slots := overwriteAt q.slots (q.tail + 1) (q.abs c) } : Ring α)) =
        ({ q with slots := sl } : Ring α) ∧ sl.length = q.size ∧
      (∀ j, j < q.size → sl.getD j c.junk =
        if c.clear = true ∧ inWin q j then c.dflt else (overwriteAt q.slots (q.tail + 1) (q.abs c)).getD j c.junk) := by
    cases hcl : c.clear
    · refine ⟨overwriteAt q.slots (q.tail + 1) (q.abs c), by simp, hs1, ?_⟩
      intro j hj; simp
    · have hh1 : ({ q with slots := overwriteAt q.slots (q.tail + 1) (q.abs c) } : Ring α).head <
          ({ q with slots := overwriteAt q.slots (q.tail + 1) (q.abs c) } : Ring α).size := by
        show q.head < (overwriteAt q.slots (q.tail + 1) (q.abs c)).length
        rw [hs1]; exact hh
      obtain ⟨sh, pg⟩ := putList_spec c (List.replicate q.count c.dflt) ({ q with slots := overwriteAt q.slots (q.tail + 1) (q.abs c) } : Ring α) hh1 0
        (by show 0 + (List.replicate q.count c.dflt).length ≤ (overwriteAt q.slots (q.tail + 1) (q.abs c)).length; rw [hs1]; simp; omega)
      generalize ({ q with slots := overwriteAt q.slots (q.tail + 1) (q.abs c) } : Ring α).putList 0 (List.replicate q.count c.dflt) = q2 at *
      obtain ⟨s1, s2, s3, s4, s5, s6⟩ := sh
      refine ⟨q2.slots, ?_, ?_, ?_⟩
      · simp only [if_true]
        cases q2; simp only at s1 s2 s3 s4 s5 ⊢; subst s1 s2 s3 s4 s5; rfl
      · have : q2.size = (overwriteAt q.slots (q.tail + 1) (q.abs c)).length := s6
        rw [← hs1, ← this]; rfl
      · intro j hj
        obtain ⟨k, k1, k2, k3⟩ := phys_surj' q hh hc j hj
        have e1 : q2.slots.getD j c.junk = q2.get c k := by
          rw [get_def, s1]
          have : q2.slots.length = q.size := by
            have : q2.size = (overwriteAt q.slots (q.tail + 1) (q.abs c)).length := s6
            rw [← hs1, ← this]; rfl
          rw [this, k2]
        have e2 := pg k (by show k < (overwriteAt q.slots (q.tail + 1) (q.abs c)).length; rw [hs1]; exact k1)
        have e3 : ({ q with slots := overwriteAt q.slots (q.tail + 1) (q.abs c) } : Ring α).get c k =
            (overwriteAt q.slots (q.tail + 1) (q.abs c)).getD j c.junk := by
          simp only [get_def, hs1]; rw [k2]
        rw [e1, e2, e3]
        simp only [List.length_replicate, true_and]
        by_cases hw : inWin q j
        · have hk : 0 ≤ k ∧ k < 0 + q.count := by have := k3.1 hw; omega
          rw [if_pos hk, if_pos hw]
          have hlt : k < q.count := by have := hk.2; omega
          simp [List.getD_eq_getElem?_getD, List.getElem?_replicate, hlt]
        · have hk : ¬ (0 ≤ k ∧ k < 0 + q.count) := by intro x; exact hw (k3.2 (by omega))
          rw [if_neg hk, if_neg hw]
  obtain ⟨sl, hsl, hll, hget⟩ := fin
  rw [hsl]
  -- the new window [tail+1, tail+1+count) lies in the free middle of the array
  have hfree : q.tail + 1 + q.count ≤ q.head := by omega
  have hnew : ∀ k, k < q.count → sl.getD (q.tail + 1 + k) c.junk = q.get c k := by
    intro k hk
    rw [hget _ (by omega)]
    have hw : ¬ inWin q (q.tail + 1 + k) := by simp only [inWin]; omega
    have t : ¬ (c.clear = true ∧ inWin q (q.tail + 1 + k)) := fun x => hw x.2
    rw [if_neg t, hg1 _ (by omega)]
    have r : q.tail + 1 ≤ q.tail + 1 + k ∧ q.tail + 1 + k < q.tail + 1 + q.count := by omega
    rw [if_pos r]; congr 1; omega
  refine ⟨⟨?_, ?_⟩, ?_, ?_⟩
  · constructor
    · simp only [Ring.size, hll] at *; omega
    · intro _; simp only [Ring.size, hll] at *; omega
    · intro _
      have b := intern_spec (q.tail + 1) q.size (q.count - 1)
      simp only [Ring.size, hll] at *; omega
    · exact hI.sb
    · simp only [Ring.size, hll]; exact hI.sm
    · simp only [Ring.size, hll]; exact hI.nl
  · intro hcl
    have hCl := hC hcl
    constructor
    · intro j hj hw
      simp only [Ring.size, hll] at hj
      have hj' : j < q.size := hj
      rw [hget j hj']
      by_cases hwq : inWin q j
      · rw [if_pos ⟨hcl, hwq⟩]
      · have t : ¬ (c.clear = true ∧ inWin q j) := fun x => hwq x.2
        rw [if_neg t, hg1 j hj']
        have r : ¬ (q.tail + 1 ≤ j ∧ j < q.tail + 1 + q.count) := by
          simp only [inWin, Ring.size, hll] at hw; simp only [Ring.size] at *; omega
        rw [if_neg r]
        exact hCl.slots j hj' hwq
    · exact hCl.sbuf
  · apply abs_congr
    · rfl
    · intro k hk
      have b := intern_spec (q.tail + 1) q.size k
      have e : ({ q with slots := sl, head := q.tail + 1, tail := q.tail + 1 + q.count - 1 } : Ring α).get c k =
          sl.getD (internalizeIndex (q.tail + 1) q.size k) c.junk := by
        simp only [get_def, hll]
      rw [e]
      have : internalizeIndex (q.tail + 1) q.size k = q.tail + 1 + k := by omega
      rw [this, hnew k hk]
  · simp [Ring.isNormalized]; omega

/-- `Normalize()`: identity on the content, contiguous afterwards, invariant kept — every branch -/
theorem normalize_refines (q : Ring α) (hG : Good c q) :
    Good c (q.normalize c) ∧ (q.normalize c).abs c = q.abs c ∧ (q.normalize c).isNormalized = true := by
  by_cases hn : q.isNormalized = true
  · obtain ⟨a, b, d⟩ := normalize_rot c q hG.1 (Or.inl hn)
    have e : q.normalize c = q := by unfold Ring.normalize; rw [if_pos hn]
    exact ⟨by rw [e]; exact hG, b, d⟩
  · have hn' : q.isNormalized = false := by cases h : q.isNormalized <;> simp_all
    by_cases h2 : q.count * 2 ≤ q.size
    · exact normalize_copy c q hG hn' h2
    · obtain ⟨a, b, d⟩ := normalize_rot c q hG.1 (Or.inr h2)
      exact ⟨⟨a, fun hcl => clean_normalize_rot c hcl q hG.1 (hG.2 hcl) hn' h2⟩, b, d⟩


/-! ## SwapContents / Plunder (two Queues) -/

/-- after the hand-over every slot of the inline buffer is in the default state (owning item types) -/
theorem handover_all_default (hcl : c.clear = true) (q : Ring α) (hG : Good c q) (j : Nat) (hj : j < q.size) :
    (q.putList 0 (List.replicate q.count c.dflt)).slots.getD j c.junk = c.dflt := by
  obtain ⟨hI, hC⟩ := hG
  have hc := hI.cnt
  have hh := hI.hd (by omega)
  obtain ⟨sh, pg⟩ := putList_spec c (List.replicate q.count c.dflt) q hh 0 (by simp; omega)
  obtain ⟨k, k1, k2, k3⟩ := phys_surj' q hh hc j hj
  have hsz : (q.putList 0 (List.replicate q.count c.dflt)).slots.length = q.size := sh.2.2.2.2.2
  have e1 : (q.putList 0 (List.replicate q.count c.dflt)).slots.getD j c.junk = (q.putList 0 (List.replicate q.count c.dflt)).get c k := by
    rw [get_def, sh.1, hsz, k2]
  rw [e1, pg k k1]
  simp only [List.length_replicate]
  by_cases hk : 0 ≤ k ∧ k < 0 + q.count
  · rw [if_pos hk]
    have hlt : k < q.count := by omega
    simp [List.getD_eq_getElem?_getD, List.getElem?_replicate, hlt]
  · rw [if_neg hk, get_def, ← Ring.size, k2]
    exact (hC hcl).slots j hj (fun hw => hk (by have := k3.1 hw; omega))

/-- `SwapContentsAux(largeThat)`: `this` lives in its inline buffer, `that` does not -/
theorem swapContentsAux_refines (this that : Ring α) (hT : Good c this) (hU : Good c that)
    (hk1 : this.kind = .small) (hk2 : that.kind ≠ .small) :
    Good c (swapContentsAux c this that).1 ∧ Good c (swapContentsAux c this that).2 ∧
    (swapContentsAux c this that).1.abs c = that.abs c ∧ (swapContentsAux c this that).2.abs c = this.abs c := by
  obtain ⟨hI, hC⟩ := hT
  obtain ⟨hJ, hD⟩ := hU
  have hsz : this.size = c.sq := hI.sm hk1
  have hc := hI.cnt
  have hsb := hJ.sb hk2
  unfold swapContentsAux
  simp only
  refine ⟨⟨?_, ?_⟩, ?_, ?_, ?_⟩
  · -- this' : Inv
    constructor
    · exact hJ.cnt
    · intro h; simp only [Ring.size] at h ⊢; simp only [h, if_true]; exact hJ.hd h
    · intro h
      have hs : 0 < that.size := by have := hJ.cnt; simp only at h; omega
      simp only [hs, if_true]; exact hJ.tl h
    · intro _
      cases hcl : c.clear
      · simp only [Bool.false_eq_true, if_false]; exact hsz
      · simp only [if_true]
        by_cases hp : 0 < this.size
        · have hh := hI.hd hp
          exact ((putList_spec c (List.replicate this.count c.dflt) this hh 0 (by simp; omega)).1.2.2.2.2.2).trans hsz
        · have h0 : this.count = 0 := by omega
          simp only [h0, List.replicate_zero, Ring.putList]; exact hsz
    · intro h; exact absurd h hk2
    · exact hJ.nl
  · -- this' : Clean
    intro hcl
    constructor
    · intro j hj hw
      have hp : 0 < that.size := by simp only [Ring.size] at hj ⊢; omega
      simp only [inWin, Ring.size, hp, if_true] at hw
      simp only [Ring.size] at hp
      simp only [hp, if_true] at hw
      exact (hD hcl).slots j hj (by simp only [inWin, Ring.size]; exact hw)
    · intro _ j hj
      simp only [hcl, if_true]
      exact handover_all_default c hcl this ⟨hI, hC⟩ j (by omega)
  · -- that'
    by_cases hn : this.count > 0
    · simp only [hn, if_true]
      have hlen : (overwritePrefix that.sbuf (this.abs c)).length = c.sq := by
        rw [overwritePrefix_length, abs_length]; omega
      refine ⟨?_, ?_⟩
      · constructor
        · simp only [Ring.size, hlen]; omega
        · intro h; simp only [Ring.size, hlen] at h ⊢; exact h
        · intro _
          have a := intern_spec 0 c.sq (this.count - 1)
          simp only [Ring.size, hlen]; omega
        · intro h; exact absurd rfl h
        · intro _; simp only [Ring.size, hlen]
        · intro h; cases h
      · intro hcl
        constructor
        · intro j hj hw
          simp only [Ring.size, hlen, inWin] at hj hw
          rw [overwritePrefix_getD_ge _ _ _ _ (by simp; omega)]
          exact (hD hcl).sbuf hk2 j hj
        · intro h; exact absurd rfl h
    · simp only [hn, if_false]
      have h0 : this.count = 0 := by omega
      have habs : this.abs c = [] := abs_of_count_zero c this h0
      refine ⟨?_, ?_⟩
      · constructor
        · simp [Ring.size, h0]
        · intro h; simp [Ring.size] at h
        · intro h; simp only [h0] at h; omega
        · intro _; simp only [habs, overwritePrefix, List.length_nil, List.drop_zero, List.nil_append]; exact hsb
        · intro h; cases h
        · intro _; rfl
      · intro hcl
        constructor
        · intro j hj; simp [Ring.size] at hj
        · intro _ j hj
          simp only [habs, overwritePrefix, List.length_nil, List.drop_zero, List.nil_append]
          exact (hD hcl).sbuf hk2 j hj
  · -- abs this' = abs that
    apply abs_congr
    · rfl
    · intro k hk
      have hp : 0 < that.size := by have := hJ.cnt; omega
      simp only [get_def]
      simp only [Ring.size] at hp
      simp only [Ring.size, hp, if_true]
  · -- abs that' = abs this
    by_cases hn : this.count > 0
    · simp only [hn, if_true]
      have hlen : (overwritePrefix that.sbuf (this.abs c)).length = c.sq := by
        rw [overwritePrefix_length, abs_length]; omega
      apply abs_eq
      · simp
      · intro k hk
        have hk' : k < this.count := by simpa using hk
        have a := intern_spec 0 c.sq k
        have e : internalizeIndex 0 c.sq k = k := by omega
        simp only [get_def, hlen]
        rw [e, overwritePrefix_getD _ _ _ _ hk, List.getD_eq_getElem?_getD, List.getElem?_eq_getElem hk, Option.getD_some]
    · simp only [hn, if_false]
      have h0 : this.count = 0 := by omega
      rw [abs_of_count_zero c this h0]
      exact abs_of_count_zero c _ h0

/-- both Queues on the heap (or never allocated): only pointers and indices change hands, the inline buffers stay -/
theorem swap_pointers (a b : Ring α) (hA : Good c a) (hB : Good c b) (hka : a.kind ≠ .small) (hkb : b.kind ≠ .small) :
    Good c ({ b with sbuf := a.sbuf } : Ring α) ∧ Good c ({ a with sbuf := b.sbuf } : Ring α) ∧
    ({ b with sbuf := a.sbuf } : Ring α).abs c = b.abs c ∧ ({ a with sbuf := b.sbuf } : Ring α).abs c = a.abs c := by
  refine ⟨⟨?_, ?_⟩, ⟨?_, ?_⟩, rfl, rfl⟩
  · exact ⟨hB.1.cnt, hB.1.hd, hB.1.tl, fun _ => hA.1.sb hka, fun h => absurd h hkb, hB.1.nl⟩
  · intro hcl; exact ⟨(hB.2 hcl).slots, fun _ => (hA.2 hcl).sbuf hka⟩
  · exact ⟨hA.1.cnt, hA.1.hd, hA.1.tl, fun _ => hB.1.sb hkb, fun h => absurd h hka, hA.1.nl⟩
  · intro hcl; exact ⟨(hA.2 hcl).slots, fun _ => (hB.2 hcl).sbuf hkb⟩

/-- the "both inline" branch, for the longer Queue `a` and the shorter `b` -/
theorem swap_inline_core (a b : Ring α) (hA : Good c a) (hB : Good c b) (hlt : b.count ≤ a.count) :
    Good c ((a.ensureSizeAux c b.count true 0 false).putList 0 (((b.addTailMulti c ((a.abs c).drop b.count)).abs c).take b.count)) ∧
    Good c ((b.addTailMulti c ((a.abs c).drop b.count)).putList 0 ((a.ensureSizeAux c b.count true 0 false).abs c)) ∧
    ((a.ensureSizeAux c b.count true 0 false).putList 0 (((b.addTailMulti c ((a.abs c).drop b.count)).abs c).take b.count)).abs c = b.abs c ∧
    ((b.addTailMulti c ((a.abs c).drop b.count)).putList 0 ((a.ensureSizeAux c b.count true 0 false).abs c)).abs c = a.abs c := by
  obtain ⟨g1, a1⟩ := addTailMulti_refines c b hB ((a.abs c).drop b.count)
  obtain ⟨e1, e2, e3, _⟩ := ensure_spec c a hA.1 hA.2 b.count true 0 false
  have e2' : (a.ensureSizeAux c b.count true 0 false).abs c = (a.abs c).take b.count := by
    rw [e2]; unfold Spec.ensureSize
    have : ¬ (b.count > (a.abs c).length) := by simp; omega
    simp only [if_true, this, if_false]
  have hc1 : (a.ensureSizeAux c b.count true 0 false).count = b.count := by
    have := congrArg List.length e2'; simp at this; omega
  have hc2 : (b.addTailMulti c ((a.abs c).drop b.count)).count = a.count := by
    have := congrArg List.length a1; simp [Spec.addTailMulti] at this; omega
  simp only [Spec.addTailMulti] at a1
  generalize a.ensureSizeAux c b.count true 0 false = a1r at *
  generalize b.addTailMulti c ((a.abs c).drop b.count) = b1r at *
  have hys : (b1r.abs c).take b.count = b.abs c := by
    rw [a1, List.take_left' (by simp)]
  rw [hys]
  obtain ⟨p1, q1⟩ := putList_abs c (b.abs c) a1r ⟨e1, e3⟩ 0 (by simp; omega)
  obtain ⟨p2, q2⟩ := putList_abs c (a1r.abs c) b1r g1 0 (by simp; omega)
  refine ⟨p1, p2, ?_, ?_⟩
  · rw [q1, List.drop_of_length_le (by simp; omega)]; simp
  · rw [q2, e2', a1]
    simp only [List.take_zero, List.nil_append, Nat.zero_add, List.length_take, abs_length]
    have hm : min b.count a.count = b.count := by omega
    rw [hm, List.drop_left' (by simp), List.take_append_drop]

/-- `SwapContents(that)` for two distinct Queues: each ends up with exactly the other one's items -/
theorem swapContents_refines (a b : Ring α) (hA : Good c a) (hB : Good c b) :
    Good c (swapContents c a b).1 ∧ Good c (swapContents c a b).2 ∧
    (swapContents c a b).1.abs c = b.abs c ∧ (swapContents c a b).2.abs c = a.abs c := by
  unfold swapContents
  simp only
  by_cases hs : a.kind = .small ∧ b.kind = .small
  · rw [if_pos hs]
    by_cases hgt : a.count > b.count
    · rw [if_pos hgt]
      have hm : min a.count b.count = b.count := by omega
      simp only [hm]
      obtain ⟨r1, r2, r3, r4⟩ := swap_inline_core c a b hA hB (by omega)
      exact ⟨r1, r2, r3, r4⟩
    · rw [if_neg hgt]
      have hm : min a.count b.count = a.count := by omega
      simp only [hm]
      obtain ⟨r1, r2, r3, r4⟩ := swap_inline_core c b a hB hA (by omega)
      exact ⟨r2, r1, r4, r3⟩
  · rw [if_neg hs]
    by_cases ha : a.kind = .small
    · rw [if_pos ha]
      have hb : b.kind ≠ .small := fun h => hs ⟨ha, h⟩
      exact swapContentsAux_refines c a b hA hB ha hb
    · rw [if_neg ha]
      by_cases hb : b.kind = .small
      · rw [if_pos hb]
        obtain ⟨r1, r2, r3, r4⟩ := swapContentsAux_refines c b a hB hA hb ha
        exact ⟨r2, r1, r4, r3⟩
      · rw [if_neg hb]
        exact swap_pointers c a b hA hB ha hb

/-- `Plunder(rhs)` (move construction / assignment from another Queue): `this` gets the items, `rhs` ends up empty -/
theorem plunder_refines (me rhs : Ring α) (hT : Good c me) (hR : Good c rhs) :
    Good c (plunder c me rhs).1 ∧ Good c (plunder c me rhs).2 ∧
    (plunder c me rhs).1.abs c = rhs.abs c ∧ (plunder c me rhs).2.abs c = [] := by
  unfold plunder
  by_cases hs : rhs.kind = .small
  · simp only [hs, if_true]
    obtain ⟨e1, e2, e3, _⟩ := ensure_spec c me hT.1 hT.2 rhs.count true 0 false
    have hc1 : (me.ensureSizeAux c rhs.count true 0 false).count = rhs.count := by
      have := congrArg List.length e2
      simp only [abs_length] at this
      rw [this]; unfold Spec.ensureSize
      by_cases hg : rhs.count > (me.abs c).length
      · simp only [hg, if_true]; simp at hg ⊢; omega
      · simp only [hg, if_false]; simp at hg ⊢; omega
    generalize me.ensureSizeAux c rhs.count true 0 false = t1 at *
    obtain ⟨p1, q1⟩ := putList_abs c (rhs.abs c) t1 ⟨e1, e3⟩ 0 (by simp; omega)
    obtain ⟨p2, q2⟩ := putList_abs c (t1.abs c) rhs hR 0 (by simp; omega)
    refine ⟨p1, ⟨(clear_refines c _ p2.1 false).1, fun hcl => clean_clear c hcl _ p2.1 (p2.2 hcl) false⟩, ?_, (clear_refines c _ p2.1 false).2⟩
    rw [q1, List.drop_of_length_le (by simp; omega)]; simp
  · simp only [hs, if_false]
    obtain ⟨r1, r2, r3, r4⟩ := swapContents_refines c me rhs hT hR
    exact ⟨r1, ⟨(clear_refines c _ r2.1 false).1, fun hcl => clean_clear c hcl _ r2.1 (r2.2 hcl) false⟩, r3, (clear_refines c _ r2.1 false).2⟩

end Muscle.Containers
