import MuscleModel.Filter.Proofs2

/-!
# Lemmas for C14, part 3: the syntactic archive round trip `fromArchiveF fuel (toArchive f) = some (norm f)`

An archive's field list is a concatenation of *blocks* (`cInt32`, `cInt8`, `aInt8`, `rawOpt`, `optMsg`,
`kidsField`, single fields) with pairwise distinct constant names.  `lookup_append` + one "skip" and
one "hit" lemma per block turn every `lookupField key (archive fields)` into a closed form; one lemma
per getter of `SetFromArchive` is stated over that closed form.
-/

set_option linter.unusedSimpArgs false
set_option linter.unusedVariables false

namespace Muscle.Filter
open Muscle Muscle.Wire Muscle.Gen

/-! ## lookups in block lists -/

theorem lookup_nil (k : Bytes) : lookupField k [] = none := rfl

theorem lookup_cons_eq (k : Bytes) (f : Field) (r : List (Bytes × Field)) : lookupField k ((k, f) :: r) = some f := by
  simp [lookupField]

theorem lookup_cons_ne (k k' : Bytes) (f : Field) (r : List (Bytes × Field)) (h : k' ≠ k) :
    lookupField k ((k', f) :: r) = lookupField k r := by
  simp [lookupField, h]

theorem lookup_append (k : Bytes) : ∀ (xs ys : List (Bytes × Field)),
    lookupField k (xs ++ ys) = (lookupField k xs).or (lookupField k ys) := by
  intro xs
  induction xs with
  | nil => intro ys; simp [lookupField]
  | cons x xs ih =>
    intro ys
    obtain ⟨n, f⟩ := x
    simp only [List.cons_append, lookupField]
    split
    · simp
    · exact ih ys

theorem skip_cInt32 (k k' : Bytes) (v d : Nat) (h : k' ≠ k) : lookupField k (cInt32 k' v d) = none := by
  unfold cInt32; split <;> simp [lookupField, h]
theorem hit_cInt32 (k : Bytes) (v d : Nat) :
    lookupField k (cInt32 k v d) = if v = d then none else some (.fixed tcInt32 .inl [leN 4 v]) := by
  unfold cInt32; split <;> simp [lookupField]
theorem skip_cInt8 (k k' : Bytes) (v : Nat) (h : k' ≠ k) : lookupField k (cInt8 k' v) = none := by
  unfold cInt8; split <;> simp [lookupField, h]
theorem hit_cInt8 (k : Bytes) (v : Nat) :
    lookupField k (cInt8 k v) = if v = 0 then none else some (.fixed tcInt8 .inl [leN 1 v]) := by
  unfold cInt8; split <;> simp [lookupField]
theorem skip_aInt8 (k k' : Bytes) (v : Nat) (h : k' ≠ k) : lookupField k (aInt8 k' v) = none := by
  simp [aInt8, lookupField, h]
theorem hit_aInt8 (k : Bytes) (v : Nat) : lookupField k (aInt8 k v) = some (.fixed tcInt8 .inl [leN 1 v]) := by
  simp [aInt8, lookupField]
theorem skip_rawOpt (k k' : Bytes) (b : Option Bytes) (h : k' ≠ k) : lookupField k (rawOpt k' b) = none := by
  unfold rawOpt; split
  · rfl
  · split <;> simp [lookupField, h]
theorem hit_rawOpt (k : Bytes) (b : Option Bytes) :
    lookupField k (rawOpt k b) = match normVal b with | some x => some (.raws tcRaw .inl [x]) | none => none := by
  unfold rawOpt normVal
  cases b with
  | none => rfl
  | some x => by_cases hx : x = [] <;> simp [hx, lookupField]
theorem skip_rawAll (k k' : Bytes) (b : Option Bytes) (h : k' ≠ k) : lookupField k (rawAll k' b) = none := by
  cases b <;> simp [rawAll, lookupField, h]
theorem hit_rawAll (k : Bytes) (b : Option Bytes) :
    lookupField k (rawAll k b) = match b with | some x => some (.raws tcRaw .inl [x]) | none => none := by
  cases b <;> simp [rawAll, lookupField]
theorem skip_optMsg (k k' : Bytes) (d : Option Msg) (h : k' ≠ k) : lookupField k (optMsg k' d) = none := by
  cases d <;> simp [optMsg, lookupField, h]
theorem hit_optMsg (k : Bytes) (d : Option Msg) :
    lookupField k (optMsg k d) = match d with | some m => some (.msgs .inl [m]) | none => none := by
  cases d <;> simp [optMsg, lookupField]
theorem skip_kids (k : Bytes) (ks : List Filter) (h : kKid ≠ k) : lookupField k (kidsField ks) = none := by
  cases ks <;> simp [kidsField, lookupField, h]

/-- the simp set that evaluates a lookup in an archive's field list (side conditions `key ≠ key'` by `decide`) -/
macro "lk" : tactic =>
  `(tactic| simp (disch := decide) only [lookup_append, lookup_nil, lookup_cons_eq, lookup_cons_ne, skip_cInt32, hit_cInt32,
      skip_cInt8, hit_cInt8, skip_aInt8, hit_aInt8, skip_rawOpt, hit_rawOpt, skip_rawAll, hit_rawAll, skip_optMsg, hit_optMsg, skip_kids,
      Option.none_or, Option.or_none, Option.some_or, valueHdr, numFields, strFields, Msg.fields, List.cons_append])

/-! ## the getters of `SetFromArchive` over closed-form lookups -/

theorem leVal_leN4 (v : Nat) (h : v < U32) : leVal (leN 4 v) = v := leVal_leN 4 v (by simpa [U32] using h)
theorem leVal_leN1 (v : Nat) (h : v < 256) : leVal (leN 1 v) = v := leVal_leN 1 v (by simpa using h)

theorem getInt32_of (k : Bytes) (d v w : Nat) (fs : List (Bytes × Field)) (hv : v < U32)
    (h : lookupField k fs = if v = d then none else some (.fixed tcInt32 .inl [leN 4 v])) :
    getInt32 k d (.mk w fs) = v := by
  unfold getInt32 findInt32 findFixed
  simp only [Msg.fields, h]
  by_cases hvd : v = d
  · simp [hvd]
  · simp [hvd, leVal_leN4 v hv]

theorem getInt8_of (k : Bytes) (v w : Nat) (fs : List (Bytes × Field)) (hv : v < 256)
    (h : lookupField k fs = if v = 0 then none else some (.fixed tcInt8 .inl [leN 1 v])) :
    getInt8 k (.mk w fs) = v := by
  unfold getInt8 findInt8 findFixed
  simp only [Msg.fields, h]
  by_cases hvd : v = 0
  · simp [hvd]
  · simp [hvd, leVal_leN1 v hv]

theorem findInt8_of (k : Bytes) (v w : Nat) (fs : List (Bytes × Field)) (hv : v < 256)
    (h : lookupField k fs = some (.fixed tcInt8 .inl [leN 1 v])) :
    findInt8 k (.mk w fs) = some v := by
  unfold findInt8 findFixed
  simp [Msg.fields, h, leVal_leN1 v hv]

theorem fnIdx_of (fn : Bytes) (idx w : Nat) (fs : List (Bytes × Field)) (hv : idx < U32)
    (h1 : lookupField kFn fs = some (.strs .inl [fn]))
    (h2 : lookupField kIdx fs = if idx = 0 then none else some (.fixed tcInt32 .inl [leN 4 idx])) :
    fnIdx (.mk w fs) = some (fn, idx) := by
  unfold fnIdx findString
  simp only [Msg.fields, h1]
  simp [getInt32_of kIdx 0 idx w fs hv h2]

theorem findData_fixed_of (k : Bytes) (tc idx w : Nat) (r : Rep) (xs : List Bytes) (fs : List (Bytes × Field))
    (hany : tc ≠ tcAny) (h : lookupField k fs = some (.fixed tc r xs)) :
    findData k tc idx (.mk w fs) = xs[idx]? := by
  unfold findData
  simp [Msg.fields, h, hany, Field.typeCode, dataAt]

theorem findString_of (k : Bytes) (idx w : Nat) (r : Rep) (xs : List Bytes) (fs : List (Bytes × Field))
    (h : lookupField k fs = some (.strs r xs)) : findString k idx (.mk w fs) = xs[idx]? := by
  unfold findString
  simp [Msg.fields, h]

theorem findData_raw_of (k : Bytes) (w : Nat) (b : Option Bytes) (fs : List (Bytes × Field))
    (h : lookupField k fs = match normVal b with | some x => some (.raws tcRaw .inl [x]) | none => none) :
    findData k tcRaw 0 (.mk w fs) = normVal b := by
  unfold findData
  simp only [Msg.fields, h]
  cases hb : normVal b with
  | none => rfl
  | some x =>
    have hx : x ≠ [] := by
      unfold normVal at hb
      cases b with
      | none => cases hb
      | some y => by_cases hy : y = [] <;> simp [hy] at hb; subst hb; exact hy
    have : tcRaw ≠ tcAny := by decide
    simp [this, Field.typeCode, dataAt, hx]

theorem findRawBuf_of (k : Bytes) (w : Nat) (b : Option Bytes) (fs : List (Bytes × Field))
    (h : lookupField k fs = match b with | some x => some (.raws tcRaw .inl [x]) | none => none) :
    findRawBuf k (.mk w fs) = b := by
  unfold findRawBuf
  cases b <;> simp [Msg.fields, h]

theorem normVal_of_ne (d : Option Bytes) (h : d ≠ some []) : normVal d = d := by
  unfold normVal
  cases d with
  | none => rfl
  | some x => by_cases hx : x = [] <;> simp_all

theorem findMessage_of (k : Bytes) (w : Nat) (d : Option Msg) (fs : List (Bytes × Field))
    (h : lookupField k fs = match d with | some m => some (.msgs .inl [m]) | none => none) :
    findMessage k 0 (.mk w fs) = d := by
  unfold findMessage
  cases d <;> simp [Msg.fields, h]

theorem kidArchives_of (w : Nat) (ks : List Filter) (rest : List (Bytes × Field)) (h : lookupField kKid rest = none) :
    kidArchives (.mk w (kidsField ks ++ rest)) = toArchives ks := by
  unfold kidArchives
  cases ks with
  | nil => simp [kidsField, Msg.fields, h, toArchives]
  | cons k ks => simp [kidsField, Msg.fields, lookupField, toArchives]

/-! ## dispatch of the factory on the class code -/

macro "qfcodes" : tactic =>
  `(tactic| simp only [Msg.what, NumTy.qf, numTyOfQf, qfWhatCode, qfValueExists, qfChildCount, qfString, qfNodeName, qfRawData,
    qfMessage, qfMinMatch, qfMaxMatch, qfXor, qfBool, qfDouble, qfFloat, qfInt64, qfInt32, qfInt16, qfInt8, qfPoint, qfRect,
    Nat.reduceEqDiff, ↓reduceIte])

theorem disp_what (n : Nat) (fs : List (Bytes × Field)) :
    fromArchiveF (n+1) (.mk qfWhatCode fs) =
      some (.what (getInt32 kMin 0 (.mk qfWhatCode fs)) (getInt32 kMax (getInt32 kMin 0 (.mk qfWhatCode fs)) (.mk qfWhatCode fs))) := by
  rw [fromArchiveF]; qfcodes

theorem disp_exists (n : Nat) (fs : List (Bytes × Field)) :
    fromArchiveF (n+1) (.mk qfValueExists fs) =
      match fnIdx (.mk qfValueExists fs) with
      | none => none
      | some (fn, idx) => some (.valueExists fn idx (getInt32 kType tcAny (.mk qfValueExists fs))) := by
  rw [fromArchiveF]; qfcodes <;> rfl

theorem disp_cc (n : Nat) (fs : List (Bytes × Field)) :
    fromArchiveF (n+1) (.mk qfChildCount fs) =
      match numFromArchive tcInt32 4 (NumTy.dflt .i32) (.mk qfChildCount fs) with
      | none => none
      | some p => some (.childCount p.fn p.idx p.op p.mop p.val p.mask p.dflt) := by
  rw [fromArchiveF]; qfcodes <;> rfl

theorem disp_str (n : Nat) (fs : List (Bytes × Field)) :
    fromArchiveF (n+1) (.mk qfString fs) =
      match strFromArchive (.mk qfString fs) with
      | none => none
      | some (fn, idx, op, v, d) => some (.str fn idx op v d) := by
  rw [fromArchiveF]; qfcodes <;> rfl

theorem disp_nn (n : Nat) (fs : List (Bytes × Field)) :
    fromArchiveF (n+1) (.mk qfNodeName fs) =
      match strFromArchive (.mk qfNodeName fs) with
      | none => none
      | some (fn, idx, op, v, d) => some (.nodeName fn idx op v d) := by
  rw [fromArchiveF]; qfcodes <;> rfl

theorem disp_raw (n : Nat) (fs : List (Bytes × Field)) :
    fromArchiveF (n+1) (.mk qfRawData fs) =
      match fnIdx (.mk qfRawData fs) with
      | none => none
      | some (fn, idx) =>
        match findInt8 kOp (.mk qfRawData fs) with
        | none => none
        | some op => some (.raw fn idx op (getInt32 kType tcAny (.mk qfRawData fs)) (findData kVal tcRaw 0 (.mk qfRawData fs))
                            (findRawBuf kDef (.mk qfRawData fs))) := by
  rw [fromArchiveF]; qfcodes <;> rfl

theorem disp_msg (n : Nat) (fs : List (Bytes × Field)) :
    fromArchiveF (n+1) (.mk qfMessage fs) =
      match fnIdx (.mk qfMessage fs) with
      | none => none
      | some (fn, idx) =>
        match findMessage kKid 0 (.mk qfMessage fs) with
        | none => some (.msgAny fn idx (findMessage kDefmsg 0 (.mk qfMessage fs)))
        | some k =>
          match fromArchiveF n k with
          | none => none
          | some kid => some (.msgKid fn idx kid (findMessage kDefmsg 0 (.mk qfMessage fs))) := by
  rw [fromArchiveF]; qfcodes <;> rfl

theorem disp_min (n : Nat) (fs : List (Bytes × Field)) :
    fromArchiveF (n+1) (.mk qfMinMatch fs) =
      match mapOpt (fromArchiveF n) (kidArchives (.mk qfMinMatch fs)) with
      | none => none
      | some kids => some (.minMatch (getInt32 kMin muscleNoLimit (.mk qfMinMatch fs)) kids) := by
  rw [fromArchiveF]; qfcodes <;> rfl

theorem disp_max (n : Nat) (fs : List (Bytes × Field)) :
    fromArchiveF (n+1) (.mk qfMaxMatch fs) =
      match mapOpt (fromArchiveF n) (kidArchives (.mk qfMaxMatch fs)) with
      | none => none
      | some kids => some (.maxMatch (getInt32 kMax 0 (.mk qfMaxMatch fs)) kids) := by
  rw [fromArchiveF]; qfcodes <;> rfl

theorem disp_xor (n : Nat) (fs : List (Bytes × Field)) :
    fromArchiveF (n+1) (.mk qfXor fs) =
      match mapOpt (fromArchiveF n) (kidArchives (.mk qfXor fs)) with
      | none => none
      | some kids => some (.xor kids) := by
  rw [fromArchiveF]; qfcodes <;> rfl

theorem disp_num (ty : NumTy) (n : Nat) (fs : List (Bytes × Field)) :
    fromArchiveF (n+1) (.mk ty.qf fs) =
      match numFromArchive ty.tc ty.size ty.dflt (.mk ty.qf fs) with
      | none => none
      | some p => some (.num ty p.fn p.idx p.op p.mop p.val p.mask p.dflt) := by
  cases ty <;> (rw [fromArchiveF]; qfcodes) <;> rfl

/-! ## the composite readers -/

theorem numFromArchive_of (tc sz w : Nat) (zero fn : Bytes) (idx op mop : Nat) (val mask : Bytes) (dflt : Option Bytes)
    (hany : tc ≠ tcAny) (hidx : idx < U32) (hop : op < 256) (hmop : mop < 256) (hv : val.length = sz) (hm : mask.length = sz) :
    numFromArchive tc sz zero (.mk w (numFields tc fn idx op mop val mask dflt)) =
      some { fn := fn, idx := idx, op := op, mop := mop, val := val, mask := mask, dflt := dflt } := by
  generalize hA : Msg.mk w (numFields tc fn idx op mop val mask dflt) = A
  have e1 : fnIdx A = some (fn, idx) := by rw [← hA]; exact fnIdx_of _ _ _ _ hidx (by lk) (by lk)
  have e2 : findData kVal tc 0 A = some val := by
    rw [← hA, findData_fixed_of kVal tc 0 w (rep12 dflt) (val :: dflt.toList) _ hany (by lk)]; rfl
  have e3 : getInt8 kOp A = op := by rw [← hA]; exact getInt8_of _ _ _ _ hop (by lk)
  have e4 : getInt8 kMop A = mop := by rw [← hA]; exact getInt8_of _ _ _ _ hmop (by lk)
  have e5 : findData kMsk tc 0 A = some mask := by
    rw [← hA, findData_fixed_of kMsk tc 0 w .inl [mask] _ hany (by lk)]; rfl
  have e6 : findData kVal tc 1 A = dflt := by
    rw [← hA, findData_fixed_of kVal tc 1 w (rep12 dflt) (val :: dflt.toList) _ hany (by lk)]
    cases dflt <;> rfl
  unfold numFromArchive
  simp [e1, e2, e3, e4, e5, e6, hv, hm]

theorem strFromArchive_of (w : Nat) (fn : Bytes) (idx op : Nat) (val : Bytes) (dflt : Option Bytes)
    (hidx : idx < U32) (hop : op < 256) :
    strFromArchive (.mk w (strFields fn idx op val dflt)) = some (fn, idx, op, val, dflt) := by
  generalize hA : Msg.mk w (strFields fn idx op val dflt) = A
  have e1 : fnIdx A = some (fn, idx) := by rw [← hA]; exact fnIdx_of _ _ _ _ hidx (by lk) (by lk)
  have e2 : findString kVal 0 A = some val := by
    rw [← hA, findString_of kVal 0 w (rep12 dflt) (val :: dflt.toList) _ (by lk)]; rfl
  have e3 : findInt8 kOp A = some op := by rw [← hA]; exact findInt8_of _ _ _ _ hop (by lk)
  have e4 : findString kVal 1 A = dflt := by
    rw [← hA, findString_of kVal 1 w (rep12 dflt) (val :: dflt.toList) _ (by lk)]
    cases dflt <;> rfl
  unfold strFromArchive
  simp [e1, e2, e3, e4]

theorem tc_ne_any (ty : NumTy) : ty.tc ≠ tcAny := by cases ty <;> decide

/-! ## the round trip -/

mutual
theorem roundtripF : ∀ (f : Filter) (fuel : Nat), wf f → fdepth f ≤ fuel → fromArchiveF fuel (toArchive f) = some (norm f)
  | .what lo hi, 0, _, hd => by simp [fdepth] at hd
  | .what lo hi, n+1, h, _ => by
    simp only [wf] at h
    simp only [toArchive, norm]
    rw [disp_what]
    generalize hA : Msg.mk qfWhatCode (cInt32 kMin lo 0 ++ cInt32 kMax hi lo) = A
    have e1 : getInt32 kMin 0 A = lo := by rw [← hA]; exact getInt32_of _ _ _ _ _ h.1 (by lk)
    have e2 : getInt32 kMax lo A = hi := by rw [← hA]; exact getInt32_of _ _ _ _ _ h.2 (by lk)
    rw [e1, e2]
  | .valueExists fn idx tc, 0, _, hd => by simp [fdepth] at hd
  | .valueExists fn idx tc, n+1, h, _ => by
    simp only [wf] at h
    simp only [toArchive, norm]
    rw [disp_exists]
    generalize hA : Msg.mk qfValueExists (valueHdr fn idx ++ cInt32 kType tc tcAny) = A
    have e1 : fnIdx A = some (fn, idx) := by rw [← hA]; exact fnIdx_of _ _ _ _ h.1 (by lk) (by lk)
    have e2 : getInt32 kType tcAny A = tc := by rw [← hA]; exact getInt32_of _ _ _ _ _ h.2 (by lk)
    simp [e1, e2]
  | .num ty fn idx op mop val mask d, 0, _, hd => by simp [fdepth] at hd
  | .num ty fn idx op mop val mask d, n+1, h, _ => by
    simp only [wf] at h
    simp only [toArchive, norm]
    rw [disp_num, numFromArchive_of _ _ _ _ _ _ _ _ _ _ _ (tc_ne_any ty) h.1 h.2.1 h.2.2.1 h.2.2.2.1 h.2.2.2.2]
  | .childCount fn idx op mop val mask d, 0, _, hd => by simp [fdepth] at hd
  | .childCount fn idx op mop val mask d, n+1, h, _ => by
    simp only [wf] at h
    simp only [toArchive, norm]
    rw [disp_cc, numFromArchive_of _ _ _ _ _ _ _ _ _ _ _ (by decide) h.1 h.2.1 h.2.2.1 h.2.2.2.1 h.2.2.2.2]
  | .str fn idx op val d, 0, _, hd => by simp [fdepth] at hd
  | .str fn idx op val d, n+1, h, _ => by
    simp only [wf] at h
    simp only [toArchive, norm]
    rw [disp_str, strFromArchive_of _ _ _ _ _ _ h.1 h.2]
  | .nodeName fn idx op val d, 0, _, hd => by simp [fdepth] at hd
  | .nodeName fn idx op val d, n+1, h, _ => by
    simp only [wf] at h
    simp only [toArchive, norm]
    rw [disp_nn, strFromArchive_of _ _ _ _ _ _ h.1 h.2]
  | .raw fn idx op tc val d, 0, _, hd => by simp [fdepth] at hd
  | .raw fn idx op tc val d, n+1, h, _ => by
    simp only [wf] at h
    simp only [toArchive, norm]
    rw [disp_raw]
    generalize hA : Msg.mk qfRawData (valueHdr fn idx ++ aInt8 kOp op ++ cInt32 kType tc tcAny ++ rawOpt kVal val ++ rawAll kDef d) = A
    have e1 : fnIdx A = some (fn, idx) := by rw [← hA]; exact fnIdx_of _ _ _ _ h.1 (by lk) (by lk)
    have e2 : findInt8 kOp A = some op := by rw [← hA]; exact findInt8_of _ _ _ _ h.2.1 (by lk)
    have e3 : getInt32 kType tcAny A = tc := by rw [← hA]; exact getInt32_of _ _ _ _ _ h.2.2 (by lk)
    have e4 : findData kVal tcRaw 0 A = normVal val := by rw [← hA]; exact findData_raw_of _ _ _ _ (by lk)
    have e5 : findRawBuf kDef A = d := by rw [← hA]; exact findRawBuf_of kDef _ d _ (by lk)
    simp [e1, e2, e3, e4, e5]
  | .msgAny fn idx d, 0, _, hd => by simp [fdepth] at hd
  | .msgAny fn idx d, n+1, h, _ => by
    simp only [wf] at h
    simp only [toArchive, norm]
    rw [disp_msg]
    generalize hA : Msg.mk qfMessage (valueHdr fn idx ++ optMsg kDefmsg d) = A
    have e1 : fnIdx A = some (fn, idx) := by rw [← hA]; exact fnIdx_of _ _ _ _ h (by lk) (by lk)
    have e2 : findMessage kKid 0 A = none := by rw [← hA]; exact findMessage_of kKid _ none _ (by lk)
    have e3 : findMessage kDefmsg 0 A = d := by rw [← hA]; exact findMessage_of kDefmsg _ d _ (by lk)
    simp [e1, e2, e3]
  | .msgKid fn idx kid d, 0, _, hd => by simp [fdepth] at hd
  | .msgKid fn idx kid d, n+1, h, hd => by
    simp only [wf] at h
    simp only [fdepth] at hd
    simp only [toArchive, norm]
    rw [disp_msg]
    generalize hA : Msg.mk qfMessage (valueHdr fn idx ++ ((kKid, Field.msgs .inl [toArchive kid]) :: optMsg kDefmsg d)) = A
    have e1 : fnIdx A = some (fn, idx) := by rw [← hA]; exact fnIdx_of _ _ _ _ h.1 (by lk) (by lk)
    have e2 : findMessage kKid 0 A = some (toArchive kid) := by rw [← hA]; exact findMessage_of kKid _ (some (toArchive kid)) _ (by lk)
    have e3 : findMessage kDefmsg 0 A = d := by rw [← hA]; exact findMessage_of kDefmsg _ d _ (by lk)
    have ih := roundtripF kid n h.2 (by omega)
    simp [e1, e2, e3, ih]
  | .minMatch m kids, 0, _, hd => by simp [fdepth] at hd
  | .minMatch m kids, n+1, h, hd => by
    simp only [wf] at h
    simp only [fdepth] at hd
    simp only [toArchive, norm]
    rw [disp_min, kidArchives_of _ _ _ (by lk), roundtripKids kids n h.2 (by omega)]
    generalize hA : Msg.mk qfMinMatch (kidsField kids ++ cInt32 kMin m muscleNoLimit) = A
    have e1 : getInt32 kMin muscleNoLimit A = m := by rw [← hA]; exact getInt32_of _ _ _ _ _ h.1 (by lk)
    simp [e1]
  | .maxMatch m kids, 0, _, hd => by simp [fdepth] at hd
  | .maxMatch m kids, n+1, h, hd => by
    simp only [wf] at h
    simp only [fdepth] at hd
    simp only [toArchive, norm]
    rw [disp_max, kidArchives_of _ _ _ (by lk), roundtripKids kids n h.2 (by omega)]
    generalize hA : Msg.mk qfMaxMatch (kidsField kids ++ cInt32 kMax m 0) = A
    have e1 : getInt32 kMax 0 A = m := by rw [← hA]; exact getInt32_of _ _ _ _ _ h.1 (by lk)
    simp [e1]
  | .xor kids, 0, _, hd => by simp [fdepth] at hd
  | .xor kids, n+1, h, hd => by
    simp only [wf] at h
    simp only [fdepth] at hd
    simp only [toArchive, norm]
    have hk := kidArchives_of qfXor kids [] (by lk)
    simp only [List.append_nil] at hk
    rw [disp_xor, hk, roundtripKids kids n h (by omega)]
theorem roundtripKids : ∀ (ks : List Filter) (fuel : Nat), wfKids ks → fdepthKids ks ≤ fuel →
    mapOpt (fromArchiveF fuel) (toArchives ks) = some (normKids ks)
  | [], _, _, _ => by simp [toArchives, mapOpt, normKids]
  | k :: ks, fuel, h, hd => by
    simp only [wfKids] at h
    simp only [fdepthKids] at hd
    simp only [toArchives, mapOpt, normKids]
    rw [roundtripF k fuel h.1 (by omega), roundtripKids ks fuel h.2 (by omega)]
end

/-! ## the fuel `fromArchive` supplies (nesting depth of the archive + 1) is enough -/

theorem depthFields_append : ∀ (xs ys : List (Bytes × Field)),
    depthFields (xs ++ ys) = max (depthFields xs) (depthFields ys) := by
  intro xs
  induction xs with
  | nil => intro ys; simp [depthFields]
  | cons x xs ih =>
    intro ys
    obtain ⟨n, f⟩ := x
    cases f <;> simp only [List.cons_append, depthFields, ih] <;> omega

theorem depthFields_kids_ge (ks : List Filter) (rest : List (Bytes × Field)) :
    depthMsgs (toArchives ks) ≤ depthFields (kidsField ks ++ rest) := by
  rw [depthFields_append]
  cases ks with
  | nil => simp [toArchives, depthMsgs]
  | cons k ks => simp only [kidsField, depthFields, toArchives]; omega

mutual
theorem fdepth_le : ∀ (f : Filter), fdepth f ≤ depthMsg (toArchive f)
  | .what _ _ => by simp only [fdepth, toArchive, depthMsg]; omega
  | .valueExists _ _ _ => by simp only [fdepth, toArchive, depthMsg]; omega
  | .num _ _ _ _ _ _ _ _ => by simp only [fdepth, toArchive, depthMsg]; omega
  | .childCount _ _ _ _ _ _ _ => by simp only [fdepth, toArchive, depthMsg]; omega
  | .str _ _ _ _ _ => by simp only [fdepth, toArchive, depthMsg]; omega
  | .nodeName _ _ _ _ _ => by simp only [fdepth, toArchive, depthMsg]; omega
  | .raw _ _ _ _ _ _ => by simp only [fdepth, toArchive, depthMsg]; omega
  | .msgAny _ _ _ => by simp only [fdepth, toArchive, depthMsg]; omega
  | .msgKid fn idx kid d => by
    have ih := fdepth_le kid
    simp only [fdepth, toArchive, depthMsg, depthFields_append, depthFields, depthMsgs]
    omega
  | .minMatch n kids => by
    have ih := fdepthKids_le kids
    have := depthFields_kids_ge kids (cInt32 kMin n muscleNoLimit)
    simp only [fdepth, toArchive, depthMsg]; omega
  | .maxMatch n kids => by
    have ih := fdepthKids_le kids
    have := depthFields_kids_ge kids (cInt32 kMax n 0)
    simp only [fdepth, toArchive, depthMsg]; omega
  | .xor kids => by
    have ih := fdepthKids_le kids
    have := depthFields_kids_ge kids []
    simp only [List.append_nil] at this
    simp only [fdepth, toArchive, depthMsg]; omega
theorem fdepthKids_le : ∀ (ks : List Filter), fdepthKids ks ≤ depthMsgs (toArchives ks)
  | [] => by simp [fdepthKids]
  | k :: ks => by
    have h1 := fdepth_le k
    have h2 := fdepthKids_le ks
    simp only [fdepthKids, toArchives, depthMsgs]; omega
end

/-- the factory, run on the archive of a well-formed filter, returns its normal form -/
theorem fromArchive_toArchive (f : Filter) (h : wf f) : fromArchive (toArchive f) = some (norm f) := by
  unfold fromArchive
  exact roundtripF f _ h (by have := fdepth_le f; omega)

/-! ## Point / Rect comparison as a function of the float components -/

/-- the `n` float components (bit patterns) of the in-memory bytes of a `Tuple<n,float>` -/
def comps : Nat → Bytes → List Nat
  | 0, _ => []
  | n+1, a => leVal (a.take 4) :: comps n (a.drop 4)

/-- all components IEEE-equal -/
def allEq : List (Nat × Nat) → Bool
  | [] => true
  | (x, y) :: r => fEq 4 x y && allEq r

/-- lexicographic `<` as `Tuple::operator<` defines it: the first component pair that is ordered by `<` or by `>`
    decides; pairs that are equal *or unordered (NaN)* are skipped; nothing left ⇒ false -/
def lexLt : List (Nat × Nat) → Bool
  | [] => false
  | (x, y) :: r => if fLt 4 x y then true else if fLt 4 y x then false else lexLt r

theorem tupEq_comps : ∀ (n : Nat) (a b : Bytes), tupEq n a b = allEq ((comps n a).zip (comps n b)) := by
  intro n
  induction n with
  | zero => intro a b; simp [tupEq, comps, allEq]
  | succ n ih =>
    intro a b
    simp only [tupEq, comps, List.zip_cons_cons, allEq, ih]
    cases fEq 4 (leVal (a.take 4)) (leVal (b.take 4)) <;> simp

theorem tupLt_comps : ∀ (n : Nat) (a b : Bytes), tupLt n a b = lexLt ((comps n a).zip (comps n b)) := by
  intro n
  induction n with
  | zero => intro a b; simp [tupLt, comps, lexLt]
  | succ n ih =>
    intro a b
    simp only [tupLt, comps, List.zip_cons_cons, lexLt, ih]

theorem numCmp_tuple (t : NumTy) (ht : t = .pt ∨ t = .rc) (a b : Bytes) :
    let n := t.size / 4; let xy := (comps n a).zip (comps n b); let yx := (comps n b).zip (comps n a)
    numCmp t nopEq a b = allEq xy ∧ numCmp t nopLt a b = lexLt xy ∧ numCmp t nopGt a b = lexLt yx ∧
    numCmp t nopLe a b = !lexLt yx ∧ numCmp t nopGe a b = !lexLt xy ∧ numCmp t nopNe a b = !allEq xy := by
  intro n xy yx
  rcases ht with h | h <;> subst h <;>
    simp [numCmp, nopEq, nopLt, nopGt, nopLe, nopGe, nopNe, valNe, valLe, valLt, valEq, tupEq_comps, tupLt_comps,
      xy, yx, n, NumTy.size]

end Muscle.Filter
