import MuscleModel.Filter.Lexer
import MuscleModel.Filter.Archive

/-!
# The expression parser (`CreateQueryFilterFromExpressionAux`, `DefaultSubexpressionFactory::CreateSubexpression`,
`LexerToken::GetValueStringType / ParseFieldNameAux`, `GetValueAs<T>`)

`parseExpr s` mirrors `CreateQueryFilterFromExpression(s)`; `none` = a NULL reference (error).
Numbers: `atol` / `Atoll` / `Atoull` / `ParseBool` are modelled exactly; `atof` only on plain decimal
literals whose value is exactly representable (`decToFloat`), otherwise the *value* is unknown
(`PVal.unknown`: the driver prints no prediction).
-/

namespace Muscle.Filter
open Muscle Muscle.Wire Muscle.Gen

/-! ## number parsing -/

def isDigitB (c : UInt8) : Bool := 48 ≤ c && c ≤ 57
def decVal (ds : Bytes) : Nat := ds.foldl (fun a d => a * 10 + (d.toNat - 48)) 0
def two64 : Nat := 18446744073709551616
def two63 : Nat := 9223372036854775808

/-- `Atoull`: the leading decimal digits, arithmetic modulo 2^64 -/
def atoull (s : Bytes) : Nat := decVal (s.takeWhile isDigitB) % two64
/-- `Atoll`: every leading `-` toggles the sign; result as a 64-bit pattern -/
def atoll (s : Bytes) : Nat :=
  let v := atoull (s.dropWhile (· == 45))
  if (s.takeWhile (· == 45)).length % 2 = 1 then (two64 - v) % two64 else v
/-- `atol` (64-bit `long`, glibc): blanks, one optional sign, digits; saturating; result as a 64-bit pattern -/
def atol (s : Bytes) : Nat :=
  let s := s.dropWhile isSpaceB
  let neg := s.head? == some 45
  let s := if s.head? == some 45 || s.head? == some 43 then s.drop 1 else s
  let v := decVal (s.takeWhile isDigitB)
  if neg then (if v ≥ two63 then two63 else (two64 - v) % two64) else (if v ≥ two63 then two63 - 1 else v)

/-- `String::Trimmed()` -/
def trimB (s : Bytes) : Bytes := ((s.dropWhile isSpaceB).reverse.dropWhile isSpaceB).reverse
/-- `ParseBool(s)` with its default `true` -/
def parseBool (s : Bytes) : Bool :=
  let w := lower (trimB s)
  if parseBoolOnWords.contains w then true else if parseBoolOffWords.contains w then false else true

def isPow2 : Nat → Nat → Bool
  | 0, _ => false
  | fuel+1, n => if n = 1 then true else if n % 2 = 0 && n ≠ 0 then isPow2 fuel (n / 2) else false

/-- IEEE bits (`k` = 4 or 8 bytes) of `±p/q` when that is exactly representable as a normal number (or zero) -/
def ratToFloat (k : Nat) (neg : Bool) (p q : Nat) : Option Nat :=
  let mbits := if k = 4 then 23 else 52
  let bias := if k = 4 then 127 else 1023
  let sign := if neg then 256 ^ k / 2 else 0
  if p = 0 then some sign else
  let g := Nat.gcd p q
  let p := p / g; let q := q / g
  if !isPow2 200 q then none else
  let j := Nat.log2 q
  let l := Nat.log2 p          -- bit length - 1
  if l > mbits || l + bias < j + 1 || l + bias - j ≥ 2 * bias + 1 then none else
  some (sign + (l + bias - j) * 2 ^ mbits + (p * 2 ^ (mbits - l) - 2 ^ mbits))

/-- `atof` / `(float) atof` on `[+-]digits[.digits]`; `none` = not in the modelled subset (exponent, hex, inf/nan,
    or a value that needs rounding) -/
def decToFloat (k : Nat) (s : Bytes) : Option Nat :=
  let s := s.dropWhile isSpaceB
  let neg := s.head? == some 45
  let s := if s.head? == some 45 || s.head? == some 43 then s.drop 1 else s
  let ip := s.takeWhile isDigitB
  let r := s.dropWhile isDigitB
  let fp := if r.head? == some 46 then (r.drop 1).takeWhile isDigitB else []
  let r := if r.head? == some 46 then (r.drop 1).dropWhile isDigitB else r
  let c := (r.head?.map lowerByte).getD 0
  if ip.isEmpty && fp.isEmpty then
    (if c = 105 || c = 110 then none else some 0)          -- "inf"/"nan" are numbers for strtod; anything else: no conversion, +0.0
  else if c = 101 || c = 120 || c = 112 then none          -- exponent / hex float
  else ratToFloat k neg (decVal (ip ++ fp)) (10 ^ fp.length)

/-- `StringTokenizer(v, ",")`: a comma that appears once in the separator list is a *soft* separator — empty pieces vanish -/
def splitComma (s : Bytes) : List Bytes :=
  (s.foldr (fun (c : UInt8) (acc : List Bytes) => if c = 44 then [] :: acc else match acc with | h :: t => (c :: h) :: t | [] => [[c]]) [[]]).filter (!·.isEmpty)

/-- a parsed operand: its in-memory bytes, or unknown (see the header) -/
inductive PVal where
  | bytes (b : Bytes)
  | unknown

def floatsVal (n : Nat) (s : Bytes) : PVal :=
  let parts := (splitComma s).take n
  let vals := (parts.map (decToFloat 4)) ++ List.replicate (n - parts.length) (some 0)
  if vals.all Option.isSome then .bytes (vals.foldr (fun v acc => leN 4 (v.getD 0) ++ acc) []) else .unknown

/-- `GetValueAs<T>(valueString)` -/
def valueAs (ty : NumTy) (s : Bytes) : PVal :=
  match ty with
  | .bool => .bytes [if parseBool s then 1 else 0]
  | .i64 => .bytes (leN 8 (atoll s))
  | .i32 => .bytes (leN 4 (atol s))
  | .i16 => .bytes (leN 2 (atol s))
  | .i8 => .bytes (leN 1 (atol s))
  | .f64 => match decToFloat 8 s with | some v => .bytes (leN 8 v) | none => .unknown
  | .f32 => match decToFloat 4 s with | some v => .bytes (leN 4 v) | none => .unknown
  | .pt => floatsVal 2 s
  | .rc => floatsVal 4 s

/-! ## tokens → leaf filters -/

/-- `LexerToken::GetExplicitCastTypeCode` (0 stands for "not a cast") -/
def castType : Tok → Option Nat
  | .fixed id =>
    if id = ltInt64 then some tcInt64 else if id = ltInt32 then some tcInt32 else if id = ltInt16 then some tcInt16
    else if id = ltInt8 then some tcInt8 else if id = ltBool then some tcBool else if id = ltFloat then some tcFloat
    else if id = ltDouble then some tcDouble else if id = ltString then some tcString else if id = ltPoint then some tcPoint
    else if id = ltRect then some tcRect else none
  | .user _ _ => none

def lastIndexOf (c : UInt8) (s : Bytes) : Option Nat :=
  match s.reverse.idxOf? c with
  | some i => some (s.length - 1 - i)
  | none => none

/-- `ParseFieldNameAux` without the default part: (field name, value index), or an error -/
def fieldIdx (quoted : Bool) (v : Bytes) : Option (Bytes × Nat) :=
  if !quoted && v.isEmpty then none else
  match (if quoted then none else lastIndexOf 58 v) with
  | some ci =>
    if ci > 0 then
      let idx := atol (v.drop (ci + 1))
      if idx ≥ two63 then none else some (v.take ci, idx % 4294967296)
    else some (v, 0)
  | none => some (v, 0)

/-- `LexerToken::ParseFieldName(name, idx, &optDefault)`: (field name, value index, default token text) -/
def parseFieldName (t : Tok) (wantDefault : Bool) : Option (Bytes × Nat × Option Bytes) :=
  match t with
  | .fixed _ => none
  | .user v quoted =>
    if !quoted && v.isEmpty then none else
    match (if !quoted && wantDefault then lastIndexOf 124 v else none) with
    | some bi =>
      match fieldIdx quoted (v.take bi) with
      | some (nm, idx) => some (nm, idx, some (v.drop (bi + 1)))
      | none => none
    | none =>
      match fieldIdx quoted v with
      | some (nm, idx) => some (nm, idx, none)
      | none => none

/-- `LexerToken::GetValueStringType(explicitCastType)`; `none` = B_ANY_TYPE (undetermined) -/
def valueStringType (t : Tok) (cast : Option Nat) : Option Nat :=
  match t with
  | .fixed _ => none
  | .user v quoted =>
    if quoted then (if cast.isNone then some tcString else none)
    else match cast with
      | some c => some c
      | none =>
        if lower v == [116, 114, 117, 101] || lower v == [102, 97, 108, 115, 101] then some tcBool else
        match v with
        | [] => none
        | c :: _ =>
          if isDigitB c || c = 45 || c = 46 || c = 43 then
            match v.count 44 with
            | 0 => if v.getLast? == some 102 then some tcFloat else if v.contains 46 then some tcDouble else some tcInt32
            | 1 => some tcPoint
            | 3 => some tcRect
            | _ => none
          else some tcString

def numTyOfTc (tc : Nat) : Option NumTy :=
  if tc = tcBool then some .bool else if tc = tcDouble then some .f64 else if tc = tcFloat then some .f32
  else if tc = tcInt64 then some .i64 else if tc = tcInt32 then some .i32 else if tc = tcInt16 then some .i16
  else if tc = tcInt8 then some .i8 else if tc = tcPoint then some .pt else if tc = tcRect then some .rc else none

/-- `GetNumericQueryFilterOp` -/
def numOpOfTok : Tok → Option Nat
  | .fixed id =>
    if id = ltEq then some nopEq else if id = ltLt then some nopLt else if id = ltGt then some nopGt
    else if id = ltLeq then some nopLe else if id = ltGeq then some nopGe else if id = ltNeq then some nopNe else none
  | _ => none

/-- `GetStringQueryFilterOp(isCaseSensitive = true)`: infix token → `StringQueryFilter::OP_*` -/
def strOpTable : List (Nat × Nat) :=
  [(ltEq, sopEq), (ltLt, sopLt), (ltGt, sopGt), (ltLeq, sopLe), (ltGeq, sopGe), (ltNeq, sopNe),
   (ltStartswith, sopStartsWith), (ltEndswith, sopEndsWith), (ltContains, sopContains), (ltIsstartof, sopStartOf),
   (ltIsendof, sopEndOf), (ltIssubstringof, sopSubstringOf), (ltMatches, sopWild), (ltMatchesregex, sopRegex)]
def strOpOfTok : Tok → Option Nat
  | .fixed id => strOpTable.lookup id
  | _ => none

/-- result of building a leaf: error, a filter, or a filter with an operand outside the modelled `atof` subset -/
inductive PRes where
  | err
  | ok (f : Filter)
  | unk

def Tok.text : Tok → Bytes
  | .user v _ => v
  | .fixed _ => []

/-- `NorQueryFilter(qf)` -/
def negF (f : Filter) : Filter := .maxMatch 0 [f]
def maybeNegate (neg : Bool) (f : Filter) : Filter := if neg then negF f else f

/-- `DefaultSubexpressionFactory::CreateSubexpression` for the three-token form.  `fieldTok` is the token the parser
    hands over: the `what` token itself, or a user-string token holding the parsed field NAME (without the `:index`
    and `|default` suffixes). -/
def createSub (fieldTok : Tok) (idx : Nat) (opTok valTok : Tok) (valueType : Nat) (dflt : Option Bytes) : PRes :=
  if opTok = .fixed ltExists then .ok (.valueExists fieldTok.text idx valueType) else
  match fieldTok with
  | .fixed id =>
    if id ≠ ltWhat then .err else
    if valueType ≠ tcInt32 then .err else
    let v := atoull valTok.text % 4294967296
    if opTok = .fixed ltEq then .ok (.what v v)
    else if opTok = .fixed ltNeq then .ok (negF (.what v v))
    else if opTok = .fixed ltLt then (if v = 0 then .ok (.what 1 0) else .ok (.what 0 (v - 1)))
    else if opTok = .fixed ltGt then (if v = muscleNoLimit then .ok (.what 1 0) else .ok (.what (v + 1) muscleNoLimit))
    else if opTok = .fixed ltLeq then .ok (.what 0 v)
    else if opTok = .fixed ltGeq then .ok (.what v muscleNoLimit)
    else .ok (.what 0 muscleNoLimit)
  | .user fn _ =>
    if valueType = tcString then
      match strOpOfTok opTok with
      | none => .err
      | some op => .ok (.str fn idx op valTok.text dflt)
    else
      match numTyOfTc valueType with
      | none => .err
      | some ty =>
        match numOpOfTok opTok with
        | none => .err
        | some op =>
          match valueAs ty valTok.text, (match dflt with | some d => some (valueAs ty d) | none => none) with
          | .bytes v, none => .ok (.num ty fn idx op mopNone v ty.dflt none)
          | .bytes v, some (.bytes d) => .ok (.num ty fn idx op mopNone v ty.dflt (some d))
          | _, _ => .unk

/-- the `switch(localToks.GetNumItems())` after the explicit cast (if any) has been noted and removed -/
def leafCore (cast : Option Nat) (toks : List Tok) : PRes :=
  if toks.length ≥ 4 then .err else
  match toks with
  | [first, nameTok] =>
    if first ≠ .fixed ltExists then .err else
    match parseFieldName nameTok false with
    | none => .err
    | some (nm, idx, _) => .ok (.valueExists nm idx (cast.getD tcAny))
  | [fieldTok, opTok, valTok] =>
    match (if fieldTok = .fixed ltWhat then some ([], 0, none) else parseFieldName fieldTok true) with
    | none => .err
    | some (nm, idx, dflt) =>
      match valueStringType valTok cast with
      | none => .err
      | some vt =>
        -- `(fieldNameTok.GetToken() == LTOKEN_WHAT) ? fieldNameTok : LexerToken(fieldName, fieldNameTok.WasQuoted())`
        createSub (if fieldTok = .fixed ltWhat then fieldTok else .user nm false) idx opTok valTok vt dflt
  | _ => .err

/-- the explicit cast of a token list: position 1 after `exists`, else position 2 -/
def castOf (toks : List Tok) : Option Nat :=
  match toks[if toks.head? = some (.fixed ltExists) then 1 else 2]? with
  | some t => castType t
  | none => none

/-- the tail of `CreateQueryFilterFromExpressionAux`: two to four plain tokens → a leaf filter -/
def leafOf (toks : List Tok) : PRes :=
  if toks.length < 2 then .err else
  leafCore (castOf toks)
    (if (castOf toks).isSome then toks.eraseIdx (if toks.head? = some (.fixed ltExists) then 1 else 2) else toks)

/-! ## the recursive-descent loop -/

structure PState where
  toks : List Tok := []
  conj : Option (Nat × List Filter) := none
  sub : Option Filter := none
  neg : Bool := false

def mkConj (id : Nat) (kids : List Filter) : Filter :=
  if id = ltAnd then Filter.and kids else if id = ltOr then Filter.or kids else .xor kids

/-- what `CreateQueryFilterFromExpressionAux` returns once its token loop has ended -/
def finish (st : PState) : PRes :=
  match st.conj with
  | some (id, kids) =>
    match st.sub with
    | some f => .ok (mkConj id (kids ++ [maybeNegate st.neg f]))
    | none => .err
  | none =>
    match st.sub with
    | some f => .ok (maybeNegate st.neg f)
    | none =>
      match leafOf st.toks with
      | .ok f => .ok (maybeNegate st.neg f)
      | r => r

/-- `CreateQueryFilterFromExpressionAux(lexer, sef)`: result and the input left in the (shared) lexer.
    One unit of fuel per loop iteration / recursive call. -/
def parseLoopWith {α : Type} (nt : α → Option (Tok × α)) : Nat → PState → α → PRes × α
  | 0, _, inp => (.err, inp)
  | fuel+1, st, inp =>
    match nt inp with
    | none => (finish st, inp)
    | some (tok, rest) =>
      let plain : Unit → PRes × α := fun _ =>
        if st.conj.isSome || st.sub.isSome then (.err, rest)
        else if st.toks.length + 1 > 4 then (.err, rest)
        else parseLoopWith nt fuel { st with toks := st.toks ++ [tok] } rest
      match tok with
      | .user _ _ => plain ()
      | .fixed id =>
        if id = ltNot then
          if st.sub.isSome || !st.toks.isEmpty then (.err, rest) else parseLoopWith nt fuel { st with neg := !st.neg } rest
        else if id = ltLparen then
          if st.sub.isSome || !st.toks.isEmpty then (.err, rest) else
          match parseLoopWith nt fuel {} rest with
          | (.ok f, r2) => parseLoopWith nt fuel { st with sub := some f } r2
          | (r, r2) => (r, r2)
        else if id = ltRparen then
          -- "')' must not be the first token in a subexpression"
          if st.sub.isNone && st.conj.isNone && st.toks.isEmpty then (.err, rest) else (finish st, rest)
        else if id = ltAnd || id = ltOr || id = ltXor then
          match st.sub with
          | none => (.err, rest)
          | some f =>
            match st.conj with
            | some (cid, kids) =>
              if cid ≠ id then (.err, rest)
              else parseLoopWith nt fuel { st with conj := some (cid, kids ++ [maybeNegate st.neg f]), neg := false, sub := none } rest
            | none => parseLoopWith nt fuel { st with conj := some (id, [maybeNegate st.neg f]), neg := false, sub := none } rest
        else plain ()

/-- the parser over the real lexer (the token source is a parameter of `parseLoopWith` so that theorems about the
    grammar can be stated over token lists as well) -/
def parseLoop : Nat → PState → Bytes → PRes × Bytes := parseLoopWith nextToken

/-- `CreateQueryFilterFromExpression(expression)`.  Fuel: every iteration of a token loop either consumes at least
    one byte of the expression or appends a plain token to a list that may hold at most four, and every recursive
    call is preceded by the consumption of a `(`: `6·(length+1)` iterations are never exceeded. -/
def parseExpr (s : Bytes) : PRes := (parseLoop (6 * (s.length + 1)) {} s).1

end Muscle.Filter
