import MuscleModel.Filter.Proofs

/-!
# Lemmas for C14, part 2: numeric operators per type; well-formedness, normal form, archive round trip,
the factory on arbitrary Messages
-/

set_option linter.unusedSimpArgs false
set_option linter.unusedVariables false

namespace Muscle.Filter
open Muscle Muscle.Wire Muscle.Gen

/-! ## numeric operators -/

theorem numCmp_int (t : NumTy) (ht : t = .i8 ∨ t = .i16 ∨ t = .i32 ∨ t = .i64) (a b : Bytes)
    (ha : a.length = t.size) (hb : b.length = t.size) :
    let x := sval t.size (leVal a); let y := sval t.size (leVal b)
    numCmp t nopEq a b = decide (x = y) ∧ numCmp t nopLt a b = decide (x < y) ∧ numCmp t nopGt a b = decide (x > y) ∧
    numCmp t nopLe a b = decide (x ≤ y) ∧ numCmp t nopGe a b = decide (x ≥ y) ∧ numCmp t nopNe a b = decide (x ≠ y) := by
  intro x y
  have hxa : leVal a < 256 ^ t.size := by have := leVal_lt a; rw [ha] at this; exact this
  have hyb : leVal b < 256 ^ t.size := by have := leVal_lt b; rw [hb] at this; exact this
  have hinj : x = y ↔ leVal a = leVal b := sval_inj t.size _ _ hxa hyb
  have heq : valEq t a b = decide (x = y) := by
    rcases ht with h | h | h | h <;> subst h <;> simp only [valEq] <;>
      (rw [Bool.eq_iff_iff]; simp only [beq_iff_eq, decide_eq_true_eq]; exact hinj.symm)
  have hlt : valLt t a b = decide (x < y) := by
    rcases ht with h | h | h | h <;> subst h <;> simp only [valLt] <;> rfl
  have hgt : valLt t b a = decide (y < x) := by
    rcases ht with h | h | h | h <;> subst h <;> simp only [valLt] <;> rfl
  have hinj' : y = x ↔ leVal b = leVal a := sval_inj t.size _ _ hyb hxa
  have heq' : valEq t b a = decide (y = x) := by
    rcases ht with h | h | h | h <;> subst h <;> simp only [valEq] <;>
      (rw [Bool.eq_iff_iff]; simp only [beq_iff_eq, decide_eq_true_eq]; exact hinj'.symm)
  have hle : valLe t a b = decide (x ≤ y) := by
    have : valLe t a b = (valLt t a b || valEq t a b) := by rcases ht with h | h | h | h <;> subst h <;> rfl
    rw [this, hlt, heq, Bool.eq_iff_iff]; simp only [Bool.or_eq_true, decide_eq_true_eq]; omega
  have hge : valLe t b a = decide (y ≤ x) := by
    have : valLe t b a = (valLt t b a || valEq t b a) := by rcases ht with h | h | h | h <;> subst h <;> rfl
    rw [this, hgt, heq', Bool.eq_iff_iff]; simp only [Bool.or_eq_true, decide_eq_true_eq]; omega
  refine ⟨?_, ?_, ?_, ?_, ?_, ?_⟩
  · simp [numCmp, nopEq, heq]
  · simp [numCmp, nopEq, nopLt, hlt]
  · simp [numCmp, nopEq, nopLt, nopGt, hgt]
  · simp [numCmp, nopEq, nopLt, nopGt, nopLe, hle]
  · simp [numCmp, nopEq, nopLt, nopGt, nopLe, nopGe, hge]
  · simp [numCmp, nopEq, nopLt, nopGt, nopLe, nopGe, nopNe, valNe, heq]

theorem numCmp_bool (a b : Bytes) :
    let x := leVal a; let y := leVal b
    numCmp .bool nopEq a b = decide (x = y) ∧ numCmp .bool nopLt a b = decide (x < y) ∧ numCmp .bool nopGt a b = decide (x > y) ∧
    numCmp .bool nopLe a b = decide (x ≤ y) ∧ numCmp .bool nopGe a b = decide (x ≥ y) ∧ numCmp .bool nopNe a b = decide (x ≠ y) := by
  intro x y
  have e1 : numCmp .bool nopEq a b = (x == y) := by simp [numCmp, nopEq, valEq, x, y]
  have e2 : numCmp .bool nopLt a b = decide (x < y) := by simp [numCmp, nopEq, nopLt, valLt, x, y]
  have e3 : numCmp .bool nopGt a b = decide (y < x) := by simp [numCmp, nopEq, nopLt, nopGt, valLt, x, y]
  have e4 : numCmp .bool nopLe a b = (decide (x < y) || (x == y)) := by simp [numCmp, nopEq, nopLt, nopGt, nopLe, valLe, valLt, valEq, x, y]
  have e5 : numCmp .bool nopGe a b = (decide (y < x) || (y == x)) := by simp [numCmp, nopEq, nopLt, nopGt, nopLe, nopGe, valLe, valLt, valEq, x, y]
  have e6 : numCmp .bool nopNe a b = !(x == y) := by simp [numCmp, nopEq, nopLt, nopGt, nopLe, nopGe, nopNe, valNe, valEq, x, y]
  refine ⟨?_, ?_, ?_, ?_, ?_, ?_⟩
  · rw [e1, Bool.eq_iff_iff]; simp
  · exact e2
  · exact e3
  · rw [e4, Bool.eq_iff_iff]; simp only [Bool.or_eq_true, decide_eq_true_eq, beq_iff_eq]; omega
  · rw [e5, Bool.eq_iff_iff]; simp only [Bool.or_eq_true, decide_eq_true_eq, beq_iff_eq]; omega
  · rw [e6, Bool.eq_iff_iff]; simp

theorem numCmp_float_aux (t : NumTy) (ht : t = .f32 ∨ t = .f64) (a b : Bytes) :
    let k := t.size; let x := leVal a; let y := leVal b
    numCmp t nopEq a b = fEq k x y ∧ numCmp t nopLt a b = fLt k x y ∧ numCmp t nopGt a b = fLt k y x ∧
    numCmp t nopLe a b = (fLt k x y || fEq k x y) ∧ numCmp t nopGe a b = (fLt k y x || fEq k y x) ∧ numCmp t nopNe a b = !fEq k x y := by
  intro k x y
  rcases ht with h | h <;> subst h <;>
    simp [numCmp, nopEq, nopLt, nopGt, nopLe, nopGe, nopNe, valNe, valLe, valLt, valEq, x, y, k, NumTy.size]

theorem numCmp_float (t : NumTy) (ht : t = .f32 ∨ t = .f64) (a b : Bytes) :
    let k := t.size; let x := leVal a; let y := leVal b
    let ord := !fNaN k x && !fNaN k y
    numCmp t nopEq a b = (ord && decide (fKey k x = fKey k y)) ∧ numCmp t nopLt a b = (ord && decide (fKey k x < fKey k y)) ∧
    numCmp t nopGt a b = (ord && decide (fKey k x > fKey k y)) ∧ numCmp t nopLe a b = (ord && decide (fKey k x ≤ fKey k y)) ∧
    numCmp t nopGe a b = (ord && decide (fKey k x ≥ fKey k y)) ∧ numCmp t nopNe a b = (!ord || decide (fKey k x ≠ fKey k y)) := by
  intro k x y ord
  obtain ⟨e1, e2, e3, e4, e5, e6⟩ := numCmp_float_aux t ht a b
  rw [e1, e2, e3, e4, e5, e6]
  show fEq k x y = _ ∧ fLt k x y = _ ∧ fLt k y x = _ ∧ (fLt k x y || fEq k x y) = _ ∧ (fLt k y x || fEq k y x) = _ ∧ (!fEq k x y) = _
  simp only [fEq, fLt, ord]
  generalize fKey k x = p
  generalize fKey k y = q
  cases fNaN k x <;> cases fNaN k y <;> simp
  constructor <;> (rw [Bool.eq_iff_iff]; simp only [Bool.or_eq_true, decide_eq_true_eq]; omega)

/-! ## well-formed filters, normal form after a round trip, shape of what the factory returns -/

def U32 : Nat := 4294967296

mutual
/-- what the public API can build and the archive format can carry: 32-bit indices, counts and
    type codes, 8-bit operator codes, operands of the operand width -/
def wf : Filter → Prop
  | .what lo hi => lo < U32 ∧ hi < U32
  | .valueExists _ idx tc => idx < U32 ∧ tc < U32
  | .num ty _ idx op mop val mask _ => idx < U32 ∧ op < 256 ∧ mop < 256 ∧ val.length = ty.size ∧ mask.length = ty.size
  | .childCount _ idx op mop val mask _ => idx < U32 ∧ op < 256 ∧ mop < 256 ∧ val.length = 4 ∧ mask.length = 4
  | .str _ idx op _ _ => idx < U32 ∧ op < 256
  | .nodeName _ idx op _ _ => idx < U32 ∧ op < 256
  | .raw _ idx op tc _ _ => idx < U32 ∧ op < 256 ∧ tc < U32
  | .msgAny _ idx _ => idx < U32
  | .msgKid _ idx kid _ => idx < U32 ∧ wf kid
  | .minMatch n kids => n < U32 ∧ wfKids kids
  | .maxMatch n kids => n < U32 ∧ wfKids kids
  | .xor kids => wfKids kids
def wfKids : List Filter → Prop
  | [] => True
  | k :: ks => wf k ∧ wfKids ks
end

/-- a zero-length `_value` buffer is not archived and comes back as a NULL reference -/
def normVal (v : Option Bytes) : Option Bytes :=
  match v with
  | some x => if x = [] then none else some x
  | none => none

mutual
/-- the filter that comes back from the archive -/
def norm : Filter → Filter
  | .what lo hi => .what lo hi
  | .valueExists fn idx tc => .valueExists fn idx tc
  | .num ty fn idx op mop val mask d => .num ty fn idx op mop val mask d
  | .childCount fn idx op mop val mask d => .childCount fn idx op mop val mask d
  | .str fn idx op val d => .str fn idx op val d
  | .nodeName fn idx op val d => .nodeName fn idx op val d
  | .raw fn idx op tc val d => .raw fn idx op tc (normVal val) d
  | .msgAny fn idx d => .msgAny fn idx d
  | .msgKid fn idx kid d => .msgKid fn idx (norm kid) d
  | .minMatch n kids => .minMatch n (normKids kids)
  | .maxMatch n kids => .maxMatch n (normKids kids)
  | .xor kids => .xor (normKids kids)
def normKids : List Filter → List Filter
  | [] => []
  | k :: ks => norm k :: normKids ks
end

mutual
/-- tree depth: fuel needed by the factory -/
def fdepth : Filter → Nat
  | .msgKid _ _ kid _ => 1 + fdepth kid
  | .minMatch _ kids => 1 + fdepthKids kids
  | .maxMatch _ kids => 1 + fdepthKids kids
  | .xor kids => 1 + fdepthKids kids
  | .what _ _ => 1 | .valueExists _ _ _ => 1 | .num _ _ _ _ _ _ _ _ => 1 | .childCount _ _ _ _ _ _ _ => 1
  | .str _ _ _ _ _ => 1 | .nodeName _ _ _ _ _ => 1 | .raw _ _ _ _ _ _ => 1 | .msgAny _ _ _ => 1
def fdepthKids : List Filter → Nat
  | [] => 0
  | k :: ks => max (fdepth k) (fdepthKids ks)
end

theorem rawMatches_normVal (op : Nat) (val dflt found : Option Bytes) :
    rawMatches op (normVal val) dflt found = rawMatches op val dflt found := by
  unfold rawMatches normVal
  cases val with
  | none => rfl
  | some x =>
    by_cases hx : x = []
    · subst hx; simp
    · simp [hx]

mutual
theorem eval_norm (sm : Nat → Bytes → Bytes → Bool) : ∀ (f : Filter) (m : Msg) (nd : Option Node),
    eval sm (norm f) m nd = eval sm f m nd
  | .what _ _, _, _ => by simp only [norm]
  | .valueExists _ _ _, _, _ => by simp only [norm]
  | .num _ _ _ _ _ _ _ _, _, _ => by simp only [norm]
  | .childCount _ _ _ _ _ _ _, _, _ => by simp only [norm]
  | .str _ _ _ _ _, _, _ => by simp only [norm]
  | .nodeName _ _ _ _ _, _, _ => by simp only [norm]
  | .raw fn idx op tc val d, m, nd => by simp only [norm, eval, rawMatches_normVal]
  | .msgAny _ _ _, _, _ => by simp only [norm]
  | .msgKid fn idx kid d, m, nd => by
      simp only [norm, eval]
      cases orElse' (findMessage fn idx m) d with
      | none => rfl
      | some sub => exact eval_norm sm kid sub nd
  | .minMatch n kids, m, nd => by simp only [norm, eval, evalKids_norm sm kids m nd]
  | .maxMatch n kids, m, nd => by simp only [norm, eval, evalKids_norm sm kids m nd]
  | .xor kids, m, nd => by simp only [norm, eval, evalKids_norm sm kids m nd]
theorem evalKids_norm (sm : Nat → Bytes → Bytes → Bool) : ∀ (ks : List Filter) (m : Msg) (nd : Option Node),
    evalKids sm (normKids ks) m nd = evalKids sm ks m nd
  | [], _, _ => by simp only [normKids]
  | k :: ks, m, nd => by simp only [normKids, evalKids, eval_norm sm k m nd, evalKids_norm sm ks m nd]
end

mutual
/-- completely initialised: operands of the operand width at every numeric node, every child in place -/
def shapeOk : Filter → Prop
  | .num ty _ _ _ _ val mask _ => val.length = ty.size ∧ mask.length = ty.size
  | .childCount _ _ _ _ val mask _ => val.length = 4 ∧ mask.length = 4
  | .msgKid _ _ kid _ => shapeOk kid
  | .minMatch _ kids => shapeOkKids kids
  | .maxMatch _ kids => shapeOkKids kids
  | .xor kids => shapeOkKids kids
  | .what _ _ => True | .valueExists _ _ _ => True | .str _ _ _ _ _ => True | .nodeName _ _ _ _ _ => True
  | .raw _ _ _ _ _ _ => True | .msgAny _ _ _ => True
def shapeOkKids : List Filter → Prop
  | [] => True
  | k :: ks => shapeOk k ∧ shapeOkKids ks
end

theorem numFromArchive_len (tc sz : Nat) (zero : Bytes) (a : Msg) (p : NumParts) (hz : zero.length = sz)
    (h : numFromArchive tc sz zero a = some p) : p.val.length = sz ∧ p.mask.length = sz := by
  unfold numFromArchive at h
  split at h
  · cases h
  · split at h
    · cases h
    · split at h
      · cases h
      · rename_i hlen
        cases h
        refine ⟨by simpa using hlen, ?_⟩
        simp only
        split
        · split
          · assumption
          · exact hz
        · exact hz

theorem mapOpt_shape (g : Msg → Option Filter) (hg : ∀ a f, g a = some f → shapeOk f) :
    ∀ (xs : List Msg) (ys : List Filter), mapOpt g xs = some ys → shapeOkKids ys := by
  intro xs
  induction xs with
  | nil => intro ys h; simp [mapOpt] at h; subst h; simp [shapeOkKids]
  | cons x xs ih =>
    intro ys h
    unfold mapOpt at h
    split at h
    · cases h
    · rename_i y hy
      split at h
      · cases h
      · rename_i ys' hys
        cases h
        exact ⟨hg _ _ hy, ih _ hys⟩

theorem mapOpt_none_of_mem (g : Msg → Option Filter) : ∀ (xs : List Msg) (x : Msg), x ∈ xs → g x = none → mapOpt g xs = none := by
  intro xs
  induction xs with
  | nil => intro x h; cases h
  | cons y ys ih =>
    intro x hx hg
    unfold mapOpt
    cases hx with
    | head => simp [hg]
    | tail _ hmem =>
      cases hy : g y with
      | none => rfl
      | some v => simp [ih x hmem hg]

theorem dflt_len (ty : NumTy) : ty.dflt.length = ty.size := by cases ty <;> rfl

theorem fromArchiveF_shape : ∀ (fuel : Nat) (a : Msg) (f : Filter), fromArchiveF fuel a = some f → shapeOk f := by
  intro fuel
  induction fuel with
  | zero => intro a f h; simp [fromArchiveF] at h
  | succ fuel ih =>
    intro a f h
    unfold fromArchiveF at h
    simp only at h
    repeat' split at h
    all_goals first
      | (cases h; done)
      | (cases h; simp only [shapeOk]; done)
      | (cases h; simp only [shapeOk]; exact numFromArchive_len _ _ _ _ _ (by rfl) ‹_›)
      | (cases h; simp only [shapeOk]; exact numFromArchive_len _ _ _ _ _ (dflt_len _) ‹_›)
      | (cases h; simp only [shapeOk]; exact ih _ _ ‹_›)
      | (cases h; simp only [shapeOk]; exact mapOpt_shape _ ih _ _ ‹_›)

theorem ne_of_out (w c lo hi : Nat) (h : w < lo ∨ hi < w) (h1 : lo ≤ c) (h2 : c ≤ hi) : w ≠ c := by omega

theorem numTyOfQf_none (w : Nat) (h : w < qfWhatCode ∨ qfNodeName < w) : numTyOfQf w = none := by
  have a0 := ne_of_out w qfBool _ _ h (by decide) (by decide)
  have a1 := ne_of_out w qfDouble _ _ h (by decide) (by decide)
  have a2 := ne_of_out w qfFloat _ _ h (by decide) (by decide)
  have a3 := ne_of_out w qfInt64 _ _ h (by decide) (by decide)
  have a4 := ne_of_out w qfInt32 _ _ h (by decide) (by decide)
  have a5 := ne_of_out w qfInt16 _ _ h (by decide) (by decide)
  have a6 := ne_of_out w qfInt8 _ _ h (by decide) (by decide)
  have a7 := ne_of_out w qfPoint _ _ h (by decide) (by decide)
  have a8 := ne_of_out w qfRect _ _ h (by decide) (by decide)
  simp only [numTyOfQf, eq_false a0, eq_false a1, eq_false a2, eq_false a3, eq_false a4, eq_false a5, eq_false a6, eq_false a7, eq_false a8, ↓reduceIte]

theorem fromArchive_unknown (w : Nat) (fs : List (Bytes × Field)) (h : w < qfWhatCode ∨ qfNodeName < w) :
    fromArchive (.mk w fs) = none := by
  have h0 := ne_of_out w qfWhatCode _ _ h (by decide) (by decide)
  have h1 := ne_of_out w qfValueExists _ _ h (by decide) (by decide)
  have h2 := ne_of_out w qfChildCount _ _ h (by decide) (by decide)
  have h3 := ne_of_out w qfString _ _ h (by decide) (by decide)
  have h4 := ne_of_out w qfNodeName _ _ h (by decide) (by decide)
  have h5 := ne_of_out w qfRawData _ _ h (by decide) (by decide)
  have h6 := ne_of_out w qfMessage _ _ h (by decide) (by decide)
  have h7 := ne_of_out w qfMinMatch _ _ h (by decide) (by decide)
  have h8 := ne_of_out w qfMaxMatch _ _ h (by decide) (by decide)
  have h9 := ne_of_out w qfXor _ _ h (by decide) (by decide)
  have hn := numTyOfQf_none w h
  unfold fromArchive fromArchiveF
  simp only [Msg.what, eq_false h0, eq_false h1, eq_false h2, eq_false h3, eq_false h4, eq_false h5, eq_false h6, eq_false h7, eq_false h8, eq_false h9, hn, ↓reduceIte]

theorem fromArchiveF_bad_child (fuel : Nat) (a : Msg) (k : Msg) (hk : k ∈ kidArchives a) (hbad : fromArchiveF fuel k = none)
    (hw : a.what = qfMinMatch ∨ a.what = qfMaxMatch ∨ a.what = qfXor) : fromArchiveF (fuel + 1) a = none := by
  have hm := mapOpt_none_of_mem (fromArchiveF fuel) _ k hk hbad
  obtain ⟨w, fs⟩ := a
  simp only [Msg.what] at hw
  unfold fromArchiveF
  simp only [Msg.what]
  have d (x y : Nat) (h : x ≠ y) : (x = y) = False := eq_false h
  rcases hw with h | h | h <;> subst h
  · simp only [d qfMinMatch qfWhatCode (by decide), d qfMinMatch qfValueExists (by decide), d qfMinMatch qfChildCount (by decide),
      d qfMinMatch qfString (by decide), d qfMinMatch qfNodeName (by decide), d qfMinMatch qfRawData (by decide),
      d qfMinMatch qfMessage (by decide), ↓reduceIte, hm]
  · simp only [d qfMaxMatch qfWhatCode (by decide), d qfMaxMatch qfValueExists (by decide), d qfMaxMatch qfChildCount (by decide),
      d qfMaxMatch qfString (by decide), d qfMaxMatch qfNodeName (by decide), d qfMaxMatch qfRawData (by decide),
      d qfMaxMatch qfMessage (by decide), d qfMaxMatch qfMinMatch (by decide), ↓reduceIte, hm]
  · simp only [d qfXor qfWhatCode (by decide), d qfXor qfValueExists (by decide), d qfXor qfChildCount (by decide),
      d qfXor qfString (by decide), d qfXor qfNodeName (by decide), d qfXor qfRawData (by decide),
      d qfXor qfMessage (by decide), d qfXor qfMinMatch (by decide), d qfXor qfMaxMatch (by decide), ↓reduceIte, hm]

/-! structural equality as a Bool (for the computed examples of the property file) -/
def optEq {α} (eq : α → α → Bool) : Option α → Option α → Bool
  | none, none => true
  | some x, some y => eq x y
  | _, _ => false

mutual
def feq : Filter → Filter → Bool
  | .what a b, .what a' b' => a == a' && b == b'
  | .valueExists f i t, .valueExists f' i' t' => f == f' && i == i' && t == t'
  | .num ty f i o mo v mk d, .num ty' f' i' o' mo' v' mk' d' =>
      decide (ty = ty') && f == f' && i == i' && o == o' && mo == mo' && v == v' && mk == mk' && d == d'
  | .childCount f i o mo v mk d, .childCount f' i' o' mo' v' mk' d' =>
      f == f' && i == i' && o == o' && mo == mo' && v == v' && mk == mk' && d == d'
  | .str f i o v d, .str f' i' o' v' d' => f == f' && i == i' && o == o' && v == v' && d == d'
  | .nodeName f i o v d, .nodeName f' i' o' v' d' => f == f' && i == i' && o == o' && v == v' && d == d'
  | .raw f i o t v d, .raw f' i' o' t' v' d' => f == f' && i == i' && o == o' && t == t' && v == v' && d == d'
  | .msgAny f i d, .msgAny f' i' d' => f == f' && i == i' && optEq (fun a b => encode a == encode b) d d'
  | .msgKid f i k d, .msgKid f' i' k' d' => f == f' && i == i' && feq k k' && optEq (fun a b => encode a == encode b) d d'
  | .minMatch n ks, .minMatch n' ks' => n == n' && feqs ks ks'
  | .maxMatch n ks, .maxMatch n' ks' => n == n' && feqs ks ks'
  | .xor ks, .xor ks' => feqs ks ks'
  | _, _ => false
def feqs : List Filter → List Filter → Bool
  | [], [] => true
  | k :: ks, k' :: ks' => feq k k' && feqs ks ks'
  | _, _ => false
end

/-- `fromArchive (toArchive f)` is (structurally) `norm f`, as a computable check -/
def roundTripsTo (f : Filter) : Bool :=
  match fromArchive (toArchive f) with
  | some g => feq g (norm f)
  | none => false

end Muscle.Filter
