import MuscleModel.Filter.Tree

/-!
# `Matches()` of every filter class (`regex/QueryFilter.cpp`, `regex/QueryFilter.h`)

`eval sm f msg node` mirrors `f.Matches(msg, node)`.  `sm op pattern s` stands for
`StringMatcher(pattern or ToCaseInsensitive(pattern), isSimple).Match(s)` of the four wildcard /
regular-expression string operators (property C15); everything else is computed here.
Evaluation is a pure function of (filter, Message, node): "never modifies the Message" is
structural in the model (on the implementation it is the checksum oracle of the harness).
-/

namespace Muscle.Filter
open Muscle Muscle.Wire Muscle.Gen

/-! ## numeric comparison on bit patterns -/

/-- two's-complement value of the `8·k`-bit pattern `n` -/
def sval (k : Nat) (n : Nat) : Int :=
  if n % 256 ^ k < 256 ^ k / 2 then (n % 256 ^ k : Nat) else ((n % 256 ^ k : Nat) : Int) - (256 ^ k : Nat)

/-- IEEE-754 binary format of `8·k` bytes: magnitude = pattern without the sign bit; NaN iff the
    magnitude exceeds that of infinity (`inf`) -/
def fInf (k : Nat) : Nat := if k = 4 then 0x7f800000 else 0x7ff0000000000000
def fMag (k n : Nat) : Nat := n % (256 ^ k / 2)
def fNeg (k n : Nat) : Bool := n / (256 ^ k / 2) % 2 = 1
def fNaN (k n : Nat) : Bool := decide (fInf k < fMag k n)
/-- order-preserving integer key of a non-NaN pattern (sign-magnitude → integer; −0 and +0 coincide) -/
def fKey (k n : Nat) : Int := if fNeg k n then -(fMag k n : Int) else (fMag k n : Int)
/-- IEEE `==` and `<` of the hardware on `float` (`k = 4`) / `double` (`k = 8`) -/
def fEq (k a b : Nat) : Bool := !fNaN k a && !fNaN k b && decide (fKey k a = fKey k b)
def fLt (k a b : Nat) : Bool := !fNaN k a && !fNaN k b && decide (fKey k a < fKey k b)

/-- `Tuple<N,float>::operator==` on the in-memory bytes of `n` floats -/
def tupEq : Nat → Bytes → Bytes → Bool
  | 0, _, _ => true
  | n+1, a, b => if fEq 4 (leVal (a.take 4)) (leVal (b.take 4)) then tupEq n (a.drop 4) (b.drop 4) else false
/-- `Tuple<N,float>::operator<`: first component that is `<` decides true, first that is `>` decides false -/
def tupLt : Nat → Bytes → Bytes → Bool
  | 0, _, _ => false
  | n+1, a, b =>
    if fLt 4 (leVal (a.take 4)) (leVal (b.take 4)) then true
    else if fLt 4 (leVal (b.take 4)) (leVal (a.take 4)) then false
    else tupLt n (a.drop 4) (b.drop 4)

/-- `valueInMsg == _value` -/
def valEq : NumTy → Bytes → Bytes → Bool
  | .f32, a, b => fEq 4 (leVal a) (leVal b)
  | .f64, a, b => fEq 8 (leVal a) (leVal b)
  | .pt, a, b => tupEq 2 a b
  | .rc, a, b => tupEq 4 a b
  | _, a, b => leVal a == leVal b
/-- `valueInMsg < _value` -/
def valLt : NumTy → Bytes → Bytes → Bool
  | .bool, a, b => decide (leVal a < leVal b)
  | .f32, a, b => fLt 4 (leVal a) (leVal b)
  | .f64, a, b => fLt 8 (leVal a) (leVal b)
  | .pt, a, b => tupLt 2 a b
  | .rc, a, b => tupLt 4 a b
  | t, a, b => decide (sval t.size (leVal a) < sval t.size (leVal b))
/-- `valueInMsg <= _value`: the scalar types use the built-in operator (false on NaN), `Tuple` defines it as `!(a > b)` -/
def valLe : NumTy → Bytes → Bytes → Bool
  | .pt, a, b => !tupLt 2 b a
  | .rc, a, b => !tupLt 4 b a
  | t, a, b => valLt t a b || valEq t a b
/-- `valueInMsg != _value` (`!(a == b)` for every type, including IEEE) -/
def valNe (t : NumTy) (a b : Bytes) : Bool := !valEq t a b

/-- `NumericQueryFilter::MatchesAux`: `a` = value in the Message (after masking), `b` = `_value` -/
def numCmp (t : NumTy) (op : Nat) (a b : Bytes) : Bool :=
  if op = nopEq then valEq t a b
  else if op = nopLt then valLt t a b
  else if op = nopGt then valLt t b a
  else if op = nopLe then valLe t a b
  else if op = nopGe then valLe t b a
  else if op = nopNe then valNe t a b
  else false

/-- bitwise complement of a `k`-byte pattern -/
def bnot (k n : Nat) : Nat := 256 ^ k - 1 - n % 256 ^ k

/-- `NQFDoMaskOp(maskOp, msgVal, mask)` for `maskOp ≠ NQF_MASK_OP_NONE`: integers bitwise (result
    converted back to the operand type), the `bool` specialisation logical, and the "dummy
    specialisations" for float/double/Point/Rect return a default-constructed value (`Rect()` is (0,0,-1,-1)). -/
def doMask (t : NumTy) (mop : Nat) (v mask : Bytes) : Bytes :=
  match t with
  | .f32 | .f64 | .pt | .rc => t.dflt
  | .bool =>
    let a := leVal v != 0; let b := leVal mask != 0
    let r := if mop = mopAnd then a && b else if mop = mopOr then a || b else if mop = mopXor then a != b
      else if mop = mopNand then !(a && b) else if mop = mopNor then !(a || b) else if mop = mopXnor then !(a != b) else a
    [if r then 1 else 0]
  | _ =>
    let a := leVal v; let b := leVal mask; let k := t.size
    let r := if mop = mopAnd then a &&& b else if mop = mopOr then a ||| b else if mop = mopXor then a ^^^ b
      else if mop = mopNand then bnot k (a &&& b) else if mop = mopNor then bnot k (a ||| b)
      else if mop = mopXnor then bnot k (a ^^^ b) else a
    leN k r

/-- the tail of `NumericQueryFilter::Matches`, given the value found in the Message (or none) -/
def numMatches (t : NumTy) (op mop : Nat) (val mask : Bytes) (dflt : Option Bytes) (found : Option Bytes) : Bool :=
  match (match found with | some v => some v | none => dflt) with
  | none => false
  | some v => numCmp t op (if mop = mopNone then v else doMask t mop v mask) val

/-! ## strings -/

/-- `strcmp`/`memcmp` order on (NUL-free) byte strings: unsigned lexicographic -/
def bytesLt : Bytes → Bytes → Bool
  | [], [] => false
  | [], _ :: _ => true
  | _ :: _, [] => false
  | a :: as, b :: bs => if a < b then true else if b < a then false else bytesLt as bs

/-- `tolower` in the "C" locale -/
def lowerByte (b : UInt8) : UInt8 := if 65 ≤ b ∧ b ≤ 90 then b + 32 else b
def lower (s : Bytes) : Bytes := s.map lowerByte

/-- `strstr(hay, needle) != NULL` / `MemMem(...) != NULL` -/
def isInfix (needle : Bytes) : Bytes → Bool
  | [] => needle.isEmpty
  | h :: t => needle.isPrefixOf (h :: t) || isInfix needle t

/-- the twelve case-sensitive operators of `StringQueryFilter::MatchesString` on already
    case-folded (or not) operands; `s` = the string from the Message, `v` = `_value` -/
def strOp (op : Nat) (v s : Bytes) : Bool :=
  if op = sopEq then s == v
  else if op = sopLt then bytesLt s v
  else if op = sopGt then bytesLt v s
  else if op = sopLe then !bytesLt v s
  else if op = sopGe then !bytesLt s v
  else if op = sopNe then !(s == v)
  else if op = sopStartsWith then v.isPrefixOf s
  else if op = sopEndsWith then v.isSuffixOf s
  else false

/-- `StringQueryFilter::MatchesString(s)` -/
def strMatches (sm : Nat → Bytes → Bytes → Bool) (op : Nat) (v s : Bytes) : Bool :=
  if op < sopContains then strOp op v s
  -- `String::IndexOf(x) >= 0` is `(0 < Length()) ? strstr(...) : NULL`: an empty haystack contains nothing, not even ""
  else if op = sopContains then !s.isEmpty && isInfix v s
  else if op = sopStartOf then s.isPrefixOf v
  else if op = sopEndOf then s.isSuffixOf v
  else if op = sopSubstringOf then !v.isEmpty && isInfix s v
  else if op < sopIcBase + (sopContains - sopEq) then strOp (op - sopIcBase) (lower v) (lower s)
  -- `StrcasestrEx` returns NULL when the haystack OR the needle is empty
  else if op = sopIcBase + sopContains then !s.isEmpty && !v.isEmpty && isInfix (lower v) (lower s)
  else if op = sopIcBase + sopStartOf then (lower s).isPrefixOf (lower v)
  else if op = sopIcBase + sopEndOf then (lower s).isSuffixOf (lower v)
  else if op = sopIcBase + sopSubstringOf then !v.isEmpty && !s.isEmpty && isInfix (lower s) (lower v)
  else if op < sopCount then sm op v s
  else false

/-- `StringQueryFilter::Matches` after the lookup -/
def strMatchesOpt (sm : Nat → Bytes → Bytes → Bool) (op : Nat) (v : Bytes) (dflt found : Option Bytes) : Bool :=
  match (match found with | some s => some s | none => dflt) with
  | none => false
  | some s => strMatches sm op v s

/-! ## raw data -/

/-- the `switch(_op)` of `RawDataQueryFilter::Matches`: `my` = `_value` bytes (non-NULL), `his` = bytes found -/
def rawOp (op : Nat) (my his : Bytes) : Bool :=
  let clen := min my.length his.length
  if op = ropEq then his.length == my.length && my.take clen == his.take clen
  else if op = ropLt then bytesLt (his.take clen) (my.take clen) || (his.take clen == my.take clen && decide (his.length < my.length))
  else if op = ropGt then bytesLt (my.take clen) (his.take clen) || (his.take clen == my.take clen && decide (his.length > my.length))
  else if op = ropLe then bytesLt (his.take clen) (my.take clen) || (his.take clen == my.take clen && decide (his.length ≤ my.length))
  else if op = ropGe then bytesLt (my.take clen) (his.take clen) || (his.take clen == my.take clen && decide (his.length ≥ my.length))
  else if op = ropNe then his.length != my.length || my.take clen != his.take clen
  else if op = ropStartsWith then decide (my.length ≤ his.length) && my.take clen == his.take clen
  else if op = ropEndsWith then decide (my.length ≤ his.length) && my.drop (my.length - clen) == his.drop (his.length - clen)
  else if op = ropContains then isInfix my his
  else if op = ropStartOf then decide (his.length ≤ my.length) && his.take clen == my.take clen
  else if op = ropEndOf then decide (his.length ≤ my.length) && his.drop (his.length - clen) == my.drop (my.length - clen)
  else if op = ropSubsetOf then isInfix his my
  else false

/-- `RawDataQueryFilter::Matches` after the lookup: no data and no default ⇒ false; a NULL or
    zero-length `_value` (`myBytes == NULL`) ⇒ false -/
def rawMatches (op : Nat) (val dflt found : Option Bytes) : Bool :=
  match (match found with | some h => some h | none => dflt) with
  | none => false
  | some his =>
    match val with
    | none => false
    | some my => if my = [] then false else rawOp op my his

/-! ## combinators -/

/-- the loop of `ThresholdMaxAux` from kid `i` on: `vals` = results of kids `i …` (so
    `numKids - i = vals.length`), `mc` = `matchCount` -/
def thrLoop (threshold : Nat) : Nat → List Bool → Bool
  | _, [] => false
  | mc, v :: rest =>
    if 1 + threshold - mc > (v :: rest).length then false     -- "might as well give up"
    else if v then (if mc + 1 > threshold then true else thrLoop threshold (mc + 1) rest)
    else thrLoop threshold mc rest

/-- `ThresholdMaxAux(kids, numMatches, msg, node)` on the kids' results -/
def thresholdMaxAux (n : Nat) (vals : List Bool) : Bool :=
  if vals.length = 0 then true else thrLoop (min n (vals.length - 1)) 0 vals

/-- the counting loop of `XorQueryFilter::Matches` -/
def xorLoop : Nat → List Bool → Nat
  | mc, [] => mc
  | mc, v :: rest => xorLoop (if v then mc + 1 else mc) rest

/-- the temporary Message of `ChildCountQueryFilter::Matches` -/
def childCountMsg (nd : Option Node) : Msg :=
  .mk 0 [([], .fixed tcInt32 .inl [leN 4 (match nd with | some n => n.numChildren | none => 0)])]

def orElse' {α} (a b : Option α) : Option α := match a with | some x => some x | none => b

mutual
/-- `QueryFilter::Matches(msg, optNode)` -/
def eval (sm : Nat → Bytes → Bytes → Bool) : Filter → Msg → Option Node → Bool
  | .what lo hi, m, _ => decide (lo ≤ m.what) && decide (m.what ≤ hi)
  | .valueExists fn idx tc, m, _ => (findData fn tc idx m).isSome
  | .num ty fn idx op mop val mask dflt, m, _ => numMatches ty op mop val mask dflt (findData fn ty.tc idx m)
  | .childCount fn idx op mop val mask dflt, _, nd =>
      numMatches .i32 op mop val mask dflt (findData fn tcInt32 idx (childCountMsg nd))
  | .str fn idx op val dflt, m, _ => strMatchesOpt sm op val dflt (findString fn idx m)
  | .nodeName _ _ op val _, _, nd => match nd with | some n => strMatches sm op val n.name | none => false
  | .raw fn idx op tc val dflt, m, _ => rawMatches op val dflt (findData fn tc idx m)
  | .msgAny fn idx dflt, m, _ => (orElse' (findMessage fn idx m) dflt).isSome
  | .msgKid fn idx kid dflt, m, nd =>
      match orElse' (findMessage fn idx m) dflt with
      | none => false
      | some sub => eval sm kid sub nd
  | .minMatch n kids, m, nd => thresholdMaxAux n (evalKids sm kids m nd)
  | .maxMatch n kids, m, nd => !thresholdMaxAux n (evalKids sm kids m nd)
  | .xor kids, m, nd => xorLoop 0 (evalKids sm kids m nd) % 2 != 0
/-- the kids' `Matches` results, in order (evaluation is pure, so the early exits of the C++ loops
    change nothing but the work done; they are mirrored in `thrLoop`) -/
def evalKids (sm : Nat → Bytes → Bytes → Bool) : List Filter → Msg → Option Node → List Bool
  | [], _, _ => []
  | k :: ks, m, nd => eval sm k m nd :: evalKids sm ks m nd
end

end Muscle.Filter
