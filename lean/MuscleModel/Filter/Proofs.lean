import MuscleModel.Filter.Archive

/-!
# Lemmas for C14, part 1: the combinator loops, numeric comparison, the default rule
-/

set_option linter.unusedSimpArgs false
set_option linter.unusedVariables false

namespace Muscle.Filter
open Muscle Muscle.Wire Muscle.Gen

/-! ## threshold loop -/

theorem count_true_le (vals : List Bool) : vals.count true ≤ vals.length := List.count_le_length

/-- the early-exit loop computes "matchCount exceeds the threshold", for every prefix state it can be in -/
theorem thrLoop_spec (t : Nat) : ∀ (vals : List Bool) (mc : Nat), mc ≤ t →
    thrLoop t mc vals = decide (t < mc + vals.count true) := by
  intro vals
  induction vals with
  | nil =>
    intro mc h
    have : ¬ t < mc := by omega
    simp [thrLoop, this]
  | cons v rest ih =>
    intro mc h
    have hc := count_true_le rest
    unfold thrLoop
    by_cases hb : 1 + t - mc > (v :: rest).length
    · simp only [hb, if_true]
      have : (v :: rest).count true ≤ (v :: rest).length := count_true_le _
      simp only [List.length_cons] at hb this
      simp; omega
    · simp only [hb, if_false]
      cases v with
      | true =>
        simp only [if_true, List.count_cons_self]
        by_cases h2 : mc + 1 > t
        · simp [h2]; omega
        · simp only [h2, if_false]
          rw [ih (mc + 1) (by omega)]
          congr 1
          apply propext; constructor <;> intro <;> omega
      | false =>
        simp only [Bool.false_eq_true, if_false]
        rw [ih mc h]
        simp

theorem thresholdMaxAux_spec (n : Nat) (vals : List Bool) :
    thresholdMaxAux n vals = (vals.isEmpty || decide (min n (vals.length - 1) < vals.count true)) := by
  unfold thresholdMaxAux
  cases vals with
  | nil => simp
  | cons v rest =>
    simp only [List.length_cons, Nat.add_one_ne_zero, if_false, List.isEmpty_cons, Bool.false_or]
    rw [thrLoop_spec _ _ 0 (Nat.zero_le _)]
    simp

theorem xorLoop_spec : ∀ (vals : List Bool) (mc : Nat), xorLoop mc vals = mc + vals.count true := by
  intro vals
  induction vals with
  | nil => intro mc; simp [xorLoop]
  | cons v rest ih =>
    intro mc
    cases v <;> simp [xorLoop, ih] <;> omega

/-- parity of the number of `true`s as an iterated exclusive-or -/
def parity : List Bool → Bool
  | [] => false
  | v :: r => v != parity r

theorem parity_count (vals : List Bool) : parity vals = (vals.count true % 2 != 0) := by
  induction vals with
  | nil => simp [parity]
  | cons v rest ih =>
    cases v
    · simp [parity, ih]
    · simp only [parity, ih, List.count_cons_self]
      have : rest.count true % 2 = 0 ∨ rest.count true % 2 = 1 := by omega
      rcases this with h | h
      · have h2 : (rest.count true + 1) % 2 = 1 := by omega
        simp [h, h2]
      · have h2 : (rest.count true + 1) % 2 = 0 := by omega
        simp [h, h2]

theorem count_eq_length_iff_all (vals : List Bool) : vals.count true = vals.length ↔ vals.all id = true := by
  induction vals with
  | nil => simp
  | cons v rest ih =>
    have hc := count_true_le rest
    cases v
    · simp; omega
    · simp [ih]

theorem count_pos_iff_any (vals : List Bool) : 0 < vals.count true ↔ vals.any id = true := by
  induction vals with
  | nil => simp
  | cons v rest ih =>
    cases v
    · simp [ih]
    · simp

theorem thr_and (vals : List Bool) (h : vals.length ≤ muscleNoLimit + 1) :
    thresholdMaxAux muscleNoLimit vals = vals.all id := by
  rw [thresholdMaxAux_spec]
  cases vals with
  | nil => simp
  | cons v rest =>
    have hc := count_true_le (v :: rest)
    have hmin : min muscleNoLimit ((v :: rest).length - 1) = (v :: rest).length - 1 := by
      simp only [List.length_cons] at h ⊢; omega
    have hiff := count_eq_length_iff_all (v :: rest)
    rw [hmin]
    simp only [List.isEmpty_cons, Bool.false_or]
    rw [Bool.eq_iff_iff, ← hiff]
    simp only [decide_eq_true_eq, List.length_cons] at *
    omega

theorem thr_or (vals : List Bool) : thresholdMaxAux 0 vals = (vals.isEmpty || vals.any id) := by
  rw [thresholdMaxAux_spec]
  have hiff := count_pos_iff_any vals
  congr 1
  rw [Bool.eq_iff_iff, ← hiff]
  simp

theorem evalKids_eq_map (sm : Nat → Bytes → Bytes → Bool) (m : Msg) (nd : Option Node) :
    ∀ kids : List Filter, evalKids sm kids m nd = kids.map (fun k => eval sm k m nd) := by
  intro kids
  induction kids with
  | nil => simp [evalKids]
  | cons k ks ih => simp [evalKids, ih]

/-! ## numeric comparison -/

theorem sval_inj (k x y : Nat) (hx : x < 256 ^ k) (hy : y < 256 ^ k) : sval k x = sval k y ↔ x = y := by
  unfold sval
  rw [Nat.mod_eq_of_lt hx, Nat.mod_eq_of_lt hy]
  generalize 256 ^ k = P at *
  constructor
  · intro h
    split at h <;> split at h <;> omega
  · intro h; subst h; rfl

theorem numCmp_bad_op (t : NumTy) (op : Nat) (a b : Bytes) (h : 6 ≤ op) : numCmp t op a b = false := by
  have h0 : op ≠ 0 := by omega
  have h1 : op ≠ 1 := by omega
  have h2 : op ≠ 2 := by omega
  have h3 : op ≠ 3 := by omega
  have h4 : op ≠ 4 := by omega
  have h5 : op ≠ 5 := by omega
  simp [numCmp, nopEq, nopLt, nopGt, nopLe, nopGe, nopNe, h0, h1, h2, h3, h4, h5]

/-! ## the default rule -/

theorem numMatches_none (t : NumTy) (op mop : Nat) (val mask : Bytes) (dflt : Option Bytes) :
    numMatches t op mop val mask dflt none =
      match dflt with
      | some d => numMatches t op mop val mask none (some d)
      | none => false := by
  cases dflt <;> simp [numMatches]

theorem strMatchesOpt_none (sm : Nat → Bytes → Bytes → Bool) (op : Nat) (v : Bytes) (dflt : Option Bytes) :
    strMatchesOpt sm op v dflt none = match dflt with | some d => strMatches sm op v d | none => false := by
  cases dflt <;> simp [strMatchesOpt]

theorem rawMatches_none (op : Nat) (val dflt : Option Bytes) :
    rawMatches op val dflt none = match dflt with | some d => rawMatches op val none (some d) | none => false := by
  cases dflt <;> simp [rawMatches]

theorem dataAt_out_of_range (f : Field) (idx : Nat) (h : f.count ≤ idx) : dataAt f idx = none := by
  cases f with
  | fixed tc r xs => simp only [Field.count] at h; simp [dataAt, h]
  | strs r xs => simp only [Field.count] at h; simp [dataAt, List.getElem?_eq_none h]
  | raws tc r xs => simp only [Field.count] at h; simp [dataAt, List.getElem?_eq_none h]
  | msgs r xs => simp only [Field.count] at h; simp [dataAt, List.getElem?_eq_none h]
  | «opaque» tc n => simp only [Field.count] at h; simp [dataAt]; omega

/-- the three ways `FindData` can miss: no such field, a field of another type, index out of range -/
theorem findData_absent (fn : Bytes) (tc idx : Nat) (m : Msg) (h : lookupField fn m.fields = none) :
    findData fn tc idx m = none := by
  simp [findData, h]

theorem findData_wrong_type (fn : Bytes) (tc idx : Nat) (m : Msg) (f : Field) (h : lookupField fn m.fields = some f)
    (hany : tc ≠ tcAny) (ht : tc ≠ f.typeCode) : findData fn tc idx m = none := by
  simp [findData, h, hany, ht]

theorem findData_out_of_range (fn : Bytes) (tc idx : Nat) (m : Msg) (f : Field) (h : lookupField fn m.fields = some f)
    (hi : f.count ≤ idx) : findData fn tc idx m = none := by
  simp only [findData, h, dataAt_out_of_range f idx hi]
  split <;> (try split) <;> rfl

end Muscle.Filter
