import MuscleModel.Wire.Ops

/-!
# Query-filter trees and the Message accessors they use (`regex/QueryFilter.h`, `message/Message.cpp`)

`Filter` has one constructor per filter class of `regex/QueryFilter.h`.  The nine instantiations of the
one C++ template `NumericQueryFilter<T, DataTypeCode, ClassTypeCode>` (QUERY_FILTER_TYPE_BOOL … _RECT)
share the constructor `num`, indexed by `NumTy`; `MessageQueryFilter` has two constructors (with and
without a child filter) so that the type is nested through `List` only.

A numeric operand is its in-memory bytes (= its wire bytes on this little-endian build: the
extractor re-checks `sizeof(Point)=8`, `sizeof(Rect)=16`, `sizeof(bool)=1`), exactly as the items of a
`.fixed` Message field are represented in `Wire/Msg.lean`.
-/

namespace Muscle.Filter
open Muscle Muscle.Wire Muscle.Gen

/-- `DataType` of `NumericQueryFilter<DataType, DataTypeCode, ClassTypeCode>` -/
inductive NumTy where
  | bool | f64 | f32 | i64 | i32 | i16 | i8 | pt | rc
  deriving DecidableEq, Repr, Inhabited

/-- `DataTypeCode` -/
def NumTy.tc : NumTy → Nat
  | .bool => tcBool | .f64 => tcDouble | .f32 => tcFloat | .i64 => tcInt64 | .i32 => tcInt32
  | .i16 => tcInt16 | .i8 => tcInt8 | .pt => tcPoint | .rc => tcRect

/-- `ClassTypeCode` (what `TypeCode()` returns) -/
def NumTy.qf : NumTy → Nat
  | .bool => qfBool | .f64 => qfDouble | .f32 => qfFloat | .i64 => qfInt64 | .i32 => qfInt32
  | .i16 => qfInt16 | .i8 => qfInt8 | .pt => qfPoint | .rc => qfRect

/-- `sizeof(DataType)` -/
def NumTy.size : NumTy → Nat
  | .bool => 1 | .f64 => 8 | .f32 => 4 | .i64 => 8 | .i32 => 4 | .i16 => 2 | .i8 => 1 | .pt => 8 | .rc => 16

/-- in-memory bytes of a default-constructed `DataType()`: zero, except `Rect()` = (0, 0, -1, -1) -/
def NumTy.dflt : NumTy → Bytes
  | .rc => rectDefault
  | .pt => pointDefault
  | t => List.replicate t.size 0

/-- the DataNode a filter may look at: `GetNodeName()`, `GetNumChildren()` -/
structure Node where
  name : Bytes
  numChildren : Nat
  deriving Repr

inductive Filter where
  /-- `WhatCodeQueryFilter(minWhat, maxWhat)` -/
  | what (lo hi : Nat)
  /-- `ValueExistsQueryFilter(fieldName, typeCode, index)` -/
  | valueExists (fn : Bytes) (idx : Nat) (tc : Nat)
  /-- `NumericQueryFilter<T,…>`: `_fieldName _index _op _maskOp _value _mask`, `_assumeDefault ? some _default : none` -/
  | num (ty : NumTy) (fn : Bytes) (idx : Nat) (op mop : Nat) (val mask : Bytes) (dflt : Option Bytes)
  /-- `ChildCountQueryFilter` (= the int32 numeric filter applied to a temporary Message) -/
  | childCount (fn : Bytes) (idx : Nat) (op mop : Nat) (val mask : Bytes) (dflt : Option Bytes)
  /-- `StringQueryFilter` -/
  | str (fn : Bytes) (idx : Nat) (op : Nat) (val : Bytes) (dflt : Option Bytes)
  /-- `NodeNameQueryFilter` (a StringQueryFilter whose `Matches` looks at the node name) -/
  | nodeName (fn : Bytes) (idx : Nat) (op : Nat) (val : Bytes) (dflt : Option Bytes)
  /-- `RawDataQueryFilter`: `_value`/`_default` are ByteBuffer references, `none` = NULL reference -/
  | raw (fn : Bytes) (idx : Nat) (op : Nat) (tc : Nat) (val : Option Bytes) (dflt : Option Bytes)
  /-- `MessageQueryFilter` with a NULL `_childFilter` -/
  | msgAny (fn : Bytes) (idx : Nat) (dflt : Option Msg)
  /-- `MessageQueryFilter` with a child filter -/
  | msgKid (fn : Bytes) (idx : Nat) (kid : Filter) (dflt : Option Msg)
  /-- `MinimumThresholdQueryFilter(minMatches)`; `AndQueryFilter` = `minMatch MUSCLE_NO_LIMIT`, `OrQueryFilter` = `minMatch 0` -/
  | minMatch (n : Nat) (kids : List Filter)
  /-- `MaximumThresholdQueryFilter(maxMatches)`; `NandQueryFilter` = `maxMatch MUSCLE_NO_LIMIT`, `NorQueryFilter` = `maxMatch 0` -/
  | maxMatch (n : Nat) (kids : List Filter)
  /-- `XorQueryFilter` -/
  | xor (kids : List Filter)

instance : Inhabited Filter := ⟨.what 0 0⟩

/-- `AndQueryFilter` / `OrQueryFilter` / `NandQueryFilter` / `NorQueryFilter` convenience classes -/
def Filter.and (kids : List Filter) : Filter := .minMatch muscleNoLimit kids
def Filter.or (kids : List Filter) : Filter := .minMatch 0 kids
def Filter.nand (kids : List Filter) : Filter := .maxMatch muscleNoLimit kids
def Filter.nor (kids : List Filter) : Filter := .maxMatch 0 kids

/-! ## Message accessors -/

/-- what `MessageField::FindDataItem(idx)` + the `switch(tc)` of `Message::FindData` expose as
    `(*data, *numBytes)`.  Strings: `Cstr()` with `FlattenedSize() = Length()+1` bytes (the NUL is
    included).  Variable-size items: the ByteBuffer's bytes, and `B_TYPE_MISMATCH` when
    `GetBuffer()` is NULL (a zero-length buffer).  Message / pointer / tag items: the bytes of the
    reference object itself (an address — not modelled: `[]`; the driver prints `?` whenever a
    raw-data filter can reach such a field, see `Engines/Filter.lean`). -/
def dataAt (f : Field) (idx : Nat) : Option Bytes :=
  match f with
  | .fixed _ _ xs => xs[idx]?
  | .strs _ xs => match xs[idx]? with | some s => some (s ++ [0]) | none => none
  | .raws _ _ xs => match xs[idx]? with | some b => if b = [] then none else some b | none => none
  | .msgs _ xs => match xs[idx]? with | some _ => some [] | none => none
  | .opaque _ n => if idx < n then some [] else none

/-- `Message::FindData(fieldName, tc, idx, &data, &numBytes)`; `none` = an error status.
    `GetMessageField(name, tc)` accepts any field for `B_ANY_TYPE`; the `B_ANY_TYPE` case then
    re-dispatches on the field's own type code (`B_BAD_OBJECT` if that is `B_ANY_TYPE` itself). -/
def findData (fn : Bytes) (tc idx : Nat) (m : Msg) : Option Bytes :=
  match lookupField fn m.fields with
  | none => none
  | some f =>
    if tc = tcAny then (if f.typeCode = tcAny then none else dataAt f idx)
    else if tc = f.typeCode then dataAt f idx else none

/-- `GetInfo(fn, &type)` + `type == B_RAW_TYPE` + `FindFlat(fn, byteBufferRef)`: the first item of a field of exactly
    type `B_RAW_TYPE`, a zero-length buffer included (which `FindData` cannot hand out) -/
def findRawBuf (fn : Bytes) (m : Msg) : Option Bytes :=
  match lookupField fn m.fields with
  | some (.raws tc _ xs) => if tc = tcRaw then xs[0]? else none
  | _ => none

/-- `Message::FindString(fieldName, idx, …)` -/
def findString (fn : Bytes) (idx : Nat) (m : Msg) : Option Bytes :=
  match lookupField fn m.fields with
  | some (.strs _ xs) => xs[idx]?
  | _ => none

/-- `Message::FindMessage(fieldName, idx, ref)` -/
def findMessage (fn : Bytes) (idx : Nat) (m : Msg) : Option Msg :=
  match lookupField fn m.fields with
  | some (.msgs _ xs) => xs[idx]?
  | _ => none

/-- `FindDataItemAux(fieldName, idx, tc, …)` for the fixed-size types: item bytes of a field of exactly type `tc` -/
def findFixed (fn : Bytes) (tc idx : Nat) (m : Msg) : Option Bytes :=
  match lookupField fn m.fields with
  | some (.fixed tc' _ xs) => if tc' = tc then xs[idx]? else none
  | _ => none

/-- `Message::FindInt32(fn, 0, v)` as an unsigned bit pattern -/
def findInt32 (fn : Bytes) (m : Msg) : Option Nat := (findFixed fn tcInt32 0 m).map leVal
/-- `Message::GetInt32(fn, defVal)` -/
def getInt32 (fn : Bytes) (d : Nat) (m : Msg) : Nat := (findInt32 fn m).getD d
/-- `Message::FindInt8(fn, 0, v)` into a `uint8` -/
def findInt8 (fn : Bytes) (m : Msg) : Option Nat := (findFixed fn tcInt8 0 m).map leVal
/-- `Message::GetInt8(fn)` assigned to a `uint8` -/
def getInt8 (fn : Bytes) (m : Msg) : Nat := (findInt8 fn m).getD 0

end Muscle.Filter
