import MuscleModel.Filter.Eval
import MuscleModel.Wire.Canon

/-!
# Archived form: `SaveToArchive` / `SetFromArchive` of every class and the factory

`toArchive f` mirrors `f.SaveToArchive(archive)` on an empty Message (same fields, same order, same
omissions: the `CAdd…` calls skip a value equal to its default).  `fromArchiveF fuel a` mirrors
`QueryFilterFactory::CreateQueryFilter(const Message &)` = `MuscleQueryFilterFactory::CreateQueryFilter(what)`
followed by `SetFromArchive(a)`; `none` = a NULL reference (unknown class code, a required field
missing or of the wrong type, or a child that fails).  One unit of fuel per nesting level of child
archives (`fromArchive` supplies the Message's nesting depth + 1).
-/

namespace Muscle.Filter
open Muscle Muscle.Wire Muscle.Gen

/-! field names used by the archives -/
def kFn : Bytes := [102, 110]                        -- "fn"
def kIdx : Bytes := [105, 100, 120]                  -- "idx"
def kMin : Bytes := [109, 105, 110]                  -- "min"
def kMax : Bytes := [109, 97, 120]                   -- "max"
def kType : Bytes := [116, 121, 112, 101]            -- "type"
def kOp : Bytes := [111, 112]                        -- "op"
def kMop : Bytes := [109, 111, 112]                  -- "mop"
def kVal : Bytes := [118, 97, 108]                   -- "val"
def kMsk : Bytes := [109, 115, 107]                  -- "msk"
def kDef : Bytes := [100, 101, 102]                  -- "def"
def kKid : Bytes := [107, 105, 100]                  -- "kid"
def kDefmsg : Bytes := [100, 101, 102, 109, 115, 103] -- "defmsg"

/-! ## SaveToArchive -/

/-- `CAddInt32(name, v, dflt)`: nothing when `v == dflt` -/
def cInt32 (k : Bytes) (v d : Nat) : List (Bytes × Field) :=
  if v = d then [] else [(k, .fixed tcInt32 .inl [leN 4 v])]
/-- `CAddInt8(name, v)`: nothing when `v == 0` -/
def cInt8 (k : Bytes) (v : Nat) : List (Bytes × Field) :=
  if v = 0 then [] else [(k, .fixed tcInt8 .inl [leN 1 v])]
/-- `AddInt8(name, v)` -/
def aInt8 (k : Bytes) (v : Nat) : List (Bytes × Field) := [(k, .fixed tcInt8 .inl [leN 1 v])]

/-- `ValueQueryFilter::SaveToArchive`: `AddString("fn", _fieldName) | CAddInt32("idx", _index)` -/
def valueHdr (fn : Bytes) (idx : Nat) : List (Bytes × Field) :=
  (kFn, .strs .inl [fn]) :: cInt32 kIdx idx 0

/-- a field holding one item or two (second `Add…` call switches to the array representation) -/
def rep12 {α} (d : Option α) : Rep := match d with | none => .inl | some _ => .arr

/-- `NumericQueryFilter::SaveToArchive` after the what-code: "val" gets `_value`, then (after "msk")
    `_default` is *appended to the same field* when `_assumeDefault` -/
def numFields (tc : Nat) (fn : Bytes) (idx op mop : Nat) (val mask : Bytes) (dflt : Option Bytes) : List (Bytes × Field) :=
  valueHdr fn idx ++ cInt8 kOp op ++ cInt8 kMop mop ++
    [(kVal, .fixed tc (rep12 dflt) (val :: dflt.toList)), (kMsk, .fixed tc .inl [mask])]

/-- `StringQueryFilter::SaveToArchive` -/
def strFields (fn : Bytes) (idx op : Nat) (val : Bytes) (dflt : Option Bytes) : List (Bytes × Field) :=
  valueHdr fn idx ++ [(kVal, .strs (rep12 dflt) (val :: dflt.toList))] ++ aInt8 kOp op

/-- `AddData("val", B_RAW_TYPE, bytes, n)` guarded as in `RawDataQueryFilter::SaveToArchive`: the value is written
    only when it is non-empty (`(bytes)&&(numBytes > 0)`) -/
def rawOpt (k : Bytes) (b : Option Bytes) : List (Bytes × Field) :=
  match b with
  | none => []
  | some x => if x = [] then [] else [(k, .raws tcRaw .inl [x])]

/-- `AddFlat("def", copy of the default ByteBuffer)`: every non-NULL default is written, a zero-length one too -/
def rawAll (k : Bytes) (b : Option Bytes) : List (Bytes × Field) :=
  match b with
  | none => []
  | some x => [(k, .raws tcRaw .inl [x])]

/-- `CAddMessage(name, ref)`: nothing for a NULL reference -/
def optMsg (k : Bytes) (d : Option Msg) : List (Bytes × Field) :=
  match d with
  | none => []
  | some m => [(k, .msgs .inl [m])]

def repN {α} (xs : List α) : Rep := if xs.length = 1 then .inl else .arr

mutual
/-- `QueryFilter::SaveToArchive` and its overrides -/
def toArchive : Filter → Msg
  | .what lo hi => .mk qfWhatCode (cInt32 kMin lo 0 ++ cInt32 kMax hi lo)
  | .valueExists fn idx tc => .mk qfValueExists (valueHdr fn idx ++ cInt32 kType tc tcAny)
  | .num ty fn idx op mop val mask dflt => .mk ty.qf (numFields ty.tc fn idx op mop val mask dflt)
  | .childCount fn idx op mop val mask dflt => .mk qfChildCount (numFields tcInt32 fn idx op mop val mask dflt)
  | .str fn idx op val dflt => .mk qfString (strFields fn idx op val dflt)
  | .nodeName fn idx op val dflt => .mk qfNodeName (strFields fn idx op val dflt)
  | .raw fn idx op tc val dflt =>
      .mk qfRawData (valueHdr fn idx ++ aInt8 kOp op ++ cInt32 kType tc tcAny ++ rawOpt kVal val ++ rawAll kDef dflt)
  | .msgAny fn idx dflt =>
      .mk qfMessage (valueHdr fn idx ++ optMsg kDefmsg dflt)
  | .msgKid fn idx kid dflt =>
      .mk qfMessage (valueHdr fn idx ++ ((kKid, .msgs .inl [toArchive kid]) :: optMsg kDefmsg dflt))
  | .minMatch n kids => .mk qfMinMatch (kidsField kids ++ cInt32 kMin n muscleNoLimit)
  | .maxMatch n kids => .mk qfMaxMatch (kidsField kids ++ cInt32 kMax n 0)
  | .xor kids => .mk qfXor (kidsField kids)
/-- `MultiQueryFilter::SaveToArchive`: one `AddArchiveMessage("kid", child)` per child -/
def kidsField : List Filter → List (Bytes × Field)
  | [] => []
  | k :: ks => [(kKid, .msgs (repN (k :: ks)) (toArchive k :: toArchives ks))]
def toArchives : List Filter → List Msg
  | [] => []
  | k :: ks => toArchive k :: toArchives ks
end

/-! ## SetFromArchive + factory -/

/-- `ValueQueryFilter::SetFromArchive`: `_index = GetInt32("idx")`, `FindString("fn", _fieldName)` must succeed -/
def fnIdx (a : Msg) : Option (Bytes × Nat) :=
  match findString kFn 0 a with
  | some fn => some (fn, getInt32 kIdx 0 a)
  | none => none

/-- class code → instantiation of the numeric template -/
def numTyOfQf (w : Nat) : Option NumTy :=
  if w = qfBool then some .bool else if w = qfDouble then some .f64 else if w = qfFloat then some .f32
  else if w = qfInt64 then some .i64 else if w = qfInt32 then some .i32 else if w = qfInt16 then some .i16
  else if w = qfInt8 then some .i8 else if w = qfPoint then some .pt else if w = qfRect then some .rc else none

structure NumParts where
  fn : Bytes
  idx : Nat
  op : Nat
  mop : Nat
  val : Bytes
  mask : Bytes
  dflt : Option Bytes

/-- `NumericQueryFilter::SetFromArchive` -/
def numFromArchive (tc sz : Nat) (zero : Bytes) (a : Msg) : Option NumParts :=
  match fnIdx a with
  | none => none
  | some (fn, idx) =>
    match findData kVal tc 0 a with
    | none => none
    | some v =>
      if v.length ≠ sz then none else      -- `if (numBytes != sizeof(_value)) return B_BAD_DATA`
      let mask := match findData kMsk tc 0 a with
        | some x => if x.length = sz then x else zero     -- `… : DataType()`
        | none => zero
      some { fn := fn, idx := idx, op := getInt8 kOp a, mop := getInt8 kMop a, val := v, mask := mask,
             dflt := findData kVal tc 1 a }

/-- `StringQueryFilter::SetFromArchive`: (fn, idx, op, value, default) -/
def strFromArchive (a : Msg) : Option (Bytes × Nat × Nat × Bytes × Option Bytes) :=
  match fnIdx a with
  | none => none
  | some (fn, idx) =>
    match findString kVal 0 a with
    | none => none
    | some v =>
      match findInt8 kOp a with
      | none => none
      | some op => some (fn, idx, op, v, findString kVal 1 a)

def mapOpt {α β} (f : α → Option β) : List α → Option (List β)
  | [] => some []
  | x :: xs => match f x with
    | none => none
    | some y => match mapOpt f xs with
      | none => none
      | some ys => some (y :: ys)

/-- the `FindMessage("kid", i, next)` loop of `MultiQueryFilter::SetFromArchive` -/
def kidArchives (a : Msg) : List Msg :=
  match lookupField kKid a.fields with
  | some (.msgs _ xs) => xs
  | _ => []

/-- `GetGlobalQueryFilterFactory()()->CreateQueryFilter(const Message &)` -/
def fromArchiveF : Nat → Msg → Option Filter
  | 0, _ => none
  | fuel+1, a =>
    let w := a.what
    if w = qfWhatCode then
      let lo := getInt32 kMin 0 a
      some (.what lo (getInt32 kMax lo a))
    else if w = qfValueExists then
      match fnIdx a with
      | none => none
      | some (fn, idx) => some (.valueExists fn idx (getInt32 kType tcAny a))
    else if w = qfChildCount then
      match numFromArchive tcInt32 4 (NumTy.dflt .i32) a with
      | none => none
      | some p => some (.childCount p.fn p.idx p.op p.mop p.val p.mask p.dflt)
    else if w = qfString then
      match strFromArchive a with
      | none => none
      | some (fn, idx, op, v, d) => some (.str fn idx op v d)
    else if w = qfNodeName then
      match strFromArchive a with
      | none => none
      | some (fn, idx, op, v, d) => some (.nodeName fn idx op v d)
    else if w = qfRawData then
      match fnIdx a with
      | none => none
      | some (fn, idx) =>
        match findInt8 kOp a with
        | none => none
        | some op => some (.raw fn idx op (getInt32 kType tcAny a) (findData kVal tcRaw 0 a) (findRawBuf kDef a))
    else if w = qfMessage then
      match fnIdx a with
      | none => none
      | some (fn, idx) =>
        let dflt := findMessage kDefmsg 0 a
        match findMessage kKid 0 a with
        | none => some (.msgAny fn idx dflt)
        | some k =>
          match fromArchiveF fuel k with
          | none => none
          | some kid => some (.msgKid fn idx kid dflt)
    else if w = qfMinMatch then
      match mapOpt (fromArchiveF fuel) (kidArchives a) with
      | none => none
      | some kids => some (.minMatch (getInt32 kMin muscleNoLimit a) kids)
    else if w = qfMaxMatch then
      match mapOpt (fromArchiveF fuel) (kidArchives a) with
      | none => none
      | some kids => some (.maxMatch (getInt32 kMax 0 a) kids)
    else if w = qfXor then
      match mapOpt (fromArchiveF fuel) (kidArchives a) with
      | none => none
      | some kids => some (.xor kids)
    else
      match numTyOfQf w with
      | none => none                      -- `default: return B_UNIMPLEMENTED`
      | some ty =>
        match numFromArchive ty.tc ty.size ty.dflt a with
        | none => none
        | some p => some (.num ty p.fn p.idx p.op p.mop p.val p.mask p.dflt)

/-- the factory on a whole archive: enough fuel for every nesting level -/
def fromArchive (a : Msg) : Option Filter := fromArchiveF (depthMsg a + 1) a

end Muscle.Filter
