import MuscleModel.Filter.ProofsPrint

/-!
# Lemmas for C14, part 7: rendering tokens as characters and lexing them back

`renderTok` writes a token followed by one blank (keyword tokens, whose text already ends in a blank, are written
as they are); `printableTok` says exactly which tokens can be written this way and read back:

* every fixed token of the table;
* a quoted user string without a `"` inside;
* an unquoted user string that is non-empty, contains no white space, does not start with `"`, does not BEGIN
  with a token or synonym (`startOk`: e.g. `what…`, `is` , `=x` are excluded) and in which no NON-LETTER character
  starts a token or synonym (`sufOk`: e.g. `a<b`, `x(int32)`, `p=q`, `a!b` are excluded; `eyecolor`, `somewhat`,
  `notes` are fine — since fix b1d5b6e a keyword ends a user string only at a non-letter).

The only facts about the concrete token table are closed computations checked by `decide` (`tbl_*`); a match against
`w ++ " " ++ rest` with blank-free `w` is reduced to the match against `w ++ " "` by `gm_cut`, because no table entry
or synonym has a blank anywhere but at its end.
-/

set_option linter.unusedSimpArgs false
set_option linter.unusedVariables false

namespace Muscle.Filter
open Muscle Muscle.Wire Muscle.Gen

def noBlank (v : Bytes) : Bool := !v.contains 32
/-- a blank may only be the last character -/
def blankOnlyLast (t : Bytes) : Bool := noBlank t.dropLast

theorem lb32 (a : UInt8) (h : lowerByte a = 32) : a = 32 := by
  unfold lowerByte at h
  split at h
  · rename_i hc
    have h1 := congrArg UInt8.toNat h
    have h2 : 65 ≤ a.toNat := by have := hc.1; simpa [UInt8.le_iff_toNat_le] using this
    have h3 : a.toNat ≤ 90 := by have := hc.2; simpa [UInt8.le_iff_toNat_le] using this
    simp [UInt8.toNat_add] at h1
    omega
  · exact h

theorem ciPrefix_cut : ∀ (t w rest : Bytes), noBlank w = true → blankOnlyLast t = true →
    ciPrefix t (w ++ 32 :: rest) = ciPrefix t (w ++ [32]) := by
  intro t
  induction t with
  | nil => intro w rest _ _; simp [ciPrefix]
  | cons a ts ih =>
    intro w rest hw ht
    cases w with
    | nil =>
      simp only [List.nil_append, ciPrefix]
      by_cases ha : lowerByte a = lowerByte 32
      · have ha' : a = 32 := lb32 a (by simpa [lowerByte] using ha)
        cases ts with
        | nil => simp [ciPrefix]
        | cons b r =>
          subst ha'
          simp only [blankOnlyLast] at ht
          rw [show (32 :: b :: r : Bytes).dropLast = 32 :: (b :: r).dropLast from rfl] at ht
          simp [noBlank, List.contains_cons] at ht
      · have hb : (lowerByte a == lowerByte 32) = false := by
          cases hx : (lowerByte a == lowerByte 32) with
          | false => rfl
          | true => exact absurd (beq_iff_eq.mp hx) ha
        simp [hb]
    | cons c w' =>
      simp only [List.cons_append, ciPrefix]
      have hw' : noBlank w' = true := by
        simp only [noBlank, List.contains_cons, Bool.not_eq_true', Bool.or_eq_false_iff] at hw ⊢
        exact hw.2
      have hts : blankOnlyLast ts = true := by
        cases ts with
        | nil => simp [blankOnlyLast, noBlank]
        | cons b r =>
          simp only [blankOnlyLast] at ht ⊢
          rw [show (a :: b :: r : Bytes).dropLast = a :: (b :: r).dropLast from rfl] at ht
          simp only [noBlank, List.contains_cons, Bool.not_eq_true', Bool.or_eq_false_iff] at ht ⊢
          exact ht.2
      rw [ih w' rest hw' hts]

theorem lastMatch_cut (w rest : Bytes) (hw : noBlank w = true) : ∀ (tbl : List Bytes) (i : Nat),
    (∀ t ∈ tbl, blankOnlyLast t = true) → lastMatch (w ++ 32 :: rest) tbl i = lastMatch (w ++ [32]) tbl i := by
  intro tbl
  induction tbl with
  | nil => intro i _; rfl
  | cons t r ih =>
    intro i h
    simp only [lastMatch]
    rw [ih (i + 1) (fun x hx => h x (by simp [hx])), ciPrefix_cut t w rest hw (h t (by simp))]

theorem firstSynonym_cut (w rest : Bytes) (hw : noBlank w = true) : ∀ (syn : List (Bytes × Nat)),
    (∀ p ∈ syn, blankOnlyLast p.1 = true) → firstSynonym (w ++ 32 :: rest) syn = firstSynonym (w ++ [32]) syn := by
  intro syn
  induction syn with
  | nil => intro _; rfl
  | cons p r ih =>
    intro h
    obtain ⟨t, id⟩ := p
    simp only [firstSynonym]
    rw [ih (fun x hx => h x (by simp [hx])), ciPrefix_cut t w rest hw (h (t, id) (by simp))]

theorem tbl_blank : ∀ t ∈ lexerTable, blankOnlyLast t = true := by decide
theorem syn_blank : ∀ p ∈ lexerSynonyms, blankOnlyLast p.1 = true := by decide

/-- a match against `w ++ " " ++ rest` is decided by `w ++ " "` alone -/
theorem gm_cut (w rest : Bytes) (hw : noBlank w = true) :
    getMatchingToken (w ++ 32 :: rest) = getMatchingToken (w ++ [32]) := by
  unfold getMatchingToken
  rw [lastMatch_cut w rest hw lexerTable 0 tbl_blank, firstSynonym_cut w rest hw lexerSynonyms syn_blank]

/-! ## rendering -/

def tokText (id : Nat) : Bytes := lexerTable.getD id []
def stripBlank (t : Bytes) : Bytes := if t.getLast? = some 32 then t.dropLast else t

/-- does `v` (followed by a blank) begin with a token or synonym? -/
def startOk (v : Bytes) : Bool := (getMatchingToken (v ++ [32])).isNone
/-- no non-letter character of `v` starts a token or synonym -/
def sufOk : Bytes → Bool
  | [] => true
  | c :: r => (isAlphaB c || (getMatchingToken (c :: r ++ [32])).isNone) && sufOk r

def renderTok : Tok → Bytes
  | .fixed id => stripBlank (tokText id) ++ [32]
  | .user v true => 34 :: (v ++ [34, 32])
  | .user v false => v ++ [32]

def render : List Tok → Bytes
  | [] => []
  | t :: ts => renderTok t ++ render ts

def printableTok : Tok → Bool
  | .fixed id => decide (id < 32)
  | .user v true => !v.contains 34
  | .user v false => !v.isEmpty && v.all (fun c => !isSpaceB c) && !(v.head? == some 34) && startOk v && sufOk v

/-- closed facts about the table: every fixed token, written without its trailing blank and followed by one blank,
    is recognised as itself, with its full length -/
theorem tbl_self : ∀ id, id < 32 →
    noBlank (stripBlank (tokText id)) = true ∧ stripBlank (tokText id) ≠ [] ∧
    getMatchingToken (stripBlank (tokText id) ++ [32]) = some (id, (tokText id).length) ∧
    (tokText id = stripBlank (tokText id) ∨ tokText id = stripBlank (tokText id) ++ [32]) := by decide

theorem gm_blank (rest : Bytes) : getMatchingToken (32 :: rest) = none := by
  have := gm_cut [] rest rfl
  simp only [List.nil_append] at this
  rw [this]; decide

theorem nextToken_blank (rest : Bytes) : nextToken (32 :: rest) = nextToken rest := by
  rw [nextToken, nextTokenWith]
  simp [gm_blank]

theorem Lexes_blank (rest : Bytes) (ts : List Tok) (h : Lexes rest ts) : Lexes (32 :: rest) ts := by
  cases h with
  | nil _ hn => exact Lexes.nil _ (by rw [nextToken_blank]; exact hn)
  | cons _ b' t ts' hn hl => exact Lexes.cons _ b' t ts' (by rw [nextToken_blank]; exact hn) hl

theorem nextToken_of_gm (s : Bytes) (hs : s ≠ []) (id n : Nat) (h : getMatchingToken s = some (id, n)) :
    nextToken s = some (.fixed id, s.drop n) := by
  cases s with
  | nil => exact absurd rfl hs
  | cons c r => rw [nextToken, nextTokenWith]; simp [h]

theorem allNoSpace_noBlank (v : Bytes) (h : v.all (fun c => !isSpaceB c) = true) : noBlank v = true := by
  induction v with
  | nil => rfl
  | cons c r ih =>
    simp only [List.all_cons, Bool.and_eq_true] at h
    simp only [noBlank, List.contains_cons, Bool.not_eq_true', Bool.or_eq_false_iff]
    refine ⟨?_, by simpa [noBlank] using ih h.2⟩
    have h1 := h.1
    simp only [isSpaceB, Bool.not_eq_true', Bool.or_eq_false_iff] at h1
    have hc : c ≠ 32 := by simpa using h1.1
    cases hb : (32 == c) with
    | false => rfl
    | true => exact absurd (beq_iff_eq.mp hb).symm hc

theorem scanUser_render (rest : Bytes) : ∀ (v : Bytes), v.all (fun c => !isSpaceB c) = true → sufOk v = true →
    scanUserWith getMatchingToken (v ++ 32 :: rest) = (v, 32 :: rest) := by
  intro v
  induction v with
  | nil => intro _ _; simp [scanUserWith, isSpaceB]
  | cons c r ih =>
    intro hall hsuf
    have hnb := allNoSpace_noBlank (c :: r) hall
    simp only [List.all_cons, Bool.and_eq_true] at hall
    simp only [sufOk, Bool.and_eq_true] at hsuf
    have hgm : getMatchingToken (c :: r ++ 32 :: rest) = getMatchingToken (c :: r ++ [32]) := gm_cut (c :: r) rest hnb
    have hcond : (isSpaceB c || (!isAlphaB c && (getMatchingToken (c :: (r ++ 32 :: rest))).isSome)) = false := by
      have h1 : isSpaceB c = false := by simpa using hall.1
      have hgm' : getMatchingToken (c :: (r ++ 32 :: rest)) = getMatchingToken (c :: r ++ [32]) := by simpa using hgm
      rw [h1, hgm']
      rcases (Bool.or_eq_true _ _).mp hsuf.1 with h2 | h2
      · simp [h2]
      · have hn : getMatchingToken (c :: r ++ [32]) = none := by
          cases hx : getMatchingToken (c :: r ++ [32]) with
          | none => rfl
          | some _ => rw [hx] at h2; simp at h2
        have hn' : getMatchingToken (c :: (r ++ [32])) = none := by simpa using hn
        simp [hn']
    simp only [List.cons_append, scanUserWith, hcond]
    rw [ih hall.2 hsuf.2]
    simp

theorem splitQuote_render (rest : Bytes) : ∀ (v : Bytes), v.contains 34 = false →
    splitQuote (v ++ 34 :: rest) = some (v, rest) := by
  intro v
  induction v with
  | nil => intro _; simp [splitQuote]
  | cons c r ih =>
    intro h
    simp only [List.contains_cons, Bool.or_eq_false_iff] at h
    have hc : c ≠ 34 := by
      intro e; subst e; simp at h
    simp only [List.cons_append, splitQuote, hc, if_false, ih h.2]

theorem ciPrefix_first_ne (a : UInt8) (ts : Bytes) (c : UInt8) (r : Bytes) (h : (lowerByte a == lowerByte c) = false) :
    ciPrefix (a :: ts) (c :: r) = false := by
  simp [ciPrefix, h]

/-- the first character of `t` differs (ignoring case) from `c`; for the table an empty entry is never tried -/
def firstNe (c : UInt8) : Bytes → Bool
  | [] => false
  | a :: _ => !(lowerByte a == lowerByte c)
def firstNeOrEmpty (c : UInt8) : Bytes → Bool
  | [] => true
  | a :: _ => !(lowerByte a == lowerByte c)

/-- no entry of the table and no synonym starts with `"` -/
theorem gm_quote (r : Bytes) : getMatchingToken (34 :: r) = none := by
  have hl : ∀ (tbl : List Bytes) (i : Nat), (∀ t ∈ tbl, firstNeOrEmpty 34 t = true) → lastMatch (34 :: r) tbl i = none := by
    intro tbl
    induction tbl with
    | nil => intro i _; rfl
    | cons t rest ih =>
      intro i h
      simp only [lastMatch, ih (i + 1) (fun x hx => h x (by simp [hx]))]
      cases t with
      | nil => simp
      | cons a ts =>
        have := h (a :: ts) (by simp)
        simp only [firstNeOrEmpty, Bool.not_eq_true'] at this
        simp [ciPrefix_first_ne a ts 34 r this]
  have hs : ∀ (syn : List (Bytes × Nat)), (∀ p ∈ syn, firstNe 34 p.1 = true) → firstSynonym (34 :: r) syn = none := by
    intro syn
    induction syn with
    | nil => intro _; rfl
    | cons p rest ih =>
      intro h
      obtain ⟨t, id⟩ := p
      simp only [firstSynonym, ih (fun x hx => h x (by simp [hx]))]
      cases t with
      | nil => have := h ([], id) (by simp); simp [firstNe] at this
      | cons a ts =>
        have := h (a :: ts, id) (by simp)
        simp only [firstNe, Bool.not_eq_true'] at this
        simp [ciPrefix_first_ne a ts 34 r this]
  unfold getMatchingToken
  rw [hl lexerTable 0 (by decide), hs lexerSynonyms (by decide)]

/-- rendered tokens lex back to themselves -/
theorem lexes_render : ∀ (ts : List Tok), (∀ t ∈ ts, printableTok t = true) → Lexes (render ts) ts := by
  intro ts
  induction ts with
  | nil => intro _; exact Lexes.nil [] (by simp [render, nextToken, nextTokenWith])
  | cons t ts ih =>
    intro h
    have ht := h t (by simp)
    have hrest := ih (fun x hx => h x (by simp [hx]))
    cases t with
    | fixed id =>
      simp only [printableTok, decide_eq_true_eq] at ht
      obtain ⟨hnb, hne, hgm, hform⟩ := tbl_self id ht
      simp only [render, renderTok, List.append_assoc, List.singleton_append]
      have hgm' : getMatchingToken (stripBlank (tokText id) ++ 32 :: render ts) = some (id, (tokText id).length) := by
        rw [gm_cut _ _ hnb]; exact hgm
      have hs : stripBlank (tokText id) ++ 32 :: render ts ≠ [] := by
        cases hw : stripBlank (tokText id) with
        | nil => exact absurd hw hne
        | cons a b => simp
      refine Lexes.cons _ _ _ _ (nextToken_of_gm _ hs id _ hgm') ?_
      generalize stripBlank (tokText id) = w at hform ⊢
      generalize tokText id = tt at hform ⊢
      rcases hform with hf | hf
      · subst hf
        rw [List.drop_left]
        exact Lexes_blank _ _ hrest
      · subst hf
        rw [show w ++ 32 :: render ts = (w ++ [32]) ++ render ts by simp, List.drop_left]
        exact hrest
    | user v q =>
      cases q with
      | true =>
        simp only [printableTok, Bool.not_eq_true'] at ht
        simp only [render, renderTok, List.cons_append, List.append_assoc, List.singleton_append]
        refine Lexes.cons _ (32 :: render ts) _ _ ?_ (Lexes_blank _ _ hrest)
        rw [nextToken, nextTokenWith]
        have := splitQuote_render (32 :: render ts) v ht
        simp [gm_quote, this]
      | false =>
        simp only [printableTok, Bool.and_eq_true, Bool.not_eq_true'] at ht
        obtain ⟨⟨⟨⟨hne, hall⟩, hq⟩, hstart⟩, hsuf⟩ := ht
        simp only [render, renderTok, List.append_assoc, List.singleton_append]
        refine Lexes.cons _ (32 :: render ts) _ _ ?_ (Lexes_blank _ _ hrest)
        have hnb := allNoSpace_noBlank v hall
        have hgm : getMatchingToken (v ++ 32 :: render ts) = none := by
          rw [gm_cut v _ hnb]
          simp only [startOk] at hstart
          cases hx : getMatchingToken (v ++ [32]) with
          | none => rfl
          | some _ => rw [hx] at hstart; simp at hstart
        have hscan := scanUser_render (render ts) v hall hsuf
        cases v with
        | nil => simp at hne
        | cons c r =>
          simp only [List.cons_append] at hgm hscan ⊢
          rw [nextToken, nextTokenWith]
          have hc34 : c ≠ 34 := by simpa using hq
          simp only [List.all_cons, Bool.and_eq_true] at hall
          have hsp : isSpaceB c = false := by simpa using hall.1
          have hws : ¬ (((c = 32 ∨ c = 9) ∨ c = 13) ∨ c = 10) := by
            intro hcase
            rcases hcase with ((rfl | rfl) | rfl) | rfl <;> simp [isSpaceB] at hsp
          simp [hgm, hc34, hscan, hws]

/-! ## fuel: the parser's own budget `6·(length+1)` covers the canonical spelling -/

mutual
theorem sizeA_le : ∀ (a : Ast), sizeA a ≤ 2 * (printT a).length
  | .leaf toks => by simp only [sizeA, printT, List.length_cons, List.length_append, List.length_nil]; omega
  | .not a => by
    have := sizeA_le a
    simp only [sizeA, printT, List.length_cons, List.length_append, List.length_nil]; omega
  | .conj op kids => by
    have := sizeKids_le op kids
    simp only [sizeA, printT, List.length_cons, List.length_append, List.length_nil]; omega
theorem sizeKids_le : ∀ (op : Nat) (ks : List Ast), sizeKids ks ≤ 2 * (printKids op ks).length + 2
  | _, [] => by simp [sizeKids]
  | op, k :: r => by
    have h1 := sizeA_le k
    have h2 := sizeKids_le op r
    cases r with
    | nil => simp only [sizeKids, printKids, List.length_append, List.length_nil] at *; omega
    | cons k2 r2 => simp only [sizeKids, printKids, List.length_append, List.length_cons] at *; omega
end

theorem renderTok_pos (t : Tok) : 1 ≤ (renderTok t).length := by
  cases t with
  | fixed id => simp [renderTok]
  | user v q => cases q <;> simp [renderTok]

theorem render_len : ∀ (ts : List Tok), ts.length ≤ (render ts).length := by
  intro ts
  induction ts with
  | nil => simp [render]
  | cons t r ih =>
    have := renderTok_pos t
    simp only [render, List.length_cons, List.length_append]; omega

/-- printing a tree canonically as characters and parsing the characters yields the tree's denotation -/
theorem parseExpr_render (a : Ast) (f : Filter) (hok : okAst a) (hpr : ∀ t ∈ printT a, printableTok t = true)
    (hd : denote a = some f) : parseExpr (render (printT a)) = .ok f := by
  unfold parseExpr parseLoop
  apply parse_of_lexes a f hok hd _ (lexes_render _ hpr)
  have h1 := sizeA_le a
  have h2 := render_len (printT a)
  omega

end Muscle.Filter
