import MuscleModel.Filter.ProofsParse

/-!
# Lemmas for C14, part 6: parsing the canonical (fully parenthesised) token spelling of an expression tree

`Ast` is the abstract syntax of the documented grammar: predicates (2–4 plain tokens), `!`, and the three n-ary
conjunctions.  `printT` spells a tree canonically as tokens — every term in its own parentheses —, `denote` is
the filter the grammar assigns to it, and `parse_printT` shows that the parser, run on the token list, returns exactly
that filter.  (The step from tokens to characters — lexing the rendered tokens back — is not part of this file.)
-/

set_option linter.unusedSimpArgs false
set_option linter.unusedVariables false

namespace Muscle.Filter
open Muscle Muscle.Wire Muscle.Gen

inductive Ast where
  | leaf (toks : List Tok)
  | not (a : Ast)
  | conj (op : Nat) (kids : List Ast)

/-- a token list as a token source -/
def unconsT : List Tok → Option (Tok × List Tok)
  | [] => none
  | t :: r => some (t, r)

/-- tokens that the loop of the parser simply collects -/
def plainTok : Tok → Bool
  | .user _ _ => true
  | .fixed id => !(id = ltNot || id = ltLparen || id = ltRparen || id = ltAnd || id = ltOr || id = ltXor)

mutual
def printT : Ast → List Tok
  | .leaf toks => .fixed ltLparen :: (toks ++ [.fixed ltRparen])
  | .not a => .fixed ltLparen :: .fixed ltNot :: (printT a ++ [.fixed ltRparen])
  | .conj op kids => .fixed ltLparen :: (printKids op kids ++ [.fixed ltRparen])
def printKids (op : Nat) : List Ast → List Tok
  | [] => []
  | k :: r => printT k ++ (match r with | [] => [] | _ :: _ => .fixed op :: printKids op r)
end

mutual
def denote : Ast → Option Filter
  | .leaf toks => match leafOf toks with | .ok f => some f | _ => none
  | .not a => match denote a with | some f => some (negF f) | none => none
  | .conj op kids => match denoteKids kids with | some fs => some (mkConj op fs) | none => none
def denoteKids : List Ast → Option (List Filter)
  | [] => some []
  | k :: r => match denote k, denoteKids r with
    | some f, some fs => some (f :: fs)
    | _, _ => none
end

mutual
def okAst : Ast → Prop
  | .leaf toks => toks.length ≤ 4 ∧ toks ≠ [] ∧ (∀ t ∈ toks, plainTok t = true)
  | .not a => okAst a
  | .conj op kids => (op = ltAnd ∨ op = ltOr ∨ op = ltXor) ∧ 2 ≤ kids.length ∧ okKids kids
def okKids : List Ast → Prop
  | [] => True
  | k :: r => okAst k ∧ okKids r
end

mutual
def sizeA : Ast → Nat
  | .leaf toks => toks.length + 2
  | .not a => sizeA a + 3
  | .conj _ kids => sizeKids kids + 2
def sizeKids : List Ast → Nat
  | [] => 0
  | k :: r => sizeA k + 1 + sizeKids r
end

abbrev PL := parseLoopWith unconsT

/-! ## single steps -/

theorem step_plain (fuel : Nat) (st : PState) (t : Tok) (r : List Tok) (ht : plainTok t = true)
    (hc : st.conj = none) (hs : st.sub = none) (hl : st.toks.length + 1 ≤ 4) :
    PL (fuel + 1) st (t :: r) = PL fuel { st with toks := st.toks ++ [t] } r := by
  have hl' : ¬ (st.toks.length + 1 > 4) := by omega
  cases t with
  | user v q => rw [PL, parseLoopWith]; simp [unconsT, hc, hs, hl']
  | fixed id =>
    simp only [plainTok, Bool.not_eq_true', Bool.or_eq_false_iff, decide_eq_false_iff_not] at ht
    obtain ⟨⟨⟨⟨⟨h1, h2⟩, h3⟩, h4⟩, h5⟩, h6⟩ := ht
    rw [PL, parseLoopWith]; simp [unconsT, hc, hs, hl', h1, h2, h3, h4, h5, h6]

theorem steps_plain : ∀ (toks : List Tok) (fuel : Nat) (st : PState) (r : List Tok), (∀ t ∈ toks, plainTok t = true) →
    st.conj = none → st.sub = none → st.toks.length + toks.length ≤ 4 →
    PL (fuel + toks.length) st (toks ++ r) = PL fuel { st with toks := st.toks ++ toks } r := by
  intro toks
  induction toks with
  | nil => intro fuel st r _ _ _ _; simp
  | cons t ts ih =>
    intro fuel st r hp hc hs hl
    simp only [List.length_cons] at hl ⊢
    have h1 := step_plain (fuel + ts.length) st t (ts ++ r) (hp t (by simp)) hc hs (by omega)
    rw [show fuel + (ts.length + 1) = fuel + ts.length + 1 by omega, List.cons_append, h1]
    have h2 := ih fuel { st with toks := st.toks ++ [t] } r (fun x hx => hp x (by simp [hx])) hc hs
      (by simp only [List.length_append, List.length_cons, List.length_nil]; omega)
    rw [h2]
    simp

theorem step_rparen (fuel : Nat) (st : PState) (r : List Tok)
    (h : st.sub ≠ none ∨ st.conj ≠ none ∨ st.toks ≠ []) :
    PL (fuel + 1) st (.fixed ltRparen :: r) = (finish st, r) := by
  rw [PL, parseLoopWith]
  simp [unconsT, ltRparen, ltNot, ltLparen]
  intro a b c
  rcases h with h | h | h <;> contradiction

theorem step_not (fuel : Nat) (st : PState) (r : List Tok) (hs : st.sub = none) (ht : st.toks = []) :
    PL (fuel + 1) st (.fixed ltNot :: r) = PL fuel { st with neg := !st.neg } r := by
  rw [PL, parseLoopWith]; simp [unconsT, hs, ht]

theorem step_lparen (fuel : Nat) (st : PState) (r r2 : List Tok) (f : Filter) (hs : st.sub = none) (ht : st.toks = [])
    (hin : PL fuel {} r = (.ok f, r2)) :
    PL (fuel + 1) st (.fixed ltLparen :: r) = PL fuel { st with sub := some f } r2 := by
  rw [PL, parseLoopWith]
  simp only [unconsT, ltLparen, ltNot]
  simp only [PL] at hin
  simp [hs, ht, hin]

theorem step_conj_first (fuel : Nat) (st : PState) (op : Nat) (hop : op = ltAnd ∨ op = ltOr ∨ op = ltXor) (r : List Tok) (f : Filter)
    (hs : st.sub = some f) (hc : st.conj = none) :
    PL (fuel + 1) st (.fixed op :: r) = PL fuel { st with conj := some (op, [maybeNegate st.neg f]), neg := false, sub := none } r := by
  rw [PL, parseLoopWith]
  rcases hop with h | h | h <;> subst h <;> simp [unconsT, ltAnd, ltOr, ltXor, ltNot, ltLparen, ltRparen, hs, hc]

theorem step_conj_next (fuel : Nat) (st : PState) (op : Nat) (hop : op = ltAnd ∨ op = ltOr ∨ op = ltXor) (r : List Tok) (f : Filter)
    (acc : List Filter) (hs : st.sub = some f) (hc : st.conj = some (op, acc)) :
    PL (fuel + 1) st (.fixed op :: r) =
      PL fuel { st with conj := some (op, acc ++ [maybeNegate st.neg f]), neg := false, sub := none } r := by
  rw [PL, parseLoopWith]
  rcases hop with h | h | h <;> subst h <;> simp [unconsT, ltAnd, ltOr, ltXor, ltNot, ltLparen, ltRparen, hs, hc]

/-! ## the canonical spelling parses to its denotation -/

theorem sizeA_ge (a : Ast) : 2 ≤ sizeA a := by
  cases a <;> simp only [sizeA] <;> omega

mutual
theorem parse_ast : ∀ (a : Ast) (f : Filter), okAst a → denote a = some f → ∀ (fuel : Nat), sizeA a ≤ fuel →
    ∀ (st : PState) (rest : List Tok), st.sub = none → st.toks = [] →
    PL (fuel + 1) st (printT a ++ rest) = PL fuel { st with sub := some f } rest
  | .leaf toks, f, hok, hd, fuel, hf, st, rest, hs, ht => by
    simp only [okAst] at hok
    obtain ⟨hlen, hne, hplain⟩ := hok
    simp only [sizeA] at hf
    simp only [denote] at hd
    have hleaf : leafOf toks = .ok f := by
      split at hd
      · rename_i g hg; cases hd; exact hg
      · cases hd
    simp only [printT, List.cons_append, List.append_assoc, List.singleton_append, List.nil_append]
    apply step_lparen fuel st _ rest f hs ht
    obtain ⟨k, hk⟩ : ∃ k, fuel = k + 1 + toks.length := ⟨fuel - 1 - toks.length, by omega⟩
    subst hk
    have h1 := steps_plain toks (k + 1) {} (.fixed ltRparen :: rest) hplain rfl rfl (by simpa using hlen)
    rw [h1]
    have h2 := step_rparen k { ({} : PState) with toks := ({} : PState).toks ++ toks } rest
      (Or.inr (Or.inr (by simpa using hne)))
    rw [h2]
    simp [finish, hleaf, maybeNegate]
  | .not a, f, hok, hd, fuel, hf, st, rest, hs, ht => by
    simp only [okAst] at hok
    simp only [sizeA] at hf
    simp only [denote] at hd
    cases hda : denote a with
    | none => rw [hda] at hd; cases hd
    | some fa =>
      rw [hda] at hd
      simp only [Option.some.injEq] at hd
      subst hd
      simp only [printT, List.cons_append, List.append_assoc, List.singleton_append, List.nil_append]
      apply step_lparen fuel st _ rest (negF fa) hs ht
      obtain ⟨k, hk⟩ : ∃ k, fuel = k + 3 := ⟨fuel - 3, by omega⟩
      subst hk
      rw [step_not (k + 2) {} _ rfl rfl]
      rw [parse_ast a fa hok hda (k + 1) (by omega) _ _ rfl rfl]
      rw [step_rparen k _ rest (Or.inl (by simp))]
      simp [finish, maybeNegate]
  | .conj op kids, f, hok, hd, fuel, hf, st, rest, hs, ht => by
    simp only [okAst] at hok
    obtain ⟨hop, hlen, hkids⟩ := hok
    simp only [sizeA] at hf
    simp only [denote] at hd
    cases hdk : denoteKids kids with
    | none => rw [hdk] at hd; cases hd
    | some fs =>
      rw [hdk] at hd
      simp only [Option.some.injEq] at hd
      subst hd
      match kids, hlen, hkids, hdk, hf with
      | k1 :: k2 :: r, _, hkids, hdk, hf =>
        simp only [okKids] at hkids
        obtain ⟨hk1, hk2r⟩ := hkids
        simp only [sizeKids] at hf
        simp only [denoteKids] at hdk
        cases hd1 : denote k1 with
        | none => rw [hd1] at hdk; simp at hdk
        | some f1 =>
          cases hd2 : denoteKids (k2 :: r) with
          | none =>
            simp only [denoteKids] at hd2
            rw [hd1] at hdk; simp only [hd2] at hdk; cases hdk
          | some fs2 =>
            have hfs : fs = f1 :: fs2 := by
              simp only [denoteKids] at hd2
              rw [hd1] at hdk; simp only [hd2] at hdk
              simp only [Option.some.injEq] at hdk; exact hdk.symm
            subst hfs
            simp only [printT, printKids, List.cons_append, List.append_assoc, List.singleton_append, List.nil_append]
            apply step_lparen fuel st _ rest (mkConj op (f1 :: fs2)) hs ht
            have := sizeA_ge k1
            obtain ⟨m, hm⟩ : ∃ m, fuel = m + 2 := ⟨fuel - 2, by omega⟩
            subst hm
            rw [parse_ast k1 f1 hk1 hd1 (m + 1) (by omega) {} _ rfl rfl]
            rw [step_conj_first m _ op hop _ f1 rfl rfl]
            have h3 := parse_kids (k2 :: r) fs2 (by simp) hk2r hd2 op hop m (by simp only [sizeKids]; omega) [f1]
              { ({ ({} : PState) with sub := some f1 } : PState) with conj := some (op, [maybeNegate false f1]), neg := false, sub := none }
              rest (by simp [maybeNegate]) rfl rfl rfl
            simp only [printKids, List.append_assoc, List.nil_append, List.singleton_append, List.cons_append] at h3 ⊢
            exact h3
theorem parse_kids : ∀ (kids : List Ast) (fs : List Filter), kids ≠ [] → okKids kids → denoteKids kids = some fs →
    ∀ (op : Nat), (op = ltAnd ∨ op = ltOr ∨ op = ltXor) → ∀ (fuel : Nat), sizeKids kids ≤ fuel →
    ∀ (acc : List Filter) (st : PState) (rest : List Tok), st.conj = some (op, acc) → st.sub = none → st.toks = [] → st.neg = false →
    PL fuel st (printKids op kids ++ (.fixed ltRparen :: rest)) = (.ok (mkConj op (acc ++ fs)), rest)
  | [], _, hne, _, _, _, _, _, _, _, _, _, _, _, _, _ => absurd rfl hne
  | k :: r, fs, _, hok, hd, op, hop, fuel, hf, acc, st, rest, hc, hs, ht, hn => by
    simp only [okKids] at hok
    obtain ⟨hk, hr⟩ := hok
    simp only [sizeKids] at hf
    simp only [denoteKids] at hd
    cases hd1 : denote k with
    | none => rw [hd1] at hd; simp at hd
    | some fk =>
      cases hd2 : denoteKids r with
      | none => rw [hd1, hd2] at hd; cases hd
      | some fr =>
        rw [hd1, hd2] at hd
        simp only [Option.some.injEq] at hd
        subst hd
        have := sizeA_ge k
        obtain ⟨m, hm⟩ : ∃ m, fuel = m + 2 := ⟨fuel - 2, by omega⟩
        subst hm
        simp only [printKids, List.append_assoc]
        rw [parse_ast k fk hk hd1 (m + 1) (by omega) st _ hs ht]
        cases r with
        | nil =>
          simp only [denoteKids, Option.some.injEq] at hd2
          subst hd2
          simp only [List.nil_append]
          rw [step_rparen m _ rest (Or.inl (by simp))]
          simp [finish, hc, hn, maybeNegate]
        | cons k2 r2 =>
          simp only [List.cons_append]
          rw [step_conj_next m _ op hop _ fk acc rfl (by simpa using hc)]
          have h3 := parse_kids (k2 :: r2) fr (by simp) hr hd2 op hop m (by omega) (acc ++ [fk])
            { ({ st with sub := some fk } : PState) with conj := some (op, acc ++ [maybeNegate st.neg fk]), neg := false, sub := none }
            rest (by simp [hn, maybeNegate]) rfl (by simpa using ht) rfl
          rw [h3]
          simp
end

/-- the whole token list of a canonical spelling parses to the denotation -/
theorem parse_printT (a : Ast) (f : Filter) (hok : okAst a) (hd : denote a = some f) (fuel : Nat) (hf : sizeA a + 2 ≤ fuel) :
    (PL fuel {} (printT a)).1 = .ok f := by
  obtain ⟨k, hk⟩ : ∃ k, fuel = k + 1 + 1 := ⟨fuel - 2, by omega⟩
  subst hk
  have h := parse_ast a f hok hd (k + 1) (by omega) {} [] rfl rfl
  simp only [List.append_nil] at h
  rw [h, PL, parseLoopWith]
  simp [unconsT, finish, maybeNegate]

/-! ## from tokens to characters: the parser sees a character string only through the tokens it lexes to -/

/-- `Lexes b ts`: repeated `Lexer::GetNextToken` on `b` yields exactly the tokens `ts`, then an error/end -/
inductive Lexes : Bytes → List Tok → Prop
  | nil (b : Bytes) : nextToken b = none → Lexes b []
  | cons (b b' : Bytes) (t : Tok) (ts : List Tok) : nextToken b = some (t, b') → Lexes b' ts → Lexes b (t :: ts)

/-- results agree and the inputs left over still correspond -/
def SimRes (p : PRes × Bytes) (q : PRes × List Tok) : Prop := p.1 = q.1 ∧ Lexes p.2 q.2

theorem parse_sim : ∀ (fuel : Nat) (st : PState) (b : Bytes) (ts : List Tok), Lexes b ts →
    SimRes (parseLoopWith nextToken fuel st b) (PL fuel st ts) := by
  intro fuel
  induction fuel with
  | zero => intro st b ts h; simp only [PL, parseLoopWith, SimRes]; exact ⟨trivial, h⟩
  | succ fuel ih =>
    intro st b ts h
    cases h with
    | nil _ hn =>
      rw [PL, parseLoopWith, parseLoopWith]
      simp only [hn, unconsT, SimRes]
      exact ⟨trivial, Lexes.nil b hn⟩
    | cons _ b' t ts' hn hl =>
      rw [PL, parseLoopWith, parseLoopWith]
      simp only [hn, unconsT]
      have hplain : SimRes
          (if st.conj.isSome || st.sub.isSome then (PRes.err, b') else if st.toks.length + 1 > 4 then (PRes.err, b')
            else parseLoopWith nextToken fuel { st with toks := st.toks ++ [t] } b')
          (if st.conj.isSome || st.sub.isSome then (PRes.err, ts') else if st.toks.length + 1 > 4 then (PRes.err, ts')
            else parseLoopWith unconsT fuel { st with toks := st.toks ++ [t] } ts') := by
        split
        · exact ⟨rfl, hl⟩
        · split
          · exact ⟨rfl, hl⟩
          · exact ih _ _ _ hl
      cases t with
      | user v q => exact hplain
      | fixed id =>
        simp only
        by_cases h1 : id = ltNot
        · simp only [h1, if_true]
          split
          · exact ⟨rfl, hl⟩
          · exact ih _ _ _ hl
        · simp only [h1, if_false]
          by_cases h2 : id = ltLparen
          · simp only [h2, if_true]
            split
            · exact ⟨rfl, hl⟩
            · have hin := ih {} b' ts' hl
              obtain ⟨he, hle⟩ := hin
              cases hp1 : parseLoopWith nextToken fuel {} b' with
              | mk r1 b1 =>
                cases hp2 : parseLoopWith unconsT fuel {} ts' with
                | mk r2 t2 =>
                  simp only [PL, hp1, hp2] at he hle
                  subst he
                  cases r1 with
                  | ok f => exact ih _ _ _ hle
                  | err => exact ⟨rfl, hle⟩
                  | unk => exact ⟨rfl, hle⟩
          · simp only [h2, if_false]
            by_cases h3 : id = ltRparen
            · simp only [h3, if_true]
              split
              · exact ⟨rfl, hl⟩
              · exact ⟨rfl, hl⟩
            · simp only [h3, if_false]
              by_cases h4 : (id = ltAnd || id = ltOr || id = ltXor) = true
              · simp only [h4, if_true]
                split
                · exact ⟨rfl, hl⟩
                · split
                  · split
                    · exact ⟨rfl, hl⟩
                    · exact ih _ _ _ hl
                  · exact ih _ _ _ hl
              · simp only [h4, if_false]
                exact hplain

/-- a character string that lexes to the canonical token spelling of a tree parses to the tree's denotation -/
theorem parse_of_lexes (a : Ast) (f : Filter) (hok : okAst a) (hd : denote a = some f) (b : Bytes) (hl : Lexes b (printT a))
    (fuel : Nat) (hf : sizeA a + 2 ≤ fuel) : (parseLoopWith nextToken fuel {} b).1 = .ok f := by
  have h := parse_sim fuel {} b (printT a) hl
  rw [h.1]
  exact parse_printT a f hok hd fuel hf

end Muscle.Filter
