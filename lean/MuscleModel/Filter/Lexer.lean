import MuscleModel.Filter.Eval
import MuscleModel.Generated.LexerKernels

/-!
# The expression lexer (`regex/QueryFilter.cpp`: `GetMatchingToken`, `Lexer::GetNextToken`)

The fixed-token table, the LTOKEN_* numbering and the synonym list are regenerated from the source
text (`Generated/LexerKernels.lean`).  An expression is a NUL-free byte string (a C string).
-/

namespace Muscle.Filter
open Muscle Muscle.Gen

/-- `Strncasecmp(s, tok, strlen(tok)) == 0`: `s` starts with `tok`, ignoring ASCII case -/
def ciPrefix : Bytes → Bytes → Bool
  | [], _ => true
  | _ :: _, [] => false
  | t :: ts, c :: cs => lowerByte t == lowerByte c && ciPrefix ts cs

/-- the `for (i = ARRAYITEMS(_tokStrs)-1; i >= 0; i--)` scan: the match with the LARGEST index wins
    (`!=` is found before `!`, `(int64)` before `(`, `<=` before `<`); `i` = index of the head of `tbl` -/
def lastMatch (s : Bytes) : List Bytes → Nat → Option (Nat × Nat)
  | [], _ => none
  | t :: rest, i =>
    match lastMatch s rest (i + 1) with
    | some r => some r
    | none => if !t.isEmpty && ciPrefix t s then some (i, t.length) else none

def firstSynonym (s : Bytes) : List (Bytes × Nat) → Option (Nat × Nat)
  | [] => none
  | (t, id) :: rest => if ciPrefix t s then some (id, t.length) else firstSynonym s rest

/-- `GetMatchingToken(s, retNumCharsConsumed)`: (LTOKEN id, characters consumed) -/
def getMatchingToken (s : Bytes) : Option (Nat × Nat) :=
  match lastMatch s lexerTable 0 with
  | some r => some r
  | none => firstSynonym s lexerSynonyms

/-- `LexerToken`: a fixed token, or LTOKEN_USERSTRING with its text and the was-quoted flag -/
inductive Tok where
  | fixed (id : Nat)
  | user (s : Bytes) (quoted : Bool)
  deriving Repr, DecidableEq

/-- `muscleIsSpace` = `isspace` in the "C" locale -/
def isSpaceB (c : UInt8) : Bool := c == 32 || (9 ≤ c && c ≤ 13)

/-- `muscleIsAlpha` = `isalpha` in the "C" locale -/
def isAlphaB (c : UInt8) : Bool := (65 ≤ c && c ≤ 90) || (97 ≤ c && c ≤ 122)

/-- the `default:` branch: "parse until the first known token or whitespace"; (text, rest).  Inside a user string a
    token or synonym ends the string only where `muscleIsAlpha(*t) == 0`: a keyword that starts with a letter cannot
    begin in the middle of a word (`eyecolor ` is not split at `or `); punctuation tokens and casts still end it. -/
def scanUserWith (gm : Bytes → Option (Nat × Nat)) : Bytes → Bytes × Bytes
  | [] => ([], [])
  | c :: r =>
    if isSpaceB c || (!isAlphaB c && (gm (c :: r)).isSome) then ([], c :: r)
    else ((c :: (scanUserWith gm r).1), (scanUserWith gm r).2)
def scanUser : Bytes → Bytes × Bytes := scanUserWith getMatchingToken

/-- `strchr(s, '"')`: text up to the closing quote and what follows it -/
def splitQuote : Bytes → Option (Bytes × Bytes)
  | [] => none
  | c :: r => if c = 34 then some ([], r) else
    match splitQuote r with
    | some (a, b) => some (c :: a, b)
    | none => none

/-- `Lexer::GetNextToken`: `none` = an error status (end of input, or no closing quote).  Only blank,
    TAB, CR and LF are skipped between tokens; a vertical tab or form feed ends a user string
    (`muscleIsSpace`) but is not skipped, so at such a byte the lexer returns an EMPTY user string and
    does not advance. -/
def nextTokenWith (gm : Bytes → Option (Nat × Nat)) : Bytes → Option (Tok × Bytes)
  | [] => none
  | c :: r =>
    match gm (c :: r) with
    | some (id, n) => some (.fixed id, (c :: r).drop n)
    | none =>
      if c = 34 then
        match splitQuote r with
        | some (v, rest) => some (.user v true, rest)
        | none => none
      else if c = 32 || c = 9 || c = 13 || c = 10 then nextTokenWith gm r
      else some (.user (scanUserWith gm (c :: r)).1 false, (scanUserWith gm (c :: r)).2)

/-- the lexer over the extracted token table (the matcher is a parameter of `nextTokenWith` only so that lemmas about
    the control flow do not have to unfold the table) -/
def nextToken : Bytes → Option (Tok × Bytes) := nextTokenWith getMatchingToken

end Muscle.Filter
