import MuscleModel.Filter.Parser

/-!
# Lemmas for C14, part 4: the lexer — table-order matching, progress
-/

set_option linter.unusedSimpArgs false
set_option linter.unusedVariables false

namespace Muscle.Filter
open Muscle Muscle.Gen

theorem lastMatch_pos (s : Bytes) : ∀ (tbl : List Bytes) (i id n : Nat), lastMatch s tbl i = some (id, n) → 1 ≤ n := by
  intro tbl
  induction tbl with
  | nil => intro i id n h; simp [lastMatch] at h
  | cons t rest ih =>
    intro i id n h
    unfold lastMatch at h
    split at h
    · rename_i r hr; cases h; exact ih _ _ _ hr
    · split at h
      · rename_i hc
        cases h
        cases t with
        | nil => simp at hc
        | cons a b => simp
      · cases h

theorem firstSynonym_pos (s : Bytes) : ∀ (syn : List (Bytes × Nat)) (id n : Nat), (∀ p ∈ syn, p.1 ≠ []) →
    firstSynonym s syn = some (id, n) → 1 ≤ n := by
  intro syn
  induction syn with
  | nil => intro id n _ h; simp [firstSynonym] at h
  | cons p rest ih =>
    intro id n hne h
    obtain ⟨t, tid⟩ := p
    unfold firstSynonym at h
    split at h
    · have hn := hne (t, tid) (List.Mem.head _)
      simp only [Option.some.injEq, Prod.mk.injEq] at h
      obtain ⟨_, h2⟩ := h
      subst h2
      cases t with
      | nil => simp at hn
      | cons a b => simp
    · exact ih id n (fun q hq => hne q (by simp [hq])) h

/-- a fixed token or synonym always consumes at least one character -/
theorem getMatchingToken_pos (s : Bytes) (id n : Nat) (h : getMatchingToken s = some (id, n)) : 1 ≤ n := by
  unfold getMatchingToken at h
  split at h
  · rename_i r hr; cases h; exact lastMatch_pos s _ _ _ _ hr
  · exact firstSynonym_pos s lexerSynonyms id n (by decide) h

variable (gm : Bytes → Option (Nat × Nat))

theorem scanUser_le : ∀ (s : Bytes), (scanUserWith gm s).2.length ≤ s.length := by
  intro s
  induction s with
  | nil => simp [scanUserWith]
  | cons c r ih =>
    unfold scanUserWith
    split
    · simp
    · simp only [List.length_cons]; omega

theorem scanUser_lt_or_empty (s : Bytes) : (scanUserWith gm s).2.length < s.length ∨ (scanUserWith gm s).1 = [] := by
  cases s with
  | nil => right; simp [scanUserWith]
  | cons c r =>
    unfold scanUserWith
    split
    · right; rfl
    · left; have := scanUser_le gm r; simp only [List.length_cons]; omega

theorem splitQuote_lt : ∀ (s a b : Bytes), splitQuote s = some (a, b) → b.length < s.length := by
  intro s
  induction s with
  | nil => intro a b h; simp [splitQuote] at h
  | cons c r ih =>
    intro a b h
    unfold splitQuote at h
    split at h
    · cases h; simp
    · split at h
      · rename_i a' b' hq; cases h; have := ih _ _ hq; simp only [List.length_cons]; omega
      · cases h

theorem nextTokenWith_progress (hgm : ∀ s id n, gm s = some (id, n) → 1 ≤ n) :
    ∀ (s : Bytes) (t : Tok) (r : Bytes), nextTokenWith gm s = some (t, r) →
    r.length < s.length ∨ (r.length ≤ s.length ∧ t = .user [] false) := by
  intro s
  induction s with
  | nil => intro t r h; simp [nextTokenWith] at h
  | cons c rest ih =>
    intro t r h
    unfold nextTokenWith at h
    split at h
    · rename_i id n hm
      simp only [Option.some.injEq, Prod.mk.injEq] at h
      obtain ⟨ht, hr⟩ := h
      subst ht; subst hr
      have := hgm _ _ _ hm
      left; simp only [List.length_drop, List.length_cons]; omega
    · split at h
      · split at h
        · rename_i v r' hq
          simp only [Option.some.injEq, Prod.mk.injEq] at h
          obtain ⟨ht, hr⟩ := h
          subst ht; subst hr
          have := splitQuote_lt _ _ _ hq; left; simp only [List.length_cons]; omega
        · simp at h
      · split at h
        · rcases ih t r h with h1 | ⟨h1, h2⟩
          · left; simp only [List.length_cons]; omega
          · left; simp only [List.length_cons]; omega
        · simp only [Option.some.injEq, Prod.mk.injEq] at h
          obtain ⟨ht, hr⟩ := h
          subst ht; subst hr
          rcases scanUser_lt_or_empty gm (c :: rest) with h1 | h1
          · left; exact h1
          · right; exact ⟨scanUser_le gm _, by rw [h1]⟩

/-- Progress of `Lexer::GetNextToken`: a token never gives input back, and it consumes at least one character unless it
    is an EMPTY unquoted user string (which happens exactly in front of a vertical tab / form feed: see `nextTokenWith`). -/
theorem nextToken_progress (s : Bytes) (t : Tok) (r : Bytes) (h : nextToken s = some (t, r)) :
    r.length < s.length ∨ (r.length ≤ s.length ∧ t = .user [] false) :=
  nextTokenWith_progress getMatchingToken getMatchingToken_pos s t r h

end Muscle.Filter
