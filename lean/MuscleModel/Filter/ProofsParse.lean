import MuscleModel.Filter.Parser
import MuscleModel.Filter.Proofs3

/-!
# Lemmas for C14, part 5: the parser — every filter it builds is well-formed (`wf`)
-/

set_option linter.unusedSimpArgs false
set_option linter.unusedVariables false

namespace Muscle.Filter
open Muscle Muscle.Wire Muscle.Gen

/-! ## operands -/

theorem foldr_leN4_len : ∀ (vals : List (Option Nat)),
    (vals.foldr (fun v acc => leN 4 (v.getD 0) ++ acc) []).length = 4 * vals.length := by
  intro vals
  induction vals with
  | nil => rfl
  | cons v r ih => simp only [List.foldr_cons, List.length_append, leN_length, ih, List.length_cons]; omega

theorem floatsVal_len (n : Nat) (s b : Bytes) (h : floatsVal n s = .bytes b) : b.length = 4 * n := by
  unfold floatsVal at h
  simp only at h
  split at h
  · cases h
    rw [foldr_leN4_len]
    simp only [List.length_append, List.length_map, List.length_replicate, List.length_take]
    omega
  · cases h

theorem valueAs_len (ty : NumTy) (s b : Bytes) (h : valueAs ty s = .bytes b) : b.length = ty.size := by
  cases ty <;> simp only [valueAs] at h
  · cases h; rfl
  · split at h <;> cases h; simp [NumTy.size]
  · split at h <;> cases h; simp [NumTy.size]
  · cases h; simp [NumTy.size]
  · cases h; simp [NumTy.size]
  · cases h; simp [NumTy.size]
  · cases h; simp [NumTy.size]
  · have := floatsVal_len 2 s b h; simpa [NumTy.size] using this
  · have := floatsVal_len 4 s b h; simpa [NumTy.size] using this

theorem numOpOfTok_lt (t : Tok) (op : Nat) (h : numOpOfTok t = some op) : op < 256 := by
  cases t with
  | user _ _ => simp [numOpOfTok] at h
  | fixed id =>
    revert h
    simp only [numOpOfTok]
    repeat' split
    all_goals (intro h; first | (cases h; decide) | cases h)

theorem lookup_mem_snd : ∀ (tbl : List (Nat × Nat)) (k v : Nat), tbl.lookup k = some v → v ∈ tbl.map Prod.snd := by
  intro tbl
  induction tbl with
  | nil => intro k v h; simp [List.lookup] at h
  | cons p r ih =>
    intro k v h
    obtain ⟨a, b⟩ := p
    simp only [List.lookup] at h
    split at h
    · cases h; simp
    · simp only [List.map_cons, List.mem_cons]; right; exact ih k v h

theorem strOpOfTok_lt (t : Tok) (op : Nat) (h : strOpOfTok t = some op) : op < 256 := by
  cases t with
  | user _ _ => simp [strOpOfTok] at h
  | fixed id =>
    have hm := lookup_mem_snd strOpTable id op h
    have hall : ∀ v ∈ strOpTable.map Prod.snd, v < 256 := by decide
    exact hall op hm

theorem castType_lt (t : Tok) (c : Nat) (h : castType t = some c) : c < U32 := by
  cases t with
  | user _ _ => simp [castType] at h
  | fixed id =>
    revert h
    simp only [castType]
    repeat' split
    all_goals (intro h; first | (cases h; decide) | cases h)

theorem numTyOfTc_lt (tc : Nat) (ty : NumTy) (h : numTyOfTc tc = some ty) : tc < U32 := by
  revert h
  simp only [numTyOfTc]
  repeat' split
  all_goals (intro h; first | (subst_vars; decide) | cases h)

theorem valueStringType_lt (t : Tok) (cast : Option Nat) (hc : ∀ c, cast = some c → c < U32) (vt : Nat)
    (h : valueStringType t cast = some vt) : vt < U32 := by
  cases t with
  | fixed _ => simp [valueStringType] at h
  | user v q =>
    revert h
    simp only [valueStringType]
    repeat' split
    all_goals (intro h; first | (cases h; decide) | (cases h; done) | (cases h; exact hc _ rfl))

theorem fieldIdx_lt (q : Bool) (v nm : Bytes) (idx : Nat) (h : fieldIdx q v = some (nm, idx)) : idx < U32 := by
  revert h
  simp only [fieldIdx]
  repeat' split
  all_goals (intro h; first | (cases h; done) | (simp only [Option.some.injEq, Prod.mk.injEq] at h; obtain ⟨_, rfl⟩ := h; simp only [U32]; omega))

theorem parseFieldName_lt (t : Tok) (w : Bool) (nm : Bytes) (idx : Nat) (d : Option Bytes)
    (h : parseFieldName t w = some (nm, idx, d)) : idx < U32 := by
  cases t with
  | fixed _ => simp [parseFieldName] at h
  | user v q =>
    revert h
    simp only [parseFieldName]
    repeat' split
    all_goals (intro h; first | (cases h; done) | (simp only [Option.some.injEq, Prod.mk.injEq] at h; obtain ⟨_, rfl, _⟩ := h; exact fieldIdx_lt _ _ _ _ ‹_›))

/-! ## leaves -/

def resWf : PRes → Prop
  | .ok f => wf f
  | _ => True

theorem wf_negF (f : Filter) (h : wf f) : wf (negF f) := by
  simp only [negF, wf, wfKids, U32]; exact ⟨by omega, h, trivial⟩

theorem wf_maybeNegate (b : Bool) (f : Filter) (h : wf f) : wf (maybeNegate b f) := by
  cases b
  · simpa [maybeNegate] using h
  · simpa [maybeNegate] using wf_negF f h

theorem createSub_wf (fieldTok : Tok) (idx : Nat) (opTok valTok : Tok) (vt : Nat) (d : Option Bytes)
    (hidx : idx < U32) (hvt : vt < U32) : resWf (createSub fieldTok idx opTok valTok vt d) := by
  unfold createSub
  split
  · simp only [resWf, wf]; exact ⟨hidx, hvt⟩
  · cases fieldTok with
    | fixed id =>
      have hv : atoull valTok.text % 4294967296 < 4294967296 := Nat.mod_lt _ (by decide)
      simp only
      repeat' split
      all_goals first
        | trivial
        | (simp only [resWf, wf, U32, muscleNoLimit] at *; omega)
        | (apply wf_negF; simp only [wf, U32]; omega)
    | user fn q =>
      simp only
      split
      · split
        · trivial
        · rename_i op hop
          simp only [resWf, wf]; exact ⟨hidx, strOpOfTok_lt _ _ hop⟩
      · split
        · trivial
        · rename_i ty hty
          split
          · trivial
          · rename_i op hop
            have hop' := numOpOfTok_lt _ _ hop
            split
            · rename_i v hv _
              simp only [resWf, wf, mopNone]
              exact ⟨hidx, hop', by decide, valueAs_len _ _ _ hv, dflt_len ty⟩
            · rename_i v dd hv _
              simp only [resWf, wf, mopNone]
              exact ⟨hidx, hop', by decide, valueAs_len _ _ _ hv, dflt_len ty⟩
            · trivial

theorem castOf_lt (toks : List Tok) (c : Nat) (h : castOf toks = some c) : c < U32 := by
  unfold castOf at h
  split at h
  · exact castType_lt _ _ h
  · cases h

theorem leafCore_wf (cast : Option Nat) (hc : ∀ c, cast = some c → c < U32) (toks : List Tok) : resWf (leafCore cast toks) := by
  unfold leafCore
  split
  · trivial
  · split
    · split
      · trivial
      · split
        · trivial
        · rename_i nm idx d hp
          simp only [resWf, wf]
          refine ⟨parseFieldName_lt _ _ _ _ _ hp, ?_⟩
          cases cast with
          | none => simp only [Option.getD]; decide
          | some c => exact hc c rfl
    · split
      · trivial
      · rename_i nm idx d hp
        split
        · trivial
        · rename_i vt hvt
          have hidx : idx < U32 := by
            split at hp
            · simp only [Option.some.injEq, Prod.mk.injEq] at hp; obtain ⟨_, rfl, _⟩ := hp; decide
            · exact parseFieldName_lt _ _ _ _ _ hp
          exact createSub_wf _ _ _ _ _ _ hidx (valueStringType_lt _ _ hc _ hvt)
    · trivial

theorem leafOf_wf (toks : List Tok) : resWf (leafOf toks) := by
  unfold leafOf
  split
  · trivial
  · exact leafCore_wf _ (castOf_lt toks) _

/-! ## the loop -/

/-- invariant of the parser state: everything built so far is well-formed -/
def stWf (st : PState) : Prop :=
  (∀ id kids, st.conj = some (id, kids) → wfKids kids) ∧ (∀ f, st.sub = some f → wf f)

theorem wfKids_append : ∀ (a b : List Filter), wfKids a → wfKids b → wfKids (a ++ b) := by
  intro a
  induction a with
  | nil => intro b _ hb; simpa using hb
  | cons x r ih => intro b ha hb; simp only [List.cons_append, wfKids] at ha ⊢; exact ⟨ha.1, ih b ha.2 hb⟩

theorem mkConj_wf (id : Nat) (kids : List Filter) (h : wfKids kids) : wf (mkConj id kids) := by
  unfold mkConj
  split
  · simp only [Filter.and, wf]; exact ⟨by decide, h⟩
  · split
    · simp only [Filter.or, wf]; exact ⟨by decide, h⟩
    · simp only [wf]; exact h

theorem finish_wf (st : PState) (h : stWf st) : resWf (finish st) := by
  unfold finish
  split
  · rename_i id kids hc
    split
    · rename_i f hs
      simp only [resWf]
      exact mkConj_wf _ _ (wfKids_append _ _ (h.1 _ _ hc) ⟨wf_maybeNegate _ _ (h.2 _ hs), trivial⟩)
    · trivial
  · split
    · rename_i f hs
      simp only [resWf]; exact wf_maybeNegate _ _ (h.2 _ hs)
    · have hl := leafOf_wf st.toks
      split
      · rename_i f hf
        rw [hf] at hl
        simp only [resWf] at hl ⊢; exact wf_maybeNegate _ _ hl
      · rename_i r hr
        cases hlf : leafOf st.toks with
        | err => trivial
        | unk => trivial
        | ok f => exact absurd hlf (hr f)

theorem stWf_empty : stWf {} := by
  constructor
  · intro id kids h; cases h
  · intro f h; cases h

theorem parseLoopWith_wf {α : Type} (nt : α → Option (Tok × α)) :
    ∀ (fuel : Nat) (st : PState) (inp : α), stWf st → resWf (parseLoopWith nt fuel st inp).1 := by
  intro fuel
  induction fuel with
  | zero => intro st inp _; simp [parseLoopWith, resWf]
  | succ fuel ih =>
    intro st inp hst
    rw [parseLoopWith]
    split
    · exact finish_wf st hst
    · rename_i tok rest _
      have hplain : resWf (if st.conj.isSome || st.sub.isSome then (PRes.err, rest)
          else if st.toks.length + 1 > 4 then (PRes.err, rest)
          else parseLoopWith nt fuel { st with toks := st.toks ++ [tok] } rest).1 := by
        split
        · trivial
        · split
          · trivial
          · exact ih _ _ ⟨hst.1, hst.2⟩
      simp only
      split
      · exact hplain
      · rename_i id
        split
        · split
          · trivial
          · exact ih _ _ ⟨hst.1, hst.2⟩
        · split
          · split
            · trivial
            · have hin := ih {} rest stWf_empty
              split
              · rename_i f r2 heq
                rw [heq] at hin
                exact ih _ _ ⟨hst.1, fun g hg => by simp only [Option.some.injEq] at hg; subst hg; exact hin⟩
              · rename_i r r2 hne heq
                rw [heq] at hin; exact hin
          · split
            · split
              · trivial
              · exact finish_wf st hst
            · split
              · split
                · trivial
                · rename_i f hs
                  have hf := hst.2 f hs
                  split
                  · rename_i cid kids hc
                    split
                    · trivial
                    · apply ih
                      refine ⟨fun id' kids' h => ?_, fun g hg => by cases hg⟩
                      simp only [Option.some.injEq, Prod.mk.injEq] at h
                      obtain ⟨_, rfl⟩ := h
                      exact wfKids_append _ _ (hst.1 _ _ hc) ⟨wf_maybeNegate _ _ hf, trivial⟩
                  · apply ih
                    refine ⟨fun id' kids' h => ?_, fun g hg => by cases hg⟩
                    simp only [Option.some.injEq, Prod.mk.injEq] at h
                    obtain ⟨_, rfl⟩ := h
                    exact ⟨wf_maybeNegate _ _ hf, trivial⟩
              · exact hplain

/-- every filter `parseExpr` returns is well-formed -/
theorem parseExpr_wf (s : Bytes) (f : Filter) (h : parseExpr s = .ok f) : wf f := by
  have := parseLoopWith_wf nextToken (6 * (s.length + 1)) {} s stWf_empty
  unfold parseExpr parseLoop at h
  rw [h] at this
  exact this

end Muscle.Filter
