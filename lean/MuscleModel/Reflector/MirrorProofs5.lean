import MuscleModel.Reflector.MirrorProofs4

/-!
# C04 lemmas, part 5: the marking invariant under SUBSCRIBE / unsubscribe / attach / detach, every command,
every reachable state (`MReach`)
-/

set_option linter.unusedSimpArgs false
set_option linter.unusedVariables false

namespace Muscle.Reflector
open Muscle Muscle.Eng.SrvEngine

/-! ## the reference-count pass (`DoSubscribeRefCallback` over the visits of a traversal) -/

theorem mr_refs_subs (sid : Nat) (delta : Option Int) : ∀ (V : List (List Bytes)) (sv : Server), V.Nodup → ∀ w,
    (getNode (V.foldl (fun sv v => setNode sv v (fun n => n.setSubs (adjustSubs n.subs sid delta))) sv) w).map Node.subs
      = ((getNode sv w).map Node.subs).map (fun s => if w ∈ V then adjustSubs s sid delta else s) := by
  intro V
  induction V with
  | nil => intro sv _ w; simp; rfl
  | cons v r ih =>
    intro sv hnd w
    simp only [List.nodup_cons] at hnd
    simp only [List.foldl_cons]
    rw [ih _ hnd.2 w]
    have h1 : (getNode (setNode sv v (fun n => n.setSubs (adjustSubs n.subs sid delta))) w).map Node.subs =
        ((getNode sv w).map Node.subs).map (fun s => if w = v then adjustSubs s sid delta else s) := by
      have := nodeAt_updateAt_subsAt (f := fun n => n.setSubs (adjustSubs n.subs sid delta)) (fun _ => rfl) (fun _ => rfl)
        fuelDepth sv.root v w
      simp only [getNode, setNode]
      rw [this, Option.map_map]
      rfl
    rw [h1, Option.map_map]
    congr 1
    funext s
    simp only [Function.comp, List.mem_cons]
    by_cases hwv : w = v
    · subst hwv
      simp [hnd.1]
    · simp [hwv]

/-- the same pass keeps payloads and the set of paths -/
theorem mr_refs_data (sid : Nat) (delta : Option Int) : ∀ (V : List (List Bytes)) (sv : Server) (w : List Bytes),
    (getNode (V.foldl (fun sv v => setNode sv v (fun n => n.setSubs (adjustSubs n.subs sid delta))) sv) w).map Node.data
      = (getNode sv w).map Node.data := by
  intro V
  induction V with
  | nil => intro sv w; rfl
  | cons v r ih =>
    intro sv w
    simp only [List.foldl_cons]
    rw [ih]
    by_cases hp : v <+: w
    · obtain ⟨ext, rfl⟩ := hp
      rw [mr_getNode_setNode_below (by intro _; rfl), mr_getNode_append]
      cases getNode sv v with
      | none => rfl
      | some t =>
        simp only [Option.bind_some]
        cases ext with
        | nil => simp [nodeAt_nil]
        | cons b r' =>
          cases fuelDepth - v.length with
          | zero => simp [nodeAt_zero_cons]
          | succ k => rw [nodeAt_succ_cons, nodeAt_succ_cons, setSubs_kids]
    · exact mr_getNode_setNode_off Node.data (by intro _ _; rfl) (by intro _; rfl) sv v w hp

theorem mr_skel_refs (sid : Nat) (delta : Option Int) (V : List (List Bytes)) (sv : Server) :
    skel (V.foldl (fun sv v => setNode sv v (fun n => n.setSubs (adjustSubs n.subs sid delta))) sv) = skel sv :=
  mr_foldl_skel (fun sv v => setNode sv v (fun n => n.setSubs (adjustSubs n.subs sid delta))) (fun _ _ => rfl) V sv

/-! ## which nodes a no-data traversal from the global root visits -/

theorem mr_visits_pm (sv : Server) (hti : TreeInv sv) {pm : PM} (hwf : SubsWF pm) :
    (travGlobal sv pm false cbContinue).Nodup ∧
    ∀ w, w ∈ travGlobal sv pm false cbContinue ↔
      ∃ n, w ≠ [] ∧ getNode sv w = some n ∧ pmMatchesPath pm w false n.data = true := by
  have hk := mr_kidsNodup_of_allNodes fuelDepth sv.root hti
  obtain ⟨h1, h2⟩ := Muscle.Props.C05.traversal_eq_bruteforce pm false 0 sv.root fuelDepth hwf.pmWF hwf.laws hk
  refine ⟨h2, fun w => ?_⟩
  unfold travGlobal
  rw [h1 w]
  unfold bruteForce
  simp only [List.mem_map, List.mem_filter]
  constructor
  · rintro ⟨⟨w', n⟩, ⟨hd, hP⟩, rfl⟩
    have := (mr_mem_descendants fuelDepth sv.root [] w' n hk).1 (by simpa using hd)
    exact ⟨n, this.1, this.2, hP⟩
  · rintro ⟨n, hw, hn, hP⟩
    have := (mr_mem_descendants fuelDepth sv.root [] w n hk).2 ⟨hw, hn⟩
    exact ⟨(w, n), ⟨by simpa using this, hP⟩, rfl⟩

/-! ## the key list after a session's matcher is replaced -/

def updKeys (sid : Nat) (pm' : PM) (ss : List (Nat × PM)) : List (Nat × PM) :=
  ss.map (fun p => if p.1 = sid then (p.1, pm') else p)

theorem mr_updKeys_keys (sid : Nat) (pm' : PM) (ss : List (Nat × PM)) :
    (updKeys sid pm' ss).map (·.1) = ss.map (·.1) := by
  unfold updKeys
  rw [List.map_map]
  apply List.map_congr_left
  intro p _
  simp only [Function.comp]
  split <;> rfl

theorem mr_updKeys_find (sid : Nat) (pm' : PM) (ss : List (Nat × PM)) (sid' : Nat) :
    (updKeys sid pm' ss).find? (fun p => p.1 = sid') =
      (ss.find? (fun p => p.1 = sid')).map (fun p => if p.1 = sid then (p.1, pm') else p) := by
  induction ss with
  | nil => rfl
  | cons a r ih =>
    unfold updKeys at ih ⊢
    simp only [List.map_cons, List.find?_cons]
    have : (if a.1 = sid then (a.1, pm') else a).1 = a.1 := by split <;> rfl
    rw [this]
    by_cases h : a.1 = sid'
    · simp [h]
    · simp only [h, decide_false]
      exact ih

theorem mr_sessKeys_updSess (sv : Server) (sid : Nat) (pm' : PM) :
    sessKeys (sv.updSess sid (fun s => { s with subs := pm' })) = updKeys sid pm' (sessKeys sv) := by
  simp only [sessKeys, Server.updSess, updKeys, List.map_map]
  apply List.map_congr_left
  intro t _
  simp only [Function.comp]
  split <;> rfl

theorem mr_sessKeys_updSess_g (sv : Server) (sid : Nat) (g : PM → PM) :
    sessKeys (sv.updSess sid (fun s => { s with subs := g s.subs })) =
      (sessKeys sv).map (fun p => if p.1 = sid then (p.1, g p.2) else p) := by
  simp only [sessKeys, Server.updSess, List.map_map]
  apply List.map_congr_left
  intro t _
  simp only [Function.comp]
  split <;> rfl

theorem mr_sessKeys_find {sv : Server} {sid : Nat} {s : Sess} (hs : sv.sess? sid = some s) :
    (sessKeys sv).find? (fun p => p.1 = sid) = some (sid, s.subs) := by
  unfold Server.sess? at hs
  unfold sessKeys
  rw [List.find?_map]
  have : ((fun p : Nat × PM => decide (p.1 = sid)) ∘ fun s : Sess => (s.sid, s.subs)) = fun s : Sess => decide (s.sid = sid) := rfl
  rw [this, hs]
  have := List.find?_some hs
  simp only [decide_eq_true_eq] at this
  simp [this]

theorem mr_key_unique {ss : List (Nat × PM)} (hnd : (ss.map (·.1)).Nodup) {sid : Nat} {pm : PM}
    (hf : ss.find? (fun p => p.1 = sid) = some (sid, pm)) {p : Nat × PM} (hp : p ∈ ss) (hk : p.1 = sid) : p.2 = pm := by
  have hm := List.mem_of_find?_eq_some hf
  induction ss with
  | nil => cases hp
  | cons a r ih =>
    simp only [List.map_cons, List.nodup_cons] at hnd
    rcases List.mem_cons.1 hp with rfl | hp
    · rcases List.mem_cons.1 hm with h | hm
      · rw [← h]
      · exact absurd (List.mem_map_of_mem (f := (·.1)) hm) (by simpa [hk] using hnd.1)
    · rcases List.mem_cons.1 hm with h | hm'
      · exact absurd (List.mem_map_of_mem (f := (·.1)) hp) (by rw [← h] at hnd; simpa [hk] using hnd.1)
      · have ha : a.1 ≠ sid := fun e => hnd.1 (by rw [e, ← hk]; exact List.mem_map_of_mem hp)
        apply ih hnd.2 _ hp hm'
        simpa [List.find?_cons, ha] using hf

theorem mr_sessKeys_updSess' {sv : Server} (hnd : ((sessKeys sv).map (·.1)).Nodup) {sid : Nat} {pm : PM}
    (hf : (sessKeys sv).find? (fun p => p.1 = sid) = some (sid, pm)) (g : PM → PM) :
    sessKeys (sv.updSess sid (fun s => { s with subs := g s.subs })) = updKeys sid (g pm) (sessKeys sv) := by
  rw [mr_sessKeys_updSess_g]
  unfold updKeys
  apply List.map_congr_left
  intro p hp
  split
  · rename_i hk
    rw [mr_key_unique hnd hf hp hk]
  · rfl

theorem mr_expCount_upd {ss : List (Nat × PM)} {sid : Nat} {pm : PM}
    (hf : ss.find? (fun p => p.1 = sid) = some (sid, pm)) (pm' : PM) (sid' : Nat) (v : List Bytes) :
    expCount (updKeys sid pm' ss) sid' v = if sid' = sid then pmMatchCount pm' v else expCount ss sid' v := by
  unfold expCount
  rw [mr_updKeys_find]
  by_cases h : sid' = sid
  · subst h
    rw [hf]; simp
  · rw [if_neg h]
    cases hq : ss.find? (fun p => p.1 = sid') with
    | none => rfl
    | some q =>
      have := List.find?_some hq
      simp only [decide_eq_true_eq] at this
      have hne : ¬ q.1 = sid := by rw [this]; exact h
      simp [hne]

theorem mr_expCount_self {ss : List (Nat × PM)} {sid : Nat} {pm : PM}
    (hf : ss.find? (fun p => p.1 = sid) = some (sid, pm)) (v : List Bytes) : expCount ss sid v = pmMatchCount pm v := by
  unfold expCount; rw [hf]

theorem SessOK.upd {sv : Server} (h : SessOK sv) (sid : Nat) (pm' : PM) (hwf : SubsWF pm') {X : Server}
    (hX : skel X = (sv.nextSid, updKeys sid pm' (sessKeys sv))) : SessOK X := by
  have h1 : X.nextSid = sv.nextSid := congrArg Prod.fst hX
  have h2 : sessKeys X = updKeys sid pm' (sessKeys sv) := congrArg Prod.snd hX
  refine ⟨by rw [h2, mr_updKeys_keys]; exact h.nodup, ?_, ?_⟩
  · intro p hp
    rw [h2] at hp
    rw [h1]
    obtain ⟨q, hq, rfl⟩ := List.mem_map.1 hp
    have := h.bound q hq
    split <;> exact this
  · intro p hp
    rw [h2] at hp
    obtain ⟨q, hq, rfl⟩ := List.mem_map.1 hp
    split
    · exact hwf
    · exact h.wf q hq

/-- the matcher of session `sid` is replaced by one with the same match counts (a filter change) -/
theorem MK.resub {X : Server} (h : MK X) {sid : Nat} {pm : PM}
    (hf : (sessKeys X).find? (fun p => p.1 = sid) = some (sid, pm)) (g : PM → PM) (hwf : SubsWF (g pm))
    (hc : ∀ v, pmMatchCount (g pm) v = pmMatchCount pm v) :
    MK (X.updSess sid (fun s => { s with subs := g s.subs })) := by
  have hkk := mr_sessKeys_updSess' h.1.nodup hf g
  refine ⟨h.1.upd sid (g pm) hwf (by simp only [skel, hkk]; rfl), ?_⟩
  rw [hkk]
  intro v n hv hn
  obtain ⟨h1, h2⟩ := h.2 v n hv hn
  refine ⟨fun sid' => ?_, h2⟩
  rw [mr_expCount_upd hf, h1]
  split
  · rename_i e; subst e; rw [hc, mr_expCount_self hf]
  · rfl

/-- the matcher of session `sid` is replaced and the reference counts follow: `delta` on every node the clauses of
    `fix` match -/
theorem MK.refs {sv : Server} (h : MK sv) (hti : TreeInv sv) {sid : Nat} {pm : PM}
    (hf : (sessKeys sv).find? (fun p => p.1 = sid) = some (sid, pm)) {fix : Bytes} (hgood : GoodPath fix)
    (g : PM → PM) (hwf : SubsWF (g pm)) (delta : Option Int)
    (hyes : ∀ v, clausesMatch (splitSlash fix) v = true → adjNew (pmMatchCount pm v) delta = pmMatchCount (g pm) v)
    (hno : ∀ v, clausesMatch (splitSlash fix) v = false → pmMatchCount (g pm) v = pmMatchCount pm v) :
    MK (subscribeRefs (sv.updSess sid (fun s => { s with subs := g s.subs })) sid (pmPut [] fix none) delta) := by
  unfold subscribeRefs
  have hkk := mr_sessKeys_updSess' h.1.nodup hf g
  generalize hpm' : g pm = pm' at hwf hyes hno hkk
  generalize hupd : (sv.updSess sid (fun s => { s with subs := g s.subs })) = U at hkk
  have hUr : U.root = sv.root := by rw [← hupd]; rfl
  have hUn : U.nextSid = sv.nextSid := by rw [← hupd]; rfl
  refine ⟨h.1.upd sid pm' hwf (by rw [mr_skel_refs]; simp only [skel, hkk, hUn]), ?_⟩
  have hk : sessKeys (List.foldl (fun sv v => setNode sv v (fun n => n.setSubs (adjustSubs n.subs sid delta)))
      U (travGlobal U (pmPut [] fix none) false cbContinue)) = updKeys sid pm' (sessKeys sv) := by
    have := mr_skel_refs sid delta (travGlobal U (pmPut [] fix none) false cbContinue) U
    rw [← hkk]
    exact congrArg Prod.snd this
  rw [hk]
  obtain ⟨hnd, hmem⟩ := mr_visits_pm sv hti (mr_single_wf hgood none)
  have htg : travGlobal U (pmPut [] fix none) false cbContinue =
      travGlobal sv (pmPut [] fix none) false cbContinue := by
    unfold travGlobal; rw [hUr]
  rw [htg]
  intro v n' hv hn'
  have hsubs := mr_refs_subs sid delta _ U hnd v
  have hn'' : getNode (List.foldl (fun sv v => setNode sv v (fun n => n.setSubs (adjustSubs n.subs sid delta)))
      U (travGlobal sv (pmPut [] fix none) false cbContinue)) v = some n' := hn'
  rw [hn''] at hsubs
  have hg : getNode U v = getNode sv v := getNode_congr hUr v
  rw [hg] at hsubs
  cases ho : getNode sv v with
  | none => rw [ho] at hsubs; simp at hsubs
  | some n =>
    rw [ho] at hsubs
    simp only [Option.map_some, Option.some.injEq] at hsubs
    obtain ⟨h1, h2⟩ := h.2 v n hv ho
    have hvis : v ∈ travGlobal sv (pmPut [] fix none) false cbContinue ↔ clausesMatch (splitSlash fix) v = true := by
      rw [hmem v]
      constructor
      · rintro ⟨m, _, _, hP⟩
        rw [mr_single_matches hgood.1] at hP; exact hP
      · intro hc
        exact ⟨n, hv, ho, by rw [mr_single_matches hgood.1]; exact hc⟩
    rw [hsubs]
    constructor
    · intro sid'
      rw [mr_expCount_upd hf]
      by_cases hc : clausesMatch (splitSlash fix) v = true
      · rw [if_pos (hvis.2 hc), mr_subCount_adjust]
        split
        · rename_i e; subst e
          rw [h1, mr_expCount_self hf]; exact hyes v hc
        · exact h1 sid'
      · rw [if_neg (fun hm => hc (hvis.1 hm)), h1]
        split
        · rename_i e; subst e
          rw [mr_expCount_self hf, hno v (by simpa using hc)]
        · rfl
    · split
      · exact h2.adjust _ _
      · exact h2

/-! ## SUBSCRIBE, unsubscribe -/

theorem MK.subscribe {sv : Server} (h : MK sv) (hti : TreeInv sv) (sid : Nat) (path : Bytes) (f : Option Filt)
    (hgood : GoodPath (adjustPrefix path (some defaultPrefix))) : MK (subscribe sv sid path f) := by
  unfold Reflector.subscribe
  split
  · exact h
  · rename_i s hs
    simp only []
    apply MK.doGetData
    apply MK.updSess_keep _ _ (by intro _; exact ⟨rfl, rfl⟩)
    have hwf : SubsWF s.subs := h.1.wf (sid, s.subs) (List.mem_of_find?_eq_some (mr_sessKeys_find hs))
    split
    · rename_i e he
      -- re-subscription: notifications only, then the filter is replaced
      have hX : ∀ X : Server, X.root = sv.root → skel X = skel sv →
          MK (X.updSess sid (fun t => { t with subs := pmPut t.subs (adjustPrefix path (some defaultPrefix)) f })) := by
        intro X hr hk
        have hXm : MK X := h.of_same hr hk
        apply hXm.resub (pm := s.subs) (g := fun pm => pmPut pm (adjustPrefix path (some defaultPrefix)) f)
        · rw [show sessKeys X = sessKeys sv from congrArg Prod.snd hk]; exact mr_sessKeys_find hs
        · exact hwf.put_found he f
        · intro v; exact mr_matchCount_put_old hwf he f v
      split
      · apply hX
        · apply foldl_root
          intro sv1 v
          repeat' split
          all_goals simp
        · apply mr_foldl_skel
          intro sv1 v
          repeat' split
          all_goals simp
      · exact hX sv rfl rfl
    · rename_i he
      split
      · exact h
      · apply h.refs hti (mr_sessKeys_find hs) hgood (fun pm => pmPut pm (adjustPrefix path (some defaultPrefix)) f)
          (hwf.put hgood f)
        · intro v hc
          rw [mr_adjNew_one, mr_matchCount_put_new hgood.1 he, if_pos hc]
        · intro v hc
          rw [mr_matchCount_put_new hgood.1 he, hc]; simp

theorem MK.unsubscribe {sv : Server} (h : MK sv) (hti : TreeInv sv) (sid : Nat) (path : Bytes) :
    MK (unsubscribe sv sid path) := by
  unfold Reflector.unsubscribe
  split
  · exact h
  · rename_i s hs
    simp only []
    split
    · exact h
    · apply MK.updSess_keep _ _ (by intro _; exact ⟨rfl, rfl⟩)
      have hwf : SubsWF s.subs := h.1.wf (sid, s.subs) (List.mem_of_find?_eq_some (mr_sessKeys_find hs))
      split
      · rename_i hfound
        cases he : pmFind s.subs (adjustPrefix path (some defaultPrefix)) with
        | none => rw [he] at hfound; simp at hfound
        | some e =>
          have hgood := (mr_found hwf he).2.2.2.2
          apply h.refs hti (mr_sessKeys_find hs) hgood (fun pm => pmRemove pm (adjustPrefix path (some defaultPrefix)))
            (hwf.remove _)
          · intro v hc
            have := mr_matchCount_remove hwf he v
            rw [if_pos hc] at this
            rw [mr_adjNew_dec, this]; omega
          · intro v hc
            have := mr_matchCount_remove hwf he v
            rw [hc] at this
            simpa using this.symm
      · exact h

/-! ## attach -/

theorem mr_expCount_append_new (ss : List (Nat × PM)) (sid : Nat) (sid' : Nat) (v : List Bytes) :
    expCount (ss ++ [(sid, [])]) sid' v = expCount ss sid' v := by
  unfold expCount
  rw [List.find?_append]
  cases hq : ss.find? (fun p => p.1 = sid') with
  | some q => rfl
  | none =>
    simp only [Option.none_or, List.find?_cons, List.find?_nil]
    by_cases h : sid = sid'
    · simp [h, pmMatchCount, pmGroup]
    · simp [h]

theorem MK.addSess {sv A : Server} (h : MK sv) (ns : Sess) (hr : A.root = sv.root) (hn : A.nextSid = sv.nextSid + 1)
    (hs : A.sessions = sv.sessions ++ [ns]) (h1 : ns.sid = sv.nextSid) (h2 : ns.subs = []) : MK A := by
  have hk : sessKeys A = sessKeys sv ++ [(sv.nextSid, [])] := by
    simp [sessKeys, hs, h1, h2]
  refine ⟨⟨?_, ?_, ?_⟩, ?_⟩
  · rw [hk, List.map_append, List.nodup_append]
    refine ⟨h.1.nodup, by simp, ?_⟩
    intro a ha b hb
    simp at hb; subst hb
    obtain ⟨p, hp, rfl⟩ := List.mem_map.1 ha
    have := h.1.bound p hp
    omega
  · intro p hp
    rw [hk] at hp
    rw [hn]
    rcases List.mem_append.1 hp with hp | hp
    · have := h.1.bound p hp; omega
    · simp at hp; subst hp; simp
  · intro p hp
    rw [hk] at hp
    rcases List.mem_append.1 hp with hp | hp
    · exact h.1.wf p hp
    · simp at hp; subst hp; exact SubsWF.nil
  · rw [hk, hr]
    intro v n hv hn
    obtain ⟨h1, h2⟩ := h.2 v n hv hn
    exact ⟨fun sid' => by rw [mr_expCount_append_new]; exact h1 sid', h2⟩

theorem MK.attach {sv : Server} (h : MK sv) (slot : Nat) (host : Bytes) : MK (attach sv slot host).1 := by
  unfold Reflector.attach
  simp only []
  apply MK.pushAll
  apply MK.putChild _ _ _ _ rfl
  split
  · exact h.addSess _ rfl rfl rfl rfl rfl
  · apply MK.putChild _ _ _ _ rfl
    exact h.addSess _ rfl rfl rfl rfl rfl

/-! ## detach -/

@[simp] theorem mr_skel_removeIndexEntry (sv : Server) (parent : List Bytes) (key : Bytes) (notify : Bool) :
    skel (removeIndexEntry sv parent key notify) = skel sv := by
  unfold removeIndexEntry
  repeat' (first | split | simp only [])
  all_goals simp

@[simp] theorem mr_skel_removeOne (sv : Server) (by_ : Nat) (notify : Bool) (names : List Bytes) :
    skel (removeOne sv by_ notify names) = skel sv := by
  unfold removeOne
  repeat' (first | split | simp only [])
  all_goals simp

@[simp] theorem mr_skel_removeChild (sv : Server) (by_ : Nat) (notify : Bool) (names : List Bytes) :
    skel (removeChild sv by_ notify names) = skel sv := by
  unfold removeChild
  split
  · rfl
  · exact mr_foldl_skel _ (fun _ _ => mr_skel_removeOne ..) _ _

theorem mr_expCount_filter (ss : List (Nat × PM)) (sid sid' : Nat) (v : List Bytes) :
    expCount (ss.filter (fun p => p.1 ≠ sid)) sid' v = if sid' = sid then 0 else expCount ss sid' v := by
  unfold expCount
  by_cases h : sid' = sid
  · subst h
    rw [if_pos rfl]
    have : (ss.filter (fun p => p.1 ≠ sid')).find? (fun p => p.1 = sid') = none := by
      rw [List.find?_eq_none]
      intro x hx
      have := (List.mem_filter.1 hx).2
      simpa using this
    rw [this]
  · rw [if_neg h, find?_filter_of_imp]
    intro x hx
    simp only [decide_eq_true_eq] at hx
    simp [hx, h]

theorem mr_nodeAt_nokids {root : Node} (h : root.kids.isEmpty = true) {v : List Bytes} (hv : v ≠ []) (fuel : Nat) :
    nodeAt fuel root v = none := by
  cases v with
  | nil => exact absurd rfl hv
  | cons a r =>
    cases fuel with
    | zero => rw [nodeAt_zero_cons]
    | succ k =>
      rw [nodeAt_succ_cons]
      have : root.kids = [] := by simpa using h
      rw [this]; rfl

theorem mr_sessKeys_filter (l : List Sess) (sid : Nat) :
    (l.filter (fun t => t.sid ≠ sid)).map (fun s => (s.sid, s.subs)) =
      (l.map (fun s => (s.sid, s.subs))).filter (fun p => p.1 ≠ sid) := by
  rw [List.filter_map]
  rfl

theorem MK.filterOut {X Y : Server} (hX : MK X) (sid : Nat) (hY : skel Y = skel X)
    (hm : MarksOK Y.root ((sessKeys X).filter (fun p => p.1 ≠ sid))) :
    MK { Y with sessions := Y.sessions.filter (fun t => t.sid ≠ sid) } := by
  have hYk : sessKeys Y = sessKeys X := congrArg Prod.snd hY
  have hYn : Y.nextSid = X.nextSid := congrArg Prod.fst hY
  have hk : sessKeys { Y with sessions := Y.sessions.filter (fun t => t.sid ≠ sid) } =
      (sessKeys X).filter (fun p => p.1 ≠ sid) := by
    rw [← hYk]
    exact mr_sessKeys_filter Y.sessions sid
  refine ⟨⟨?_, ?_, ?_⟩, ?_⟩
  · rw [hk]; exact (List.filter_sublist.map _).nodup hX.1.nodup
  · intro p hp
    rw [hk] at hp
    show p.1 < Y.nextSid
    rw [hYn]
    exact hX.1.bound p (List.mem_filter.1 hp).1
  · intro p hp
    rw [hk] at hp
    exact hX.1.wf p (List.mem_filter.1 hp).1
  · rw [hk]; exact hm

theorem MKT.detach {sv : Server} (h : MKT sv) (sid : Nat) : MKT (detach sv sid) := by
  refine ⟨treeInv_detach sid h.1, ?_⟩
  unfold Reflector.detach
  split
  · exact h.2
  · rename_i s hs
    simp only []
    -- the state after the removal phase and the push
    generalize hX : pushAll (match getNode (Reflector.removeChild sv sid true (sessNames s)) [s.host] with
      | some hn => if hn.kids.isEmpty then
          Reflector.removeChild (Reflector.removeChild sv sid true (sessNames s)) sid true [s.host]
          else Reflector.removeChild sv sid true (sessNames s)
      | none => Reflector.removeChild sv sid true (sessNames s)) = X
    have hXm : MKT X ∧ skel X = skel sv := by
      rw [← hX]
      have h1 : MKT (Reflector.removeChild sv sid true (sessNames s)) := h.removeChild ..
      split
      · split
        · exact ⟨⟨treeInv_pushAll (h1.removeChild ..).1, (h1.removeChild ..).2.pushAll⟩, by simp⟩
        · exact ⟨⟨treeInv_pushAll h1.1, h1.2.pushAll⟩, by simp⟩
      · exact ⟨⟨treeInv_pushAll h1.1, h1.2.pushAll⟩, by simp⟩
    obtain ⟨⟨hXt, hXk⟩, hXs⟩ := hXm
    have hkeys : sessKeys X = sessKeys sv := congrArg Prod.snd hXs
    have hfind : (sessKeys X).find? (fun p => p.1 = sid) = some (sid, s.subs) := by
      rw [hkeys]; exact mr_sessKeys_find hs
    have hwf : SubsWF s.subs := hXk.1.wf (sid, s.subs) (List.mem_of_find?_eq_some hfind)
    split
    · rename_i hemp
      apply MK.filterOut hXk sid (Y := { X with live := false }) rfl
      intro v n hv hn
      have : nodeAt fuelDepth X.root v = none := mr_nodeAt_nokids hemp hv _
      have hn' : nodeAt fuelDepth X.root v = some n := hn
      rw [this] at hn'; cases hn'
    · apply MK.filterOut hXk sid (mr_skel_refs sid none _ X)
      obtain ⟨hnd, hmem⟩ := mr_visits_pm X hXt hwf
      intro v n' hv hn'
      have hsubs := mr_refs_subs sid none _ X hnd v
      have hn'' : getNode (List.foldl (fun sv v => setNode sv v (fun n => n.setSubs (adjustSubs n.subs sid none)))
          X (travGlobal X s.subs false cbContinue)) v = some n' := hn'
      rw [hn''] at hsubs
      cases ho : getNode X v with
      | none => rw [ho] at hsubs; simp at hsubs
      | some n =>
        rw [ho] at hsubs
        simp only [Option.map_some, Option.some.injEq] at hsubs
        obtain ⟨h1, h2⟩ := hXk.2 v n hv ho
        rw [hsubs]
        constructor
        · intro sid'
          rw [mr_expCount_filter]
          by_cases hvis : v ∈ travGlobal X s.subs false cbContinue
          · rw [if_pos hvis, mr_subCount_adjust]
            split
            · rfl
            · exact h1 sid'
          · rw [if_neg hvis]
            split
            · rename_i e; subst e
              rw [h1, mr_expCount_self hfind]
              have : pmMatchesPath s.subs v false n.data ≠ true := by
                intro hP; exact hvis ((hmem v).2 ⟨n, hv, ho, hP⟩)
              rw [mr_matches_nodata] at this
              simpa using this
            · exact h1 sid'
        · split
          · exact h2.adjust _ _
          · exact h2

/-! ## every command -/

/-- the commands the invariant is proved for: every normalised SUBSCRIBE path is a `GoodPath` -/
def CmdOK : Cmd → Prop
  | .sub path _ => GoodPath (adjustPrefix path (some defaultPrefix))
  | _ => True

theorem MKT.runCmd {sv : Server} (h : MKT sv) (sid : Nat) (c : Cmd) (hc : CmdOK c) : MKT (runCmd sv sid c) := by
  refine ⟨treeInv_runCmd sid c h.1, ?_⟩
  cases c with
  | set path v ati => exact h.2.setDataNode ..
  | rm keys => exact (h.removeData sid keys).2
  | sub path f => exact h.2.subscribe h.1 sid path f hc
  | unsub path => exact h.2.unsubscribe h.1 sid path
  | paramSelf => exact h.2.updSess_keep _ _ (by intro _; exact ⟨rfl, rfl⟩)
  | paramMax n => exact h.2.updSess_keep _ _ (by intro _; exact ⟨rfl, rfl⟩)
  | paramRoute keys => exact h.2.updSess_keep _ _ (by intro _; exact ⟨rfl, rfl⟩)
  | paramRouteF keys fs => exact h.2.updSess_keep _ _ (by intro _; exact ⟨rfl, rfl⟩)
  | unparamMax => exact h.2.updSess_keep _ _ (by intro _; split <;> exact ⟨rfl, rfl⟩)
  | unparamRoute => exact h.2.updSess_keep _ _ (by intro _; split <;> exact ⟨rfl, rfl⟩)
  | unparamRouteF => exact h.2.updSess_keep _ _ (by intro _; split <;> exact ⟨rfl, rfl⟩)
  | getparams =>
    simp only [Muscle.Eng.SrvEngine.runCmd]
    split
    · exact h.2
    · exact h.2.deliver ..
  | ins key before vals => exact h.2.insertOrdered ..
  | reorder key before => exact h.2.reorder ..
  | send tag keys => exact h.2.sendMsg ..
  | ping tag => exact h.2.deliver ..

/-! ## reachable states -/

/-- the servers the engine reaches with commands satisfying `CmdOK`; `pump` empties the inboxes -/
inductive MReach : Server → Prop
  | init : MReach {}
  | attach {sv : Server} (slot : Nat) (host : Bytes) : MReach sv → MReach (attach sv slot host).1
  | detach {sv : Server} (sid : Nat) : MReach sv → MReach (detach sv sid)
  | cmd {sv : Server} (sid : Nat) (c : Cmd) : CmdOK c → MReach sv → MReach (runCmd sv sid c)
  | push {sv : Server} : MReach sv → MReach (pushAll sv)
  | pump {sv : Server} : MReach sv → MReach { sv with sessions := sv.sessions.map (fun s => { s with inbox := [] }) }

theorem MReach.reach {sv : Server} (h : MReach sv) : Reach sv := by
  induction h with
  | init => exact .init
  | attach slot host _ ih => exact .attach slot host ih
  | detach sid _ ih => exact .detach sid ih
  | cmd sid c _ _ ih => exact .cmd sid c ih
  | push _ ih => exact .push ih
  | pump _ ih => exact .sessions _ ih

theorem mkt_init : MKT ({} : Server) := by
  refine ⟨AllNodes.fresh _ _, ⟨by simp [sessKeys], by simp [sessKeys], by simp [sessKeys]⟩, ?_⟩
  intro v n hv hn
  have : nodeAt fuelDepth ({} : Server).root v = none := mr_nodeAt_nokids rfl hv _
  rw [this] at hn; cases hn

theorem mkt_reach {sv : Server} (h : MReach sv) : MKT sv := by
  induction h with
  | init => exact mkt_init
  | attach slot host _ ih => exact ⟨treeInv_attach slot host ih.1, ih.2.attach slot host⟩
  | detach sid _ ih => exact ih.detach sid
  | cmd sid c hc _ ih => exact ih.runCmd sid c hc
  | push _ ih => exact ⟨treeInv_pushAll ih.1, ih.2.pushAll⟩
  | @pump sv0 _ ih =>
    refine ⟨ih.1, MK.of_same (a := sv0) rfl ?_ ih.2⟩
    simp only [skel, sessKeys, List.map_map]
    rfl

end Muscle.Reflector
