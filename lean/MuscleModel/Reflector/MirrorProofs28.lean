import MuscleModel.Reflector.MirrorProofs27

/-!
# C04 lemmas, part 28: the traversal with `GetDataCallback`, part 2 — coupling with the continue-callback

`cbG own` = `GetDataCallback` of a plain session whose session node is named `own`: `(false, 2)` on the nodes of its own
subtree (`ownerName names = some own`), `(true, depth)` elsewhere.  From the global root (`rootDepth = 0`):
`travG_mem`: the visits recorded with `cbG own` are exactly the visits recorded with the continue-callback that are not in
the own subtree.  Hence `SnapVisits` for plain sessions (`snapVisits_plain`).
-/

set_option linter.unusedSimpArgs false
set_option linter.unusedVariables false

namespace Muscle.Reflector
open Muscle

def cbG (own : Bytes) : Visit → Nat → Node → Bool × Int := fun names depth _ =>
  if ownerName names = some own then (false, 2) else (true, depth)

def ctxCc (pm : PM) (uf : Bool) : TCtx := { pm := pm, useFilters := uf, rootDepth := 0, cb := cbContinue }
def ctxGg (pm : PM) (uf : Bool) (own : Bytes) : TCtx := { pm := pm, useFilters := uf, rootDepth := 0, cb := cbG own }

def isOwn (own : Bytes) (v : Visit) : Prop := ownerName v = some own

/-- loop states of the two traversals: same flags; the visits of `G` are those of `C` outside the own subtree (when `Q`) -/
def CplG (own : Bytes) (Q : Prop) (stG stC : CState) : Prop :=
  stG.matched = stC.matched ∧ stG.recursed = stC.recursed ∧ stG.abort = stC.abort ∧ stG.done = stC.done ∧
    (Q → ∀ v, v ∈ stG.visits ↔ v ∈ stC.visits ∧ ¬ isOwn own v)

theorem stepG_cplG (pm : PM) (uf : Bool) (own : Bytes) (Q : Prop) (recG recC : Rec) (child : Node) (cn : Visit) (depth : Nat)
    (hit : Bool) (e : Entry) (hown : isOwn own cn → depth + 1 ≤ 2)
    (hnd : (recG child cn (depth+1)).2 = (recC child cn (depth+1)).2)
    (hvis : Q → ∀ v, v ∈ (recG child cn (depth+1)).1 ↔ v ∈ (recC child cn (depth+1)).1 ∧ ¬ isOwn own v)
    (stG stC : CState) (h : CplG own Q stG stC) :
    CplG own Q (stepG (ctxGg pm uf own) recG child cn depth hit e stG) (stepG (ctxCc pm uf) recC child cn depth hit e stC) := by
  obtain ⟨hm, hr, ha, hdn, hv⟩ := h
  cases hit with
  | false => simp only [stepG, Bool.not_false, if_true]; exact ⟨hm, hr, ha, hdn, hv⟩
  | true =>
    by_cases hterm : depth + 1 = 0 + e.clauses.length
    · by_cases hmat : stC.matched = true
      · have hmG : stG.matched = true := by rw [hm]; exact hmat
        simp only [stepG, ctxGg, ctxCc, Bool.not_true, Bool.false_eq_true, if_false, if_pos hterm, if_true, hmat, hmG]
        exact ⟨hm, hr, ha, hdn, hv⟩
      · have hmG : ¬ stG.matched = true := by rw [hm]; exact hmat
        by_cases hg : ((onlyOneEntry pm && (!uf || e.filter.isNone)) || matchesNode pm cn uf child.data) = true
        · have c1 : ¬ (((depth + 1 : Nat) : Int) < (depth : Int) + 1 - 1) := by omega
          have c2 : ¬ (((depth + 1 : Nat) : Int) < (depth : Int) + 1) := by omega
          by_cases ho : ownerName cn = some own
          · have hd2 := hown ho
            have g1 : ¬ ((2 : Int) < (depth : Int) + 1 - 1) := by omega
            have g2 : ¬ ((2 : Int) < (depth : Int) + 1) := by omega
            simp only [stepG, ctxGg, ctxCc, cbG, cbContinue, Bool.not_true, Bool.false_eq_true, if_false, if_pos hterm, if_true,
              hmat, hmG, hg, ho, c1, c2, g1, g2, decide_false, Bool.or_false]
            refine ⟨rfl, hr, ha, hr, fun q v => ?_⟩
            simp only [List.mem_append, List.mem_singleton]
            constructor
            · intro hx; exact ⟨Or.inl ((hv q v).1 hx).1, ((hv q v).1 hx).2⟩
            · rintro ⟨hx | hx, hno⟩
              · exact (hv q v).2 ⟨hx, hno⟩
              · subst hx; exact absurd ho hno
          · simp only [stepG, ctxGg, ctxCc, cbG, cbContinue, Bool.not_true, Bool.false_eq_true, if_false, if_pos hterm, if_true,
              hmat, hmG, hg, ho, c1, c2, decide_false, Bool.or_false]
            refine ⟨rfl, hr, ha, hr, fun q v => ?_⟩
            simp only [List.mem_append, List.mem_singleton]
            constructor
            · rintro (hx | hx)
              · exact ⟨Or.inl ((hv q v).1 hx).1, ((hv q v).1 hx).2⟩
              · subst hx; exact ⟨Or.inr rfl, ho⟩
            · rintro ⟨hx | hx, hno⟩
              · exact Or.inl ((hv q v).2 ⟨hx, hno⟩)
              · exact Or.inr hx
        · simp only [stepG, ctxGg, ctxCc, Bool.not_true, Bool.false_eq_true, if_false, if_pos hterm, if_true, hmat, hmG, hg]
          exact ⟨hm, hr, ha, hdn, hv⟩
    · by_cases hrc : stC.recursed = true
      · have hrG : stG.recursed = true := by rw [hr]; exact hrc
        simp only [stepG, ctxGg, ctxCc, Bool.not_true, Bool.false_eq_true, if_false, hterm, hrc, hrG, if_true]
        exact ⟨hm, hr, ha, hdn, hv⟩
      · have hrG : ¬ stG.recursed = true := by rw [hr]; exact hrc
        generalize hresG : recG child cn (depth+1) = resG at hnd hvis
        generalize hresC : recC child cn (depth+1) = resC at hnd hvis
        obtain ⟨vsG, ndG⟩ := resG
        obtain ⟨vsC, ndC⟩ := resC
        simp only at hnd hvis
        subst hnd
        simp only [stepG, ctxGg, ctxCc, Bool.not_true, Bool.false_eq_true, if_false, hterm, hrc, hrG, hresG, hresC]
        have hmem : Q → ∀ v, v ∈ stG.visits ++ vsG ↔ v ∈ stC.visits ++ vsC ∧ ¬ isOwn own v := by
          intro q v
          simp only [List.mem_append]
          constructor
          · rintro (hx | hx)
            · exact ⟨Or.inl ((hv q v).1 hx).1, ((hv q v).1 hx).2⟩
            · exact ⟨Or.inr ((hvis q v).1 hx).1, ((hvis q v).1 hx).2⟩
          · rintro ⟨hx | hx, hno⟩
            · exact Or.inl ((hv q v).2 ⟨hx, hno⟩)
            · exact Or.inr ((hvis q v).2 ⟨hx, hno⟩)
        split <;> (refine ⟨?_, ?_, ?_, ?_, hmem⟩ <;> simp [hm, hr, ha, hdn])

theorem checkEntries_cplG (pm : PM) (uf : Bool) (own : Bytes) (Q : Prop) (recG recC : Rec) (child : Node) (cn : Visit)
    (depth : Nat) (known : Option Nat) (hown : isOwn own cn → depth + 1 ≤ 2)
    (hnd : (recG child cn (depth+1)).2 = (recC child cn (depth+1)).2)
    (hvis : Q → ∀ v, v ∈ (recG child cn (depth+1)).1 ↔ v ∈ (recC child cn (depth+1)).1 ∧ ¬ isOwn own v) :
    ∀ (es : List Entry) (idx : Nat) (stG stC : CState), CplG own Q stG stC →
      CplG own Q (checkEntries (ctxGg pm uf own) recG child cn depth known es idx stG)
        (checkEntries (ctxCc pm uf) recC child cn depth known es idx stC) := by
  intro es
  induction es with
  | nil => intro idx stG stC h; exact h
  | cons e es ih =>
    intro idx stG stC h
    rw [checkEntries_cons, checkEntries_cons]
    have hstop : (stG.done || stG.abort.isSome) = (stC.done || stC.abort.isSome) := by rw [h.2.2.2.1, h.2.2.1]
    rw [hstop]
    split
    · exact h
    · exact ih _ _ _ (stepG_cplG pm uf own Q recG recC child cn depth _ e hown hnd hvis stG stC h)

theorem checkChild_cplG (pm : PM) (uf : Bool) (own : Bytes) (Q : Prop) (recG recC : Rec) (k : Node) (names : Visit)
    (depth : Nat) (known : Option Nat) (hown : isOwn own (names ++ [k.name]) → depth + 1 ≤ 2)
    (hnd : (recG k (names ++ [k.name]) (depth+1)).2 = (recC k (names ++ [k.name]) (depth+1)).2)
    (hvis : Q → ∀ v, v ∈ (recG k (names ++ [k.name]) (depth+1)).1 ↔
      v ∈ (recC k (names ++ [k.name]) (depth+1)).1 ∧ ¬ isOwn own v) :
    (checkChild (ctxGg pm uf own) recG k names depth known).2 = (checkChild (ctxCc pm uf) recC k names depth known).2 ∧
    (Q → ∀ v, v ∈ (checkChild (ctxGg pm uf own) recG k names depth known).1 ↔
      v ∈ (checkChild (ctxCc pm uf) recC k names depth known).1 ∧ ¬ isOwn own v) := by
  have := checkEntries_cplG pm uf own Q recG recC k (names ++ [k.name]) depth known hown hnd hvis
    (activeEntries pm (depth - 0)) 0 {} {} ⟨rfl, rfl, rfl, rfl, fun _ v => by simp⟩
  unfold checkChild
  exact ⟨this.2.2.1, this.2.2.2.2⟩

/-- one level without own children deeper than depth 2 -/
theorem travLevel_cplG (pm : PM) (uf : Bool) (own : Bytes) (recG recC : Rec) (node : Node) (names : Visit) (depth : Nat)
    (hrecC : ∀ k n d, (recC k n d).2 = (d : Int))
    (hown : ∀ k : Node, isOwn own (names ++ [k.name]) → depth + 1 ≤ 2)
    (hnd : ∀ k : Node, (recG k (names ++ [k.name]) (depth+1)).2 = (recC k (names ++ [k.name]) (depth+1)).2)
    (hvis : ∀ k ∈ node.kids, ∀ v, v ∈ (recG k (names ++ [k.name]) (depth+1)).1 ↔
      v ∈ (recC k (names ++ [k.name]) (depth+1)).1 ∧ ¬ isOwn own v) :
    (travLevel (ctxGg pm uf own) recG node names depth).2 = (depth : Int) ∧
    (travLevel (ctxCc pm uf) recC node names depth).2 = (depth : Int) ∧
    ∀ v, v ∈ (travLevel (ctxGg pm uf own) recG node names depth).1 ↔
      v ∈ (travLevel (ctxCc pm uf) recC node names depth).1 ∧ ¬ isOwn own v := by
  have hnaC : ∀ k known, (checkChild (ctxCc pm uf) recC k names depth known).2 = none :=
    fun k known => checkChild_snd (ctxCc pm uf) recC k names depth known rfl hrecC
  have hnaG : ∀ k known, (checkChild (ctxGg pm uf own) recG k names depth known).2 = none := by
    intro k known
    rw [(checkChild_cplG pm uf own False recG recC k names depth known (hown k) (hnd k) (fun f => f.elim)).1]
    exact hnaC k known
  rw [travLevel_eq_levelKids (ctxGg pm uf own) recG node names depth hnaG,
    travLevel_eq_levelKids (ctxCc pm uf) recC node names depth hnaC]
  refine ⟨rfl, rfl, fun v => ?_⟩
  have hlk : levelKids (ctxGg pm uf own).pm (ctxGg pm uf own).rootDepth node depth =
      levelKids (ctxCc pm uf).pm (ctxCc pm uf).rootDepth node depth := rfl
  simp only [hlk, List.mem_flatMap]
  constructor
  · rintro ⟨p, hp, hx⟩
    have hk := levelKids_sub _ _ node depth p hp
    have := (checkChild_cplG pm uf own True recG recC p.1 names depth p.2 (hown p.1) (hnd p.1)
      (fun _ => hvis p.1 hk)).2 trivial v
    exact ⟨⟨p, hp, (this.1 hx).1⟩, (this.1 hx).2⟩
  · rintro ⟨⟨p, hp, hx⟩, hno⟩
    have hk := levelKids_sub _ _ node depth p hp
    have := (checkChild_cplG pm uf own True recG recC p.1 names depth p.2 (hown p.1) (hnd p.1)
      (fun _ => hvis p.1 hk)).2 trivial v
    exact ⟨p, hp, this.2 ⟨hx, hno⟩⟩

/-! ## the three levels -/

theorem ownerName_two (a b : Bytes) (w : Visit) : ownerName ([a, b] ++ w) = some b := by simp [ownerName]

theorem ownerName_of_prefix {a b : Bytes} {v : Visit} (h : [a, b] <+: v) : ownerName v = some b := by
  obtain ⟨w, rfl⟩ := h; exact ownerName_two a b w

theorem ctxGg_withCb (pm : PM) (uf : Bool) (own : Bytes) (cb' : Visit → Nat → Node → Bool × Int) :
    (ctxGg pm uf own).withCb cb' = { pm := pm, useFilters := uf, rootDepth := 0, cb := cb' } := rfl

/-- a session node and everything below it (depth 2), own or not -/
theorem sessLevel (pm : PM) (uf : Bool) (own : Bytes) (hwf : pmWF pm = true) (hl : ClauseLaws pm) (fuel : Nat) (k2 : Node)
    (hn : Bytes) :
    (travAux (ctxGg pm uf own) fuel k2 [hn, k2.name] 2).2 = (travAux (ctxCc pm uf) fuel k2 [hn, k2.name] 2).2 ∧
    (kidsNodup fuel k2 = true → ∀ v, v ∈ (travAux (ctxGg pm uf own) fuel k2 [hn, k2.name] 2).1 ↔
      v ∈ (travAux (ctxCc pm uf) fuel k2 [hn, k2.name] 2).1 ∧ ¬ isOwn own v) := by
  have hsndC := travAux_snd (ctxCc pm uf) rfl fuel k2 [hn, k2.name] 2
  by_cases ho : k2.name = own
  · -- the own session node: nothing recorded, no unwinding past depth 2
    have hagree : AgreeBelow (ctxGg pm uf own).cb cbOwn [hn, k2.name] := by
      intro cn d n hp _
      show cbG own cn d n = cbOwn cn d n
      simp [cbG, cbOwn, ownerName_of_prefix hp, ho]
    have hcong := travAux_congr (ctxGg pm uf own) cbOwn fuel k2 [hn, k2.name] 2 hagree
    have hown := travAux_own ((ctxGg pm uf own).withCb cbOwn) rfl fuel k2 [hn, k2.name] 2 (Nat.le_refl _)
    rw [← hcong] at hown
    obtain ⟨h1, h2⟩ := hown
    have h2' : (travAux (ctxGg pm uf own) fuel k2 [hn, k2.name] 2).2 = 2 := by
      rcases h2 with h | ⟨h3, _⟩
      · exact h
      · omega
    refine ⟨by rw [h2', hsndC]; rfl, fun hk v => ?_⟩
    rw [h1]
    constructor
    · intro hx; cases hx
    · rintro ⟨hx, hno⟩
      have hp := ((travAux_nodup_prefix (ctxCc pm uf) rfl hwf hl fuel k2 [hn, k2.name] 2 hk).2 v hx).1
      exact absurd (by rw [isOwn, ownerName_of_prefix hp, ho]) hno
  · -- another session: the two traversals are the same
    have hagree : AgreeBelow (ctxGg pm uf own).cb cbContinue [hn, k2.name] := by
      intro cn d n hp _
      show cbG own cn d n = cbContinue cn d n
      have : ownerName cn ≠ some own := by
        rw [ownerName_of_prefix hp]; intro e; exact ho (Option.some.inj e)
      simp [cbG, cbContinue, this]
    have hcong := travAux_congr (ctxGg pm uf own) cbContinue fuel k2 [hn, k2.name] 2 hagree
    have heq : travAux (ctxGg pm uf own) fuel k2 [hn, k2.name] 2 = travAux (ctxCc pm uf) fuel k2 [hn, k2.name] 2 := hcong
    refine ⟨by rw [heq], fun hk v => ?_⟩
    rw [heq]
    constructor
    · intro hx
      have hp := ((travAux_nodup_prefix (ctxCc pm uf) rfl hwf hl fuel k2 [hn, k2.name] 2 hk).2 v hx).1
      refine ⟨hx, ?_⟩
      rw [isOwn, ownerName_of_prefix hp]; intro e; exact ho (Option.some.inj e)
    · exact fun h => h.1

/-- a host node (depth 1) -/
theorem hostLevel (pm : PM) (uf : Bool) (own : Bytes) (hwf : pmWF pm = true) (hl : ClauseLaws pm) (fuel : Nat) (k1 : Node) :
    (travAux (ctxGg pm uf own) fuel k1 [k1.name] 1).2 = (travAux (ctxCc pm uf) fuel k1 [k1.name] 1).2 ∧
    (kidsNodup fuel k1 = true → ∀ v, v ∈ (travAux (ctxGg pm uf own) fuel k1 [k1.name] 1).1 ↔
      v ∈ (travAux (ctxCc pm uf) fuel k1 [k1.name] 1).1 ∧ ¬ isOwn own v) := by
  cases fuel with
  | zero => exact ⟨rfl, fun _ v => by simp [travAux]⟩
  | succ f =>
    rw [travAux, travAux]
    have key := travLevel_cplG pm uf own (travAux (ctxGg pm uf own) f) (travAux (ctxCc pm uf) f) k1 [k1.name] 1
      (fun k n d => travAux_snd (ctxCc pm uf) rfl f k n d) (fun _ _ => Nat.le_refl _)
      (fun k => (sessLevel pm uf own hwf hl f k k1.name).1)
    refine ⟨?_, fun hk v => ?_⟩
    · have hG : ∀ k known, (checkChild (ctxGg pm uf own) (travAux (ctxGg pm uf own) f) k [k1.name] 1 known).2 = none := by
        intro k known
        rw [(checkChild_cplG pm uf own False _ (travAux (ctxCc pm uf) f) k [k1.name] 1 known (fun _ => Nat.le_refl _)
          (sessLevel pm uf own hwf hl f k k1.name).1 (fun x => x.elim)).1]
        exact checkChild_snd (ctxCc pm uf) _ k [k1.name] 1 known rfl (fun k n d => travAux_snd (ctxCc pm uf) rfl f k n d)
      rw [travLevel_snd_gen _ _ k1 [k1.name] 1 hG,
        travLevel_snd (ctxCc pm uf) _ k1 [k1.name] 1 rfl (fun k n d => travAux_snd (ctxCc pm uf) rfl f k n d)]
    · obtain ⟨_, hkk⟩ := kidsNodup_succ hk
      exact (key (fun k hkm => (sessLevel pm uf own hwf hl f k k1.name).2 (hkk k hkm))).2.2 v

/-- MAIN: from the global root, the visits with `GetDataCallback` are the visits with the continue-callback outside the
    own subtree -/
theorem travG_mem (pm : PM) (uf : Bool) (own : Bytes) (hwf : pmWF pm = true) (hl : ClauseLaws pm) (fuel : Nat) (root : Node)
    (hk : kidsNodup fuel root = true) :
    ∀ v, v ∈ (travAux (ctxGg pm uf own) fuel root [] 0).1 ↔
      v ∈ (travAux (ctxCc pm uf) fuel root [] 0).1 ∧ ¬ isOwn own v := by
  cases fuel with
  | zero => intro v; simp [travAux]
  | succ f =>
    rw [travAux, travAux]
    obtain ⟨_, hkk⟩ := kidsNodup_succ hk
    have hown0 : ∀ k : Node, isOwn own ([] ++ [k.name]) → 0 + 1 ≤ 2 := fun _ _ => by omega
    exact (travLevel_cplG pm uf own (travAux (ctxGg pm uf own) f) (travAux (ctxCc pm uf) f) root [] 0
      (fun k n d => travAux_snd (ctxCc pm uf) rfl f k n d) hown0
      (fun k => (hostLevel pm uf own hwf hl f k).1)
      (fun k hkm => (hostLevel pm uf own hwf hl f k).2 (hkk k hkm))).2.2

end Muscle.Reflector

namespace Muscle.Reflector
open Muscle

/-- `SnapVisits` for a plain session (neither reflect-to-self nor indexing): `GetDataCallback` answers depth 2 on its own
    nodes, and the visits are exactly the brute-force matches outside its own subtree -/
theorem snapVisits_plain {C : Server} (hti : TreeInv C) {sC : Sess} (hr : sC.reflectSelf = false)
    (hi : sC.indexingPresent = false) {fix : Bytes} (hgood : GoodPath fix) (f : Option Filt) : SnapVisits C sC fix f := by
  have hcb : getDataCb sC = cbG (sidName sC.sid) := by
    funext names depth node
    simp [getDataCb, cbG, hr, hi]
  have hwf := mr_single_wf hgood f
  have hk := mr_kidsNodup_of_allNodes fuelDepth C.root hti
  intro v
  have hG : travGlobal C (pmPut [] fix f) true (getDataCb sC) =
      (travAux (ctxGg (pmPut [] fix f) true (sidName sC.sid)) fuelDepth C.root [] 0).1 := by
    rw [hcb]; rfl
  have hC : travGlobal C (pmPut [] fix f) true cbContinue =
      (travAux (ctxCc (pmPut [] fix f) true) fuelDepth C.root [] 0).1 := rfl
  rw [hG, travG_mem (pmPut [] fix f) true (sidName sC.sid) hwf.pmWF hwf.laws fuelDepth C.root hk v, ← hC,
    mr_visits_pm_f C hti hwf true v]
  have hvis : visible sC v = true ↔ ¬ isOwn (sidName sC.sid) v := by
    simp [visible, isOwn, hr]
  constructor
  · rintro ⟨⟨n, h1, h2, h3⟩, hno⟩; exact ⟨n, h1, h2, h3, hvis.2 hno⟩
  · rintro ⟨n, h1, h2, h3, h4⟩; exact ⟨⟨n, h1, h2, h3⟩, hvis.1 h4⟩

/-- `SnapVisits` whenever the session's snapshot rule and its notification rule agree: it reflects to itself, or it is a
    plain session without the indexing flag -/
theorem snapVisits_of {C : Server} (hti : TreeInv C) {sC : Sess} (h : sC.reflectSelf = true ∨ sC.indexingPresent = false)
    {fix : Bytes} (hgood : GoodPath fix) (f : Option Filt) : SnapVisits C sC fix f := by
  cases hr : sC.reflectSelf with
  | true => exact snapVisits_reflectSelf hti hr hgood f
  | false =>
    rcases h with h | h
    · rw [hr] at h; cases h
    · exact snapVisits_plain hti hr h hgood f

end Muscle.Reflector
