import MuscleModel.Reflector.FrameProofs

/-!
# Frame lemmas, part 2: the server primitives

* `NotifyOnly sv sv'`: the tree is the same and every session is the same except for its pending update
  Messages and its inbox (`nextData`, `nextIdx`, `inbox`) — all the notification pipeline may do.
* `OnlyOwn sid own sv sv'`: every node whose path does not extend `own` looks the same through `strip sid`,
  and every session looks the same through `Sess.view sid` (a foreign session: everything but
  `nextData/nextIdx/inbox`; a session with id `sid`: slot, id and host).
Both are equalities of maps, hence reflexive and transitive.
-/

set_option linter.unusedSimpArgs false
set_option linter.unusedVariables false

namespace Muscle.Reflector
open Muscle

/-- a session without its notification state -/
def Sess.core (t : Sess) : Sess := { t with nextData := none, nextIdx := none, inbox := [] }

/-- what a command of session `sid` must preserve of session `t` -/
def Sess.view (sid : Nat) (t : Sess) : Sess :=
  if t.sid = sid then { slot := t.slot, sid := t.sid, host := t.host } else t.core

def NotifyOnly (sv sv' : Server) : Prop :=
  sv'.root = sv.root ∧ sv'.sessions.map Sess.core = sv.sessions.map Sess.core

def OnlyOwn (sid : Nat) (own : List Bytes) (sv sv' : Server) : Prop :=
  (∀ names, ¬ own <+: names → (getNode sv' names).map (strip sid) = (getNode sv names).map (strip sid))
  ∧ sv'.sessions.map (Sess.view sid) = sv.sessions.map (Sess.view sid)

/-! ## the two relations -/

theorem NotifyOnly.refl (sv : Server) : NotifyOnly sv sv := ⟨rfl, rfl⟩

theorem NotifyOnly.trans {a b c : Server} (h1 : NotifyOnly a b) (h2 : NotifyOnly b c) : NotifyOnly a c :=
  ⟨h2.1.trans h1.1, h2.2.trans h1.2⟩

theorem OnlyOwn.refl (sid : Nat) (own : List Bytes) (sv : Server) : OnlyOwn sid own sv sv := ⟨fun _ _ => rfl, rfl⟩

theorem OnlyOwn.trans {sid : Nat} {own : List Bytes} {a b c : Server}
    (h1 : OnlyOwn sid own a b) (h2 : OnlyOwn sid own b c) : OnlyOwn sid own a c :=
  ⟨fun names hn => (h2.1 names hn).trans (h1.1 names hn), h2.2.trans h1.2⟩

theorem Sess.view_eq_of_core (sid : Nat) (t : Sess) :
    Sess.view sid t = (fun c : Sess => if c.sid = sid then { slot := c.slot, sid := c.sid, host := c.host } else c) t.core := by
  unfold Sess.view
  by_cases h : t.sid = sid
  · simp [h, Sess.core]
  · simp [h, Sess.core]

theorem map_view_of_map_core (sid : Nat) {l l' : List Sess} (h : l'.map Sess.core = l.map Sess.core) :
    l'.map (Sess.view sid) = l.map (Sess.view sid) := by
  have e : ∀ l : List Sess, l.map (Sess.view sid) =
      (l.map Sess.core).map (fun c : Sess => if c.sid = sid then { slot := c.slot, sid := c.sid, host := c.host } else c) := by
    intro l
    rw [List.map_map]
    apply List.map_congr_left
    intro t _
    exact Sess.view_eq_of_core sid t
  rw [e l', e l, h]

theorem NotifyOnly.onlyOwn {sv sv' : Server} (h : NotifyOnly sv sv') (sid : Nat) (own : List Bytes) :
    OnlyOwn sid own sv sv' := by
  refine ⟨fun names _ => ?_, map_view_of_map_core sid h.2⟩
  simp only [getNode, h.1]

theorem NotifyOnly.foldl {α} (g : Server → α → Server) (hg : ∀ sv a, NotifyOnly sv (g sv a)) (l : List α) (sv : Server) :
    NotifyOnly sv (l.foldl g sv) := by
  induction l generalizing sv with
  | nil => exact NotifyOnly.refl sv
  | cons a r ih => exact (hg sv a).trans (ih (g sv a))

theorem OnlyOwn.foldl {sid : Nat} {own : List Bytes} {α} (g : Server → α → Server) (l : List α)
    (hg : ∀ sv a, a ∈ l → OnlyOwn sid own sv (g sv a)) (sv : Server) :
    OnlyOwn sid own sv (l.foldl g sv) := by
  induction l generalizing sv with
  | nil => exact OnlyOwn.refl sid own sv
  | cons a r ih =>
    exact (hg sv a (List.mem_cons_self ..)).trans (ih (fun sv b hb => hg sv b (List.mem_cons_of_mem _ hb)) (g sv a))

/-! ## session-table primitives -/

theorem updSess_notify (sv : Server) (sid : Nat) (f : Sess → Sess) (hf : ∀ t, (f t).core = t.core) :
    NotifyOnly sv (sv.updSess sid f) := by
  refine ⟨rfl, ?_⟩
  simp only [Server.updSess, List.map_map]
  apply List.map_congr_left
  intro t _
  simp only [Function.comp]
  split
  · exact hf t
  · rfl

theorem deliver_notify (sv : Server) (sid : Nat) (what : String) : NotifyOnly sv (sv.deliver sid what) :=
  updSess_notify sv sid _ (by intro _; rfl)

theorem dirty_notify (sv : Server) (b : Bool) : NotifyOnly sv { sv with subsDirty := b } := ⟨rfl, rfl⟩

/-- a session may change all of its own fields except slot, id and host -/
theorem updSess_own (sv : Server) (sid : Nat) (own : List Bytes) (f : Sess → Sess)
    (hf : ∀ t, (f t).sid = t.sid ∧ (f t).host = t.host ∧ (f t).slot = t.slot) :
    OnlyOwn sid own sv (sv.updSess sid f) := by
  refine ⟨fun _ _ => rfl, ?_⟩
  simp only [Server.updSess, List.map_map]
  apply List.map_congr_left
  intro t _
  simp only [Function.comp]
  split
  · rename_i h
    obtain ⟨h1, h2, h3⟩ := hf t
    simp only [Sess.view, h1, h, if_true, h2, h3]
  · rfl

theorem pushOnce_notify (sv : Server) : NotifyOnly sv (pushOnce sv) := by
  refine ⟨rfl, ?_⟩
  simp only [pushOnce, List.map_map]
  apply List.map_congr_left
  intro t _
  simp only [Function.comp]
  cases h1 : t.nextData <;> cases h2 : t.nextIdx <;> simp [Sess.core, h1, h2]

theorem pushAll_notify (sv : Server) : NotifyOnly sv (pushAll sv) := by
  unfold pushAll
  split
  · exact pushOnce_notify sv
  · exact NotifyOnly.refl sv

/-! ## notification pipeline -/

theorem nodeChangedAux_notify (sv : Server) (sid : Nat) (np : Bytes) (d : Option Nat) (removed : Bool) :
    NotifyOnly sv (nodeChangedAux sv sid np d removed) := by
  unfold nodeChangedAux
  split
  · exact NotifyOnly.refl sv
  · rename_i s hs
    simp only []
    have tail : ∀ (a b : Server), NotifyOnly a b →
        NotifyOnly a (match b.sess? sid with
          | none => b
          | some s => match s.nextData with
            | some m => if m.numNames ≥ s.maxItems then pushAll b else b
            | none => b) := by
      intro a b hab
      split
      · exact hab
      · split
        · split
          · exact hab.trans (pushAll_notify b)
          · exact hab
        · exact hab
    apply tail
    split
    · split
      · refine NotifyOnly.trans ?_ (dirty_notify _ true)
        refine NotifyOnly.trans ?_ (updSess_notify _ sid _ (by intro _; rfl))
        refine NotifyOnly.trans ?_ (pushAll_notify _)
        refine NotifyOnly.trans ?_ (updSess_notify _ sid _ (by intro _; rfl))
        exact dirty_notify sv true
      · exact (dirty_notify sv true).trans (updSess_notify _ sid _ (by intro _; rfl))
    · exact (dirty_notify sv true).trans (updSess_notify _ sid _ (by intro _; rfl))

theorem nodeChanged_notify (sv : Server) (sid : Nat) (names : List Bytes) (newData : Option Nat)
    (oldData : Option (Option Nat)) (removed : Bool) :
    NotifyOnly sv (nodeChanged sv sid names newData oldData removed) := by
  unfold nodeChanged
  split
  · exact NotifyOnly.refl sv
  · simp only []
    repeat' split
    all_goals first | exact NotifyOnly.refl sv | exact nodeChangedAux_notify ..

theorem notifyChanged_notify (sv : Server) (by_ : Nat) (names : List Bytes) (node : Node)
    (oldData : Option (Option Nat)) (removed : Bool) :
    NotifyOnly sv (notifyChanged sv by_ names node oldData removed) := by
  unfold notifyChanged
  simp only []
  apply NotifyOnly.foldl
  intro sv ⟨sid, c⟩
  simp only []
  repeat' split
  all_goals first | exact NotifyOnly.refl sv | exact nodeChanged_notify ..

theorem notifyIndex_notify (sv : Server) (names : List Bytes) (node : Node) (instr : Bytes) :
    NotifyOnly sv (notifyIndex sv names node instr) := by
  unfold notifyIndex
  apply NotifyOnly.foldl
  intro sv ⟨sid, c⟩
  simp only []
  split
  · exact NotifyOnly.refl sv
  · split
    · exact NotifyOnly.refl sv
    · refine NotifyOnly.trans ?_ (dirty_notify _ true)
      exact updSess_notify sv sid _ (by intro _; rfl)

/-! ## tree primitives -/

theorem prefix_trans_not {own path names : List Bytes} (h : own <+: path) (hn : ¬ own <+: names) : ¬ path <+: names :=
  fun hp => hn (h.trans hp)

theorem setNode_own (sv : Server) (sid : Nat) {own path : List Bytes} (f : Node → Node)
    (h : own <+: path) (hf : ∀ n, (f n).name = n.name) :
    OnlyOwn sid own sv (setNode sv path f) := by
  refine ⟨fun names hn => ?_, rfl⟩
  simp only [getNode, setNode]
  exact nodeAt_updateAt_off sid hf _ _ _ _ (prefix_trans_not h hn)

/-- (un)marking any node for `sid` is invisible through `strip sid` -/
theorem setNode_subs (sv : Server) (sid : Nat) (own path : List Bytes) (delta : Option Int) :
    OnlyOwn sid own sv (setNode sv path (fun n => n.setSubs (adjustSubs n.subs sid delta))) := by
  refine ⟨fun names _ => ?_, rfl⟩
  simp only [getNode, setNode]
  exact nodeAt_updateAt_subs sid (fun s => adjustSubs s sid delta) (fun s => adjustSubs_filter s sid delta) _ _ _ _

theorem putChild_own (sv : Server) (sid by_ : Nat) {own parent : List Bytes} (child : Node) (notify : Bool)
    (h : own <+: parent) : OnlyOwn sid own sv (putChild sv by_ parent child notify) := by
  unfold putChild
  simp only []
  split
  · exact (setNode_own sv sid _ h (by intro _; rfl)).trans ((notifyChanged_notify ..).onlyOwn sid own)
  · exact setNode_own sv sid _ h (by intro _; rfl)

theorem removeIndexEntry_own (sv : Server) (sid : Nat) {own parent : List Bytes} (key : Bytes) (notify : Bool)
    (h : own <+: parent) : OnlyOwn sid own sv (removeIndexEntry sv parent key notify) := by
  unfold removeIndexEntry
  split
  · exact OnlyOwn.refl ..
  · split
    · exact OnlyOwn.refl ..
    · simp only []
      split
      · split
        · exact (setNode_own sv sid _ h (by intro _; rfl)).trans ((notifyIndex_notify ..).onlyOwn sid own)
        · exact setNode_own sv sid _ h (by intro _; rfl)
      · exact setNode_own sv sid _ h (by intro _; rfl)

theorem removeOne_own (sv : Server) (sid by_ : Nat) {own : List Bytes} (notify : Bool) (names : List Bytes)
    (h : own <+: names.dropLast) : OnlyOwn sid own sv (removeOne sv by_ notify names) := by
  unfold removeOne
  split
  · simp only []
    refine OnlyOwn.trans ?_ (setNode_own _ sid _ h (by intro _; rfl))
    split
    · split
      · exact (removeIndexEntry_own sv sid _ _ h).trans ((notifyChanged_notify ..).onlyOwn sid own)
      · exact removeIndexEntry_own sv sid _ _ h
    · exact removeIndexEntry_own sv sid _ _ h
  · exact OnlyOwn.refl ..

theorem removalOrder_prefix (fuel : Nat) (names : List Bytes) (n : Node) :
    ∀ nm ∈ removalOrder fuel names n, names <+: nm := by
  induction fuel generalizing names n with
  | zero => intro nm h; simp [removalOrder] at h; subst h; exact List.prefix_refl _
  | succ fuel ih =>
    intro nm h
    simp only [removalOrder, List.mem_append, List.mem_flatMap, List.mem_singleton] at h
    rcases h with ⟨k, _, hk⟩ | h
    · exact (List.prefix_append names [k.name]).trans (ih _ _ nm hk)
    · subst h; exact List.prefix_refl _

theorem prefix_dropLast {own nm : List Bytes} (h : own <+: nm) (hl : own.length < nm.length) : own <+: nm.dropLast := by
  obtain ⟨t, rfl⟩ := h
  have : t ≠ [] := by
    intro e; subst e; simp at hl
  rw [List.dropLast_append_of_ne_nil this]
  exact List.prefix_append _ _

theorem removeChild_own (sv : Server) (sid by_ : Nat) {own : List Bytes} (notify : Bool) (names : List Bytes)
    (h : own <+: names) (hl : own.length < names.length) : OnlyOwn sid own sv (removeChild sv by_ notify names) := by
  unfold removeChild
  split
  · exact OnlyOwn.refl ..
  · apply OnlyOwn.foldl
    intro sv1 nm hnm
    have hp := removalOrder_prefix _ _ _ nm hnm
    apply removeOne_own
    apply prefix_dropLast (h.trans hp)
    have := hp.length_le
    omega

theorem insertOrderedChild_own (sv : Server) (sid by_ : Nat) {own parent : List Bytes} (d : Option Nat)
    (before name : Bytes) (nc : Bool) (h : own <+: parent) :
    OnlyOwn sid own sv (insertOrderedChild sv by_ parent d before name nc) := by
  unfold insertOrderedChild
  split
  · exact OnlyOwn.refl ..
  · simp only []
    repeat' split
    all_goals first
      | (refine OnlyOwn.trans ?_ ((notifyIndex_notify ..).onlyOwn sid own)
         refine OnlyOwn.trans ?_ (setNode_own _ sid _ h (by intro _; rfl))
         refine OnlyOwn.trans ?_ (putChild_own _ sid by_ _ nc h)
         exact setNode_own _ sid _ h (by intro _; rfl))
      | (refine OnlyOwn.trans ?_ (setNode_own _ sid _ h (by intro _; rfl))
         refine OnlyOwn.trans ?_ (putChild_own _ sid by_ _ nc h)
         exact setNode_own _ sid _ h (by intro _; rfl))
      | (refine OnlyOwn.trans ?_ (putChild_own _ sid by_ _ nc h)
         exact setNode_own _ sid _ h (by intro _; rfl))

theorem reorderChild_own (sv : Server) (sid : Nat) {own parent : List Bytes} (child before : Bytes)
    (h : own <+: parent) : OnlyOwn sid own sv (reorderChild sv parent child before) := by
  unfold reorderChild
  split
  · exact OnlyOwn.refl ..
  · split
    · exact OnlyOwn.refl ..
    · split
      · exact OnlyOwn.refl ..
      · repeat' (first | split | simp only [])
        all_goals first
          | exact removeIndexEntry_own sv sid _ _ h
          | (refine OnlyOwn.trans ?_ ((notifyIndex_notify ..).onlyOwn sid own)
             refine OnlyOwn.trans ?_ (setNode_own _ sid _ h (by intro _; rfl))
             exact removeIndexEntry_own sv sid _ _ h)
          | (refine OnlyOwn.trans ?_ (setNode_own _ sid _ h (by intro _; rfl))
             exact removeIndexEntry_own sv sid _ _ h)

end Muscle.Reflector
