import MuscleModel.Reflector.MirrorProofs5
import MuscleModel.Reflector.Update

/-!
# C04 lemmas, part 6: which node event reaches which subscriber (`NotifySubscribersThatNodeChanged`)

* `changeEv s names new old removed`: the event `NodeChanged` hands to `NodeChangedAux` for session `s` — nothing, a set
  or a removal — as a function of the session's subscriptions alone (the filter transition rule).
* `feedSrv sv sid ev`: `NodeChangedAux` for that event (the server-side `feed` of `Reflector/Update.lean`).
* `nodeChanged_twin`, `notifyChanged_twin`: the model functions ARE the fold of `feedSrv` over `changeEvents`, the
  explicit list of (session id, event) pairs.
-/

set_option linter.unusedSimpArgs false
set_option linter.unusedVariables false

namespace Muscle.Reflector
open Muscle

/-- the filter transition rule of `NodeChanged` -/
def changeEv (s : Sess) (names : List Bytes) (newData : Option Nat) (oldData : Option (Option Nat)) (removed : Bool) :
    Option Ev :=
  if !s.subsEnabled then none else
  let np := pathString names
  if pmNumFilters s.subs > 0 then
    let matchedBefore := match oldData with
      | none => pmMatchesPath s.subs names false none
      | some od => pmMatchesPath s.subs names true od
    if removed then (if matchedBefore then some (.removed np) else none)
    else
      let matchesNow := pmMatchesPath s.subs names true newData
      match oldData with
      | some _ => if matchesNow then some (.set np newData) else (if matchedBefore then some (.removed np) else none)
      | none => if matchesNow then some (.set np newData) else none
  else some (if removed then .removed np else .set np newData)

/-- `NodeChangedAux` for one event -/
def feedSrv (sv : Server) (sid : Nat) : Ev → Server
  | .set np d => nodeChangedAux sv sid np d false
  | .removed np => nodeChangedAux sv sid np none true

theorem mr_nodeChangedAux_removed (sv : Server) (sid : Nat) (np : Bytes) (d : Option Nat) :
    nodeChangedAux sv sid np d true = nodeChangedAux sv sid np none true := by
  unfold nodeChangedAux
  rfl

theorem nodeChanged_twin (sv : Server) (sid : Nat) (names : List Bytes) (newData : Option Nat)
    (oldData : Option (Option Nat)) (removed : Bool) :
    nodeChanged sv sid names newData oldData removed =
      match sv.sess? sid with
      | none => sv
      | some s =>
        match changeEv s names newData oldData removed with
        | none => sv
        | some ev => feedSrv sv sid ev := by
  unfold nodeChanged
  cases hs : sv.sess? sid with
  | none => rfl
  | some s =>
    simp only [changeEv]
    cases hen : s.subsEnabled with
    | false => simp
    | true =>
      simp only [Bool.not_true, Bool.false_eq_true, if_false]
      by_cases hf : pmNumFilters s.subs > 0
      · simp only [hf, if_true]
        cases removed with
        | true =>
          simp only [if_true]
          cases oldData with
          | none =>
            simp only []
            cases pmMatchesPath s.subs names false none with
            | false => simp
            | true => simp [feedSrv]; exact mr_nodeChangedAux_removed ..
          | some od =>
            simp only []
            by_cases hm : pmMatchesPath s.subs names true od = true
            · simp [hm, feedSrv]; exact mr_nodeChangedAux_removed ..
            · simp [hm]
        | false =>
          simp only [Bool.false_eq_true, if_false]
          cases oldData with
          | none =>
            simp only []
            by_cases hm : pmMatchesPath s.subs names true newData = true
            · simp [hm, feedSrv]
            · simp [hm]
          | some od =>
            simp only []
            by_cases hm : pmMatchesPath s.subs names true newData = true
            · simp [hm, feedSrv]
            · by_cases hb : pmMatchesPath s.subs names true od = true
              · simp [hm, hb, feedSrv]; exact mr_nodeChangedAux_removed ..
              · simp [hm, hb]
      · simp only [hf, if_false]
        cases removed with
        | true => simp [feedSrv]; exact mr_nodeChangedAux_removed ..
        | false => simp [feedSrv]

/-! ## a session's subscriptions are stable under notifications -/

theorem mr_sess_core_of_notify {a b : Server} (h : NotifyOnly a b) (sid : Nat) :
    (b.sess? sid).map Sess.core = (a.sess? sid).map Sess.core := by
  have key : ∀ l : List Sess, (l.find? (fun s => s.sid = sid)).map Sess.core =
      (l.map Sess.core).find? (fun s => s.sid = sid) := by
    intro l
    induction l with
    | nil => rfl
    | cons x r ih =>
      simp only [List.map_cons, List.find?_cons]
      have : (Sess.core x).sid = x.sid := rfl
      rw [this]
      split
      · rfl
      · exact ih
  unfold Server.sess?
  rw [key, key, h.2]

theorem mr_changeEv_core (s t : Sess) (h : s.core = t.core) (names : List Bytes) (nd : Option Nat)
    (od : Option (Option Nat)) (removed : Bool) : changeEv s names nd od removed = changeEv t names nd od removed := by
  have h1 : s.subs = t.subs := by have := congrArg Sess.subs h; exact this
  have h2 : s.subsEnabled = t.subsEnabled := by have := congrArg Sess.subsEnabled h; exact this
  unfold changeEv
  rw [h1, h2]

/-- the event (if any) for session `sid`, decided on the state `sv` -/
def sessEv (sv : Server) (sid : Nat) (names : List Bytes) (nd : Option Nat) (od : Option (Option Nat)) (removed : Bool) :
    Option Ev :=
  (sv.sess? sid).bind (fun s => changeEv s names nd od removed)

theorem mr_sessEv_notify {a b : Server} (h : NotifyOnly a b) (sid : Nat) (names : List Bytes) (nd : Option Nat)
    (od : Option (Option Nat)) (removed : Bool) : sessEv b sid names nd od removed = sessEv a sid names nd od removed := by
  have := mr_sess_core_of_notify h sid
  unfold sessEv
  cases hb : b.sess? sid with
  | none =>
    rw [hb] at this
    cases ha : a.sess? sid with
    | none => rfl
    | some s => rw [ha] at this; simp at this
  | some t =>
    rw [hb] at this
    cases ha : a.sess? sid with
    | none => rw [ha] at this; simp at this
    | some s =>
      rw [ha] at this
      simp only [Option.map_some, Option.some.injEq] at this
      simp only [Option.bind_some]
      exact mr_changeEv_core t s this names nd od removed

theorem nodeChanged_sessEv (sv : Server) (sid : Nat) (names : List Bytes) (nd : Option Nat)
    (od : Option (Option Nat)) (removed : Bool) :
    nodeChanged sv sid names nd od removed =
      match sessEv sv sid names nd od removed with
      | none => sv
      | some ev => feedSrv sv sid ev := by
  rw [nodeChanged_twin]
  unfold sessEv
  cases sv.sess? sid with
  | none => rfl
  | some s => rfl

theorem mr_feedSrv_notify (sv : Server) (sid : Nat) (ev : Ev) : NotifyOnly sv (feedSrv sv sid ev) := by
  cases ev with
  | set np d => exact nodeChangedAux_notify ..
  | removed np => exact nodeChangedAux_notify ..

/-- whether the caller `by_` reflects its own changes to itself -/
def bySelfOf (sv : Server) (by_ : Nat) : Bool := match sv.sess? by_ with | some s => s.reflectSelf | none => false

/-- the (session id, event) pairs `NotifySubscribersThatNodeChanged` produces, in the order of the node's
    subscriber table, all decided on the state before the call -/
def changeEvents (sv : Server) (by_ : Nat) (names : List Bytes) (node : Node) (od : Option (Option Nat))
    (removed : Bool) : List (Nat × Ev) :=
  node.subs.filterMap (fun (p : Nat × Nat) =>
    if p.1 ≠ by_ || bySelfOf sv by_ then (sessEv sv p.1 names node.data od removed).map (fun ev => (p.1, ev)) else none)

theorem notifyChanged_twin (sv : Server) (by_ : Nat) (names : List Bytes) (node : Node) (od : Option (Option Nat))
    (removed : Bool) :
    notifyChanged sv by_ names node od removed =
      (changeEvents sv by_ names node od removed).foldl (fun sv (p : Nat × Ev) => feedSrv sv p.1 p.2) sv := by
  unfold notifyChanged changeEvents
  -- generalise the running state: it differs from `sv` by notifications only
  suffices H : ∀ (bs : Bool) (l : List (Nat × Nat)) (cur : Server), NotifyOnly sv cur →
      l.foldl (fun sv (x : Nat × Nat) =>
        if x.1 ≠ by_ || bs then nodeChanged sv x.1 names node.data od removed else sv) cur =
      (l.filterMap (fun (p : Nat × Nat) =>
        if p.1 ≠ by_ || bs then (sessEv sv p.1 names node.data od removed).map (fun ev => (p.1, ev)) else none)).foldl
        (fun sv (p : Nat × Ev) => feedSrv sv p.1 p.2) cur by
    exact H (bySelfOf sv by_) node.subs sv (NotifyOnly.refl sv)
  intro bs
  intro l
  induction l with
  | nil => intro cur _; rfl
  | cons x r ih =>
    intro cur hcur
    simp only [List.foldl_cons, List.filterMap_cons]
    by_cases hx : (x.1 ≠ by_ || bs) = true
    · simp only [hx, if_true]
      rw [nodeChanged_sessEv, mr_sessEv_notify hcur]
      cases hev : sessEv sv x.1 names node.data od removed with
      | none => simp only [Option.map_none]; exact ih cur hcur
      | some ev =>
        simp only [Option.map_some, List.foldl_cons]
        exact ih _ (hcur.trans (mr_feedSrv_notify cur x.1 ev))
    · simp only [hx, if_false, Bool.false_eq_true]
      exact ih cur hcur

/-! ## membership in `changeEvents` -/

theorem mr_mem_changeEvents {sv : Server} {by_ : Nat} {names : List Bytes} {node : Node} {od : Option (Option Nat)}
    {removed : Bool} {sid : Nat} {ev : Ev} :
    (sid, ev) ∈ changeEvents sv by_ names node od removed ↔
      (∃ c, (sid, c) ∈ node.subs) ∧ (sid ≠ by_ ∨ bySelfOf sv by_ = true) ∧
        sessEv sv sid names node.data od removed = some ev := by
  unfold changeEvents
  simp only [List.mem_filterMap]
  constructor
  · rintro ⟨⟨k, c⟩, hm, hx⟩
    simp only [] at hx
    split at hx
    · rename_i hc
      cases hse : sessEv sv k names node.data od removed with
      | none => rw [hse] at hx; simp at hx
      | some e =>
        rw [hse] at hx
        simp only [Option.map_some, Option.some.injEq, Prod.mk.injEq] at hx
        obtain ⟨rfl, rfl⟩ := hx
        exact ⟨⟨c, hm⟩, by simpa using hc, hse⟩
    · cases hx
  · rintro ⟨⟨c, hm⟩, hc, hse⟩
    refine ⟨(sid, c), hm, ?_⟩
    simp only []
    rw [if_pos (by simpa using hc), hse]
    rfl

/-- at most one event per session when the ids of the subscriber table are pairwise distinct -/
theorem mr_changeEvents_nodup (sv : Server) (by_ : Nat) (names : List Bytes) (node : Node) (od : Option (Option Nat))
    (removed : Bool) (h : (node.subs.map (·.1)).Nodup) :
    ((changeEvents sv by_ names node od removed).map (·.1)).Nodup := by
  unfold changeEvents
  generalize node.subs = l at h
  induction l with
  | nil => simp
  | cons x r ih =>
    simp only [List.map_cons, List.nodup_cons] at h
    simp only [List.filterMap_cons]
    split
    · exact ih h.2
    · rename_i b hb
      simp only [List.map_cons, List.nodup_cons]
      refine ⟨?_, ih h.2⟩
      have hb1 : b.1 = x.1 := by
        split at hb
        · cases hse : sessEv sv x.1 names node.data od removed with
          | none => rw [hse] at hb; simp at hb
          | some e => rw [hse] at hb; simp at hb; rw [← hb]
        · cases hb
      intro hm
      obtain ⟨q, hq, hq1⟩ := List.mem_map.1 hm
      obtain ⟨y, hy, hyq⟩ := List.mem_filterMap.1 hq
      have hy1 : q.1 = y.1 := by
        split at hyq
        · cases hse : sessEv sv y.1 names node.data od removed with
          | none => rw [hse] at hyq; simp at hyq
          | some e => rw [hse] at hyq; simp at hyq; rw [← hyq]
        · cases hyq
      apply h.1
      rw [← hb1, ← hq1, hy1]
      exact List.mem_map_of_mem hy

end Muscle.Reflector
