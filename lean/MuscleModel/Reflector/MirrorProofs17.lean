import MuscleModel.Reflector.MirrorProofs16

/-!
# C04 lemmas, part 17: departure of ANOTHER session; steady-state histories; the convergence theorem for them

* `SyncFor sid sv sv'`: for the one subscriber `sid` (if attached, with subscriptions enabled) and every mirror there are
  events with `Sync`.  `SyncAll` gives it for every `sid`.
* `syncFor_detach`: `detach sv t` for `t ≠ sid` — the departing session's subtree is taken apart with notifications
  (`syncAll_removeChild`), an emptied host node is removed, pending updates are pushed, the marks of `t` are cleared, `t`
  leaves the session table.
* `Steady sid`: histories made of PR_COMMAND_SETDATA (no flags, any sender, depth bound), REMOVEDATA (any sender), pushes,
  departures of other sessions.  `converges_steady`: between two quiescent points of such a history the client that applies
  what was delivered turns a right mirror into a right mirror.
-/

set_option linter.unusedSimpArgs false
set_option linter.unusedVariables false

namespace Muscle.Reflector
open Muscle Muscle.Eng.SrvEngine

def SyncFor (sid : Nat) (sv sv' : Server) : Prop :=
  ∀ s, sv.sess? sid = some s → s.subsEnabled = true → ∀ m, ∃ evs, Sync sid s sv sv' m evs

theorem SyncFor.refl (sid : Nat) (sv : Server) : SyncFor sid sv sv := fun s _ _ m => ⟨[], Sync.refl sid s sv m⟩

theorem SyncFor.trans {sid : Nat} {a b c : Server} (h1 : SyncFor sid a b) (h2 : SyncFor sid b c) : SyncFor sid a c := by
  intro s hs hen m
  obtain ⟨e1, hs1⟩ := h1 s hs hen m
  obtain ⟨s1, _, hs1', hc1, _, _⟩ := hs1.1 s hs
  have hen1 : s1.subsEnabled = true := by
    have := congrArg Sess.subsEnabled hc1
    have h' : s1.subsEnabled = s.subsEnabled := this
    rw [h']; exact hen
  obtain ⟨e2, hs2⟩ := h2 s1 hs1' hen1 (e1.foldl applyEv m)
  exact ⟨e1 ++ e2, hs1.trans (sync_core hc1 hs2)⟩

theorem SyncAll.for {sv sv' : Server} (h : SyncAll sv sv') (sid : Nat) : SyncFor sid sv sv' :=
  fun s hs hen m => h sid s hs hen m

/-- the session `sid` is found unchanged, every payload of the tree is unchanged -/
theorem syncFor_of_same {sid : Nat} {sv sv' : Server} (hs : sv'.sess? sid = sv.sess? sid)
    (hdata : ∀ w, (getNode sv' w).map Node.data = (getNode sv w).map Node.data) : SyncFor sid sv sv' := by
  intro s hss _ m
  refine ⟨[], ?_, fun hm => ?_⟩
  · intro s0 hs0
    exact ⟨s0, [], by rw [hs]; exact hs0, rfl, by simp, fun _ => rfl⟩
  · intro p d
    rw [matches_congr (a := sv) (b := sv') hdata s p d]
    exact hm p d

theorem removalOrder_leaf (fuel : Nat) (names : List Bytes) (n : Node) (h : n.kids = []) :
    removalOrder fuel names n = [names] := by
  cases fuel with
  | zero => rfl
  | succ f => simp [removalOrder, h]

/-- the emptied host node goes away: one `removeOne`, notified to everybody but the departing session -/
theorem syncFor_removeHost {sv : Server} (h : Inv sv) (t : Nat) (host : Bytes) {hn : Node}
    (hh : getNode sv [host] = some hn) (hk : hn.kids = []) {sid : Nat} (hne : sid ≠ t) :
    SyncFor sid sv (removeChild sv t true [host]) := by
  unfold removeChild
  rw [hh]
  simp only [removalOrder_leaf _ _ _ hk, List.foldl_cons, List.foldl_nil]
  intro s hs hen m
  have hnd : NoDesc sv ([] ++ [host]) := by
    intro ext he
    cases ext with
    | nil => exact absurd rfl he
    | cons b r =>
      rw [mr_getNode_append]
      have : getNode sv ([] ++ [host]) = some hn := hh
      rw [this]
      simp only [Option.bind_some]
      cases fuelDepth - ([] ++ [host] : List Bytes).length with
      | zero => exact nodeAt_zero_cons _ _ _
      | succ k => rw [nodeAt_succ_cons, hk]; rfl
  have hvis : visible s ([] ++ [host]) = true := by
    simp [visible, ownerName]
  have hvis' : visible s [host] = true := hvis
  exact sync_removeOne_core h t [] host hh hnd hs hen (by simp [hne, hvis']) m

theorem sess?_filter_ne (l : List Sess) (t sid : Nat) (hne : sid ≠ t) :
    (l.filter (fun x => x.sid ≠ t)).find? (fun x => x.sid = sid) = l.find? (fun x => x.sid = sid) := by
  apply find?_filter_of_imp
  intro x hx
  simp only [decide_eq_true_eq] at hx
  simp [hx, hne]

/-- the last phase of `detach`: the marks of `t` are cleared (or the tree is empty), `t` leaves the table -/
theorem syncFor_detach_tail (X : Server) (t : Nat) {sid : Nat} (hne : sid ≠ t) (subs : PM) :
    SyncFor sid X
      (let sv4 := if X.root.kids.isEmpty then { X with live := false }
        else (travGlobal X subs false cbContinue).foldl
          (fun sv v => setNode sv v (fun n => n.setSubs (adjustSubs n.subs t none))) X
       { sv4 with sessions := sv4.sessions.filter (fun x => x.sid ≠ t) }) := by
  simp only []
  split
  · apply syncFor_of_same
    · unfold Server.sess?
      exact sess?_filter_ne X.sessions t sid hne
    · intro w; rfl
  · apply syncFor_of_same
    · unfold Server.sess?
      have hsess : ∀ (V : List (List Bytes)) (Y : Server),
          (List.foldl (fun sv v => setNode sv v (fun n => n.setSubs (adjustSubs n.subs t none))) Y V).sessions
            = Y.sessions := by
        intro V
        induction V with
        | nil => intro Y; rfl
        | cons v r ih => intro Y; simp only [List.foldl_cons]; rw [ih]; rfl
      show (List.filter _ (List.foldl _ X _).sessions).find? _ = _
      rw [hsess]
      exact sess?_filter_ne X.sessions t sid hne
    · intro w
      exact mr_refs_data t none _ X w

/-- departure of another session -/
theorem syncFor_detach {sv : Server} (h : Inv sv) (t : Nat) {sid : Nat} (hne : sid ≠ t) :
    SyncFor sid sv (detach sv t) := by
  unfold detach
  cases hst : sv.sess? t with
  | none => exact SyncFor.refl sid sv
  | some st =>
    simp only []
    -- phase 1: the subtree of `t`
    have hnames : sessNames st = [st.host] ++ [sidName st.sid] := rfl
    obtain ⟨s1, i1, o1⟩ := syncAll_removeChild h (a := t) (own := sessNames st) ⟨st, hst, rfl⟩ [st.host] (sidName st.sid)
      (by rw [← hnames]; exact List.prefix_refl _)
    rw [← hnames] at s1 i1 o1
    generalize hsv1 : removeChild sv t true (sessNames st) = sv1 at s1 i1 o1 ⊢
    have fin : ∀ Y, SyncFor sid sv1 Y → SyncFor sid sv
        (let sv4 := if (pushAll Y).root.kids.isEmpty then { pushAll Y with live := false }
          else (travGlobal (pushAll Y) st.subs false cbContinue).foldl
            (fun sv v => setNode sv v (fun n => n.setSubs (adjustSubs n.subs t none))) (pushAll Y)
         { sv4 with sessions := sv4.sessions.filter (fun x => x.sid ≠ t) }) := by
      intro Y s2
      exact (s1.for sid).trans (s2.trans (((SyncAll.pushAll Y).for sid).trans
        (syncFor_detach_tail (pushAll Y) t hne st.subs)))
    split
    · rename_i hn hh
      split
      · rename_i hk
        exact fin _ (syncFor_removeHost i1 t st.host hh (by simpa using hk) hne)
      · exact fin _ (SyncFor.refl sid sv1)
    · exact fin _ (SyncFor.refl sid sv1)

/-! ## steady-state histories -/

inductive Steady (sid : Nat) : Server → Server → Prop
  | refl (sv : Server) : Steady sid sv sv
  | set {sv : Server} (a : Nat) (path : Bytes) (x : Nat) : SetOK path → Steady sid sv (runCmd sv a (.set path x false))
  | rm {sv : Server} (a : Nat) (keys : List Bytes) : Steady sid sv (runCmd sv a (.rm keys))
  | push {sv : Server} : Steady sid sv (pushAll sv)
  | detach {sv : Server} (t : Nat) : t ≠ sid → Steady sid sv (detach sv t)
  | trans {a b c : Server} : Steady sid a b → Steady sid b c → Steady sid a c

theorem Inv.pushAll {sv : Server} (h : Inv sv) : Inv (pushAll sv) :=
  ⟨treeInv_pushAll h.1, h.2.1.pushAll, NS.pushAll h.2.2⟩

theorem steady_sync {sid : Nat} {sv sv' : Server} (hst : Steady sid sv sv') (h : Inv sv) :
    SyncFor sid sv sv' ∧ Inv sv' := by
  induction hst with
  | refl sv => exact ⟨SyncFor.refl sid sv, h⟩
  | set a path x hok =>
    obtain ⟨s1, g1⟩ := syncAll_set h.2 a path hok x
    exact ⟨s1.for sid, treeInv_runCmd a _ h.1, g1⟩
  | rm a keys =>
    obtain ⟨s1, i1⟩ := syncAll_removeData h a keys
    exact ⟨s1.for sid, i1⟩
  | push => exact ⟨(SyncAll.pushAll _).for sid, h.pushAll⟩
  | detach t hne =>
    refine ⟨syncFor_detach h t (fun e => hne e.symm), ?_⟩
    have := MKT.detach (sv := _) ⟨h.1, h.2.1⟩ t
    exact ⟨this.1, this.2, NS.detach t h.2.2⟩
  | trans _ _ ih1 ih2 =>
    obtain ⟨s1, i1⟩ := ih1 h
    obtain ⟨s2, i2⟩ := ih2 i1
    exact ⟨s1.trans s2, i2⟩

/-- `setm` is a steady history -/
theorem steady_setm (sid : Nat) (a : Nat) (path : Bytes) (hok : SetOK path) (vs : List Nat) (sv : Server) :
    Steady sid sv (vs.foldl (fun sv v => runCmd sv a (.set path v false)) sv) := by
  induction vs generalizing sv with
  | nil => exact .refl sv
  | cons v r ih => simp only [List.foldl_cons]; exact .trans (.set a path v hok) (ih _)

/-- every `CReach` state satisfies the invariants the steps need -/
theorem CReach.inv {sv : Server} (h : CReach sv) : Inv sv :=
  ⟨(mkt_reach h.mreach).1, (mkt_reach h.mreach).2, h.ns⟩

/-- CONVERGENCE over steady-state histories.  From a state satisfying the invariants (every `CReach` state) in which the
    subscriber `sid` is quiescent and holds a right mirror, through any steady history to a state in which it is quiescent
    again: what was appended to the PR_RESULT_DATAITEMS lines of its inbox is the text of structured Messages `sent`, and
    the client applying them in order (removals first, then sets, per Message) holds a right mirror again. -/
theorem converges_steady_core {sid : Nat} {sv sv' : Server} (hst : Steady sid sv sv') (h : Inv sv) {s : Sess}
    (hs : sv.sess? sid = some s) (hen : s.subsEnabled = true) (hq : pend s = {})
    (hq' : ∀ s', sv'.sess? sid = some s' → pend s' = {}) (m : Mirror) (hm : MirrorOK sv s m) :
    ∃ s' sent, sv'.sess? sid = some s' ∧ s'.vcore = s.vcore ∧ dataLines s' = dataLines s ++ sent.map dataText ∧
      MirrorOK sv' s' (applyMsgs m sent) := by
  obtain ⟨hsync, _⟩ := steady_sync hst h
  obtain ⟨evs, hsy⟩ := hsync s hs hen m
  obtain ⟨s', sent, hs', hc, hd, _, hok⟩ := replay_of_sync hsy hs hq hq'
  exact ⟨s', sent, hs', hc, hd, (mirrorOK_core hc sv' _).2 (hok hm)⟩

end Muscle.Reflector
