import MuscleModel.Reflector.MirrorProofs8
import MuscleModel.Reflector.UpdateProofs

/-!
# C04 lemmas, part 9: the structured twin of delivery for ONE session

The model keeps what a client received as canonical TEXT (`inbox`).  The structured view of session `s`:
* `pend s` = its pending PR_RESULT_DATAITEMS Message (`nextData`, empty if none);
* `dataLines s` = the PR_RESULT_DATAITEMS lines of its inbox (`isData`: the lines `dataText` produces start with `D`,
  every other line the model delivers — `I[…]`, `PONG`, `PARAMS`, `MSG` — does not).

`auxSess s np d removed` is `NodeChangedAux` seen from the session record alone; `nodeChangedAux_sess` proves it IS what the
model does to that session, and `auxSess_feed` that it IS `feed s.maxItems` of `Reflector/Update.lean` on the abstract pipe
`⟨pend s, []⟩`: same pending Message afterwards, and the data lines appended to the inbox are exactly
`(feed …).sent.map dataText` (`twin_text`).  For every OTHER session the same call is the identity or a flush
(`pushSess`).  `PipeStep sid sv sv' evs` packages this: session `sid` keeps its identity and parameters, receives some
structured Messages `sent` whose text is what was appended to its data lines, and the view of a client that applies
everything sent and then the pending Message advances by exactly the events `evs`.
-/

set_option linter.unusedSimpArgs false
set_option linter.unusedVariables false

namespace Muscle.Reflector
open Muscle

/-! ## text discrimination -/

def isData (l : String) : Bool := l.toList.head? == some 'D'

theorem isData_dataText (m : UpdMsg) : isData (dataText m) = true := by
  simp [isData, dataText, String.toList_append]

theorem isData_idxText (m : IdxMsg) : isData (idxText m) = false := by
  simp [isData, idxText, String.toList_append]

def dataLines (s : Sess) : List String := s.inbox.filter isData

def pend (s : Sess) : UpdMsg := s.nextData.getD {}

/-! ## session lookup after the session-table primitives -/

theorem mr_find_map {α} (g : α → α) (p : α → Bool) (hp : ∀ x, p (g x) = p x) (l : List α) :
    (l.map g).find? p = (l.find? p).map g := by
  induction l with
  | nil => rfl
  | cons a r ih =>
    simp only [List.map_cons, List.find?_cons, hp]
    split
    · rfl
    · exact ih

theorem sess?_updSess (sv : Server) (sid : Nat) (f : Sess → Sess) (hf : ∀ s, (f s).sid = s.sid) (t : Nat) :
    (sv.updSess sid f).sess? t = (sv.sess? t).map (fun s => if s.sid = sid then f s else s) := by
  unfold Server.sess? Server.updSess
  apply mr_find_map
  intro x
  split
  · rw [hf]
  · rfl

theorem sess?_updSess_same (sv : Server) (sid : Nat) (f : Sess → Sess) (hf : ∀ s, (f s).sid = s.sid) {s : Sess}
    (hs : sv.sess? sid = some s) : (sv.updSess sid f).sess? sid = some (f s) := by
  rw [sess?_updSess sv sid f hf, hs]
  have : s.sid = sid := by simpa using List.find?_some hs
  simp [this]

theorem sess?_updSess_other (sv : Server) (sid : Nat) (f : Sess → Sess) (hf : ∀ s, (f s).sid = s.sid) {t : Nat} {s : Sess}
    (hs : sv.sess? t = some s) (ht : t ≠ sid) : (sv.updSess sid f).sess? t = some s := by
  rw [sess?_updSess sv sid f hf, hs]
  have : s.sid = t := by simpa using List.find?_some hs
  simp [this, ht]

/-- what `PushSubscriptionMessages` does to one session -/
def pushSess (s : Sess) : Sess :=
  let s1 := match s.nextData with
    | some m => { s with nextData := none, inbox := s.inbox ++ [dataText m] }
    | none => s
  match s1.nextIdx with
  | some m => { s1 with nextIdx := none, inbox := s1.inbox ++ [idxText m] }
  | none => s1

theorem pushOnce_eq (sv : Server) : pushOnce sv = { sv with subsDirty := false, sessions := sv.sessions.map pushSess } := rfl

theorem pushSess_sid (s : Sess) : (pushSess s).sid = s.sid := by
  unfold pushSess
  cases s.nextData <;> cases h : s.nextIdx <;> simp [h]

theorem pushSess_core (s : Sess) : (pushSess s).core = s.core := by
  unfold pushSess
  cases h1 : s.nextData <;> cases h2 : s.nextIdx <;> simp [Sess.core, h1, h2]

theorem pushSess_nextData (s : Sess) : (pushSess s).nextData = none := by
  unfold pushSess
  cases h1 : s.nextData <;> cases h2 : s.nextIdx <;> simp [h1, h2]

theorem pushSess_maxItems (s : Sess) : (pushSess s).maxItems = s.maxItems := by
  have := congrArg Sess.maxItems (pushSess_core s); exact this

theorem pushSess_dataLines (s : Sess) :
    dataLines (pushSess s) = dataLines s ++ (match s.nextData with | some m => [dataText m] | none => []) := by
  unfold pushSess dataLines
  cases h1 : s.nextData <;> cases h2 : s.nextIdx <;>
    simp [h1, h2, List.filter_append, isData_dataText, isData_idxText]

theorem pushSess_idem (s : Sess) : pushSess (pushSess s) = pushSess s := by
  have h1 := pushSess_nextData s
  have h2 : (pushSess s).nextIdx = none := by
    unfold pushSess
    cases h1 : s.nextData <;> cases h2 : s.nextIdx <;> simp [h1, h2]
  generalize pushSess s = t at h1 h2
  unfold pushSess
  simp [h1, h2]

theorem sess?_pushOnce (sv : Server) (t : Nat) : (pushOnce sv).sess? t = (sv.sess? t).map pushSess := by
  rw [pushOnce_eq]
  unfold Server.sess?
  apply mr_find_map
  intro x
  rw [pushSess_sid]

theorem sess?_pushAll_dirty (sv : Server) (h : sv.subsDirty = true) (t : Nat) :
    (pushAll sv).sess? t = (sv.sess? t).map pushSess := by
  unfold pushAll
  rw [if_pos h]
  exact sess?_pushOnce sv t

/-- `pushAll` on one session: nothing or `pushSess` -/
theorem sess?_pushAll (sv : Server) (t : Nat) :
    (pushAll sv).sess? t = sv.sess? t ∨ (pushAll sv).sess? t = (sv.sess? t).map pushSess := by
  unfold pushAll
  split
  · right; exact sess?_pushOnce sv t
  · left; rfl

/-! ## `NodeChangedAux` on the session record -/

/-- the flush at `maxItems` -/
def tailSess (x : Sess) : Sess :=
  match x.nextData with
  | some m => if m.numNames ≥ x.maxItems then pushSess x else x
  | none => x

def auxSess (s : Sess) (np : Bytes) (d : Option Nat) (removed : Bool) : Sess :=
  tailSess
    (if removed then
      if (pend s).hasSet np then
        { (pushSess { s with nextData := some (pend s) }) with nextData := some { removed := [np] } }
      else { s with nextData := some { pend s with removed := (pend s).removed ++ [np] } }
    else { s with nextData := some ((pend s).addSet np d) })

theorem nodeChangedAux_sess {sv : Server} {sid : Nat} {s : Sess} (hs : sv.sess? sid = some s) (np : Bytes)
    (d : Option Nat) (removed : Bool) :
    (nodeChangedAux sv sid np d removed).sess? sid = some (auxSess s np d removed) := by
  unfold nodeChangedAux
  rw [hs]
  simp only []
  have hd : ({ sv with subsDirty := true } : Server).sess? sid = some s := hs
  -- the tail: flush at `maxItems`
  have tail : ∀ (X : Server) (x : Sess), X.subsDirty = true → X.sess? sid = some x →
      (match X.sess? sid with
        | none => X
        | some s => match s.nextData with
          | some m => if m.numNames ≥ s.maxItems then pushAll X else X
          | none => X).sess? sid =
      some (tailSess x) := by
    intro X x hX hx
    rw [hx]
    unfold tailSess
    simp only []
    cases hn : x.nextData with
    | none => simp only []; exact hx
    | some m =>
      simp only []
      split
      · rw [sess?_pushAll_dirty X hX, hx]; rfl
      · exact hx
  unfold auxSess
  cases removed with
  | false =>
    simp only [Bool.false_eq_true, if_false]
    apply tail
    · rfl
    · refine sess?_updSess_same _ sid _ ?_ hd
      intro _; rfl
  | true =>
    simp only [if_true]
    by_cases hh : (s.nextData.getD {}).hasSet np = true
    · simp only [hh, if_true, pend]
      apply tail
      · rfl
      · have h1 : (Server.updSess { sv with subsDirty := true } sid
            (fun s' => { s' with nextData := some (s.nextData.getD {}) })).sess? sid =
            some { s with nextData := some (s.nextData.getD {}) } := by
          refine sess?_updSess_same _ sid _ ?_ hd
          intro _; rfl
        have h2 : (pushAll (Server.updSess { sv with subsDirty := true } sid
            (fun s' => { s' with nextData := some (s.nextData.getD {}) }))).sess? sid =
            some (pushSess { s with nextData := some (s.nextData.getD {}) }) := by
          rw [sess?_pushAll_dirty _ rfl, h1]; rfl
        refine sess?_updSess_same _ sid _ ?_ h2
        intro _; rfl
    · simp only [hh, if_false, pend, Bool.false_eq_true]
      apply tail
      · rfl
      · refine sess?_updSess_same _ sid _ ?_ hd
        intro _; rfl

/-- every other session: untouched or flushed -/
theorem nodeChangedAux_other {sv : Server} {sid t : Nat} {x : Sess} (hx : sv.sess? t = some x) (ht : t ≠ sid)
    (np : Bytes) (d : Option Nat) (removed : Bool) :
    (nodeChangedAux sv sid np d removed).sess? t = some x ∨
    (nodeChangedAux sv sid np d removed).sess? t = some (pushSess x) := by
  unfold nodeChangedAux
  cases hs : sv.sess? sid with
  | none => left; exact hx
  | some s =>
    simp only []
    have hd : ({ sv with subsDirty := true } : Server).sess? t = some x := hx
    have tail : ∀ (X : Server), (X.sess? t = some x ∨ X.sess? t = some (pushSess x)) →
        ((match X.sess? sid with
          | none => X
          | some s => match s.nextData with
            | some m => if m.numNames ≥ s.maxItems then pushAll X else X
            | none => X).sess? t = some x ∨
         (match X.sess? sid with
          | none => X
          | some s => match s.nextData with
            | some m => if m.numNames ≥ s.maxItems then pushAll X else X
            | none => X).sess? t = some (pushSess x)) := by
      intro X hX
      have hp : (pushAll X).sess? t = some x ∨ (pushAll X).sess? t = some (pushSess x) := by
        rcases sess?_pushAll X t with h | h
        · rw [h]; exact hX
        · rw [h]
          rcases hX with hX | hX
          · rw [hX]; right; rfl
          · rw [hX]; right; simp [pushSess_idem]
      repeat' split
      all_goals first | exact hX | exact hp
    apply tail
    cases removed with
    | false =>
      simp only [Bool.false_eq_true, if_false]
      left
      refine sess?_updSess_other _ sid _ ?_ hd ht
      intro _; rfl
    | true =>
      simp only [if_true]
      split
      · right
        have h1 : (Server.updSess { sv with subsDirty := true } sid
            (fun s' => { s' with nextData := some (s.nextData.getD {}) })).sess? t = some x := by
          refine sess?_updSess_other _ sid _ ?_ hd ht
          intro _; rfl
        have h2 : (pushAll (Server.updSess { sv with subsDirty := true } sid
            (fun s' => { s' with nextData := some (s.nextData.getD {}) }))).sess? t = some (pushSess x) := by
          rw [sess?_pushAll_dirty _ rfl, h1]; rfl
        refine sess?_updSess_other _ sid _ ?_ h2 ht
        intro _; rfl
      · left
        refine sess?_updSess_other _ sid _ ?_ hd ht
        intro _; rfl

/-! ## `auxSess` is `feed` -/

theorem numNames_pos_of_hasSet {m : UpdMsg} {np : Bytes} (h : m.hasSet np = true) : m.numNames ≠ 0 := by
  unfold UpdMsg.hasSet at h
  unfold UpdMsg.numNames
  cases hs : m.sets with
  | nil => rw [hs] at h; simp at h
  | cons a r => simp

theorem numNames_removed_pos (m : UpdMsg) (np : Bytes) :
    ({ m with removed := m.removed ++ [np] } : UpdMsg).numNames ≠ 0 := by
  unfold UpdMsg.numNames
  simp

theorem numNames_addSet_pos (m : UpdMsg) (np : Bytes) (d : Option Nat) : (m.addSet np d).numNames ≠ 0 := by
  unfold UpdMsg.addSet UpdMsg.numNames
  split
  · rename_i h
    unfold UpdMsg.hasSet at h
    cases hs : m.sets with
    | nil => rw [hs] at h; simp at h
    | cons a r => simp
  · simp

/-- the event `NodeChangedAux(np, d, removed)` feeds -/
def evOf (np : Bytes) (d : Option Nat) (removed : Bool) : Ev := if removed then .removed np else .set np d

/-- the flush at `maxItems`, on a session whose pending Message is `m` and whose data lines are `base` followed by
    the text of `sent` -/
theorem tailSess_pipe (x : Sess) (m : UpdMsg) (hx : x.nextData = some m) (hm0 : m.numNames ≠ 0) (sent : List UpdMsg)
    (base : List String) (hb : dataLines x = base ++ sent.map dataText) :
    pend (tailSess x) =
      (if m.numNames ≥ x.maxItems then ({ cur := m, sent := sent } : Pipe).flush else { cur := m, sent := sent }).cur ∧
    dataLines (tailSess x) = base ++
      (if m.numNames ≥ x.maxItems then ({ cur := m, sent := sent } : Pipe).flush else { cur := m, sent := sent }).sent.map dataText ∧
    (tailSess x).core = x.core := by
  unfold tailSess
  rw [hx]
  simp only []
  by_cases hm : m.numNames ≥ x.maxItems
  · simp only [hm, if_true, Pipe.flush, hm0, if_false]
    refine ⟨by simp [pend, pushSess_nextData], ?_, pushSess_core x⟩
    rw [pushSess_dataLines, hx, hb]
    simp
  · simp only [hm, if_false]
    exact ⟨by simp [pend, hx], hb, trivial⟩

/-- TWIN.  `NodeChangedAux` on the session record is `feed` on the abstract pipe: same pending Message, and the data
    lines appended to the inbox are the text of exactly the Messages `feed` sends. -/
theorem auxSess_feed (s : Sess) (np : Bytes) (d : Option Nat) (removed : Bool) :
    pend (auxSess s np d removed) = (feed s.maxItems { cur := pend s, sent := [] } (evOf np d removed)).cur ∧
    dataLines (auxSess s np d removed) =
      dataLines s ++ (feed s.maxItems { cur := pend s, sent := [] } (evOf np d removed)).sent.map dataText ∧
    (auxSess s np d removed).core = s.core := by
  unfold auxSess evOf
  cases removed with
  | false =>
    simp only [Bool.false_eq_true, if_false, feed]
    exact tailSess_pipe { s with nextData := some ((pend s).addSet np d) } _ rfl (numNames_addSet_pos _ _ _) []
      (dataLines s) (by simp [dataLines])
  | true =>
    simp only [if_true, feed]
    by_cases hh : (pend s).hasSet np = true
    · have hfl : ({ cur := pend s, sent := [] } : Pipe).flush = { cur := {}, sent := [pend s] } := by
        simp [Pipe.flush, numNames_pos_of_hasSet hh]
      simp only [hh, if_true, hfl]
      have hQ := pushSess_dataLines { s with nextData := some (pend s) }
      have hQc := pushSess_core { s with nextData := some (pend s) }
      have hQm := pushSess_maxItems { s with nextData := some (pend s) }
      generalize pushSess { s with nextData := some (pend s) } = Q at hQ hQc hQm
      have h := tailSess_pipe { Q with nextData := some { removed := [np] } } { removed := [np] } rfl
        (by simp [UpdMsg.numNames]) [pend s] (dataLines s) (by
          have : dataLines { Q with nextData := some { removed := [np] } } = dataLines Q := rfl
          rw [this, hQ]; simp [dataLines])
      have hk : Q.maxItems = s.maxItems := hQm
      rw [← hk]
      refine ⟨h.1, h.2.1, ?_⟩
      rw [h.2.2]
      have : ({ Q with nextData := some { removed := [np] } } : Sess).core = Q.core := rfl
      rw [this, hQc]; rfl
    · simp only [hh, if_false, Bool.false_eq_true]
      exact tailSess_pipe { s with nextData := some { pend s with removed := (pend s).removed ++ [np] } } _ rfl
        (numNames_removed_pos _ _) [] (dataLines s) (by simp [dataLines])

/-! ## `PipeStep` -/

/-- the part of `core` the data view reads: everything but max-items, the parameter list, the indexing flag and the
    default route -/
def Sess.vcore (t : Sess) : Sess :=
  { t.core with maxItems := 0, params := [], indexingPresent := false, route := [], hasRouteKeys := false,
                routeKeys := [], routeFilts := none }

theorem vcore_of_core {s t : Sess} (h : s.core = t.core) : s.vcore = t.vcore := by
  unfold Sess.vcore; rw [h]

/-- session `sid` keeps identity and parameters from `sv` to `sv'`, receives structured Messages `sent` whose text is
    what was appended to its data lines, and its client's view advances by exactly the events `evs` -/
def PipeStep (sid : Nat) (sv sv' : Server) (evs : List Ev) : Prop :=
  ∀ s, sv.sess? sid = some s → ∃ s' sent, sv'.sess? sid = some s' ∧ s'.vcore = s.vcore ∧
    dataLines s' = dataLines s ++ sent.map dataText ∧
    ∀ m, applyMsg (applyMsgs m sent) (pend s') = evs.foldl applyEv (applyMsg m (pend s))

theorem PipeStep.refl (sid : Nat) (sv : Server) : PipeStep sid sv sv [] := by
  intro s hs
  exact ⟨s, [], hs, rfl, by simp, fun m => rfl⟩

theorem applyMsgs_append (m : Mirror) (a b : List UpdMsg) : applyMsgs m (a ++ b) = applyMsgs (applyMsgs m a) b := by
  simp [applyMsgs, List.foldl_append]

theorem PipeStep.trans {sid : Nat} {a b c : Server} {e1 e2 : List Ev} (h1 : PipeStep sid a b e1)
    (h2 : PipeStep sid b c e2) : PipeStep sid a c (e1 ++ e2) := by
  intro s hs
  obtain ⟨s1, sent1, hs1, hc1, hd1, hv1⟩ := h1 s hs
  obtain ⟨s2, sent2, hs2, hc2, hd2, hv2⟩ := h2 s1 hs1
  refine ⟨s2, sent1 ++ sent2, hs2, hc2.trans hc1, ?_, ?_⟩
  · rw [hd2, hd1, List.map_append, List.append_assoc]
  · intro m
    rw [applyMsgs_append, hv2, hv1, List.foldl_append]

/-- a flush of the session (or nothing) is an empty step -/
theorem pipeStep_of_push {sid : Nat} {sv sv' : Server}
    (h : ∀ s, sv.sess? sid = some s → sv'.sess? sid = some s ∨ sv'.sess? sid = some (pushSess s)) :
    PipeStep sid sv sv' [] := by
  intro s hs
  rcases h s hs with h | h
  · exact ⟨s, [], h, rfl, by simp, fun m => rfl⟩
  · refine ⟨pushSess s, (match s.nextData with | some m => [m] | none => []), h, vcore_of_core (pushSess_core s), ?_, ?_⟩
    · rw [pushSess_dataLines]
      cases s.nextData <;> rfl
    · intro m
      simp only [pend, pushSess_nextData, Option.getD_none, applyMsg_empty, List.foldl_nil]
      cases hn : s.nextData with
      | none => simp [applyMsgs, applyMsg_empty]
      | some mm => simp [applyMsgs]

theorem pipeStep_pushAll (sid : Nat) (sv : Server) : PipeStep sid sv (pushAll sv) [] := by
  apply pipeStep_of_push
  intro s hs
  rcases sess?_pushAll sv sid with h | h
  · left; rw [h]; exact hs
  · right; rw [h, hs]; rfl

theorem feedSrv_eq (sv : Server) (sid : Nat) (ev : Ev) :
    ∃ np d removed, feedSrv sv sid ev = nodeChangedAux sv sid np d removed ∧ evOf np d removed = ev := by
  cases ev with
  | set np d => exact ⟨np, d, false, rfl, rfl⟩
  | removed np => exact ⟨np, none, true, rfl, rfl⟩

/-- TWIN, packaged: `feedSrv` for the session itself is one event of its pipe -/
theorem pipeStep_feed_self (sv : Server) (sid : Nat) (ev : Ev) : PipeStep sid sv (feedSrv sv sid ev) [ev] := by
  intro s hs
  obtain ⟨np, d, removed, he, hev⟩ := feedSrv_eq sv sid ev
  rw [he]
  obtain ⟨h1, h2, h3⟩ := auxSess_feed s np d removed
  refine ⟨auxSess s np d removed, (feed s.maxItems { cur := pend s, sent := [] } (evOf np d removed)).sent,
    nodeChangedAux_sess hs np d removed, vcore_of_core h3, h2, ?_⟩
  intro m
  rw [h1]
  have := view_feed s.maxItems { cur := pend s, sent := [] } m (evOf np d removed)
  simp only [Pipe.view] at this
  rw [this, hev]
  simp [applyMsgs]

/-- …and for every other session a flush or nothing -/
theorem pipeStep_feed_other (sv : Server) {sid t : Nat} (ht : t ≠ sid) (ev : Ev) :
    PipeStep t sv (feedSrv sv sid ev) [] := by
  apply pipeStep_of_push
  intro x hx
  obtain ⟨np, d, removed, he, _⟩ := feedSrv_eq sv sid ev
  rw [he]
  exact nodeChangedAux_other hx ht np d removed

/-- the events of a list of (session id, event) pairs that are for `sid` -/
def evsFor (sid : Nat) (l : List (Nat × Ev)) : List Ev := l.filterMap (fun p => if p.1 = sid then some p.2 else none)

theorem pipeStep_fold (sid : Nat) (l : List (Nat × Ev)) (sv : Server) :
    PipeStep sid sv (l.foldl (fun sv (p : Nat × Ev) => feedSrv sv p.1 p.2) sv) (evsFor sid l) := by
  induction l generalizing sv with
  | nil => exact PipeStep.refl sid sv
  | cons p r ih =>
    simp only [List.foldl_cons, evsFor, List.filterMap_cons]
    by_cases hp : p.1 = sid
    · simp only [hp, if_true]
      have := (pipeStep_feed_self sv sid p.2).trans (ih (feedSrv sv sid p.2))
      rw [← hp] at this ⊢
      simpa [evsFor, hp] using this
    · simp only [hp, if_false]
      have := (pipeStep_feed_other sv (t := sid) (sid := p.1) (fun e => hp e.symm) p.2).trans (ih (feedSrv sv p.1 p.2))
      simpa [evsFor] using this

/-- `NotifySubscribersThatNodeChanged`, seen by session `sid`: its pipe is fed the events `changeEvents` holds for it -/
theorem pipeStep_notifyChanged (sid : Nat) (sv : Server) (by_ : Nat) (names : List Bytes) (node : Node)
    (od : Option (Option Nat)) (removed : Bool) :
    PipeStep sid sv (notifyChanged sv by_ names node od removed) (evsFor sid (changeEvents sv by_ names node od removed)) := by
  rw [notifyChanged_twin]
  exact pipeStep_fold sid _ sv

end Muscle.Reflector
