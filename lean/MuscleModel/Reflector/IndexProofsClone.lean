import MuscleModel.Reflector.IndexProofsReorder
import MuscleModel.Reflector.Clone

/-!
# C13: subtree clone / restore (`Reflector/Clone.lean`) keep the whole-tree invariant; the clone's index log replays
-/

set_option linter.unusedSimpArgs false
set_option linter.unusedVariables false

namespace Muscle.Reflector
open Muscle

/-! ## `TreeInv` -/

theorem treeInv_setDataAt {sv : Server} (by_ : Nat) (dest : List Bytes) (d : Option Nat) (ati : Bool)
    (h : TreeInv sv) : TreeInv (setDataAt sv by_ dest d ati).1 := by
  unfold setDataAt
  split
  · exact h
  · split
    · exact treeInv_setDataClauses _ _ _ _ _ _ h
    · simp only []
      split
      · exact h
      · exact treeInv_setDataClauses _ _ _ _ _ _ h

/-- `InsertIndexEntryAt(i, key)` keeps the invariant when `key` is not yet listed (the function itself checks that
    `key` is a child) -/
theorem treeInv_insertIndexEntryAt {sv : Server} (parent : List Bytes) (i : Nat) (key : Bytes) (h : TreeInv sv)
    (hok : ∀ p, getNode sv parent = some p → key ∉ p.index) : TreeInv (insertIndexEntryAt sv parent i key) := by
  unfold insertIndexEntryAt
  cases hg : getNode sv parent with
  | none => exact h
  | some p =>
    simp only
    split
    · exact h
    · rename_i hk
      have hT : TreeInv (setNode sv parent (fun q => q.setIndex (q.index.take i ++ [key] ++ q.index.drop i))) := by
        apply treeInv_setNode (setIndex_name_pres _) h
        intro t htg ht
        rw [hg] at htg; cases htg
        refine allNodes_same_kids ht (by simp) ⟨?_, ?_⟩
        · have := nodup_insertAt i ht.here.1.1 (hok p hg)
          simpa [insertAt] using this
        · intro c hc
          simp only [Node.setIndex_index] at hc
          have hc' : c ∈ insertAt p.index i key := by simpa [insertAt] using hc
          simp only [Node.setIndex_kids]
          rcases mem_insertAt.mp hc' with hc1 | hc1
          · subst hc1
            cases hf : findKid c p.kids with
            | none => simp [hf] at hk
            | some x => rfl
          · exact ht.here.1.2 c hc1
      split
      · exact treeInv_of_root (notifyIndex_root _ _ _ _) hT
      · exact hT

/-- the index loop of the repaired `CloneDataNodeSubtree` keeps the invariant, whatever the source, the destination, the
    counters and the state: before every insert the entry of that name is removed, so no name is ever listed twice -/
theorem treeInv_cloneIndexLoop (src dest : List Bytes) :
    ∀ (r i w : Nat) (sv : Server), TreeInv sv → TreeInv (cloneIndexLoop true src dest r i w sv) := by
  intro r
  induction r with
  | zero => intro i w sv h; simpa [cloneIndexLoop] using h
  | succ r ih =>
    intro i w sv h
    unfold cloneIndexLoop
    split
    · rename_i nm clone hnm hclone
      split
      · apply ih
        apply treeInv_insertIndexEntryAt _ _ _ (by simpa using treeInv_removeIndexEntry dest nm true h)
        intro p hp
        simp only [if_true] at hp
        rw [getNode_removeIndexEntry nm true hclone] at hp
        cases hp
        simpa using not_mem_eraseLast nm (treeInv_getNode h hclone).here.1.1
      · exact ih _ _ _ h
    · exact h

theorem treeInv_cloneIndex {sv : Server} (by_ : Nat) (src dest : List Bytes) (h : TreeInv sv) :
    TreeInv (cloneIndex true by_ sv src dest).1 := by
  unfold cloneIndex
  repeat' split
  all_goals first | exact h | exact treeInv_cloneIndexLoop _ _ _ _ _ _ (treeInv_updSess _ _ h)

theorem treeInv_cloneKidsLoop (recur : Server → Bytes → Server × CStat)
    (hrec : ∀ sv nm, TreeInv sv → TreeInv (recur sv nm).1) (src : List Bytes) :
    ∀ (k i : Nat) (sv : Server), TreeInv sv → TreeInv (cloneKidsLoop recur src k i sv).1 := by
  intro k
  induction k with
  | zero => intro i sv h; simpa [cloneKidsLoop] using h
  | succ k ih =>
    intro i sv h
    unfold cloneKidsLoop
    split
    · exact h
    · simp only
      split
      · exact ih _ _ (hrec _ _ h)
      · exact hrec _ _ h

theorem treeInv_cloneSubtree (by_ : Nat) (base : List Bytes) :
    ∀ (fuel : Nat) (sv : Server) (src dest : List Bytes) (ati : Bool), TreeInv sv →
      TreeInv (cloneSubtree true by_ base fuel sv src dest ati).1 := by
  intro fuel
  induction fuel with
  | zero => intro sv src dest ati h; simpa [cloneSubtree] using h
  | succ fuel ih =>
    intro sv src dest ati h
    unfold cloneSubtree
    split
    · exact h
    · simp only
      have h1 := treeInv_setDataAt by_ dest (by assumption : Node).data ati h
      split
      · exact h1
      · have h2 := treeInv_cloneKidsLoop
          (fun sv nm => cloneSubtree true by_ base fuel sv (src ++ [nm]) (dest ++ [nm]) false)
          (fun sv nm hsv => ih sv _ _ _ hsv) src cloneLoopFuel 0 _ h1
        split
        · exact treeInv_cloneIndex _ _ _ h2
        · exact h2

/-- `CloneDataNodeSubtree` (as repaired), from every state, for every source, destination and flag -/
theorem treeInv_cloneDataNodeSubtree {sv : Server} (by_ : Nat) (src dest : List Bytes) (ati : Bool) (h : TreeInv sv) :
    TreeInv (cloneDataNodeSubtree sv by_ src dest ati).1 := by
  unfold cloneDataNodeSubtree
  split
  · exact h
  · exact treeInv_cloneSubtree _ _ _ _ _ _ _ h

theorem treeInv_restoreKids (recur : Server → Node → Bool → Server × CStat)
    (hrec : ∀ sv k a, TreeInv sv → TreeInv (recur sv k a).1) :
    ∀ (l : List (Node × Bool)) (sv : Server), TreeInv sv → TreeInv (restoreKids recur l sv).1 := by
  intro l
  induction l with
  | nil => intro sv h; simpa [restoreKids] using h
  | cons x r ih =>
    intro sv h
    obtain ⟨k, a⟩ := x
    simp only [restoreKids]
    split
    · exact ih _ (hrec _ _ _ h)
    · exact hrec _ _ _ h

theorem treeInv_restoreTree (by_ : Nat) :
    ∀ (fuel : Nat) (sv : Server) (t : Node) (dest : List Bytes) (ati : Bool) (md : Nat), TreeInv sv →
      TreeInv (restoreTree by_ fuel sv t dest ati md).1 := by
  intro fuel
  induction fuel with
  | zero => intro sv t dest ati md h; simpa [restoreTree] using h
  | succ fuel ih =>
    intro sv t dest ati md h
    unfold restoreTree
    simp only
    have h1 := treeInv_setDataAt by_ dest t.data ati h
    split
    · exact h1
    · split
      · exact h1
      · exact treeInv_restoreKids _ (fun sv k a hsv => ih sv _ _ _ _ hsv) _ _ h1

/-- `RestoreNodeTreeFromMessage`, from every state, for EVERY saved tree (also one no `SaveNodeTreeToMessage` would
    write: an index naming absent children or listing a child twice), destination, flag and depth -/
theorem treeInv_restoreNodeTree {sv : Server} (by_ : Nat) (t : Node) (dest : List Bytes) (ati : Bool) (md : Nat)
    (h : TreeInv sv) : TreeInv (restoreNodeTree sv by_ t dest ati md).1 :=
  treeInv_restoreTree _ _ _ _ _ _ _ h

/-! ## the clone's index log

`cloneIndexLog` collects, as a function of the state, what the index loop hands to `notifyIndex` for the destination:
per copied entry the instruction of `RemoveIndexEntry` (if the destination listed the child) and the instruction of
`InsertIndexEntryAt(writeIdxCounter)`.  The equations `cloneIndexLoop_emitted`, `removeIndexEntry_emits` and
`insertIndexEntryAt_emits` tie each entry to the call that emits it. -/

def cloneIndexLog (src dest : List Bytes) : Nat → Nat → Nat → Server → List Instr
  | 0, _, _, _ => []
  | r+1, i, w, sv =>
    match (getNode sv src).bind (fun n => n.index[i]?), getNode sv dest with
    | some nm, some clone =>
      if (findKid nm clone.kids).isSome then
        remLog clone.index nm ++ [Instr.ins w nm] ++
          cloneIndexLog src dest r (i+1) (w+1) (insertIndexEntryAt (removeIndexEntry sv dest nm true) dest w nm)
      else cloneIndexLog src dest r (i+1) w sv
    | _, _ => []

/-- one round of the (repaired) loop, for an entry whose name is a child of the clone: exactly `RemoveIndexEntry(name)`
    followed by `InsertIndexEntryAt(writeIdxCounter, name)` on the destination, then on with both counters advanced -/
theorem cloneIndexLoop_emitted {sv : Server} {src dest : List Bytes} {nm : Bytes} {clone : Node} (r i w : Nat)
    (hs : (getNode sv src).bind (fun n => n.index[i]?) = some nm) (hd : getNode sv dest = some clone)
    (hk : (findKid nm clone.kids).isSome) :
    cloneIndexLoop true src dest (r+1) i w sv =
      cloneIndexLoop true src dest r (i+1) (w+1) (insertIndexEntryAt (removeIndexEntry sv dest nm true) dest w nm) := by
  rw [cloneIndexLoop]
  simp only [hs, hd, hk, if_true]

/-- `InsertIndexEntryAt(i, key)` for an existing child: the instruction handed to `notifyIndex`, and the parent then -/
theorem insertIndexEntryAt_emits {sv : Server} {parent : List Bytes} {p : Node} (i : Nat) {key : Bytes}
    (h : getNode sv parent = some p) (hk : (findKid key p.kids).isSome) :
    insertIndexEntryAt sv parent i key =
      notifyIndex (setNode sv parent (fun q => q.setIndex (q.index.take i ++ [key] ++ q.index.drop i))) parent
        (p.setIndex (insertAt p.index i key)) (Instr.ins i key).render := by
  unfold insertIndexEntryAt
  have hn : (findKid key p.kids).isNone = false := by
    cases hf : findKid key p.kids with
    | none => simp [hf] at hk
    | some x => rfl
  simp only [h, hn, Bool.false_eq_true, if_false]
  rw [getNode_setIndex (fun q => q.index.take i ++ [key] ++ q.index.drop i) h]
  rfl

theorem getNode_insertIndexEntryAt {sv : Server} {parent : List Bytes} {p : Node} (i : Nat) {key : Bytes}
    (h : getNode sv parent = some p) (hk : (findKid key p.kids).isSome) :
    getNode (insertIndexEntryAt sv parent i key) parent = some (p.setIndex (insertAt p.index i key)) := by
  rw [insertIndexEntryAt_emits i h hk, getNode_notifyIndex]
  exact getNode_setIndex (fun q => q.index.take i ++ [key] ++ q.index.drop i) h

/-! ### list facts -/

theorem eraseLast_take_of_not_mem {D : List Bytes} {nm : Bytes} {w : Nat} (hw : w ≤ D.length)
    (hn : nm ∉ D.take w) : (eraseLast D nm).take w = D.take w ∧ w ≤ (eraseLast D nm).length := by
  unfold eraseLast
  cases hl : lastIndexOf D nm with
  | none => exact ⟨rfl, hw⟩
  | some k =>
    have hk := lastIndexOf_some hl
    have hklt := lastIndexOf_some_lt hl
    have hwk : w ≤ k := by
      apply Nat.le_of_not_lt
      intro hlt
      apply hn
      rw [List.mem_iff_getElem?]
      exact ⟨k, by rw [List.getElem?_take, if_pos hlt]; exact hk⟩
    simp only
    constructor
    · rw [List.eraseIdx_eq_take_drop_succ, List.take_append_of_le_length (by rw [List.length_take]; omega),
        List.take_take]
      congr 1
      omega
    · rw [List.length_eraseIdx_of_lt hklt]; omega

theorem insertAt_take_succ (D : List Bytes) (w : Nat) (nm : Bytes) (hw : w ≤ D.length) :
    (insertAt D w nm).take (w+1) = D.take w ++ [nm] := by
  unfold insertAt
  have hl : (D.take w ++ [nm]).length = w + 1 := by simp [List.length_take]; omega
  rw [List.take_append_of_le_length (by omega), List.take_of_length_le (by omega)]

/-! ### away from the destination nothing the loop reads changes -/

theorem nodeAt_updateAt_index_ne {f : Node → Node} (hf : ∀ n, (f n).name = n.name) (hk : ∀ n, (f n).kids = n.kids) :
    ∀ (fuel : Nat) (n : Node) (dest src : List Bytes), src ≠ dest →
      (nodeAt fuel (updateAt fuel n dest f) src).map Node.index = (nodeAt fuel n src).map Node.index := by
  intro fuel
  induction fuel with
  | zero =>
    intro n dest src hne
    cases dest with
    | nil =>
      cases src with
      | nil => exact absurd rfl hne
      | cons a r => simp [ix_updateAt_nil, nodeAt]
    | cons b rd => simp [updateAt]
  | succ fuel ih =>
    intro n dest src hne
    cases dest with
    | nil =>
      cases src with
      | nil => exact absurd rfl hne
      | cons a r => simp only [ix_updateAt_nil, nodeAt, hk]
    | cons b rd =>
      simp only [updateAt]
      cases hkb : findKid b n.kids with
      | none => rfl
      | some k =>
        simp only
        have hn : (updateAt fuel k rd f).name = b := by rw [ix_updateAt_name hf, findKid_some_name hkb]
        cases src with
        | nil => simp [ix_nodeAt_nil]
        | cons a rs =>
          simp only [nodeAt, Node.setKids_kids]
          by_cases hab : a = b
          · subst hab
            have := ix_findKid_putKid_same (updateAt fuel k rd f) n.kids
            rw [hn] at this
            rw [this, hkb]
            simp only
            exact ih k rd rs (fun e => hne (by rw [e]))
          · rw [ix_findKid_putKid_ne _ _ (by rw [hn]; exact fun e => hab e.symm)]

theorem getNode_setNode_index_ne {f : Node → Node} (hf : ∀ n, (f n).name = n.name) (hk : ∀ n, (f n).kids = n.kids)
    (sv : Server) {dest src : List Bytes} (hne : src ≠ dest) :
    (getNode (setNode sv dest f) src).map Node.index = (getNode sv src).map Node.index := by
  simp only [getNode, setNode_root]
  exact nodeAt_updateAt_index_ne hf hk _ _ _ _ hne

theorem removeIndexEntry_index_ne (sv : Server) {dest src : List Bytes} (key : Bytes) (hne : src ≠ dest) :
    (getNode (removeIndexEntry sv dest key true) src).map Node.index = (getNode sv src).map Node.index := by
  cases hd : getNode sv dest with
  | none => simp [removeIndexEntry, hd]
  | some p =>
    cases hl : lastIndexOf p.index key with
    | none => rw [removeIndexEntry_none true hd hl]
    | some i =>
      rw [removeIndexEntry_emits hd hl, getNode_notifyIndex]
      exact getNode_setNode_index_ne (setIndex_name_pres _) (by simp) sv hne

theorem insertIndexEntryAt_index_ne (sv : Server) {dest src : List Bytes} (i : Nat) (key : Bytes) (hne : src ≠ dest) :
    (getNode (insertIndexEntryAt sv dest i key) src).map Node.index = (getNode sv src).map Node.index := by
  cases hd : getNode sv dest with
  | none => simp [insertIndexEntryAt, hd]
  | some p =>
    cases hk : (findKid key p.kids).isSome with
    | false =>
      have : (findKid key p.kids).isNone = true := by
        cases hf : findKid key p.kids with
        | none => rfl
        | some x => simp [hf] at hk
      simp [insertIndexEntryAt, hd, this]
    | true =>
      rw [insertIndexEntryAt_emits i hd hk, getNode_notifyIndex]
      exact getNode_setNode_index_ne (setIndex_name_pres _) (by simp) sv hne

/-! ### the loop invariant: the first `w` entries of the destination's index are the names written so far, and none of
them is read again -/

structure CloneInv (src dest : List Bytes) (i w : Nat) (sv : Server) : Prop where
  tree : TreeInv sv
  wi : w ≤ i
  bound : ∀ ps pd, getNode sv src = some ps → getNode sv dest = some pd →
    w ≤ pd.index.length ∧ ∀ x ∈ pd.index.take w, ∀ j, i ≤ j → ps.index[j]? ≠ some x

theorem CloneInv.init {src dest : List Bytes} {sv : Server} (h : TreeInv sv) : CloneInv src dest 0 0 sv :=
  ⟨h, Nat.le_refl _, fun _ _ _ _ => ⟨Nat.zero_le _, by simp⟩⟩

theorem CloneInv.skip {src dest : List Bytes} {i w : Nat} {sv : Server} (h : CloneInv src dest i w sv) :
    CloneInv src dest (i+1) w sv :=
  ⟨h.tree, Nat.le_succ_of_le h.wi, fun ps pd hs hd =>
    ⟨(h.bound ps pd hs hd).1, fun x hx j hj => (h.bound ps pd hs hd).2 x hx j (by omega)⟩⟩

/-- the write position is inside the destination's index once the child's old entry is gone -/
theorem CloneInv.pos_le {src dest : List Bytes} {i w : Nat} {sv : Server} {nm : Bytes} {pd : Node}
    (h : CloneInv src dest i w sv) (hs : (getNode sv src).bind (fun n => n.index[i]?) = some nm)
    (hd : getNode sv dest = some pd) :
    (eraseLast pd.index nm).take w = pd.index.take w ∧ w ≤ (eraseLast pd.index nm).length := by
  cases hps : getNode sv src with
  | none => simp [hps] at hs
  | some ps =>
    simp only [hps, Option.bind_some] at hs
    obtain ⟨hw, hb⟩ := h.bound ps pd hps hd
    exact eraseLast_take_of_not_mem hw (fun hx => hb nm hx i (Nat.le_refl _) hs)

theorem CloneInv.step {src dest : List Bytes} {i w : Nat} {sv : Server} {nm : Bytes} {pd : Node}
    (h : CloneInv src dest i w sv) (hs : (getNode sv src).bind (fun n => n.index[i]?) = some nm)
    (hd : getNode sv dest = some pd) (hk : (findKid nm pd.kids).isSome) :
    CloneInv src dest (i+1) (w+1) (insertIndexEntryAt (removeIndexEntry sv dest nm true) dest w nm) := by
  have hd1 := getNode_removeIndexEntry nm true hd
  have hk1 : (findKid nm (pd.setIndex (eraseLast pd.index nm)).kids).isSome := by simpa using hk
  have hd2 := getNode_insertIndexEntryAt w hd1 hk1
  simp only [Node.setIndex_index] at hd2
  obtain ⟨htake, hwle⟩ := h.pos_le hs hd
  have htree : TreeInv (insertIndexEntryAt (removeIndexEntry sv dest nm true) dest w nm) := by
    apply treeInv_insertIndexEntryAt _ _ _ (treeInv_removeIndexEntry dest nm true h.tree)
    intro p hp
    rw [hd1] at hp; cases hp
    simpa using not_mem_eraseLast nm (treeInv_getNode h.tree hd).here.1.1
  refine ⟨htree, Nat.succ_le_succ h.wi, ?_⟩
  intro ps2 pd2 hs2 hd2'
  rw [hd2] at hd2'; cases hd2'
  simp only [Node.setIndex_index]
  refine ⟨by rw [insertAt_length _ _ _ hwle]; omega, ?_⟩
  intro x hx j hj
  rw [insertAt_take_succ _ _ _ hwle, htake] at hx
  by_cases hsd : src = dest
  · subst hsd
    rw [hd2] at hs2; cases hs2
    simp only [Node.setIndex_index]
    intro hxj
    have hnd : (insertAt (eraseLast pd.index nm) w nm).Nodup := by
      have := (treeInv_getNode htree hd2).here.1.1
      simpa using this
    have hx' : x ∈ (insertAt (eraseLast pd.index nm) w nm).take (w+1) := by
      rw [insertAt_take_succ _ _ _ hwle, htake]; exact hx
    rw [List.mem_iff_getElem?] at hx'
    obtain ⟨m, hm⟩ := hx'
    rw [List.getElem?_take] at hm
    split at hm
    · rename_i hmw
      have hml : m < (insertAt (eraseLast pd.index nm) w nm).length := by
        rw [insertAt_length _ _ _ hwle]; omega
      have := (List.getElem?_inj hml hnd).mp (hm.trans hxj.symm)
      have hwi := h.wi
      omega
    · cases hm
  · cases hps : getNode sv src with
    | none =>
      have := insertIndexEntryAt_index_ne (removeIndexEntry sv dest nm true) w nm hsd
      rw [removeIndexEntry_index_ne sv nm hsd, hs2, hps] at this
      cases this
    | some ps =>
      have := insertIndexEntryAt_index_ne (removeIndexEntry sv dest nm true) w nm hsd
      rw [removeIndexEntry_index_ne sv nm hsd, hs2, hps] at this
      simp only [Option.map_some, Option.some.injEq] at this
      rw [this]
      simp only [hps, Option.bind_some] at hs
      rcases List.mem_append.mp hx with hx1 | hx1
      · exact (h.bound ps pd hps hd).2 x hx1 j (by omega)
      · simp only [List.mem_singleton] at hx1
        subst hx1
        intro hxj
        have hil : i < ps.index.length := (List.getElem?_eq_some_iff.mp hs).1
        have := (List.getElem?_inj hil (treeInv_getNode h.tree hps).here.1.1).mp (hs.trans hxj.symm)
        omega

/-- The index loop of the repaired `CloneDataNodeSubtree`, from any state satisfying the loop invariant (in particular
    from the start of the loop in any `TreeInv` state, `CloneInv.init`): the destination keeps its children, and the
    client that applies the emitted instructions, in order, to the destination's old index holds its new index — every
    insert position is within the index at that moment (the strict client `applyAll` refuses anything else).  Source
    and destination may be the same node, or lie inside one another. -/
theorem cloneIndexLoop_replay (src dest : List Bytes) :
    ∀ (r i w : Nat) (sv : Server) (pd : Node), CloneInv src dest i w sv → getNode sv dest = some pd →
      ∃ pd', getNode (cloneIndexLoop true src dest r i w sv) dest = some pd' ∧ pd'.kids = pd.kids ∧
        applyAll pd.index (cloneIndexLog src dest r i w sv) = some pd'.index := by
  intro r
  induction r with
  | zero => intro i w sv pd _ hd; exact ⟨pd, by simpa [cloneIndexLoop] using hd, rfl, by simp [cloneIndexLog, applyAll]⟩
  | succ r ih =>
    intro i w sv pd hinv hd
    cases hs : (getNode sv src).bind (fun n => n.index[i]?) with
    | none => exact ⟨pd, by simpa [cloneIndexLoop, hs] using hd, rfl, by simp [cloneIndexLog, hs, applyAll]⟩
    | some nm =>
      cases hk : (findKid nm pd.kids).isSome with
      | false =>
        obtain ⟨pd', h1, h2, h3⟩ := ih (i+1) w sv pd hinv.skip hd
        refine ⟨pd', ?_, h2, ?_⟩
        · rw [cloneIndexLoop]; simp only [hs, hd, hk, Bool.false_eq_true, if_false]; exact h1
        · rw [cloneIndexLog]; simp only [hs, hd, hk, Bool.false_eq_true, if_false]; exact h3
      | true =>
        have hd1 := getNode_removeIndexEntry nm true hd
        have hk1 : (findKid nm (pd.setIndex (eraseLast pd.index nm)).kids).isSome := by simpa using hk
        have hd2 := getNode_insertIndexEntryAt w hd1 hk1
        obtain ⟨_, hwle⟩ := hinv.pos_le hs hd
        obtain ⟨pd', h1, h2, h3⟩ := ih (i+1) (w+1) _ _ (hinv.step hs hd hk) hd2
        refine ⟨pd', ?_, by simpa using h2, ?_⟩
        · rw [cloneIndexLoop_emitted r i w hs hd hk]; exact h1
        · rw [cloneIndexLog]
          simp only [hs, hd, hk, if_true]
          rw [applyAll_append, applyAll_append, applyAll_remLog]
          simp only [Option.bind_some, applyAll, Instr.apply, if_pos hwle]
          simpa using h3

/-- the log of the index part of one `CloneDataNodeSubtree` call, as a function of the state before it -/
def cloneIndexLogOf (by_ : Nat) (sv : Server) (src dest : List Bytes) : List Instr :=
  match getNode sv src, getNode sv dest with
  | some ps, some _ =>
    if ps.index.isEmpty then []
    else cloneIndexLog src dest ps.index.length 0 0 (sv.updSess by_ (fun s => { s with indexingPresent := true }))
  | _, _ => []

theorem cloneIndex_replay {sv : Server} (by_ : Nat) {src dest : List Bytes} {pd : Node} (h : TreeInv sv)
    (hd : getNode sv dest = some pd) :
    ∃ pd', getNode (cloneIndex true by_ sv src dest).1 dest = some pd' ∧ pd'.kids = pd.kids ∧
      replayAll pd.index ((cloneIndexLogOf by_ sv src dest).map Instr.render) = some pd'.index := by
  rw [replayAll_render]
  unfold cloneIndex cloneIndexLogOf
  cases hs : getNode sv src with
  | none => exact ⟨pd, hd, rfl, by simp [applyAll]⟩
  | some ps =>
    simp only [hd]
    by_cases he : ps.index.isEmpty = true
    · simp only [he, if_true]; exact ⟨pd, hd, rfl, by simp [applyAll]⟩
    · simp only [he, Bool.false_eq_true, if_false]
      exact cloneIndexLoop_replay src dest _ 0 0 _ pd (CloneInv.init (treeInv_updSess _ _ h)) (by simpa using hd)

/-! ### the clone's index begins with the copied names, in the order they were read -/

/-- the names the loop copies (source entries, read live, whose name is a child of the clone), in order -/
def cloneIndexNames (src dest : List Bytes) : Nat → Nat → Nat → Server → List Bytes
  | 0, _, _, _ => []
  | r+1, i, w, sv =>
    match (getNode sv src).bind (fun n => n.index[i]?), getNode sv dest with
    | some nm, some clone =>
      if (findKid nm clone.kids).isSome then
        nm :: cloneIndexNames src dest r (i+1) (w+1) (insertIndexEntryAt (removeIndexEntry sv dest nm true) dest w nm)
      else cloneIndexNames src dest r (i+1) w sv
    | _, _ => []

theorem cloneIndexLoop_prefix (src dest : List Bytes) :
    ∀ (r i w : Nat) (sv : Server) (pd : Node), CloneInv src dest i w sv → getNode sv dest = some pd →
      ∃ pd', getNode (cloneIndexLoop true src dest r i w sv) dest = some pd' ∧
        pd'.index.take (w + (cloneIndexNames src dest r i w sv).length) =
          pd.index.take w ++ cloneIndexNames src dest r i w sv := by
  intro r
  induction r with
  | zero => intro i w sv pd _ hd; exact ⟨pd, by simpa [cloneIndexLoop] using hd, by simp [cloneIndexNames]⟩
  | succ r ih =>
    intro i w sv pd hinv hd
    cases hs : (getNode sv src).bind (fun n => n.index[i]?) with
    | none => exact ⟨pd, by simpa [cloneIndexLoop, hs] using hd, by simp [cloneIndexNames, hs]⟩
    | some nm =>
      cases hk : (findKid nm pd.kids).isSome with
      | false =>
        obtain ⟨pd', h1, h2⟩ := ih (i+1) w sv pd hinv.skip hd
        refine ⟨pd', ?_, ?_⟩
        · rw [cloneIndexLoop]; simp only [hs, hd, hk, Bool.false_eq_true, if_false]; exact h1
        · rw [cloneIndexNames]; simp only [hs, hd, hk, Bool.false_eq_true, if_false]; exact h2
      | true =>
        have hd1 := getNode_removeIndexEntry nm true hd
        have hk1 : (findKid nm (pd.setIndex (eraseLast pd.index nm)).kids).isSome := by simpa using hk
        have hd2 := getNode_insertIndexEntryAt w hd1 hk1
        obtain ⟨htake, hwle⟩ := hinv.pos_le hs hd
        obtain ⟨pd', h1, h2⟩ := ih (i+1) (w+1) _ _ (hinv.step hs hd hk) hd2
        refine ⟨pd', ?_, ?_⟩
        · rw [cloneIndexLoop_emitted r i w hs hd hk]; exact h1
        · rw [cloneIndexNames]
          simp only [hs, hd, hk, if_true, List.length_cons]
          simp only [Node.setIndex_index, insertAt_take_succ _ _ _ hwle, htake] at h2
          rw [show w + ((cloneIndexNames src dest r (i+1) (w+1)
                (insertIndexEntryAt (removeIndexEntry sv dest nm true) dest w nm)).length + 1) =
              w + 1 + (cloneIndexNames src dest r (i+1) (w+1)
                (insertIndexEntryAt (removeIndexEntry sv dest nm true) dest w nm)).length by omega, h2]
          simp

end Muscle.Reflector
