import MuscleModel.Reflector.MirrorProofs6

/-!
# C04 lemmas, part 7: the filter transition rule is sound for one node and one subscriber

`wants s v d` = some subscription entry of `s` matches the path `v` and its filter accepts the payload `d`
(`PathMatcher::MatchesPath(path, data)`), i.e. the node belongs to the view `s` should hold.  `entryFor s v x` = what the
mirror of `s` should hold at that path (`x = none`: the node does not exist).  `applyOpt` = apply the event, if any.
-/

set_option linter.unusedSimpArgs false
set_option linter.unusedVariables false

namespace Muscle.Reflector
open Muscle

def wants (s : Sess) (v : List Bytes) (d : Option Nat) : Bool := pmMatchesPath s.subs v true d

def entryFor (s : Sess) (v : List Bytes) : Option (Option Nat) → Option (Option Nat)
  | none => none
  | some x => if wants s v x then some x else none

def applyOpt (m : Mirror) : Option Ev → Mirror
  | none => m
  | some e => applyEv m e

theorem mr_nofilters {pm : PM} (h : pmNumFilters pm = 0) (k : Nat) : ∀ e ∈ pmGroup pm k, e.filter = none := by
  induction pm with
  | nil => intro e he; simp [pmGroup] at he
  | cons g r ih =>
    obtain ⟨k0, es⟩ := g
    have h' : (es.filter (fun e => e.filter.isSome)).length + pmNumFilters r = 0 := h
    have h1 : (es.filter (fun e => e.filter.isSome)).length = 0 := by omega
    have h2 : pmNumFilters r = 0 := by omega
    intro e he
    rw [pmGroup] at he
    split at he
    · have : es.filter (fun e => e.filter.isSome) = [] := List.length_eq_zero_iff.1 h1
      rw [List.filter_eq_nil_iff] at this
      have := this e he
      cases hf : e.filter with
      | none => rfl
      | some f => rw [hf] at this; simp at this
    · exact ih h2 e he

/-- without filters the payload is irrelevant: matched iff the match count is positive -/
theorem mr_wants_nofilters {s : Sess} (h : pmNumFilters s.subs = 0) (v : List Bytes) (d : Option Nat) :
    wants s v d = decide (0 < pmMatchCount s.subs v) := by
  unfold wants
  rw [← mr_matches_nodata s.subs v d]
  unfold pmMatchesPath
  have hn := mr_nofilters h v.length
  generalize pmGroup s.subs v.length = es at hn
  induction es with
  | nil => rfl
  | cons e r ih =>
    simp only [List.any_cons]
    rw [ih (fun x hx => hn x (List.mem_cons_of_mem _ hx))]
    have : e.filter = none := hn e List.mem_cons_self
    simp [Entry.filterOk, this]

theorem mr_wants_pos {s : Sess} {v : List Bytes} {d : Option Nat} (h : wants s v d = true) : 0 < pmMatchCount s.subs v := by
  unfold wants pmMatchesPath at h
  unfold pmMatchCount
  rw [List.any_eq_true] at h
  obtain ⟨e, he, hc⟩ := h
  simp only [Bool.and_eq_true] at hc
  exact List.length_pos_iff.2 (List.ne_nil_of_mem (List.mem_filter.2 ⟨he, hc.1⟩))

theorem mr_upd_same (m : Mirror) (p : Bytes) (x : Option (Option Nat)) : (m.upd p x) p = x := by
  simp [Mirror.upd]

theorem mr_upd_other (m : Mirror) (p q : Bytes) (x : Option (Option Nat)) (h : q ≠ p) : (m.upd p x) q = m q := by
  simp [Mirror.upd, h]

theorem mr_changeEv_path {s : Sess} {v : List Bytes} {nd : Option Nat} {od : Option (Option Nat)} {r : Bool} {e : Ev}
    (h : changeEv s v nd od r = some e) : e = .set (pathString v) nd ∨ e = .removed (pathString v) := by
  unfold changeEv at h
  grind

/-- events for the node at `v` touch the mirror at `pathString v` only -/
theorem changeEv_other (s : Sess) (v : List Bytes) (nd : Option Nat) (od : Option (Option Nat)) (r : Bool) (m : Mirror)
    (q : Bytes) (hq : q ≠ pathString v) : (applyOpt m (changeEv s v nd od r)) q = m q := by
  cases h : changeEv s v nd od r with
  | none => rfl
  | some e =>
    rcases mr_changeEv_path h with rfl | rfl
    · exact mr_upd_other _ _ _ _ hq
    · exact mr_upd_other _ _ _ _ hq

/-- overwrite of an existing node: old payload `od`, new payload `d` -/
theorem changeEv_overwrite (s : Sess) (hen : s.subsEnabled = true) (v : List Bytes) (hpos : 0 < pmMatchCount s.subs v)
    (m : Mirror) (od d : Option Nat) (hm : m (pathString v) = entryFor s v (some od)) :
    (applyOpt m (changeEv s v d (some od) false)) (pathString v) = entryFor s v (some d) := by
  unfold changeEv
  simp only [hen, Bool.not_true, Bool.false_eq_true, if_false]
  by_cases hf : pmNumFilters s.subs > 0
  · simp only [hf, if_true]
    by_cases hnow : pmMatchesPath s.subs v true d = true
    · simp [hnow, applyOpt, applyEv, mr_upd_same, entryFor, wants]
    · have hnow' : pmMatchesPath s.subs v true d = false := by simpa using hnow
      by_cases hb : pmMatchesPath s.subs v true od = true
      · simp [hnow', hb, applyOpt, applyEv, mr_upd_same, entryFor, wants]
      · have hb' : pmMatchesPath s.subs v true od = false := by simpa using hb
        simp [hnow', hb', applyOpt, hm, entryFor, wants]
  · have h0 : pmNumFilters s.subs = 0 := by omega
    simp only [hf, if_false, applyOpt, applyEv, mr_upd_same, entryFor]
    rw [mr_wants_nofilters h0]
    simp [hpos]

/-- creation of a node -/
theorem changeEv_create (s : Sess) (hen : s.subsEnabled = true) (v : List Bytes) (hpos : 0 < pmMatchCount s.subs v)
    (m : Mirror) (d : Option Nat) (hm : m (pathString v) = none) :
    (applyOpt m (changeEv s v d none false)) (pathString v) = entryFor s v (some d) := by
  unfold changeEv
  simp only [hen, Bool.not_true, Bool.false_eq_true, if_false]
  by_cases hf : pmNumFilters s.subs > 0
  · simp only [hf, if_true]
    by_cases hnow : pmMatchesPath s.subs v true d = true
    · simp [hnow, applyOpt, applyEv, mr_upd_same, entryFor, wants]
    · have hnow' : pmMatchesPath s.subs v true d = false := by simpa using hnow
      simp [hnow', applyOpt, hm, entryFor, wants]
  · have h0 : pmNumFilters s.subs = 0 := by omega
    simp only [hf, if_false, applyOpt, applyEv, mr_upd_same, entryFor]
    rw [mr_wants_nofilters h0]
    simp [hpos]

/-- removal of a node with payload `od` -/
theorem changeEv_remove (s : Sess) (hen : s.subsEnabled = true) (v : List Bytes) (m : Mirror) (od : Option Nat)
    (hm : m (pathString v) = entryFor s v (some od)) :
    (applyOpt m (changeEv s v od (some od) true)) (pathString v) = none := by
  unfold changeEv
  simp only [hen, Bool.not_true, Bool.false_eq_true, if_false, if_true]
  by_cases hf : pmNumFilters s.subs > 0
  · simp only [hf, if_true]
    by_cases hb : pmMatchesPath s.subs v true od = true
    · simp [hb, applyOpt, applyEv, mr_upd_same]
    · have hb' : pmMatchesPath s.subs v true od = false := by simpa using hb
      simp [hb', applyOpt, hm, entryFor, wants]
  · simp [hf, applyOpt, applyEv, mr_upd_same]

end Muscle.Reflector
