import MuscleModel.Reflector.OrderProofs

/-!
# The broadcast fallback of `sendMsg` (C05) — `BroadcastToAllSessions(msg, userData, reflect-to-self)`

`bcFold sid rs text l sv` = the fold `sendMsg` runs when the Message names no keys and the sender has no default route.
With pairwise distinct session ids it is one `map` over the session table (`bc_fold_sessions`): every selected session
gets `text` appended once, every other session is left alone.  Prefix `bc_`.
-/

set_option linter.unusedSimpArgs false
set_option linter.unusedVariables false

namespace Muscle.Reflector
open Muscle

/-- the fold of the broadcast branch of `sendMsg`, over any list of sessions -/
def bcFold (sid : Nat) (rs : Bool) (text : String) (l : List Sess) (sv : Server) : Server :=
  l.foldl (fun sv t => if t.sid ≠ sid || rs then sv.deliver t.sid text else sv) sv

/-- what the broadcast does to one session -/
def bcStep (sid : Nat) (rs : Bool) (text : String) (t : Sess) : Sess :=
  if t.sid ≠ sid || rs then { t with inbox := t.inbox ++ [text] } else t

theorem bc_sendMsg (sv : Server) (sid tag : Nat) (s : Sess) (hs : sv.sess? sid = some s) (hk : s.hasRouteKeys = false) :
    sendMsg sv sid tag [] =
      bcFold sid s.reflectSelf ("MSG 1234 from=" ++ toString sid ++ " tag=" ++ toString tag) sv.sessions sv := by
  unfold sendMsg bcFold
  rw [hs]
  simp only [List.isEmpty_nil, Bool.not_true, Bool.false_eq_true, if_false, hk]

@[simp] theorem bc_deliver_root (sv : Server) (sid : Nat) (w : String) : (sv.deliver sid w).root = sv.root := rfl
@[simp] theorem bc_deliver_live (sv : Server) (sid : Nat) (w : String) : (sv.deliver sid w).live = sv.live := rfl
@[simp] theorem bc_deliver_nextSid (sv : Server) (sid : Nat) (w : String) : (sv.deliver sid w).nextSid = sv.nextSid := rfl
@[simp] theorem bc_deliver_dirty (sv : Server) (sid : Nat) (w : String) : (sv.deliver sid w).subsDirty = sv.subsDirty := rfl
@[simp] theorem bc_deliver_maxd (sv : Server) (sid : Nat) (w : String) :
    (sv.deliver sid w).maxItemsDefault = sv.maxItemsDefault := rfl

/-- `u` with the lines `e` appended to its inbox -/
def Sess.app (u : Sess) (e : List String) : Sess := { u with inbox := u.inbox ++ e }

theorem Sess.app_sid (u : Sess) (e : List String) : (u.app e).sid = u.sid := rfl
theorem Sess.app_app (u : Sess) (e f : List String) : (u.app e).app f = u.app (e ++ f) := by
  simp only [Sess.app, List.append_assoc]
theorem Sess.app_nil (u : Sess) : u.app [] = u := by
  simp only [Sess.app, List.append_nil]

theorem bc_deliver_sessions (sv : Server) (sid : Nat) (w : String) :
    (sv.deliver sid w).sessions = sv.sessions.map (fun u => if u.sid = sid then u.app [w] else u) := rfl

/-- the fold touches the session table only -/
theorem bc_fold_frame (sid : Nat) (rs : Bool) (text : String) (l : List Sess) : ∀ sv : Server,
    (bcFold sid rs text l sv).root = sv.root ∧ (bcFold sid rs text l sv).live = sv.live ∧
    (bcFold sid rs text l sv).nextSid = sv.nextSid ∧ (bcFold sid rs text l sv).subsDirty = sv.subsDirty ∧
    (bcFold sid rs text l sv).maxItemsDefault = sv.maxItemsDefault := by
  induction l with
  | nil => intro sv; exact ⟨rfl, rfl, rfl, rfl, rfl⟩
  | cons a r ih =>
    intro sv
    simp only [bcFold, List.foldl_cons]
    split
    · exact ih (sv.deliver a.sid text)
    · exact ih sv

/-- how often the fold over `l` delivers to the session with id `b` -/
def bcCount (sid : Nat) (rs : Bool) (l : List Sess) (b : Nat) : Nat :=
  (l.filter (fun t => decide (t.sid = b) && (t.sid ≠ sid || rs))).length

/-- the session table after the fold over `l`: a session is extended once for every element of `l` that carries its id
    and is selected -/
theorem bc_fold_sessions_gen (sid : Nat) (rs : Bool) (text : String) (l : List Sess) : ∀ sv : Server,
    (bcFold sid rs text l sv).sessions =
      sv.sessions.map (fun u => u.app (List.replicate (bcCount sid rs l u.sid) text)) := by
  induction l with
  | nil =>
    intro sv
    simp only [bcFold, List.foldl_nil, bcCount, List.filter_nil, List.length_nil, List.replicate_zero, Sess.app_nil,
      List.map_id']
  | cons a r ih =>
    intro sv
    simp only [bcFold, List.foldl_cons]
    by_cases hsel : (a.sid ≠ sid || rs) = true
    · rw [if_pos hsel]
      have := ih (sv.deliver a.sid text)
      simp only [bcFold] at this
      rw [this, bc_deliver_sessions, List.map_map]
      apply List.map_congr_left
      intro u _
      simp only [Function.comp]
      by_cases hu : u.sid = a.sid
      · have hu' : a.sid = u.sid := hu.symm
        rw [if_pos hu, Sess.app_app, Sess.app_sid]
        simp only [bcCount, List.filter_cons, decide_eq_true hu', Bool.true_and, hsel, if_true, List.length_cons,
          List.replicate_succ, List.singleton_append]
      · have hu' : ¬ a.sid = u.sid := fun e => hu e.symm
        rw [if_neg hu]
        simp only [bcCount, List.filter_cons, decide_eq_false hu', Bool.false_and, Bool.false_eq_true, if_false]
    · rw [if_neg hsel]
      have := ih sv
      simp only [bcFold] at this
      rw [this]
      apply List.map_congr_left
      intro u _
      have hf : (a.sid ≠ sid || rs) = false := by simpa using hsel
      simp only [bcCount, List.filter_cons, hf, Bool.and_false, Bool.false_eq_true, if_false]

/-- in a list with pairwise distinct ids, exactly one element carries the id of a member -/
theorem bc_count_one {l : List Sess} (hnd : (l.map (·.sid)).Nodup) {u : Sess} (hu : u ∈ l) (p : Sess → Bool) :
    (l.filter (fun t => decide (t.sid = u.sid) && p t)).length = if p u then 1 else 0 := by
  induction l with
  | nil => cases hu
  | cons a r ih =>
    simp only [List.map_cons, List.nodup_cons, List.mem_map, not_exists, not_and] at hnd
    rcases List.mem_cons.mp hu with rfl | hur
    · have hrest : r.filter (fun t => decide (t.sid = u.sid) && p t) = [] := by
        rw [List.filter_eq_nil_iff]
        intro t ht
        have : ¬ t.sid = u.sid := hnd.1 t ht
        simp [this]
      simp only [List.filter_cons, decide_true, Bool.true_and, hrest]
      split <;> rfl
    · have hne : ¬ a.sid = u.sid := fun e => hnd.1 u hur e.symm
      simp only [List.filter_cons, hne, decide_false, Bool.false_and, Bool.false_eq_true, if_false]
      exact ih hnd.2 hur

/-- **the broadcast is one map over the session table** when the ids are pairwise distinct -/
theorem bc_fold_sessions (sid : Nat) (rs : Bool) (text : String) (sv : Server) (hnd : (sv.sessions.map (·.sid)).Nodup) :
    (bcFold sid rs text sv.sessions sv).sessions = sv.sessions.map (bcStep sid rs text) := by
  rw [bc_fold_sessions_gen]
  apply List.map_congr_left
  intro u hu
  unfold bcCount
  rw [bc_count_one hnd hu (fun t => (t.sid ≠ sid || rs))]
  unfold bcStep
  split
  · rfl
  · exact Sess.app_nil u

theorem bc_step_sid (sid : Nat) (rs : Bool) (text : String) (t : Sess) : (bcStep sid rs text t).sid = t.sid := by
  unfold bcStep; split <;> rfl

/-- lookup by id in a table with pairwise distinct ids finds the member itself -/
theorem bc_find_of_mem {l : List Sess} (hnd : (l.map (·.sid)).Nodup) {u : Sess} (hu : u ∈ l) :
    l.find? (fun s => s.sid = u.sid) = some u := by
  induction l with
  | nil => cases hu
  | cons a r ih =>
    simp only [List.map_cons, List.nodup_cons, List.mem_map, not_exists, not_and] at hnd
    rcases List.mem_cons.mp hu with rfl | hur
    · simp
    · have hne : ¬ a.sid = u.sid := fun e => hnd.1 u hur e.symm
      simp only [List.find?_cons, hne, decide_false]
      exact ih hnd.2 hur

theorem bc_find_map (g : Sess → Sess) (hg : ∀ t, (g t).sid = t.sid) (b : Nat) (l : List Sess) :
    (l.map g).find? (fun s => s.sid = b) = (l.find? (fun s => s.sid = b)).map g := by
  induction l with
  | nil => rfl
  | cons a r ih =>
    simp only [List.map_cons, List.find?_cons, hg]
    split
    · rfl
    · exact ih

end Muscle.Reflector
