import MuscleModel.Reflector.TravProofsCouple
import MuscleModel.Reflector.Handlers

/-!
# The work of one traversal is bounded by the tree (C07)

`wbCnt fuel n` = the number of nodes strictly below `n` within `fuel` levels = `(descendants fuel n pre).length`.
For ANY callback, matcher, tree (sibling names need not be distinct) and fuel, `travAux ctx fuel node names depth` records at most
`wbCnt fuel node` visits (each node below the traversal root is handed to the callback at most once: the `matched` flag of
`CheckChildForTraversal`, and is descended into at most once: the `recursed` flag; the literal-lookup path handles each child name at
most once: the `alreadyDid` set), and every recorded path is `names` extended by 1 … `fuel` names.  Prefix `wb_`.
-/

set_option linter.unusedSimpArgs false
set_option linter.unusedVariables false

namespace Muscle.Reflector
open Muscle

/-- the number of nodes strictly below `n`, at most `fuel` levels down -/
def wbCnt : Nat → Node → Nat
  | 0, _ => 0
  | f+1, n => (n.kids.map (fun k => 1 + wbCnt f k)).sum

theorem wb_descendants_length : ∀ (fuel : Nat) (n : Node) (pre : List Bytes), (descendants fuel n pre).length = wbCnt fuel n := by
  intro fuel
  induction fuel with
  | zero => intro n pre; simp [descendants, wbCnt]
  | succ f ih =>
    intro n pre
    simp only [descendants, wbCnt, List.length_flatMap, List.length_cons, ih]
    congr 1
    apply List.map_congr_left
    intro k _
    omega

/-- loop invariant of `CheckChildForTraversal`: as long as nothing aborted, the recorded visits are paid for by the `matched` flag (one
    visit) and the `recursed` flag (`c` visits); in any case at most `1 + c` -/
def WJ (c : Nat) (st : CState) : Prop :=
  (st.abort = none → st.visits.length ≤ (if st.matched = true then 1 else 0) + (if st.recursed = true then c else 0)) ∧
  st.visits.length ≤ 1 + c

theorem wb_stepG (ctx : TCtx) (rec : Rec) (child : Node) (cn : Visit) (depth : Nat) (hit : Bool) (e : Entry) (c : Nat)
    (Q : Visit → Prop)
    (hrec : (rec child cn (depth+1)).1.length ≤ c ∧ ∀ v ∈ (rec child cn (depth+1)).1, Q v) (hq : Q cn)
    (st : CState) (h1 : WJ c st) (h2 : ∀ v ∈ st.visits, Q v) (hgo : st.abort = none) :
    WJ c (stepG ctx rec child cn depth hit e st) ∧ ∀ v ∈ (stepG ctx rec child cn depth hit e st).visits, Q v := by
  obtain ⟨hr1, hr2⟩ := hrec
  obtain ⟨ha, hb⟩ := h1
  have ha' := ha hgo
  have hR : (if st.recursed = true then c else 0) ≤ c := by split <;> omega
  have hM : (if st.matched = true then 1 else 0) ≤ 1 := by split <;> omega
  unfold stepG
  simp only []
  split
  · exact ⟨⟨ha, hb⟩, h2⟩
  · split
    · split
      · exact ⟨⟨ha, hb⟩, h2⟩
      · rename_i hm
        rw [if_neg hm] at ha'
        split
        · generalize (ctx.cb cn (depth + 1) child).1 = rc
          generalize (ctx.cb cn (depth + 1) child).2 = nd
          have hvl : (if rc = true then st.visits ++ [cn] else st.visits).length ≤ st.visits.length + 1 := by
            split <;> simp
          have hvq : ∀ v ∈ (if rc = true then st.visits ++ [cn] else st.visits), Q v := by
            split
            · intro v hv
              rcases List.mem_append.1 hv with h | h
              · exact h2 v h
              · simp only [List.mem_singleton] at h; subst h; exact hq
            · exact h2
          split
          · refine ⟨⟨fun h => by simp at h, ?_⟩, hvq⟩
            show (if rc = true then st.visits ++ [cn] else st.visits).length ≤ 1 + c
            omega
          · refine ⟨⟨fun _ => ?_, ?_⟩, hvq⟩
            · show (if rc = true then st.visits ++ [cn] else st.visits).length ≤
                (if true = true then 1 else 0) + (if (st.recursed || decide (nd < (depth : Int) + 1)) = true then c else 0)
              have : (if st.recursed = true then c else 0) ≤
                  (if (st.recursed || decide (nd < (depth : Int) + 1)) = true then c else 0) := by
                cases st.recursed <;> simp
              simp only [if_true]
              omega
            · show (if rc = true then st.visits ++ [cn] else st.visits).length ≤ 1 + c
              omega
        · exact ⟨⟨ha, hb⟩, h2⟩
    · split
      · exact ⟨⟨ha, hb⟩, h2⟩
      · rename_i hrc
        rw [if_neg hrc] at ha'
        generalize rec child cn (depth + 1) = p at hr1 hr2 ⊢
        obtain ⟨vs, nd⟩ := p
        simp only [] at hr1 hr2 ⊢
        have hvq : ∀ v ∈ st.visits ++ vs, Q v := by
          intro v hv
          rcases List.mem_append.1 hv with h | h
          · exact h2 v h
          · exact hr2 v h
        split
        · refine ⟨⟨fun h => by simp at h, ?_⟩, hvq⟩
          show (st.visits ++ vs).length ≤ 1 + c
          rw [List.length_append]; omega
        · refine ⟨⟨fun _ => ?_, ?_⟩, hvq⟩
          · show (st.visits ++ vs).length ≤
              (if (st.matched || decide (nd < (depth : Int) + 1)) = true then 1 else 0) + (if true = true then c else 0)
            have : (if st.matched = true then 1 else 0) ≤
                (if (st.matched || decide (nd < (depth : Int) + 1)) = true then 1 else 0) := by
              cases st.matched <;> simp
            simp only [if_true]
            rw [List.length_append]; omega
          · show (st.visits ++ vs).length ≤ 1 + c
            rw [List.length_append]; omega

theorem wb_checkEntries (ctx : TCtx) (rec : Rec) (child : Node) (cn : Visit) (depth : Nat) (known : Option Nat) (c : Nat)
    (Q : Visit → Prop)
    (hrec : (rec child cn (depth+1)).1.length ≤ c ∧ ∀ v ∈ (rec child cn (depth+1)).1, Q v) (hq : Q cn) :
    ∀ (es : List Entry) (idx : Nat) (st : CState), WJ c st → (∀ v ∈ st.visits, Q v) →
      WJ c (checkEntries ctx rec child cn depth known es idx st) ∧
      ∀ v ∈ (checkEntries ctx rec child cn depth known es idx st).visits, Q v := by
  intro es
  induction es with
  | nil => intro idx st h1 h2; exact ⟨h1, h2⟩
  | cons e es ih =>
    intro idx st h1 h2
    rw [checkEntries_cons]
    split
    · exact ⟨h1, h2⟩
    · rename_i hgo
      have hab : st.abort = none := by
        cases hx : st.abort with
        | none => rfl
        | some d => simp [hx] at hgo
      obtain ⟨k1, k2⟩ := wb_stepG ctx rec child cn depth
        (decide (known = some idx) || hitB (depth - ctx.rootDepth) child.name e) e c Q hrec hq st h1 h2 hab
      exact ih (idx + 1) _ k1 k2

/-- one child contributes at most itself and what the recursive call records -/
theorem wb_checkChild (ctx : TCtx) (rec : Rec) (k : Node) (names : Visit) (depth : Nat) (known : Option Nat) (c : Nat)
    (Q : Visit → Prop)
    (hrec : (rec k (names ++ [k.name]) (depth+1)).1.length ≤ c ∧ ∀ v ∈ (rec k (names ++ [k.name]) (depth+1)).1, Q v)
    (hq : Q (names ++ [k.name])) :
    (checkChild ctx rec k names depth known).1.length ≤ 1 + c ∧ ∀ v ∈ (checkChild ctx rec k names depth known).1, Q v := by
  have h := wb_checkEntries ctx rec k (names ++ [k.name]) depth known c Q hrec hq
    (activeEntries ctx.pm (depth - ctx.rootDepth)) 0 {} ⟨fun _ => Nat.zero_le _, Nat.zero_le _⟩ (by intro v hv; cases hv)
  exact ⟨h.1.2, h.2⟩

/-- what the recursive call is assumed to satisfy at one level: a bound `w k` per child, and `Q` for every recorded path -/
def WRec (rec : Rec) (names : Visit) (w : Node → Nat) (Q : Visit → Prop) : Prop :=
  (∀ (k : Node) (d : Nat), (rec k (names ++ [k.name]) d).1.length ≤ w k ∧ ∀ v ∈ (rec k (names ++ [k.name]) d).1, Q v) ∧
  ∀ k : Node, Q (names ++ [k.name])

theorem wb_travKids (ctx : TCtx) (rec : Rec) (names : Visit) (depth : Nat) (w : Node → Nat) (Q : Visit → Prop)
    (hr : WRec rec names w Q) :
    ∀ (kids : List Node) (acc : List Visit),
      (travKids ctx rec names depth kids acc).1.length ≤ acc.length + (kids.map (fun k => 1 + w k)).sum ∧
      ∀ v ∈ (travKids ctx rec names depth kids acc).1, v ∈ acc ∨ Q v := by
  intro kids
  induction kids with
  | nil => intro acc; exact ⟨by simp [travKids], fun v hv => Or.inl hv⟩
  | cons k r ih =>
    intro acc
    obtain ⟨c1, c2⟩ := wb_checkChild ctx rec k names depth none (w k) Q (hr.1 k (depth+1)) (hr.2 k)
    simp only [travKids]
    split
    · rename_i vs d hcc
      rw [hcc] at c1 c2
      simp only [] at c1 c2
      refine ⟨?_, ?_⟩
      · simp only [List.length_append, List.map_cons, List.sum_cons]; omega
      · intro v hv
        rcases List.mem_append.1 hv with h | h
        · exact Or.inl h
        · exact Or.inr (c2 v h)
    · rename_i vs hcc
      rw [hcc] at c1 c2
      simp only [] at c1 c2
      obtain ⟨i1, i2⟩ := ih (acc ++ vs)
      refine ⟨?_, ?_⟩
      · simp only [List.length_append, List.map_cons, List.sum_cons] at i1 ⊢; omega
      · intro v hv
        rcases i2 v hv with h | h
        · rcases List.mem_append.1 h with h | h
          · exact Or.inl h
          · exact Or.inr (c2 v h)
        · exact Or.inr h

/-- what the children whose names are not yet in the `alreadyDid` set may still cost -/
def wbPhi (w : Node → Nat) (kids : List Node) (did : List Bytes) : Nat :=
  ((kids.filter (fun x => !did.contains x.name)).map (fun k => 1 + w k)).sum

theorem wb_phi_mono (w : Node → Nat) (nm : Bytes) (did : List Bytes) : ∀ kids : List Node,
    wbPhi w kids (nm :: did) ≤ wbPhi w kids did := by
  intro kids
  induction kids with
  | nil => simp [wbPhi]
  | cons a r ih =>
    simp only [wbPhi, List.filter_cons, List.contains_cons] at ih ⊢
    by_cases h1 : did.contains a.name = true
    · simp only [h1, Bool.or_true, Bool.not_true, Bool.false_eq_true, if_false]
      exact ih
    · have h1' : did.contains a.name = false := by simpa using h1
      by_cases h2 : (a.name == nm) = true
      · simp only [h1', h2, Bool.or_false, Bool.not_true, Bool.false_eq_true, if_false, Bool.not_false, if_true,
          List.map_cons, List.sum_cons]
        omega
      · have h2' : (a.name == nm) = false := by simpa using h2
        simp only [h1', h2', Bool.or_false, Bool.not_false, if_true, List.map_cons, List.sum_cons]
        omega

theorem wb_phi_drop (w : Node → Nat) (nm : Bytes) (did : List Bytes) (hd : did.contains nm = false) : ∀ (kids : List Node) (k : Node),
    findKid nm kids = some k → wbPhi w kids (nm :: did) + (1 + w k) ≤ wbPhi w kids did := by
  intro kids
  induction kids with
  | nil => intro k h; simp [findKid] at h
  | cons a r ih =>
    intro k h
    simp only [findKid] at h
    by_cases ha : a.name = nm
    · simp only [ha, if_true, Option.some.injEq] at h
      subst h
      have hm := wb_phi_mono w nm did r
      simp only [wbPhi, List.filter_cons, List.contains_cons, ha, beq_self_eq_true, Bool.true_or, Bool.not_true,
        Bool.false_eq_true, if_false, hd, Bool.not_false, if_true, List.map_cons, List.sum_cons] at hm ⊢
      omega
    · simp only [ha, if_false] at h
      have := ih k h
      have hb : (a.name == nm) = false := by simpa using ha
      simp only [wbPhi, List.filter_cons, List.contains_cons, hb, Bool.false_or] at this ⊢
      split
      · simp only [List.map_cons, List.sum_cons]; omega
      · exact this

theorem wb_lookupElems (ctx : TCtx) (rec : Rec) (node : Node) (names : Visit) (depth : Nat) (idx : Nat) (w : Node → Nat)
    (Q : Visit → Prop) (hr : WRec rec names w Q) :
    ∀ (els : List Bytes) (did : List Bytes) (acc : List Visit),
      (lookupElems ctx rec node names depth idx els did acc).1.length ≤ acc.length + wbPhi w node.kids did ∧
      ((lookupElems ctx rec node names depth idx els did acc).2.2 = none →
        (lookupElems ctx rec node names depth idx els did acc).1.length +
          wbPhi w node.kids (lookupElems ctx rec node names depth idx els did acc).2.1 ≤ acc.length + wbPhi w node.kids did) ∧
      ∀ v ∈ (lookupElems ctx rec node names depth idx els did acc).1, v ∈ acc ∨ Q v := by
  intro els
  induction els with
  | nil => intro did acc; exact ⟨by simp [lookupElems], fun _ => by simp [lookupElems], fun v hv => Or.inl hv⟩
  | cons el els ih =>
    intro did acc
    simp only [lookupElems]
    split
    · exact ih did acc
    · rename_i k hk
      split
      · exact ih did acc
      · rename_i hdid
        have hd : did.contains (unescape el) = false := by simpa using hdid
        have hdrop := wb_phi_drop w (unescape el) did hd node.kids k hk
        obtain ⟨c1, c2⟩ := wb_checkChild ctx rec k names depth (some idx) (w k) Q (hr.1 k (depth+1)) (hr.2 k)
        split
        · rename_i vs d hcc
          rw [hcc] at c1 c2
          simp only [] at c1 c2
          refine ⟨?_, fun h => by simp at h, ?_⟩
          · simp only [List.length_append]; omega
          · intro v hv
            rcases List.mem_append.1 hv with h | h
            · exact Or.inl h
            · exact Or.inr (c2 v h)
        · rename_i vs hcc
          rw [hcc] at c1 c2
          simp only [] at c1 c2
          obtain ⟨i1, i2, i3⟩ := ih (unescape el :: did) (acc ++ vs)
          refine ⟨?_, ?_, ?_⟩
          · simp only [List.length_append] at i1 ⊢; omega
          · intro h
            have := i2 h
            simp only [List.length_append] at this ⊢; omega
          · intro v hv
            rcases i3 v hv with h | h
            · rcases List.mem_append.1 h with h | h
              · exact Or.inl h
              · exact Or.inr (c2 v h)
            · exact Or.inr h

theorem wb_travLookups (ctx : TCtx) (rec : Rec) (node : Node) (names : Visit) (depth : Nat) (w : Node → Nat)
    (Q : Visit → Prop) (hr : WRec rec names w Q) :
    ∀ (es : List Entry) (idx : Nat) (did : List Bytes) (acc : List Visit),
      (travLookups ctx rec node names depth es idx did acc).1.length ≤ acc.length + wbPhi w node.kids did ∧
      ∀ v ∈ (travLookups ctx rec node names depth es idx did acc).1, v ∈ acc ∨ Q v := by
  intro es
  induction es with
  | nil => intro idx did acc; exact ⟨by simp [travLookups], fun v hv => Or.inl hv⟩
  | cons e es ih =>
    intro idx did acc
    simp only [travLookups]
    generalize hE : (if isUVList ((e.clauses[depth - ctx.rootDepth]?).getD []) = true
        then List.filter (fun x => !x.isEmpty) (splitCommas ((e.clauses[depth - ctx.rootDepth]?).getD []))
        else [(e.clauses[depth - ctx.rootDepth]?).getD []]) = elems
    obtain ⟨l1, l2, l3⟩ := wb_lookupElems ctx rec node names depth idx w Q hr elems did acc
    split
    · rename_i acc' did' d hl
      rw [hl] at l1 l3
      exact ⟨l1, l3⟩
    · rename_i acc' did' hl
      rw [hl] at l1 l2 l3
      simp only [] at l1 l2 l3
      obtain ⟨i1, i2⟩ := ih (idx + 1) did' acc'
      have := l2 trivial
      refine ⟨by omega, ?_⟩
      intro v hv
      rcases i2 v hv with h | h
      · exact l3 v h
      · exact Or.inr h

theorem wb_phi_nil (w : Node → Nat) (kids : List Node) : wbPhi w kids [] = (kids.map (fun k => 1 + w k)).sum := by
  have : kids.filter (fun x => !([] : List Bytes).contains x.name) = kids := by
    rw [List.filter_eq_self]; intro a _; simp
  simp only [wbPhi, this]

theorem wb_travLevel (ctx : TCtx) (rec : Rec) (node : Node) (names : Visit) (depth : Nat) (w : Node → Nat)
    (Q : Visit → Prop) (hr : WRec rec names w Q) :
    (travLevel ctx rec node names depth).1.length ≤ (node.kids.map (fun k => 1 + w k)).sum ∧
    ∀ v ∈ (travLevel ctx rec node names depth).1, Q v := by
  unfold travLevel
  simp only []
  split
  · obtain ⟨h1, h2⟩ := wb_travKids ctx rec names depth w Q hr node.kids []
    refine ⟨by simpa using h1, ?_⟩
    intro v hv
    rcases h2 v hv with h | h
    · cases h
    · exact h
  · obtain ⟨h1, h2⟩ := wb_travLookups ctx rec node names depth w Q hr (activeEntries ctx.pm (depth - ctx.rootDepth)) 0 [] []
    rw [wb_phi_nil] at h1
    refine ⟨by simpa using h1, ?_⟩
    intro v hv
    rcases h2 v hv with h | h
    · cases h
    · exact h

/-- **the work bound of `DoTraversalAux`**, any callback, matcher, tree, fuel: at most one recorded visit per node below `node`, and every
    recorded path is `names` followed by 1 … `fuel` further names -/
theorem wb_travAux (ctx : TCtx) : ∀ (fuel : Nat) (node : Node) (names : Visit) (depth : Nat),
    (travAux ctx fuel node names depth).1.length ≤ wbCnt fuel node ∧
    ∀ v ∈ (travAux ctx fuel node names depth).1, names <+: v ∧ names.length < v.length ∧ v.length ≤ names.length + fuel := by
  intro fuel
  induction fuel with
  | zero => intro node names depth; exact ⟨by simp [travAux], by intro v hv; simp [travAux] at hv⟩
  | succ f ih =>
    intro node names depth
    simp only [travAux, wbCnt]
    apply wb_travLevel ctx (travAux ctx f) node names depth (wbCnt f)
      (fun v => names <+: v ∧ names.length < v.length ∧ v.length ≤ names.length + (f + 1))
    refine ⟨fun k d => ⟨(ih k _ d).1, ?_⟩, fun k => ⟨List.prefix_append _ _, by simp, by simp⟩⟩
    intro v hv
    obtain ⟨p1, p2, p3⟩ := (ih k _ d).2 v hv
    refine ⟨List.IsPrefix.trans (List.prefix_append _ _) p1, ?_, ?_⟩
    · simp only [List.length_append, List.length_cons, List.length_nil] at p2; omega
    · simp only [List.length_append, List.length_cons, List.length_nil] at p3; omega

end Muscle.Reflector

namespace Muscle.Reflector
open Muscle

mutual
/-- the number of nodes of the tree rooted at `n`, `n` included (no fuel) -/
def Node.size : Node → Nat
  | .mk _ _ kids _ _ _ => 1 + Node.sizeList kids
def Node.sizeList : List Node → Nat
  | [] => 0
  | k :: r => k.size + Node.sizeList r
end

theorem wb_cnt_lt_size : ∀ (fuel : Nat) (n : Node), wbCnt fuel n + 1 ≤ n.size := by
  intro fuel
  induction fuel with
  | zero => intro n; cases n; simp [wbCnt, Node.size]
  | succ f ih =>
    intro n
    cases n with
    | mk nm d kids ix c sb =>
      have key : ∀ l : List Node, (l.map (fun k => 1 + wbCnt f k)).sum ≤ Node.sizeList l := by
        intro l
        induction l with
        | nil => simp [Node.sizeList]
        | cons a r ihl =>
          have := ih a
          simp only [List.map_cons, List.sum_cons, Node.sizeList]
          omega
      have := key kids
      simp only [wbCnt, Node.kids, Node.size]
      omega

/-- the fuel-bounded count is the whole tree below the root once the fuel covers the tree -/
theorem wb_cnt_stable (fuel : Nat) (n : Node) (hfit : fits fuel n = true) (j : Nat) : wbCnt (fuel + j) n = wbCnt fuel n := by
  rw [← wb_descendants_length (fuel + j) n [], ← wb_descendants_length fuel n [], descendants_stable fuel n [] hfit j]

end Muscle.Reflector

/-! ## deliveries of one client-to-client Message -/

namespace Muscle.Reflector
open Muscle

/-- the number of lines queued for all clients together -/
def wbTotal (sv : Server) : Nat := (sv.sessions.map (fun t => t.inbox.length)).sum

theorem wb_deliver_list (sid : Nat) (w : String) : ∀ l : List Sess, (l.map (·.sid)).Nodup →
    ((l.map (fun s => if s.sid = sid then { s with inbox := s.inbox ++ [w] } else s)).map (fun t => t.inbox.length)).sum
      ≤ (l.map (fun t => t.inbox.length)).sum + 1 ∧
    (sid ∉ l.map (·.sid) →
      ((l.map (fun s => if s.sid = sid then { s with inbox := s.inbox ++ [w] } else s)).map (fun t => t.inbox.length)).sum
        = (l.map (fun t => t.inbox.length)).sum) := by
  intro l
  induction l with
  | nil => intro _; exact ⟨by simp, fun _ => rfl⟩
  | cons a r ih =>
    intro hnd
    simp only [List.map_cons, List.nodup_cons] at hnd
    obtain ⟨i1, i2⟩ := ih hnd.2
    by_cases ha : a.sid = sid
    · have hr := i2 (by rw [← ha]; exact hnd.1)
      refine ⟨?_, fun hn => absurd (by simp [ha]) hn⟩
      simp only [List.map_cons, List.sum_cons, if_pos ha, hr, List.length_append, List.length_cons, List.length_nil]
      omega
    · refine ⟨?_, fun hn => ?_⟩
      · simp only [List.map_cons, List.sum_cons, if_neg ha]
        omega
      · have hn' : sid ∉ r.map (·.sid) := fun h => hn (by simp only [List.map_cons]; exact List.mem_cons_of_mem _ h)
        simp only [List.map_cons, List.sum_cons, if_neg ha, i2 hn']

/-- one `deliver` queues at most one line when the session ids are pairwise distinct; the ids stay -/
theorem wb_deliver (sv : Server) (sid : Nat) (w : String) (hnd : (sv.sessions.map (·.sid)).Nodup) :
    wbTotal (sv.deliver sid w) ≤ wbTotal sv + 1 ∧ (sv.deliver sid w).sessions.map (·.sid) = sv.sessions.map (·.sid) := by
  refine ⟨(wb_deliver_list sid w sv.sessions hnd).1, ?_⟩
  simp only [Server.deliver, Server.updSess, List.map_map]
  apply List.map_congr_left
  intro t _
  simp only [Function.comp]
  split <;> rfl

theorem wb_fold {α} (g : Server → α → Server)
    (hg : ∀ sv a, (sv.sessions.map (·.sid)).Nodup →
      wbTotal (g sv a) ≤ wbTotal sv + 1 ∧ (g sv a).sessions.map (·.sid) = sv.sessions.map (·.sid)) :
    ∀ (l : List α) (sv : Server), (sv.sessions.map (·.sid)).Nodup →
      wbTotal (l.foldl g sv) ≤ wbTotal sv + l.length ∧ (l.foldl g sv).sessions.map (·.sid) = sv.sessions.map (·.sid) := by
  intro l
  induction l with
  | nil => intro sv _; exact ⟨by simp, rfl⟩
  | cons a r ih =>
    intro sv hnd
    obtain ⟨g1, g2⟩ := hg sv a hnd
    obtain ⟨i1, i2⟩ := ih (g sv a) (by rw [g2]; exact hnd)
    simp only [List.foldl_cons, List.length_cons]
    exact ⟨by omega, i2.trans g2⟩

/-- `route` queues at most one line per recorded visit -/
theorem wb_route (sv : Server) (sid : Nat) (pm : PM) (what : String) (hnd : (sv.sessions.map (·.sid)).Nodup) :
    wbTotal (route sv sid pm what) ≤ wbTotal sv + (travGlobal sv pm true (fun _ _ _ => (true, 1))).length ∧
    (route sv sid pm what).sessions.map (·.sid) = sv.sessions.map (·.sid) := by
  unfold route
  split
  · exact ⟨by omega, rfl⟩
  · simp only []
    apply wb_fold _ _ _ sv hnd
    intro sv1 v h1
    repeat' split
    all_goals first
      | exact ⟨by omega, rfl⟩
      | exact wb_deliver _ _ _ h1

end Muscle.Reflector

/-! ## a node found in the tree is no larger than the tree -/

namespace Muscle.Reflector
open Muscle

theorem wb_size_of_kids (n : Node) : n.size = 1 + Node.sizeList n.kids := by
  cases n; simp only [Node.size, Node.kids]

theorem wb_findKid_size {nm : Bytes} : ∀ {kids : List Node} {k : Node}, findKid nm kids = some k → k.size ≤ Node.sizeList kids := by
  intro kids
  induction kids with
  | nil => intro k h; simp [findKid] at h
  | cons a r ih =>
    intro k h
    simp only [findKid] at h
    simp only [Node.sizeList]
    split at h
    · cases h; omega
    · have := ih h; omega

theorem wb_nodeAt_size : ∀ (path : List Bytes) (fuel : Nat) (n m : Node), nodeAt fuel n path = some m → m.size ≤ n.size := by
  intro path
  induction path with
  | nil =>
    intro fuel n m h
    cases fuel <;> simp [nodeAt] at h <;> subst h <;> exact Nat.le_refl _
  | cons nm rest ih =>
    intro fuel n m h
    cases fuel with
    | zero => simp [nodeAt] at h
    | succ f =>
      simp only [nodeAt] at h
      split at h
      · cases h
      · rename_i k hk
        have h1 := ih f k m h
        have h2 := wb_findKid_size hk
        rw [wb_size_of_kids n]
        omega

theorem wb_getNode_size {sv : Server} {path : List Bytes} {n : Node} (h : getNode sv path = some n) : n.size ≤ sv.root.size :=
  wb_nodeAt_size path fuelDepth sv.root n h

/-! ## pattern tests per child: the entry loop of `CheckChildForTraversal`, instrumented -/

/-- `checkEntries` with a counter: the number of entries examined (one clause test, `hitB`, per examined entry; the loop stops examining
    at `done` / abort) -/
def checkEntriesCost (ctx : TCtx) (rec : Rec) (child : Node) (cn : Visit) (depth : Nat) (known : Option Nat) :
    List Entry → Nat → CState → CState × Nat
  | [], _, st => (st, 0)
  | e :: es, idx, st =>
    if st.done || st.abort.isSome then (st, 0) else
    let r := checkEntriesCost ctx rec child cn depth known es (idx + 1)
      (stepG ctx rec child cn depth (decide (known = some idx) || hitB (depth - ctx.rootDepth) child.name e) e st)
    (r.1, r.2 + 1)

theorem wb_checkEntriesCost (ctx : TCtx) (rec : Rec) (child : Node) (cn : Visit) (depth : Nat) (known : Option Nat) :
    ∀ (es : List Entry) (idx : Nat) (st : CState),
      (checkEntriesCost ctx rec child cn depth known es idx st).1 = checkEntries ctx rec child cn depth known es idx st ∧
      (checkEntriesCost ctx rec child cn depth known es idx st).2 ≤ es.length := by
  intro es
  induction es with
  | nil => intro idx st; exact ⟨rfl, Nat.le_refl _⟩
  | cons e es ih =>
    intro idx st
    rw [checkEntries_cons]
    simp only [checkEntriesCost]
    split
    · exact ⟨rfl, Nat.zero_le _⟩
    · obtain ⟨i1, i2⟩ := ih (idx + 1)
        (stepG ctx rec child cn depth (decide (known = some idx) || hitB (depth - ctx.rootDepth) child.name e) e st)
      exact ⟨i1, by simp only [List.length_cons]; omega⟩

theorem wb_sum_filter_le (f : (Nat × List Entry) → Nat) (p : (Nat × List Entry) → Bool) : ∀ pm : PM,
    ((pm.filter p).map f).sum ≤ (pm.map f).sum := by
  intro pm
  induction pm with
  | nil => simp
  | cons a r ih =>
    simp only [List.filter_cons]
    split
    · simp only [List.map_cons, List.sum_cons]; omega
    · simp only [List.map_cons, List.sum_cons]; omega

/-- the entries taking part at one level are entries of the matcher -/
theorem wb_activeEntries_length (pm : PM) (rel : Nat) : (activeEntries pm rel).length ≤ pmNumEntries pm := by
  unfold activeEntries pmNumEntries
  rw [List.length_flatMap]
  exact wb_sum_filter_le (fun x => x.2.length) _ pm

end Muscle.Reflector

/-! ## the whole traversal, instrumented with the number of pattern-entry tests

`…C` = the function of Traverse.lean returning (result, number of entries examined by the entry loops of `CheckChildForTraversal`);
the recursive call carries its own count (`RecC`).  `wb_…_fst`: the first component is the real function (run with the projected
recursive call); `wb_…_cost`: the count. -/

namespace Muscle.Reflector
open Muscle

abbrev RecC := Node → Visit → Nat → (List Visit × Int) × Nat
def projR (recC : RecC) : Rec := fun k n d => (recC k n d).1

/-- the condition under which one step of the entry loop (`stepG`) makes the recursive call -/
def descends (ctx : TCtx) (depth : Nat) (hit : Bool) (e : Entry) (st : CState) : Bool :=
  hit && !decide (depth + 1 = ctx.rootDepth + e.clauses.length) && !st.recursed

theorem wb_stepG_keep (ctx : TCtx) (rec : Rec) (child : Node) (cn : Visit) (depth : Nat) (hit : Bool) (e : Entry) (st : CState)
    (h : st.recursed = true ∨ st.abort.isSome = true) :
    (stepG ctx rec child cn depth hit e st).recursed = true ∨ (stepG ctx rec child cn depth hit e st).abort.isSome = true := by
  rcases h with h | h
  · unfold stepG
    simp only []
    repeat' split
    all_goals first
      | exact Or.inl h
      | exact Or.inr rfl
      | exact Or.inl rfl
      | (left; simp [h])
  · unfold stepG
    simp only []
    repeat' split
    all_goals first
      | exact Or.inr h
      | exact Or.inr rfl

theorem wb_stepG_desc (ctx : TCtx) (rec : Rec) (child : Node) (cn : Visit) (depth : Nat) (hit : Bool) (e : Entry) (st : CState)
    (h : descends ctx depth hit e st = true) :
    (stepG ctx rec child cn depth hit e st).recursed = true ∨ (stepG ctx rec child cn depth hit e st).abort.isSome = true := by
  simp only [descends, Bool.and_eq_true, Bool.not_eq_true', decide_eq_false_iff_not] at h
  obtain ⟨⟨h1, h2⟩, h3⟩ := h
  unfold stepG
  simp only []
  repeat' split
  all_goals first
    | exact Or.inr rfl
    | exact Or.inl rfl
    | (exfalso; simp_all)

def checkEntriesC (ctx : TCtx) (recC : RecC) (child : Node) (cn : Visit) (depth : Nat) (known : Option Nat) :
    List Entry → Nat → CState → CState × Nat
  | [], _, st => (st, 0)
  | e :: es, idx, st =>
    if st.done || st.abort.isSome then (st, 0) else
    let r := checkEntriesC ctx recC child cn depth known es (idx + 1)
      (stepG ctx (projR recC) child cn depth (decide (known = some idx) || hitB (depth - ctx.rootDepth) child.name e) e st)
    -- one entry examined, plus the tests of the recursive call when this step descends
    (r.1, r.2 + 1 + (if descends ctx depth (decide (known = some idx) || hitB (depth - ctx.rootDepth) child.name e) e st = true
                     then (recC child cn (depth + 1)).2 else 0))

theorem wb_checkEntriesC_fst (ctx : TCtx) (recC : RecC) (child : Node) (cn : Visit) (depth : Nat) (known : Option Nat) :
    ∀ (es : List Entry) (idx : Nat) (st : CState),
      (checkEntriesC ctx recC child cn depth known es idx st).1 = checkEntries ctx (projR recC) child cn depth known es idx st := by
  intro es
  induction es with
  | nil => intro idx st; rfl
  | cons e es ih =>
    intro idx st
    rw [checkEntries_cons]
    simp only [checkEntriesC]
    split
    · rfl
    · exact ih _ _

theorem wb_checkEntriesC_cost (ctx : TCtx) (recC : RecC) (child : Node) (cn : Visit) (depth : Nat) (known : Option Nat) (C : Nat)
    (hC : (recC child cn (depth + 1)).2 ≤ C) :
    ∀ (es : List Entry) (idx : Nat) (st : CState),
      ((st.recursed = true ∨ st.abort.isSome = true) → (checkEntriesC ctx recC child cn depth known es idx st).2 ≤ es.length) ∧
      (checkEntriesC ctx recC child cn depth known es idx st).2 ≤ es.length + C := by
  intro es
  induction es with
  | nil => intro idx st; exact ⟨fun _ => Nat.le_refl _, Nat.zero_le _⟩
  | cons e es ih =>
    intro idx st
    simp only [checkEntriesC]
    split
    · exact ⟨fun _ => Nat.zero_le _, Nat.zero_le _⟩
    · rename_i hgo
      have hab : st.abort.isSome = false := by
        cases hx : st.abort.isSome with
        | false => rfl
        | true => simp [hx] at hgo
      obtain ⟨i1, i2⟩ := ih (idx + 1)
        (stepG ctx (projR recC) child cn depth (decide (known = some idx) || hitB (depth - ctx.rootDepth) child.name e) e st)
      simp only [List.length_cons]
      by_cases hd : descends ctx depth (decide (known = some idx) || hitB (depth - ctx.rootDepth) child.name e) e st = true
      · rw [if_pos hd]
        have hr := i1 (wb_stepG_desc ctx (projR recC) child cn depth _ e st hd)
        have hnr : st.recursed = false := by
          simp only [descends, Bool.and_eq_true, Bool.not_eq_true'] at hd
          exact hd.2
        refine ⟨fun h => ?_, by omega⟩
        rcases h with h | h
        · rw [hnr] at h; cases h
        · rw [hab] at h; cases h
      · rw [if_neg hd]
        refine ⟨fun h => ?_, by omega⟩
        have := i1 (wb_stepG_keep ctx (projR recC) child cn depth _ e st h)
        omega

def checkChildC (ctx : TCtx) (recC : RecC) (child : Node) (names : Visit) (depth : Nat) (known : Option Nat) :
    (List Visit × Option Int) × Nat :=
  ((( checkEntriesC ctx recC child (names ++ [child.name]) depth known (activeEntries ctx.pm (depth - ctx.rootDepth)) 0 {}).1.visits,
    (checkEntriesC ctx recC child (names ++ [child.name]) depth known (activeEntries ctx.pm (depth - ctx.rootDepth)) 0 {}).1.abort),
   (checkEntriesC ctx recC child (names ++ [child.name]) depth known (activeEntries ctx.pm (depth - ctx.rootDepth)) 0 {}).2)

theorem wb_checkChildC_fst (ctx : TCtx) (recC : RecC) (child : Node) (names : Visit) (depth : Nat) (known : Option Nat) :
    (checkChildC ctx recC child names depth known).1 = checkChild ctx (projR recC) child names depth known := by
  unfold checkChildC checkChild
  simp only [wb_checkEntriesC_fst]

theorem wb_checkChildC_cost (ctx : TCtx) (recC : RecC) (child : Node) (names : Visit) (depth : Nat) (known : Option Nat) (C : Nat)
    (hC : (recC child (names ++ [child.name]) (depth + 1)).2 ≤ C) :
    (checkChildC ctx recC child names depth known).2 ≤ pmNumEntries ctx.pm + C := by
  have := (wb_checkEntriesC_cost ctx recC child (names ++ [child.name]) depth known C hC
    (activeEntries ctx.pm (depth - ctx.rootDepth)) 0 {}).2
  have := wb_activeEntries_length ctx.pm (depth - ctx.rootDepth)
  unfold checkChildC
  simp only []
  omega

def travKidsC (ctx : TCtx) (recC : RecC) (names : Visit) (depth : Nat) : List Node → List Visit → (List Visit × Int) × Nat
  | [], acc => ((acc, depth), 0)
  | k :: r, acc =>
    match checkChildC ctx recC k names depth none with
    | ((vs, some d), c) => ((acc ++ vs, d), c)
    | ((vs, none), c) => ((travKidsC ctx recC names depth r (acc ++ vs)).1, (travKidsC ctx recC names depth r (acc ++ vs)).2 + c)

theorem wb_travKidsC_fst (ctx : TCtx) (recC : RecC) (names : Visit) (depth : Nat) :
    ∀ (kids : List Node) (acc : List Visit),
      (travKidsC ctx recC names depth kids acc).1 = travKids ctx (projR recC) names depth kids acc := by
  intro kids
  induction kids with
  | nil => intro acc; rfl
  | cons k r ih =>
    intro acc
    simp only [travKidsC, travKids]
    rw [← wb_checkChildC_fst]
    split
    · rename_i vs d c heq
      simp only [heq]
    · rename_i vs c heq
      simp only [heq, ih]

theorem wb_travKidsC_cost (ctx : TCtx) (recC : RecC) (names : Visit) (depth : Nat) (W : Node → Nat)
    (hW : ∀ (k : Node) (n : Visit) (d : Nat), (recC k n d).2 ≤ W k) :
    ∀ (kids : List Node) (acc : List Visit),
      (travKidsC ctx recC names depth kids acc).2 ≤ (kids.map (fun k => pmNumEntries ctx.pm + W k)).sum := by
  intro kids
  induction kids with
  | nil => intro acc; exact Nat.zero_le _
  | cons k r ih =>
    intro acc
    have hc := wb_checkChildC_cost ctx recC k names depth none (W k) (hW _ _ _)
    simp only [travKidsC, List.map_cons, List.sum_cons]
    split
    · rename_i vs d c heq
      rw [heq] at hc
      simp only [] at hc ⊢
      omega
    · rename_i vs c heq
      rw [heq] at hc
      have := ih (acc ++ vs)
      simp only [] at hc ⊢
      omega

end Muscle.Reflector

namespace Muscle.Reflector
open Muscle

/-- `wbPhi` with any weight -/
def wbPhiG (g : Node → Nat) (kids : List Node) (did : List Bytes) : Nat :=
  ((kids.filter (fun x => !did.contains x.name)).map g).sum

theorem wb_phiG_mono (g : Node → Nat) (nm : Bytes) (did : List Bytes) : ∀ kids : List Node,
    wbPhiG g kids (nm :: did) ≤ wbPhiG g kids did := by
  intro kids
  induction kids with
  | nil => simp [wbPhiG]
  | cons a r ih =>
    simp only [wbPhiG, List.filter_cons, List.contains_cons] at ih ⊢
    by_cases h1 : did.contains a.name = true
    · simp only [h1, Bool.or_true, Bool.not_true, Bool.false_eq_true, if_false]
      exact ih
    · have h1' : did.contains a.name = false := by simpa using h1
      by_cases h2 : (a.name == nm) = true
      · simp only [h1', h2, Bool.or_false, Bool.not_true, Bool.false_eq_true, if_false, Bool.not_false, if_true,
          List.map_cons, List.sum_cons]
        omega
      · have h2' : (a.name == nm) = false := by simpa using h2
        simp only [h1', h2', Bool.or_false, Bool.not_false, if_true, List.map_cons, List.sum_cons]
        omega

theorem wb_phiG_drop (g : Node → Nat) (nm : Bytes) (did : List Bytes) (hd : did.contains nm = false) : ∀ (kids : List Node) (k : Node),
    findKid nm kids = some k → wbPhiG g kids (nm :: did) + g k ≤ wbPhiG g kids did := by
  intro kids
  induction kids with
  | nil => intro k h; simp [findKid] at h
  | cons a r ih =>
    intro k h
    simp only [findKid] at h
    by_cases ha : a.name = nm
    · simp only [ha, if_true, Option.some.injEq] at h
      subst h
      have hm := wb_phiG_mono g nm did r
      simp only [wbPhiG, List.filter_cons, List.contains_cons, ha, beq_self_eq_true, Bool.true_or, Bool.not_true,
        Bool.false_eq_true, if_false, hd, Bool.not_false, if_true, List.map_cons, List.sum_cons] at hm ⊢
      omega
    · simp only [ha, if_false] at h
      have := ih k h
      have hb : (a.name == nm) = false := by simpa using ha
      simp only [wbPhiG, List.filter_cons, List.contains_cons, hb, Bool.false_or] at this ⊢
      split
      · simp only [List.map_cons, List.sum_cons]; omega
      · exact this

theorem wb_phiG_nil (g : Node → Nat) (kids : List Node) : wbPhiG g kids [] = (kids.map g).sum := by
  have : kids.filter (fun x => !([] : List Bytes).contains x.name) = kids := by
    rw [List.filter_eq_self]; intro a _; simp
  simp only [wbPhiG, this]

def lookupElemsC (ctx : TCtx) (recC : RecC) (node : Node) (names : Visit) (depth : Nat) (idx : Nat) :
    List Bytes → List Bytes → List Visit → (List Visit × List Bytes × Option Int) × Nat
  | [], did, acc => ((acc, did, none), 0)
  | el :: els, did, acc =>
    match findKid (unescape el) node.kids with
    | none => lookupElemsC ctx recC node names depth idx els did acc
    | some k =>
      if did.contains (unescape el) then lookupElemsC ctx recC node names depth idx els did acc else
      match checkChildC ctx recC k names depth (some idx) with
      | ((vs, some d), c) => ((acc ++ vs, did, some d), c)
      | ((vs, none), c) =>
        ((lookupElemsC ctx recC node names depth idx els (unescape el :: did) (acc ++ vs)).1,
         (lookupElemsC ctx recC node names depth idx els (unescape el :: did) (acc ++ vs)).2 + c)

theorem wb_lookupElemsC_fst (ctx : TCtx) (recC : RecC) (node : Node) (names : Visit) (depth : Nat) (idx : Nat) :
    ∀ (els : List Bytes) (did : List Bytes) (acc : List Visit),
      (lookupElemsC ctx recC node names depth idx els did acc).1 = lookupElems ctx (projR recC) node names depth idx els did acc := by
  intro els
  induction els with
  | nil => intro did acc; rfl
  | cons el els ih =>
    intro did acc
    cases hk : findKid (unescape el) node.kids with
    | none =>
      simp only [lookupElemsC, lookupElems, hk]
      exact ih did acc
    | some k =>
      by_cases hdid : did.contains (unescape el) = true
      · simp only [lookupElemsC, lookupElems, hk, hdid, if_true]
        exact ih did acc
      · have hdid' : did.contains (unescape el) = false := by simpa using hdid
        simp only [lookupElemsC, lookupElems, hk, hdid', Bool.false_eq_true, if_false]
        rw [← wb_checkChildC_fst]
        split
        · rename_i vs d c heq
          simp only [heq]
        · rename_i vs c heq
          simp only [heq, ih]

theorem wb_lookupElemsC_cost (ctx : TCtx) (recC : RecC) (node : Node) (names : Visit) (depth : Nat) (idx : Nat) (W : Node → Nat)
    (hW : ∀ (k : Node) (n : Visit) (d : Nat), (recC k n d).2 ≤ W k) :
    ∀ (els : List Bytes) (did : List Bytes) (acc : List Visit),
      (lookupElemsC ctx recC node names depth idx els did acc).2 ≤ wbPhiG (fun k => pmNumEntries ctx.pm + W k) node.kids did ∧
      ((lookupElemsC ctx recC node names depth idx els did acc).1.2.2 = none →
        (lookupElemsC ctx recC node names depth idx els did acc).2 +
          wbPhiG (fun k => pmNumEntries ctx.pm + W k) node.kids (lookupElemsC ctx recC node names depth idx els did acc).1.2.1
            ≤ wbPhiG (fun k => pmNumEntries ctx.pm + W k) node.kids did) := by
  intro els
  induction els with
  | nil => intro did acc; exact ⟨Nat.zero_le _, fun _ => by simp [lookupElemsC]⟩
  | cons el els ih =>
    intro did acc
    simp only [lookupElemsC]
    split
    · exact ih did acc
    · rename_i k hk
      split
      · exact ih did acc
      · rename_i hdid
        have hd : did.contains (unescape el) = false := by simpa using hdid
        have hdrop := wb_phiG_drop (fun k => pmNumEntries ctx.pm + W k) (unescape el) did hd node.kids k hk
        have hc := wb_checkChildC_cost ctx recC k names depth (some idx) (W k) (hW _ _ _)
        split
        · rename_i vs d c heq
          rw [heq] at hc
          simp only [] at hc hdrop ⊢
          exact ⟨by omega, fun h => by simp at h⟩
        · rename_i vs c heq
          rw [heq] at hc
          obtain ⟨i1, i2⟩ := ih (unescape el :: did) (acc ++ vs)
          simp only [] at hc hdrop ⊢
          refine ⟨by omega, fun h => ?_⟩
          have := i2 h
          omega

def travLookupsC (ctx : TCtx) (recC : RecC) (node : Node) (names : Visit) (depth : Nat) :
    List Entry → Nat → List Bytes → List Visit → (List Visit × Int) × Nat
  | [], _, _, acc => ((acc, depth), 0)
  | e :: es, idx, did, acc =>
    match lookupElemsC ctx recC node names depth idx
        (if isUVList ((e.clauses[depth - ctx.rootDepth]?).getD []) = true
         then (splitCommas ((e.clauses[depth - ctx.rootDepth]?).getD [])).filter (fun x => !x.isEmpty)
         else [(e.clauses[depth - ctx.rootDepth]?).getD []]) did acc with
    | ((acc', _, some d), c) => ((acc', d), c)
    | ((acc', did', none), c) =>
      ((travLookupsC ctx recC node names depth es (idx + 1) did' acc').1,
       (travLookupsC ctx recC node names depth es (idx + 1) did' acc').2 + c)

theorem wb_travLookupsC_fst (ctx : TCtx) (recC : RecC) (node : Node) (names : Visit) (depth : Nat) :
    ∀ (es : List Entry) (idx : Nat) (did : List Bytes) (acc : List Visit),
      (travLookupsC ctx recC node names depth es idx did acc).1 = travLookups ctx (projR recC) node names depth es idx did acc := by
  intro es
  induction es with
  | nil => intro idx did acc; rfl
  | cons e es ih =>
    intro idx did acc
    simp only [travLookupsC, travLookups]
    rw [← wb_lookupElemsC_fst]
    split
    · rename_i acc' x d c heq
      simp only [heq]
    · rename_i acc' did' c heq
      simp only [heq, ih]

theorem wb_travLookupsC_cost (ctx : TCtx) (recC : RecC) (node : Node) (names : Visit) (depth : Nat) (W : Node → Nat)
    (hW : ∀ (k : Node) (n : Visit) (d : Nat), (recC k n d).2 ≤ W k) :
    ∀ (es : List Entry) (idx : Nat) (did : List Bytes) (acc : List Visit),
      (travLookupsC ctx recC node names depth es idx did acc).2 ≤ wbPhiG (fun k => pmNumEntries ctx.pm + W k) node.kids did := by
  intro es
  induction es with
  | nil => intro idx did acc; exact Nat.zero_le _
  | cons e es ih =>
    intro idx did acc
    simp only [travLookupsC]
    obtain ⟨l1, l2⟩ := wb_lookupElemsC_cost ctx recC node names depth idx W hW
      (if isUVList ((e.clauses[depth - ctx.rootDepth]?).getD []) = true
         then (splitCommas ((e.clauses[depth - ctx.rootDepth]?).getD [])).filter (fun x => !x.isEmpty)
         else [(e.clauses[depth - ctx.rootDepth]?).getD []]) did acc
    split
    · rename_i acc' x d c heq
      rw [heq] at l1
      exact l1
    · rename_i acc' did' c heq
      rw [heq] at l1 l2
      have := l2 rfl
      have := ih (idx + 1) did' acc'
      simp only [] at *
      omega

def travLevelC (ctx : TCtx) (recC : RecC) (node : Node) (names : Visit) (depth : Nat) : (List Visit × Int) × Nat :=
  if parsersHaveWildcards ctx.pm (depth - ctx.rootDepth) then travKidsC ctx recC names depth node.kids []
  else travLookupsC ctx recC node names depth (activeEntries ctx.pm (depth - ctx.rootDepth)) 0 [] []

theorem wb_travLevelC_fst (ctx : TCtx) (recC : RecC) (node : Node) (names : Visit) (depth : Nat) :
    (travLevelC ctx recC node names depth).1 = travLevel ctx (projR recC) node names depth := by
  unfold travLevelC travLevel
  simp only []
  split
  · exact wb_travKidsC_fst ..
  · exact wb_travLookupsC_fst ..

theorem wb_travLevelC_cost (ctx : TCtx) (recC : RecC) (node : Node) (names : Visit) (depth : Nat) (W : Node → Nat)
    (hW : ∀ (k : Node) (n : Visit) (d : Nat), (recC k n d).2 ≤ W k) :
    (travLevelC ctx recC node names depth).2 ≤ (node.kids.map (fun k => pmNumEntries ctx.pm + W k)).sum := by
  unfold travLevelC
  split
  · exact wb_travKidsC_cost ctx recC names depth W hW node.kids []
  · rw [← wb_phiG_nil]
    exact wb_travLookupsC_cost ctx recC node names depth W hW _ 0 [] []

/-- `DoTraversalAux` with the number of pattern-entry tests -/
def travAuxC (ctx : TCtx) : Nat → Node → Visit → Nat → (List Visit × Int) × Nat
  | 0, _, _, depth => (([], depth), 0)
  | fuel+1, node, names, depth => travLevelC ctx (travAuxC ctx fuel) node names depth

theorem wb_travAuxC_fst (ctx : TCtx) : ∀ (fuel : Nat) (node : Node) (names : Visit) (depth : Nat),
    (travAuxC ctx fuel node names depth).1 = travAux ctx fuel node names depth := by
  intro fuel
  induction fuel with
  | zero => intro node names depth; rfl
  | succ f ih =>
    intro node names depth
    simp only [travAuxC, travAux]
    rw [wb_travLevelC_fst]
    have : projR (travAuxC ctx f) = travAux ctx f := by
      funext k n d
      exact ih k n d
    rw [this]

theorem wb_sum_mul (c : Node → Nat) (E : Nat) : ∀ l : List Node,
    (l.map (fun k => E + c k * E)).sum = (l.map (fun k => 1 + c k)).sum * E := by
  intro l
  induction l with
  | nil => simp
  | cons a r ih =>
    simp only [List.map_cons, List.sum_cons, ih, Nat.add_mul, Nat.one_mul]

theorem wb_travAuxC_cost (ctx : TCtx) : ∀ (fuel : Nat) (node : Node) (names : Visit) (depth : Nat),
    (travAuxC ctx fuel node names depth).2 ≤ wbCnt fuel node * pmNumEntries ctx.pm := by
  intro fuel
  induction fuel with
  | zero => intro node names depth; exact Nat.zero_le _
  | succ f ih =>
    intro node names depth
    have := wb_travLevelC_cost ctx (travAuxC ctx f) node names depth (fun k => wbCnt f k * pmNumEntries ctx.pm)
      (fun k n d => ih k n d)
    rw [wb_sum_mul] at this
    simpa only [travAuxC, wbCnt] using this

end Muscle.Reflector
