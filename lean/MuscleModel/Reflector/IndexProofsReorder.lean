import MuscleModel.Reflector.IndexProofsSnap

/-!
# C13: the PR_COMMAND_REORDERDATA handler keeps the whole-tree invariant

`reorderChild` only rewrites indices, so every node that exists keeps existing; hence every node the traversal
handed over is still a child of its parent when its turn comes.
-/

set_option linter.unusedSimpArgs false
set_option linter.unusedVariables false

namespace Muscle.Reflector
open Muscle

theorem nodeAt_updateAt_isSome {f : Node → Node} (hf : ∀ n, (f n).name = n.name) (hk : ∀ n, (f n).kids = n.kids)
    (fuel : Nat) (n : Node) (path q : List Bytes) :
    (nodeAt fuel (updateAt fuel n path f) q).isSome = (nodeAt fuel n q).isSome := by
  induction fuel generalizing n path q with
  | zero =>
    cases path with
    | nil =>
      cases q with
      | nil => simp [nodeAt_nil]
      | cons a r => simp [nodeAt]
    | cons b rest => rfl
  | succ fuel ih =>
    cases path with
    | nil =>
      rw [updateAt_nil]
      cases q with
      | nil => simp [nodeAt_nil]
      | cons a r => simp only [nodeAt, hk]
    | cons b rest =>
      simp only [updateAt]
      cases hb : findKid b n.kids with
      | none => rfl
      | some k =>
        simp only
        cases q with
        | nil => simp [nodeAt_nil]
        | cons a r =>
          simp only [nodeAt, Node.setKids_kids]
          have hn : (updateAt fuel k rest f).name = b := by rw [updateAt_name hf, findKid_some_name hb]
          by_cases hab : a = b
          · subst hab
            have := findKid_putKid_same (updateAt fuel k rest f) n.kids
            rw [hn] at this
            rw [this, hb]
            exact ih k rest r
          · rw [findKid_putKid_ne _ _ (by rw [hn]; exact fun e => hab e.symm)]

theorem getNode_isSome_setIndex (g : Node → List Bytes) (sv : Server) (parent q : List Bytes) :
    (getNode (setNode sv parent (fun p => p.setIndex (g p))) q).isSome = (getNode sv q).isSome := by
  simp only [getNode, setNode_root]
  exact nodeAt_updateAt_isSome (setIndex_name_pres g) (by simp) _ _ _ _

theorem getNode_isSome_removeIndexEntry (sv : Server) (parent : List Bytes) (key : Bytes) (notify : Bool)
    (q : List Bytes) :
    (getNode (removeIndexEntry sv parent key notify) q).isSome = (getNode sv q).isSome := by
  cases h : getNode sv parent with
  | none => simp [removeIndexEntry, h]
  | some p =>
    cases hi : lastIndexOf p.index key with
    | none => rw [removeIndexEntry_none notify h hi]
    | some i =>
      cases notify with
      | true =>
        rw [removeIndexEntry_emits h hi, getNode_notifyIndex]
        exact getNode_isSome_setIndex (fun q => q.index.eraseIdx i) sv parent q
      | false =>
        rw [removeIndexEntry_quiet h hi]
        exact getNode_isSome_setIndex (fun q => q.index.eraseIdx i) sv parent q

theorem getNode_isSome_reorderChild (sv : Server) (parent : List Bytes) (child before : Bytes) (q : List Bytes) :
    (getNode (reorderChild sv parent child before) q).isSome = (getNode sv q).isSome := by
  cases h : getNode sv parent with
  | none => simp [reorderChild, h]
  | some p =>
    by_cases hb : before = child
    · rw [reorderChild_self h hb]
    · by_cases hg : (p.index.isEmpty && !(p.index.contains child) && before = removeFromIndexName) = true
      · rw [reorderChild_nothing h hg]
      · by_cases hr : before = removeFromIndexName
        · rw [reorderChild_remove h hb hg hr]; exact getNode_isSome_removeIndexEntry _ _ _ _ _
        · rw [reorderChild_emits h hb hg hr, getNode_notifyIndex,
            getNode_isSome_setIndex (fun q => q.index.take (reorderTarget p child before) ++ [child] ++
              q.index.drop (reorderTarget p child before))]
          exact getNode_isSome_removeIndexEntry _ _ _ _ _

/-- one step of the REORDERDATA handler's loop -/
def reorderStep (before : Bytes) (sv : Server) (v : List Bytes) : Server :=
  match v.getLast? with
  | none => sv
  | some nm => if v.length ≤ 2 then sv else reorderChild sv v.dropLast nm before

theorem getNode_isSome_reorderStep (before : Bytes) (sv : Server) (v q : List Bytes) :
    (getNode (reorderStep before sv v) q).isSome = (getNode sv q).isSome := by
  unfold reorderStep
  repeat' split
  all_goals first | rfl | exact getNode_isSome_reorderChild _ _ _ _ _

theorem treeInv_reorderStep (before : Bytes) {sv : Server} {v : List Bytes} (h : TreeInv sv)
    (hv : (getNode sv v).isSome) : TreeInv (reorderStep before sv v) := by
  unfold reorderStep
  split
  · exact h
  · rename_i nm hl
    split
    · exact h
    · apply treeInv_reorderChild _ _ _ h
      intro p hp
      right
      have hne : v ≠ [] := by intro e; subst e; simp at hl
      have hvv : v = v.dropLast ++ [nm] := by
        have := List.dropLast_concat_getLast hne
        rw [List.getLast?_eq_some_getLast hne] at hl
        cases hl
        exact this.symm
      obtain ⟨c, hc⟩ := Option.isSome_iff_exists.mp hv
      rw [hvv] at hc
      obtain ⟨p', hp', hk⟩ := getNode_snoc hc
      rw [hp] at hp'; cases hp'
      rw [hk]; rfl

theorem treeInv_reorderFold (before : Bytes) (visits : List (List Bytes)) {sv : Server} (h : TreeInv sv)
    (hex : ∀ v ∈ visits, (getNode sv v).isSome) : TreeInv (visits.foldl (reorderStep before) sv) := by
  induction visits generalizing sv with
  | nil => exact h
  | cons v r ih =>
    simp only [List.foldl_cons]
    apply ih (treeInv_reorderStep before h (hex v (by simp)))
    intro w hw
    rw [getNode_isSome_reorderStep]
    exact hex w (List.mem_cons_of_mem _ hw)

/-- PR_COMMAND_REORDERDATA, given that the traversal hands over existing nodes only -/
theorem treeInv_reorder {sv : Server} (sid : Nat) (key before : Bytes) (h : TreeInv sv)
    (hex : ∀ s, sv.sess? sid = some s →
      ∀ v ∈ travSession sv s (pmOfKeys [(key, none)] none) cbContinue, (getNode sv v).isSome) :
    TreeInv (reorder sv sid key before) := by
  unfold reorder
  split
  · exact h
  · rename_i s hs
    exact treeInv_reorderFold before _ h (hex s hs)

end Muscle.Reflector
