import MuscleModel.Reflector.IndexProofsTrav

/-!
# C13: the PR_COMMAND_REORDERDATA handler keeps the whole-tree invariant

The traversal hands over name paths of existing nodes (`doTraversal_sound`); `reorderChild` only rewrites indices,
so every such path stays the path of an existing node; hence every node is still a child of its parent when its
turn comes.
-/

set_option linter.unusedSimpArgs false
set_option linter.unusedVariables false

namespace Muscle.Reflector
open Muscle

theorem below_updateAt {f : Node → Node} (hf : ∀ n, (f n).name = n.name) (hk : ∀ n, (f n).kids = n.kids)
    (fuel : Nat) (n : Node) (path q : List Bytes) :
    below (updateAt fuel n path f) q = below n q := by
  induction fuel generalizing n path q with
  | zero =>
    cases path with
    | nil =>
      rw [ix_updateAt_nil]
      cases q with
      | nil => rfl
      | cons a r => simp only [below, hk]
    | cons b rest => rfl
  | succ fuel ih =>
    cases path with
    | nil =>
      rw [ix_updateAt_nil]
      cases q with
      | nil => rfl
      | cons a r => simp only [below, hk]
    | cons b rest =>
      simp only [updateAt]
      cases hb : findKid b n.kids with
      | none => rfl
      | some k =>
        simp only
        cases q with
        | nil => rfl
        | cons a r =>
          simp only [below, Node.setKids_kids]
          have hn : (updateAt fuel k rest f).name = b := by rw [ix_updateAt_name hf, findKid_some_name hb]
          by_cases hab : a = b
          · subst hab
            have := ix_findKid_putKid_same (updateAt fuel k rest f) n.kids
            rw [hn] at this
            rw [this, hb]
            exact ih k rest r
          · rw [ix_findKid_putKid_ne _ _ (by rw [hn]; exact fun e => hab e.symm)]

theorem below_setIndex (g : Node → List Bytes) (sv : Server) (parent q : List Bytes) :
    below (setNode sv parent (fun p => p.setIndex (g p))).root q = below sv.root q := by
  simp only [setNode_root]
  exact below_updateAt (setIndex_name_pres g) (by simp) _ _ _ _

theorem below_removeIndexEntry (sv : Server) (parent : List Bytes) (key : Bytes) (notify : Bool) (q : List Bytes) :
    below (removeIndexEntry sv parent key notify).root q = below sv.root q := by
  cases h : getNode sv parent with
  | none => simp [removeIndexEntry, h]
  | some p =>
    cases hi : lastIndexOf p.index key with
    | none => rw [removeIndexEntry_none notify h hi]
    | some i =>
      cases notify with
      | true =>
        rw [removeIndexEntry_emits h hi, notifyIndex_root]
        exact below_setIndex (fun q => q.index.eraseIdx i) sv parent q
      | false =>
        rw [removeIndexEntry_quiet h hi]
        exact below_setIndex (fun q => q.index.eraseIdx i) sv parent q

theorem below_reorderChild (sv : Server) (parent : List Bytes) (child before : Bytes) (q : List Bytes) :
    below (reorderChild sv parent child before).root q = below sv.root q := by
  cases h : getNode sv parent with
  | none => simp [reorderChild, h]
  | some p =>
    by_cases hb : before = child
    · rw [reorderChild_self h hb]
    · by_cases hg : (p.index.isEmpty && !(p.index.contains child) && before = removeFromIndexName) = true
      · rw [reorderChild_nothing h hg]
      · by_cases hr : before = removeFromIndexName
        · rw [reorderChild_remove h hb hg hr]; exact below_removeIndexEntry _ _ _ _ _
        · rw [reorderChild_emits h hb hg hr, notifyIndex_root,
            below_setIndex (fun q => q.index.take (reorderTarget p child before) ++ [child] ++
              q.index.drop (reorderTarget p child before))]
          exact below_removeIndexEntry _ _ _ _ _

/-- one step of the REORDERDATA handler's loop -/
def reorderStep (before : Bytes) (sv : Server) (v : List Bytes) : Server :=
  match v.getLast? with
  | none => sv
  | some nm => if v.length ≤ 2 then sv else reorderChild sv v.dropLast nm before

theorem below_reorderStep (before : Bytes) (sv : Server) (v q : List Bytes) :
    below (reorderStep before sv v).root q = below sv.root q := by
  unfold reorderStep
  repeat' split
  all_goals first | rfl | exact below_reorderChild _ _ _ _ _

theorem below_of_nodeAt {fuel : Nat} {root n : Node} {pre v : List Bytes} (h : nodeAt fuel root pre = some n)
    (hv : below n v = true) : below root (pre ++ v) = true := by
  induction pre generalizing fuel root with
  | nil => rw [ix_nodeAt_nil] at h; cases h; simpa using hv
  | cons a r ih =>
    cases fuel with
    | zero => simp [nodeAt] at h
    | succ fuel =>
      simp only [nodeAt] at h
      cases hk : findKid a root.kids with
      | none => simp [hk] at h
      | some k =>
        simp only [hk] at h
        simp only [List.cons_append, below, hk]
        exact ih h

theorem below_snoc_findKid {fuel : Nat} {n p : Node} {pre : List Bytes} {k : Bytes}
    (hb : below n (pre ++ [k]) = true) (hp : nodeAt fuel n pre = some p) : (findKid k p.kids).isSome := by
  induction pre generalizing fuel n with
  | nil =>
    rw [ix_nodeAt_nil] at hp; cases hp
    simp only [List.nil_append, below] at hb
    cases hk : findKid k p.kids with
    | none => simp [hk] at hb
    | some c => rfl
  | cons a r ih =>
    cases fuel with
    | zero => simp [nodeAt] at hp
    | succ fuel =>
      simp only [nodeAt] at hp
      simp only [List.cons_append, below] at hb
      cases hk : findKid a n.kids with
      | none => simp [hk] at hp
      | some c =>
        simp only [hk] at hp hb
        exact ih hb hp

theorem treeInv_reorderStep (before : Bytes) {sv : Server} {v : List Bytes} (h : TreeInv sv)
    (hv : below sv.root v = true) : TreeInv (reorderStep before sv v) := by
  unfold reorderStep
  split
  · exact h
  · rename_i nm hl
    split
    · exact h
    · apply treeInv_reorderChild _ _ _ h
      intro p hp
      right
      have hne : v ≠ [] := by intro e; subst e; simp at hl
      have hvv : v = v.dropLast ++ [nm] := by
        have := List.dropLast_concat_getLast hne
        rw [List.getLast?_eq_some_getLast hne] at hl
        cases hl
        exact this.symm
      rw [hvv] at hv
      exact below_snoc_findKid hv hp

theorem treeInv_reorderFold (before : Bytes) (visits : List (List Bytes)) {sv : Server} (h : TreeInv sv)
    (hex : ∀ v ∈ visits, below sv.root v = true) : TreeInv (visits.foldl (reorderStep before) sv) := by
  induction visits generalizing sv with
  | nil => exact h
  | cons v r ih =>
    simp only [List.foldl_cons]
    apply ih (treeInv_reorderStep before h (hex v (by simp)))
    intro w hw
    rw [below_reorderStep]
    exact hex w (List.mem_cons_of_mem _ hw)

/-- the paths `travSession` hands to a handler are paths of existing nodes -/
theorem travSession_sound {sv : Server} (s : Sess) (pm : PM) (cb : Visit → Nat → Node → Bool × Int)
    (h : TreeInv sv) : ∀ v ∈ travSession sv s pm cb, below sv.root v = true := by
  intro v hv
  unfold travSession at hv
  cases hn : getNode sv (sessNames s) with
  | none => simp [hn] at hv
  | some n =>
    simp only [hn, List.mem_map] at hv
    obtain ⟨w, hw, rfl⟩ := hv
    exact below_of_nodeAt hn (doTraversal_sound pm true 2 cb n fuelDepth (treeInv_getNode h hn) w hw)

/-- PR_COMMAND_REORDERDATA -/
theorem treeInv_reorderCore {sv : Server} (sid : Nat) (key before : Bytes) (h : TreeInv sv) :
    TreeInv (reorderCore sv sid key before) := by
  unfold reorderCore
  split
  · exact h
  · rename_i s hs
    exact treeInv_reorderFold before _ h (travSession_sound s _ _ h)

theorem treeInv_reorder {sv : Server} (sid : Nat) (key before : Bytes) (h : TreeInv sv) :
    TreeInv (reorder sv sid key before) := by
  unfold reorder
  simp only []
  split
  · exact treeInv_reorderCore sid key before h
  · split
    · exact treeInv_of_root (updSess_root _ _ _) (treeInv_reorderCore sid key before h)
    · exact treeInv_reorderCore sid key before h

end Muscle.Reflector
