import MuscleModel.Reflector.MirrorProofs19

/-!
# C04 lemmas, part 20: quiet steps, histories, convergence for a fixed subscription set

* `Quiet sid sv sv'`: the pipe of `sid` makes an empty step (`PipeStep … []`: flushes and non-data lines only) and every
  payload of the tree is unchanged — PING, GETPARAMETERS, client-to-client Messages (anybody's, also `sid`'s own), and the
  parameter / SUBSCRIBE / unsubscribe commands of OTHER sessions.
* `Hist sid`: histories made of `Steady` steps and quiet commands.
* `converges_fixed_subs`: a session without subscriptions (empty mirror) sends ONE SUBSCRIBE and afterwards any `Hist`
  history happens: at every later quiescent point the replay of everything delivered since is a right mirror.
-/

set_option linter.unusedSimpArgs false
set_option linter.unusedVariables false

namespace Muscle.Reflector
open Muscle Muscle.Eng.SrvEngine

def Quiet (sid : Nat) (sv sv' : Server) : Prop :=
  PipeStep sid sv sv' [] ∧ ∀ w, (getNode sv' w).map Node.data = (getNode sv w).map Node.data

theorem Quiet.refl (sid : Nat) (sv : Server) : Quiet sid sv sv := ⟨PipeStep.refl sid sv, fun _ => rfl⟩

theorem Quiet.trans {sid : Nat} {a b c : Server} (h1 : Quiet sid a b) (h2 : Quiet sid b c) : Quiet sid a c :=
  ⟨by simpa using h1.1.trans h2.1, fun w => (h2.2 w).trans (h1.2 w)⟩

theorem Quiet.foldl {sid : Nat} {α} (g : Server → α → Server) (hg : ∀ sv a, Quiet sid sv (g sv a)) (l : List α)
    (sv : Server) : Quiet sid sv (l.foldl g sv) := by
  induction l generalizing sv with
  | nil => exact Quiet.refl sid sv
  | cons a r ih => exact (hg sv a).trans (ih (g sv a))

theorem Quiet.syncFor {sid : Nat} {sv sv' : Server} (h : Quiet sid sv sv') : SyncFor sid sv sv' := by
  intro s hs _ m
  refine ⟨[], h.1, fun hm => ?_⟩
  intro p d
  rw [matches_congr (a := sv) (b := sv') h.2 s p d]
  exact hm p d

theorem quiet_of_sess {sid : Nat} {sv sv' : Server} (hs : sv'.sess? sid = sv.sess? sid) (hr : sv'.root = sv.root) :
    Quiet sid sv sv' := by
  refine ⟨?_, fun w => by rw [getNode_congr hr]⟩
  intro s hss
  exact ⟨s, [], by rw [hs]; exact hss, rfl, by simp, fun _ => rfl⟩

theorem quiet_updSess_other {sid t : Nat} (ht : t ≠ sid) (sv : Server) (f : Sess → Sess) (hf : ∀ s, (f s).sid = s.sid) :
    Quiet sid sv (sv.updSess t f) := by
  refine quiet_of_sess (sv := sv) (sv' := sv.updSess t f) ?_ rfl
  cases hs : sv.sess? sid with
  | none =>
    rw [sess?_updSess sv t f hf, hs]; rfl
  | some s => exact sess?_updSess_other sv t f hf hs (fun e => ht e.symm)

theorem quiet_deliver (sid t : Nat) (sv : Server) (text : String) (h : t ≠ sid ∨ isData text = false) :
    Quiet sid sv (sv.deliver t text) := by
  by_cases ht : t = sid
  · subst ht
    have hnd : isData text = false := by
      rcases h with h | h
      · exact absurd rfl h
      · exact h
    refine ⟨?_, fun _ => rfl⟩
    intro s hs
    refine ⟨{ s with inbox := s.inbox ++ [text] }, [], ?_, rfl, ?_, fun _ => rfl⟩
    · unfold Server.deliver
      refine sess?_updSess_same sv t _ ?_ hs
      intro _; rfl
    · show List.filter isData (s.inbox ++ [text]) = _
      rw [List.filter_append]
      simp [hnd, dataLines]
  · unfold Server.deliver
    exact quiet_updSess_other ht sv _ (fun _ => rfl)

theorem quiet_pushAll (sid : Nat) (sv : Server) : Quiet sid sv (pushAll sv) :=
  ⟨pipeStep_pushAll sid sv, fun w => by rw [getNode_congr (pushAll_root sv)]⟩

theorem quiet_nodeChangedAux_other {sid t : Nat} (ht : t ≠ sid) (sv : Server) (np : Bytes) (d : Option Nat) (removed : Bool) :
    Quiet sid sv (nodeChangedAux sv t np d removed) := by
  refine ⟨?_, fun w => by rw [getNode_congr (nodeChangedAux_root ..)]⟩
  apply pipeStep_of_push
  intro x hx
  exact nodeChangedAux_other hx (fun e => ht e.symm) np d removed

theorem quiet_setSubs (sid : Nat) (sv : Server) (v : List Bytes) (g : List (Nat × Nat) → List (Nat × Nat)) :
    Quiet sid sv (setNode sv v (fun n => n.setSubs (g n.subs))) :=
  ⟨pipeStep_sessions rfl, fun w => mr_setField_data_all (f := fun n => n.setSubs (g n.subs)) (fun _ => rfl) (fun _ => rfl)
    (fun _ => rfl) sv v w⟩

theorem quiet_subscribeRefs (sid t : Nat) (sv : Server) (pm : PM) (delta : Option Int) :
    Quiet sid sv (subscribeRefs sv t pm delta) := by
  unfold subscribeRefs
  exact Quiet.foldl _ (fun X v => quiet_setSubs sid X v (fun subs => adjustSubs subs t delta)) _ sv

/-! ## text lines that are no PR_RESULT_DATAITEMS -/

theorem isData_pong (tag : Nat) : isData ("PONG " ++ toString tag) = false := by
  simp [isData, String.toList_append]

theorem isData_params (x : String) : isData ("PARAMS" ++ x) = false := by
  simp [isData, String.toList_append]

theorem isData_msg (x : String) : isData ("MSG 1234 from=" ++ x) = false := by
  simp [isData, String.toList_append]

/-! ## `DoGetData` of another session -/

theorem quiet_doGetData_other {sid t : Nat} (ht : t ≠ sid) (sv : Server) (keys : List (Bytes × Option Filt)) :
    Quiet sid sv (doGetData sv t keys) := by
  rw [doGetData_eq]
  cases hs : sv.sess? t with
  | none => exact Quiet.refl sid sv
  | some s =>
    simp only []
    have hfold : ∀ (vs : List Visit) (st : Server × UpdMsg × IdxMsg), Quiet sid sv st.1 →
        Quiet sid sv (vs.foldl (gdStep s t) st).1 := by
      intro vs
      induction vs with
      | nil => intro st h; exact h
      | cons v r ih =>
        intro st h
        simp only [List.foldl_cons]
        apply ih
        obtain ⟨X, dm, im⟩ := st
        unfold gdStep
        simp only []
        repeat' split
        all_goals first
          | exact h
          | exact h.trans (quiet_deliver sid t _ _ (Or.inl ht))
          | exact (h.trans (quiet_deliver sid t _ _ (Or.inl ht))).trans (quiet_deliver sid t _ _ (Or.inl ht))
    have h1 := hfold (travGlobal sv (pmOfKeys keys (some defaultPrefix)) true (getDataCb s)) (sv, {}, [])
      (Quiet.refl sid sv)
    repeat' split
    all_goals first
      | exact h1
      | exact h1.trans (quiet_deliver sid t _ _ (Or.inl ht))
      | exact (h1.trans (quiet_deliver sid t _ _ (Or.inl ht))).trans (quiet_deliver sid t _ _ (Or.inl ht))

/-! ## the quiet commands -/

theorem quiet_route (sid a : Nat) (sv : Server) (pm : PM) (text : String) (hnd : isData text = false) :
    Quiet sid sv (route sv a pm text) := by
  unfold route
  split
  · exact Quiet.refl sid sv
  · simp only []
    apply Quiet.foldl
    intro X v
    repeat' split
    all_goals first
      | exact Quiet.refl sid X
      | exact quiet_deliver sid _ X text (Or.inr hnd)

theorem quiet_sendMsg (sid a tag : Nat) (sv : Server) (keys : List Bytes) : Quiet sid sv (sendMsg sv a tag keys) := by
  unfold sendMsg
  split
  · exact Quiet.refl sid sv
  · simp only []
    have hnd : isData ("MSG 1234 from=" ++ toString a ++ " tag=" ++ toString tag) = false := by
      simp [isData, String.toList_append]
    repeat' split
    all_goals first
      | exact quiet_route sid a sv _ _ hnd
      | (apply Quiet.foldl
         intro X t
         split
         · exact quiet_deliver sid _ X _ (Or.inr hnd)
         · exact Quiet.refl sid X)

/-- SUBSCRIBE of another session -/
theorem quiet_subscribe_other {sid t : Nat} (ht : t ≠ sid) (sv : Server) (path : Bytes) (f : Option Filt) :
    Quiet sid sv (subscribe sv t path f) := by
  unfold subscribe
  split
  · exact Quiet.refl sid sv
  · simp only []
    refine Quiet.trans ?_ (quiet_doGetData_other ht _ _)
    refine Quiet.trans ?_ (quiet_updSess_other ht _ _ (fun _ => rfl))
    split
    · refine Quiet.trans ?_ (quiet_updSess_other ht _ _ (fun _ => rfl))
      split
      · apply Quiet.foldl
        intro X v
        repeat' split
        all_goals first
          | exact Quiet.refl sid X
          | exact quiet_nodeChangedAux_other ht X _ _ _
      · exact Quiet.refl sid sv
    · split
      · exact Quiet.refl sid sv
      · refine Quiet.trans ?_ (quiet_subscribeRefs sid t _ _ _)
        refine quiet_updSess_other ht sv _ ?_
        intro _; rfl

theorem quiet_unsubscribe_other {sid t : Nat} (ht : t ≠ sid) (sv : Server) (path : Bytes) :
    Quiet sid sv (unsubscribe sv t path) := by
  unfold unsubscribe
  split
  · exact Quiet.refl sid sv
  · simp only []
    split
    · exact Quiet.refl sid sv
    · refine Quiet.trans ?_ (quiet_updSess_other ht _ _ (fun _ => rfl))
      split
      · refine Quiet.trans ?_ (quiet_subscribeRefs sid t _ _ _)
        refine quiet_updSess_other ht sv _ ?_
        intro _; rfl
      · exact Quiet.refl sid sv

/-- the commands that are quiet for `sid`: PING, GETPARAMETERS, client-to-client Messages of anybody; parameter, SUBSCRIBE and
    unsubscribe commands of other sessions -/
def QuietCmd (sid a : Nat) : Cmd → Prop
  | .ping _ => True
  | .getparams => True
  | .send _ _ => True
  | .sub _ _ => a ≠ sid
  | .unsub _ => a ≠ sid
  | .paramSelf => a ≠ sid
  | .paramMax _ => a ≠ sid
  | .paramRoute _ => a ≠ sid
  | .paramRouteF _ _ => a ≠ sid
  | .unparamMax => a ≠ sid
  | .unparamRoute => a ≠ sid
  | .unparamRouteF => a ≠ sid
  | _ => False

theorem quiet_runCmd {sid a : Nat} (sv : Server) (c : Cmd) (h : QuietCmd sid a c) : Quiet sid sv (runCmd sv a c) := by
  cases c with
  | ping tag => exact quiet_deliver sid a sv _ (Or.inr (isData_pong tag))
  | getparams =>
    simp only [runCmd]
    split
    · exact Quiet.refl sid sv
    · exact quiet_deliver sid a sv _ (Or.inr (isData_params _))
  | send tag keys => exact quiet_sendMsg sid a tag sv keys
  | sub path f => exact quiet_subscribe_other h sv path f
  | unsub path => exact quiet_unsubscribe_other h sv path
  | paramSelf => exact quiet_updSess_other h sv _ (fun _ => rfl)
  | paramMax n => exact quiet_updSess_other h sv _ (fun _ => rfl)
  | paramRoute keys => exact quiet_updSess_other h sv _ (fun _ => rfl)
  | paramRouteF keys fs => exact quiet_updSess_other h sv _ (fun _ => rfl)
  | unparamMax => exact quiet_updSess_other h sv _ (fun s => by split <;> rfl)
  | unparamRoute => exact quiet_updSess_other h sv _ (fun s => by split <;> rfl)
  | unparamRouteF => exact quiet_updSess_other h sv _ (fun s => by split <;> rfl)
  | set _ _ _ => exact absurd h (by simp [QuietCmd])
  | rm _ => exact absurd h (by simp [QuietCmd])
  | ins _ _ _ => exact absurd h (by simp [QuietCmd])
  | reorder _ _ => exact absurd h (by simp [QuietCmd])

/-! ## histories -/

inductive Hist (sid : Nat) : Server → Server → Prop
  | steady {a b : Server} : Steady sid a b → Hist sid a b
  | quiet {sv : Server} (a : Nat) (c : Cmd) : QuietCmd sid a c → CmdOK c → Hist sid sv (runCmd sv a c)
  | trans {a b c : Server} : Hist sid a b → Hist sid b c → Hist sid a c

theorem Inv.runCmd {sv : Server} (h : Inv sv) (a : Nat) (c : Cmd) (hc : CmdOK c) : Inv (runCmd sv a c) := by
  have := MKT.runCmd ⟨h.1, h.2.1⟩ a c hc
  exact ⟨this.1, this.2, NS.runCmd h.2.2 a c⟩

theorem hist_sync {sid : Nat} {sv sv' : Server} (hh : Hist sid sv sv') (h : Inv sv) : SyncFor sid sv sv' ∧ Inv sv' := by
  induction hh with
  | steady hs => exact steady_sync hs h
  | quiet a c hq hc => exact ⟨(quiet_runCmd _ c hq).syncFor, h.runCmd a c hc⟩
  | trans _ _ ih1 ih2 =>
    obtain ⟨s1, i1⟩ := ih1 h
    obtain ⟨s2, i2⟩ := ih2 i1
    exact ⟨s1.trans s2, i2⟩

/-- between two quiescent points of a history -/
theorem converges_hist_core {sid : Nat} {sv sv' : Server} (hh : Hist sid sv sv') (h : Inv sv) {s : Sess}
    (hs : sv.sess? sid = some s) (hen : s.subsEnabled = true) (hq : pend s = {})
    (hq' : ∀ s', sv'.sess? sid = some s' → pend s' = {}) (m : Mirror) (hm : MirrorOK sv s m) :
    ∃ s' sent, sv'.sess? sid = some s' ∧ s'.vcore = s.vcore ∧ dataLines s' = dataLines s ++ sent.map dataText ∧
      MirrorOK sv' s' (applyMsgs m sent) := by
  obtain ⟨hsync, _⟩ := hist_sync hh h
  obtain ⟨evs, hsy⟩ := hsync s hs hen m
  obtain ⟨s', sent, hs', hc, hd, _, hok⟩ := replay_of_sync hsy hs hq hq'
  exact ⟨s', sent, hs', hc, hd, (mirrorOK_core hc sv' _).2 (hok hm)⟩

/-! ## one SUBSCRIBE, then any history -/

theorem mirrorOK_nosubs (sv : Server) {s : Sess} (h : s.subs = []) : MirrorOK sv s (fun _ => none) := by
  intro p d
  constructor
  · intro e; cases e
  · rintro ⟨v, n, _, _, _, _, hw, _⟩
    unfold wants pmMatchesPath at hw
    rw [h] at hw
    simp [pmGroup] at hw

/-- CONVERGENCE for a subscription set established by ONE SUBSCRIBE.  `sv0` satisfies the invariants (every `CReach` state);
    session `sid` is attached with no subscription yet, subscriptions enabled, nothing pending, and its client mirror is
    empty.  It sends SUBSCRIBE `path` (filter `f`; `GoodPath`; `SnapVisits`: discharged by `snapVisits_reflectSelf` for
    sessions that reflect to themselves), and then ANY history `Hist sid` happens.  At every later point where nothing is
    pending for `sid`: the PR_RESULT_DATAITEMS lines appended to its inbox since `sv0` are the text of Messages `sent`, and
    the client that applied them in order holds exactly the matching view — nothing missing, stale or extra. -/
theorem converges_fixed_subs_core {sv0 sv' : Server} (h0 : Inv sv0) {sid : Nat} {s0 : Sess} (hs0 : sv0.sess? sid = some s0)
    (hnos : s0.subs = []) (hen : s0.subsEnabled = true) (hq0 : pend s0 = {}) (path : Bytes) (f : Option Filt)
    (hgood : GoodPath (adjustPrefix path (some defaultPrefix)))
    (hV : SnapVisits (subC sv0 sid path f) (subSess s0 path f) (adjustPrefix path (some defaultPrefix)) f)
    (hh : Hist sid (runCmd sv0 sid (.sub path f)) sv')
    (hq' : ∀ s', sv'.sess? sid = some s' → pend s' = {}) :
    ∃ s' sent, sv'.sess? sid = some s' ∧ dataLines s' = dataLines s0 ++ sent.map dataText ∧
      s'.subs = pmPut [] (adjustPrefix path (some defaultPrefix)) f ∧
      MirrorOK sv' s' (applyMsgs (fun _ => none) sent) := by
  have hf : pmFind s0.subs (adjustPrefix path (some defaultPrefix)) = none := by rw [hnos]; rfl
  obtain ⟨sD, sent1, hsD, hcD, hnD, hdD, hmD⟩ := subscribe_new_replay h0 hs0 path f hgood hf hV (fun _ => none)
    (mirrorOK_nosubs sv0 hnos)
  have h1 : Inv (runCmd sv0 sid (.sub path f)) := h0.runCmd sid _ hgood
  have henD : sD.subsEnabled = true := by
    have := congrArg Sess.subsEnabled hcD
    have h' : sD.subsEnabled = s0.subsEnabled := this
    rw [h']; exact hen
  have hqD : pend sD = {} := by unfold pend at hq0 ⊢; rw [hnD]; exact hq0
  obtain ⟨s', sent2, hs', hc', hd', hm'⟩ := converges_hist_core hh h1 (s := sD) hsD henD hqD hq' _ hmD
  refine ⟨s', sent1 ++ sent2, hs', ?_, ?_, ?_⟩
  · rw [hd', hdD, List.map_append, List.append_assoc]
  · have e1 : s'.subs = sD.subs := by have := congrArg Sess.subs hc'; exact this
    have e2 : sD.subs = (subSess s0 path f).subs := by have := congrArg Sess.subs hcD; exact this
    rw [e1, e2]
    show pmPut s0.subs _ f = _
    rw [hnos]
  · rw [applyMsgs_append]; exact hm'

end Muscle.Reflector
