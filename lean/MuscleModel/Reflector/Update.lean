import MuscleModel.Reflector.Server

/-!
# One subscriber's update stream: building update Messages vs. applying them

The server turns the sequence of node events a subscriber must learn about (`set path payload`,
`removed path`) into PR_RESULT_DATAITEMS Messages (`NodeChangedAux`): removals go into one string field,
sets into one Message field per path, a removal of a path that already has a set in the pending Message
forces a flush first, and the pending Message is flushed when it holds `maxItems` names — and, since
`PushSubscriptionMessages` flushes every session, at arbitrary further points chosen by other sessions'
traffic.  The client applies each Message as "removals first, then sets in field order".

`feed` is `nodeChangedAux` seen from one session (`Pipe` = its pending Message + what was sent);
`extraFlush` models the flushes caused by others.  `Update/Proofs` show that, whatever the flush points,
the client's mirror after applying everything equals the mirror obtained by applying the events one by
one — batching is invisible.
-/

namespace Muscle.Reflector
open Muscle

/-- a node event as one subscriber sees it -/
inductive Ev where
  | set (path : Bytes) (d : Option Nat)
  | removed (path : Bytes)

/-- the client's data set: node path ↦ payload (`none` = not held) -/
abbrev Mirror := Bytes → Option (Option Nat)

def Mirror.upd (m : Mirror) (p : Bytes) (v : Option (Option Nat)) : Mirror := fun q => if q = p then v else m q

def applyEv (m : Mirror) : Ev → Mirror
  | .set p d => m.upd p (some d)
  | .removed p => m.upd p none

/-- the client rule for one PR_RESULT_DATAITEMS Message: removals first, then sets in field/item order -/
def applyMsg (m : Mirror) (u : UpdMsg) : Mirror :=
  let m1 := u.removed.foldl (fun m p => m.upd p none) m
  u.sets.foldl (fun m (p, ds) => ds.foldl (fun m d => m.upd p (some d)) m) m1

structure Pipe where
  cur : UpdMsg := {}
  sent : List UpdMsg := []

def Pipe.flush (s : Pipe) : Pipe :=
  if s.cur.numNames = 0 then s else { cur := {}, sent := s.sent ++ [s.cur] }

/-- `NodeChangedAux` for one event (`maxItems ≥ 1` is the session's limit) -/
def feed (maxItems : Nat) (s : Pipe) : Ev → Pipe
  | .removed p =>
    let s := if s.cur.hasSet p then s.flush else s          -- remove-after-set: flush, then start again
    let s := { s with cur := { s.cur with removed := s.cur.removed ++ [p] } }
    if s.cur.numNames ≥ maxItems then s.flush else s
  | .set p d =>
    let s := { s with cur := s.cur.addSet p d }
    if s.cur.numNames ≥ maxItems then s.flush else s

/-- events interleaved with flushes caused by other sessions' traffic -/
def run (maxItems : Nat) : Pipe → List (Ev × Bool) → Pipe
  | s, [] => s
  | s, (e, extraFlush) :: r =>
    let s := feed maxItems s e
    run maxItems (if extraFlush then s.flush else s) r

/-- everything the client has received once the stream is quiescent (final push) -/
def delivered (s : Pipe) : List UpdMsg := s.flush.sent

end Muscle.Reflector
