import MuscleModel.Reflector.TravProofs

/-!
# Lemmas for property C05, part 2: one level of `DoTraversalAux`

Both code paths of one level (child iteration, literal lookups) reduced to "`checkChild … none` for a list of
children": all children in the general case, the looked-up children (`lkEntries`) in the optimized case.
-/

namespace Muscle.Reflector
open Muscle

/-- the general case: every child in order -/
theorem travKids_eq (ctx : TCtx) (rec : Rec) (names : Visit) (depth : Nat)
    (hna : ∀ k known, (checkChild ctx rec k names depth known).2 = none) :
    ∀ (kids : List Node) (acc : List Visit),
      travKids ctx rec names depth kids acc =
        (acc ++ kids.flatMap (fun k => (checkChild ctx rec k names depth none).1), (depth : Int)) := by
  intro kids
  induction kids with
  | nil => intro acc; simp [travKids]
  | cons k r ih =>
    intro acc
    have h := hna k none
    rw [travKids]
    generalize hc : checkChild ctx rec k names depth none = c at h
    obtain ⟨vs, a⟩ := c
    simp only at h
    subst h
    simp only [ih, List.flatMap_cons, List.append_assoc, hc]

/-- the elements looked up for one clause -/
def elemsOf (key : Bytes) : List Bytes :=
  if isUVList key then (splitCommas key).filter (fun x => !x.isEmpty) else [key]

/-- pure shadow of `lookupElems`: the (child, entry index) pairs handed to `CheckChildForTraversal`, and the new `alreadyDid` -/
def lkElems (node : Node) (idx : Nat) : List Bytes → List Bytes → List (Node × Nat) × List Bytes
  | [], did => ([], did)
  | el :: els, did =>
    match findKid (unescape el) node.kids with
    | none => lkElems node idx els did
    | some k =>
      if did.contains (unescape el) then lkElems node idx els did else
      ((k, idx) :: (lkElems node idx els (unescape el :: did)).1, (lkElems node idx els (unescape el :: did)).2)

/-- pure shadow of `travLookups` -/
def lkEntries (node : Node) (rel : Nat) : List Entry → Nat → List Bytes → List (Node × Nat)
  | [], _, _ => []
  | e :: es, idx, did =>
    (lkElems node idx (elemsOf ((e.clauses[rel]?).getD [])) did).1 ++
      lkEntries node rel es (idx + 1) (lkElems node idx (elemsOf ((e.clauses[rel]?).getD [])) did).2

theorem lookupElems_eq (ctx : TCtx) (rec : Rec) (node : Node) (names : Visit) (depth : Nat) (idx : Nat)
    (hna : ∀ k known, (checkChild ctx rec k names depth known).2 = none) :
    ∀ (els did : List Bytes) (acc : List Visit),
      lookupElems ctx rec node names depth idx els did acc =
        (acc ++ (lkElems node idx els did).1.flatMap (fun p => (checkChild ctx rec p.1 names depth (some p.2)).1),
         (lkElems node idx els did).2, none) := by
  intro els
  induction els with
  | nil => intro did acc; simp [lookupElems, lkElems]
  | cons el els ih =>
    intro did acc
    rw [lookupElems, lkElems]
    cases hf : findKid (unescape el) node.kids with
    | none => simp only [ih]
    | some k =>
      simp only
      by_cases hd : did.contains (unescape el) = true
      · simp only [hd, if_true, ih]
      · have hd' : did.contains (unescape el) = false := by simpa using hd
        simp only [hd', Bool.false_eq_true, if_false]
        have h := hna k (some idx)
        generalize hc : checkChild ctx rec k names depth (some idx) = c at h
        obtain ⟨vs, a⟩ := c
        simp only at h
        subst h
        simp only [ih, List.flatMap_cons, List.append_assoc, hc]

theorem travLookups_eq (ctx : TCtx) (rec : Rec) (node : Node) (names : Visit) (depth : Nat)
    (hna : ∀ k known, (checkChild ctx rec k names depth known).2 = none) :
    ∀ (es : List Entry) (idx : Nat) (did : List Bytes) (acc : List Visit),
      travLookups ctx rec node names depth es idx did acc =
        (acc ++ (lkEntries node (depth - ctx.rootDepth) es idx did).flatMap
                  (fun p => (checkChild ctx rec p.1 names depth (some p.2)).1), (depth : Int)) := by
  intro es
  induction es with
  | nil => intro idx did acc; simp [travLookups, lkEntries]
  | cons e es ih =>
    intro idx did acc
    rw [travLookups, lkEntries]
    rw [show (if isUVList ((e.clauses[depth - ctx.rootDepth]?).getD []) = true then
              (splitCommas ((e.clauses[depth - ctx.rootDepth]?).getD [])).filter (fun x => !x.isEmpty)
             else [(e.clauses[depth - ctx.rootDepth]?).getD []]) = elemsOf ((e.clauses[depth - ctx.rootDepth]?).getD []) from rfl]
    rw [lookupElems_eq ctx rec node names depth idx hna]
    simp only [ih, List.flatMap_append, List.append_assoc]


theorem findKid_some {nm : Bytes} {kids : List Node} {k : Node} (h : findKid nm kids = some k) :
    k ∈ kids ∧ k.name = nm := by
  induction kids with
  | nil => simp [findKid] at h
  | cons x r ih =>
    rw [findKid] at h
    split at h
    · cases h; simp [*]
    · have := ih h; simp [this]

theorem findKid_of_mem {kids : List Node} (hn : (kids.map Node.name).Nodup) {k : Node} (hk : k ∈ kids) :
    findKid k.name kids = some k := by
  induction kids with
  | nil => cases hk
  | cons x r ih =>
    rw [findKid]
    simp only [List.map_cons, List.nodup_cons] at hn
    rcases List.mem_cons.1 hk with rfl | hk
    · simp
    · have : x.name ≠ k.name := by
        intro he; apply hn.1; rw [he]; exact List.mem_map_of_mem hk
      simp [this, ih hn.2 hk]

theorem findKid_none {nm : Bytes} {kids : List Node} (h : findKid nm kids = none) : ∀ k ∈ kids, k.name ≠ nm := by
  induction kids with
  | nil => intro k hk; cases hk
  | cons x r ih =>
    rw [findKid] at h
    split at h
    · cases h
    · intro k hk
      rcases List.mem_cons.1 hk with rfl | hk
      · assumption
      · exact ih h k hk

/-- facts about one clause's lookups -/
theorem lkElems_spec (node : Node) (idx : Nat) :
    ∀ (els did : List Bytes),
      (∀ p ∈ (lkElems node idx els did).1, p.2 = idx ∧ p.1.name ∉ did ∧
          ∃ el ∈ els, findKid (unescape el) node.kids = some p.1) ∧
      (∀ x, x ∈ (lkElems node idx els did).2 ↔ x ∈ did ∨ ∃ p ∈ (lkElems node idx els did).1, p.1.name = x) ∧
      (lkElems node idx els did).1.Pairwise (fun p q => p.1.name ≠ q.1.name) ∧
      (∀ el ∈ els, ∀ k, findKid (unescape el) node.kids = some k → k.name ∈ (lkElems node idx els did).2) := by
  intro els
  induction els with
  | nil => intro did; simp [lkElems]
  | cons el els ih =>
    intro did
    rw [lkElems]
    cases hf : findKid (unescape el) node.kids with
    | none =>
      obtain ⟨a, b, c, d⟩ := ih did
      refine ⟨?_, b, c, ?_⟩
      · intro p hp
        obtain ⟨h1, h2, el', h3, h4⟩ := a p hp
        exact ⟨h1, h2, el', List.mem_cons_of_mem _ h3, h4⟩
      · intro el' hel k hk
        rcases List.mem_cons.1 hel with rfl | hel
        · rw [hf] at hk; cases hk
        · exact d el' hel k hk
    | some k =>
      have hkn := (findKid_some hf).2
      by_cases hd : did.contains (unescape el) = true
      · simp only [hd, if_true]
        obtain ⟨a, b, c, d⟩ := ih did
        refine ⟨?_, b, c, ?_⟩
        · intro p hp
          obtain ⟨h1, h2, el', h3, h4⟩ := a p hp
          exact ⟨h1, h2, el', List.mem_cons_of_mem _ h3, h4⟩
        · intro el' hel k' hk'
          rcases List.mem_cons.1 hel with rfl | hel
          · rw [hf] at hk'; cases hk'
            rw [b]; left; rw [hkn]; simpa using hd
          · exact d el' hel k' hk'
      · have hd' : did.contains (unescape el) = false := by simpa using hd
        have hnd : unescape el ∉ did := by simpa using hd
        simp only [hd', Bool.false_eq_true, if_false]
        obtain ⟨a, b, c, d⟩ := ih (unescape el :: did)
        refine ⟨?_, ?_, ?_, ?_⟩
        · intro p hp
          rcases List.mem_cons.1 hp with rfl | hp
          · exact ⟨rfl, by rw [hkn]; exact hnd, el, List.mem_cons_self, hf⟩
          · obtain ⟨h1, h2, el', h3, h4⟩ := a p hp
            exact ⟨h1, fun h => h2 (List.mem_cons_of_mem _ h), el', List.mem_cons_of_mem _ h3, h4⟩
        · intro x
          rw [b]
          simp only [List.mem_cons, exists_eq_or_imp, hkn]
          constructor
          · rintro ((h | h) | h)
            · right; left; exact h.symm
            · left; exact h
            · right; right; exact h
          · rintro (h | h | h)
            · left; right; exact h
            · left; left; exact h.symm
            · right; exact h
        · rw [List.pairwise_cons]
          refine ⟨?_, c⟩
          intro q hq
          obtain ⟨_, h2, _⟩ := a q hq
          intro he
          apply h2; rw [← he, hkn]; exact List.mem_cons_self
        · intro el' hel k' hk'
          rcases List.mem_cons.1 hel with rfl | hel
          · rw [hf] at hk'; cases hk'
            rw [b]; left; rw [hkn]; exact List.mem_cons_self
          · exact d el' hel k' hk'



/-- facts about all lookups of one level -/
theorem lkEntries_spec (node : Node) (rel : Nat) :
    ∀ (es : List Entry) (idx : Nat) (did : List Bytes),
      (∀ p ∈ lkEntries node rel es idx did, idx ≤ p.2 ∧ p.1.name ∉ did ∧
          ∃ e, es[p.2 - idx]? = some e ∧
            ∃ el ∈ elemsOf ((e.clauses[rel]?).getD []), findKid (unescape el) node.kids = some p.1) ∧
      (lkEntries node rel es idx did).Pairwise (fun p q => p.1.name ≠ q.1.name) ∧
      (∀ e ∈ es, ∀ el ∈ elemsOf ((e.clauses[rel]?).getD []), ∀ k, findKid (unescape el) node.kids = some k →
          k.name ∈ did ∨ ∃ j, (k, j) ∈ lkEntries node rel es idx did) := by
  intro es
  induction es with
  | nil => intro idx did; simp [lkEntries]
  | cons e es ih =>
    intro idx did
    rw [lkEntries]
    obtain ⟨a, b, c, d⟩ := lkElems_spec node idx (elemsOf ((e.clauses[rel]?).getD [])) did
    obtain ⟨a', c', d'⟩ := ih (idx + 1) (lkElems node idx (elemsOf ((e.clauses[rel]?).getD [])) did).2
    refine ⟨?_, ?_, ?_⟩
    · intro p hp
      rcases List.mem_append.1 hp with hp | hp
      · obtain ⟨h1, h2, el, h3, h4⟩ := a p hp
        refine ⟨by omega, h2, e, by simp [h1], el, h3, h4⟩
      · obtain ⟨h1, h2, e', h3, h4⟩ := a' p hp
        refine ⟨by omega, fun h => h2 ((b _).2 (Or.inl h)), e', ?_, h4⟩
        have : p.2 - idx = (p.2 - (idx + 1)) + 1 := by omega
        rw [this]; simpa using h3
    · rw [List.pairwise_append]
      refine ⟨c, c', ?_⟩
      intro p hp q hq he
      obtain ⟨_, h2, _⟩ := a' q hq
      apply h2; rw [b]; right; exact ⟨p, hp, he⟩
    · intro e' he' el hel k hk
      rcases List.mem_cons.1 he' with rfl | he'
      · have := d el hel k hk
        rcases (b _).1 this with h | ⟨p, hp, hpn⟩
        · left; exact h
        · right
          obtain ⟨h1, _, el', _, h4⟩ := a p hp
          have hk2 : findKid k.name node.kids = some k := by rw [(findKid_some hk).2]; exact hk
          have hp2 : findKid p.1.name node.kids = some p.1 := by rw [(findKid_some h4).2]; exact h4
          rw [hpn, hk2] at hp2
          refine ⟨p.2, List.mem_append_left _ ?_⟩
          cases hp2; exact hp
      · rcases d' e' he' el hel k hk with h | ⟨j, hj⟩
        · rcases (b _).1 h with h | ⟨p, hp, hpn⟩
          · left; exact h
          · right
            obtain ⟨h1, _, el', _, h4⟩ := a p hp
            have hk2 : findKid k.name node.kids = some k := by rw [(findKid_some hk).2]; exact hk
            have hp2 : findKid p.1.name node.kids = some p.1 := by rw [(findKid_some h4).2]; exact h4
            rw [hpn, hk2] at hp2
            refine ⟨p.2, List.mem_append_left _ ?_⟩
            cases hp2; exact hp
        · right; exact ⟨j, List.mem_append_right _ hj⟩


/-! ## hypotheses of the main theorem -/

/-- imported from the pattern layer (C15): a unique pattern matches exactly its unescaped text -/
def UniqueLaw (c : Bytes) : Prop := isUnique c = true → ∀ s, clauseMatch c s = (s == unescape c)

/-- imported from the pattern layer (C15): a comma list of unique values matches exactly its unescaped non-empty elements -/
def UVListLaw (c : Bytes) : Prop :=
  isUVList c = true → ∀ s, clauseMatch c s = ((splitCommas c).filter (fun x => !x.isEmpty)).any (fun e => s == unescape e)

def allEntries (pm : PM) : List Entry := pm.flatMap (fun g => g.2)

/-- both laws for every clause pattern of the matcher -/
def ClauseLaws (pm : PM) : Prop := ∀ e ∈ allEntries pm, ∀ c ∈ e.clauses, UniqueLaw c ∧ UVListLaw c

/-- every entry sits in the group keyed by its clause count -/
def pmWF (pm : PM) : Bool := pm.all (fun g => g.2.all (fun e => e.clauses.length == g.1))

theorem mem_activeEntries {pm : PM} {rel : Nat} {e : Entry} :
    e ∈ activeEntries pm rel ↔ ∃ g ∈ pm, rel < g.1 ∧ e ∈ g.2 := by
  simp only [activeEntries, List.mem_flatMap, List.mem_filter, decide_eq_true_eq]
  constructor
  · rintro ⟨g, ⟨h1, h2⟩, h3⟩; exact ⟨g, h1, h2, h3⟩
  · rintro ⟨g, h1, h2, h3⟩; exact ⟨g, ⟨h1, h2⟩, h3⟩

theorem active_len {pm : PM} (hwf : pmWF pm = true) {rel : Nat} {e : Entry} (he : e ∈ activeEntries pm rel) :
    rel < e.clauses.length := by
  obtain ⟨g, hg, hlt, heg⟩ := mem_activeEntries.1 he
  simp only [pmWF, List.all_eq_true, beq_iff_eq] at hwf
  rw [hwf g hg e heg]; exact hlt

theorem active_all {pm : PM} {rel : Nat} {e : Entry} (he : e ∈ activeEntries pm rel) : e ∈ allEntries pm := by
  obtain ⟨g, hg, _, heg⟩ := mem_activeEntries.1 he
  exact List.mem_flatMap.2 ⟨g, hg, heg⟩

/-- at a level without wildcards a hit means: the name is one of the entry's looked-up elements -/
theorem hit_iff_elem {pm : PM} (hwf : pmWF pm = true) (hl : ClauseLaws pm) {rel : Nat}
    (hw : parsersHaveWildcards pm rel = false) {e : Entry} (he : e ∈ activeEntries pm rel) (nm : Bytes) :
    hitB rel nm e = true ↔ ∃ el ∈ elemsOf ((e.clauses[rel]?).getD []), nm = unescape el := by
  have hlen := active_len hwf he
  have hc : e.clauses[rel]? = some e.clauses[rel] := List.getElem?_eq_getElem hlen
  have hmem : e.clauses[rel] ∈ e.clauses := List.getElem_mem hlen
  obtain ⟨hU, hV⟩ := hl e (active_all he) _ hmem
  simp only [parsersHaveWildcards, List.any_eq_false] at hw
  have hw' := hw e he
  simp only [hc] at hw'
  simp only [hitB, hc, Option.getD_some]
  generalize e.clauses[rel] = c at *
  unfold elemsOf
  by_cases hv : isUVList c = true
  · simp only [hv, if_true]
    rw [hV hv nm]
    simp [List.any_eq_true, and_assoc]
  · have hu : isUnique c = true := by
      simp only [Bool.not_eq_true] at hv
      simp [hv] at hw'
      exact hw'.2
    simp only [hv]
    rw [hU hu nm]
    simp



theorem flatMap_congr_mem {α β : Type} {l : List α} {f g : α → List β} (h : ∀ x ∈ l, f x = g x) :
    l.flatMap f = l.flatMap g := by
  induction l with
  | nil => rfl
  | cons a r ih =>
    simp only [List.flatMap_cons]
    rw [h a List.mem_cons_self, ih (fun x hx => h x (List.mem_cons_of_mem _ hx))]

/-- no active entry hits the child's name: nothing is recorded for it -/
theorem checkChild_nil_of_nohit (ctx : TCtx) (rec : Rec) (child : Node) (names : Visit) (depth : Nat)
    (hcb : ctx.cb = cbContinue) (hrec : ∀ k n d, (rec k n d).2 = (d : Int))
    (h : ∀ e ∈ activeEntries ctx.pm (depth - ctx.rootDepth), hitB (depth - ctx.rootDepth) child.name e = false) :
    (checkChild ctx rec child names depth none).1 = [] := by
  have hp := checkChild_perm ctx rec child names depth hcb hrec
  have h1 : anyT ctx depth child (names ++ [child.name]) (activeEntries ctx.pm (depth - ctx.rootDepth)) = false := by
    simp only [anyT, List.any_eq_false]
    intro e he; simp [h e he]
  have h2 : anyR ctx depth child (activeEntries ctx.pm (depth - ctx.rootDepth)) = false := by
    simp only [anyR, List.any_eq_false]
    intro e he; simp [h e he]
  rw [h1, h2] at hp
  simpa using hp

theorem checkChild_known_eq (ctx : TCtx) (rec : Rec) (child : Node) (names : Visit) (depth : Nat) (i : Nat)
    (h : ∀ e, (activeEntries ctx.pm (depth - ctx.rootDepth))[i]? = some e → hitB (depth - ctx.rootDepth) child.name e = true) :
    checkChild ctx rec child names depth (some i) = checkChild ctx rec child names depth none := by
  unfold checkChild
  rw [checkEntries_known]
  intro e _ hg
  exact h e (by simpa using hg)

/-- one level of the traversal = `checkChild … none` over a duplicate-free sublist of the children that contains
    every child some active entry hits -/
theorem travLevel_shape (ctx : TCtx) (rec : Rec) (node : Node) (names : Visit) (depth : Nat)
    (hcb : ctx.cb = cbContinue) (hrec : ∀ k n d, (rec k n d).2 = (d : Int))
    (hwf : pmWF ctx.pm = true) (hl : ClauseLaws ctx.pm) (hkn : (node.kids.map Node.name).Nodup) :
    ∃ ks : List Node, (∀ k ∈ ks, k ∈ node.kids) ∧ ks.Pairwise (fun a b => a.name ≠ b.name) ∧
      travLevel ctx rec node names depth =
        (ks.flatMap (fun k => (checkChild ctx rec k names depth none).1), (depth : Int)) ∧
      ∀ k ∈ node.kids, k ∉ ks → (checkChild ctx rec k names depth none).1 = [] := by
  have hna : ∀ k known, (checkChild ctx rec k names depth known).2 = none :=
    fun k known => checkChild_snd ctx rec k names depth known hcb hrec
  unfold travLevel
  cases hw : parsersHaveWildcards ctx.pm (depth - ctx.rootDepth) with
  | true =>
    refine ⟨node.kids, fun _ h => h, ?_, ?_, fun k hk hn => absurd hk hn⟩
    · exact List.pairwise_map.1 hkn
    · simp only [hw, if_true]
      simp [travKids_eq ctx rec names depth hna]
  | false =>
    obtain ⟨a, b, c⟩ := lkEntries_spec node (depth - ctx.rootDepth) (activeEntries ctx.pm (depth - ctx.rootDepth)) 0 []
    refine ⟨(lkEntries node (depth - ctx.rootDepth) (activeEntries ctx.pm (depth - ctx.rootDepth)) 0 []).map (·.1),
      ?_, ?_, ?_, ?_⟩
    · intro k hk
      obtain ⟨p, hp, rfl⟩ := List.mem_map.1 hk
      obtain ⟨_, _, e, _, el, _, hf⟩ := a p hp
      exact (findKid_some hf).1
    · exact List.pairwise_map.2 b
    · simp only [hw, Bool.false_eq_true, if_false]
      rw [travLookups_eq ctx rec node names depth hna, List.flatMap_map, List.nil_append]
      congr 1
      apply flatMap_congr_mem
      intro p hp
      obtain ⟨_, _, e, hg, el, hel, hf⟩ := a p hp
      rw [checkChild_known_eq]
      intro e' hg'
      rw [Nat.sub_zero] at hg
      rw [hg] at hg'; cases hg'
      have he : e ∈ activeEntries ctx.pm (depth - ctx.rootDepth) := List.mem_of_getElem? hg
      exact (hit_iff_elem hwf hl hw he _).2 ⟨el, hel, (findKid_some hf).2⟩
    · intro k hk hn
      apply checkChild_nil_of_nohit ctx rec k names depth hcb hrec
      intro e he
      cases hh : hitB (depth - ctx.rootDepth) k.name e with
      | false => rfl
      | true =>
        exfalso; apply hn
        obtain ⟨el, hel, hnm⟩ := (hit_iff_elem hwf hl hw he _).1 hh
        have hf : findKid (unescape el) node.kids = some k := by rw [← hnm]; exact findKid_of_mem hkn hk
        rcases c e he el hel k hf with h | ⟨j, hj⟩
        · cases h
        · exact List.mem_map.2 ⟨(k, j), hj, rfl⟩

end Muscle.Reflector
