import MuscleModel.Reflector.MirrorProofs7

/-!
# C04 lemmas, part 8: the marking invariant over the engine `srv` itself

`LineOK toks`: if the op line parses to a command, the command is `CmdOK` (its SUBSCRIBE path is a `GoodPath`), and the
line is none of the server-side subtree ops `clone` / `save` / `restore` / `trees` (they are not commands of `Cmd`; the
states they reach are outside `MReach`).
`EInv st`: the engine's server state is `MReach` and every command waiting in an open batch is `CmdOK`.
Every op line whatsoever (`case` resets, `pump`, `wping`, `attach`, `detach`, `find`, `setm`, `batch begin/end`, queued and
direct commands, bad ops, poisoned cases) keeps `EInv`.
-/

set_option linter.unusedSimpArgs false
set_option linter.unusedVariables false

namespace Muscle.Reflector
open Muscle Muscle.Eng.SrvEngine

/-- the first token is one of the server-side subtree ops (`clone`, `save`, `restore`, `trees`): they are not commands of
    `Cmd`, and the states they reach are outside `MReach` -/
def isSubtreeOp : List String → Bool
  | op :: _ => op = "clone" || op = "save" || op = "restore" || op = "trees"
  | [] => false

/-- the op lines the invariant is proved for: if the line parses to a command the command is `CmdOK`, and the line is no
    server-side subtree op -/
def LineOK (toks : List String) : Prop := (∀ c, parseCmd toks = some c → CmdOK c) ∧ ¬ isSubtreeOp toks = true

def EInv (st : St) : Prop := MReach st.sv ∧ ∀ b ∈ st.batch, ∀ c ∈ b.2, CmdOK c

theorem mreach_setm (sid : Nat) (p : Bytes) (vs : List Nat) {sv : Server} (h : MReach sv) :
    MReach (vs.foldl (fun sv v => runCmd sv sid (.set p v false)) sv) := by
  induction vs generalizing sv with
  | nil => exact h
  | cons v r ih => simp only [List.foldl_cons]; exact ih (.cmd sid (.set p v false) trivial h)

theorem mreach_batch (sid : Nat) (cmds : List Cmd) (hc : ∀ c ∈ cmds, CmdOK c) {sv : Server} (h : MReach sv) :
    MReach (cmds.foldl (fun sv c => pushAll (runCmd sv sid c)) sv) := by
  induction cmds generalizing sv with
  | nil => exact h
  | cons c r ih =>
    simp only [List.foldl_cons]
    exact ih (fun x hx => hc x (List.mem_cons_of_mem _ hx)) (.push (.cmd sid c (hc c List.mem_cons_self) h))

theorem einv_init : EInv ({} : St) := ⟨.init, by intro b hb; cases hb⟩

theorem mreach_of_attach_eq {sv X : Server} {sl sid : Nat} {hh : Bytes} (e : attach sv sl hh = (X, sid)) (h : MReach sv) :
    MReach X := by
  have := MReach.attach sl hh h
  rw [e] at this
  exact this

theorem cmdsOK_of_find {st : St} {sl : Nat} {p : Nat × List Cmd}
    (e : st.batch.find? (fun (x : Nat × List Cmd) => match x with | (s, _) => decide (s = sl)) = some p) (h : EInv st) :
    ∀ c ∈ p.2, CmdOK c :=
  fun c hc => h.2 p (List.mem_of_find?_eq_some e) c hc

theorem einv_queue {st : St} (h : EInv st) (sl : Nat) (c : Cmd) (hc : CmdOK c) :
    ∀ b ∈ st.batch.map (fun (x : Nat × List Cmd) => match x with | (s, cs) => if s = sl then (s, cs ++ [c]) else (s, cs)),
      ∀ c' ∈ b.2, CmdOK c' := by
  intro b hb c' hc'
  obtain ⟨b0, hb0, rfl⟩ := List.mem_map.1 hb
  obtain ⟨s0, cs0⟩ := b0
  simp only [] at hc'
  split at hc'
  · rcases List.mem_append.1 hc' with hc' | hc'
    · exact h.2 _ hb0 c' hc'
    · simp only [List.mem_singleton] at hc'; subst hc'; exact hc
  · exact h.2 _ hb0 c' hc'

/-- one op line.  Every alternative fetches the facts it needs BY TYPE (`by assumption`), not by position. -/
theorem einv_step {st : St} (toks : List String) (hl : LineOK toks) (h : EInv st) : EInv (step st toks).1 := by
  unfold step
  repeat' split
  all_goals first
    | exact h
    | exact einv_init
    | exact ⟨.pump h.1, h.2⟩
    | exact ⟨.push (.cmd _ (.ping _) trivial h.1), h.2⟩
    | exact ⟨.detach _ h.1, fun b hb => h.2 b (List.mem_filter.1 hb).1⟩
    | exact ⟨.push (mreach_setm _ _ _ h.1), h.2⟩
    | exact ⟨mreach_of_attach_eq (by assumption) h.1, h.2⟩
    | exact absurd (by assumption) hl.2
    | (refine ⟨h.1, ?_⟩
       intro b hb c hc
       rcases List.mem_append.1 hb with hb | hb
       · exact h.2 b hb c hc
       · simp only [List.mem_singleton] at hb; subst hb; cases hc)
    | exact ⟨.push (mreach_batch _ _ (cmdsOK_of_find (by assumption) h) h.1),
        fun b hb => h.2 b (List.mem_filter.1 hb).1⟩
    | exact ⟨h.1, einv_queue h _ _ (hl.1 _ (by assumption))⟩
    | exact ⟨.push (.cmd _ _ (hl.1 _ (by assumption)) h.1), h.2⟩

/-- every state of the engine on an op stream all of whose lines are `LineOK` -/
theorem einv_engine (lines : List (List String)) (hl : ∀ toks ∈ lines, LineOK toks) :
    EInv (lines.foldl (fun st toks => (step st toks).1) ({} : St)) := by
  suffices H : ∀ (st : St), EInv st → EInv (lines.foldl (fun st toks => (step st toks).1) st) from H _ einv_init
  induction lines with
  | nil => intro st h; exact h
  | cons t r ih =>
    intro st h
    simp only [List.foldl_cons]
    exact ih (fun x hx => hl x (List.mem_cons_of_mem _ hx)) _ (einv_step t (hl t List.mem_cons_self) h)

end Muscle.Reflector
