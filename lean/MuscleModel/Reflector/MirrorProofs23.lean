import MuscleModel.Reflector.MirrorProofs22

/-!
# C04 lemmas, part 23: the index commands in the histories

* `InsertOrderedChild` = counter update (no payload changes), `PutChild` of a leaf with the created-notification
  (`createStep`), index entry + `NodeIndexChanged` (index Messages are no data lines): `syncAll_insertOrderedChild`;
* PR_COMMAND_INSERTORDEREDDATA (`syncFor_insertOrdered`), SETDATA with SETDATANODE_FLAG_ADDTOINDEX
  (`syncFor_setIndexed`), PR_COMMAND_REORDERDATA (`quiet_reorder`) of ANY session (the sender's own `indexingPresent` flag
  changes; it is not part of `vcore`, so this is an empty step for the sender too).
* `InsDepthOK`: the nodes the insert traversal visits lie above the depth the model sees (no `MUSCLE_MAX_NODE_DEPTH` check
  in the model).
-/

set_option linter.unusedSimpArgs false
set_option linter.unusedVariables false

namespace Muscle.Reflector
open Muscle Muscle.Eng.SrvEngine

theorem syncAll_setField {sv : Server} (path : List Bytes) (f : Node → Node) (hname : ∀ n, (f n).name = n.name)
    (hkids : ∀ n, (f n).kids = n.kids) (hdata : ∀ n, (f n).data = n.data) : SyncAll sv (setNode sv path f) :=
  syncAll_of_kept (DataKept.of_sessions rfl) (fun w => mr_setField_data_all hname hkids hdata sv path w)

theorem good_setField {sv : Server} (h : Good sv) (path : List Bytes) (f : Node → Node) (hname : ∀ n, (f n).name = n.name)
    (hkids : ∀ n, (f n).kids = n.kids) (hsubs : ∀ n, (f n).subs = n.subs) : Good (setNode sv path f) :=
  ⟨h.1.setField path f hname hkids hsubs, NS.setField path f hname hkids h.2⟩

theorem syncAll_notifyIndex (sv : Server) (names : List Bytes) (node : Node) (instr : Bytes) :
    SyncAll sv (notifyIndex sv names node instr) :=
  syncAll_of_kept (dataKept_notifyIndex sv names node instr) (fun w => by rw [getNode_notifyIndex])

/-- `InsertOrderedChild` of an absent name under an existing node of the sender's subtree -/
theorem syncAll_insertOrderedChild {sv : Server} (h : Good sv) {a : Nat} {own : List Bytes} (hown : SameOwn a own sv)
    {parent : List Bytes} (hpre : own <+: parent) {p : Node} (hp : getNode sv parent = some p) (d : Option Nat)
    (before name : Bytes) (hk : findKid (ordPair p name).1 p.kids = none) (hnm : cSlash ∉ (ordPair p name).1)
    (hlen : parent.length < fuelDepth) :
    SyncAll sv (insertOrderedChild sv a parent d before name true) ∧
      Good (insertOrderedChild sv a parent d before name true) ∧
      SameOwn a own (insertOrderedChild sv a parent d before name true) := by
  generalize hnmd : (ordPair p name).1 = nm at hk hnm
  generalize hctr : (ordPair p name).2 = ctr'
  -- counter, then the put with notification
  have s1 : SyncAll sv (setNode sv parent (fun q => q.setCtr ctr')) :=
    syncAll_setField parent _ (fun _ => rfl) (fun _ => rfl) (fun _ => rfl)
  have g1 : Good (setNode sv parent (fun q => q.setCtr ctr')) :=
    good_setField h parent _ (fun _ => rfl) (fun _ => rfl) (fun _ => rfl)
  have o1 : SameOwn a own (setNode sv parent (fun q => q.setCtr ctr')) := sameOwn_setNode _ _ hown
  have hp1 : getNode (setNode sv parent (fun q => q.setCtr ctr')) parent = some (p.setCtr ctr') := by
    rw [getNode_setNode (by intro _; rfl), hp]; rfl
  have hk1 : findKid nm (p.setCtr ctr').kids = none := hk
  have hput : insertOrderedPut sv a parent d nm ctr' true =
      createStep (setNode sv parent (fun q => q.setCtr ctr')) a parent nm d := by
    unfold insertOrderedPut
    exact putChild_notify_absent _ a parent nm d hp1 hk1
  have s2 := syncAll_createStep g1 o1 hpre hp1 nm hk1 hlen hnm d
  have g2 := good_createStep g1 a parent nm d hnm
  have o2 := sameOwn_createStep o1 parent nm d
  by_cases hb : before = removeFromIndexName
  · rw [insertOrderedChild_unindexed a d name true hp hb, hnmd, hctr, hput]
    exact ⟨s1.trans s2, g2, o2⟩
  · rw [insertOrderedChild_emits a d name true hp hb, hnmd, hctr]
    unfold insertOrderedPre
    rw [hput]
    have s3 : SyncAll (createStep (setNode sv parent (fun q => q.setCtr ctr')) a parent nm d)
        (setNode (createStep (setNode sv parent (fun q => q.setCtr ctr')) a parent nm d) parent
          (fun q => q.setIndex (q.index.take (insertPos p.index before) ++ [nm] ++ q.index.drop (insertPos p.index before)))) :=
      syncAll_setField parent _ (fun _ => rfl) (fun _ => rfl) (fun _ => rfl)
    refine ⟨(s1.trans s2).trans (s3.trans (syncAll_notifyIndex _ _ _ _)), ?_, ?_⟩
    · have g3 := good_setField g2 parent (fun q => q.setIndex (q.index.take (insertPos p.index before) ++ [nm] ++
        q.index.drop (insertPos p.index before))) (fun _ => rfl) (fun _ => rfl) (fun _ => rfl)
      exact ⟨g3.1.notifyIndex _ _ _, (ns_notifyIndex _ _ _ _).2 g3.2⟩
    · exact sameOwn_of_notify (notifyIndex_notify ..) (sameOwn_setNode _ _ o2)

/-! ## the flag update of the sender -/

theorem good_updSess_flag {sv : Server} (h : Good sv) (a : Nat) :
    Good (sv.updSess a (fun s => { s with indexingPresent := true })) :=
  ⟨h.1.updSess_keep _ _ (fun _ => ⟨rfl, rfl⟩), (ns_updSess _ _ _).2 h.2⟩

theorem sameOwn_updSess_flag {sv : Server} {a : Nat} {own : List Bytes} (h : SameOwn a own sv) :
    SameOwn a own (sv.updSess a (fun s => { s with indexingPresent := true })) := by
  obtain ⟨sa, hsa, hn⟩ := h
  exact ⟨_, sess?_updSess_same sv a _ (by intro _; rfl) hsa, hn⟩

/-- the sender's indexing flag: an empty step for everybody, the sender included (the flag is not part of `vcore`) -/
theorem quiet_updSess_flag (sid a : Nat) (sv : Server) :
    Quiet sid sv (sv.updSess a (fun s => { s with indexingPresent := true })) := by
  by_cases ha : a = sid
  · subst ha
    refine ⟨?_, fun _ => rfl⟩
    intro s hs
    refine ⟨{ s with indexingPresent := true }, [], ?_, rfl, by simp [dataLines], fun _ => rfl⟩
    refine sess?_updSess_same sv a _ ?_ hs
    intro _; rfl
  · exact quiet_updSess_other ha sv (fun s => { s with indexingPresent := true }) (fun _ => rfl)

theorem syncFor_updSess_flag (sid a : Nat) (sv : Server) :
    SyncFor sid sv (sv.updSess a (fun s => { s with indexingPresent := true })) :=
  (quiet_updSess_flag sid a sv).syncFor

/-! ## PR_COMMAND_INSERTORDEREDDATA -/

/-- one insert step of the handler (generated name), on whatever the current state is -/
theorem syncFor_insertStep {sid a : Nat} {sv : Server} (h : Good sv) {own : List Bytes}
    (hown : SameOwn a own sv) (v : List Bytes) (hpre : own <+: v) (hlen : v.length < fuelDepth) (x : Nat) (before : Bytes) :
    SyncFor sid sv ((insertOrderedChild sv a v (some x) before [] true).updSess a (fun s => { s with indexingPresent := true })) ∧
    Good ((insertOrderedChild sv a v (some x) before [] true).updSess a (fun s => { s with indexingPresent := true })) ∧
    SameOwn a own ((insertOrderedChild sv a v (some x) before [] true).updSess a (fun s => { s with indexingPresent := true })) := by
  cases hp : getNode sv v with
  | none =>
    have : insertOrderedChild sv a v (some x) before [] true = sv := by simp [insertOrderedChild, hp]
    rw [this]
    exact ⟨syncFor_updSess_flag sid a sv, good_updSess_flag h a, sameOwn_updSess_flag hown⟩
  | some p =>
    have hk : findKid (ordPair p []).1 p.kids = none := ordPair_fresh p rfl
    have hnm : cSlash ∉ (ordPair p []).1 := by
      unfold ordPair; simp only [List.isEmpty_nil, if_true]; exact noSlash_autoName _ _ _
    obtain ⟨s1, g1, o1⟩ := syncAll_insertOrderedChild h hown hpre hp (some x) before [] hk hnm hlen
    exact ⟨(s1.for sid).trans (syncFor_updSess_flag sid a _), good_updSess_flag g1 a, sameOwn_updSess_flag o1⟩

/-- the nodes the insert traversal visits lie above the depth the model sees -/
def InsDepthOK (sv : Server) (a : Nat) (key : Bytes) : Prop :=
  ∀ sa, sv.sess? a = some sa → ∀ v ∈ travSession sv sa (pmOfKeys [(key, none)] none) cbContinue, v.length < fuelDepth

theorem syncFor_insertOrdered {sid a : Nat} {sv : Server} (h : Good sv) (key before : Bytes) (vals : List Nat)
    (hd : InsDepthOK sv a key) :
    SyncFor sid sv (insertOrdered sv a key before vals) ∧ Good (insertOrdered sv a key before vals) := by
  unfold insertOrdered
  cases hsa : sv.sess? a with
  | none => exact ⟨SyncFor.refl sid sv, h⟩
  | some sa =>
    simp only []
    have hV : ∀ v ∈ travSession sv sa (pmOfKeys [(key, none)] none) cbContinue,
        sessNames sa <+: v ∧ v.length < fuelDepth :=
      fun v hv => ⟨travSession_prefix sv sa _ _ v hv, hd sa hsa v hv⟩
    generalize travSession sv sa (pmOfKeys [(key, none)] none) cbContinue = V at hV
    have inner : ∀ (xs : List Nat) (v : List Bytes), sessNames sa <+: v → v.length < fuelDepth → ∀ (X : Server), Good X →
        SameOwn a (sessNames sa) X →
        SyncFor sid X (xs.foldl (fun sv x => (insertOrderedChild sv a v (some x) before [] true).updSess a
          (fun s => { s with indexingPresent := true })) X) ∧
        Good (xs.foldl (fun sv x => (insertOrderedChild sv a v (some x) before [] true).updSess a
          (fun s => { s with indexingPresent := true })) X) ∧
        SameOwn a (sessNames sa) (xs.foldl (fun sv x => (insertOrderedChild sv a v (some x) before [] true).updSess a
          (fun s => { s with indexingPresent := true })) X) := by
      intro xs v hpre hlen
      induction xs with
      | nil => intro X g o; exact ⟨SyncFor.refl sid X, g, o⟩
      | cons x r ih =>
        intro X g o
        simp only [List.foldl_cons]
        obtain ⟨s1, g1, o1⟩ := syncFor_insertStep (sid := sid) g o v hpre hlen x before
        obtain ⟨s2, g2, o2⟩ := ih _ g1 o1
        exact ⟨s1.trans s2, g2, o2⟩
    have outer : ∀ (V : List (List Bytes)), (∀ v ∈ V, sessNames sa <+: v ∧ v.length < fuelDepth) → ∀ (X : Server), Good X →
        SameOwn a (sessNames sa) X →
        SyncFor sid X (V.foldl (fun sv v => vals.foldl (fun sv x => (insertOrderedChild sv a v (some x) before [] true).updSess a
          (fun s => { s with indexingPresent := true })) sv) X) ∧
        Good (V.foldl (fun sv v => vals.foldl (fun sv x => (insertOrderedChild sv a v (some x) before [] true).updSess a
          (fun s => { s with indexingPresent := true })) sv) X) := by
      intro V
      induction V with
      | nil => intro _ X g _; exact ⟨SyncFor.refl sid X, g⟩
      | cons v r ih =>
        intro hV X g o
        simp only [List.foldl_cons]
        obtain ⟨hpre, hlen⟩ := hV v List.mem_cons_self
        obtain ⟨s1, g1, o1⟩ := inner vals v hpre hlen X g o
        obtain ⟨s2, g2⟩ := ih (fun w hw => hV w (List.mem_cons_of_mem _ hw)) _ g1 o1
        exact ⟨s1.trans s2, g2⟩
    exact outer V hV sv h ⟨sa, hsa, rfl⟩

/-! ## SETDATA with the index flag -/

theorem setDataClausesI_step (a : Nat) (d : Option Nat) {sv : Server} {cur : List Bytes} {node : Node}
    (hp : getNode sv cur = some node) (cl : Bytes) (rest : List Bytes) :
    (findKid cl node.kids = none → rest = [] → setDataClauses a d true sv cur (cl :: rest) =
      (insertOrderedChild sv a cur d [] cl true).updSess a (fun s => { s with indexingPresent := true })) ∧
    (findKid cl node.kids = none → rest ≠ [] →
      setDataClauses a d true sv cur (cl :: rest) = setDataClauses a d true (createStep sv a cur cl none) (cur ++ [cl]) rest) ∧
    (∀ child, findKid cl node.kids = some child → rest = [] → setDataClauses a d true sv cur (cl :: rest) = sv) ∧
    (∀ child, findKid cl node.kids = some child → rest ≠ [] →
      setDataClauses a d true sv cur (cl :: rest) = setDataClauses a d true sv (cur ++ [cl]) rest) := by
  refine ⟨?_, ?_, ?_, ?_⟩
  · intro hk hr; subst hr
    simp [setDataClauses, hp, hk]
  · intro hk hr
    have hre : rest.isEmpty = false := by cases rest <;> simp_all
    rw [setDataClauses]
    simp only [hp, hk, hre, Bool.false_and, Bool.false_eq_true, if_false, Bool.not_false]
    congr 1
    exact putChild_notify_absent sv a cur cl none hp hk
  · intro child hk hr; subst hr
    simp [setDataClauses, hp, hk]
  · intro child hk hr
    have hre : rest.isEmpty = false := by cases rest <;> simp_all
    rw [setDataClauses]
    simp only [hp, hk, hre, Bool.false_and, Bool.false_eq_true, if_false]

theorem syncFor_setDataClausesI {sid a : Nat} (d : Option Nat) (own : List Bytes) :
    ∀ (cls : List Bytes) (sv : Server) (cur : List Bytes), Good sv → SameOwn a own sv → own <+: cur →
      (∀ c ∈ cls, cSlash ∉ c) → cur.length + cls.length ≤ fuelDepth →
      SyncFor sid sv (setDataClauses a d true sv cur cls) ∧ Good (setDataClauses a d true sv cur cls) := by
  intro cls
  induction cls with
  | nil => intro sv cur h _ _ _ _; simp only [setDataClauses]; exact ⟨SyncFor.refl sid sv, h⟩
  | cons cl rest ih =>
    intro sv cur h ho hpre hcls hlen
    have hcl : cSlash ∉ cl := hcls cl List.mem_cons_self
    have hrs : ∀ c ∈ rest, cSlash ∉ c := fun c hc => hcls c (List.mem_cons_of_mem _ hc)
    have hlen1 : cur.length < fuelDepth := by simp at hlen; omega
    have hlen2 : (cur ++ [cl]).length + rest.length ≤ fuelDepth := by simp at hlen ⊢; omega
    have hpre2 : own <+: cur ++ [cl] := hpre.trans (List.prefix_append _ _)
    cases hp : getNode sv cur with
    | none =>
      have : setDataClauses a d true sv cur (cl :: rest) = sv := by simp [setDataClauses, hp]
      rw [this]; exact ⟨SyncFor.refl sid sv, h⟩
    | some node =>
      obtain ⟨e1, e2, e3, e4⟩ := setDataClausesI_step a d hp cl rest
      cases hk : findKid cl node.kids with
      | none =>
        by_cases hr : rest = []
        · rw [e1 hk hr]
          have hnm : (ordPair node cl).1 = cl ∨ cl.isEmpty = true := by
            unfold ordPair
            by_cases he : cl.isEmpty = true
            · exact Or.inr he
            · left; rw [if_neg he]
          by_cases he : cl.isEmpty = true
          · -- an empty clause cannot occur (`pathClauses` filters them); generated name
            have hk' : findKid (ordPair node cl).1 node.kids = none := ordPair_fresh node he
            have hn' : cSlash ∉ (ordPair node cl).1 := by
              unfold ordPair; rw [if_pos he]; exact noSlash_autoName _ _ _
            obtain ⟨s1, g1, _⟩ := syncAll_insertOrderedChild h ho hpre hp d [] cl hk' hn' hlen1
            exact ⟨(s1.for sid).trans (syncFor_updSess_flag sid a _), good_updSess_flag g1 a⟩
          · have hop : (ordPair node cl).1 = cl := by unfold ordPair; rw [if_neg he]
            obtain ⟨s1, g1, _⟩ := syncAll_insertOrderedChild h ho hpre hp d [] cl (by rw [hop]; exact hk)
              (by rw [hop]; exact hcl) hlen1
            exact ⟨(s1.for sid).trans (syncFor_updSess_flag sid a _), good_updSess_flag g1 a⟩
        · rw [e2 hk hr]
          have s1 := syncAll_createStep h ho hpre hp cl hk hlen1 hcl none
          obtain ⟨s2, g2⟩ := ih (createStep sv a cur cl none) (cur ++ [cl]) (good_createStep h a cur cl none hcl)
            (sameOwn_createStep ho cur cl none) hpre2 hrs hlen2
          exact ⟨(s1.for sid).trans s2, g2⟩
      | some child =>
        by_cases hr : rest = []
        · rw [e3 child hk hr]; exact ⟨SyncFor.refl sid sv, h⟩
        · rw [e4 child hk hr]
          exact ih sv (cur ++ [cl]) h ho hpre2 hrs hlen2

theorem syncFor_setIndexed {sid a : Nat} {sv : Server} (h : Good sv) (path : Bytes) (hok : SetOK path)
    (x : Nat) : SyncFor sid sv (runCmd sv a (.set path x true)) ∧ Good (runCmd sv a (.set path x true)) := by
  show SyncFor sid sv (setDataNode sv a path (some x) true) ∧ Good (setDataNode sv a path (some x) true)
  unfold setDataNode
  cases hsa : sv.sess? a with
  | none => exact ⟨SyncFor.refl sid sv, h⟩
  | some sa =>
    simp only []
    cases path with
    | nil => exact ⟨SyncFor.refl sid sv, h⟩
    | cons c r =>
      simp only []
      split
      · exact ⟨SyncFor.refl sid sv, h⟩
      · exact syncFor_setDataClausesI (sid := sid) (some x) (sessNames sa) (pathClauses (c :: r)) sv (sessNames sa) h ⟨sa, hsa, rfl⟩
          (List.prefix_refl _) (noSlash_pathClauses _) (by unfold SetOK at hok; simpa [sessNames] using hok)

/-! ## PR_COMMAND_REORDERDATA -/

/-- sessions keep what the data pipe reads and the tree keeps every payload -/
def Kept (sv sv' : Server) : Prop :=
  DataKept sv sv' ∧ ∀ w, (getNode sv' w).map Node.data = (getNode sv w).map Node.data

theorem Kept.refl (sv : Server) : Kept sv sv := ⟨DataKept.refl sv, fun _ => rfl⟩

theorem Kept.trans {a b c : Server} (h1 : Kept a b) (h2 : Kept b c) : Kept a c :=
  ⟨h1.1.trans h2.1, fun w => (h2.2 w).trans (h1.2 w)⟩

theorem kept_setIndex (X : Server) (parent : List Bytes) (g : Node → List Bytes) :
    Kept X (setNode X parent (fun q => q.setIndex (g q))) :=
  ⟨DataKept.of_sessions rfl, fun w => mr_setField_data_all (f := fun q => q.setIndex (g q)) (fun _ => rfl)
    (fun _ => rfl) (fun _ => rfl) X parent w⟩

theorem kept_notifyIndex (X : Server) (names : List Bytes) (node : Node) (instr : Bytes) :
    Kept X (notifyIndex X names node instr) :=
  ⟨dataKept_notifyIndex X names node instr, fun w => by rw [getNode_notifyIndex]⟩

theorem kept_removeIndexEntry (X : Server) (parent : List Bytes) (key : Bytes) (notify : Bool) :
    Kept X (removeIndexEntry X parent key notify) := removeIndexEntry_kept X parent key notify

theorem quietAll_reorderChild (sv : Server) (parent : List Bytes) (child before : Bytes) :
    Kept sv (reorderChild sv parent child before) := by
  unfold reorderChild
  repeat' (first | split | simp only [])
  all_goals repeat (first
    | exact Kept.refl _
    | exact kept_removeIndexEntry ..
    | refine Kept.trans ?_ (kept_notifyIndex ..)
    | refine Kept.trans ?_ (kept_setIndex _ _ (fun q => q.index.take _ ++ [child] ++ q.index.drop _)))

theorem quiet_of_dataKept {sid : Nat} {sv sv' : Server} (hd : DataKept sv sv')
    (hdata : ∀ w, (getNode sv' w).map Node.data = (getNode sv w).map Node.data) : Quiet sid sv sv' :=
  ⟨pipeStep_of_dataKept hd sid, hdata⟩

theorem quiet_reorder (sid a : Nat) (sv : Server) (key before : Bytes) :
    Quiet sid sv (Reflector.reorder sv a key before) := by
  have hcore : Quiet sid sv (reorderCore sv a key before) := by
    unfold reorderCore
    split
    · exact Quiet.refl sid sv
    · simp only []
      apply Quiet.foldl
      intro X v
      repeat' split
      all_goals first
        | exact Quiet.refl sid X
        | exact quiet_of_dataKept (quietAll_reorderChild X _ _ _).1 (quietAll_reorderChild X _ _ _).2
  unfold Reflector.reorder
  simp only []
  repeat' split
  all_goals first
    | exact hcore
    | exact hcore.trans (quiet_updSess_flag sid a _)

end Muscle.Reflector
