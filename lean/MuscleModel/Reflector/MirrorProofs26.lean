import MuscleModel.Reflector.MirrorProofs25

/-!
# C04 lemmas, part 26: `converges` for subscription sets that change — new SUBSCRIBEs and unsubscribes of the subscriber
itself, with the client's drop rule threaded through the replay

* `In` = what the client consumes: a PR_RESULT_DATAITEMS Message, or its own unsubscribe (with the subscription set that
  remains); `client m items` = the client's fold (`applyMsg` / `applyUnsub`); `msgsOf items` = the Messages among them.
* `Run sid`: segments of `Story` ending with nothing pending for `sid`, SUBSCRIBEs of NEW paths by `sid` (`GoodPath`, not yet
  subscribed under that normalised spelling — F10 excluded —, `SnapVisits`), unsubscribes by `sid`; in any order.
* `converges_run`: from a quiescent state with a right mirror, after any `Run`, the data lines appended to the inbox are the
  text of the Messages among `items`, nothing is pending, and the client's fold over `items` is a right mirror.
-/

set_option linter.unusedSimpArgs false
set_option linter.unusedVariables false

namespace Muscle.Reflector
open Muscle Muscle.Eng.SrvEngine

inductive In where
  | data (u : UpdMsg)
  | unsub (remaining : PM)

def clientStep (m : Mirror) : In → Mirror
  | .data u => applyMsg m u
  | .unsub pm => applyUnsub pm m

def client (m : Mirror) (items : List In) : Mirror := items.foldl clientStep m

def msgsOf (items : List In) : List UpdMsg := items.filterMap (fun i => match i with | .data u => some u | .unsub _ => none)

theorem client_append (m : Mirror) (a b : List In) : client m (a ++ b) = client (client m a) b := by
  simp [client, List.foldl_append]

theorem msgsOf_append (a b : List In) : msgsOf (a ++ b) = msgsOf a ++ msgsOf b := by
  simp [msgsOf, List.filterMap_append]

theorem client_data (m : Mirror) (sent : List UpdMsg) : client m (sent.map In.data) = applyMsgs m sent := by
  induction sent generalizing m with
  | nil => rfl
  | cons u r ih =>
    simp only [List.map_cons, client, List.foldl_cons, clientStep, applyMsgs] at ih ⊢
    exact ih (applyMsg m u)

theorem msgsOf_data (sent : List UpdMsg) : msgsOf (sent.map In.data) = sent := by
  induction sent with
  | nil => rfl
  | cons u r ih => simp only [List.map_cons, msgsOf, List.filterMap_cons] at ih ⊢; rw [ih]

/-- the premises of a SUBSCRIBE of a new path by `sid` in state `sv` -/
def SubNewOK (sid : Nat) (sv : Server) (path : Bytes) (f : Option Filt) : Prop :=
  GoodPath (adjustPrefix path (some defaultPrefix)) ∧
  ∀ s, sv.sess? sid = some s →
    pmFind s.subs (adjustPrefix path (some defaultPrefix)) = none ∧
    SnapVisits (subC sv sid path f) (subSess s path f) (adjustPrefix path (some defaultPrefix)) f

theorem treeInv_subC {sv : Server} (h : TreeInv sv) (sid : Nat) (path : Bytes) (f : Option Filt) :
    TreeInv (subC sv sid path f) := by
  unfold subC
  exact treeInv_updSess _ _ (treeInv_subscribeRefs _ _ _ (treeInv_updSess _ _ h))

/-- for a subscriber that reflects to itself the premises reduce to `GoodPath` and "not yet subscribed under this
    normalised spelling" -/
theorem subNewOK_of_reflectSelf {sid : Nat} {sv : Server} (hti : TreeInv sv) (path : Bytes) (f : Option Filt)
    (hgood : GoodPath (adjustPrefix path (some defaultPrefix)))
    (h : ∀ s, sv.sess? sid = some s → s.reflectSelf = true ∧ pmFind s.subs (adjustPrefix path (some defaultPrefix)) = none) :
    SubNewOK sid sv path f :=
  ⟨hgood, fun s hs => ⟨(h s hs).2, snapVisits_reflectSelf (treeInv_subC hti sid path f) (sC := subSess s path f)
    (h s hs).1 hgood f⟩⟩

inductive Run (sid : Nat) : Server → Server → Prop
  | seg {a b : Server} : Story sid a b → (∀ s', b.sess? sid = some s' → pend s' = {}) → Run sid a b
  | subNew {sv : Server} (path : Bytes) (f : Option Filt) : SubNewOK sid sv path f → Run sid sv (runCmd sv sid (.sub path f))
  | unsub {sv : Server} (path : Bytes) : Run sid sv (runCmd sv sid (.unsub path))
  | trans {a b c : Server} : Run sid a b → Run sid b c → Run sid a c

/-- the state of the subscriber and its client at a quiescent point -/
structure Quiescent (sid : Nat) (sv : Server) (s : Sess) (m : Mirror) : Prop where
  inv : Inv2 sv
  sess : sv.sess? sid = some s
  enabled : s.subsEnabled = true
  nothing : pend s = {}
  mirror : MirrorOK sv s m

theorem unsubscribe_enabled {sv : Server} {sid : Nat} {s s2 : Sess} (h0 : sv.sess? sid = some s) (path : Bytes)
    (hU : (unsubscribe sv sid path).sess? sid = some s2) : s2.subsEnabled = s.subsEnabled := by
  unfold unsubscribe at hU
  rw [h0] at hU
  simp only [] at hU
  split at hU
  · rw [h0] at hU; cases hU; rfl
  · split at hU
    · have h1 : (sv.updSess sid (fun t => { t with subs := pmRemove t.subs (adjustPrefix path (some defaultPrefix)) })).sess? sid =
          some { s with subs := pmRemove s.subs (adjustPrefix path (some defaultPrefix)) } := by
        refine sess?_updSess_same _ sid _ ?_ h0
        intro _; rfl
      have h2 : (subscribeRefs (sv.updSess sid (fun t => { t with subs := pmRemove t.subs (adjustPrefix path (some defaultPrefix)) }))
          sid (pmPut [] (adjustPrefix path (some defaultPrefix)) none) (some (-1))).sess? sid =
          some { s with subs := pmRemove s.subs (adjustPrefix path (some defaultPrefix)) } := by
        unfold subscribeRefs
        unfold Server.sess? at h1 ⊢
        rw [foldl_setNode_sessions]; exact h1
      rw [sess?_updSess_same _ sid _ (by intro _; rfl) h2] at hU
      cases hU; rfl
    · rw [sess?_updSess_same _ sid _ (by intro _; rfl) h0] at hU
      cases hU; rfl

theorem run_step {sid : Nat} {sv sv' : Server} (hr : Run sid sv sv') :
    ∀ {s : Sess} {m : Mirror}, Quiescent sid sv s m →
      ∃ s' items, Quiescent sid sv' s' (client m items) ∧
        dataLines s' = dataLines s ++ (msgsOf items).map dataText ∧ s'.sid = s.sid ∧ s'.reflectSelf = s.reflectSelf := by
  induction hr with
  | seg hst hq =>
    intro s m q
    obtain ⟨s', sent, hs', hc, hd, hm', hinv'⟩ := converges_story_core hst q.inv q.sess q.enabled q.nothing hq m q.mirror
    have hen' : s'.subsEnabled = true := by
      have := congrArg Sess.subsEnabled hc
      have h' : s'.subsEnabled = s.subsEnabled := this
      rw [h']; exact q.enabled
    refine ⟨s', sent.map In.data, ⟨hinv', hs', hen', hq s' hs', by rw [client_data]; exact hm'⟩, ?_, ?_, ?_⟩
    · rw [msgsOf_data]; exact hd
    · have := congrArg Sess.sid hc; exact this
    · have := congrArg Sess.reflectSelf hc; exact this
  | subNew path f hok =>
    intro s m q
    obtain ⟨hgood, hrest⟩ := hok
    obtain ⟨hf, hV⟩ := hrest s q.sess
    obtain ⟨sD, sent, hsD, hcD, hnD, hdD, hmD⟩ := subscribe_new_replay q.inv.1 q.sess path f hgood hf hV m q.mirror
    have hen' : sD.subsEnabled = true := by
      have := congrArg Sess.subsEnabled hcD
      have h' : sD.subsEnabled = s.subsEnabled := this
      rw [h']; exact q.enabled
    refine ⟨sD, sent.map In.data, ⟨q.inv.runCmd sid _ hgood, hsD, hen', ?_, by rw [client_data]; exact hmD⟩, ?_, ?_, ?_⟩
    · have := q.nothing; unfold pend at this ⊢; rw [hnD]; exact this
    · rw [msgsOf_data]; exact hdD
    · have := congrArg Sess.sid hcD; exact this
    · have := congrArg Sess.reflectSelf hcD; exact this
  | @unsub svu path =>
    intro s m q
    obtain ⟨s2, hs2, hnd2, hin2, hm2⟩ := unsubscribe_step q.inv.1 q.sess path m q.mirror
    obtain ⟨⟨s', hs', hsid, hrs, _, _, _⟩, _⟩ := unsubscribe_shape q.sess path
    have e : s' = s2 := by rw [hs'] at hs2; exact Option.some.inj hs2
    subst e
    have hen' : s'.subsEnabled = true := by rw [unsubscribe_enabled q.sess path hs']; exact q.enabled
    refine ⟨s', [In.unsub s'.subs], ⟨q.inv.runCmd sid _ trivial, hs', hen', ?_, hm2⟩, ?_, hsid, hrs⟩
    · have := q.nothing; unfold pend at this ⊢; rw [hnd2]; exact this
    · simp [msgsOf, dataLines, hin2]
  | trans _ _ ih1 ih2 =>
    intro s m q
    obtain ⟨s1, it1, q1, hd1, hsid1, hrs1⟩ := ih1 q
    obtain ⟨s2, it2, q2, hd2, hsid2, hrs2⟩ := ih2 q1
    refine ⟨s2, it1 ++ it2, by rw [client_append]; exact q2, ?_, hsid2.trans hsid1, hrs2.trans hrs1⟩
    rw [msgsOf_append, List.map_append, ← List.append_assoc, ← hd1, hd2]

/-- a session without subscriptions and its empty client mirror are a quiescent point when nothing is pending -/
theorem quiescent_nosubs {sid : Nat} {sv : Server} (h : Inv2 sv) {s : Sess} (hs : sv.sess? sid = some s)
    (hnos : s.subs = []) (hen : s.subsEnabled = true) (hq : pend s = {}) : Quiescent sid sv s (fun _ => none) :=
  ⟨h, hs, hen, hq, mirrorOK_nosubs sv hnos⟩

/-- CONVERGENCE with a changing subscription set.  From a state with the invariants in which `sid` has no subscription,
    nothing pending and an empty client mirror, after any `Run`: the client's fold over what it consumed is a right
    mirror, nothing is pending, and the data lines of the inbox grew by the text of the Messages consumed. -/
theorem converges_run {sid : Nat} {sv0 sv' : Server} (h0 : Inv2 sv0) {s0 : Sess} (hs0 : sv0.sess? sid = some s0)
    (hnos : s0.subs = []) (hen : s0.subsEnabled = true) (hq0 : pend s0 = {}) (hr : Run sid sv0 sv') :
    ∃ s' items, sv'.sess? sid = some s' ∧ pend s' = {} ∧
      dataLines s' = dataLines s0 ++ (msgsOf items).map dataText ∧
      MirrorOK sv' s' (client (fun _ => none) items) := by
  obtain ⟨s', items, q', hd, _, _⟩ := run_step hr (quiescent_nosubs h0 hs0 hnos hen hq0)
  exact ⟨s', items, q'.sess, q'.nothing, hd, q'.mirror⟩

end Muscle.Reflector
